/-
  IsoDT.Lemmas.Cache — proofs about the cache state machine of IsoDT.Model.Cache:
  monotonicity of the cache-free semantics in the call-depth bound, independence of the mode for
  functions outside the dependent set, soundness and completeness of memoised evaluation with
  respect to the cache-free semantics under the key discipline.
-/
import IsoDT.Model.Cache

namespace IsoDT.Lemmas.Cache
open IsoDT.Gen.Cache (FnRec Site Table)
open IsoDT.Model.Cache

variable {V : Type}

/-! ## What `KeyDiscipline` gives -/

theorem fnOf_ge (T : Table) (f : Fn) (h : ¬ f < T.fns.length) : fnOf T f = noFn := by
  unfold fnOf
  have hle : T.fns.length ≤ f := Nat.le_of_not_lt h
  rw [List.getD_eq_getElem?_getD, List.getElem?_eq_none hle]
  rfl

theorem discipline_closed (T : Table) (hd : KeyDiscipline T = true) (f : Fn)
    (hf : modeDep T f = false) :
    (∀ a, a ∈ (fnOf T f).reads → a ∈ T.indepAttrs) ∧
    (∀ g, g ∈ (fnOf T f).calls → modeDep T g = false) := by
  by_cases hlt : f < T.fns.length
  · unfold KeyDiscipline at hd
    simp only [Bool.and_eq_true] at hd
    have hc := hd.1.1
    unfold closedOK at hc
    rw [List.all_eq_true] at hc
    have := hc f (List.mem_range.mpr hlt)
    simp only [hf, Bool.false_or, Bool.and_eq_true, List.all_eq_true, decide_eq_true_eq,
      Bool.not_eq_true', List.contains_iff_mem] at this
    exact ⟨fun a ha => this.1 a ha, fun g hg => (this.2 g hg).2⟩
  · rw [fnOf_ge T f hlt]
    exact ⟨fun a ha => by simp [noFn] at ha, fun g hg => by simp [noFn] at hg⟩

theorem discipline_keyed (T : Table) (hd : KeyDiscipline T = true) (f : Fn)
    (hm : isMemo T f = true) (hk : effKeyed T f = false) : modeDep T f = false := by
  by_cases hlt : f < T.fns.length
  · unfold KeyDiscipline at hd
    simp only [Bool.and_eq_true] at hd
    have hc := hd.1.2
    unfold keyedOK at hc
    rw [List.all_eq_true] at hc
    have := hc f (List.mem_range.mpr hlt)
    simp only [hm, hk, Bool.true_and, Bool.or_false, Bool.not_eq_true'] at this
    exact this
  · unfold isMemo at hm
    rw [fnOf_ge T f hlt] at hm
    simp [noFn] at hm

/-! ## The cache-free semantics is monotone in the depth bound, hence deterministic -/

theorem runP_mono (ev ev' : Fn → List V → Option V) (e : Attr → V)
    (h : ∀ g b w, ev g b = some w → ev' g b = some w) :
    ∀ (p : Prog V) (v : V), runP ev e p = some v → runP ev' e p = some v := by
  intro p
  induction p with
  | ret w => intro v hv; simpa [runP] using hv
  | read a k ih => intro v hv; simp only [runP] at hv ⊢; exact ih _ v hv
  | call g b k ih =>
    intro v hv
    simp only [runP] at hv ⊢
    cases hg : ev g b with
    | none => simp [hg] at hv
    | some w =>
      rw [hg] at hv
      rw [h g b w hg]
      exact ih w v hv

theorem evalP_succ (S : Sys V) (s : Spelling) :
    ∀ n f a v, evalP S s n f a = some v → evalP S s (n + 1) f a = some v := by
  intro n
  induction n with
  | zero => intro f a v h; simp [evalP] at h
  | succ n ih =>
    intro f a v h
    rw [evalP] at h ⊢
    exact runP_mono _ _ _ (fun g b w hw => ih g b w hw) _ v h

theorem evalP_mono (S : Sys V) (s : Spelling) {n m : Nat} (hnm : n ≤ m) (f : Fn) (a : List V)
    (v : V) (h : evalP S s n f a = some v) : evalP S s m f a = some v := by
  induction hnm with
  | refl => exact h
  | step _ ih => exact evalP_succ S s _ f a v ih

theorem pureVal_unique (S : Sys V) (s : Spelling) (f : Fn) (a : List V) (v v' : V)
    (h : PureVal S s f a v) (h' : PureVal S s f a v') : v = v' := by
  obtain ⟨n, hn⟩ := h
  obtain ⟨m, hm⟩ := h'
  have h1 := evalP_mono S s (Nat.le_max_left n m) f a v hn
  have h2 := evalP_mono S s (Nat.le_max_right n m) f a v' hm
  rw [h1] at h2
  exact Option.some.inj h2

/-! ## Functions outside the dependent set compute the same in every mode -/

theorem runP_indep (T : Table) (f : Fn) (ev ev' : Fn → List V → Option V) (e e' : Attr → V)
    (hr : ∀ a, a ∈ (fnOf T f).reads → e a = e' a)
    (hc : ∀ g, g ∈ (fnOf T f).calls → ∀ b, ev g b = ev' g b) :
    ∀ p : Prog V, ConfP T f p → runP ev e p = runP ev' e' p := by
  intro p
  induction p with
  | ret w => intro _; rfl
  | read a k ih =>
    intro hp
    simp only [ConfP] at hp
    simp only [runP]
    rw [hr a hp.1]
    exact ih _ (hp.2 _)
  | call g b k ih =>
    intro hp
    simp only [ConfP] at hp
    simp only [runP]
    rw [hc g hp.1 b]
    cases ev' g b with
    | none => rfl
    | some w => exact ih w (hp.2 w)

theorem evalP_indep (S : Sys V) (hd : KeyDiscipline S.T = true) (he : EnvOK S) (hc : Conf S)
    (s s' : Spelling) :
    ∀ n f a, modeDep S.T f = false → evalP S s n f a = evalP S s' n f a := by
  intro n
  induction n with
  | zero => intro f a _; rfl
  | succ n ih =>
    intro f a hf
    obtain ⟨hreads, hcalls⟩ := discipline_closed S.T hd f hf
    rw [evalP, evalP]
    exact runP_indep S.T f _ _ _ _ (fun x hx => he x (hreads x hx) s s')
      (fun g hg b => ih g b (hcalls g hg)) _ (hc f a)

theorem pureVal_indep (S : Sys V) (hd : KeyDiscipline S.T = true) (he : EnvOK S) (hc : Conf S)
    (s s' : Spelling) (f : Fn) (a : List V) (v : V) (hf : modeDep S.T f = false)
    (h : PureVal S s f a v) : PureVal S s' f a v := by
  obtain ⟨n, hn⟩ := h
  exact ⟨n, by rw [← evalP_indep S hd he hc s s' n f a hf]; exact hn⟩

/-! ## Memoised evaluation -/

section memo
variable [DecidableEq V]

theorem lookup_good (S : Sys V) (c : Cache V) (hc : CacheOK S c) (f : Fn) (a : List V)
    (key : Option Spelling) (v : V) (hl : lookup c f a key = some v) : GoodAt S f a v key := by
  unfold lookup at hl
  cases hfind : c.find? (fun e => e.hit f a key) with
  | none => simp [hfind] at hl
  | some e =>
    simp only [hfind, Option.map_some, Option.some.injEq] at hl
    have hmem := List.mem_of_find?_eq_some hfind
    have hp := List.find?_some hfind
    simp only [Entry.hit, Bool.and_eq_true, beq_iff_eq] at hp
    obtain ⟨⟨hf, ha⟩, hk⟩ := hp
    have hg := hc e hmem
    unfold Good at hg
    rw [hf, ha, hk, hl] at hg
    exact hg

omit [DecidableEq V] in
/-- A value that is the cache-free value under mode `s` may be stored under `keyOf s f`. -/
theorem good_insert (S : Sys V) (hd : KeyDiscipline S.T = true) (he : EnvOK S) (hc : Conf S)
    (s : Spelling) (f : Fn) (a : List V) (v : V) (hm : isMemo S.T f = true)
    (hv : PureVal S s f a v) : GoodAt S f a v (keyOf S.T s f) := by
  unfold keyOf
  cases hk : effKeyed S.T f with
  | true => simpa [GoodAt] using hv
  | false =>
    have hf := discipline_keyed S.T hd f hm hk
    simp only [Bool.false_eq_true, if_false, GoodAt]
    exact fun s' => pureVal_indep S hd he hc s s' f a v hf hv

omit [DecidableEq V] in
theorem good_use (S : Sys V) (s : Spelling) (f : Fn) (a : List V) (v : V)
    (h : GoodAt S f a v (keyOf S.T s f)) : PureVal S s f a v := by
  unfold keyOf at h
  cases hk : effKeyed S.T f with
  | true => simpa [hk, GoodAt] using h
  | false =>
    simp only [hk, Bool.false_eq_true, if_false, GoodAt] at h
    exact h s

omit [DecidableEq V] in
/-- Running a program against a sound evaluator keeps the cache sound and yields the cache-free
    result. -/
theorem runM_sound (S : Sys V) (s : Spelling)
    (ev : Cache V → Fn → List V → Option (V × Cache V))
    (hev : ∀ c g b w c', CacheOK S c → ev c g b = some (w, c') →
      CacheOK S c' ∧ PureVal S s g b w) :
    ∀ (p : Prog V) (c : Cache V) (v : V) (c' : Cache V), CacheOK S c →
      runM ev (S.env s) c p = some (v, c') →
      CacheOK S c' ∧ ∃ m, runP (evalP S s m) (S.env s) p = some v := by
  intro p
  induction p with
  | ret w =>
    intro c v c' hc h
    simp only [runM, Option.some.injEq, Prod.mk.injEq] at h
    exact ⟨h.2 ▸ hc, 0, by simp [runP, h.1]⟩
  | read a k ih =>
    intro c v c' hc h
    simp only [runM] at h
    obtain ⟨h1, m, hm⟩ := ih _ c v c' hc h
    exact ⟨h1, m, by simpa [runP] using hm⟩
  | call g b k ih =>
    intro c v c' hc h
    simp only [runM] at h
    cases hg : ev c g b with
    | none => simp [hg] at h
    | some r =>
      obtain ⟨w, c1⟩ := r
      simp only [hg] at h
      obtain ⟨hc1, m1, hm1⟩ := hev c g b w c1 hc hg
      obtain ⟨hc', m2, hm2⟩ := ih w c1 v c' hc1 h
      refine ⟨hc', max m1 m2, ?_⟩
      simp only [runP]
      rw [evalP_mono S s (Nat.le_max_left m1 m2) g b w hm1]
      exact runP_mono _ _ _
        (fun g' b' w' hw' => evalP_mono S s (Nat.le_max_right m1 m2) g' b' w' hw') _ v hm2

theorem evalM_sound (S : Sys V) (hd : KeyDiscipline S.T = true) (he : EnvOK S) (hcf : Conf S)
    (s : Spelling) :
    ∀ n c f a v c', CacheOK S c → evalM S s n c f a = some (v, c') →
      CacheOK S c' ∧ PureVal S s f a v := by
  intro n
  induction n with
  | zero => intro c f a v c' _ h; simp [evalM] at h
  | succ n ih =>
    intro c f a v c' hc h
    rw [evalM] at h
    by_cases hm : isMemo S.T f = true
    · simp only [hm, if_true] at h
      cases hl : lookup c f a (keyOf S.T s f) with
      | some w =>
        simp only [hl, Option.some.injEq, Prod.mk.injEq] at h
        have := good_use S s f a w (lookup_good S c hc f a _ w hl)
        exact ⟨h.2 ▸ hc, h.1 ▸ this⟩
      | none =>
        simp only [hl] at h
        cases hr : runM (evalM S s n) (S.env s) c (S.body f a) with
        | none => simp [hr] at h
        | some r =>
          obtain ⟨w, c1⟩ := r
          simp only [hr, Option.some.injEq, Prod.mk.injEq] at h
          obtain ⟨hc1, m, hmv⟩ := runM_sound S s (evalM S s n) ih (S.body f a) c w c1 hc hr
          have hp : PureVal S s f a w := ⟨m + 1, by rw [evalP]; exact hmv⟩
          refine ⟨?_, h.1 ▸ hp⟩
          rw [← h.2]
          intro e hemem
          rcases List.mem_cons.mp hemem with rfl | hmem
          · exact good_insert S hd he hcf s f a w hm hp
          · exact hc1 e hmem
    · simp only [hm] at h
      obtain ⟨hc1, m, hmv⟩ := runM_sound S s (evalM S s n) ih (S.body f a) c v c' hc h
      exact ⟨hc1, m + 1, by rw [evalP]; exact hmv⟩

/-- Completeness: against a sound cache, memoised evaluation needs no more depth than the
    cache-free one (hits only shorten it) and returns the same value. -/
theorem runM_complete (S : Sys V) (s : Spelling) (n : Nat)
    (hsound : ∀ c g b w c', CacheOK S c → evalM S s n c g b = some (w, c') →
      CacheOK S c' ∧ PureVal S s g b w)
    (hcompl : ∀ c g b w, CacheOK S c → evalP S s n g b = some w →
      ∃ c', evalM S s n c g b = some (w, c')) :
    ∀ (p : Prog V) (c : Cache V) (v : V), CacheOK S c →
      runP (evalP S s n) (S.env s) p = some v →
      ∃ c', runM (evalM S s n) (S.env s) c p = some (v, c') := by
  intro p
  induction p with
  | ret w => intro c v _ h; simp only [runP, Option.some.injEq] at h; exact ⟨c, by simp [runM, h]⟩
  | read a k ih => intro c v hc h; simp only [runP] at h; simp only [runM]; exact ih _ c v hc h
  | call g b k ih =>
    intro c v hc h
    simp only [runP] at h
    cases hg : evalP S s n g b with
    | none => simp [hg] at h
    | some w =>
      simp only [hg] at h
      obtain ⟨c1, hc1⟩ := hcompl c g b w hc hg
      have hok := (hsound c g b w c1 hc hc1).1
      obtain ⟨c', hc'⟩ := ih w c1 v hok h
      exact ⟨c', by simp only [runM, hc1]; exact hc'⟩

theorem evalM_complete (S : Sys V) (hd : KeyDiscipline S.T = true) (he : EnvOK S) (hcf : Conf S)
    (s : Spelling) :
    ∀ n c f a v, CacheOK S c → evalP S s n f a = some v →
      ∃ c', evalM S s n c f a = some (v, c') := by
  intro n
  induction n with
  | zero => intro c f a v _ h; simp [evalP] at h
  | succ n ih =>
    intro c f a v hc h
    have hpv : PureVal S s f a v := ⟨n + 1, h⟩
    rw [evalP] at h
    obtain ⟨c1, hc1⟩ := runM_complete S s n (evalM_sound S hd he hcf s n) ih (S.body f a) c v hc h
    rw [evalM]
    by_cases hm : isMemo S.T f = true
    · simp only [hm, if_true]
      cases hl : lookup c f a (keyOf S.T s f) with
      | some w =>
        have := good_use S s f a w (lookup_good S c hc f a _ w hl)
        exact ⟨c, by rw [pureVal_unique S s f a w v this hpv]⟩
      | none =>
        exact ⟨{ fn := f, args := a, key := keyOf S.T s f, val := v } :: c1, by simp only [hc1]⟩
    · simp only [hm]
      exact ⟨c1, hc1⟩

/-! ## Histories -/

theorem step_ok (S : Sys V) (hd : KeyDiscipline S.T = true) (he : EnvOK S) (hcf : Conf S)
    (fuel : Nat) (st : State V) (op : Op V) (h : CacheOK S st.cache) :
    CacheOK S (step S fuel st op).1.cache := by
  cases op with
  | setMode s =>
    simp only [step]
    split <;> exact h
  | call f a =>
    simp only [step]
    cases hr : evalM S st.mode fuel st.cache f a with
    | none => exact h
    | some r =>
      obtain ⟨v, c⟩ := r
      exact (evalM_sound S hd he hcf st.mode fuel st.cache f a v c h hr).1

theorem run_ok (S : Sys V) (hd : KeyDiscipline S.T = true) (he : EnvOK S) (hcf : Conf S)
    (fuel : Nat) : ∀ (ops : List (Op V)) (st : State V), CacheOK S st.cache →
      CacheOK S (run S fuel st ops).cache := by
  intro ops
  induction ops with
  | nil => intro st h; exact h
  | cons op ops ih =>
    intro st h
    simp only [run]
    exact ih _ (step_ok S hd he hcf fuel st op h)

theorem step_call_out (S : Sys V) (fuel : Nat) (st : State V) (f : Fn) (a : List V) (v : V)
    (h : (step S fuel st (.call f a)).2 = some v) :
    ∃ c, evalM S st.mode fuel st.cache f a = some (v, c) := by
  simp only [step] at h
  cases hr : evalM S st.mode fuel st.cache f a with
  | none => simp [hr] at h
  | some r =>
    obtain ⟨w, c⟩ := r
    simp only [hr, Option.some.injEq] at h
    exact ⟨c, by rw [h]⟩

end memo

end IsoDT.Lemmas.Cache
