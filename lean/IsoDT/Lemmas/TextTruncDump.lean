/-
  IsoDT.Lemmas.TextTruncDump — `parse(text, dump_as_parsed=True)` followed by `str`, for the TRUNCATED
  forms.  The parsed truncated point `tpointOf` carries the concatenated expression text of the matched
  entries (`-YYMMT-mm,nn+hh:mm`) as its dump format; `str` hands it to the dumper
  (`TimePoint.__str__` → `dumper.dump(self, self._truncated_dump_format)`).

  As in `Lemmas/TextAsParsed`, the dumper's chain of regex substitutions on the concrete expression
  texts is evaluated by the kernel — but per PART: the date rules on each truncated date expression
  (`tdateCheck`) and the split-and-compile of each `time ++ zone` expression (`ttzCheck`); `getExpr_T`
  composes them, because `_get_expression_and_properties` compiles the three parts separately.  A
  truncated point has no expanded year digits, so the dumper is always the one for 0 digits.
  The rest is generic: the compiled segment list is, item by item, the entries' regular expressions
  (`tmplSegs`), and evaluated on `tpointOf` it prints the templates' own rendering of the values read
  back from the point (`renderSegs_ttmpl`); `_dump_expression_with_properties` converts nothing for a
  truncated point (`dumpExpr_trunc`).
-/
import IsoDT.Lemmas.TextTrunc
import IsoDT.Lemmas.TextAsParsed

namespace IsoDT.Text
open IsoDT IsoDT.Model IsoDT.Lemmas
open IsoDT.Spec (TZ Date)
open _root_.IsoDT.Gen.Templates (timeDesignator parserTables dumpTables)

/-! ## The printf expression of a truncated template prints the template's own text -/

/-- What the point must answer for one item to print the text `tenvOf` gives its group. -/
def titemPrints (m : Mode) (x : XTP) (v : TVals) : Item → Prop
  | .lit _ => True
  | .digits f n => intProp m x (propOf f) = some (v.nat f) ∧ padNat n (v.nat f) = renderNat n (v.nat f)
  | .digitsPlus f => strProp x (propOf f) = some (v.dec f)
  | .sign f => strProp x (propOf f) = some [if v.neg f then '-' else '+']
  | .group _ _ => True

theorem renderSegs_ttmpl (m : Mode) (x : XTP) (v : TVals) (t : Template)
    (h : ∀ it ∈ t, titemPrints m x v it) :
    renderSegs m x (tmplSegs t) = some (trender t (tenvOf t v)) := by
  induction t with
  | nil => rfl
  | cons it t ih =>
    have ih := ih fun i hi => h i (List.mem_cons_of_mem _ hi)
    have hit := h it (List.mem_cons_self ..)
    have e : tmplSegs (it :: t) = itemSegs it ++ tmplSegs t := by simp [tmplSegs]
    rw [e]
    cases it with
    | lit c => simp [itemSegs, renderSegs, ih, tenvOf, trender]
    | digits f n =>
      obtain ⟨h1, h2⟩ := hit
      simp [itemSegs, renderSegs, ih, tenvOf, trender, h1, h2]
    | digitsPlus f =>
      simp only [titemPrints] at hit
      simp [itemSegs, renderSegs, ih, tenvOf, trender, hit]
    | sign f =>
      simp only [titemPrints] at hit
      simp [itemSegs, renderSegs, ih, tenvOf, trender, hit]
    | group f ls =>
      simp only [itemSegs, tenvOf, trender]
      exact renderSegs_append m x _ _ _ _ (renderSegs_raw m x ls) ih

/-- Group by group: it is enough that the point answers each numeric and decimal group correctly. -/
theorem tprints_of (m : Mode) (x : XTP) (v : TVals) (t : Template) (hok : t.all tItemOK = true)
    (hint : ∀ f, isTIntFld f = true → hasGroup t f = true →
      intProp m x (propOf f) = some (v.nat f) ∧ padNat (tWidth f) (v.nat f) = renderNat (tWidth f) (v.nat f))
    (hdec : ∀ f, isDecFld f = true → hasGroup t f = true → strProp x (propOf f) = some (v.dec f)) :
    ∀ it ∈ t, titemPrints m x v it := by
  intro it hit
  have hk := List.all_eq_true.mp hok it hit
  have hg := mem_groupFields t it hit
  cases it with
  | lit c => trivial
  | digits f n =>
    simp only [tItemOK, Bool.and_eq_true, beq_iff_eq] at hk
    obtain ⟨hf, rfl⟩ := hk
    exact hint f hf hg
  | digitsPlus f => exact hdec f hk hg
  | sign f => simp [tItemOK] at hk
  | group f ls => trivial

/-! ## The values as `str` spells them back -/

/-- The values the printed text spells: as parsed, except that a `-` on an all-zero zone is `+` and a
    decimal fraction is `TimePoint._decimal_string` of its digits (trailing zeros dropped, at least one
    digit; more than six digits rounded to six — finding F12).  Truncated dates have no sign. -/
def tspelled (zt : Template) (v : TVals) : TVals :=
  { v with
    tzNeg := v.tzNeg && !zoneZero zt v.toVals
    hourDec := decimalString (some v.hourDec)
    minuteDec := decimalString (some v.minuteDec)
    secondDec := decimalString (some v.secondDec) }

theorem tspelled_nat (zt : Template) (v : TVals) (f : Fld) : (tspelled zt v).nat f = v.nat f := by
  cases f <;> rfl

theorem tspelled_vnat (zt : Template) (v : TVals) (f : Fld) :
    (tspelled zt v).toVals.nat f = v.toVals.nat f := by
  cases f <;> rfl

/-! ## What the truncated point answers -/

/-- A truncated date expression spells at most one of year of century / year of decade. -/
def tyearShapeOK (de : Template) : Bool := !(hasGroup de .yearOfCentury && hasGroup de .yearOfDecade)

theorem tdate_props (m : Mode) (de te : Template) (v : TVals) (tz : TZ) (unk : Bool)
    (dump : Option (List Char)) (hys : tyearShapeOK de = true) (hy : v.yy < 100) (hz : v.z < 10) :
    (hasGroup de .yearOfCentury = true →
      intProp m (tpointOf de te v tz unk dump) .yearOfCentury = some v.yy) ∧
    (hasGroup de .yearOfDecade = true →
      intProp m (tpointOf de te v tz unk dump) .yearOfDecade = some v.z) ∧
    (hasGroup de .monthOfYear = true → intProp m (tpointOf de te v tz unk dump) .monthOfYear = some v.month) ∧
    (hasGroup de .dayOfMonth = true → intProp m (tpointOf de te v tz unk dump) .dayOfMonth = some v.day) ∧
    (hasGroup de .dayOfYear = true → intProp m (tpointOf de te v tz unk dump) .dayOfYear = some v.doy) ∧
    (hasGroup de .weekOfYear = true → intProp m (tpointOf de te v tz unk dump) .weekOfYear = some v.week) ∧
    (hasGroup de .dayOfWeek = true → intProp m (tpointOf de te v tz unk dump) .dayOfWeek = some v.dow) := by
  simp only [tyearShapeOK, Bool.not_eq_true', Bool.and_eq_false_iff] at hys
  refine ⟨fun h => ?_, fun h => ?_, fun h => ?_, fun h => ?_, fun h => ?_, fun h => ?_, fun h => ?_⟩
  · have hz' : hasGroup de .yearOfDecade = false := by
      rcases hys with h' | h'
      · rw [h] at h'; cases h'
      · exact h'
    simp only [intProp, tpointOf, tyearOf, h, hz', Bool.or_false, if_true, Bool.false_eq_true, if_false,
      Option.map_some, Option.some.injEq]
    omega
  · have hy' : hasGroup de .yearOfCentury = false := by
      rcases hys with h' | h'
      · exact h'
      · rw [h] at h'; cases h'
    simp only [intProp, tpointOf, tyearOf, h, hy', Bool.or_true, if_true, Bool.false_eq_true, if_false,
      Option.map_some, Option.some.injEq]
    omega
  all_goals simp [intProp, tpointOf, fieldOf, h]

theorem ttime_props (m : Mode) (de te : Template) (v : TVals) (tz : TZ) (unk : Bool)
    (dump : Option (List Char)) (ht : ttimeShapeOK te = true) :
    (hasGroup te .hourOfDay = true → intProp m (tpointOf de te v tz unk dump) .hourOfDay = some v.hour) ∧
    (hasGroup te .minuteOfHour = true →
      intProp m (tpointOf de te v tz unk dump) .minuteOfHour = some v.minute) ∧
    (hasGroup te .secondOfMinute = true →
      intProp m (tpointOf de te v tz unk dump) .secondOfMinute = some v.second) ∧
    (hasGroup te .hourDec = true →
      strProp (tpointOf de te v tz unk dump) .hourDecStr = some (decimalString (some v.hourDec))) ∧
    (hasGroup te .minuteDec = true →
      strProp (tpointOf de te v tz unk dump) .minuteDecStr = some (decimalString (some v.minuteDec))) ∧
    (hasGroup te .secondDec = true →
      strProp (tpointOf de te v tz unk dump) .secondDecStr = some (decimalString (some v.secondDec))) := by
  have hc := ttimeShape_cases te ht
  simp only [timePattern, Prod.mk.injEq] at hc
  rcases hc with ⟨t1, t2, t3, t4, t5, t6⟩ | ⟨t1, t2, t3, t4, t5, t6⟩ | ⟨t1, t2, t3, t4, t5, t6⟩ |
      ⟨t1, t2, t3, t4, t5, t6⟩ | ⟨t1, t2, t3, t4, t5, t6⟩ | ⟨t1, t2, t3, t4, t5, t6⟩ | ⟨t1, t2, t3, t4, t5, t6⟩ |
      ⟨t1, t2, t3, t4, t5, t6⟩ | ⟨t1, t2, t3, t4, t5, t6⟩ | ⟨t1, t2, t3, t4, t5, t6⟩ | ⟨t1, t2, t3, t4, t5, t6⟩ |
      ⟨t1, t2, t3, t4, t5, t6⟩ | ⟨t1, t2, t3, t4, t5, t6⟩ <;>
    simp [intProp, strProp, tpointOf, decOf, fieldOf, t1, t2, t3, t4, t5, t6]

/-! ## The three parts print their own text -/

theorem tdate_prints (m : Mode) (ned : Nat) (de te zt : Template) (v : TVals) (tz : TZ) (unk : Bool)
    (dump : Option (List Char)) (hok : de.all tItemOK = true) (hys : tyearShapeOK de = true)
    (hfl : (groupFields de).all (fun f => isDateFld f || f == .yearOfDecade || f == .truncated) = true)
    (hv : v.Fit ned) :
    ∀ it ∈ de, titemPrints m (tpointOf de te v tz unk dump) (tspelled zt v) it := by
  have hD := tdate_props m de te v tz unk dump hys hv.1.2.2.1 hv.2
  have hdf : ∀ f, hasGroup de f = true → (isDateFld f || f == .yearOfDecade || f == .truncated) = true :=
    fun f hg => List.all_eq_true.mp hfl f (mem_of_hasGroup de f hg)
  apply tprints_of m _ _ de hok
  · intro f hi hg
    have hd := hdf f hg
    have hw : tWidth f ≠ 0 := Nat.pos_iff_ne_zero.mp (tWidth_pos f)
    refine ⟨?_, padNat_eq _ _ (by rw [tspelled_nat]; exact tfit_nat _ v hv f hi) hw⟩
    rw [tspelled_nat]
    cases f <;> first
      | exact absurd hd (by decide)
      | exact absurd hi (by decide)
      | exact hD.1 hg
      | exact hD.2.1 hg
      | exact hD.2.2.1 hg
      | exact hD.2.2.2.1 hg
      | exact hD.2.2.2.2.1 hg
      | exact hD.2.2.2.2.2.1 hg
      | exact hD.2.2.2.2.2.2 hg
  · intro f hs hg
    have hd := hdf f hg
    cases f <;> first
      | exact absurd hd (by decide)
      | exact absurd hs (by decide)

theorem ttime_prints (m : Mode) (ned : Nat) (de te zt : Template) (v : TVals) (tz : TZ) (unk : Bool)
    (dump : Option (List Char)) (hok : te.all tItemOK = true) (hts : ttimeShapeOK te = true)
    (hfl : (groupFields te).all (fun f => isTimeFld f || f == .truncated) = true) (hv : v.Fit ned) :
    ∀ it ∈ te, titemPrints m (tpointOf de te v tz unk dump) (tspelled zt v) it := by
  have hT := ttime_props m de te v tz unk dump hts
  have hdf : ∀ f, hasGroup te f = true → (isTimeFld f || f == .truncated) = true := fun f hg =>
    List.all_eq_true.mp hfl f (mem_of_hasGroup te f hg)
  apply tprints_of m _ _ te hok
  · intro f hi hg
    have hd := hdf f hg
    have hw : tWidth f ≠ 0 := Nat.pos_iff_ne_zero.mp (tWidth_pos f)
    refine ⟨?_, padNat_eq _ _ (by rw [tspelled_nat]; exact tfit_nat _ v hv f hi) hw⟩
    rw [tspelled_nat]
    cases f <;> first
      | exact absurd hd (by decide)
      | exact absurd hi (by decide)
      | exact hT.1 hg
      | exact hT.2.1 hg
      | exact hT.2.2.1 hg
  · intro f hs hg
    have hd := hdf f hg
    cases f <;> first
      | exact absurd hd (by decide)
      | exact absurd hs (by decide)
      | exact hT.2.2.2.1 hg
      | exact hT.2.2.2.2.1 hg
      | exact hT.2.2.2.2.2 hg

/-- The zone part (a non-truncated template, values in `Vals`): any point whose zone is the spelled
    one prints the zone form's own text for the respelled values. -/
theorem tzone_prints (m : Mode) (ned : Nat) (P : XTP) (zt : Template) (v : TVals) (zd : ZoneDefault)
    (hok : zt.all (itemOK ned) = true) (hfl : (groupFields zt).all isZoneFld = true)
    (hU : (!hasGroup zt .tzUtc || !(hasGroup zt .tzSign || hasGroup zt .tzHour || hasGroup zt .tzMinute)) = true)
    (hv : v.Fit ned)
    (htz : P.tz = ⟨(zoneOf zd (some zt) v.toVals).hour.getD 0, (zoneOf zd (some zt) v.toVals).minute.getD 0⟩) :
    ∀ it ∈ zt, itemPrints m P (tspelled zt v).toVals it := by
  have hdf : ∀ f, hasGroup zt f = true → isZoneFld f = true := fun f hg =>
    List.all_eq_true.mp hfl f (mem_of_hasGroup zt f hg)
  cases hu : hasGroup zt .tzUtc with
  | true =>
    simp only [hu, Bool.not_true, Bool.false_or, Bool.not_eq_true', Bool.or_eq_false_iff] at hU
    obtain ⟨⟨h1, h2⟩, h3⟩ := hU
    apply prints_of m _ _ ned zt hok
    · intro f hi hg
      have hd := hdf f hg
      cases f <;> first
        | exact absurd hd (by decide)
        | exact absurd hi (by decide)
        | (rw [h2] at hg; cases hg)
        | (rw [h3] at hg; cases hg)
    · intro f hs hg
      have hd := hdf f hg
      cases f <;> first
        | exact absurd hd (by decide)
        | exact absurd hs (by decide)
        | (rw [h1] at hg; cases hg)
    · intro f hs hg
      have hd := hdf f hg
      cases f <;> first
        | exact absurd hd (by decide)
        | exact absurd hs (by decide)
  | false =>
    have hZ := zoneProps_of m P zd zt v.toVals hu htz
    apply prints_of m _ _ ned zt hok
    · intro f hi hg
      have hd := hdf f hg
      have hw : stdWidth ned f ≠ 0 := by
        cases f <;> first | exact absurd hd (by decide) | simp [stdWidth]
      refine ⟨?_, padNat_eq _ _ (by rw [tspelled_vnat]; exact fit_nat _ v.toVals hv.1 f hi) hw⟩
      rw [tspelled_vnat]
      cases f <;> first
        | exact absurd hd (by decide)
        | exact absurd hi (by decide)
        | exact hZ.1
        | exact hZ.2.1 hg
    · intro f hs hg
      have hd := hdf f hg
      cases f <;> first
        | exact absurd hd (by decide)
        | exact absurd hs (by decide)
        | exact hZ.2.2 hg
    · intro f hs hg
      have hd := hdf f hg
      cases f <;> first
        | exact absurd hd (by decide)
        | exact absurd hs (by decide)

/-! ## `_dump_expression_with_properties` on a truncated point -/

/-- For a truncated point nothing is converted: no change of representation; a literal zone `Z` only
    when the point's zone is `+00:00` and known; the year is looked at only if the expression prints a
    year property; the four-digit / expanded year bounds do not apply when neither the century nor the
    expanded digits are printed. -/
theorem dumpExpr_trunc (m : Mode) (dt : DumpTables) (x : XTP) (e : Expr)
    (htr : x.truncated = true)
    (hZ : e.customTZ = none ∨ (e.customTZ = some (0, 0) ∧ x.tz = ⟨0, 0⟩ ∧ x.tzUnknown = false))
    (hy : x.year = none → (e.props.contains .century || e.props.contains .expandedYearDigits ||
      e.props.contains .yearSign || e.props.contains .yearOfCentury || e.props.contains .yearOfDecade) = false)
    (hb1 : e.props.contains .century = false) (hb2 : e.props.contains .expandedYearDigits = false) :
    dumpExpr m dt x e =
      match renderSegs m x e.segs with
      | some s => .ok s
      | none => .error .unsupported := by
  have ht : e.customTZ = some (0, 0) → x.toTimeZone m ⟨0, 0⟩ = .ok x := by
    intro h
    rcases hZ with h' | ⟨_, h1, h2⟩
    · rw [h'] at h; cases h
    · unfold XTP.toTimeZone; simp [h1, h2]
  unfold dumpExpr
  simp only [htr, if_true, hb1, hb2, Bool.false_and, Bool.false_eq_true, if_false]
  cases hyr : x.year with
  | some y =>
    rcases hZ with h | ⟨h, _, _⟩
    · simp only [bind, Except.bind, h, hyr]; rfl
    · simp only [bind, Except.bind, h, mkTZ_zero, ht h, hyr]; rfl
  | none =>
    have := hy hyr
    rw [hb1, hb2] at this
    rcases hZ with h | ⟨h, _, _⟩
    · simp only [bind, Except.bind, h, hyr, this, Bool.false_eq_true, if_false]; rfl
    · simp only [bind, Except.bind, h, mkTZ_zero, ht h, hyr, this, Bool.false_eq_true, if_false]; rfl

/-! ## The decidable checks on the parts (evaluated over the regenerated tables in `Props/C07d`) -/

/-- The dumper of a truncated point: no expanded year digits. -/
def dumper0 : DumpTables := (dumpTablesFor 0).getD default

theorem dumper0_eq : dumpTablesFor 0 = some dumper0 := by
  have h : (dumpTablesFor 0).isSome = true := by decide +kernel
  unfold dumper0
  cases hd : dumpTablesFor 0 with
  | none => rw [hd] at h; cases h
  | some dt => rfl

/-- **The date rules compile a truncated date expression to its regular expression**: the segments are
    `tmplSegs`, the date properties collected exactly those of the groups present; the text has neither
    `T` nor `%`; the groups are date groups, the year of decade or the marker; at most one of `YY`/`z`. -/
def tdateCheck (expr : List Char) (tmpl : Template) : Bool :=
  decide ((compile dumper0.date (expr.map Seg.raw)).1 = tmplSegs tmpl) &&
  dateFlds.all (fun f => decide ((compile dumper0.date (expr.map Seg.raw)).2.contains (propOf f) =
    hasGroup tmpl f)) &&
  !expr.contains 'T' && !expr.contains '%' &&
  (groupFields tmpl).all (fun f => isDateFld f || f == .yearOfDecade || f == .truncated) &&
  tyearShapeOK tmpl

/-- **The time and zone rules compile a `time ++ zone` expression to the regular expressions**: the
    split is where the zone starts, the segments are the two `tmplSegs`, no date property is collected,
    a literal zone is fixed (`+00:00`) iff the zone entry is `Z`; no `T`, no `%`; each part has groups of
    its own kind only. -/
def ttzCheck (te : Entry) (zo : Option ZEntry) : Bool :=
  match timeZonePart dumper0 (te.expr ++ zexprO zo) with
  | none => false
  | some (segs, props, custom) =>
    decide (segs = tmplSegs te.tmpl ++ tmplSegs (ztmplO zo)) &&
    dateFlds.all (fun f => !props.contains (propOf f)) &&
    decide (custom = if hasGroup (ztmplO zo) .tzUtc then some (0, 0) else none) &&
    !(te.expr ++ zexprO zo).contains 'T' && !(te.expr ++ zexprO zo).contains '%' &&
    (groupFields te.tmpl).all (fun f => isTimeFld f || f == .truncated) &&
    (groupFields (ztmplO zo)).all isZoneFld &&
    (!hasGroup (ztmplO zo) .tzUtc ||
      !(hasGroup (ztmplO zo) .tzSign || hasGroup (ztmplO zo) .tzHour || hasGroup (ztmplO zo) .tzMinute))

theorem not_contains_mem (l : List Char) (c : Char) (h : (!l.contains c) = true) : c ∉ l := by
  simpa using h

/-- The compiled expression of `date T time zone` from the checks on the parts. -/
theorem getExpr_trunc (dexpr : List Char) (dtmpl : Template) (te : Entry) (zo : Option ZEntry)
    (hd : tdateCheck dexpr dtmpl = true) (ht : ttzCheck te zo = true) :
    ∃ e, getExpr dumper0 (dexpr ++ 'T' :: (te.expr ++ zexprO zo)) = some e ∧
      e.segs = tmplSegs dtmpl ++ Seg.raw 'T' :: (tmplSegs te.tmpl ++ tmplSegs (ztmplO zo)) ∧
      (∀ f ∈ dateFlds, e.props.contains (propOf f) = hasGroup dtmpl f) ∧
      e.customTZ = (if hasGroup (ztmplO zo) .tzUtc then some (0, 0) else none) := by
  simp only [tdateCheck, Bool.and_eq_true, decide_eq_true_eq, List.all_eq_true] at hd
  obtain ⟨⟨⟨⟨⟨d1, d2⟩, d3⟩, _⟩, _⟩, _⟩ := hd
  unfold ttzCheck at ht
  split at ht
  · cases ht
  · rename_i segs props custom hpart
    simp only [Bool.and_eq_true, decide_eq_true_eq, List.all_eq_true, Bool.not_eq_true'] at ht
    obtain ⟨⟨⟨⟨⟨⟨⟨t1, t2⟩, t3⟩, t4⟩, _⟩, _⟩, _⟩, _⟩ := ht
    have hD : 'T' ∉ dexpr := not_contains_mem _ _ d3
    have hR : 'T' ∉ te.expr ++ zexprO zo := by
      intro h
      have : (te.expr ++ zexprO zo).contains 'T' = true := by simpa using h
      rw [t4] at this; cases this
    refine ⟨_, by rw [getExpr_T dumper0 dexpr _ hD hR, hpart]; rfl, ?_, ?_, t3⟩
    · simp only [d1, t1]
    · intro f hf
      have h1 := d2 f hf
      have h2 := t2 f hf
      rw [← h1]
      show ((compile dumper0.date (List.map Seg.raw dexpr)).2 ++ props).contains (propOf f) = _
      rw [List.contains_eq_mem, List.contains_eq_mem]
      have h2' : propOf f ∉ props := by simpa using h2
      simp [h2']

/-! ## `str` of the truncated point that carries its expression text -/

theorem tyear_props (dtmpl : Template) (hdok : dtmpl.all tItemOK = true) (props : List DProp)
    (hprops : ∀ f ∈ dateFlds, props.contains (propOf f) = hasGroup dtmpl f) :
    props.contains .century = false ∧ props.contains .expandedYearDigits = false ∧
    props.contains .yearSign = false ∧
    props.contains .yearOfCentury = hasGroup dtmpl .yearOfCentury ∧
    props.contains .yearOfDecade = hasGroup dtmpl .yearOfDecade := by
  refine ⟨?_, ?_, ?_, hprops .yearOfCentury (by decide), hprops .yearOfDecade (by decide)⟩
  · rw [show DProp.century = propOf .century from rfl, hprops .century (by decide)]
    exact hasGroup_tunclassed dtmpl hdok _ rfl rfl (by decide)
  · rw [show DProp.expandedYearDigits = propOf .expandedYear from rfl, hprops .expandedYear (by decide)]
    exact hasGroup_tunclassed dtmpl hdok _ rfl rfl (by decide)
  · rw [show DProp.yearSign = propOf .yearSign from rfl, hprops .yearSign (by decide)]
    exact hasGroup_tunclassed dtmpl hdok _ rfl rfl (by decide)

theorem tyear_none (dtmpl : Template) (v : TVals) (h : tyearOf dtmpl v = none) :
    hasGroup dtmpl .yearOfCentury = false ∧ hasGroup dtmpl .yearOfDecade = false := by
  unfold tyearOf at h
  split at h
  · cases h
  · rename_i hn
    simpa using hn

/-- **`str` of the parsed truncated point (date, `T`, time, zone)**: the point `tpointOf` carrying, as its
    dump format, the expression text of the entries it was parsed by prints the text those entries'
    regular expressions spell for the values `tspelled` — provided the parts pass the decidable checks. -/
theorem str_tpointOf (m : Mode) (ned : Nat) (zd : ZoneDefault) (dexpr : List Char) (dtmpl : Template)
    (te : Entry) (zo : Option ZEntry) (v : TVals) (tz : TZ)
    (hdok : dtmpl.all tItemOK = true) (htok : te.tmpl.all tItemOK = true)
    (hts : ttimeShapeOK te.tmpl = true) (hzok : (ztmplO zo).all (itemOK ned) = true)
    (hd : tdateCheck dexpr dtmpl = true) (ht : ttzCheck te zo = true) (hv : v.Fit ned)
    (hz : mkTZ m ((zoneOf zd (zo.map (·.tmpl)) v.toVals).hour.getD 0)
      ((zoneOf zd (zo.map (·.tmpl)) v.toVals).minute.getD 0) = some tz) :
    str m (tpointOf dtmpl te.tmpl v tz (unknownOf (zoneOf zd (zo.map (·.tmpl)) v.toVals))
        (some (dexpr ++ 'T' :: (te.expr ++ zexprO zo)))) =
      .ok (trender dtmpl (tenvOf dtmpl (tspelled (ztmplO zo) v)) ++
        'T' :: (trender te.tmpl (tenvOf te.tmpl (tspelled (ztmplO zo) v)) ++
          trender (ztmplO zo) (envOf (ztmplO zo) (tspelled (ztmplO zo) v).toVals))) := by
  obtain ⟨e, he, hsegs, hprops, hcust⟩ := getExpr_trunc dexpr dtmpl te zo hd ht
  have hd' := hd
  simp only [tdateCheck, Bool.and_eq_true, decide_eq_true_eq] at hd'
  obtain ⟨⟨⟨⟨⟨_, _⟩, _⟩, d4⟩, d5⟩, d6⟩ := hd'
  have ht' := ht
  unfold ttzCheck at ht'
  split at ht'
  · cases ht'
  rename_i segs props custom hpart
  simp only [Bool.and_eq_true, decide_eq_true_eq] at ht'
  obtain ⟨⟨⟨⟨⟨⟨⟨_, _⟩, _⟩, _⟩, t5⟩, t6⟩, t7⟩, t8⟩ := ht'
  have hpct : (dexpr ++ 'T' :: (te.expr ++ zexprO zo)).contains '%' = false := by
    have h1 : '%' ∉ dexpr := not_contains_mem _ _ d4
    have h2 : '%' ∉ te.expr ++ zexprO zo := not_contains_mem _ _ t5
    have : '%' ∉ dexpr ++ 'T' :: (te.expr ++ zexprO zo) := by
      intro h
      rcases List.mem_append.mp h with h | h
      · exact h1 h
      · rcases List.mem_cons.mp h with h | h
        · exact absurd h (by decide)
        · exact h2 h
    simpa using this
  have hne : (dexpr ++ 'T' :: (te.expr ++ zexprO zo)).isEmpty = false := by
    cases dexpr <;> rfl
  obtain ⟨p1, p2, p3, p4, p5⟩ := tyear_props dtmpl hdok e.props hprops
  rw [str_dumpFmt m _ dumper0 _ e dumper0_eq rfl hne hpct he]
  rw [dumpExpr_trunc m dumper0 _ e rfl _ _ p1 p2]
  · rw [hsegs]
    have hdp := tdate_prints m ned dtmpl te.tmpl (ztmplO zo) v tz
      (unknownOf (zoneOf zd (zo.map (·.tmpl)) v.toVals)) (some (dexpr ++ 'T' :: (te.expr ++ zexprO zo)))
      hdok d6 d5 hv
    have hdr := renderSegs_ttmpl m _ _ dtmpl hdp
    have htp := ttime_prints m ned dtmpl te.tmpl (ztmplO zo) v tz
      (unknownOf (zoneOf zd (zo.map (·.tmpl)) v.toVals)) (some (dexpr ++ 'T' :: (te.expr ++ zexprO zo)))
      htok hts t6 hv
    have htr := renderSegs_ttmpl m _ _ te.tmpl htp
    have hzp : ∀ it ∈ ztmplO zo, itemPrints m (tpointOf dtmpl te.tmpl v tz
        (unknownOf (zoneOf zd (zo.map (·.tmpl)) v.toVals)) (some (dexpr ++ 'T' :: (te.expr ++ zexprO zo))))
        (tspelled (ztmplO zo) v).toVals it := by
      cases zo with
      | none => intro it h; cases h
      | some ze =>
        exact tzone_prints m ned _ ze.tmpl v zd hzok t7 t8 hv (mkTZ_some _ _ _ _ hz)
    have hzr := renderSegs_tmpl m _ _ (ztmplO zo) hzp
    have h2 := renderSegs_append m _ _ _ _ _ htr hzr
    have h3 : renderSegs m (tpointOf dtmpl te.tmpl v tz
        (unknownOf (zoneOf zd (zo.map (·.tmpl)) v.toVals)) (some (dexpr ++ 'T' :: (te.expr ++ zexprO zo))))
        (Seg.raw 'T' :: (tmplSegs te.tmpl ++ tmplSegs (ztmplO zo))) = some ('T' ::
          (trender te.tmpl (tenvOf te.tmpl (tspelled (ztmplO zo) v)) ++
            trender (ztmplO zo) (envOf (ztmplO zo) (tspelled (ztmplO zo) v).toVals))) := by
      simp only [renderSegs, h2, Option.map_some]
    rw [renderSegs_append m _ _ _ _ _ hdr h3]
  · -- the literal zone
    rw [hcust]
    cases hu : hasGroup (ztmplO zo) .tzUtc with
    | false => exact Or.inl rfl
    | true =>
      cases zo with
      | none => cases hu
      | some ze =>
        have hu' : hasGroup ze.tmpl .tzUtc = true := hu
        have := mkTZ_some _ _ _ _ hz
        refine Or.inr ⟨rfl, ?_, ?_⟩
        · show tz = _
          simpa [zoneOf, hu'] using this
        · show unknownOf _ = false
          simp [zoneOf, hu', unknownOf]
  · -- no year: no year property is printed
    intro hy
    obtain ⟨y1, y2⟩ := tyear_none dtmpl v hy
    rw [p1, p2, p3, p4, p5, y1, y2]; rfl

/-- **`str` of the parsed truncated point (date alone)**. -/
theorem str_tpointOf_date (m : Mode) (pt : ParserTables) (de : Entry) (v : TVals) (tz : TZ) (unk : Bool)
    (hdok : de.tmpl.all tItemOK = true) (hd : tdateCheck de.expr de.tmpl = true)
    (hexpr : exprCheck pt de none none = true) (hv : v.Fit pt.ned) :
    str m (tpointOf de.tmpl [] v tz unk (some de.expr)) = .ok (trender de.tmpl (tenvOf de.tmpl v)) := by
  obtain ⟨dt, e, hdt, he, hpct, hne, hsegs, hprops, hcust⟩ := exprCheck_spec pt de none none hexpr
  simp only [tdateCheck, Bool.and_eq_true, decide_eq_true_eq] at hd
  obtain ⟨⟨⟨⟨⟨_, _⟩, _⟩, _⟩, d5⟩, d6⟩ := hd
  have hX : hasGroup de.tmpl .expandedYear = false := hasGroup_tunclassed de.tmpl hdok _ rfl rfl (by decide)
  have hn : nedOf pt de.tmpl = 0 := by simp [nedOf, hX]
  rw [hn] at hdt
  simp only [fmtOf, segsOf] at he hpct hne hsegs
  obtain ⟨p1, p2, p3, p4, p5⟩ := tyear_props de.tmpl hdok e.props hprops
  rw [str_dumpFmt m _ dt _ e hdt rfl hne hpct he]
  rw [dumpExpr_trunc m dt _ e rfl _ _ p1 p2]
  · rw [hsegs]
    have hdp := tdate_prints m pt.ned de.tmpl [] [] v tz unk (some de.expr) hdok d6 d5 hv
    have hdr := renderSegs_ttmpl m _ _ de.tmpl hdp
    rw [hdr]
    have : tenvOf de.tmpl (tspelled [] v) = tenvOf de.tmpl v := by
      have hnat : ∀ f, (tspelled [] v).nat f = v.nat f := tspelled_nat [] v
      have hdec : ∀ t : Template, t.all tItemOK = true → (∀ f, hasGroup t f = true → isDecFld f = false) →
          tenvOf t (tspelled [] v) = tenvOf t v := by
        intro t
        induction t with
        | nil => intro _ _; rfl
        | cons it t ih =>
          intro hok hnd
          simp only [List.all_cons, Bool.and_eq_true] at hok
          have hnd' : ∀ f, hasGroup t f = true → isDecFld f = false := by
            intro f hf
            apply hnd f
            unfold hasGroup at hf ⊢
            cases it <;> simp_all [groupFields]
          have ih := ih hok.2 hnd'
          cases it with
          | lit c => simpa [tenvOf] using ih
          | digits g n => simp only [tenvOf, ih, hnat]
          | digitsPlus g =>
            have : hasGroup (Item.digitsPlus g :: t) g = true := by simp [hasGroup, groupFields]
            have h1 := hnd g this
            have h2 := hok.1
            simp only [tItemOK] at h2
            rw [h1] at h2; cases h2
          | sign g => have h2 := hok.1; simp [tItemOK] at h2
          | group g ls => simp only [tenvOf, ih]
      apply hdec de.tmpl hdok
      intro f hf
      have := List.all_eq_true.mp d5 f (mem_of_hasGroup _ f hf)
      cases f <;> first | rfl | exact absurd this (by decide)
    rw [this]
  · exact Or.inl (by rw [hcust]; rfl)
  · intro hy
    obtain ⟨y1, y2⟩ := tyear_none de.tmpl v hy
    rw [p1, p2, p3, p4, p5, y1, y2]; rfl

end IsoDT.Text
