/-
  IsoDT.Lemmas.TextRoundDefs — the text a whole-second, non-truncated point is *specified* to print
  as (`stdText`): ISO 8601 extended notation, complete date in the point's own representation,
  `Thh:mm:ss`, and `Z` or `±hh:mm`; the year with sign and `4 + ned` digits when `ned` expanded year
  digits are agreed, else four digits.  It is built from the parser's own template vocabulary
  (`trender` of a template and a group assignment), so that the two halves of the round trip —
  `str p = stdText p` (dumper) and `parse (stdText p) = p` (parser) — meet in one definition.
-/
import IsoDT.Model.TextDump

namespace IsoDT.Text
open IsoDT IsoDT.Model
open IsoDT.Spec (Date TZ TP)

/-- The year groups: `CC YY`, preceded by sign and `ned` expanded digits when `ned ≠ 0`. -/
def yearTmpl (ned : Nat) : Template :=
  if ned = 0 then [.digits .century 2, .digits .yearOfCentury 2]
  else [.sign .yearSign, .digits .expandedYear ned, .digits .century 2, .digits .yearOfCentury 2]

def yearEnv (ned : Nat) (y : Int) : Env :=
  if ned = 0 then
    [(.century, renderNat 2 (y.natAbs / 100)), (.yearOfCentury, renderNat 2 (y.natAbs % 100))]
  else
    [(.yearSign, [if y < 0 then '-' else '+']), (.expandedYear, renderNat ned (y.natAbs / 10000)),
     (.century, renderNat 2 (y.natAbs / 100 % 100)), (.yearOfCentury, renderNat 2 (y.natAbs % 100))]

/-- `[±X]CCYY-MM-DD`, `[±X]CCYY-DDD`, `[±X]CCYY-Www-D`. -/
def dateTmpl (ned : Nat) : Date → Template
  | .cal .. => yearTmpl ned ++ [.lit '-', .digits .monthOfYear 2, .lit '-', .digits .dayOfMonth 2]
  | .ord .. => yearTmpl ned ++ [.lit '-', .digits .dayOfYear 3]
  | .week .. => yearTmpl ned ++ [.lit '-', .lit 'W', .digits .weekOfYear 2, .lit '-', .digits .dayOfWeek 1]

def dateEnv (ned : Nat) : Date → Env
  | .cal y mo d => yearEnv ned y ++ [(.monthOfYear, renderNat 2 mo.toNat), (.dayOfMonth, renderNat 2 d.toNat)]
  | .ord y doy => yearEnv ned y ++ [(.dayOfYear, renderNat 3 doy.toNat)]
  | .week y w d => yearEnv ned y ++ [(.weekOfYear, renderNat 2 w.toNat), (.dayOfWeek, renderNat 1 d.toNat)]

/-- `hh:mm:ss` -/
def timeTmpl : Template :=
  [.digits .hourOfDay 2, .lit ':', .digits .minuteOfHour 2, .lit ':', .digits .secondOfMinute 2]

def timeEnv (p : TP) : Env :=
  [(.hourOfDay, renderNat 2 p.hh.toNat), (.minuteOfHour, renderNat 2 p.mi.toNat),
   (.secondOfMinute, renderNat 2 p.ss.toNat)]

/-- `Z` for a zero offset, else `±hh:mm`. -/
def zoneTmpl (z : TZ) : Template :=
  if z.h = 0 ∧ z.mi = 0 then [.group .tzUtc ['Z']]
  else [.sign .tzSign, .digits .tzHour 2, .lit ':', .digits .tzMinute 2]

def zoneEnv (z : TZ) : Env :=
  if z.h = 0 ∧ z.mi = 0 then [(.tzUtc, ['Z'])]
  else [(.tzSign, [if z.h < 0 ∨ z.mi < 0 then '-' else '+']), (.tzHour, renderNat 2 z.h.natAbs),
        (.tzMinute, renderNat 2 z.mi.natAbs)]

/-- The specified text of a whole-second point carrying `ned` expanded year digits. -/
def stdText (ned : Nat) (p : TP) : List Char :=
  trender (dateTmpl ned p.date) (dateEnv ned p.date) ++
    'T' :: (trender timeTmpl (timeEnv p) ++ trender (zoneTmpl p.tz) (zoneEnv p.tz))

def dateYear : Date → Int
  | .cal y _ _ => y
  | .ord y _ => y
  | .week y _ _ => y

/-- The years the agreed digits can spell: 0000–9999 without expanded digits, else
    `|y| < 10^(4+ned)`. -/
def YearInRange (ned : Nat) (y : Int) : Prop :=
  if ned = 0 then 0 ≤ y ∧ y ≤ 9999 else y.natAbs < 10 ^ (4 + ned)

instance (ned : Nat) (y : Int) : Decidable (YearInRange ned y) := by
  unfold YearInRange; infer_instance

example : stdText 0 ⟨.cal 2000 2 29, 24, 0, 0, ⟨0, -30⟩⟩ = "2000-02-29T24:00:00-00:30".toList := by decide +kernel
example : stdText 2 ⟨.week (-400) 53 7, 0, 5, 9, ⟨0, 0⟩⟩ = "-000400-W53-7T00:05:09Z".toList := by decide +kernel
example : stdText 3 ⟨.ord 9999999 366, 23, 59, 59, ⟨99, 59⟩⟩ = "+9999999-366T23:59:59+99:59".toList := by decide +kernel
example : (match str .greg (XTP.ofTP 2 ⟨.week (-400) 53 7, 0, 5, 9, ⟨0, 0⟩⟩) with
    | .ok t => t == stdText 2 ⟨.week (-400) 53 7, 0, 5, 9, ⟨0, 0⟩⟩
    | .error _ => false) = true := by decide +kernel

end IsoDT.Text
