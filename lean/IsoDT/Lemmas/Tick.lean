/-
  IsoDT.Lemmas.Tick — `_tick_over` and the exact part of `__add__`: every carry preserves the
  instant (`Spec.TP.inst`, which is linear in out-of-range fields) and ends with every field in
  range.
-/
import IsoDT.Lemmas.Conv
import IsoDT.Model.TimePoint

namespace IsoDT.Lemmas
open IsoDT IsoDT.Model
open IsoDT.Spec (Date TZ TP)

/-! ### the loops always make progress (the extra guard conjunct of the model is always true) -/

theorem daysInYear_pos (m : Mode) (y : Int) : 0 < daysInYear m y := by
  rw [daysInYear_eq]; have := yearLen_bounds m y; omega

theorem weeksInYear_pos (m : Mode) (y : Int) : 0 < weeksInYear m y := by
  rw [weeksInYear_eq]; have := weeksInYear_bounds m y; omega

/-! ### ordinal carry -/

theorem ordBack_spec (m : Mode) : ∀ y doy : Int,
    Spec.dby m (ordBack m y doy).1 + (ordBack m y doy).2 = Spec.dby m y + doy ∧
    1 ≤ (ordBack m y doy).2 ∧
    (doy < 1 → (ordBack m y doy).2 ≤ Spec.yearLen m (ordBack m y doy).1) ∧
    (1 ≤ doy → ordBack m y doy = (y, doy)) := by
  intro y doy
  induction y, doy using ordBack.induct (m := m) with
  | case1 y doy h ih =>
    rw [ordBack, if_pos h]
    obtain ⟨i1, i2, i3, i4⟩ := ih
    have hs := dby_succ m (y - 1)
    have e : y - 1 + 1 = y := by omega
    rw [e] at hs
    rw [daysInYear_eq] at i1 i2 i3 i4 ⊢
    refine ⟨by omega, i2, ?_, by omega⟩
    intro _
    by_cases c : doy + Spec.yearLen m (y - 1) < 1
    · exact i3 c
    · have := i4 (by omega); rw [this]; simp only; omega
  | case2 y doy h =>
    rw [ordBack, if_neg h]
    dsimp only
    have := daysInYear_pos m (y - 1)
    refine ⟨rfl, by omega, by omega, fun _ => rfl⟩

theorem ordFwd_spec (m : Mode) : ∀ y doy : Int, 1 ≤ doy →
    Spec.dby m (ordFwd m y doy).1 + (ordFwd m y doy).2 = Spec.dby m y + doy ∧
    1 ≤ (ordFwd m y doy).2 ∧ (ordFwd m y doy).2 ≤ Spec.yearLen m (ordFwd m y doy).1 ∧
    (doy ≤ Spec.yearLen m y → ordFwd m y doy = (y, doy)) := by
  intro y doy
  induction y, doy using ordFwd.induct (m := m) with
  | case1 y doy h ih =>
    intro h1
    rw [ordFwd, if_pos h]
    rw [daysInYear_eq] at h ih ⊢
    obtain ⟨i1, i2, i3, _⟩ := ih (by omega)
    have hs := dby_succ m y
    exact ⟨by omega, i2, i3, by omega⟩
  | case2 y doy h =>
    intro h1
    rw [ordFwd, if_neg h]
    dsimp only
    have := daysInYear_pos m y
    rw [daysInYear_eq] at h this
    exact ⟨rfl, h1, by omega, fun _ => rfl⟩

theorem normOrd_spec (m : Mode) (y doy : Int) :
    Spec.ValidOrd m (normOrd m y doy).1 (normOrd m y doy).2 ∧
    Spec.dayNumOrd m (normOrd m y doy).1 (normOrd m y doy).2 = Spec.dayNumOrd m y doy := by
  obtain ⟨b1, b2, _, _⟩ := ordBack_spec m y doy
  obtain ⟨f1, f2, f3, _⟩ := ordFwd_spec m (ordBack m y doy).1 (ordBack m y doy).2 b2
  unfold normOrd Spec.ValidOrd Spec.dayNumOrd
  simp only
  omega

theorem normOrd_valid (m : Mode) (y doy : Int) (h : Spec.ValidOrd m y doy) : normOrd m y doy = (y, doy) := by
  obtain ⟨h1, h2⟩ := h
  unfold normOrd
  rw [(ordBack_spec m y doy).2.2.2 h1]
  exact (ordFwd_spec m y doy h1).2.2.2 h2

/-! ### week carry -/

theorem weekBack_spec (m : Mode) : ∀ y w : Int,
    Spec.weekYearStart m (weekBack m y w).1 + 7 * (weekBack m y w).2 = Spec.weekYearStart m y + 7 * w ∧
    1 ≤ (weekBack m y w).2 ∧ (1 ≤ w → weekBack m y w = (y, w)) := by
  intro y w
  induction y, w using weekBack.induct (m := m) with
  | case1 y w h ih =>
    rw [weekBack, if_pos h]
    obtain ⟨i1, i2, _⟩ := ih
    have hs := weekYearStart_succ m (y - 1)
    have e : y - 1 + 1 = y := by omega
    rw [e] at hs
    rw [weeksInYear_eq] at i1 i2 ⊢
    exact ⟨by omega, i2, by omega⟩
  | case2 y w h =>
    rw [weekBack, if_neg h]
    dsimp only
    have := weeksInYear_pos m (y - 1)
    exact ⟨rfl, by omega, fun _ => rfl⟩

theorem weekFwd_spec (m : Mode) : ∀ y w : Int, 1 ≤ w →
    Spec.weekYearStart m (weekFwd m y w).1 + 7 * (weekFwd m y w).2 = Spec.weekYearStart m y + 7 * w ∧
    1 ≤ (weekFwd m y w).2 ∧ (weekFwd m y w).2 ≤ Spec.weeksInYear m (weekFwd m y w).1 ∧
    (w ≤ Spec.weeksInYear m y → weekFwd m y w = (y, w)) := by
  intro y w
  induction y, w using weekFwd.induct (m := m) with
  | case1 y w h ih =>
    intro h1
    rw [weekFwd, if_pos h]
    rw [weeksInYear_eq] at h ih ⊢
    obtain ⟨i1, i2, i3, _⟩ := ih (by omega)
    have hs := weekYearStart_succ m y
    exact ⟨by omega, i2, i3, by omega⟩
  | case2 y w h =>
    intro h1
    rw [weekFwd, if_neg h]
    dsimp only
    have := weeksInYear_pos m y
    rw [weeksInYear_eq] at h this
    exact ⟨rfl, h1, by omega, fun _ => rfl⟩

theorem normWeek_spec (m : Mode) (y w : Int) :
    1 ≤ (normWeek m y w).2 ∧ (normWeek m y w).2 ≤ Spec.weeksInYear m (normWeek m y w).1 ∧
    Spec.weekYearStart m (normWeek m y w).1 + 7 * (normWeek m y w).2 = Spec.weekYearStart m y + 7 * w := by
  obtain ⟨b1, b2, _⟩ := weekBack_spec m y w
  obtain ⟨f1, f2, f3, _⟩ := weekFwd_spec m (weekBack m y w).1 (weekBack m y w).2 b2
  unfold normWeek
  simp only
  omega

/-! ### month carry (identity on months 1..12) -/

theorem normMonth_valid (m : Mode) (y mo : Int) (h1 : 1 ≤ mo) (h2 : mo ≤ 12) : normMonth m y mo = (y, mo) := by
  unfold normMonth
  have hb : monthBack m y mo = (y, mo) := by
    rw [monthBack]; have : ¬ mo < 1 := by omega
    simp [this]
  rw [hb]; simp only
  rw [monthFwd]; have : ¬ mo > (calOf m).monthsInYear := by rw [monthsInYear_eq]; omega
  simp [this]

/-! ### day-of-month carry -/

theorem tickDayOfMonth_spec (m : Mode) (y mo d : Int) (h1 : 1 ≤ mo) (h2 : mo ≤ 12) :
    ∃ ry rmo rd, tickDayOfMonth m y mo d = some (ry, rmo, rd) ∧ Spec.ValidCal m ry rmo rd ∧
      Spec.dayNumCal m ry rmo rd = Spec.dayNumCal m y mo d := by
  unfold tickDayOfMonth
  have hmod : (mo - 1) % (calOf m).monthsInYear + 1 = mo := by rw [monthsInYear_eq]; omega
  have hlen : daysInMonthB m (isLeapYear y) mo = Spec.monthLen m y mo := daysInMonth_eq m y mo h1 h2
  rw [hmod, hlen]
  have hml := monthLen_bounds m y mo h1 h2
  by_cases hc : d < 1 ∨ d > Spec.monthLen m y mo
  · simp only [hc, ↓reduceIte]
    have hv1 : Spec.ValidCal m y mo 1 := ⟨h1, h2, by omega, by omega⟩
    rw [posOf_valid m y mo 1 hv1]
    simp only
    obtain ⟨nv, nn⟩ := normOrd_spec m y (Spec.dbm m y mo + 1 - 1 + d)
    obtain ⟨rmo, rd, he, hv, hn⟩ := calFromOrd_spec m _ _ nv
    refine ⟨_, rmo, rd, he, hv, ?_⟩
    rw [hn, nn]; unfold Spec.dayNumOrd Spec.dayNumCal; omega
  · simp only [hc, ↓reduceIte]
    exact ⟨y, mo, d, rfl, ⟨h1, h2, by omega, by omega⟩, rfl⟩

/-! ### `_tick_over` -/

/-- What `_tick_over` needs of the date: a calendar date's month is 1..12 (days, ordinal days,
    weeks and weekdays may be anywhere). -/
def PreValid : Date → Prop
  | .cal _ mo _ => 1 ≤ mo ∧ mo ≤ 12
  | _ => True

theorem preValid_of_valid (m : Mode) (dt : Date) (h : dt.Valid m) : PreValid dt := by
  cases dt <;> simp only [PreValid]
  exact ⟨h.1, h.2.1⟩

theorem preValid_bumpDay (dt : Date) (n : Int) (h : PreValid dt) : PreValid (bumpDay dt n) := by
  cases dt <;> simpa [bumpDay, PreValid] using h

theorem dayNum_bumpDay (m : Mode) (dt : Date) (n : Int) : (bumpDay dt n).dayNum m = dt.dayNum m + n := by
  cases dt <;> simp only [bumpDay, Date.dayNum, Spec.dayNumCal, Spec.dayNumOrd, Spec.dayNumWeek] <;> omega

theorem rep_bumpDay (dt : Date) (n : Int) : (bumpDay dt n).rep = dt.rep := by
  cases dt <;> rfl

/-- `_tick_over` keeps the instant, the representation and the offset, and leaves a real date
    with `0 ≤ h < 24`, `0 ≤ m, s < 60` — from any intermediate state of `__add__`. -/
theorem tickOver_spec (m : Mode) (p : TP) (hp : PreValid p.date) :
    ∃ q, tickOver m p = some q ∧ q.inst m = p.inst m ∧ q.date.Valid m ∧
      0 ≤ q.hh ∧ q.hh < 24 ∧ 0 ≤ q.mi ∧ q.mi < 60 ∧ 0 ≤ q.ss ∧ q.ss < 60 ∧
      q.tz = p.tz ∧ q.date.rep = p.date.rep := by
  obtain ⟨date, hh, mi, ss, tz⟩ := p
  unfold tickOver
  simp only [secondsInMinute_eq, minutesInHour_eq, hoursInDay_eq, daysInWeek_eq]
  cases date with
  | cal y mo d =>
    obtain ⟨ry, rmo, rd, he, hv, hn⟩ :=
      tickDayOfMonth_spec m y mo (d + (hh + (mi + ss / 60) / 60) / 24) hp.1 hp.2
    simp only [he, normMonth_valid m ry rmo hv.1 hv.2.1, Option.map_some]
    refine ⟨_, rfl, ?_⟩
    dsimp only
    refine ⟨?_, hv, by omega, by omega, by omega, by omega, by omega, by omega, rfl, rfl⟩
    simp only [TP.inst, TP.secOfDay, Date.dayNum, hn]
    unfold Spec.dayNumCal; omega
  | ord y doy =>
    obtain ⟨nv, nn⟩ := normOrd_spec m y (doy + (hh + (mi + ss / 60) / 60) / 24)
    simp only [Option.map_some]
    refine ⟨_, rfl, ?_⟩
    dsimp only
    refine ⟨?_, nv, by omega, by omega, by omega, by omega, by omega, by omega, rfl, rfl⟩
    simp only [TP.inst, TP.secOfDay, Date.dayNum, nn]
    unfold Spec.dayNumOrd; omega
  | week y w d =>
    obtain ⟨n1, n2, n3⟩ :=
      normWeek_spec m y (w + (d + (hh + (mi + ss / 60) / 60) / 24 - 1) / 7)
    simp only [Option.map_some]
    refine ⟨_, rfl, ?_⟩
    dsimp only
    refine ⟨?_, ⟨n1, n2, by omega, by omega⟩, by omega, by omega, by omega, by omega,
      by omega, by omega, rfl, rfl⟩
    simp only [TP.inst, TP.secOfDay, Date.dayNum]
    unfold Spec.dayNumWeek; omega

theorem tickOver_valid_id (m : Mode) (p : TP) (h : p.Strict m) : tickOver m p = some p := by
  obtain ⟨date, hh, mi, ss, tz⟩ := p
  obtain ⟨⟨hd, h1, h2, h3, h4, h5, h6, h7, h8⟩, h9⟩ := h
  simp only at hd h1 h2 h3 h4 h5 h6 h9
  have e1 : ss / 60 = 0 := by omega
  have e2 : ss % 60 = ss := by omega
  have e3 : mi / 60 = 0 := by omega
  have e4 : mi % 60 = mi := by omega
  have e5 : hh / 24 = 0 := by omega
  have e6 : hh % 24 = hh := by omega
  unfold tickOver
  simp only [secondsInMinute_eq, minutesInHour_eq, hoursInDay_eq, daysInWeek_eq, e1, e2, e3, e4, e5, e6,
    Int.add_zero]
  cases date with
  | cal y mo d =>
    have hv : Spec.ValidCal m y mo d := hd
    have : tickDayOfMonth m y mo d = some (y, mo, d) := by
      unfold tickDayOfMonth
      have hmod : (mo - 1) % (calOf m).monthsInYear + 1 = mo := by
        rw [monthsInYear_eq]; have := hv.1; have := hv.2.1; omega
      have hlen : daysInMonthB m (isLeapYear y) mo = Spec.monthLen m y mo := daysInMonth_eq m y mo hv.1 hv.2.1
      rw [hmod, hlen]
      have : ¬ (d < 1 ∨ d > Spec.monthLen m y mo) := by have := hv.2.2.1; have := hv.2.2.2; omega
      simp only [this, ↓reduceIte]
    simp only [this, normMonth_valid m y mo hv.1 hv.2.1, Option.map_some]
  | ord y doy =>
    have hv : Spec.ValidOrd m y doy := hd
    simp only [normOrd_valid m y doy hv, Option.map_some]
  | week y w d =>
    have hv : Spec.ValidWeek m y w d := hd
    obtain ⟨w1, w2, d1, d2⟩ := hv
    have e7 : (d - 1) / 7 = 0 := by omega
    have e8 : (d - 1) % 7 + 1 = d := by omega
    have hn : normWeek m y w = (y, w) := by
      unfold normWeek
      rw [(weekBack_spec m y w).2.2 w1]
      exact (weekFwd_spec m y w w1).2.2.2 w2
    simp only [e7, e8, Int.add_zero, hn, Option.map_some]

/-! ### the exact part of `__add__` -/

/-- A point all of whose fields are in range with `hh < 24`, plus the facts `__add__` threads. -/
structure Good (m : Mode) (p q : TP) (delta : Int) : Prop where
  inst : q.inst m = p.inst m + delta
  strict : q.Strict m
  tz : q.tz = p.tz
  rep : q.date.rep = p.date.rep

theorem strict_of_tick (m : Mode) (q : TP) (tzv : q.tz.Valid)
    (h : q.date.Valid m ∧ 0 ≤ q.hh ∧ q.hh < 24 ∧ 0 ≤ q.mi ∧ q.mi < 60 ∧ 0 ≤ q.ss ∧ q.ss < 60) :
    q.Strict m := by
  obtain ⟨a, b, c, d, e, f, g⟩ := h
  exact ⟨⟨a, b, by omega, d, e, f, g, by omega, tzv⟩, c⟩

theorem normalise24_spec (m : Mode) (p : TP) (h : p.Valid m) :
    ∃ q, normalise24 m p = some q ∧ Good m p q 0 := by
  unfold normalise24
  rw [hoursInDay_eq]
  by_cases c : p.hh = 24
  · simp only [c, ↓reduceIte]
    obtain ⟨q, he, hi, hv, r⟩ := tickOver_spec m p (preValid_of_valid m _ h.1)
    have tzv : q.tz.Valid := by rw [r.2.2.2.2.2.2.1]; exact h.2.2.2.2.2.2.2.2
    exact ⟨q, he, ⟨by omega, strict_of_tick m q tzv ⟨hv, r.1, r.2.1, r.2.2.1, r.2.2.2.1, r.2.2.2.2.1,
      r.2.2.2.2.2.1⟩, r.2.2.2.2.2.2.1, r.2.2.2.2.2.2.2⟩⟩
  · simp only [c, ↓reduceIte]
    refine ⟨p, rfl, ⟨by omega, ⟨h, ?_⟩, rfl, rfl⟩⟩
    have := h.2.2.1; omega

/-- One `field += x; self._tick_over()` step of `__add__`, from a good point. -/
theorem bump_tick (m : Mode) (p0 p p' : TP) (delta x : Int) (g : Good m p0 p delta)
    (hpre : PreValid p'.date) (htz : p'.tz = p.tz) (hrep : p'.date.rep = p.date.rep)
    (hinst : p'.inst m = p.inst m + x) :
    ∃ q, tickOver m p' = some q ∧ Good m p0 q (delta + x) := by
  obtain ⟨q, he, hi, hv, r⟩ := tickOver_spec m p' hpre
  have tzv : q.tz.Valid := by rw [r.2.2.2.2.2.2.1, htz]; exact g.strict.1.2.2.2.2.2.2.2.2
  refine ⟨q, he, ⟨?_, strict_of_tick m q tzv ⟨hv, r.1, r.2.1, r.2.2.1, r.2.2.2.1, r.2.2.2.2.1,
      r.2.2.2.2.2.1⟩, ?_, ?_⟩⟩
  · rw [hi, hinst, g.inst]; omega
  · rw [r.2.2.2.2.2.2.1, htz, g.tz]
  · rw [r.2.2.2.2.2.2.2, hrep, g.rep]

theorem stepS_spec (m : Mode) (p p0 : TP) (delta s : Int) (g : Good m p p0 delta) :
    ∃ q, stepS m p0 s = some q ∧ Good m p q (delta + s) := by
  unfold stepS
  by_cases c : s ≠ 0
  · rw [if_pos c]
    exact bump_tick m p p0 { p0 with ss := p0.ss + s } delta s g
      (preValid_of_valid m _ g.strict.1.1) rfl rfl (by simp only [TP.inst, TP.secOfDay]; omega)
  · rw [if_neg c]
    have e : delta + s = delta := by omega
    rw [e]; exact ⟨p0, rfl, g⟩

theorem stepM_spec (m : Mode) (p p0 : TP) (delta x : Int) (g : Good m p p0 delta) :
    ∃ q, stepM m p0 x = some q ∧ Good m p q (delta + 60 * x) := by
  unfold stepM
  by_cases c : x ≠ 0
  · rw [if_pos c]
    exact bump_tick m p p0 { p0 with mi := p0.mi + x } delta (60 * x) g
      (preValid_of_valid m _ g.strict.1.1) rfl rfl (by simp only [TP.inst, TP.secOfDay]; omega)
  · rw [if_neg c]
    have e : delta + 60 * x = delta := by omega
    rw [e]; exact ⟨p0, rfl, g⟩

theorem stepH_spec (m : Mode) (p p0 : TP) (delta x : Int) (g : Good m p p0 delta) :
    ∃ q, stepH m p0 x = some q ∧ Good m p q (delta + 3600 * x) := by
  unfold stepH
  by_cases c : x ≠ 0
  · rw [if_pos c]
    exact bump_tick m p p0 { p0 with hh := p0.hh + x } delta (3600 * x) g
      (preValid_of_valid m _ g.strict.1.1) rfl rfl (by simp only [TP.inst, TP.secOfDay]; omega)
  · rw [if_neg c]
    have e : delta + 3600 * x = delta := by omega
    rw [e]; exact ⟨p0, rfl, g⟩

theorem stepD_spec (m : Mode) (p p0 : TP) (delta x : Int) (g : Good m p p0 delta) :
    ∃ q, stepD m p0 x = some q ∧ Good m p q (delta + 86400 * x) := by
  unfold stepD
  by_cases c : x ≠ 0
  · rw [if_pos c]
    exact bump_tick m p p0 { p0 with date := bumpDay p0.date x } delta (86400 * x) g
      (preValid_bumpDay _ _ (preValid_of_valid m _ g.strict.1.1)) rfl (rep_bumpDay _ _)
      (by simp only [TP.inst, dayNum_bumpDay, TP.secOfDay]; omega)
  · rw [if_neg c]
    have e : delta + 86400 * x = delta := by omega
    rw [e]; exact ⟨p0, rfl, g⟩

theorem addUnits_spec (m : Mode) (p : TP) (d h mi s : Int) (hv : p.Valid m) :
    ∃ q, addUnits m p d h mi s = some q ∧ Good m p q (86400 * d + 3600 * h + 60 * mi + s) := by
  unfold addUnits
  obtain ⟨p0, e0, g0⟩ := normalise24_spec m p hv
  obtain ⟨p1, e1, g1⟩ := stepS_spec m p p0 0 s g0
  obtain ⟨p2, e2, g2⟩ := stepM_spec m p p1 _ mi g1
  obtain ⟨p3, e3, g3⟩ := stepH_spec m p p2 _ h g2
  obtain ⟨p4, e4, g4⟩ := stepD_spec m p p3 _ d g3
  rw [e0, Option.bind_some, e1, Option.bind_some, e2, Option.bind_some, e3, Option.bind_some, e4]
  refine ⟨p4, rfl, ?_⟩
  have e : 86400 * d + 3600 * h + 60 * mi + s = 0 + s + 60 * mi + 3600 * h + 86400 * d := by omega
  rw [e]; exact g4

end IsoDT.Lemmas
