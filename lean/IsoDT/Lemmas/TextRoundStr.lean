/-
  IsoDT.Lemmas.TextRoundStr — the dumper half of the C08 round trip: `str` of a valid whole-second
  point is exactly its specified text `stdText`.

  `_get_dump_format` writes the year's digits literally into the format string, so the dumper's
  chain of regex substitutions runs over a string with a symbolic block of digits in it.  The block
  is handled once and for all: no rule of the tables mentions a digit, so every rule acts on
  `fill O S` (the working string `S` with the marker `hole` replaced by the digit block `O`) as it
  acts on `S`, leaving the block alone (`compile_fill`).  The rest is evaluation of the concrete
  tables on concrete strings containing the marker.
-/
import IsoDT.Lemmas.TextRoundDefs
import IsoDT.Lemmas.Text
import IsoDT.Lemmas.TextParse
import IsoDT.Lemmas.Week

namespace IsoDT.Text
open IsoDT IsoDT.Model
open IsoDT.Spec (Date TZ TP)
open _root_.IsoDT.Gen.Templates (timeDesignator dumper_0 dumper_2 dumper_3 dumpTables)

/-! ## An opaque block of digits inside the working string -/

/-- The marker standing for the block.  No substitution produces it (`outSegs` turns a literal into
    `raw`), and no pattern matches it. -/
def hole : Seg := .dir (.lit '#')

/-- Put the block `O` where the marker is. -/
def fill (O : List Char) : List Seg → List Seg
  | [] => []
  | s :: rest => if s = hole then O.map Seg.raw ++ fill O rest else s :: fill O rest

/-- No digit among the characters. -/
def noDigit (l : List Char) : Bool := l.all fun c => !isDigit c

/-- A rule whose three literals are digit-free. -/
def goodRule (r : DumpRule) : Bool := noDigit r.pat && noDigit r.ahead && noDigit r.behind

theorem fill_append (O : List Char) (a b : List Seg) : fill O (a ++ b) = fill O a ++ fill O b := by
  induction a with
  | nil => rfl
  | cons s a ih =>
    simp only [List.cons_append, fill, ih]
    split <;> simp

theorem fill_raw (O : List Char) (l : List Char) : fill O (l.map Seg.raw) = l.map Seg.raw := by
  induction l with
  | nil => rfl
  | cons c l ih => simp [fill, hole, ih]

theorem fill_outSegs (O : List Char) (out : List OutItem) : fill O (outSegs out) = outSegs out := by
  unfold outSegs
  induction out with
  | nil => rfl
  | cons o out ih =>
    simp only [List.map_cons, fill, ih]
    cases o <;> simp [hole]

theorem fill_hole (O : List Char) (rest : List Seg) : fill O (hole :: rest) = O.map Seg.raw ++ fill O rest := by
  simp [fill]

theorem matchRaw_some (pat : List Char) (S a : List Seg) (h : matchRaw pat S = some a) :
    S = pat.map Seg.raw ++ a := by
  induction pat generalizing S with
  | nil => simp [matchRaw] at h; simp [h]
  | cons c cs ih =>
    cases S with
    | nil => simp [matchRaw] at h
    | cons s S =>
      cases s with
      | dir o => simp [matchRaw] at h
      | raw x =>
        simp only [matchRaw] at h
        split at h
        · rename_i e; subst e; simp [ih S h]
        · exact absurd h (by simp)

theorem matchRaw_append (pat : List Char) (a : List Seg) : matchRaw pat (pat.map Seg.raw ++ a) = some a := by
  induction pat with
  | nil => rfl
  | cons c cs ih => simp [matchRaw, ih]

/-- A digit-free literal matches in the filled string exactly where it matches in the marked one. -/
theorem matchRaw_fill (O : List Char) (hO : O ≠ []) (hd : O.all isDigit = true) (pat : List Char)
    (hp : noDigit pat = true) (S : List Seg) :
    matchRaw pat (fill O S) = (matchRaw pat S).map (fill O) := by
  induction pat generalizing S with
  | nil => simp [matchRaw]
  | cons c cs ih =>
    simp only [noDigit, List.all_cons, Bool.and_eq_true, Bool.not_eq_true'] at hp
    have hcs : noDigit cs = true := by simpa [noDigit] using hp.2
    cases S with
    | nil => simp [fill, matchRaw]
    | cons s S =>
      by_cases hs : s = hole
      · subst hs
        cases O with
        | nil => exact absurd rfl hO
        | cons d O =>
          simp only [List.all_cons, Bool.and_eq_true] at hd
          have hcd : c ≠ d := by
            intro e; subst e; rw [hd.1] at hp; exact absurd hp.1 (by simp)
          simp [fill, matchRaw, hole, hcd]
      · cases s with
        | dir o => simp [fill, hs, matchRaw]
        | raw x =>
          simp only [fill, hs, if_false, matchRaw]
          split
          · exact ih hcs S
          · rfl

theorem matchesAt_fill (O : List Char) (hO : O ≠ []) (hd : O.all isDigit = true) (r : DumpRule)
    (hr : goodRule r = true) (S : List Seg) : matchesAt r (fill O S) = matchesAt r S := by
  simp only [goodRule, Bool.and_eq_true] at hr
  unfold matchesAt
  rw [matchRaw_fill O hO hd r.pat hr.1.1 S]
  cases h : matchRaw r.pat S with
  | none => rfl
  | some a =>
    simp only [Option.map_some]
    rw [matchRaw_fill O hO hd r.ahead hr.1.2 a]
    cases matchRaw r.ahead a <;> rfl

/-- A digit cannot start a match. -/
theorem matchesAt_digit (r : DumpRule) (hr : goodRule r = true) (hne : r.pat ≠ []) (d : Char)
    (hd : isDigit d = true) (S : List Seg) : matchesAt r (Seg.raw d :: S) = false := by
  simp only [goodRule, Bool.and_eq_true] at hr
  unfold matchesAt
  cases hp : r.pat with
  | nil => exact absurd hp hne
  | cons c cs =>
    have h1 := hr.1.1
    rw [hp] at h1
    simp only [noDigit, List.all_cons, Bool.and_eq_true, Bool.not_eq_true'] at h1
    have hcd : c ≠ d := by
      intro e; subst e; rw [hd] at h1; exact absurd h1.1 (by simp)
    simp [matchRaw, hcd]

theorem scan_skip (r : DumpRule) (k : Nat) (S : List Seg) : scan r k S = scan r 0 (S.drop k) := by
  induction k generalizing S with
  | zero => rfl
  | succ k ih =>
    cases S with
    | nil => simp [scan]
    | cons s S => simp [scan, ih]

theorem scan_digits (r : DumpRule) (hr : goodRule r = true) (hne : r.pat ≠ []) (O : List Char)
    (hd : O.all isDigit = true) (S : List Seg) :
    scan r 0 (O.map Seg.raw ++ S) = O.map Seg.raw ++ scan r 0 S := by
  induction O with
  | nil => rfl
  | cons d O ih =>
    simp only [List.all_cons, Bool.and_eq_true] at hd
    simp [scan, matchesAt_digit r hr hne d hd.1, ih hd.2]

theorem occurs_digits (r : DumpRule) (hr : goodRule r = true) (hne : r.pat ≠ []) (O : List Char)
    (hd : O.all isDigit = true) (S : List Seg) :
    occurs r (O.map Seg.raw ++ S) = occurs r S := by
  induction O with
  | nil => rfl
  | cons d O ih =>
    simp only [List.all_cons, Bool.and_eq_true] at hd
    simp [occurs, matchesAt_digit r hr hne d hd.1, ih hd.2]

theorem matchesAt_some (r : DumpRule) (S : List Seg) (h : matchesAt r S = true) :
    ∃ a, S = r.pat.map Seg.raw ++ a := by
  unfold matchesAt at h
  cases hm : matchRaw r.pat S with
  | none => simp [hm] at h
  | some a => exact ⟨a, matchRaw_some _ _ _ hm⟩

/-- One unanchored substitution pass leaves the block alone. -/
theorem scan_fill (O : List Char) (hO : O ≠ []) (hd : O.all isDigit = true) (r : DumpRule)
    (hr : goodRule r = true) (hne : r.pat ≠ []) (n : Nat) :
    ∀ S : List Seg, S.length ≤ n → scan r 0 (fill O S) = fill O (scan r 0 S) := by
  induction n with
  | zero =>
    intro S hS
    have : S = [] := List.length_eq_zero_iff.mp (by omega)
    subst this; rfl
  | succ n ih =>
    intro S hS
    cases S with
    | nil => rfl
    | cons s rest =>
      cases hm : matchesAt r (s :: rest) with
      | true =>
        obtain ⟨a, ha⟩ := matchesAt_some r _ hm
        have hlen : 0 < r.pat.length := List.length_pos_iff.mpr hne
        have hal : a.length ≤ n := by
          have := congrArg List.length ha
          simp at this hS; omega
        have hm' : matchesAt r (r.pat.map Seg.raw ++ fill O a) = true := by
          have := matchesAt_fill O hO hd r hr (s :: rest)
          rw [ha, fill_append, fill_raw] at this
          rw [this, ← ha, hm]
        -- the unfilled side
        have e1 : scan r 0 (s :: rest) = outSegs r.out ++ scan r 0 a := by
          have hd1 : rest.drop (r.pat.length - 1) = a := by
            have : (s :: rest).drop r.pat.length = a := by rw [ha]; simp
            have e : r.pat.length = (r.pat.length - 1) + 1 := by omega
            rw [e, List.drop_succ_cons] at this; exact this
          simp only [scan, hm, if_true]
          rw [scan_skip, hd1]
        -- the filled side
        have e2 : scan r 0 (fill O (s :: rest)) = outSegs r.out ++ scan r 0 (fill O a) := by
          rw [ha, fill_append, fill_raw]
          cases hp : r.pat with
          | nil => exact absurd hp hne
          | cons c cs =>
            rw [hp] at hm'
            simp only [List.map_cons, List.cons_append] at hm' ⊢
            simp only [scan, hm', if_true]
            rw [scan_skip]
            simp [hp]
        rw [e1, e2, fill_append, fill_outSegs, ih a hal]
      | false =>
        have hrest : rest.length ≤ n := by simp at hS; omega
        have e1 : scan r 0 (s :: rest) = s :: scan r 0 rest := by simp [scan, hm]
        rw [e1]
        by_cases hs : s = hole
        · subst hs
          rw [fill_hole, fill_hole, scan_digits r hr hne O hd, ih rest hrest]
        · have hm' : matchesAt r (s :: fill O rest) = false := by
            have := matchesAt_fill O hO hd r hr (s :: rest)
            simp only [fill, hs, if_false] at this
            rw [this, hm]
          simp only [fill, hs, if_false, scan, hm']
          rw [ih rest hrest]
          simp

theorem occurs_fill (O : List Char) (hO : O ≠ []) (hd : O.all isDigit = true) (r : DumpRule)
    (hr : goodRule r = true) (hne : r.pat ≠ []) (S : List Seg) :
    occurs r (fill O S) = occurs r S := by
  induction S with
  | nil => rfl
  | cons s rest ih =>
    by_cases hs : s = hole
    · subst hs
      have hm : matchesAt r (hole :: rest) = false := by
        unfold matchesAt
        cases hp : r.pat with
        | nil => exact absurd hp hne
        | cons c cs => simp [hole, matchRaw]
      rw [fill_hole, occurs_digits r hr hne O hd, ih]
      simp [occurs, hm]
    · have hm' : matchesAt r (s :: fill O rest) = matchesAt r (s :: rest) := by
        have := matchesAt_fill O hO hd r hr (s :: rest)
        simpa only [fill, hs, if_false] using this
      simp only [fill, hs, if_false, occurs, hm', ih]

/-- **One rule**: a digit-free rule acts on the filled string as on the marked one. -/
theorem applyRule_fill (O : List Char) (hO : O ≠ []) (hd : O.all isDigit = true) (r : DumpRule)
    (hr : goodRule r = true) (S : List Seg) :
    applyRule r (fill O S) = (fill O (applyRule r S).1, (applyRule r S).2) := by
  unfold applyRule
  by_cases hne : r.pat = []
  · simp [hne]
  · have hE : r.pat.isEmpty = false := by simpa using hne
    simp only [hE, Bool.false_eq_true, if_false]
    cases ha : r.anchored with
    | false =>
      simp only [Bool.false_eq_true, if_false]
      rw [scan_fill O hO hd r hr hne S.length S (Nat.le_refl _), occurs_fill O hO hd r hr hne]
    | true =>
      simp only [if_true]
      have hb : noDigit r.behind = true := by
        simp only [goodRule, Bool.and_eq_true] at hr; exact hr.2
      rw [matchRaw_fill O hO hd r.behind hb S]
      cases hmb : matchRaw r.behind S with
      | none => rfl
      | some after =>
        simp only [Option.map_some]
        rw [matchesAt_fill O hO hd r hr after]
        cases hm : matchesAt r after with
        | false => rfl
        | true =>
          obtain ⟨a, ha⟩ := matchesAt_some r _ hm
          simp only [if_true]
          rw [ha, fill_append, fill_raw, fill_append, fill_append, fill_raw, fill_outSegs]
          simp

/-- **A whole table**: the chain of substitutions commutes with filling in the block. -/
theorem compile_fill (O : List Char) (hO : O ≠ []) (hd : O.all isDigit = true) (rs : List DumpRule)
    (hrs : rs.all goodRule = true) (S : List Seg) :
    compile rs (fill O S) = (fill O (compile rs S).1, (compile rs S).2) := by
  induction rs generalizing S with
  | nil => rfl
  | cons r rs ih =>
    simp only [List.all_cons, Bool.and_eq_true] at hrs
    simp only [compile]
    rw [applyRule_fill O hO hd r hrs.1 S, ih hrs.2]

/-! ## The concrete tables on the marked strings -/

theorem dateRules_good : ∀ dt ∈ dumpTables, dt.date.all goodRule = true := by decide +kernel

/-- The date part of the default format after the year, by representation number. -/
def dateSuffixK : Nat → List Char
  | 0 => ['-', 'M', 'M', '-', 'D', 'D']
  | 1 => ['-', 'D', 'D', 'D']
  | _ => ['-', 'W', 'w', 'w', '-', 'D']

def dateSegsK : Nat → List Seg
  | 0 => [.raw '-', .dir (.int .monthOfYear 2), .raw '-', .dir (.int .dayOfMonth 2)]
  | 1 => [.raw '-', .dir (.int .dayOfYear 3)]
  | _ => [.raw '-', .raw 'W', .dir (.int .weekOfYear 2), .raw '-', .dir (.int .dayOfWeek 1)]

def datePropsK : Nat → List DProp
  | 0 => [.monthOfYear, .dayOfMonth]
  | 1 => [.dayOfYear]
  | _ => [.weekOfYear, .dayOfWeek]

/-- Every date table, every sign prefix, every representation: only the date tokens after the
    marker are replaced. -/
theorem compile_date_marked : ∀ dt ∈ dumpTables, ∀ pre ∈ [[], ['+'], ['-']], ∀ k ∈ [0, 1, 2],
    compile dt.date (pre.map Seg.raw ++ hole :: (dateSuffixK k).map Seg.raw) =
      (pre.map Seg.raw ++ hole :: dateSegsK k, datePropsK k) := by decide +kernel

theorem fill_dateSegsK (O : List Char) : ∀ k ∈ [0, 1, 2], fill O (dateSegsK k) = dateSegsK k := by
  intro k hk
  simp only [List.mem_cons, List.not_mem_nil, or_false] at hk
  rcases hk with rfl | rfl | rfl <;> simp [dateSegsK, fill, hole]

/-- The date half of the default format, with a symbolic block of year digits, compiles to the sign,
    the digits untouched, and the date directives. -/
theorem compile_date (dt : DumpTables) (hdt : dt ∈ dumpTables) (pre : List Char)
    (hpre : pre ∈ [[], ['+'], ['-']]) (k : Nat) (hk : k ∈ [0, 1, 2]) (O : List Char) (hO : O ≠ [])
    (hd : O.all isDigit = true) :
    compile dt.date ((pre ++ O ++ dateSuffixK k).map Seg.raw) =
      (pre.map Seg.raw ++ O.map Seg.raw ++ dateSegsK k, datePropsK k) := by
  have e : (pre ++ O ++ dateSuffixK k).map Seg.raw =
      fill O (pre.map Seg.raw ++ hole :: (dateSuffixK k).map Seg.raw) := by
    rw [fill_append, fill_raw, fill_hole, fill_raw]; simp
  rw [e, compile_fill O hO hd dt.date (dateRules_good dt hdt), compile_date_marked dt hdt pre hpre k hk]
  simp only
  rw [fill_append, fill_raw, fill_hole, fill_dateSegsK O k hk]; simp

/-! ## `_get_expression_and_properties` on a format with a time part -/

/-- The split of the text after the `T` into time, zone and literal zone, as `getExpr` does it. -/
def tzSplit (time0 : List Char) : Option (List Char × List Char × Option (Int × Int)) :=
  if time0.getLast? = some 'Z' then some (time0.dropLast, ['Z'], some (0, 0))
  else if hasInfix ['+', 'h', 'h'] time0 then
    match splitOnChar '+' time0 with
    | [a, b] => some (a, '+' :: b, none)
    | _ => none
  else if time0.contains '+' then
    match splitOnChar '+' time0 with
    | [a, b] => some (a, '+' :: b, getTimeZone ('+' :: b))
    | _ => none
  else if (time0.dropWhile (· = '-')).contains '-' then
    match splitOnChar '-' time0 with
    | [a, b] => some (a, '-' :: b, getTimeZone ('-' :: b))
    | _ => none
  else some (time0, [], none)

/-- What `getExpr` does with the text after the `T`: the split, the compiled time and zone and the
    literal zone. -/
def timeZonePart (dt : DumpTables) (time0 : List Char) :
    Option (List Seg × List DProp × Option (Int × Int)) :=
  match tzSplit time0 with
  | none => none
  | some (timeS, zoneS, custom) =>
    some ((compile dt.time (timeS.map Seg.raw)).1 ++ (compile dt.zone (zoneS.map Seg.raw)).1,
          (compile dt.time (timeS.map Seg.raw)).2 ++ (compile dt.zone (zoneS.map Seg.raw)).2, custom)

theorem getExpr_T (dt : DumpTables) (D R : List Char) (hD : 'T' ∉ D) (hR : 'T' ∉ R) :
    getExpr dt (D ++ 'T' :: R) =
      (timeZonePart dt R).map fun x =>
        { segs := (compile dt.date (D.map Seg.raw)).1 ++ Seg.raw 'T' :: x.1,
          props := (compile dt.date (D.map Seg.raw)).2 ++ x.2.1, customTZ := x.2.2 } := by
  unfold getExpr timeZonePart
  simp only [timeDesignator, splitOnChar_one 'T' D R hD hR]
  simp only [List.headD_cons, List.length_cons, List.length_nil, List.getD_cons_succ,
    List.getD_cons_zero, Nat.zero_add, Nat.reduceAdd, Nat.reduceLT, gt_iff_lt, decide_true,
    Bool.not_true, Bool.false_eq_true, if_false, if_true]
  split
  · rename_i h
    have h' : tzSplit R = none := h
    rw [h']; rfl
  · rename_i timeS zoneS custom h
    have h' : tzSplit R = some (timeS, zoneS, custom) := h
    rw [h']; simp only [Option.map_some, List.append_assoc]

/-! ## The time and zone halves of the default format (concrete) -/

def hmsFmt : List Char := ['h', 'h', ':', 'm', 'm', ':', 's', 's']

def zoneSuffix (z : TZ) : List Char :=
  if z.h = 0 ∧ z.mi = 0 then ['Z'] else ['+', 'h', 'h', ':', 'm', 'm']

def timeSegs : List Seg :=
  [.dir (.int .hourOfDay 2), .raw ':', .dir (.int .minuteOfHour 2), .raw ':', .dir (.int .secondOfMinute 2)]

def timeProps : List DProp := [.minuteOfHour, .hourOfDay, .secondOfMinute]

def zoneSegs (z : TZ) : List Seg :=
  if z.h = 0 ∧ z.mi = 0 then [.raw 'Z']
  else [.dir (.str .tzSign), .dir (.int .tzHourAbs 2), .raw ':', .dir (.int .tzMinuteAbs 2)]

def zoneProps (z : TZ) : List DProp :=
  if z.h = 0 ∧ z.mi = 0 then [] else [.tzMinuteAbs, .tzHourAbs, .tzSign]

def zoneCustom (z : TZ) : Option (Int × Int) :=
  if z.h = 0 ∧ z.mi = 0 then some (0, 0) else none

theorem timeZonePart_Z : ∀ dt ∈ dumpTables,
    timeZonePart dt (hmsFmt ++ ['Z']) = some (timeSegs ++ [.raw 'Z'], timeProps ++ [], some (0, 0)) := by
  decide +kernel

theorem timeZonePart_off : ∀ dt ∈ dumpTables,
    timeZonePart dt (hmsFmt ++ ['+', 'h', 'h', ':', 'm', 'm']) =
      some (timeSegs ++ [.dir (.str .tzSign), .dir (.int .tzHourAbs 2), .raw ':', .dir (.int .tzMinuteAbs 2)],
            timeProps ++ [.tzMinuteAbs, .tzHourAbs, .tzSign], none) := by
  decide +kernel

theorem timeZonePart_std (dt : DumpTables) (hdt : dt ∈ dumpTables) (z : TZ) :
    timeZonePart dt (hmsFmt ++ zoneSuffix z) =
      some (timeSegs ++ zoneSegs z, timeProps ++ zoneProps z, zoneCustom z) := by
  unfold zoneSuffix zoneSegs zoneProps zoneCustom
  by_cases hz : z.h = 0 ∧ z.mi = 0
  · simp only [hz, and_self, if_true]; exact timeZonePart_Z dt hdt
  · simp only [hz, if_false]; exact timeZonePart_off dt hdt

/-! ## The fields of `XTP.ofTP` -/

section fields
variable (ned : Nat) (P : TP)

theorem ofTP_ned : (XTP.ofTP ned P).ned = ned := by
  obtain ⟨d, hh, mi, ss, tz⟩ := P; cases d <;> rfl
theorem ofTP_year : (XTP.ofTP ned P).year = some (dateYear P.date) := by
  obtain ⟨d, hh, mi, ss, tz⟩ := P; cases d <;> rfl
theorem ofTP_hour : (XTP.ofTP ned P).hour = some P.hh := by
  obtain ⟨d, hh, mi, ss, tz⟩ := P; cases d <;> rfl
theorem ofTP_minute : (XTP.ofTP ned P).minute = some P.mi := by
  obtain ⟨d, hh, mi, ss, tz⟩ := P; cases d <;> rfl
theorem ofTP_second : (XTP.ofTP ned P).second = some P.ss := by
  obtain ⟨d, hh, mi, ss, tz⟩ := P; cases d <;> rfl
theorem ofTP_tz : (XTP.ofTP ned P).tz = P.tz := by
  obtain ⟨d, hh, mi, ss, tz⟩ := P; cases d <;> rfl
theorem ofTP_tzUnknown : (XTP.ofTP ned P).tzUnknown = false := by
  obtain ⟨d, hh, mi, ss, tz⟩ := P; cases d <;> rfl
theorem ofTP_truncated : (XTP.ofTP ned P).truncated = false := by
  obtain ⟨d, hh, mi, ss, tz⟩ := P; cases d <;> rfl
theorem ofTP_dumpFmt : (XTP.ofTP ned P).dumpFmt = none := by
  obtain ⟨d, hh, mi, ss, tz⟩ := P; cases d <;> rfl
theorem ofTP_isWeek : (XTP.ofTP ned P).isWeek = decide (P.date.rep = 2) := by
  obtain ⟨d, hh, mi, ss, tz⟩ := P; cases d <;> rfl

end fields

/-! ## The default format of a whole-second point -/

/-- The sign `_get_dump_format` writes: only with expanded year digits. -/
def ySign (ned : Nat) (y : Int) : List Char := if ned = 0 then [] else [if y < 0 then '-' else '+']

/-- The year digits `_get_dump_format` writes for a year in range. -/
def yDigits (ned : Nat) (y : Int) : List Char := renderNat (4 + ned) y.natAbs

theorem yearInRange_lt (ned : Nat) (y : Int) (h : YearInRange ned y) :
    y.natAbs < 10 ^ (4 + ned) ∧ (ned = 0 → 0 ≤ y) := by
  unfold YearInRange at h
  split at h
  · rename_i hn; subst hn
    refine ⟨?_, fun _ => h.1⟩
    simp only [Nat.add_zero, Nat.reducePow]; omega
  · rename_i hn; exact ⟨h, fun e => absurd e hn⟩

theorem padNat_eq (w v : Nat) (h : v < 10 ^ w) (hw : w ≠ 0 := by omega) : padNat w v = renderNat w v := by
  simp [padNat, h, hw]

theorem rep_mem (d : Date) : d.rep ∈ [0, 1, 2] := by cases d <;> simp [Date.rep]

theorem ySign_mem (ned : Nat) (y : Int) : ySign ned y ∈ [[], ['+'], ['-']] := by
  unfold ySign; split
  · simp
  · split <;> simp

theorem yDigits_ne (ned : Nat) (y : Int) : yDigits ned y ≠ [] := by
  intro h
  have := congrArg List.length h
  simp [yDigits, renderNat_length] at this

theorem yDigits_digits (ned : Nat) (y : Int) : (yDigits ned y).all isDigit = true :=
  renderNat_digits _ _

theorem dumpFormat_ofTP (ned : Nat) (P : TP) (hy : YearInRange ned (dateYear P.date)) :
    getDumpFormat (XTP.ofTP ned P) =
      .ok ((ySign ned (dateYear P.date) ++ yDigits ned (dateYear P.date) ++ dateSuffixK P.date.rep) ++
        'T' :: (hmsFmt ++ zoneSuffix P.tz)) := by
  obtain ⟨hlt, hpos⟩ := yearInRange_lt ned _ hy
  have hp := padNat_eq _ _ hlt
  obtain ⟨d, hh, mi, ss, tz⟩ := P
  cases d <;>
  · simp only [dateYear] at hlt hpos hp
    simp only [getDumpFormat, XTP.ofTP, dateYear, ySign, yDigits, dateSuffixK, Date.rep, zoneSuffix, hmsFmt]
    by_cases hn : ned = 0
    · subst hn
      have hneg := hpos rfl
      simp only [Nat.add_zero] at hp
      by_cases hz : tz.h = 0 ∧ tz.mi = 0 <;> simp [hz, fracZero, hp, Int.not_lt.mpr hneg]
    · by_cases hz : tz.h = 0 ∧ tz.mi = 0 <;> simp [hn, hz, fracZero, hp] <;> congr

/-! ## `expression % property_map` -/

theorem renderSegs_raw (m : Mode) (p : XTP) (l : List Char) : renderSegs m p (l.map Seg.raw) = some l := by
  induction l with
  | nil => rfl
  | cons c l ih => simp [renderSegs, ih]

theorem renderSegs_append (m : Mode) (p : XTP) (a b : List Seg) (x y : List Char)
    (ha : renderSegs m p a = some x) (hb : renderSegs m p b = some y) :
    renderSegs m p (a ++ b) = some (x ++ y) := by
  induction a generalizing x with
  | nil => simp only [renderSegs, Option.some.injEq] at ha; subst ha; simpa using hb
  | cons s a ih =>
    cases hr : renderSegs m p a with
    | none =>
      cases s with
      | raw c => simp [renderSegs, hr] at ha
      | dir o => cases o <;> simp [renderSegs, hr] at ha
    | some x' =>
      have ih' := ih x' hr
      cases s with
      | raw c =>
        simp only [renderSegs, hr, Option.map_some, Option.some.injEq] at ha
        subst ha; simp [renderSegs, ih']
      | dir o =>
        cases o with
        | lit c =>
          simp only [renderSegs, hr, Option.map_some, Option.some.injEq] at ha
          subst ha; simp [renderSegs, ih']
        | int pr w =>
          cases hi : intProp m p pr with
          | none => simp [renderSegs, hi] at ha
          | some v =>
            simp only [renderSegs, hr, hi, Option.some.injEq] at ha
            subst ha; simp [renderSegs, ih', hi]
        | str pr =>
          cases hi : strProp p pr with
          | none => simp [renderSegs, hi] at ha
          | some v =>
            simp only [renderSegs, hr, hi, Option.some.injEq] at ha
            subst ha; simp [renderSegs, ih', hi]

/-- The date groups after the year, as `stdText` spells them. -/
def dateRestTmpl : Date → Template
  | .cal .. => [.lit '-', .digits .monthOfYear 2, .lit '-', .digits .dayOfMonth 2]
  | .ord .. => [.lit '-', .digits .dayOfYear 3]
  | .week .. => [.lit '-', .lit 'W', .digits .weekOfYear 2, .lit '-', .digits .dayOfWeek 1]

def dateRestEnv : Date → Env
  | .cal _ mo d => [(.monthOfYear, renderNat 2 mo.toNat), (.dayOfMonth, renderNat 2 d.toNat)]
  | .ord _ doy => [(.dayOfYear, renderNat 3 doy.toNat)]
  | .week _ w d => [(.weekOfYear, renderNat 2 w.toNat), (.dayOfWeek, renderNat 1 d.toNat)]

theorem dateTmpl_eq (ned : Nat) (d : Date) : dateTmpl ned d = yearTmpl ned ++ dateRestTmpl d := by
  cases d <;> rfl

theorem dateEnv_eq (ned : Nat) (d : Date) :
    dateEnv ned d = yearEnv ned (dateYear d) ++ dateRestEnv d := by
  cases d <;> rfl

theorem render_date (m : Mode) (ned : Nat) (P : TP) (hv : P.date.Valid m) :
    renderSegs m (XTP.ofTP ned P) (dateSegsK P.date.rep) =
      some (trender (dateRestTmpl P.date) (dateRestEnv P.date)) := by
  obtain ⟨d, hh, mi, ss, tz⟩ := P
  cases d with
  | cal y mo d =>
    obtain ⟨h1, h2, h3, h4⟩ := hv
    have hb := (IsoDT.Lemmas.monthLen_bounds m y mo h1 h2).2
    have e1 : padNat 2 mo.toNat = renderNat 2 mo.toNat := padNat_eq _ _ (by simp only [Nat.reducePow]; omega)
    have e2 : padNat 2 d.toNat = renderNat 2 d.toNat := padNat_eq _ _ (by simp only [Nat.reducePow]; omega)
    have p1 : 0 ≤ mo := by omega
    have p2 : 0 ≤ d := by omega
    simp [Date.rep, dateSegsK, dateRestTmpl, dateRestEnv, renderSegs, intProp, XTP.ofTP, trender, e1, e2, p1, p2]
  | ord y doy =>
    obtain ⟨h1, h2⟩ := hv
    have hb := (IsoDT.Lemmas.yearLen_bounds m y).2
    have e1 : padNat 3 doy.toNat = renderNat 3 doy.toNat := padNat_eq _ _ (by simp only [Nat.reducePow]; omega)
    have p1 : 0 ≤ doy := by omega
    simp [Date.rep, dateSegsK, dateRestTmpl, dateRestEnv, renderSegs, intProp, XTP.ofTP, trender, e1, p1]
  | week y w d =>
    obtain ⟨h1, h2, h3, h4⟩ := hv
    have hb := (IsoDT.Lemmas.weeksInYear_bounds m y).2
    have e1 : padNat 2 w.toNat = renderNat 2 w.toNat := padNat_eq _ _ (by simp only [Nat.reducePow]; omega)
    have e2 : padNat 1 d.toNat = renderNat 1 d.toNat := padNat_eq _ _ (by simp only [Nat.reducePow]; omega)
    have p1 : 0 ≤ w := by omega
    have p2 : 0 ≤ d := by omega
    simp [Date.rep, dateSegsK, dateRestTmpl, dateRestEnv, renderSegs, intProp, XTP.ofTP, trender, e1, e2, p1, p2]

theorem render_time (m : Mode) (ned : Nat) (P : TP) (h0 : 0 ≤ P.hh) (h1 : P.hh ≤ 24) (h2 : 0 ≤ P.mi)
    (h3 : P.mi < 60) (h4 : 0 ≤ P.ss) (h5 : P.ss < 60) :
    renderSegs m (XTP.ofTP ned P) timeSegs = some (trender timeTmpl (timeEnv P)) := by
  have e1 : padNat 2 P.hh.toNat = renderNat 2 P.hh.toNat := padNat_eq _ _ (by simp only [Nat.reducePow]; omega)
  have e2 : padNat 2 P.mi.toNat = renderNat 2 P.mi.toNat := padNat_eq _ _ (by simp only [Nat.reducePow]; omega)
  have e3 : padNat 2 P.ss.toNat = renderNat 2 P.ss.toNat := padNat_eq _ _ (by simp only [Nat.reducePow]; omega)
  simp [timeSegs, timeTmpl, timeEnv, renderSegs, intProp, ofTP_hour, ofTP_minute, ofTP_second, trender,
    e1, e2, e3, h0, h2, h4]

theorem render_zone (m : Mode) (ned : Nat) (P : TP) (hz : P.tz.Valid) :
    renderSegs m (XTP.ofTP ned P) (zoneSegs P.tz) = some (trender (zoneTmpl P.tz) (zoneEnv P.tz)) := by
  obtain ⟨h1, h2, h3, h4, _, _⟩ := hz
  unfold zoneSegs zoneTmpl zoneEnv
  by_cases h0 : P.tz.h = 0 ∧ P.tz.mi = 0
  · simp [h0, renderSegs, trender]
  · have e1 : padNat 2 P.tz.h.natAbs = renderNat 2 P.tz.h.natAbs :=
      padNat_eq _ _ (by simp only [Nat.reducePow]; omega)
    have e2 : padNat 2 P.tz.mi.natAbs = renderNat 2 P.tz.mi.natAbs :=
      padNat_eq _ _ (by simp only [Nat.reducePow]; omega)
    simp only [h0, if_false]
    simp only [renderSegs, intProp, strProp, ofTP_tz, e2, trender]
    by_cases hs : P.tz.h < 0 ∨ P.tz.mi < 0 <;> simp [hs, e1]

/-! ## The year digits -/

theorem renderNat_mod_aux (w v : Nat) : ∀ k, renderNat w (v % 10 ^ (w + k)) = renderNat w v := by
  induction w with
  | zero => intro k; rfl
  | succ w ih =>
    intro k
    simp only [renderNat]
    have hp : 10 ^ (w + 1 + k) = 10 ^ w * 10 ^ (1 + k) := by
      rw [← Nat.pow_add]; congr 1; omega
    have hdvd : 10 ∣ 10 ^ (1 + k) := ⟨10 ^ k, by rw [Nat.pow_add, Nat.pow_one]⟩
    have hhead : v % 10 ^ (w + 1 + k) / 10 ^ w % 10 = v / 10 ^ w % 10 := by
      rw [hp, Nat.mod_mul_right_div_self, Nat.mod_mod_of_dvd _ hdvd]
    have htail : renderNat w (v % 10 ^ (w + 1 + k)) = renderNat w v := by
      have := ih (k + 1)
      have e : w + (k + 1) = w + 1 + k := by omega
      rw [e] at this; exact this
    rw [hhead, htail]

/-- Only the low `w` digits matter. -/
theorem renderNat_mod (w v : Nat) : renderNat w (v % 10 ^ w) = renderNat w v := by
  simpa using renderNat_mod_aux w v 0

theorem renderNat_four (n : Nat) : renderNat 4 n = renderNat 2 (n / 100) ++ renderNat 2 (n % 100) := by
  have h1 := renderNat_split 2 2 n
  have h2 := renderNat_mod 2 n
  simp only [Nat.reduceAdd, Nat.reducePow] at h1 h2
  rw [h1, h2]

theorem renderNat_year (ned n : Nat) :
    renderNat (4 + ned) n =
      renderNat ned (n / 10000) ++ (renderNat 2 (n / 100 % 100) ++ renderNat 2 (n % 100)) := by
  have h1 := renderNat_split ned 4 n
  have h2 := renderNat_mod 2 (n / 100)
  simp only [Nat.reducePow] at h1 h2
  rw [Nat.add_comm, h1, renderNat_four, h2]

/-- The year groups of `stdText` are the sign and digits `_get_dump_format` wrote. -/
theorem trender_year (ned : Nat) (y : Int) (rest : Template) (env : Env) :
    trender (yearTmpl ned ++ rest) (yearEnv ned y ++ env) =
      ySign ned y ++ yDigits ned y ++ trender rest env := by
  unfold yearTmpl yearEnv ySign yDigits
  by_cases hn : ned = 0
  · subst hn
    simp [trender, renderNat_four]
  · simp [hn, trender, renderNat_year]

/-! ## `_dump_expression_with_properties` when nothing has to change -/

theorem mkTZ_zero (m : Mode) : mkTZ m 0 0 = some ⟨0, 0⟩ := by cases m <;> rfl

theorem toTimeZone_same (m : Mode) (ned : Nat) (P : TP) (htz : P.tz = ⟨0, 0⟩) :
    (XTP.ofTP ned P).toTimeZone m ⟨0, 0⟩ = .ok (XTP.ofTP ned P) := by
  unfold XTP.toTimeZone
  simp [ofTP_tzUnknown, ofTP_tz, htz]

theorem dumpExpr_ofTP (m : Mode) (dt : DumpTables) (ned : Nat) (P : TP) (segs : List Seg)
    (props : List DProp) (custom : Option (Int × Int))
    (hW : (props.contains .weekOfYear || props.contains .dayOfWeek) = (XTP.ofTP ned P).isWeek)
    (hC : ((XTP.ofTP ned P).isWeek &&
      (props.contains .monthOfYear || props.contains .dayOfMonth || props.contains .dayOfYear)) = false)
    (hZ : custom = none ∨ (custom = some (0, 0) ∧ P.tz = ⟨0, 0⟩))
    (hcent : props.contains .century = false) (hx : props.contains .expandedYearDigits = false) :
    dumpExpr m dt (XTP.ofTP ned P) ⟨segs, props, custom⟩ =
      match renderSegs m (XTP.ofTP ned P) segs with
      | some s => .ok s
      | none => .error .unsupported := by
  unfold dumpExpr
  simp only [ofTP_truncated, Bool.false_eq_true, if_false, hW, hcent, hx, Bool.false_and]
  cases hw : (XTP.ofTP ned P).isWeek
  · rw [hw] at hC
    simp only [Bool.false_eq_true, if_false, Bool.false_and]
    rcases hZ with rfl | ⟨rfl, htz⟩
    · simp only [bind, Except.bind, ofTP_year]; rfl
    · simp only [bind, Except.bind, mkTZ_zero, toTimeZone_same m ned P htz, ofTP_year]; rfl
  · rw [hw] at hC
    simp only [Bool.true_and] at hC
    simp only [hC, Bool.or_true, if_true]
    rcases hZ with rfl | ⟨rfl, htz⟩
    · simp only [bind, Except.bind, ofTP_year]; rfl
    · simp only [bind, Except.bind, mkTZ_zero, toTimeZone_same m ned P htz, ofTP_year]; rfl

/-! ## Assembly -/

theorem notMem_digits (O : List Char) (hd : O.all isDigit = true) (c : Char) (hc : isDigit c = false) :
    c ∉ O := by
  intro h
  have := all_digits_mem O hd c h
  rw [hc] at this; exact absurd this (by simp)

theorem notMem_D (c : Char) (hc : isDigit c = false) (hp : c ≠ '+') (hm : c ≠ '-')
    (hs : ∀ k ∈ [0, 1, 2], c ∉ dateSuffixK k) (ned : Nat) (y : Int) (k : Nat) (hk : k ∈ [0, 1, 2]) :
    c ∉ ySign ned y ++ yDigits ned y ++ dateSuffixK k := by
  simp only [List.mem_append, not_or]
  refine ⟨⟨?_, notMem_digits _ (yDigits_digits _ _) _ hc⟩, hs k hk⟩
  have := ySign_mem ned y
  simp only [List.mem_cons, List.not_mem_nil, or_false] at this
  rcases this with h | h | h <;> rw [h] <;> simp [hp, hm]

theorem notMem_R (c : Char) (h1 : c ∉ hmsFmt ++ ['Z']) (h2 : c ∉ hmsFmt ++ ['+', 'h', 'h', ':', 'm', 'm'])
    (z : TZ) : c ∉ hmsFmt ++ zoneSuffix z := by
  unfold zoneSuffix; split
  · exact h1
  · exact h2

theorem props_week (d : Date) (z : TZ) :
    ((datePropsK d.rep ++ (timeProps ++ zoneProps z)).contains .weekOfYear ||
      (datePropsK d.rep ++ (timeProps ++ zoneProps z)).contains .dayOfWeek) = decide (d.rep = 2) := by
  unfold zoneProps; cases d <;> split <;> rfl

theorem props_cal (d : Date) (z : TZ) :
    (decide (d.rep = 2) &&
      ((datePropsK d.rep ++ (timeProps ++ zoneProps z)).contains .monthOfYear ||
       (datePropsK d.rep ++ (timeProps ++ zoneProps z)).contains .dayOfMonth ||
       (datePropsK d.rep ++ (timeProps ++ zoneProps z)).contains .dayOfYear)) = false := by
  unfold zoneProps; cases d <;> split <;> rfl

theorem props_century (d : Date) (z : TZ) :
    (datePropsK d.rep ++ (timeProps ++ zoneProps z)).contains .century = false := by
  unfold zoneProps; cases d <;> split <;> rfl

theorem props_expanded (d : Date) (z : TZ) :
    (datePropsK d.rep ++ (timeProps ++ zoneProps z)).contains .expandedYearDigits = false := by
  unfold zoneProps; cases d <;> split <;> rfl

theorem zoneCustom_ok (z : TZ) : zoneCustom z = none ∨ (zoneCustom z = some (0, 0) ∧ z = ⟨0, 0⟩) := by
  obtain ⟨h, mi⟩ := z
  unfold zoneCustom
  by_cases hz : h = 0 ∧ mi = 0
  · right; obtain ⟨rfl, rfl⟩ := hz; simp
  · left; simp [hz]

/-- `str` with the table `dumpTablesFor` finds. -/
theorem str_eq_stdText_of_table (m : Mode) (ned : Nat) (dt : DumpTables) (hdt : dt ∈ dumpTables)
    (htab : dumpTablesFor ned = some dt) (P : TP) (hv : P.Valid m)
    (hy : YearInRange ned (dateYear P.date)) :
    str m (XTP.ofTP ned P) = .ok (stdText ned P) := by
  obtain ⟨hdate, h0, h1, h2, h3, h4, h5, _, hz⟩ := hv
  have hk := rep_mem P.date
  -- the format
  have hT_D : 'T' ∉ ySign ned (dateYear P.date) ++ yDigits ned (dateYear P.date) ++ dateSuffixK P.date.rep :=
    notMem_D 'T' (by decide) (by decide) (by decide) (by decide) _ _ _ hk
  have hT_R : 'T' ∉ hmsFmt ++ zoneSuffix P.tz := notMem_R 'T' (by decide) (by decide) _
  have hpct : '%' ∉ (ySign ned (dateYear P.date) ++ yDigits ned (dateYear P.date) ++ dateSuffixK P.date.rep) ++
      'T' :: (hmsFmt ++ zoneSuffix P.tz) := by
    have a := notMem_D '%' (by decide) (by decide) (by decide) (by decide) ned (dateYear P.date) _ hk
    have b := notMem_R '%' (by decide) (by decide) P.tz
    simp only [List.mem_append, List.mem_cons, not_or] at a b ⊢
    exact ⟨a, by decide, b⟩
  have hcont : ((ySign ned (dateYear P.date) ++ yDigits ned (dateYear P.date) ++ dateSuffixK P.date.rep) ++
      'T' :: (hmsFmt ++ zoneSuffix P.tz)).contains '%' = false := by
    simpa using hpct
  -- the rendering
  have hr : renderSegs m (XTP.ofTP ned P)
      (((ySign ned (dateYear P.date)).map Seg.raw ++ (yDigits ned (dateYear P.date)).map Seg.raw ++
          dateSegsK P.date.rep) ++ Seg.raw 'T' :: (timeSegs ++ zoneSegs P.tz)) = some (stdText ned P) := by
    have e : stdText ned P =
        ((ySign ned (dateYear P.date) ++ yDigits ned (dateYear P.date)) ++
          trender (dateRestTmpl P.date) (dateRestEnv P.date)) ++
        ('T' :: (trender timeTmpl (timeEnv P) ++ trender (zoneTmpl P.tz) (zoneEnv P.tz))) := by
      unfold stdText
      rw [dateTmpl_eq, dateEnv_eq, trender_year]
    rw [e]
    refine renderSegs_append _ _ _ _ _ _
      (renderSegs_append _ _ _ _ _ _
        (renderSegs_append _ _ _ _ _ _ (renderSegs_raw _ _ _) (renderSegs_raw _ _ _))
        (render_date m ned P hdate)) ?_
    have := renderSegs_append m (XTP.ofTP ned P) _ _ _ _ (render_time m ned P h0 h1 h2 h3 h4 h5)
      (render_zone m ned P hz)
    simp only [renderSegs, this, Option.map_some]
  unfold str
  rw [ofTP_ned, htab]
  simp only [ofTP_dumpFmt, ofTP_truncated, Bool.false_eq_true, if_false]
  rw [dumpFormat_ofTP ned P hy]
  show dump m dt (XTP.ofTP ned P) _ = _
  unfold dump
  rw [hcont, getExpr_T dt _ _ hT_D hT_R, timeZonePart_std dt hdt,
    compile_date dt hdt _ (ySign_mem _ _) _ hk _ (yDigits_ne _ _) (yDigits_digits _ _)]
  simp only [Bool.false_eq_true, if_false, Option.map_some]
  rw [dumpExpr_ofTP m dt ned P _ _ _ (by rw [ofTP_isWeek]; exact props_week _ _)
    (by rw [ofTP_isWeek]; exact props_cal _ _) (zoneCustom_ok _) (props_century _ _) (props_expanded _ _), hr]

/-- **C08, dumper half**: `str` of a valid whole-second point — any of the three date representations,
    any calendar mode, any legal UTC offset, `24:00:00` included — whose year the agreed digits can
    spell is exactly the specified text. -/
theorem str_eq_stdText (m : Mode) (ned : Nat) (hned : ned = 0 ∨ ned = 2 ∨ ned = 3) (p : TP) (hv : p.Valid m)
    (hy : YearInRange ned (dateYear p.date)) :
    str m (XTP.ofTP ned p) = .ok (stdText ned p) := by
  rcases hned with rfl | rfl | rfl
  · exact str_eq_stdText_of_table m 0 dumper_0 (by simp [dumpTables]) rfl p hv hy
  · exact str_eq_stdText_of_table m 2 dumper_2 (by simp [dumpTables]) rfl p hv hy
  · exact str_eq_stdText_of_table m 3 dumper_3 (by simp [dumpTables]) rfl p hv hy

end IsoDT.Text
