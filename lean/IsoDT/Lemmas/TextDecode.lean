/-
  IsoDT.Lemmas.TextDecode — `get_info` on rendered documented forms: the split into date, time and
  zone text, and the reduction of `parse` of a rendered form to the field assembly applied to
  exactly the rendered group texts.
-/
import IsoDT.Lemmas.TextTables

namespace IsoDT.Text
open IsoDT
open _root_.IsoDT.Gen.Templates (timeDesignator dateTypeOrder parserTables)

/-! ## The zone split -/

/-- Characters that never occur in a time text or inside a zone body. -/
def Plain (c : Char) : Prop := c ≠ 'Z' ∧ c ≠ '+' ∧ c ≠ '-'

instance (c : Char) : Decidable (Plain c) := by unfold Plain; infer_instance

/-- A zone text: nothing, `Z`, or a sign followed by plain characters. -/
def ZoneText (z : List Char) : Prop :=
  z = [] ∨ z = ['Z'] ∨ ∃ sg body, z = sg :: body ∧ (sg = '+' ∨ sg = '-') ∧ ∀ c ∈ body, Plain c

theorem getLast_cons_mem (s : Char) (b : List Char) : ∃ c, (s :: b).getLast? = some c ∧ c ∈ s :: b := by
  induction b generalizing s with
  | nil => exact ⟨s, by simp⟩
  | cons x b ih =>
    obtain ⟨c, h1, h2⟩ := ih x
    exact ⟨c, by simpa [List.getLast?_cons_cons] using h1, List.mem_cons_of_mem _ h2⟩

/-- **Split** of `time_time_zone`: for a time text without `Z`, `+`, `-` and any zone spelling
    (none, `Z`, `+…`, `-…`) the zone is cut off exactly where it starts; a negative offset is cut at
    its minus sign because the "is it a truncated time" retry succeeds. -/
theorem splitZone_spec (cfg : Cfg) (bf : List FormatKey) (bt : List TypeKey) (t z : List Char)
    (ht : ∀ c ∈ t, Plain c) (hz : ZoneText z)
    (hminus : ∀ body, z = '-' :: body →
      (getTimeInfo cfg t bf bt).isSome = true ∧ (getZoneInfo cfg.pt z bf).isSome = true) :
    splitZone cfg bf bt (t ++ z) = some (t, if z = [] then none else some z) := by
  have htZ : 'Z' ∉ t := fun h => (ht _ h).1 rfl
  have htp : '+' ∉ t := fun h => (ht _ h).2.1 rfl
  have htm : '-' ∉ t := fun h => (ht _ h).2.2 rfl
  unfold splitZone
  rcases hz with rfl | rfl | ⟨sg, body, rfl, hsg, hb⟩
  · -- no zone
    have h1 : ¬ (t.getLast? = some 'Z') := fun h => htZ (List.mem_of_getLast? h)
    simp only [List.append_nil, h1, if_false]
    simp [htp, splitLast_none '-' t htm]
  · -- Z
    simp
  · have hbZ : 'Z' ∉ body := fun h => (hb _ h).1 rfl
    have hbp : '+' ∉ body := fun h => (hb _ h).2.1 rfl
    have hbm : '-' ∉ body := fun h => (hb _ h).2.2 rfl
    have hne : (sg :: body = []) = False := by simp
    have hlast : ¬ ((t ++ sg :: body).getLast? = some 'Z') := by
      obtain ⟨c, h1, h2⟩ := getLast_cons_mem sg body
      have : (t ++ sg :: body).getLast? = some c := by simp [h1]
      rw [this]
      intro h
      injection h with h
      subst h
      rcases List.mem_cons.mp h2 with h | h
      · rcases hsg with h' | h' <;> rw [h'] at h <;> exact absurd h (by decide)
      · exact hbZ h
    simp only [hlast, if_false, hne]
    rcases hsg with rfl | rfl
    · simp [splitOnChar_one '+' t body htp hbp]
    · obtain ⟨g1, g2⟩ := hminus body rfl
      simp [htp, hbp, splitLast_append '-' t body hbm, g1, g2]

/-! ## Facts read off `tableOK` -/

structure TableFacts (pt : ParserTables) : Prop where
  dates : ∀ e ∈ pt.dateEntries, wf e.tmpl = true ∧ noT e.tmpl = true ∧ pt.formats.contains e.fmt = true
  times : ∀ e ∈ pt.timeEntries, wf e.tmpl = true ∧ noT e.tmpl = true
  zones : ∀ e ∈ pt.zoneEntries, wf e.tmpl = true ∧ noT e.tmpl = true ∧ zoneShapeOK e.tmpl = true
  orderTimeF : allAfter okPair (dateOrder pt (dateTypes false [.reduced])) = true
  orderTimeT : allAfter okPair (dateOrder pt (dateTypes true [.reduced])) = true
  orderDateF : allAfter okPair (dateOrder pt (dateTypes false [])) = true
  timeOrd : allAfter okPairT pt.timeEntries = true
  zoneOrd : allAfter okPairZ pt.zoneEntries = true
  complete : ∀ e ∈ pt.dateEntries, e.typ = .complete → completeDateOK e = true
  plain : ∀ e ∈ pt.timeEntries, e.typ ≠ .truncated → plainTimeOK e = true

theorem tableFacts (pt : ParserTables) (h : pt ∈ parserTables) : TableFacts pt := by
  have hk := tableOK_of_mem pt h
  simp only [tableOK, Bool.and_eq_true, List.all_eq_true] at hk
  obtain ⟨⟨⟨⟨⟨⟨⟨⟨⟨⟨h1, h2⟩, h3⟩, h4⟩, h5⟩, h6⟩, h7⟩, h8⟩, h9⟩, h10⟩, _⟩ := hk
  refine ⟨fun e he => ?_, fun e he => h2 e he, fun e he => ?_, h4, h5, h6, h7, h8, fun e he hc => ?_,
    fun e he hc => ?_⟩
  · have := h1 e he; exact ⟨this.1.1, this.1.2, this.2⟩
  · have := h3 e he; exact ⟨this.1.1, this.1.2, this.2⟩
  · have := h9 e he
    simp only [Bool.or_eq_true, bne_iff_ne, ne_eq] at this
    rcases this with h | h
    · exact absurd hc h
    · exact h
  · have := h10 e he
    simp only [Bool.or_eq_true, beq_iff_eq] at this
    rcases this with h | h
    · exact absurd h hc
    · exact h

theorem digit_plain (c : Char) (h : isDigit c = true) : Plain c := by
  refine ⟨?_, ?_, ?_⟩ <;> intro e <;> subst e <;> exact absurd h (by decide)

theorem digit_not_designator (c : Char) (h : isDigit c = true) : c ≠ timeDesignator := by
  intro e; subst e; exact absurd h (by decide)

/-- A rendered template without the time designator among its literals does not contain it. -/
theorem no_designator (t : Template) (hn : noT t = true) (env : Env) (hf : fits t env = true) :
    timeDesignator ∉ trender t env := by
  intro hc
  rcases trender_chars t env hf _ hc with h | h
  · exact digit_not_designator _ h rfl
  · simp only [noT, Bool.not_eq_true', List.contains_eq_mem, decide_eq_false_iff_not] at hn
    exact hn h

theorem plain_time (e : Entry) (hp : plainTimeOK e = true) (env : Env) (hf : fits e.tmpl env = true) :
    (∀ c ∈ trender e.tmpl env, Plain c) ∧ trender e.tmpl env ≠ [] ∧
      (groupFields e.tmpl).contains .truncated = false := by
  simp only [plainTimeOK, Bool.and_eq_true, Bool.not_eq_true', List.all_eq_true, Bool.or_eq_true,
    beq_iff_eq] at hp
  obtain ⟨⟨h1, h2⟩, h3⟩ := hp
  refine ⟨fun c hc => ?_, fun hnil => ?_, h1⟩
  · rcases trender_chars e.tmpl env hf c hc with h | h
    · exact digit_plain c h
    · rcases h2 c h with (rfl | rfl) | rfl <;> exact ⟨by decide, by decide, by decide⟩
  · have := tmatch_trender e.tmpl env hf
    rw [hnil] at this
    rw [this] at h3
    simp at h3

theorem zone_text (t : Template) (hs : zoneShapeOK t = true) (env : Env) (hf : fits t env = true) :
    ZoneText (trender t env) ∧ trender t env ≠ [] := by
  unfold zoneShapeOK at hs
  split at hs
  · -- Z
    cases env with
    | nil => simp [fits] at hf
    | cons gs env =>
      obtain ⟨g, s⟩ := gs
      simp only [fits, Bool.and_eq_true, decide_eq_true_eq] at hf
      obtain ⟨⟨_, rfl⟩, hf⟩ := hf
      cases env with
      | nil => exact ⟨Or.inr (Or.inl (by simp [trender])), by simp [trender]⟩
      | cons _ _ => simp [fits] at hf
  · rename_i rest
    cases env with
    | nil => simp [fits] at hf
    | cons gs env =>
      obtain ⟨g, s⟩ := gs
      simp only [fits, Bool.and_eq_true, decide_eq_true_eq, Bool.or_eq_true] at hf
      obtain ⟨⟨_, hsg⟩, hf⟩ := hf
      simp only [List.all_eq_true, beq_iff_eq] at hs
      have hbody : ∀ c ∈ trender rest env, Plain c := by
        intro c hc
        rcases trender_chars rest env hf c hc with h | h
        · exact digit_plain c h
        · rw [hs c h]; exact ⟨by decide, by decide, by decide⟩
      rcases hsg with rfl | rfl
      · exact ⟨Or.inr (Or.inr ⟨'+', trender rest env, by simp [trender], Or.inl rfl, hbody⟩), by simp [trender]⟩
      · exact ⟨Or.inr (Or.inr ⟨'-', trender rest env, by simp [trender], Or.inr rfl, hbody⟩), by simp [trender]⟩
  · exact absurd hs (by simp)

/-! ## Membership in the try-orders -/

theorem mem_dateOrder (pt : ParserTables) (types : List TypeKey) (e : Entry) (he : e ∈ pt.dateEntries)
    (hf : pt.formats.contains e.fmt = true) (ht : e.typ ∈ types) : e ∈ dateOrder pt types := by
  unfold dateOrder
  simp only [List.mem_flatMap, List.mem_filter, Bool.and_eq_true, decide_eq_true_eq]
  exact ⟨e.fmt, by simpa using hf, e.typ, ht, he, rfl, rfl⟩

theorem dateOrder_sub (pt : ParserTables) (types : List TypeKey) (e : Entry) (he : e ∈ dateOrder pt types) :
    e ∈ pt.dateEntries := by
  unfold dateOrder at he
  simp only [List.mem_flatMap, List.mem_filter] at he
  obtain ⟨_, _, _, _, h, _⟩ := he
  exact h

theorem complete_mem_types (b : Bool) : TypeKey.complete ∈ dateTypes b [.reduced] := by
  cases b <;> decide

/-- `get_date_info(date, bad_types=["reduced"])` on a rendered complete date. -/
theorem getDateInfo_complete (cfg : Cfg) (tf : TableFacts cfg.pt) (de : Entry)
    (hde : de ∈ cfg.pt.dateEntries) (hdc : de.typ = .complete) (denv : Env)
    (hfd : fits de.tmpl denv = true) :
    ∃ e', getDateInfo cfg (trender de.tmpl denv) [.reduced] = some (e', denv) ∧ e'.expr = de.expr ∧
      e'.typ = .complete ∧ e'.fmt = de.fmt := by
  unfold getDateInfo
  rw [firstMatch_eq]
  have hmem : de ∈ dateOrder cfg.pt (dateTypes cfg.allowTruncated [.reduced]) :=
    mem_dateOrder _ _ de hde (tf.dates de hde).2.2 (hdc ▸ complete_mem_types _)
  have hord : allAfter okPair (dateOrder cfg.pt (dateTypes cfg.allowTruncated [.reduced])) = true := by
    cases cfg.allowTruncated
    · exact tf.orderTimeF
    · exact tf.orderTimeT
  obtain ⟨e', _, h2, _, h4, h5, h6⟩ := firstBy_prec Entry.tmpl okPair SameDate okPair_spec
    (fun e => ⟨rfl, rfl, fun _ => rfl⟩) _
    (fun x hx => (tf.dates x (dateOrder_sub _ _ x hx)).1) de hmem
    (prec_of_allAfter okPair _ hord de hmem) _ denv (tmatch_trender de.tmpl denv hfd)
  exact ⟨e', h2, h4, h5.trans hdc, h6 hdc⟩

/-- `get_time_info` on a rendered time form that the bad-format / bad-type filters let through. -/
theorem getTimeInfo_rendered (cfg : Cfg) (tf : TableFacts cfg.pt) (te : Entry)
    (hte : te ∈ cfg.pt.timeEntries) (bf : List FormatKey) (bt : List TypeKey)
    (hbf : bf.contains te.fmt = false) (hbt : bt.contains te.typ = false) (tenv : Env)
    (hft : fits te.tmpl tenv = true) :
    ∃ e', getTimeInfo cfg (trender te.tmpl tenv) bf bt = some (e', tenv) ∧ e'.expr = te.expr := by
  unfold getTimeInfo timeOrder
  rw [firstMatch_eq]
  have hmem : te ∈ cfg.pt.timeEntries.filter
      (fun e => !bf.contains e.fmt && !bt.contains e.typ) :=
    List.mem_filter.mpr ⟨hte, by rw [hbf, hbt]; rfl⟩
  obtain ⟨e', _, h2, _, h4⟩ := firstBy_prec Entry.tmpl okPairT (fun a e => a.expr = e.expr) okPairT_spec
    (fun e => rfl) _ (fun x hx => (tf.times x (List.mem_filter.mp hx).1).1) te hmem
    (prec_of_allAfter okPairT _ (allAfter_filter okPairT _ _ tf.timeOrd) te hmem) _ tenv
    (tmatch_trender te.tmpl tenv hft)
  exact ⟨e', h2, h4⟩

theorem getZoneInfo_rendered (pt : ParserTables) (tf : TableFacts pt) (ze : ZEntry)
    (hze : ze ∈ pt.zoneEntries) (bf : List FormatKey) (hbf : bf.contains ze.fmt = false) (zenv : Env)
    (hfz : fits ze.tmpl zenv = true) :
    ∃ e', getZoneInfo pt (trender ze.tmpl zenv) bf = some (e', zenv) ∧ e'.expr = ze.expr := by
  unfold getZoneInfo zoneOrder
  rw [firstMatchZ_eq]
  have hmem : ze ∈ pt.zoneEntries.filter (fun e => !bf.contains e.fmt) :=
    List.mem_filter.mpr ⟨hze, by rw [hbf]; rfl⟩
  obtain ⟨e', _, h2, _, h4⟩ := firstBy_prec ZEntry.tmpl okPairZ (fun a e => a.expr = e.expr) okPairZ_spec
    (fun e => rfl) _ (fun x hx => (tf.zones x (List.mem_filter.mp hx).1).1) ze hmem
    (prec_of_allAfter okPairZ _ (allAfter_filter okPairZ _ _ tf.zoneOrd) ze hmem) _ zenv
    (tmatch_trender ze.tmpl zenv hfz)
  exact ⟨e', h2, h4⟩

/-! ## `get_info` on a rendered complete date, time and zone -/

/-- A zone as rendered: nothing, or a zone entry with its group texts. -/
def zoneTextOf : Option (ZEntry × Env) → List Char
  | none => []
  | some (ze, zenv) => trender ze.tmpl zenv

def zoneEnvOf : Option (ZEntry × Env) → Env
  | none => []
  | some (_, zenv) => zenv

def zoneExprOf : Option (ZEntry × Env) → List Char
  | none => []
  | some (ze, _) => ze.expr

theorem otherFormat_ne (f : FormatKey) : [otherFormat f].contains f = false := by
  cases f <;> decide

/-- `get_info` splits a rendered `date T time zone` text correctly and finds exactly the rendered
    groups: every zone style, including negative offsets. -/
theorem getInfo_rendered (cfg : Cfg) (hpt : cfg.pt ∈ parserTables)
    (de : Entry) (hde : de ∈ cfg.pt.dateEntries) (hdc : de.typ = .complete)
    (te : Entry) (hte : te ∈ cfg.pt.timeEntries) (htt : te.typ ≠ .truncated) (htf : te.fmt = de.fmt)
    (zo : Option (ZEntry × Env))
    (hzo : ∀ ze zenv, zo = some (ze, zenv) →
      ze ∈ cfg.pt.zoneEntries ∧ ze.fmt = de.fmt ∧ fits ze.tmpl zenv = true)
    (denv tenv : Env) (hfd : fits de.tmpl denv = true) (hft : fits te.tmpl tenv = true) :
    getInfo cfg (trender de.tmpl denv ++ timeDesignator :: (trender te.tmpl tenv ++ zoneTextOf zo)) =
      (processZone cfg.zone (zoneEnvOf zo)).map fun z =>
        { dateEnv := denv, dateTrunc := false, timeEnv := tenv, zone := z,
          expr := de.expr ++ timeDesignator :: (te.expr ++ zoneExprOf zo) } := by
  have tf := tableFacts cfg.pt hpt
  obtain ⟨hdw, hdn, _⟩ := tf.dates de hde
  obtain ⟨_, htn⟩ := tf.times te hte
  have hcd := tf.complete de hde hdc
  simp only [completeDateOK, Bool.and_eq_true, Bool.not_eq_true'] at hcd
  obtain ⟨⟨hnotrunc, _⟩, hnonempty⟩ := hcd
  obtain ⟨hplain, htne, _⟩ := plain_time te (tf.plain te hte htt) tenv hft
  -- the zone text
  have hzt : ZoneText (zoneTextOf zo) ∧ timeDesignator ∉ zoneTextOf zo := by
    cases zo with
    | none => exact ⟨Or.inl rfl, by simp [zoneTextOf]⟩
    | some p =>
      obtain ⟨ze, zenv⟩ := p
      obtain ⟨h1, _, h3⟩ := hzo ze zenv rfl
      obtain ⟨_, h5, h6⟩ := tf.zones ze h1
      exact ⟨(zone_text ze.tmpl h6 zenv h3).1, no_designator ze.tmpl h5 zenv h3⟩
  -- step 1: the split at the designator
  have hD : timeDesignator ∉ trender de.tmpl denv := no_designator de.tmpl hdn denv hfd
  have hT : timeDesignator ∉ trender te.tmpl tenv ++ zoneTextOf zo := by
    intro h
    rcases List.mem_append.mp h with h | h
    · exact no_designator te.tmpl htn tenv hft h
    · exact hzt.2 h
  have hsplit := splitOnChar_one timeDesignator _ _ hD hT
  -- step 2: the date
  obtain ⟨de', hget, hexpr, htyp, hfmt⟩ := getDateInfo_complete cfg tf de hde hdc denv hfd
  have hne : (trender de.tmpl denv).isEmpty = false := by
    cases hx : trender de.tmpl denv with
    | nil =>
      have := tmatch_trender de.tmpl denv hfd
      rw [hx] at this
      rw [this] at hnonempty
      simp at hnonempty
    | cons _ _ => rfl
  have hdtr : Env.has denv .truncated = false := by
    rw [Env.has_fits de.tmpl denv hfd]; exact hnotrunc
  -- steps 3-5: time and zone under the filters the date implies
  have hbfT : [otherFormat de.fmt].contains te.fmt = false := htf ▸ otherFormat_ne te.fmt
  have hbtT : [TypeKey.truncated].contains te.typ = false := by
    cases hty : te.typ <;> first | rfl | exact absurd hty htt
  obtain ⟨te', htime, htexpr⟩ :=
    getTimeInfo_rendered cfg tf te hte [otherFormat de.fmt] [.truncated] hbfT hbtT tenv hft
  have hbf : badFormatsOf (some de'.fmt) de'.typ = [otherFormat de.fmt] := by
    rw [htyp, hfmt]
    cases de.fmt <;> rfl
  have hzone : ∀ ze zenv, zo = some (ze, zenv) →
      ∃ ze', getZoneInfo cfg.pt (trender ze.tmpl zenv) [otherFormat de.fmt] = some (ze', zenv) ∧
        ze'.expr = ze.expr := by
    intro ze zenv hz
    obtain ⟨h1, h2, h3⟩ := hzo ze zenv hz
    exact getZoneInfo_rendered cfg.pt tf ze h1 _ (h2 ▸ otherFormat_ne ze.fmt) zenv h3
  have hsz := splitZone_spec cfg [otherFormat de.fmt] [.truncated] (trender te.tmpl tenv) (zoneTextOf zo)
    hplain hzt.1 (by
      intro body hb
      refine ⟨by rw [htime]; rfl, ?_⟩
      cases zo with
      | none => simp [zoneTextOf] at hb
      | some p =>
        obtain ⟨ze, zenv⟩ := p
        obtain ⟨ze', hz, _⟩ := hzone ze zenv rfl
        simp only [zoneTextOf] at hb ⊢
        rw [hz]; rfl)
  unfold getInfo
  rw [hsplit]
  simp only [hne, Bool.false_and, hget, hdtr, hbf, if_false, Bool.false_eq_true]
  rw [hsz]
  cases zo with
  | none =>
    simp only [zoneTextOf, zoneEnvOf, zoneExprOf, if_true, htime, hexpr, htexpr]
    cases processZone cfg.zone [] <;> rfl
  | some p =>
    obtain ⟨ze, zenv⟩ := p
    obtain ⟨ze', hz, hzexpr⟩ := hzone ze zenv rfl
    obtain ⟨h1, _, h3⟩ := hzo ze zenv rfl
    have hzne : (trender ze.tmpl zenv = []) = False := by
      simp only [eq_iff_iff, iff_false]
      exact (zone_text ze.tmpl (tf.zones ze h1).2.2 zenv h3).2
    simp only [zoneTextOf, zoneEnvOf, zoneExprOf, hzne, if_false, hz, htime, hexpr, htexpr, hzexpr]
    cases processZone cfg.zone zenv <;> rfl

/-- `get_info` on a rendered date without a time part, for any listed date form that no earlier form of
    the try-order can pre-empt (`prec`). -/
theorem getInfo_date (cfg : Cfg) (hpt : cfg.pt ∈ parserTables) (de : Entry)
    (hmem : de ∈ dateOrder cfg.pt (dateTypes cfg.allowTruncated []))
    (hprec : prec okPair (dateOrder cfg.pt (dateTypes cfg.allowTruncated [])) de = true)
    (denv : Env) (hfd : fits de.tmpl denv = true) :
    getInfo cfg (trender de.tmpl denv) =
      (processZone cfg.zone []).map fun z =>
        { dateEnv := denv, dateTrunc := Env.has denv .truncated, timeEnv := [], zone := z,
          expr := de.expr } := by
  have tf := tableFacts cfg.pt hpt
  have hde := dateOrder_sub _ _ de hmem
  obtain ⟨_, hdn, _⟩ := tf.dates de hde
  have hD : timeDesignator ∉ trender de.tmpl denv := no_designator de.tmpl hdn denv hfd
  obtain ⟨e', _, h2, _, h4, _⟩ := firstBy_prec Entry.tmpl okPair SameDate okPair_spec
    (fun e => ⟨rfl, rfl, fun _ => rfl⟩) _
    (fun x hx => (tf.dates x (dateOrder_sub _ _ x hx)).1) de hmem hprec _ denv
    (tmatch_trender de.tmpl denv hfd)
  unfold getInfo
  rw [splitOnChar_none _ _ hD]
  simp only [getDateInfo, firstMatch_eq, h2, h4]
  cases processZone cfg.zone [] <;> rfl

end IsoDT.Text
