/-
  IsoDT.Lemmas.TextCustomDump — the dumper half of the custom-format clause of C08 / C06:
  `TimePointDumper.dump(p, format)` for every complete custom format is the specified text
  `customText` of the specified point `CFmt.target` (`dump_custom`).

  `_dump_expression_with_properties` first brings the point to the representation the property list
  asks for (week ↔ calendar; an ordinal format leaves a calendar point alone and reads the day of year
  through `get_ordinal_date`), then re-zones it to the literal zone, checks the year against the
  format's digits and prints.  The specification converts to the zone first and to the format's
  representation afterwards; `toTimeZone_date_indep` and `date_unique` show the two routes meet (C06 + C03).
-/
import IsoDT.Lemmas.TextCustomExpr

namespace IsoDT.Text.Custom
open IsoDT IsoDT.Model IsoDT.Lemmas IsoDT.Text
open IsoDT.Spec (Date TZ TP)
open _root_.IsoDT.Gen.Templates (timeDesignator dumper_0 dumper_2 dumper_3 dumpTables parserTables)

/-! ## The text-layer view of a whole-second point -/

theorem ofTP_date (n : Nat) (P : TP) : (XTP.ofTP n P).date? = some P.date := by
  obtain ⟨d, hh, mi, ss, tz⟩ := P; cases d <;> rfl

theorem ofTP_view (m : Mode) (n : Nat) (P : TP) (k : Nat) :
    (XTP.ofTP n P).view m k = convert m k P.date := by
  unfold XTP.view; rw [ofTP_date]

theorem ofTP_secondDec (n : Nat) (P : TP) : (XTP.ofTP n P).secondDec = none := by
  obtain ⟨d, hh, mi, ss, tz⟩ := P; cases d <;> rfl

theorem withRep_ofTP (m : Mode) (n : Nat) (P : TP) (k : Nat) (d : Date)
    (h : convert m k P.date = some d) :
    (XTP.ofTP n P).withRep m k = some (XTP.ofTP n { P with date := d }) := by
  unfold XTP.withRep
  rw [ofTP_view, h]
  obtain ⟨pd, hh, mi, ss, tz⟩ := P
  cases d <;> cases pd <;> rfl

/-! ## The representation the dumper converts to before re-zoning -/

/-- Week formats need a week date; calendar and ordinal formats need a calendar-year date (a week date
    becomes a calendar date, calendar and ordinal dates stay as they are). -/
def interRep (k r : Nat) : Nat := if k = 2 then 2 else if r = 2 then 0 else r

theorem interRep_lt (k r : Nat) (hr : r < 3) : interRep k r < 3 := by
  unfold interRep
  split
  · omega
  · split <;> omega

/-! ## `_dump_expression_with_properties` -/

theorem yearCheck_plain (y : Int) :
    (!(decide (0 ≤ y) && decide (y ≤ 9999))) = true ↔ ¬ YearInRange 0 y := by
  simp [YearInRange]
  omega

theorem yearCheck_expanded (ned : Nat) (hn : ned ≠ 0) (y : Int) :
    (!(decide (-((10 : Int) ^ (ned + 4) - 1) ≤ y) && decide (y ≤ (10 : Int) ^ (ned + 4) - 1))) = true ↔
      ¬ YearInRange ned y := by
  have hc : ((10 : Int) ^ (ned + 4)) = ((10 ^ (4 + ned) : Nat) : Int) := by
    rw [Nat.add_comm]; simp
  simp only [YearInRange, hn, if_false, hc]
  generalize 10 ^ (4 + ned) = K
  simp only [Bool.not_eq_true', Bool.and_eq_false_iff, decide_eq_false_iff_not]
  omega

/-- Step 1 of `_dump_expression_with_properties`: the date representation. -/
def repStep (m : Mode) (p : XTP) (props : List DProp) : Except DumpErr XTP :=
  let wantsWeek := props.contains .weekOfYear || props.contains .dayOfWeek
  let wantsCal := props.contains .monthOfYear || props.contains .dayOfMonth ||
    props.contains .dayOfYear
  if p.truncated then .ok p
  else if wantsWeek then
    (if wantsCal || p.isWeek then .ok p
     else match p.withRep m 2 with
       | some q => .ok q
       | none => .error .unsupported)
  else if p.isWeek && wantsCal then
    (match p.withRep m 0 with
     | some q => .ok q
     | none => .error .unsupported)
  else .ok p

/-- Step 2: the custom time zone. -/
def zoneStep (m : Mode) (p1 : XTP) (custom : Option (Int × Int)) : Except DumpErr XTP :=
  match custom with
  | none => .ok p1
  | some (h, mi) =>
    match mkTZ m h mi with
    | none => .error .err
    | some z => p1.toTimeZone m z

/-- Step 3: the year bounds and `expression % property_map`. -/
def finishStep (m : Mode) (dt : DumpTables) (p2 : XTP) (e : Expr) : Except DumpErr (List Char) := do
  let y ← (match p2.year with
    | some y => .ok y
    | none => if e.props.contains .century || e.props.contains .expandedYearDigits ||
                 e.props.contains .yearSign || e.props.contains .yearOfCentury ||
                 e.props.contains .yearOfDecade then .error .unsupported else .ok 0 : Except DumpErr Int)
  if e.props.contains .century && (!e.props.contains .expandedYearDigits || dt.ned = 0) &&
      !(0 ≤ y && y ≤ 9999) then .error .err
  else if e.props.contains .expandedYearDigits &&
      !(-((10 : Int) ^ (dt.ned + 4) - 1) ≤ y && y ≤ (10 : Int) ^ (dt.ned + 4) - 1) then .error .err
  else
    match renderSegs m p2 e.segs with
    | some s => .ok s
    | none => .error .unsupported

theorem dumpExpr_steps (m : Mode) (dt : DumpTables) (p : XTP) (e : Expr) :
    dumpExpr m dt p e =
      (repStep m p e.props).bind fun p1 => (zoneStep m p1 e.customTZ).bind fun p2 => finishStep m dt p2 e :=
  rfl

theorem repStep_ofTP (m : Mode) (n : Nat) (P : TP) (k : Nat) (d1 : Date) (props : List DProp)
    (hW : (props.contains .weekOfYear || props.contains .dayOfWeek) = decide (k = 2))
    (hC : (props.contains .monthOfYear || props.contains .dayOfMonth || props.contains .dayOfYear) =
      decide (k ≠ 2))
    (hd1 : convert m (interRep k P.date.rep) P.date = some d1) :
    repStep m (XTP.ofTP n P) props = .ok (XTP.ofTP n { P with date := d1 }) := by
  unfold repStep
  simp only [hW, hC, ofTP_truncated, ofTP_isWeek, Bool.false_eq_true, if_false]
  by_cases hk : k = 2
  · by_cases hr : P.date.rep = 2
    · have : d1 = P.date := by
        have := convert_self m P.date
        rw [interRep, if_pos hk, ← hr, this] at hd1
        exact (Option.some.inj hd1).symm
      subst this
      simp [hk, hr]
    · rw [interRep, if_pos hk] at hd1
      simp [hk, hr, withRep_ofTP m n P 2 d1 hd1]
  · by_cases hr : P.date.rep = 2
    · rw [interRep, if_neg hk, if_pos hr] at hd1
      simp [hk, hr, withRep_ofTP m n P 0 d1 hd1]
    · have : d1 = P.date := by
        have := convert_self m P.date
        rw [interRep, if_neg hk, if_neg hr, this] at hd1
        exact (Option.some.inj hd1).symm
      subst this
      simp [hk, hr]

theorem zoneStep_ofTP (m : Mode) (n : Nat) (P1 P2 : TP) (z : TZ) (hz : z.Valid)
    (custom : Option (Int × Int)) (hZ : (custom = none ∧ z = P1.tz) ∨ custom = some (z.h, z.mi))
    (hP2 : toTimeZone m P1 z = some P2) :
    zoneStep m (XTP.ofTP n P1) custom = .ok (XTP.ofTP n P2) := by
  unfold zoneStep
  rcases hZ with ⟨rfl, rfl⟩ | rfl
  · have : P2 = P1 := by
      unfold toTimeZone at hP2
      rw [if_pos ⟨rfl, rfl⟩] at hP2
      exact (Option.some.inj hP2).symm
    rw [this]
  · simp only [Lemmas.Strf.mkTZ_valid m z hz]
    exact xtp_toTimeZone m n _ P2 z hP2

/-- Step 3 on any point whose year is known. -/
theorem finishStep_year (m : Mode) (dt : DumpTables) (X : XTP) (y : Int) (hyr : X.year = some y) (e : Expr)
    (hcent : e.props.contains .century = true) (x : Bool) (hx : e.props.contains .expandedYearDigits = x)
    (hxn : x = true → dt.ned ≠ 0) :
    finishStep m dt X e =
      if YearInRange (if x then dt.ned else 0) y then
        match renderSegs m X e.segs with
        | some s => .ok s
        | none => .error .unsupported
      else .error .err := by
  unfold finishStep
  simp only [bind, Except.bind, hyr, hcent, hx, Bool.true_and]
  cases x with
  | false =>
    simp only [Bool.not_false, Bool.true_or, Bool.true_and, Bool.false_and, Bool.false_eq_true, if_false]
    by_cases hy : YearInRange 0 y
    · have : (!(decide (0 ≤ y) && decide (y ≤ 9999))) = false := by
        cases hb : (!(decide (0 ≤ y) && decide (y ≤ 9999)))
        · rfl
        · exact absurd hy ((yearCheck_plain _).mp hb)
      rw [if_pos hy, this]
      simp
    · have := (yearCheck_plain y).mpr hy
      rw [if_neg hy, this]
      simp
  | true =>
    have hn := hxn rfl
    simp only [Bool.not_true, Bool.false_or, decide_eq_false hn, Bool.false_and, Bool.false_eq_true, if_false,
      Bool.true_and, if_true]
    by_cases hy : YearInRange dt.ned y
    · have : (!(decide (-((10 : Int) ^ (dt.ned + 4) - 1) ≤ y) &&
          decide (y ≤ (10 : Int) ^ (dt.ned + 4) - 1))) = false := by
        cases hb : (!(decide (-((10 : Int) ^ (dt.ned + 4) - 1) ≤ y) &&
          decide (y ≤ (10 : Int) ^ (dt.ned + 4) - 1)))
        · rfl
        · exact absurd hy ((yearCheck_expanded dt.ned hn _).mp hb)
      rw [if_pos hy, this]
      simp
    · have := (yearCheck_expanded dt.ned hn y).mpr hy
      rw [if_neg hy, this]
      simp

theorem finishStep_ofTP (m : Mode) (dt : DumpTables) (n : Nat) (P2 : TP) (e : Expr)
    (hcent : e.props.contains .century = true) (x : Bool) (hx : e.props.contains .expandedYearDigits = x)
    (hxn : x = true → dt.ned ≠ 0) :
    finishStep m dt (XTP.ofTP n P2) e =
      if YearInRange (if x then dt.ned else 0) (dateYear P2.date) then
        match renderSegs m (XTP.ofTP n P2) e.segs with
        | some s => .ok s
        | none => .error .unsupported
      else .error .err :=
  finishStep_year m dt _ _ (ofTP_year n P2) e hcent x hx hxn

/-- The general step: representation, zone, year bounds; then the rendering of the re-zoned point. -/
theorem dumpExpr_custom (m : Mode) (dt : DumpTables) (n : Nat) (P : TP) (k : Nat) (d1 : Date) (z : TZ)
    (hz : z.Valid) (P2 : TP) (e : Expr)
    (hW : (e.props.contains .weekOfYear || e.props.contains .dayOfWeek) = decide (k = 2))
    (hC : (e.props.contains .monthOfYear || e.props.contains .dayOfMonth || e.props.contains .dayOfYear) =
      decide (k ≠ 2))
    (hd1 : convert m (interRep k P.date.rep) P.date = some d1)
    (hZ : (e.customTZ = none ∧ z = P.tz) ∨ e.customTZ = some (z.h, z.mi))
    (hP2 : toTimeZone m { P with date := d1 } z = some P2)
    (hcent : e.props.contains .century = true) (x : Bool) (hx : e.props.contains .expandedYearDigits = x)
    (hxn : x = true → dt.ned ≠ 0) :
    dumpExpr m dt (XTP.ofTP n P) e =
      if YearInRange (if x then dt.ned else 0) (dateYear P2.date) then
        match renderSegs m (XTP.ofTP n P2) e.segs with
        | some s => .ok s
        | none => .error .unsupported
      else .error .err := by
  rw [dumpExpr_steps, repStep_ofTP m n P k d1 e.props hW hC hd1]
  simp only [Except.bind]
  rw [zoneStep_ofTP m n { P with date := d1 } P2 z hz e.customTZ hZ hP2]
  exact finishStep_ofTP m dt n P2 e hcent x hx hxn


/-! ## `expression % property_map`: the fields -/

theorem kind_lt (k : DateKind) : k.k < 3 := by cases k <;> decide

/-- The date properties are read through `get_calendar_date` / `get_ordinal_date` / `get_week_date`,
    whatever representation the point is kept in. -/
theorem intProp_month (m : Mode) (n : Nat) (P : TP) (y mo d : Int)
    (h : convert m 0 P.date = some (.cal y mo d)) (h0 : 0 ≤ mo) :
    intProp m (XTP.ofTP n P) .monthOfYear = some mo.toNat := by
  obtain ⟨pd, hh, mi, ss, tz⟩ := P
  cases pd with
  | cal a b c =>
    simp only [convert, Option.some.injEq, Date.cal.injEq] at h
    obtain ⟨rfl, rfl, rfl⟩ := h
    simp [intProp, XTP.ofTP, h0]
  | ord a b => simp only at h; simp [intProp, XTP.ofTP, XTP.view, XTP.date?, h, h0]
  | week a b c => simp only at h; simp [intProp, XTP.ofTP, XTP.view, XTP.date?, h, h0]

theorem intProp_day (m : Mode) (n : Nat) (P : TP) (y mo d : Int)
    (h : convert m 0 P.date = some (.cal y mo d)) (h0 : 0 ≤ d) :
    intProp m (XTP.ofTP n P) .dayOfMonth = some d.toNat := by
  obtain ⟨pd, hh, mi, ss, tz⟩ := P
  cases pd with
  | cal a b c =>
    simp only [convert, Option.some.injEq, Date.cal.injEq] at h
    obtain ⟨rfl, rfl, rfl⟩ := h
    simp [intProp, XTP.ofTP, h0]
  | ord a b => simp only at h; simp [intProp, XTP.ofTP, XTP.view, XTP.date?, h, h0]
  | week a b c => simp only at h; simp [intProp, XTP.ofTP, XTP.view, XTP.date?, h, h0]

theorem intProp_doy (m : Mode) (n : Nat) (P : TP) (y doy : Int)
    (h : convert m 1 P.date = some (.ord y doy)) (h0 : 0 ≤ doy) :
    intProp m (XTP.ofTP n P) .dayOfYear = some doy.toNat := by
  obtain ⟨pd, hh, mi, ss, tz⟩ := P
  cases pd with
  | cal a b c => simp only at h; simp [intProp, XTP.ofTP, XTP.view, XTP.date?, h, h0]
  | ord a b =>
    simp only [convert, Option.some.injEq, Date.ord.injEq] at h
    obtain ⟨rfl, rfl⟩ := h
    simp [intProp, XTP.ofTP, h0]
  | week a b c => simp only at h; simp [intProp, XTP.ofTP, XTP.view, XTP.date?, h, h0]

theorem intProp_week (m : Mode) (n : Nat) (P : TP) (y w d : Int)
    (h : convert m 2 P.date = some (.week y w d)) (h0 : 0 ≤ w) :
    intProp m (XTP.ofTP n P) .weekOfYear = some w.toNat := by
  obtain ⟨pd, hh, mi, ss, tz⟩ := P
  cases pd with
  | cal a b c => simp only at h; simp [intProp, XTP.ofTP, XTP.view, XTP.date?, h, h0]
  | ord a b => simp only at h; simp [intProp, XTP.ofTP, XTP.view, XTP.date?, h, h0]
  | week a b c =>
    simp only [convert, Option.some.injEq, Date.week.injEq] at h
    obtain ⟨rfl, rfl, rfl⟩ := h
    simp [intProp, XTP.ofTP, h0]

theorem intProp_dow (m : Mode) (n : Nat) (P : TP) (y w d : Int)
    (h : convert m 2 P.date = some (.week y w d)) (h0 : 0 ≤ d) :
    intProp m (XTP.ofTP n P) .dayOfWeek = some d.toNat := by
  obtain ⟨pd, hh, mi, ss, tz⟩ := P
  cases pd with
  | cal a b c => simp only at h; simp [intProp, XTP.ofTP, XTP.view, XTP.date?, h, h0]
  | ord a b => simp only at h; simp [intProp, XTP.ofTP, XTP.view, XTP.date?, h, h0]
  | week a b c =>
    simp only [convert, Option.some.injEq, Date.week.injEq] at h
    obtain ⟨rfl, rfl, rfl⟩ := h
    simp [intProp, XTP.ofTP, h0]

/-- The date after the year, in the format's representation. -/
theorem render_body (m : Mode) (n : Nat) (P : TP) (ext : Bool) (kind : DateKind) (dQ : Date)
    (hv : P.date.Valid m) (hc : convert m kind.k P.date = some dQ) :
    renderSegs m (XTP.ofTP n P) (bodySegs ext kind) = some (bodyText ext dQ) := by
  obtain ⟨_, hvQ, hrQ, _⟩ := convert_back m kind.k (kind_lt kind) P.date dQ hv hc
  cases kind with
  | cal =>
    cases dQ with
    | cal y mo d =>
      obtain ⟨h1, h2, h3, h4⟩ := hvQ
      have hb := (monthLen_bounds m y mo h1 h2).2
      have e1 : padNat 2 mo.toNat = renderNat 2 mo.toNat := padNat_eq _ _ (by simp only [Nat.reducePow]; omega)
      have e2 : padNat 2 d.toNat = renderNat 2 d.toNat := padNat_eq _ _ (by simp only [Nat.reducePow]; omega)
      have i1 := intProp_month m n P y mo d hc (by omega)
      have i2 := intProp_day m n P y mo d hc (by omega)
      cases ext <;> simp [bodySegs, bodyText, dsep, renderSegs, i1, i2, e1, e2]
    | ord y doy => simp [DateKind.k, Date.rep] at hrQ
    | week y w d => simp [DateKind.k, Date.rep] at hrQ
  | ord =>
    cases dQ with
    | cal y mo d => simp [DateKind.k, Date.rep] at hrQ
    | ord y doy =>
      obtain ⟨h1, h2⟩ := hvQ
      have hb := (yearLen_bounds m y).2
      have e1 : padNat 3 doy.toNat = renderNat 3 doy.toNat := padNat_eq _ _ (by simp only [Nat.reducePow]; omega)
      have i1 := intProp_doy m n P y doy hc (by omega)
      cases ext <;> simp [bodySegs, bodyText, dsep, renderSegs, i1, e1]
    | week y w d => simp [DateKind.k, Date.rep] at hrQ
  | week =>
    cases dQ with
    | cal y mo d => simp [DateKind.k, Date.rep] at hrQ
    | ord y doy => simp [DateKind.k, Date.rep] at hrQ
    | week y w d =>
      obtain ⟨h1, h2, h3, h4⟩ := hvQ
      have hb := (weeksInYear_bounds m y).2
      have e1 : padNat 2 w.toNat = renderNat 2 w.toNat := padNat_eq _ _ (by simp only [Nat.reducePow]; omega)
      have e2 : padNat 1 d.toNat = renderNat 1 d.toNat := padNat_eq _ _ (by simp only [Nat.reducePow]; omega)
      have i1 := intProp_week m n P y w d hc (by omega)
      have i2 := intProp_dow m n P y w d hc (by omega)
      cases ext <;> simp [bodySegs, bodyText, dsep, renderSegs, i1, i2, e1, e2]

/-- The year: sign and expanded digits (with the `+X` token), century, year of century. -/
theorem render_yearC (m : Mode) (n : Nat) (P : TP) (x : Bool) (ned : Nat) (hxn : x = true → ned ≠ 0)
    (hy : YearInRange (if x then ned else 0) (dateYear P.date)) :
    renderSegs m (XTP.ofTP n P) (yearSegsC x ned) =
      some (yearText (if x then ned else 0) (dateYear P.date)) := by
  cases x with
  | false =>
    simp only [Bool.false_eq_true, if_false] at hy ⊢
    simp only [YearInRange, if_true] at hy
    have hn : (dateYear P.date).natAbs ≤ 9999 := by omega
    have e0 : (dateYear P.date).natAbs % 10000 = (dateYear P.date).natAbs := Nat.mod_eq_of_lt (by omega)
    have e1 : padNat 2 ((dateYear P.date).natAbs / 100) = renderNat 2 ((dateYear P.date).natAbs / 100) :=
      padNat_eq _ _ (by simp only [Nat.reducePow]; omega)
    have e2 : padNat 2 ((dateYear P.date).natAbs % 100) = renderNat 2 ((dateYear P.date).natAbs % 100) :=
      padNat_eq _ _ (by simp only [Nat.reducePow]; omega)
    simp [yearSegsC, yearText, renderSegs, intProp, ofTP_year, renderNat_four, e0, e1, e2]
  | true =>
    have hn := hxn rfl
    simp only [if_true] at hy ⊢
    simp only [YearInRange, hn, if_false] at hy
    have hlt : (dateYear P.date).natAbs / 10000 < 10 ^ ned := by
      rw [Nat.pow_add] at hy
      generalize 10 ^ ned = K at hy ⊢
      omega
    have e0 : padNat ned ((dateYear P.date).natAbs / 10000) = renderNat ned ((dateYear P.date).natAbs / 10000) :=
      padNat_eq _ _ hlt hn
    have e1 : padNat 2 ((dateYear P.date).natAbs % 10000 / 100) =
        renderNat 2 ((dateYear P.date).natAbs / 100 % 100) := by
      have : (dateYear P.date).natAbs % 10000 / 100 = (dateYear P.date).natAbs / 100 % 100 := by omega
      rw [this]
      exact padNat_eq _ _ (by simp only [Nat.reducePow]; omega)
    have e2 : padNat 2 ((dateYear P.date).natAbs % 100) = renderNat 2 ((dateYear P.date).natAbs % 100) :=
      padNat_eq _ _ (by simp only [Nat.reducePow]; omega)
    simp only [yearSegsC, yearText, hn, if_false, if_true, renderSegs, intProp, strProp, ofTP_year,
      Option.map_some, e0, e1, e2, renderNat_year]
    by_cases hneg : dateYear P.date < 0
    · have : ¬ (0 ≤ dateYear P.date) := by omega
      simp [hneg, this]
    · have : 0 ≤ dateYear P.date := by omega
      simp [hneg, this]

theorem render_clock (m : Mode) (n : Nat) (P : TP) (ext : Bool) (h0 : 0 ≤ P.hh) (h1 : P.hh ≤ 24)
    (h2 : 0 ≤ P.mi) (h3 : P.mi < 60) (h4 : 0 ≤ P.ss) (h5 : P.ss < 60) :
    renderSegs m (XTP.ofTP n P) (clockSegs ext) = some (clockText ext P) := by
  have e1 : padNat 2 P.hh.toNat = renderNat 2 P.hh.toNat := padNat_eq _ _ (by simp only [Nat.reducePow]; omega)
  have e2 : padNat 2 P.mi.toNat = renderNat 2 P.mi.toNat := padNat_eq _ _ (by simp only [Nat.reducePow]; omega)
  have e3 : padNat 2 P.ss.toNat = renderNat 2 P.ss.toNat := padNat_eq _ _ (by simp only [Nat.reducePow]; omega)
  cases ext <;>
    simp [clockSegs, clockText, csep, renderSegs, intProp, ofTP_hour, ofTP_minute, ofTP_second, e1, e2, e3,
      h0, h2, h4]

/-- The decimal part of a whole-second point: `_decimal_string` of no fraction is `0`. -/
theorem render_frac (m : Mode) (n : Nat) (P : TP) (fr : Frac) :
    renderSegs m (XTP.ofTP n P) (fracSegs fr) = some (fracText fr) := by
  cases fr <;> simp [fracSegs, fracText, renderSegs, strProp, ofTP_second, ofTP_secondDec, decimalString]

theorem render_digits (m : Mode) (p : XTP) (pre : List Char) (l : List Char) :
    renderSegs m p (pre.map Seg.raw ++ l.map Seg.raw) = some (pre ++ l) := by
  rw [← List.map_append]; exact renderSegs_raw m p _

/-- The zone: `Z`; the point's sign, hours and minutes for a placeholder; sign and the literal digits
    for a literal zone the point carries. -/
theorem render_zoneC (m : Mode) (n : Nat) (P : TP) (ext : Bool) (zs : ZSpec) (hz : P.tz.Valid)
    (hlit : ∀ s z, zs = .lit s z → P.tz = z) :
    renderSegs m (XTP.ofTP n P) (zoneSegsC ext zs) = some (zoneText ext zs P.tz) := by
  obtain ⟨h1, h2, h3, h4, _, _⟩ := hz
  have e1 : padNat 2 P.tz.h.natAbs = renderNat 2 P.tz.h.natAbs :=
    padNat_eq _ _ (by simp only [Nat.reducePow]; omega)
  have e2 : padNat 2 P.tz.mi.natAbs = renderNat 2 P.tz.mi.natAbs :=
    padNat_eq _ _ (by simp only [Nat.reducePow]; omega)
  cases zs with
  | utc => simp [zoneSegsC, zoneText, renderSegs]
  | own s =>
    cases s <;> cases ext <;>
      by_cases hs : P.tz.h < 0 ∨ P.tz.mi < 0 <;>
      simp [zoneSegsC, zoneText, zsign, zoneDigits, renderSegs, intProp, strProp, ofTP_tz, e1, e2, hs]
  | lit s z =>
    have htz := hlit s z rfl
    subst htz
    have hraw := renderSegs_raw m (XTP.ofTP n P) (zoneDigits ext s P.tz)
    simp only [zoneSegsC, zoneText, litSegs]
    by_cases hs : P.tz.h < 0 ∨ P.tz.mi < 0
    · have : zsign P.tz = '-' := by simp [zsign, hs]
      rw [this]
      simp [renderSegs, hraw]
    · have : zsign P.tz = '+' := by simp [zsign, hs]
      rw [this]
      simp [renderSegs, strProp, ofTP_tz, hs, hraw]

/-- **The compiled format printed**: the point `P2` (already in the dumper's intermediate
    representation and in the target zone) through the compiled expression is the specified text of
    `P2` re-expressed in the format's representation. -/
theorem render_custom (m : Mode) (n ned : Nat) (f : CFmt) (hf : f.WF ned) (P2 : TP) (hv : P2.Valid m)
    (dQ : Date) (hc : convert m f.kind.k P2.date = some dQ) (hyear : dateYear dQ = dateYear P2.date)
    (hy : YearInRange (f.yd ned) (dateYear dQ))
    (hlit : ∀ s z, f.zone = .lit s z → P2.tz = z) :
    renderSegs m (XTP.ofTP n P2) (f.expr ned).segs = some (customText ned f { P2 with date := dQ }) := by
  obtain ⟨hdate, h0, h1, h2, h3, h4, h5, _, hz⟩ := hv
  rw [hyear] at hy
  unfold CFmt.expr customText
  simp only
  rw [hyear]
  refine renderSegs_append _ _ _ _ _ _
    (renderSegs_append _ _ _ _ _ _ (render_yearC m n P2 f.expanded ned hf.1 hy)
      (render_body m n P2 f.ext f.kind dQ hdate hc)) ?_
  have := renderSegs_append m (XTP.ofTP n P2) _ _ _ _
    (renderSegs_append _ _ _ _ _ _ (render_clock m n P2 f.ext h0 h1 h2 h3 h4 h5) (render_frac m n P2 f.frac))
    (render_zoneC m n P2 f.ext f.zone hz hlit)
  simp only [renderSegs, this, Option.map_some]
  rfl


/-! ## The two routes meet: representation first (the code) or zone first (the specification) -/

theorem strict_fields_eq (m : Mode) (a b : TP) (ha : a.Strict m) (hb : b.Strict m) (htz : a.tz = b.tz)
    (hi : a.inst m = b.inst m) :
    a.date.dayNum m = b.date.dayNum m ∧ a.hh = b.hh ∧ a.mi = b.mi ∧ a.ss = b.ss := by
  obtain ⟨hd, hs⟩ := (inst_order m a b ha hb htz).2.mp hi
  obtain ⟨⟨_, a1, _, a3, a4, a5, a6, _, _⟩, a9⟩ := ha
  obtain ⟨⟨_, b1, _, b3, b4, b5, b6, _, _⟩, b9⟩ := hb
  unfold TP.secOfDay at hs
  refine ⟨hd, ?_, ?_, ?_⟩ <;> omega

/-- Re-zoning does not look at the representation of the date: two points that differ only in how the
    same day is written are re-zoned to points that differ only in how the same day is written. -/
theorem toTimeZone_date_indep (m : Mode) (P : TP) (d' : Date) (z : TZ) (hv : P.Valid m)
    (hv' : d'.Valid m) (hn : d'.dayNum m = P.date.dayNum m) (Q Q' : TP)
    (hQ : toTimeZone m P z = some Q) (hQ' : toTimeZone m { P with date := d' } z = some Q') :
    Q'.hh = Q.hh ∧ Q'.mi = Q.mi ∧ Q'.ss = Q.ss ∧ Q'.tz = Q.tz ∧ Q'.date.dayNum m = Q.date.dayNum m := by
  have hvP' : ({ P with date := d' } : TP).Valid m := by
    obtain ⟨_, b⟩ := hv
    exact ⟨hv', b⟩
  unfold toTimeZone at hQ hQ'
  by_cases c : z.h = P.tz.h ∧ z.mi = P.tz.mi
  · rw [if_pos c] at hQ hQ'
    obtain rfl := Option.some.inj hQ
    obtain rfl := Option.some.inj hQ'
    exact ⟨rfl, rfl, rfl, rfl, hn⟩
  · rw [if_neg c] at hQ hQ'
    obtain ⟨q0, he, g⟩ := addDur_exact_units m P 0 (z.h - P.tz.h) (z.mi - P.tz.mi) 0 hv
    obtain ⟨q0', he', g'⟩ := addDur_exact_units m { P with date := d' } 0 (z.h - P.tz.h) (z.mi - P.tz.mi) 0 hvP'
    rw [he] at hQ
    rw [he'] at hQ'
    obtain rfl := Option.some.inj hQ
    obtain rfl := Option.some.inj hQ'
    have hinst : ({ P with date := d' } : TP).inst m = P.inst m := by
      simp only [TP.inst, TP.secOfDay, hn]
    obtain ⟨e1, e2, e3, e4⟩ := strict_fields_eq m q0' q0 g'.strict g.strict (g'.tz.trans g.tz.symm)
      (by rw [g'.inst, g.inst, hinst])
    exact ⟨e2, e3, e4, rfl, e1⟩

/-- Calendar and ordinal dates share their year; so re-expressing a date keeps the year unless it
    moves between the week-year and the calendar-year representations. -/
theorem dateYear_convert (m : Mode) (k : Nat) (dt r : Date) (hv : dt.Valid m)
    (hc : convert m k dt = some r) (hrep : k = 2 ↔ dt.rep = 2) : dateYear r = dateYear dt := by
  cases dt with
  | cal y mo d =>
    match k, hrep, hc with
    | 0, _, hc => simp only [convert, Option.some.injEq] at hc; rw [← hc]
    | 1, _, hc =>
      obtain ⟨doy, he, _, _⟩ := ordFromCal_spec m y mo d hv
      simp only [convert, he, Option.map_some, Option.some.injEq] at hc
      rw [← hc]; rfl
    | 2, hrep, _ => exact absurd (hrep.mp rfl) (by simp [Date.rep])
    | k + 3, _, hc => simp [convert] at hc
  | ord y doy =>
    match k, hrep, hc with
    | 0, _, hc =>
      obtain ⟨mo, d, he, _, _⟩ := calFromOrd_spec m y doy hv
      simp only [convert, he, Option.map_some, Option.some.injEq] at hc
      rw [← hc]; rfl
    | 1, _, hc => simp only [convert, Option.some.injEq] at hc; rw [← hc]
    | 2, hrep, _ => exact absurd (hrep.mp rfl) (by simp [Date.rep])
    | k + 3, _, hc => simp [convert] at hc
  | week y w d =>
    match k, hrep, hc with
    | 0, hrep, _ => exact absurd (hrep.mpr rfl) (by decide)
    | 1, hrep, _ => exact absurd (hrep.mpr rfl) (by decide)
    | 2, _, hc => simp only [convert, Option.some.injEq] at hc; rw [← hc]
    | k + 3, _, hc => simp [convert] at hc

/-! ## The property lists -/

theorem expr_wantsWeek (f : CFmt) (ned : Nat) :
    ((f.expr ned).props.contains .weekOfYear || (f.expr ned).props.contains .dayOfWeek) =
      decide (f.kind.k = 2) := by
  obtain ⟨x, kind, ext, fr, zs⟩ := f
  cases zs with
  | utc => cases x <;> cases kind <;> cases fr <;> rfl
  | own s => cases s <;> cases x <;> cases kind <;> cases fr <;> rfl
  | lit s z =>
    simp only [CFmt.expr, zonePropsC, litProps]
    rcases zsign_cases z with h | h <;> rw [h] <;> cases x <;> cases kind <;> cases fr <;> rfl

theorem expr_wantsCal (f : CFmt) (ned : Nat) :
    ((f.expr ned).props.contains .monthOfYear || (f.expr ned).props.contains .dayOfMonth ||
      (f.expr ned).props.contains .dayOfYear) = decide (f.kind.k ≠ 2) := by
  obtain ⟨x, kind, ext, fr, zs⟩ := f
  cases zs with
  | utc => cases x <;> cases kind <;> cases fr <;> rfl
  | own s => cases s <;> cases x <;> cases kind <;> cases fr <;> rfl
  | lit s z =>
    simp only [CFmt.expr, zonePropsC, litProps]
    rcases zsign_cases z with h | h <;> rw [h] <;> cases x <;> cases kind <;> cases fr <;> rfl

theorem expr_century (f : CFmt) (ned : Nat) : (f.expr ned).props.contains .century = true := by
  obtain ⟨x, kind, ext, fr, zs⟩ := f
  cases x <;> rfl

theorem expr_expanded (f : CFmt) (ned : Nat) :
    (f.expr ned).props.contains .expandedYearDigits = f.expanded := by
  obtain ⟨x, kind, ext, fr, zs⟩ := f
  cases zs with
  | utc => cases x <;> cases kind <;> cases fr <;> rfl
  | own s => cases s <;> cases x <;> cases kind <;> cases fr <;> rfl
  | lit s z =>
    simp only [CFmt.expr, zonePropsC, litProps]
    rcases zsign_cases z with h | h <;> rw [h] <;> cases x <;> cases kind <;> cases fr <;> rfl

/-! ## The target point -/

theorem target_zone_valid (f : CFmt) (ned : Nat) (hf : f.WF ned) (p : TP) (hz : p.tz.Valid) :
    (f.zone.target p).Valid := by
  obtain ⟨_, h2⟩ := hf
  cases hzs : f.zone with
  | utc => exact utc_valid
  | own s => exact hz
  | lit s z => rw [hzs] at h2; exact h2.1

/-- **The target exists and is the same instant**: for a valid point and a well-formed format, the
    specified point exists, is valid, is in the format's representation, carries the format's zone and
    denotes the same instant as `p` (C06 for the zone, C03 for the representation). -/
theorem target_spec (m : Mode) (f : CFmt) (ned : Nat) (hf : f.WF ned) (p : TP) (hv : p.Valid m) :
    ∃ q, f.target m p = some q ∧ q.Valid m ∧ q.date.rep = f.kind.k ∧ q.tz = f.zone.target p ∧
      q.inst m = p.inst m := by
  have hz := target_zone_valid f ned hf p hv.2.2.2.2.2.2.2.2
  obtain ⟨q1, hq1, hinst, htz, _, hvq, _⟩ := toTimeZone_spec m p (f.zone.target p) hv hz
  obtain ⟨r, hr, hvr, hrep, hnum⟩ := convert_spec m f.kind.k (kind_lt _) q1.date hvq.1
  refine ⟨{ q1 with date := r }, ?_, ?_, hrep, htz, ?_⟩
  · unfold CFmt.target; rw [hq1]; simp [hr]
  · obtain ⟨_, b⟩ := hvq; exact ⟨hvr, b⟩
  · rw [← hinst]; simp only [TP.inst, TP.secOfDay, hnum]

/-! ## `TimePointDumper.dump` on a complete custom format -/

/-- **Dump with a complete custom format**: the text is the specified text of the specified point —
    `p` converted to the format's zone and representation — provided that point's year is within the
    digits the format prints (0000–9999 without the `+X` token, `|y| < 10^(4+ned)` with it);
    otherwise the dump is the dumper's bounds error. -/
theorem dump_custom (m : Mode) (dt : DumpTables) (hdt : dt ∈ dumpTables) (n : Nat) (f : CFmt)
    (hf : f.WF dt.ned) (p q : TP) (hv : p.Valid m) (hq : f.target m p = some q) :
    dump m dt (XTP.ofTP n p) f.text =
      if YearInRange (f.yd dt.ned) (dateYear q.date) then .ok (customText dt.ned f q) else .error .err := by
  have hz := target_zone_valid f dt.ned hf p hv.2.2.2.2.2.2.2.2
  -- the specification's route
  obtain ⟨q1, hq1, _, htz1, _, hvq1, _⟩ := toTimeZone_spec m p (f.zone.target p) hv hz
  obtain ⟨dq, hdq, hvdq, hrdq, hndq⟩ := convert_spec m f.kind.k (kind_lt _) q1.date hvq1.1
  have hqeq : q = { q1 with date := dq } := by
    unfold CFmt.target at hq
    rw [hq1] at hq
    simp only [Option.bind_some, hdq, Option.map_some, Option.some.injEq] at hq
    exact hq.symm
  -- the code's route
  obtain ⟨d1, hd1, hvd1, hrd1, hnd1⟩ :=
    convert_spec m (interRep f.kind.k p.date.rep) (interRep_lt _ _ (rep_lt_three _)) p.date hv.1
  have hvP1 : ({ p with date := d1 } : TP).Valid m := by
    obtain ⟨_, b⟩ := hv; exact ⟨hvd1, b⟩
  obtain ⟨P2, hP2, _, htz2, hrep2, hvP2, _⟩ := toTimeZone_spec m { p with date := d1 } (f.zone.target p) hvP1 hz
  obtain ⟨dQ, hdQ, hvdQ, hrdQ, hndQ⟩ := convert_spec m f.kind.k (kind_lt _) P2.date hvP2.1
  -- they meet
  obtain ⟨e1, e2, e3, e4, e5⟩ := toTimeZone_date_indep m p d1 (f.zone.target p) hv hvd1 hnd1 q1 P2 hq1 hP2
  have hdd : dQ = dq := date_unique m dQ dq hvdQ hvdq (by rw [hrdQ, hrdq]) (by rw [hndQ, hndq, e5])
  have hqP2 : ({ P2 with date := dQ } : TP) = q := by
    rw [hqeq, hdd]
    obtain ⟨a1, a2, a3, a4, a5⟩ := P2
    obtain ⟨b1, b2, b3, b4, b5⟩ := q1
    simp only at e1 e2 e3 e4
    simp [e1, e2, e3, e4]
  have hyear : dateYear dQ = dateYear P2.date := by
    apply dateYear_convert m f.kind.k P2.date dQ hvP2.1 hdQ
    simp only at hrep2
    rw [hrep2, hrd1]
    unfold interRep
    by_cases hk : f.kind.k = 2
    · simp [hk]
    · by_cases hr : p.date.rep = 2 <;> simp [hk, hr]
  have hqd : dateYear q.date = dateYear dQ := by rw [← hqP2]
  -- the format
  unfold dump
  rw [text_noPercent, getExpr_custom dt hdt f hf]
  simp only [Bool.false_eq_true, if_false]
  rw [dumpExpr_custom m dt n p f.kind.k d1 (f.zone.target p) hz P2 (f.expr dt.ned)
    (expr_wantsWeek f dt.ned) (expr_wantsCal f dt.ned) hd1
    (by
      cases hzs : f.zone with
      | utc => right; simp [CFmt.expr, customC, hzs, ZSpec.target]
      | own s => left; simp [CFmt.expr, customC, hzs, ZSpec.target]
      | lit s z => right; simp [CFmt.expr, customC, hzs, ZSpec.target])
    hP2 (expr_century f dt.ned) f.expanded (expr_expanded f dt.ned) hf.1]
  rw [← hyear, ← hqd]
  by_cases hy : YearInRange (f.yd dt.ned) (dateYear q.date)
  · have hy' : YearInRange (if f.expanded = true then dt.ned else 0) (dateYear q.date) := hy
    rw [if_pos hy, if_pos hy']
    rw [hqd] at hy
    rw [render_custom m n dt.ned f hf P2 hvP2 dQ hdQ hyear hy
      (by intro s z hzs; rw [htz2, hzs]; rfl), hqP2]
  · have hy' : ¬ YearInRange (if f.expanded = true then dt.ned else 0) (dateYear q.date) := hy
    rw [if_neg hy, if_neg hy']

end IsoDT.Text.Custom
