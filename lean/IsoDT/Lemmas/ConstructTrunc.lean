/-
  IsoDT.Lemmas.ConstructTrunc — helpers for C09 on the truncated constructor (`Model.mkTruncTP`):
  the readable acceptance predicate `TruncAcceptable`, the unpacking of `truncBoundsOk` into Spec-level
  limits, and the 2800-year periodicity of every mode's calendar (used to turn ANY stored short year,
  negative ones included, into a non-negative full year with the same last digits and the same calendar).
-/
import IsoDT.Model.ConstructTrunc
import IsoDT.Lemmas.Conv
import IsoDT.Props.C09

namespace IsoDT.Lemmas.ConstructTrunc
open IsoDT.Lemmas
open IsoDT IsoDT.Model
open IsoDT.Spec (TZ)
open IsoDT.Props.C09 (mkTZOpt_valid mkTZOpt_of_valid)

/-! ### readable limits -/

/-- The longest month of the mode. -/
def maxDom : Mode → Int
  | .d360 => 30
  | _ => 31

/-- The largest number of ISO weeks a year of the mode can have. -/
def maxWeeks : Mode → Int
  | .d360 => 52
  | _ => 53

/-- "Absent, or within `lo..hi`". -/
def OptIn : Option Int → Int → Int → Prop
  | none, _, _ => True
  | some x, lo, hi => lo ≤ x ∧ x ≤ hi

instance : Decidable (OptIn v lo hi) := by cases v <;> unfold OptIn <;> infer_instance

/-- Upper limit for `day_of_month`: the month's length in the stored year; in a leap year when no year
    is stored; the mode's longest month when no month is given. -/
def maxDomOf (m : Mode) : Option Int → Option Int → Int
  | some y, some mo => Spec.monthLen m y mo
  | none, some mo => Spec.monthLenB m true mo
  | _, none => maxDom m

/-- Upper limit for `day_of_year`: the stored year's length, else the leap-year length. -/
def maxDoyOf (m : Mode) : Option Int → Int
  | some y => Spec.yearLen m y
  | none => Spec.yearLenB m true

/-- Upper limit for `week_of_year`: the stored year's number of ISO weeks, else the mode's maximum. -/
def maxWeekOf (m : Mode) : Option Int → Int
  | some y => Spec.weeksInYear m y
  | none => maxWeeks m

/-- The two zone arguments are acceptable to `TimeZone(hours, minutes)`. -/
def ZoneArgsOk : Option Int → Option Int → Prop
  | none, none => True
  | some h, none => -99 ≤ h ∧ h ≤ 99
  | none, some mi => -59 ≤ mi ∧ mi ≤ 59
  | some h, some mi => TZ.Valid ⟨h, mi⟩

instance : Decidable (ZoneArgsOk h mi) := by cases h <;> cases mi <;> unfold ZoneArgsOk <;> infer_instance

/-- At most one of the three date notations is used: month/day-of-month, week/day-of-week, day-of-year. -/
def oneRep (a : TruncArgs) : Bool :=
  let cal := a.month.isSome || a.dom.isSome
  let wk := a.week.isSome || a.dow.isSome
  !(cal && wk) && !(cal && a.doy.isSome) && !(wk && a.doy.isSome)

/-- **The argument sets `TimePoint(truncated=True, ...)` accepts** (integral arguments): a legal zone,
    one date notation at most, every given field within its limit — the limits taken from the stored
    year when there is one (whatever `truncated_property` says and whatever its magnitude), else from a
    leap year / the mode's maxima — and 24 only as 24[:00[:00]]. -/
def TruncAcceptable (m : Mode) (a : TruncArgs) : Prop :=
  ZoneArgsOk a.tzh a.tzm ∧ oneRep a = true ∧
  OptIn a.month 1 12 ∧ OptIn a.dom 1 (maxDomOf m a.year a.month) ∧
  OptIn a.doy 1 (maxDoyOf m a.year) ∧
  OptIn a.week 1 (maxWeekOf m a.year) ∧ OptIn a.dow 1 7 ∧
  OptIn a.hh 0 24 ∧
  (if a.hh = some 24 then OptIn a.mi 0 0 ∧ OptIn a.ss 0 0 else OptIn a.mi 0 59 ∧ OptIn a.ss 0 59)

instance : Decidable (TruncAcceptable m a) := by unfold TruncAcceptable; infer_instance

/-- What the accepted object holds. -/
def fieldsOf (a : TruncArgs) (tz : TZ) : TruncFields :=
  { tprop := a.tprop, year := a.year, month := a.month, dom := a.dom, doy := a.doy, week := a.week,
    dow := a.dow, hh := a.hh, mi := a.mi, ss := a.ss, tzUnknown := a.tzh.isNone && a.tzm.isNone, tz := tz }

/-! ### tables -/

theorem maxDaysInMonth_eq (m : Mode) : (calOf m).maxDaysInMonth = maxDom m := by cases m <;> decide
theorem maxWeeksInYear_eq (m : Mode) : (calOf m).maxWeeksInYear = maxWeeks m := by cases m <;> decide
theorem daysInYearLeap_eq (m : Mode) : (calOf m).daysInYearLeap = Spec.yearLenB m true :=
  (daysInYearRec_eq m).2

theorem daysInMonthB_eq (m : Mode) (lp : Bool) (mo : Int) : daysInMonthB m lp mo = Spec.monthLenB m lp mo := by
  unfold daysInMonthB Spec.monthLenB; rw [table_eq]

theorem inRange_iff (v : Option Int) (lo hi : Int) : inRange v lo hi = true ↔ OptIn v lo hi := by
  cases v <;> simp [inRange, OptIn]

theorem inRangeUpper_iff (v : Option Int) (lo hi : Int) : inRangeUpper v lo hi = true ↔ OptIn v lo (hi - 1) := by
  cases v with
  | none => simp [inRangeUpper, OptIn]
  | some x => simp only [inRangeUpper, OptIn, decide_eq_true_eq]; omega

theorem OptIn_some (x lo hi : Int) : OptIn (some x) lo hi ↔ lo ≤ x ∧ x ≤ hi := Iff.rfl

theorem truthy_of_optIn (v : Option Int) (hi : Int) (h : OptIn v 1 hi) : truthy v = v.isSome := by
  cases v with
  | none => rfl
  | some x =>
    have : x ≠ 0 := by have := (OptIn_some _ _ _).mp h; omega
    simp [truthy, this]

theorem truncMaxDom_eq (m : Mode) (year month : Option Int) (h : OptIn month 1 12) :
    truncMaxDom m year month = maxDomOf m year month := by
  cases month with
  | none => cases year <;> exact maxDaysInMonth_eq m
  | some mo =>
    have hm := (OptIn_some _ _ _).mp h
    cases year with
    | none => exact daysInMonthB_eq m true mo
    | some y => exact daysInMonth_eq m y mo hm.1 hm.2

theorem truncMaxDoy_eq (m : Mode) (year : Option Int) : truncMaxDoy m year = maxDoyOf m year := by
  cases year with
  | none => exact daysInYearLeap_eq m
  | some y => exact daysInYear_eq m y

theorem truncMaxWeek_eq (m : Mode) (year : Option Int) : truncMaxWeek m year = maxWeekOf m year := by
  cases year with
  | none => exact maxWeeksInYear_eq m
  | some y => exact weeksInYear_eq m y

/-- `_check_bounds` on a truncated point, in Spec terms. -/
theorem truncBoundsOk_iff (m : Mode) (year month dom doy week dow hh mi ss : Option Int) :
    truncBoundsOk m year month dom doy week dow hh mi ss = true ↔
    (OptIn month 1 12 ∧ OptIn dom 1 (maxDomOf m year month) ∧ OptIn doy 1 (maxDoyOf m year) ∧
     OptIn week 1 (maxWeekOf m year) ∧ OptIn dow 1 7 ∧ OptIn hh 0 24 ∧
     (if hh = some 24 then OptIn mi 0 0 ∧ OptIn ss 0 0 else OptIn mi 0 59 ∧ OptIn ss 0 59)) := by
  unfold truncBoundsOk
  rw [truncMaxDoy_eq, truncMaxWeek_eq, monthsInYear_eq, daysInWeek_eq, hoursInDay_eq, minutesInHour_eq,
    secondsInMinute_eq]
  have ht : (if hh = some 24 then inRange mi 0 0 && inRange ss 0 0
      else inRangeUpper mi 0 60 && inRangeUpper ss 0 60) = true ↔
      (if hh = some 24 then OptIn mi 0 0 ∧ OptIn ss 0 0 else OptIn mi 0 59 ∧ OptIn ss 0 59) := by
    by_cases c : hh = some 24
    · rw [if_pos c, if_pos c, Bool.and_eq_true, inRange_iff, inRange_iff]
    · rw [if_neg c, if_neg c, Bool.and_eq_true, inRangeUpper_iff, inRangeUpper_iff]
      exact Iff.rfl
  simp only [Bool.and_eq_true, inRange_iff, ht]
  constructor
  · rintro ⟨⟨⟨⟨⟨⟨h1, h2⟩, h3⟩, h4⟩, h5⟩, h6⟩, h7⟩
    rw [truncMaxDom_eq m year month h1] at h2
    exact ⟨h1, h2, h4, h3, h5, h6, h7⟩
  · rintro ⟨h1, h2, h4, h3, h5, h6, h7⟩
    rw [← truncMaxDom_eq m year month h1] at h2
    exact ⟨⟨⟨⟨⟨⟨h1, h2⟩, h3⟩, h4⟩, h5⟩, h6⟩, h7⟩

/-! ### the zone arguments -/

theorem mkTZOpt_isSome_iff (m : Mode) (h mi : Option Int) : (mkTZOpt m h mi).isSome = true ↔ ZoneArgsOk h mi := by
  unfold mkTZOpt ZoneArgsOk
  rw [minutesInHour_eq]
  cases h with
  | none =>
    cases mi with
    | none => simp
    | some mv =>
      simp only
      by_cases c : mv < 1 - 60 ∨ mv > 60 - 1
      · rw [if_pos c]; simp; omega
      · rw [if_neg c]; simp; omega
  | some hv =>
    simp only
    by_cases c : hv < -99 ∨ hv > 99
    · rw [if_pos c]
      cases mi with
      | none => simp; omega
      | some mv => simp [TZ.Valid]; omega
    · rw [if_neg c]
      cases mi with
      | none => simp; omega
      | some mv =>
        simp only
        by_cases c2 : mv < (if hv > 0 then 0 else 1 - 60) ∨ mv > (if hv < 0 then 0 else 60 - 1)
        · rw [if_pos c2]
          simp only [Option.isSome_none, Bool.false_eq_true, TZ.Valid, false_iff]
          split at c2 <;> split at c2 <;> omega
        · rw [if_neg c2]
          simp only [Option.isSome_some, TZ.Valid, true_iff]
          split at c2 <;> split at c2 <;> omega

/-! ### the constructor, unpacked -/

/-- The conflict test of `__init__` (Python truthiness). -/
def conflict (a : TruncArgs) : Bool :=
  ((truthy a.month || truthy a.dom) && (truthy a.week || truthy a.dow)) ||
  ((truthy a.month || truthy a.dom) && a.doy.isSome) ||
  ((truthy a.week || truthy a.dow) && a.doy.isSome)

theorem mkTruncTP_eq (m : Mode) (a : TruncArgs) :
    mkTruncTP m a =
      match mkTZOpt m a.tzh a.tzm with
      | none => none
      | some tz =>
        if conflict a = true then none
        else if truncBoundsOk m a.year a.month a.dom a.doy a.week a.dow a.hh a.mi a.ss = true then
          some (fieldsOf a tz)
        else none := rfl

theorem mkTruncTP_some (m : Mode) (a : TruncArgs) (f : TruncFields) (h : mkTruncTP m a = some f) :
    ∃ tz, mkTZOpt m a.tzh a.tzm = some tz ∧ conflict a = false ∧
      truncBoundsOk m a.year a.month a.dom a.doy a.week a.dow a.hh a.mi a.ss = true ∧ f = fieldsOf a tz := by
  rw [mkTruncTP_eq] at h
  cases hz : mkTZOpt m a.tzh a.tzm with
  | none => rw [hz] at h; cases h
  | some tz =>
    rw [hz] at h
    simp only at h
    by_cases c : conflict a = true
    · rw [if_pos c] at h; cases h
    · rw [if_neg c] at h
      by_cases b : truncBoundsOk m a.year a.month a.dom a.doy a.week a.dow a.hh a.mi a.ss = true
      · rw [if_pos b] at h
        exact ⟨tz, rfl, by simpa using c, b, (Option.some.inj h).symm⟩
      · rw [if_neg b] at h; cases h

/-- With every given date field ≥ 1, Python truthiness is "is given": the conflict test is `oneRep`. -/
theorem conflict_eq_of_ranges (a : TruncArgs) (h1 h2 h3 h4 : Int) (g1 : OptIn a.month 1 h1)
    (g2 : OptIn a.dom 1 h2) (g3 : OptIn a.week 1 h3) (g4 : OptIn a.dow 1 h4) :
    conflict a = !(oneRep a) := by
  unfold conflict oneRep
  rw [truthy_of_optIn _ _ g1, truthy_of_optIn _ _ g2, truthy_of_optIn _ _ g3, truthy_of_optIn _ _ g4]
  cases a.month.isSome <;> cases a.dom.isSome <;> cases a.week.isSome <;> cases a.dow.isSome <;>
    cases a.doy.isSome <;> rfl

/-! ### more Spec facts -/

theorem weeksInYear_d360_le (y : Int) : Spec.weeksInYear .d360 y ≤ 52 := by
  have h1 := weekYearStart_bounds .d360 y
  have h2 := weekYearStart_bounds .d360 (y + 1)
  have h3 := dby_succ .d360 y
  have h5 := weekYearStart_succ .d360 y
  have h4 : Spec.yearLen .d360 y = 360 := by rw [yearLen_fixed]
  omega

theorem weeksInYear_le_max (m : Mode) (y : Int) : Spec.weeksInYear m y ≤ maxWeeks m := by
  cases m
  case d360 => exact weeksInYear_d360_le y
  all_goals exact (weeksInYear_bounds _ y).2

theorem yearLen_le_leap (m : Mode) (y : Int) : Spec.yearLen m y ≤ Spec.yearLenB m true := by
  unfold Spec.yearLen
  cases m <;> cases Spec.leap _ y <;> decide

theorem monthLenB_le_leap_fin : ∀ m ∈ Mode.all, ∀ lp : Bool, ∀ mo : Fin 13,
    Spec.monthLenB m lp mo.val ≤ Spec.monthLenB m true mo.val ∧ Spec.monthLenB m true mo.val ≤ maxDom m := by
  decide +kernel

theorem monthLenB_le_leap (m : Mode) (lp : Bool) (mo : Int) (h1 : 1 ≤ mo) (h2 : mo ≤ 12) :
    Spec.monthLenB m lp mo ≤ Spec.monthLenB m true mo ∧ Spec.monthLenB m true mo ≤ maxDom m :=
  forall_fin_int (P := fun mo => Spec.monthLenB m lp mo ≤ Spec.monthLenB m true mo ∧
      Spec.monthLenB m true mo ≤ maxDom m) 13
    (fun k => monthLenB_le_leap_fin m (mode_mem_all m) lp k) mo (by omega) (by omega)

/-- January is a longest month, in every mode and year. -/
theorem monthLen_jan (m : Mode) (y : Int) : Spec.monthLen m y 1 = maxDom m := by
  unfold Spec.monthLen
  cases m <;> cases Spec.leap _ y <;> decide

/-- Year 4 is a leap year where the mode has leap years: its months are those of the leap table. -/
theorem monthLen_four (m : Mode) (mo : Int) : Spec.monthLen m 4 mo = Spec.monthLenB m true mo := by
  cases m <;> rfl

theorem yearLen_four (m : Mode) : Spec.yearLen m 4 = Spec.yearLenB m true := by
  cases m <;> decide

/-- A year with the mode's maximal number of ISO weeks. -/
def longWeekYear : Mode → Int
  | .d365 => 3
  | _ => 4

theorem longWeekYear_spec (m : Mode) : 0 ≤ longWeekYear m ∧ Spec.weeksInYear m (longWeekYear m) = maxWeeks m := by
  cases m <;> decide +kernel

/-! ### 2800-year periodicity (400 for the Gregorian leap rule, 7 for the weekday in every fixed mode) -/

def period (m : Mode) : Int :=
  match m with
  | .greg => 1022679
  | .d360 => 1008000
  | .d365 => 1022000
  | .d366 => 1024800

theorem leap_periodic (m : Mode) (y k : Int) : Spec.leap m (y + 2800 * k) = Spec.leap m y := by
  cases m
  case greg =>
    show Spec.isLeapG (y + 2800 * k) = Spec.isLeapG y
    unfold Spec.isLeapG
    have h1 : (y + 2800 * k) % 4 = y % 4 := by omega
    have h2 : (y + 2800 * k) % 100 = y % 100 := by omega
    have h3 : (y + 2800 * k) % 400 = y % 400 := by omega
    rw [h1, h2, h3]
  all_goals rfl

theorem monthLen_periodic (m : Mode) (y k mo : Int) : Spec.monthLen m (y + 2800 * k) mo = Spec.monthLen m y mo := by
  unfold Spec.monthLen; rw [leap_periodic]

theorem yearLen_periodic (m : Mode) (y k : Int) : Spec.yearLen m (y + 2800 * k) = Spec.yearLen m y := by
  unfold Spec.yearLen; rw [leap_periodic]

theorem dby_periodic (m : Mode) (y k : Int) : Spec.dby m (y + 2800 * k) = Spec.dby m y + period m * k := by
  cases m <;> simp only [Spec.dby, period] <;> omega

theorem weekYearStart_periodic (m : Mode) (y k : Int) :
    Spec.weekYearStart m (y + 2800 * k) = Spec.weekYearStart m y + period m * k := by
  have h := dby_periodic m y k
  unfold Spec.weekYearStart Spec.weekday Spec.dayNumOrd
  rw [h]
  cases m <;> simp only [period] <;> omega

theorem weeksInYear_periodic (m : Mode) (y k : Int) :
    Spec.weeksInYear m (y + 2800 * k) = Spec.weeksInYear m y := by
  unfold Spec.weeksInYear
  have e : y + 2800 * k + 1 = (y + 1) + 2800 * k := by omega
  rw [e, weekYearStart_periodic, weekYearStart_periodic]
  congr 1; omega

/-- Every year — negative ones included — has a non-negative twin with the same last two digits (hence
    the same last digit) and the same calendar: month lengths, year length, number of ISO weeks. -/
theorem nonneg_twin (m : Mode) (y : Int) :
    ∃ Y : Int, 0 ≤ Y ∧ Y % 100 = y % 100 ∧ Y % 10 = y % 10 ∧
      (∀ mo, Spec.monthLen m Y mo = Spec.monthLen m y mo) ∧ Spec.yearLen m Y = Spec.yearLen m y ∧
      Spec.weeksInYear m Y = Spec.weeksInYear m y := by
  exact ⟨y + 2800 * (-(y / 2800)), by omega, by omega, by omega,
    fun mo => monthLen_periodic m y _ mo, yearLen_periodic m y _, weeksInYear_periodic m y _⟩

end IsoDT.Lemmas.ConstructTrunc
