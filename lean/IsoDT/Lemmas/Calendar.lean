/-
  IsoDT.Lemmas.Calendar — the year-level arithmetic: the code-shaped helpers of
  `Model.Calendar` equal the Spec closed forms for every year in `Int`.
-/
import IsoDT.Lemmas.Tables

namespace IsoDT.Lemmas
open IsoDT IsoDT.Model

/-! ### leap years and year lengths -/

theorem isLeapYear_eq (y : Int) : isLeapYear y = Spec.isLeapG y := by
  unfold isLeapYear Spec.isLeapG
  rw [gen_leapFactors]
  simp only [List.foldl]
  by_cases h4 : y % 4 = 0 <;> by_cases h100 : y % 100 = 0 <;> by_cases h400 : y % 400 = 0 <;>
    simp [h4, h100, h400] <;> omega

theorem yearLen_greg (y : Int) : Spec.yearLen .greg y = if Spec.isLeapG y then 366 else 365 := by
  show Spec.yearLenB .greg (Spec.isLeapG y) = _
  generalize Spec.isLeapG y = b
  cases b <;> decide

theorem yearLen_fixed (m : Mode) (y : Int) :
    Spec.yearLen m y = match m with
      | .greg => (if Spec.isLeapG y then 366 else 365) | .d360 => 360 | .d365 => 365 | .d366 => 366 := by
  cases m
  · exact yearLen_greg y
  · show Spec.yearLenB .d360 false = 360; decide
  · show Spec.yearLenB .d365 false = 365; decide
  · show Spec.yearLenB .d366 true = 366; decide

theorem yearLen_bounds (m : Mode) (y : Int) : 360 ≤ Spec.yearLen m y ∧ Spec.yearLen m y ≤ 366 :=
  yearLenB_bounds m _

theorem daysInYear_eq (m : Mode) (y : Int) : daysInYear m y = Spec.yearLen m y := by
  unfold daysInYear
  rw [isLeapYear_eq, (daysInYearRec_eq m).1, (daysInYearRec_eq m).2]
  cases m <;> cases h : Spec.isLeapG y <;> simp [Spec.yearLen, Spec.leap, h, yearLenB_vals]

/-- The month table the code picks for year `y` (by the Gregorian flag, in every mode) is the
    Spec's table for that year. -/
theorem monthTab_leapYear (m : Mode) (y : Int) :
    Spec.monthTab m (isLeapYear y) = Spec.monthTab m (Spec.leap m y) := by
  rw [isLeapYear_eq]
  cases m <;> simp [Spec.leap, Spec.monthTab]

theorem monthLenB_leapYear (m : Mode) (y mo : Int) :
    Spec.monthLenB m (isLeapYear y) mo = Spec.monthLen m y mo := by
  unfold Spec.monthLen Spec.monthLenB; rw [monthTab_leapYear]

theorem dbmB_leapYear (m : Mode) (y mo : Int) :
    Spec.dbmB m (isLeapYear y) mo = Spec.dbm m y mo := by
  unfold Spec.dbm Spec.dbmB; rw [monthTab_leapYear]

theorem yearLenB_leapYear (m : Mode) (y : Int) :
    Spec.yearLenB m (isLeapYear y) = Spec.yearLen m y := by
  unfold Spec.yearLen Spec.yearLenB; rw [monthTab_leapYear]

theorem daysInMonth_eq (m : Mode) (y mo : Int) (h1 : 1 ≤ mo) (h2 : mo ≤ 12) :
    daysInMonth m y mo = Spec.monthLen m y mo := by
  unfold daysInMonth daysInMonthB
  rw [table_eq, ← monthLenB_leapYear]
  unfold Spec.monthLenB
  simp [h1]

/-! ### days before a year -/

theorem dby_succ (m : Mode) (y : Int) : Spec.dby m (y + 1) = Spec.dby m y + Spec.yearLen m y := by
  rw [yearLen_fixed]
  cases m
  · unfold Spec.dby Spec.isLeapG
    by_cases h4 : y % 4 = 0 <;> by_cases h100 : y % 100 = 0 <;> by_cases h400 : y % 400 = 0 <;>
      simp [h4, h100, h400] <;> omega
  all_goals (simp only [Spec.dby]; omega)

theorem dby_mono (m : Mode) (a b : Int) (h : a ≤ b) :
    Spec.dby m a + 360 * (b - a) ≤ Spec.dby m b ∧ Spec.dby m b ≤ Spec.dby m a + 366 * (b - a) := by
  cases m <;> simp only [Spec.dby] <;> omega

/-! ### `_get_days_in_year_range` -/

theorem firstMult4 : ∀ r e s : Int, (s + 1 ≤ r ∧ r ≤ e ∧ (r - 1) / 4 = s / 4) →
    let q := firstMult 4 r e
    s + 1 ≤ q ∧ q ≤ e ∧ (q - 1) / 4 = s / 4 ∧ (q % 4 = 0 ∨ q = e) := by
  intro r e s
  induction r using firstMult.induct (k := 4) (e := e) with
  | case1 r h ih =>
    intro hinv
    rw [firstMult]; simp only [h, and_self, ↓reduceIte, ne_eq, not_false_eq_true]
    apply ih; omega
  | case2 r h =>
    intro hinv
    rw [firstMult]; simp only [h, ↓reduceIte]
    omega

theorem firstMult100 : ∀ r e s : Int, (s + 1 ≤ r ∧ r ≤ e ∧ (r - 1) / 100 = s / 100) →
    let q := firstMult 100 r e
    s + 1 ≤ q ∧ q ≤ e ∧ (q - 1) / 100 = s / 100 ∧ (q % 100 = 0 ∨ q = e) := by
  intro r e s
  induction r using firstMult.induct (k := 100) (e := e) with
  | case1 r h ih =>
    intro hinv
    rw [firstMult]; simp only [h, and_self, ↓reduceIte, ne_eq, not_false_eq_true]
    apply ih; omega
  | case2 r h =>
    intro hinv
    rw [firstMult]; simp only [h, ↓reduceIte]
    omega

theorem firstMult400 : ∀ r e s : Int, (s + 1 ≤ r ∧ r ≤ e ∧ (r - 1) / 400 = s / 400) →
    let q := firstMult 400 r e
    s + 1 ≤ q ∧ q ≤ e ∧ (q - 1) / 400 = s / 400 ∧ (q % 400 = 0 ∨ q = e) := by
  intro r e s
  induction r using firstMult.induct (k := 400) (e := e) with
  | case1 r h ih =>
    intro hinv
    rw [firstMult]; simp only [h, and_self, ↓reduceIte, ne_eq, not_false_eq_true]
    apply ih; omega
  | case2 r h =>
    intro hinv
    rw [firstMult]; simp only [h, ↓reduceIte]
    omega

theorem numCorr4 (s e : Int) (h : s < e) : numCorr 4 s e = e / 4 - (s - 1) / 4 := by
  have := firstMult4 (s + 1) e s (by omega)
  simp only at this
  unfold numCorr; simp only
  split <;> split <;> split <;> omega

theorem numCorr100 (s e : Int) (h : s < e) : numCorr 100 s e = e / 100 - (s - 1) / 100 := by
  have := firstMult100 (s + 1) e s (by omega)
  simp only at this
  unfold numCorr; simp only
  split <;> split <;> split <;> omega

theorem numCorr400 (s e : Int) (h : s < e) : numCorr 400 s e = e / 400 - (s - 1) / 400 := by
  have := firstMult400 (s + 1) e s (by omega)
  simp only at this
  unfold numCorr; simp only
  split <;> split <;> split <;> omega

/-- `get_days_in_year_range(s, e)` is the number of days in the years `s..e` (0 if `s > e`). -/
theorem daysInYearRange_eq (m : Mode) (s e : Int) :
    daysInYearRange m s e = if s ≤ e then Spec.dby m (e + 1) - Spec.dby m s else 0 := by
  unfold daysInYearRange
  by_cases h1 : s = e
  · subst h1; simp [dby_succ, daysInYear_eq]; omega
  · by_cases h2 : s > e
    · have : ¬ s ≤ e := by omega
      simp [h1, h2, this]
    · have hlt : s < e := by omega
      have hle : s ≤ e := by omega
      simp only [h1, h2, hle, ↓reduceIte, gen_leapFactors, List.foldl,
        (daysInYearRec_eq m).1, (daysInYearRec_eq m).2, yearLenB_vals,
        numCorr4 s e hlt, numCorr100 s e hlt, numCorr400 s e hlt]
      cases m <;> simp only [Spec.dby, Bool.false_eq_true, ↓reduceIte, Int.reduceSub, Int.mul_one,
        Int.mul_zero, Int.add_zero, Int.sub_zero] <;> omega

/-- `sum(get_days_in_year(i) for i in range(a, b))`. -/
theorem sumYears_eq (m : Mode) (a b : Int) (h : a ≤ b) : sumYears m a b = Spec.dby m b - Spec.dby m a := by
  induction a using sumYears.induct (b := b) with
  | case1 a hlt ih =>
    rw [sumYears]; simp only [hlt, ↓reduceIte]
    rw [ih (by omega), daysInYear_eq, dby_succ]; omega
  | case2 a hge =>
    rw [sumYears]; simp only [hge, ↓reduceIte]
    have : a = b := by omega
    subst this; omega

end IsoDT.Lemmas
