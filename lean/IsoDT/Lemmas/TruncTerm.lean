/-
  IsoDT.Lemmas.TruncTerm — the day-of-year and week loops of `add_truncated` terminate within
  their fuel: a year long enough for the target day (a leap year within 7 years) and a week-year
  with the target week (a 53-week year within 7 years; 52 weeks within 3 in the 360-day calendar)
  always come soon enough.  The recurrence facts are 400-year (7-year) periodicity plus a kernel-
  evaluated table over one period.
-/
import IsoDT.Lemmas.Trunc

namespace IsoDT.Lemmas
open IsoDT IsoDT.Model
open IsoDT.Spec (Date TZ TP)

/-! ### after `j` day steps the date is the valid date `j` days later -/

theorem day_steps_dayNum (m : Mode) (p x : TP) (hp : p.Strict m) (hx : x.Strict m) (htz : x.tz = p.tz)
    (j : Nat) (hi : x.inst m = p.inst m + (j : Int) * 86400) :
    x.date.dayNum m = p.date.dayNum m + (j : Int) ∧ x.hh = p.hh ∧ x.mi = p.mi ∧ x.ss = p.ss := by
  have a := strict_fields m p hp
  have b := strict_fields m x hx
  have := inst_fields m p x htz _ hi
  omega

/-! ### leap years come within 7 years of any common year (Gregorian) -/

theorem isLeapG_periodic (y q : Int) : Spec.isLeapG (y + 400 * q) = Spec.isLeapG y := by
  unfold Spec.isLeapG
  have h1 : (y + 400 * q) % 4 = y % 4 := by omega
  have h2 : (y + 400 * q) % 100 = y % 100 := by omega
  have h3 : (y + 400 * q) % 400 = y % 400 := by omega
  rw [h1, h2, h3]

theorem leap_table : ∀ r : Fin 400, Spec.isLeapG (r.val : Int) = true ∨
    ∃ i : Fin 8, 1 ≤ i.val ∧ Spec.isLeapG ((r.val : Int) + (i.val : Int)) = true := by
  decide +kernel

theorem leap_within_7 (y : Int) : Spec.isLeapG y = true ∨
    ∃ i : Int, 1 ≤ i ∧ i ≤ 7 ∧ Spec.isLeapG (y + i) = true := by
  have hr : 0 ≤ y % 400 ∧ y % 400 < 400 := by omega
  have hy : y = y % 400 + 400 * (y / 400) := by omega
  have key := leap_table ⟨(y % 400).toNat, by omega⟩
  have e : (((y % 400).toNat : Nat) : Int) = y % 400 := by omega
  simp only [e] at key
  rcases key with h | ⟨i, hi1, hi2⟩
  · left; rw [hy, isLeapG_periodic]; exact h
  · right
    refine ⟨(i.val : Int), by omega, by have := i.isLt; omega, ?_⟩
    have : y + (i.val : Int) = (y % 400 + (i.val : Int)) + 400 * (y / 400) := by omega
    rw [this, isLeapG_periodic]; exact hi2

/-- For every target day-of-year legal for the mode, a year that has that day starts within 7
    years: `t ≤ 365` (360, 366 in the fixed calendars) fits every year, 366 fits the next leap year. -/
theorem year_with_day (m : Mode) (y t : Int) (ht1 : 1 ≤ t) (ht2 : t ≤ Spec.yearLenB m true) :
    ∃ i : Int, 0 ≤ i ∧ i ≤ 7 ∧ t ≤ Spec.yearLen m (y + i) ∧ (i = 0 ∨ ∀ k, 0 ≤ k → k < i → True) := by
  cases m with
  | greg =>
    have hb : Spec.yearLenB .greg true = 366 := by decide
    rw [hb] at ht2
    by_cases c : t ≤ 365
    · refine ⟨0, by omega, by omega, ?_, Or.inl rfl⟩
      rw [Int.add_zero, yearLen_greg]; split <;> omega
    · rcases leap_within_7 y with h | ⟨i, h1, h2, h3⟩
      · refine ⟨0, by omega, by omega, ?_, Or.inl rfl⟩
        rw [Int.add_zero, yearLen_greg, h]; simp; omega
      · refine ⟨i, by omega, h2, ?_, Or.inr (fun _ _ _ => trivial)⟩
        rw [yearLen_greg, h3]; simp; omega
  | d360 =>
    refine ⟨0, by omega, by omega, ?_, Or.inl rfl⟩
    have h1 : Spec.yearLen .d360 (y + 0) = 360 := by rw [yearLen_fixed]
    have h2 : Spec.yearLenB .d360 true = 360 := by decide
    rw [h1]; rw [h2] at ht2; exact ht2
  | d365 =>
    refine ⟨0, by omega, by omega, ?_, Or.inl rfl⟩
    have h1 : Spec.yearLen .d365 (y + 0) = 365 := by rw [yearLen_fixed]
    have h2 : Spec.yearLenB .d365 true = 365 := by decide
    rw [h1]; rw [h2] at ht2; exact ht2
  | d366 =>
    refine ⟨0, by omega, by omega, ?_, Or.inl rfl⟩
    have h1 : Spec.yearLen .d366 (y + 0) = 366 := by rw [yearLen_fixed]
    have h2 : Spec.yearLenB .d366 true = 366 := by decide
    rw [h1]; rw [h2] at ht2; exact ht2

/-- **The day-of-year loop terminates** within its fuel from any strict ordinal-date point, for
    every target legal in the mode (up to 366 where the mode has leap years). -/
theorem loop_doy_terminates (m : Mode) (p : TP) (hp : p.Strict m) (hk : p.date.rep = 1) (t : Int)
    (ht1 : 1 ≤ t) (ht2 : t ≤ Spec.yearLenB m true) :
    ∃ q, loopField m getDoy (fun q => { q with date := bumpDay q.date 1 }) t fuelDoy p = some q := by
  obtain ⟨y, n, e⟩ := rep1_ord p.date hk
  have hv : Spec.ValidOrd m y n := by have := hp.1.1; rw [e] at this; exact this
  -- a target date (Y, t) not before p's date, at most 7 years + 1 year away
  have target : ∃ (Y : Int) (j : Nat), Spec.ValidOrd m Y t ∧
      Spec.dayNumOrd m Y t = Spec.dayNumOrd m y n + (j : Int) ∧ j ≤ fuelDoy := by
    have hl := yearLen_bounds m y
    have hb := yearLenB_bounds m true
    have hs := dby_succ m y
    have hn1 := hv.1
    have hn2 := hv.2
    by_cases c1 : t ≤ Spec.yearLen m y
    · by_cases c2 : n ≤ t
      · -- later this year
        refine ⟨y, (t - n).toNat, ⟨ht1, c1⟩, ?_, ?_⟩
        · unfold Spec.dayNumOrd; omega
        · unfold fuelDoy; omega
      · -- already past it this year: t < n ≤ 366, so t fits next year whatever its length
        have hl1 := yearLen_bounds m (y + 1)
        have hfit : t ≤ Spec.yearLen m (y + 1) := by
          cases m
          · rw [yearLen_greg]; split <;> omega
          all_goals (rw [yearLen_fixed] at hn2 ⊢; simp only at hn2 ⊢; omega)
        refine ⟨y + 1, (Spec.dby m (y + 1) + t - 1 - (Spec.dby m y + n - 1)).toNat, ⟨ht1, hfit⟩, ?_, ?_⟩
        · unfold Spec.dayNumOrd; omega
        · unfold fuelDoy; omega
    · -- the year is too short for t: the next year long enough starts within 7 years
      obtain ⟨i, i0, i7, hlen, _⟩ := year_with_day m y t ht1 ht2
      have hi1 : 1 ≤ i := by
        by_cases h : 0 < i
        · omega
        · have : i = 0 := by omega
          subst this; rw [Int.add_zero] at hlen; omega
      have hm := dby_mono m y (y + i) (by omega)
      refine ⟨y + i, (Spec.dby m (y + i) + t - 1 - (Spec.dby m y + n - 1)).toNat, ⟨ht1, hlen⟩, ?_, ?_⟩
      · unfold Spec.dayNumOrd; omega
      · unfold fuelDoy; omega
  obtain ⟨Y, j, tv, tn, tj⟩ := target
  obtain ⟨x, hx, xs, xi, xt, xr⟩ := stepsFrom_spec m _ 86400 1 (stepOK_day m 1) j p hp hk
  refine loopField_some m getDoy _ t fuelDoy p j x tj hx ?_
  obtain ⟨y', n', e'⟩ := rep1_ord x.date (by rw [xr, hk])
  have hv' : Spec.ValidOrd m y' n' := by have := xs.1.1; rw [e'] at this; exact this
  have hd := (day_steps_dayNum m p x hp xs xt j xi).1
  rw [e, e'] at hd
  simp only [Date.dayNum] at hd
  have := ord_unique m y' n' Y t hv' tv (by rw [hd, tn])
  unfold getDoy; rw [e']; exact this.2

/-! ### week-years with the largest week number come within 7 years -/

theorem dby_periodic_greg (y q : Int) : Spec.dby .greg (y + 400 * q) = Spec.dby .greg y + 146097 * q := by
  simp only [Spec.dby]
  have h1 : (y + 400 * q - 1) / 4 = (y - 1) / 4 + 100 * q := by omega
  have h2 : (y + 400 * q - 1) / 100 = (y - 1) / 100 + 4 * q := by omega
  have h3 : (y + 400 * q - 1) / 400 = (y - 1) / 400 + q := by omega
  rw [h1, h2, h3]; omega

theorem wys_periodic_greg (y q : Int) :
    Spec.weekYearStart .greg (y + 400 * q) = Spec.weekYearStart .greg y + 146097 * q := by
  unfold Spec.weekYearStart Spec.weekday Spec.dayNumOrd
  rw [dby_periodic_greg]
  omega

theorem wiy_periodic_greg (y q : Int) : Spec.weeksInYear .greg (y + 400 * q) = Spec.weeksInYear .greg y := by
  unfold Spec.weeksInYear
  have e : y + 400 * q + 1 = (y + 1) + 400 * q := by omega
  rw [e, wys_periodic_greg, wys_periodic_greg]
  congr 1; omega

theorem wiy_periodic_fixed (m : Mode) (hm : m ≠ .greg) (y q : Int) :
    Spec.weeksInYear m (y + 7 * q) = Spec.weeksInYear m y := by
  have hw : ∀ z : Int, ∃ c : Int, Spec.weekYearStart m (z + 7 * q) = Spec.weekYearStart m z + 7 * c * q ∧
      c = (match m with | .d360 => 360 | .d365 => 365 | _ => 366) := by
    intro z
    cases m with
    | greg => exact absurd rfl hm
    | d360 => exact ⟨360, by unfold Spec.weekYearStart Spec.weekday Spec.dayNumOrd; simp only [Spec.dby]; omega, rfl⟩
    | d365 => exact ⟨365, by unfold Spec.weekYearStart Spec.weekday Spec.dayNumOrd; simp only [Spec.dby]; omega, rfl⟩
    | d366 => exact ⟨366, by unfold Spec.weekYearStart Spec.weekday Spec.dayNumOrd; simp only [Spec.dby]; omega, rfl⟩
  unfold Spec.weeksInYear
  have e : y + 7 * q + 1 = (y + 1) + 7 * q := by omega
  obtain ⟨c1, h1, e1⟩ := hw (y + 1)
  obtain ⟨c2, h2, e2⟩ := hw y
  rw [e, h1, h2, e1, e2]
  congr 1; omega

/-- The largest week number a truncated week designator may carry in mode `m`. -/
def maxW (m : Mode) : Int := match m with | .d360 => 52 | _ => 53

theorem maxW_eq (m : Mode) : (calOf m).maxWeeksInYear = maxW m := by cases m <;> decide

theorem long_table_greg : ∀ r : Fin 400, ∃ i : Fin 8, 53 ≤ Spec.weeksInYear .greg ((r.val : Int) + (i.val : Int)) := by
  decide +kernel
theorem long_table_360 : ∀ r : Fin 7, ∃ i : Fin 8, 52 ≤ Spec.weeksInYear .d360 ((r.val : Int) + (i.val : Int)) := by
  decide +kernel
theorem long_table_365 : ∀ r : Fin 7, ∃ i : Fin 8, 53 ≤ Spec.weeksInYear .d365 ((r.val : Int) + (i.val : Int)) := by
  decide +kernel
theorem long_table_366 : ∀ r : Fin 7, ∃ i : Fin 8, 53 ≤ Spec.weeksInYear .d366 ((r.val : Int) + (i.val : Int)) := by
  decide +kernel

/-- From any year, a week-year with the mode's largest week number starts within 7 years. -/
theorem long_week_year (m : Mode) (y : Int) :
    ∃ i : Int, 0 ≤ i ∧ i ≤ 7 ∧ maxW m ≤ Spec.weeksInYear m (y + i) := by
  cases m with
  | greg =>
    have hr : 0 ≤ y % 400 ∧ y % 400 < 400 := by omega
    obtain ⟨i, hi⟩ := long_table_greg ⟨(y % 400).toNat, by omega⟩
    have e : (((y % 400).toNat : Nat) : Int) = y % 400 := by omega
    simp only [e] at hi
    refine ⟨(i.val : Int), by omega, by have := i.isLt; omega, ?_⟩
    have : y + (i.val : Int) = (y % 400 + (i.val : Int)) + 400 * (y / 400) := by omega
    rw [this, wiy_periodic_greg]; exact hi
  | d360 =>
    have hr : 0 ≤ y % 7 ∧ y % 7 < 7 := by omega
    obtain ⟨i, hi⟩ := long_table_360 ⟨(y % 7).toNat, by omega⟩
    have e : (((y % 7).toNat : Nat) : Int) = y % 7 := by omega
    simp only [e] at hi
    refine ⟨(i.val : Int), by omega, by have := i.isLt; omega, ?_⟩
    have : y + (i.val : Int) = (y % 7 + (i.val : Int)) + 7 * (y / 7) := by omega
    rw [this, wiy_periodic_fixed _ (by decide)]; exact hi
  | d365 =>
    have hr : 0 ≤ y % 7 ∧ y % 7 < 7 := by omega
    obtain ⟨i, hi⟩ := long_table_365 ⟨(y % 7).toNat, by omega⟩
    have e : (((y % 7).toNat : Nat) : Int) = y % 7 := by omega
    simp only [e] at hi
    refine ⟨(i.val : Int), by omega, by have := i.isLt; omega, ?_⟩
    have : y + (i.val : Int) = (y % 7 + (i.val : Int)) + 7 * (y / 7) := by omega
    rw [this, wiy_periodic_fixed _ (by decide)]; exact hi
  | d366 =>
    have hr : 0 ≤ y % 7 ∧ y % 7 < 7 := by omega
    obtain ⟨i, hi⟩ := long_table_366 ⟨(y % 7).toNat, by omega⟩
    have e : (((y % 7).toNat : Nat) : Int) = y % 7 := by omega
    simp only [e] at hi
    refine ⟨(i.val : Int), by omega, by have := i.isLt; omega, ?_⟩
    have : y + (i.val : Int) = (y % 7 + (i.val : Int)) + 7 * (y / 7) := by omega
    rw [this, wiy_periodic_fixed _ (by decide)]; exact hi

/-- Every week-year has at least `maxW m - 1` weeks. -/
theorem weeksInYear_ge (m : Mode) (y : Int) : maxW m - 1 ≤ Spec.weeksInYear m y := by
  cases m with
  | d360 => have := weeksInYear_bounds .d360 y; simp only [maxW]; omega
  | greg => have := weeksInYear_bounds_long .greg (by decide) y; simp only [maxW]; omega
  | d365 => have := weeksInYear_bounds_long .d365 (by decide) y; simp only [maxW]; omega
  | d366 => have := weeksInYear_bounds_long .d366 (by decide) y; simp only [maxW]; omega

theorem weeksInYear_le_maxW (m : Mode) (y : Int) : Spec.weeksInYear m y ≤ maxW m := by
  cases m with
  | d360 =>
    have h1 := weekYearStart_bounds .d360 y
    have h2 := weekYearStart_bounds .d360 (y + 1)
    have h3 := dby_succ .d360 y
    have h4 : Spec.yearLen .d360 y = 360 := by rw [yearLen_fixed]
    have h5 := weekYearStart_succ .d360 y
    simp only [maxW]; omega
  | greg => have := weeksInYear_bounds .greg y; simp only [maxW]; omega
  | d365 => have := weeksInYear_bounds .d365 y; simp only [maxW]; omega
  | d366 => have := weeksInYear_bounds .d366 y; simp only [maxW]; omega

theorem week_steps_dayNum (m : Mode) (p x : TP) (hp : p.Strict m) (hx : x.Strict m) (htz : x.tz = p.tz)
    (j : Nat) (hi : x.inst m = p.inst m + (j : Int) * 604800) :
    x.date.dayNum m = p.date.dayNum m + 7 * (j : Int) := by
  have a := strict_fields m p hp
  have b := strict_fields m x hx
  have := inst_fields m p x htz _ hi
  omega

/-- **The week loop terminates** within its fuel from any strict week-date point, for every target
    week number legal in the mode (53; 52 in the 360-day calendar). -/
theorem loop_week_terminates (m : Mode) (p : TP) (hp : p.Strict m) (hk : p.date.rep = 2) (t : Int)
    (ht1 : 1 ≤ t) (ht2 : t ≤ maxW m) :
    ∃ q, loopField m getWeek bumpWeek t fuelWeek p = some q := by
  obtain ⟨y, w0, d, e⟩ := rep2_week p.date hk
  have hv : Spec.ValidWeek m y w0 d := by have := hp.1.1; rw [e] at this; exact this
  obtain ⟨v1, v2, v3, v4⟩ := hv
  have hwb := weeksInYear_bounds m y
  have target : ∃ (Y : Int) (j : Nat), Spec.ValidWeek m Y t d ∧
      Spec.dayNumWeek m Y t d = Spec.dayNumWeek m y w0 d + 7 * (j : Int) ∧ j ≤ fuelWeek := by
    have hs := weekYearStart_succ m y
    by_cases c1 : t ≤ Spec.weeksInYear m y
    · by_cases c2 : w0 ≤ t
      · refine ⟨y, (t - w0).toNat, ⟨ht1, c1, v3, v4⟩, ?_, ?_⟩
        · unfold Spec.dayNumWeek; omega
        · unfold fuelWeek; omega
      · -- t < w0 ≤ weeksInYear y ≤ maxW: t fits every week-year
        have hfit : t ≤ Spec.weeksInYear m (y + 1) := by
          have := weeksInYear_ge m (y + 1)
          have hmx := weeksInYear_le_maxW m y
          omega
        refine ⟨y + 1, (Spec.weeksInYear m y + t - w0).toNat, ⟨ht1, hfit, v3, v4⟩, ?_, ?_⟩
        · unfold Spec.dayNumWeek; omega
        · unfold fuelWeek; omega
    · obtain ⟨i, i0, i7, hlong⟩ := long_week_year m y
      have hi1 : 1 ≤ i := by
        by_cases h : 0 < i
        · omega
        · have : i = 0 := by omega
          subst this; rw [Int.add_zero] at hlong; omega
      have hm1 := weekYearStart_mod m y
      have hm2 := weekYearStart_mod m (y + i)
      have hb1 := weekYearStart_bounds m y
      have hb2 := weekYearStart_bounds m (y + i)
      have hdm := dby_mono m y (y + i) (by omega)
      refine ⟨y + i, ((Spec.weekYearStart m (y + i) - Spec.weekYearStart m y) / 7 + t - w0).toNat,
        ⟨ht1, by omega, v3, v4⟩, ?_, ?_⟩
      · unfold Spec.dayNumWeek
        have hdiv : (Spec.weekYearStart m (y + i) - Spec.weekYearStart m y) % 7 = 0 := by omega
        have hpos : 0 ≤ Spec.weekYearStart m (y + i) - Spec.weekYearStart m y := by omega
        have hmx := weeksInYear_le_maxW m y
        omega
      · have hmx := weeksInYear_le_maxW m y
        have hM : maxW m ≤ 53 := by cases m <;> simp [maxW]
        unfold fuelWeek; omega
  obtain ⟨Y, j, tv, tn, tj⟩ := target
  obtain ⟨x, hx, xs, xi, xt, xr⟩ := stepsFrom_spec m _ 604800 2 (stepOK_week m) j p hp hk
  refine loopField_some m getWeek _ t fuelWeek p j x tj hx ?_
  obtain ⟨y', w', d', e'⟩ := rep2_week x.date (by rw [xr, hk])
  have hv' : Spec.ValidWeek m y' w' d' := by have := xs.1.1; rw [e'] at this; exact this
  have hd := week_steps_dayNum m p x hp xs xt j xi
  rw [e, e'] at hd
  simp only [Date.dayNum] at hd
  have := week_unique m y' w' d' Y t d hv' tv (by rw [hd, tn])
  unfold getWeek; rw [e']; exact this.2.1

/-! ### a month long enough for the target day comes within two months -/

/-- The largest day-of-month a truncated day designator may carry in mode `m`. -/
def maxDom (m : Mode) : Int := match m with | .d360 => 30 | _ => 31

theorem maxDom_eq (m : Mode) : (calOf m).maxDaysInMonth = maxDom m := by cases m <;> decide

def nextMonth (y mo : Int) : Int × Int := if mo = 12 then (y + 1, 1) else (y, mo + 1)

/-- Of two consecutive months at least one has the maximal length (whatever the leap flags). -/
theorem consecutive_months_fin : ∀ m ∈ Mode.all, ∀ lp lp' : Bool, ∀ mo : Fin 13, 1 ≤ mo.val →
    Spec.monthLenB m lp mo.val = maxDom m ∨
    Spec.monthLenB m lp' (if mo.val = 12 then 1 else (mo.val : Int) + 1) = maxDom m := by
  decide +kernel

theorem consecutive_months (m : Mode) (y mo : Int) (h1 : 1 ≤ mo) (h2 : mo ≤ 12) :
    Spec.monthLen m y mo = maxDom m ∨
    Spec.monthLen m (nextMonth y mo).1 (nextMonth y mo).2 = maxDom m := by
  unfold Spec.monthLen nextMonth
  have key := forall_fin_int (P := fun mo => 1 ≤ mo →
      Spec.monthLenB m (Spec.leap m y) mo = maxDom m ∨
      Spec.monthLenB m (Spec.leap m (if mo = 12 then y + 1 else y)) (if mo = 12 then 1 else mo + 1) = maxDom m)
    13 ?_ mo (by omega) (by omega) h1
  · by_cases c : mo = 12
    · simp only [c, ↓reduceIte] at key ⊢; exact key
    · simp only [c, ↓reduceIte] at key ⊢; exact key
  · intro k hk
    have := consecutive_months_fin m (mode_mem_all m) (Spec.leap m y)
      (Spec.leap m (if (k.val : Int) = 12 then y + 1 else y)) k (by omega)
    have e : ((k.val : Int) = 12) ↔ (k.val = 12) := by omega
    by_cases c : k.val = 12
    · have c' : (k.val : Int) = 12 := by omega
      simp only [c, c', ↓reduceIte] at this ⊢; exact this
    · have c' : ¬ (k.val : Int) = 12 := by omega
      simp only [c, c', ↓reduceIte] at this ⊢; exact this

theorem monthLen_le_maxDom (m : Mode) (y mo : Int) (h1 : 1 ≤ mo) (h2 : mo ≤ 12) :
    Spec.monthLen m y mo ≤ maxDom m := by
  have := monthLen_bounds m y mo h1 h2
  cases m with
  | d360 =>
    have : Spec.monthLenB .d360 (Spec.leap .d360 y) mo = 30 := by
      refine forall_fin_int (P := fun mo => 1 ≤ mo → Spec.monthLenB .d360 (Spec.leap .d360 y) mo = 30) 13 ?_ mo
        (by omega) (by omega) h1
      intro k hk
      have : ∀ lp : Bool, ∀ k : Fin 13, 1 ≤ k.val → Spec.monthLenB .d360 lp k.val = 30 := by decide +kernel
      exact this _ k (by omega)
    unfold Spec.monthLen; rw [this]; simp [maxDom]
  | greg => simp only [maxDom]; omega
  | d365 => simp only [maxDom]; omega
  | d366 => simp only [maxDom]; omega

/-- First of the next month = first of this month + this month's length. -/
theorem nextMonth_dayNum (m : Mode) (y mo : Int) (h1 : 1 ≤ mo) (h2 : mo ≤ 12) :
    Spec.dayNumCal m (nextMonth y mo).1 (nextMonth y mo).2 1 =
      Spec.dayNumCal m y mo 1 + Spec.monthLen m y mo ∧
    1 ≤ (nextMonth y mo).2 ∧ (nextMonth y mo).2 ≤ 12 := by
  unfold nextMonth
  by_cases c : mo = 12
  · subst c
    simp only [↓reduceIte]
    have h3 := dby_succ m y
    have h4 := dbmB_twelve m (Spec.leap m y)
    have h5 := dbmB_one m (Spec.leap m (y + 1))
    unfold Spec.dayNumCal Spec.dbm Spec.monthLen Spec.yearLen at *
    omega
  · simp only [c, ↓reduceIte]
    have := dbmB_succ m (Spec.leap m y) mo h1 (by omega)
    unfold Spec.dayNumCal Spec.dbm Spec.monthLen at *
    omega

theorem rep0_cal'' (d : Date) (h : d.rep = 0) : ∃ y mo dd, d = .cal y mo dd := rep0_cal d h

/-- **The day-of-month loop terminates** within its fuel from any strict calendar-date point, for
    every target day legal in the mode (up to 31; 30 in the 360-day calendar). -/
theorem loop_dom_terminates (m : Mode) (p : TP) (hp : p.Strict m) (hk : p.date.rep = 0) (t : Int)
    (ht1 : 1 ≤ t) (ht2 : t ≤ maxDom m) :
    ∃ q, loopField m getDom (fun q => { q with date := bumpDay q.date 1 }) t fuelDom p = some q := by
  obtain ⟨y, mo, d, e⟩ := rep0_cal p.date hk
  have hv : Spec.ValidCal m y mo d := by have := hp.1.1; rw [e] at this; exact this
  obtain ⟨v1, v2, v3, v4⟩ := hv
  have hl0 := monthLen_bounds m y mo v1 v2
  have hM : maxDom m ≤ 31 := by cases m <;> simp [maxDom]
  have target : ∃ (Y M : Int) (j : Nat), Spec.ValidCal m Y M t ∧
      Spec.dayNumCal m Y M t = Spec.dayNumCal m y mo d + (j : Int) ∧ j ≤ fuelDom := by
    by_cases c1 : d ≤ t ∧ t ≤ Spec.monthLen m y mo
    · refine ⟨y, mo, (t - d).toNat, ⟨v1, v2, ht1, c1.2⟩, ?_, ?_⟩
      · unfold Spec.dayNumCal; omega
      · unfold fuelDom; omega
    · obtain ⟨n1, n2, n3⟩ := nextMonth_dayNum m y mo v1 v2
      have hl1 := monthLen_bounds m (nextMonth y mo).1 (nextMonth y mo).2 n2 n3
      have hle1 := monthLen_le_maxDom m (nextMonth y mo).1 (nextMonth y mo).2 n2 n3
      have hle0 := monthLen_le_maxDom m y mo v1 v2
      by_cases c2 : t ≤ Spec.monthLen m (nextMonth y mo).1 (nextMonth y mo).2
      · refine ⟨(nextMonth y mo).1, (nextMonth y mo).2,
          (Spec.monthLen m y mo - d + t).toNat, ⟨n2, n3, ht1, c2⟩, ?_, ?_⟩
        · unfold Spec.dayNumCal at n1 ⊢; omega
        · unfold fuelDom; omega
      · -- next month too short: then this month is long (so t < d), and the month after next is long
        have hlong0 : Spec.monthLen m y mo = maxDom m := by
          rcases consecutive_months m y mo v1 v2 with h | h
          · exact h
          · omega
        obtain ⟨k1, k2, k3⟩ := nextMonth_dayNum m (nextMonth y mo).1 (nextMonth y mo).2 n2 n3
        have hlong2 : Spec.monthLen m (nextMonth (nextMonth y mo).1 (nextMonth y mo).2).1
            (nextMonth (nextMonth y mo).1 (nextMonth y mo).2).2 = maxDom m := by
          rcases consecutive_months m (nextMonth y mo).1 (nextMonth y mo).2 n2 n3 with h | h
          · omega
          · exact h
        refine ⟨(nextMonth (nextMonth y mo).1 (nextMonth y mo).2).1,
          (nextMonth (nextMonth y mo).1 (nextMonth y mo).2).2,
          (Spec.monthLen m y mo - d + Spec.monthLen m (nextMonth y mo).1 (nextMonth y mo).2 + t).toNat,
          ⟨k2, k3, ht1, by omega⟩, ?_, ?_⟩
        · unfold Spec.dayNumCal at n1 k1 ⊢; omega
        · unfold fuelDom; omega
  obtain ⟨Y, M, j, tv, tn, tj⟩ := target
  obtain ⟨x, hx, xs, xi, xt, xr⟩ := stepsFrom_spec m _ 86400 0 (stepOK_day m 0) j p hp hk
  refine loopField_some m getDom _ t fuelDom p j x tj hx ?_
  obtain ⟨y', mo', d', e'⟩ := rep0_cal x.date (by rw [xr, hk])
  have hv' : Spec.ValidCal m y' mo' d' := by have := xs.1.1; rw [e'] at this; exact this
  have hd := (day_steps_dayNum m p x hp xs xt j xi).1
  rw [e, e'] at hd
  simp only [Date.dayNum] at hd
  have := cal_unique m y' mo' d' Y M t hv' tv (by rw [hd, tn])
  unfold getDom; rw [e']; exact this.2.2

end IsoDT.Lemmas
