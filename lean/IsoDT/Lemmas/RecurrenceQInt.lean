/-
  IsoDT.Lemmas.RecurrenceQInt — the rational recurrence model (`Model.RecurrenceQ`) on whole-second
  points (`TPQ.ofTP`) and whole-number intervals (`DurationQ.ofDur`) is the integer model
  (`Model.Recurrence`), function by function.
-/
import IsoDT.Lemmas.RecurrenceQ

namespace IsoDT.Lemmas
open IsoDT IsoDT.Model IsoDT.Lemmas.DQ
open IsoDT.Spec (Date TZ TP)

theorem tpLtQ_ofTP (m : Mode) (a b : TP) : tpLtQ m (TPQ.ofTP a) (TPQ.ofTP b) = tpLt m a b := by
  unfold tpLtQ tpLt; rw [cmpQ_ofTP]

theorem tpEqQ_ofTP (m : Mode) (a b : TP) : tpEqQ m (TPQ.ofTP a) (TPQ.ofTP b) = tpEq m a b := by
  unfold tpEqQ tpEq; rw [cmpQ_ofTP]

theorem tpGtQ_ofTP (m : Mode) (a b : TP) : tpGtQ m (TPQ.ofTP a) (TPQ.ofTP b) = tpGt m a b := by
  unfold tpGtQ tpGt; rw [cmpQ_ofTP]

theorem toNQ_ofDur (m : Mode) (d : Dur) : (DurationQ.ofDur d).toNQ m = d.toNQ m := by
  cases d <;> rfl

theorem addDurationQ_ofTP (m : Mode) (p : TP) (d : Dur) :
    addDurationQ m (TPQ.ofTP p) (DurationQ.ofDur d) = (addDur m p d).map TPQ.ofTP := by
  unfold addDurationQ; rw [toNQ_ofDur, addDurQ_ofTP]

theorem subDurationQ_ofTP (m : Mode) (p : TP) (d : Dur) :
    subDurationQ m (TPQ.ofTP p) (DurationQ.ofDur d) = (subDur m p d).map TPQ.ofTP := by
  unfold subDurationQ subDur; rw [ofDur_mul, toNQ_ofDur, addDurQ_ofTP]

theorem ltQ_ofDur (m : Mode) (a b : Dur) :
    DurationQ.lt m (DurationQ.ofDur a) (DurationQ.ofDur b) = Dur.lt m a b := by
  unfold DurationQ.lt Dur.lt
  rw [ofDur_daysAndSeconds, ofDur_daysAndSeconds]
  exact pairLt_intCast _ _

theorem isZeroDurQ_ofDur (m : Mode) (d : Dur) : isZeroDurQ m (DurationQ.ofDur d) = isZeroDur m d := by
  unfold isZeroDurQ isZeroDur
  rw [← ofDur_zero, ofDur_eq]

theorem inBoundsQ_ofRec (m : Mode) (r : Rec) (p : TP) :
    inBoundsQ m (RecQ.ofRec r) (TPQ.ofTP p) = inBounds m r p := by
  unfold inBoundsQ inBounds
  cases hs : r.start <;> cases he : r.end_ <;>
    simp only [RecQ.ofRec, hs, he, Option.map_some, Option.map_none, tpLtQ_ofTP, tpGtQ_ofTP]

theorem getNextQ_ofRec (m : Mode) (r : Rec) (p : TP) :
    getNextQ m (RecQ.ofRec r) (TPQ.ofTP p) = (getNext m r p).map TPQ.ofTP := by
  unfold getNextQ getNext
  have hreps : (RecQ.ofRec r).reps = r.reps := rfl
  have hdur : (RecQ.ofRec r).dur = r.dur.map DurationQ.ofDur := rfl
  rw [hreps, hdur]
  by_cases c : r.reps = some 1
  · rw [if_pos c, if_pos c]; rfl
  · rw [if_neg c, if_neg c]
    cases r.dur with
    | none => rfl
    | some d =>
      simp only [Option.map_some, addDurationQ_ofTP]
      cases addDur m p d with
      | none => rfl
      | some q =>
        simp only [Option.map_some, inBoundsQ_ofRec]
        cases inBounds m r q <;> rfl

theorem getPrevQ_ofRec (m : Mode) (r : Rec) (p : TP) :
    getPrevQ m (RecQ.ofRec r) (TPQ.ofTP p) = (getPrev m r p).map TPQ.ofTP := by
  unfold getPrevQ getPrev
  have hreps : (RecQ.ofRec r).reps = r.reps := rfl
  have hdur : (RecQ.ofRec r).dur = r.dur.map DurationQ.ofDur := rfl
  rw [hreps, hdur]
  by_cases c : r.reps = some 1
  · rw [if_pos c, if_pos c]; rfl
  · rw [if_neg c, if_neg c]
    cases r.dur with
    | none => rfl
    | some d =>
      simp only [Option.map_some, subDurationQ_ofTP]
      cases subDur m p d with
      | none => rfl
      | some q =>
        simp only [Option.map_some, inBoundsQ_ofRec]
        cases inBounds m r q <;> rfl

theorem iterFromQ_ofRec (m : Mode) (r : Rec) (rev : Bool) : ∀ (fuel : Nat) (p : TP),
    iterFromQ m (RecQ.ofRec r) rev fuel (TPQ.ofTP p) = (iterFrom m r rev fuel p).map TPQ.ofTP := by
  intro fuel
  induction fuel with
  | zero => intro p; rfl
  | succ fuel ih =>
    intro p
    simp only [iterFromQ, iterFrom, inBoundsQ_ofRec, getNextQ_ofRec, getPrevQ_ofRec]
    cases inBounds m r p with
    | false => rfl
    | true =>
      simp only [↓reduceIte, List.map_cons]
      congr 1
      cases rev with
      | true =>
        simp only [↓reduceIte]
        cases getPrev m r p with
        | none => rfl
        | some q => simp only [Option.map_some, ih]
      | false =>
        simp only [Bool.false_eq_true, ↓reduceIte]
        cases getNext m r p with
        | none => rfl
        | some q => simp only [Option.map_some, ih]

theorem iterQ_ofRec (m : Mode) (r : Rec) (fuel : Nat) :
    iterQ m (RecQ.ofRec r) fuel = (iter m r fuel).map TPQ.ofTP := by
  unfold iterQ iter
  have hreps : (RecQ.ofRec r).reps = r.reps := rfl
  have hdur : (RecQ.ofRec r).dur = r.dur.map DurationQ.ofDur := rfl
  have hstart : (RecQ.ofRec r).start = r.start.map TPQ.ofTP := rfl
  have hend : (RecQ.ofRec r).end_ = r.end_.map TPQ.ofTP := rfl
  rw [hreps, hdur, hstart, hend]
  -- the anchor and the one-point test are the same on both sides
  have key : ∀ (p : TP) (c : Bool), (if c = true then (if fuel = 0 then [] else
        if inBoundsQ m (RecQ.ofRec r) (TPQ.ofTP p) = true then [TPQ.ofTP p] else [])
      else iterFromQ m (RecQ.ofRec r) r.start.isNone fuel (TPQ.ofTP p)) =
      List.map TPQ.ofTP (if c = true then (if fuel = 0 then [] else if inBounds m r p = true then [p] else [])
        else iterFrom m r r.start.isNone fuel p) := by
    intro p c
    rw [inBoundsQ_ofRec, iterFromQ_ofRec]
    cases c with
    | true =>
      simp only [↓reduceIte]
      by_cases c0 : fuel = 0
      · rw [if_pos c0, if_pos c0]; rfl
      · rw [if_neg c0, if_neg c0]
        cases inBounds m r p <;> rfl
    | false => simp only [Bool.false_eq_true, ↓reduceIte]
  cases hd : r.dur with
  | none =>
    cases hs : r.start with
    | some s =>
      have := key s (r.reps == some 1 || true)
      rw [hs] at this
      simpa using this
    | none =>
      cases he : r.end_ with
      | none => rfl
      | some e =>
        have := key e (r.reps == some 1 || true)
        rw [hs] at this
        simpa using this
  | some d =>
    cases hs : r.start with
    | some s =>
      have := key s (r.reps == some 1 || !d.nonzero)
      rw [hs] at this
      simpa [ofDur_nonzero] using this
    | none =>
      cases he : r.end_ with
      | none => rfl
      | some e =>
        have := key e (r.reps == some 1 || !d.nonzero)
        rw [hs] at this
        simpa [ofDur_nonzero] using this

theorem getItemQ_ofRec (m : Mode) (r : Rec) (i : Nat) :
    getItemQ m (RecQ.ofRec r) i = (getItem m r i).map TPQ.ofTP := by
  unfold getItemQ getItem; rw [iterQ_ofRec, List.getElem?_map]

theorem scanValidQ_ofRec (m : Mode) (r : Rec) (p : TP) : ∀ l : List TP,
    scanValidQ m (RecQ.ofRec r) (TPQ.ofTP p) (l.map TPQ.ofTP) = scanValid m r p l := by
  intro l
  induction l with
  | nil => rfl
  | cons q rest ih =>
    have hstart : (RecQ.ofRec r).start.isNone = r.start.isNone := by simp [RecQ.ofRec]
    have hend : (RecQ.ofRec r).end_.isNone = r.end_.isNone := by simp [RecQ.ofRec]
    simp only [List.map_cons, scanValidQ, scanValid, tpEqQ_ofTP, tpLtQ_ofTP, tpGtQ_ofTP, hstart, hend, ih]

theorem getIsValidQ_ofRec (m : Mode) (r : Rec) (p : TP) (fuel : Nat) :
    getIsValidQ m (RecQ.ofRec r) (TPQ.ofTP p) fuel = getIsValid m r p fuel := by
  unfold getIsValidQ getIsValid
  rw [inBoundsQ_ofRec, iterQ_ofRec, scanValidQ_ofRec]

/-- `a - b` between whole-second points is a days/hours/minutes/seconds duration. -/
theorem subCore_units (m : Mode) (a b : TP) (d : Dur) (h : subCore m a b = some d) :
    ∃ dd hh mi ss, d = .units 0 0 dd hh mi ss := by
  unfold subCore at h
  simp only [Option.bind_eq_bind] at h
  cases h1 : toTimeZone m b a.tz with
  | none => rw [h1] at h; cases h
  | some b1 =>
    rw [h1, Option.bind_some] at h
    cases h2 : normalise24 m b1 with
    | none => rw [h2] at h; cases h
    | some b2 =>
      rw [h2, Option.bind_some] at h
      cases h3 : normalise24 m a with
      | none => rw [h3] at h; cases h
      | some a2 =>
        rw [h3, Option.bind_some] at h
        split at h
        · cases h; exact ⟨_, _, _, _, rfl⟩
        · cases h

theorem subTP_units (m : Mode) (a b : TP) (d : Dur) (h : subTP m a b = some d) :
    ∃ dd hh mi ss, d = .units 0 0 dd hh mi ss := by
  unfold subTP at h
  simp only [Option.bind_eq_bind] at h
  cases hc : cmp m b a with
  | none => rw [hc] at h; cases h
  | some c =>
    rw [hc, Option.bind_some] at h
    by_cases k : c > 0
    · rw [if_pos k] at h
      cases h1 : subCore m b a with
      | none => rw [h1] at h; cases h
      | some d0 =>
        rw [h1] at h
        obtain ⟨dd, hh, mi, ss, rfl⟩ := subCore_units m b a d0 h1
        cases h
        exact ⟨dd * -1, hh * -1, mi * -1, ss * -1, by simp [Dur.neg, Dur.mul]⟩
    · rw [if_neg k] at h
      exact subCore_units m a b d h

theorem ofDurQ_durQOf_units (dd hh mi ss : Int) :
    DurationQ.ofDurQ (durQOf (.units 0 0 dd hh mi ss)) = DurationQ.ofDur (.units 0 0 dd hh mi ss) := rfl

theorem ltQ_zero_ofDur (m : Mode) (d : Dur) :
    DurationQ.lt m (DurationQ.ofDur d) DurationQ.zero = Dur.lt m d Dur.zero := by
  rw [← ofDur_zero, ltQ_ofDur]

/-- `TimeRecurrence.__init__` on whole-second points and whole-number intervals. -/
theorem mkRecQ_ofRec (m : Mode) (reps : Option Int) (start : Option TP) (dur : Option Dur) (end_ : Option TP) :
    mkRecQ m reps (start.map TPQ.ofTP) (dur.map DurationQ.ofDur) (end_.map TPQ.ofTP) =
      (mkRec m reps start dur end_).map RecQ.ofRec := by
  have mapIte : ∀ (c : Prop) [Decidable c] (a b : Option Rec),
      (if c then a else b).map RecQ.ofRec = if c then a.map RecQ.ofRec else b.map RecQ.ofRec := by
    intro c _ a b; split <;> rfl
  cases dur with
  | some d =>
    cases start with
    | none =>
      cases end_ with
      | none =>
        cases reps <;> simp only [mkRecQ, mkRec, Option.map_some, Option.map_none, ltQ_zero_ofDur, mapIte]
      | some e =>
        cases reps with
        | none =>
          simp only [mkRecQ, mkRec, Option.map_some, Option.map_none, ltQ_zero_ofDur, isZeroDurQ_ofDur, mapIte]
          rfl
        | some n =>
          simp only [mkRecQ, mkRec, Option.map_some, Option.map_none, ltQ_zero_ofDur, isZeroDurQ_ofDur, mapIte,
            ofDur_mul, subDurationQ_ofTP]
          cases subDur m e (d.mul (n - 1)) <;> rfl
    | some s =>
      cases end_ with
      | some e =>
        cases reps <;> simp only [mkRecQ, mkRec, Option.map_some, Option.map_none, ltQ_zero_ofDur, mapIte]
      | none =>
        cases reps with
        | none =>
          simp only [mkRecQ, mkRec, Option.map_some, Option.map_none, ltQ_zero_ofDur, isZeroDurQ_ofDur, mapIte]
          rfl
        | some n =>
          simp only [mkRecQ, mkRec, Option.map_some, Option.map_none, ltQ_zero_ofDur, isZeroDurQ_ofDur, mapIte,
            ofDur_mul, addDurationQ_ofTP]
          cases addDur m s (d.mul (n - 1)) <;> rfl
  | none =>
    cases start with
    | none =>
      cases reps <;> cases end_ <;>
        simp only [mkRecQ, mkRec, Option.map_some, Option.map_none, mapIte, Bool.false_eq_true, ↓reduceIte] <;> rfl
    | some s =>
      cases end_ with
      | none =>
        cases reps <;>
          simp only [mkRecQ, mkRec, Option.map_some, Option.map_none, mapIte, Bool.false_eq_true, ↓reduceIte] <;> rfl
      | some e =>
        cases hd : subTP m e s with
        | none =>
          cases reps <;>
            simp only [mkRecQ, mkRec, Option.map_some, Option.map_none, mapIte, Bool.false_eq_true, ↓reduceIte,
              tpEqQ_ofTP, tpLtQ_ofTP, subTPQ_ofTP, hd] <;> rfl
        | some d =>
          obtain ⟨dd, hh, mi, ss, rfl⟩ := subTP_units m e s d hd
          cases reps with
          | none =>
            simp only [mkRecQ, mkRec, Option.map_some, Option.map_none, mapIte, Bool.false_eq_true, ↓reduceIte,
              tpEqQ_ofTP, tpLtQ_ofTP, subTPQ_ofTP, hd, ofDurQ_durQOf_units]
            rfl
          | some n =>
            simp only [mkRecQ, mkRec, Option.map_some, Option.map_none, mapIte, Bool.false_eq_true, ↓reduceIte,
              tpEqQ_ofTP, tpLtQ_ofTP, subTPQ_ofTP, hd, ofDurQ_durQOf_units, ofDur_mul, addDurationQ_ofTP]
            cases addDur m s ((Dur.units 0 0 dd hh mi ss).mul (n - 1)) <;> rfl

end IsoDT.Lemmas
