/-
  IsoDT.Lemmas.TextParse — first match in a pairwise-disjoint try-order, the string splitting of
  `get_info`, and the characters a rendered template can contain.
-/
import IsoDT.Lemmas.Text

namespace IsoDT.Text
open IsoDT

/-! ## Try-orders -/

/-- First element (in list order) whose template matches: `firstMatch` / `firstMatchZ` generically. -/
def firstBy {α : Type} (tm : α → Template) : List α → List Char → Option (α × Env)
  | [], _ => none
  | e :: es, s =>
    match tmatch (tm e) s with
    | some env => some (e, env)
    | none => firstBy tm es s

theorem firstMatch_eq (l : List Entry) (s : List Char) : firstMatch l s = firstBy Entry.tmpl l s := by
  induction l with
  | nil => rfl
  | cons a l ih => simp only [firstMatch, firstBy, ih]; cases tmatch a.tmpl s <;> rfl

theorem firstMatchZ_eq (l : List ZEntry) (s : List Char) : firstMatchZ l s = firstBy ZEntry.tmpl l s := by
  induction l with
  | nil => rfl
  | cons a l ih => simp only [firstMatchZ, firstBy, ih]; cases tmatch a.tmpl s <;> rfl

/-- `b` may come after `a` in a date try-order: nothing `b` matches is matched by `a` — unless `a` is the
    very same regular expression with the same expression text and type (the tables list a few forms
    under both `basic` and `extended`); for a `complete` form it must then also be the same format. -/
def okPair (a b : Entry) : Bool :=
  shapeDisjoint a.tmpl b.tmpl ||
    (a.tmpl = b.tmpl && a.expr = b.expr && a.typ = b.typ && (a.fmt = b.fmt || b.typ != .complete))

/-- The same for time entries (only the expression text is returned by `get_time_info`). -/
def okPairT (a b : Entry) : Bool :=
  shapeDisjoint a.tmpl b.tmpl || (a.tmpl = b.tmpl && a.expr = b.expr)

def okPairZ (a b : ZEntry) : Bool :=
  shapeDisjoint a.tmpl b.tmpl || (a.tmpl = b.tmpl && a.expr = b.expr)

/-- Every element is `ok` with every later element. -/
def allAfter {α : Type} (ok : α → α → Bool) : List α → Bool
  | [] => true
  | a :: l => l.all (ok a) && allAfter ok l

/-- Every element listed before (the first occurrence of) `e` is `ok` with `e`. -/
def prec {α : Type} [DecidableEq α] (ok : α → α → Bool) : List α → α → Bool
  | [], _ => true
  | a :: l, e => if a = e then true else ok a e && prec ok l e

theorem allAfter_filter {α : Type} (ok : α → α → Bool) (p : α → Bool) (l : List α)
    (h : allAfter ok l = true) : allAfter ok (l.filter p) = true := by
  induction l with
  | nil => rfl
  | cons a l ih =>
    simp only [allAfter, Bool.and_eq_true, List.all_eq_true] at h
    by_cases hp : p a = true
    · simp only [List.filter_cons, hp, if_true, allAfter, Bool.and_eq_true, List.all_eq_true]
      exact ⟨fun x hx => h.1 x (List.mem_filter.mp hx).1, ih h.2⟩
    · simp only [List.filter_cons, hp]
      exact ih h.2

theorem prec_of_allAfter {α : Type} [DecidableEq α] (ok : α → α → Bool) (l : List α)
    (h : allAfter ok l = true) (e : α) (he : e ∈ l) : prec ok l e = true := by
  induction l with
  | nil => rfl
  | cons a l ih =>
    simp only [allAfter, Bool.and_eq_true, List.all_eq_true] at h
    simp only [prec]
    split
    · rfl
    · rename_i hne
      rcases List.mem_cons.mp he with rfl | hel
      · exact absurd rfl hne
      · simp [h.1 e hel, ih h.2 hel]

/-- The pairs of a date try-order that are not `ok`, as (earlier expression, later expression). -/
def overlaps : List Entry → List (List Char × List Char)
  | [] => []
  | a :: l => ((l.filter fun b => !okPair a b).map fun b => (a.expr, b.expr)) ++ overlaps l

theorem allAfter_of_overlaps_nil (l : List Entry) (h : overlaps l = []) : allAfter okPair l = true := by
  induction l with
  | nil => rfl
  | cons a l ih =>
    simp only [overlaps, List.append_eq_nil_iff, List.map_eq_nil_iff] at h
    simp only [allAfter, Bool.and_eq_true, List.all_eq_true]
    refine ⟨fun b hb => ?_, ih h.2⟩
    cases hk : okPair a b with
    | true => rfl
    | false =>
      have : b ∈ l.filter (fun b => !okPair a b) := List.mem_filter.mpr ⟨hb, by simp [hk]⟩
      rw [h.1] at this
      exact absurd this (by simp)

/-- **First match**, generically: if every element tried before `e` is `ok` with `e` — i.e. cannot match
    anything `e` matches, or is the same regular expression and related to `e` by `R` — then a text
    `e` matches is decoded by `e`'s regular expression, by an element related to `e`. -/
theorem firstBy_prec {α : Type} [DecidableEq α] (tm : α → Template) (ok : α → α → Bool)
    (R : α → α → Prop)
    (hok : ∀ a e, ok a e = true → shapeDisjoint (tm a) (tm e) = true ∨ (tm a = tm e ∧ R a e))
    (hR : ∀ e, R e e) (l : List α) (hwf : ∀ x ∈ l, wf (tm x) = true) (e : α) (he : e ∈ l)
    (hp : prec ok l e = true) (s : List Char) (env : Env) (hm : tmatch (tm e) s = some env) :
    ∃ e', e' ∈ l ∧ firstBy tm l s = some (e', env) ∧ tm e' = tm e ∧ R e' e := by
  induction l with
  | nil => simp at he
  | cons a l ih =>
    simp only [prec] at hp
    by_cases hae : a = e
    · subst hae
      exact ⟨a, List.mem_cons_self, by simp [firstBy, hm], rfl, hR a⟩
    · simp only [hae, if_false, Bool.and_eq_true] at hp
      have hel : e ∈ l := by
        rcases List.mem_cons.mp he with h | h
        · exact absurd h.symm hae
        · exact h
      rcases hok a e hp.1 with hd | ⟨h1, h2⟩
      · have hn := shapeDisjoint_sound (tm a) (tm e) (hwf a List.mem_cons_self) (hwf e he) hd s env hm
        obtain ⟨e', m1, m2, m3⟩ := ih (fun x hx => hwf x (List.mem_cons_of_mem _ hx)) hel hp.2
        exact ⟨e', List.mem_cons_of_mem _ m1, by simp [firstBy, hn, m2], m3⟩
      · exact ⟨a, List.mem_cons_self, by simp [firstBy, h1, hm], h1, h2⟩

/-- What an entry found in a date try-order shares with the entry the text was rendered from. -/
def SameDate (a e : Entry) : Prop :=
  a.expr = e.expr ∧ a.typ = e.typ ∧ (e.typ = .complete → a.fmt = e.fmt)

theorem okPair_spec (a e : Entry) (h : okPair a e = true) :
    shapeDisjoint a.tmpl e.tmpl = true ∨ (a.tmpl = e.tmpl ∧ SameDate a e) := by
  simp only [okPair, Bool.or_eq_true, Bool.and_eq_true, decide_eq_true_eq] at h
  rcases h with hd | ⟨⟨⟨h1, h2⟩, h3⟩, h4⟩
  · exact Or.inl hd
  · refine Or.inr ⟨h1, h2, h3, fun hc => ?_⟩
    rcases h4 with h4 | h4
    · exact h4
    · simp [hc] at h4

theorem okPairT_spec (a e : Entry) (h : okPairT a e = true) :
    shapeDisjoint a.tmpl e.tmpl = true ∨ (a.tmpl = e.tmpl ∧ a.expr = e.expr) := by
  simp only [okPairT, Bool.or_eq_true, Bool.and_eq_true, decide_eq_true_eq] at h
  exact h

theorem okPairZ_spec (a e : ZEntry) (h : okPairZ a e = true) :
    shapeDisjoint a.tmpl e.tmpl = true ∨ (a.tmpl = e.tmpl ∧ a.expr = e.expr) := by
  simp only [okPairZ, Bool.or_eq_true, Bool.and_eq_true, decide_eq_true_eq] at h
  exact h

/-- A text no listed regular expression can match is refused. -/
theorem firstMatch_none (l : List Entry) (s : List Char)
    (h : ∀ e ∈ l, tmatch e.tmpl s = none) : firstMatch l s = none := by
  induction l with
  | nil => rfl
  | cons a l ih =>
    simp [firstMatch, h a List.mem_cons_self, ih (fun e he => h e (List.mem_cons_of_mem _ he))]

/-! ## Splitting -/

theorem splitOnChar_none (c : Char) (a : List Char) (h : c ∉ a) : splitOnChar c a = [a] := by
  induction a with
  | nil => rfl
  | cons x a ih =>
    simp only [List.mem_cons, not_or] at h
    have hx : x ≠ c := fun e => h.1 e.symm
    simp [splitOnChar, hx, ih h.2]

theorem splitOnChar_one (c : Char) (a b : List Char) (ha : c ∉ a) (hb : c ∉ b) :
    splitOnChar c (a ++ c :: b) = [a, b] := by
  induction a with
  | nil => simp [splitOnChar, splitOnChar_none c b hb]
  | cons x a ih =>
    simp only [List.mem_cons, not_or] at ha
    have hx : x ≠ c := fun e => ha.1 e.symm
    simp [splitOnChar, hx, ih ha.2]

theorem splitLast_none (c : Char) (a : List Char) (h : c ∉ a) : splitLast c a = none := by
  induction a with
  | nil => rfl
  | cons x a ih =>
    simp only [List.mem_cons, not_or] at h
    have hx : x ≠ c := fun e => h.1 e.symm
    simp [splitLast, ih h.2, hx]

theorem splitLast_append (c : Char) (a b : List Char) (hb : c ∉ b) :
    splitLast c (a ++ c :: b) = some (a, b) := by
  induction a with
  | nil => simp [splitLast, splitLast_none c b hb]
  | cons x a ih => simp [splitLast, ih]

/-! ## The characters of a rendered template -/

/-- Every non-digit character a rendering of the template can contain. -/
def litChars : Template → List Char
  | [] => []
  | .lit c :: t => c :: litChars t
  | .group _ ls :: t => ls ++ litChars t
  | .sign _ :: t => '+' :: '-' :: litChars t
  | _ :: t => litChars t

theorem all_digits_mem (s : List Char) (h : s.all isDigit = true) (c : Char) (hc : c ∈ s) :
    isDigit c = true := by
  simp only [List.all_eq_true] at h
  exact h c hc

theorem trender_chars (t : Template) (env : Env) (h : fits t env = true) (c : Char)
    (hc : c ∈ trender t env) : isDigit c = true ∨ c ∈ litChars t := by
  induction t generalizing env with
  | nil => simp [trender] at hc
  | cons it t ih =>
    cases it with
    | lit x =>
      simp only [fits] at h
      simp only [trender, List.mem_cons] at hc
      rcases hc with rfl | hc
      · exact Or.inr (by simp [litChars])
      · rcases ih env h hc with h1 | h1
        · exact Or.inl h1
        · exact Or.inr (by simp [litChars, h1])
    | digits f n =>
      cases env with
      | nil => simp [fits] at h
      | cons gs env =>
        obtain ⟨g, s⟩ := gs
        simp only [fits, Bool.and_eq_true, decide_eq_true_eq] at h
        simp only [trender, List.mem_append] at hc
        rcases hc with hc | hc
        · exact Or.inl (all_digits_mem s h.1.2 c hc)
        · rcases ih env h.2 hc with h1 | h1
          · exact Or.inl h1
          · exact Or.inr (by simpa [litChars] using h1)
    | digitsPlus f =>
      cases env with
      | nil => simp [fits] at h
      | cons gs env =>
        obtain ⟨g, s⟩ := gs
        simp only [fits, Bool.and_eq_true, decide_eq_true_eq, List.isEmpty_iff] at h
        obtain ⟨⟨⟨_, hd⟩, rfl⟩, rfl⟩ := h
        simp only [trender, List.append_nil] at hc
        exact Or.inl (all_digits_mem s hd c hc)
    | sign f =>
      cases env with
      | nil => simp [fits] at h
      | cons gs env =>
        obtain ⟨g, s⟩ := gs
        simp only [fits, Bool.and_eq_true, decide_eq_true_eq, Bool.or_eq_true] at h
        simp only [trender, List.mem_append] at hc
        rcases hc with hc | hc
        · rcases h.1.2 with rfl | rfl <;> simp at hc <;> subst hc <;> exact Or.inr (by simp [litChars])
        · rcases ih env h.2 hc with h1 | h1
          · exact Or.inl h1
          · exact Or.inr (by simp [litChars, h1])
    | group f ls =>
      cases env with
      | nil => simp [fits] at h
      | cons gs env =>
        obtain ⟨g, s⟩ := gs
        simp only [fits, Bool.and_eq_true, decide_eq_true_eq] at h
        obtain ⟨⟨_, rfl⟩, hf⟩ := h
        simp only [trender, List.mem_append] at hc
        rcases hc with hc | hc
        · exact Or.inr (by simp [litChars, hc])
        · rcases ih env hf hc with h1 | h1
          · exact Or.inl h1
          · exact Or.inr (by simp [litChars, h1])

/-- The group names of a template, in order. -/
def groupFields : Template → List Fld
  | [] => []
  | .lit _ :: t => groupFields t
  | .digits f _ :: t => f :: groupFields t
  | .digitsPlus f :: t => f :: groupFields t
  | .sign f :: t => f :: groupFields t
  | .group f _ :: t => f :: groupFields t

theorem fits_fields (t : Template) (env : Env) (h : fits t env = true) :
    env.map Prod.fst = groupFields t := by
  induction t generalizing env with
  | nil =>
    cases env with
    | nil => rfl
    | cons _ _ => simp [fits] at h
  | cons it t ih =>
    cases it with
    | lit x => simp only [fits] at h; simpa [groupFields] using ih env h
    | digits f n =>
      cases env with
      | nil => simp [fits] at h
      | cons gs env =>
        obtain ⟨g, s⟩ := gs
        simp only [fits, Bool.and_eq_true, decide_eq_true_eq] at h
        simp [groupFields, h.1.1.1, ih env h.2]
    | digitsPlus f =>
      cases env with
      | nil => simp [fits] at h
      | cons gs env =>
        obtain ⟨g, s⟩ := gs
        simp only [fits, Bool.and_eq_true, decide_eq_true_eq, List.isEmpty_iff] at h
        obtain ⟨⟨⟨⟨rfl, _⟩, _⟩, rfl⟩, rfl⟩ := h
        simp [groupFields]
    | sign f =>
      cases env with
      | nil => simp [fits] at h
      | cons gs env =>
        obtain ⟨g, s⟩ := gs
        simp only [fits, Bool.and_eq_true, decide_eq_true_eq] at h
        simp [groupFields, h.1.1, ih env h.2]
    | group f ls =>
      cases env with
      | nil => simp [fits] at h
      | cons gs env =>
        obtain ⟨g, s⟩ := gs
        simp only [fits, Bool.and_eq_true, decide_eq_true_eq] at h
        simp [groupFields, h.1.1, ih env h.2]

theorem Env.has_iff (env : Env) (f : Fld) : Env.has env f = (env.map Prod.fst).contains f := by
  induction env with
  | nil => rfl
  | cons gs env ih =>
    obtain ⟨g, s⟩ := gs
    unfold Env.has at ih ⊢
    simp only [Env.get?, List.map_cons, List.contains_cons]
    by_cases hg : g = f
    · subst hg; simp
    · have : (f == g) = false := by simp [Ne.symm hg]
      simp [hg, ih, this]

theorem Env.has_fits (t : Template) (env : Env) (h : fits t env = true) (f : Fld) :
    Env.has env f = (groupFields t).contains f := by
  rw [Env.has_iff, fits_fields t env h]

end IsoDT.Text
