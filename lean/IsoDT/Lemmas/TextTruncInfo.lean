/-
  IsoDT.Lemmas.TextTruncInfo — `get_info` on rendered TRUNCATED forms (`allow_truncated=True`): a
  truncated date (or no date at all) followed by `T`, any time form the date admits — a truncated time
  form (`-mm`, `-mmss`, `--ss`, …) only after a date that carries the truncation marker or after an
  empty date — and any zone form or none.  After a truncated date `get_info` excludes NO format
  (`bad_formats = []`), so basic and extended time and zone forms are all tried; the split of
  `time_time_zone` has to cope with the leading hyphens of a truncated time (`rsplit("-", 1)` and the
  "is this just a truncated time" retry).
-/
import IsoDT.Lemmas.TextTrunc

namespace IsoDT.Text
open IsoDT
open _root_.IsoDT.Gen.Templates (timeDesignator dateTypeOrder parserTables)

/-! ## The zone split, for a time text that may start with hyphens -/

/-- **Split** of `time_time_zone` (generalising `splitZone_spec`): the time text has no `Z` and no `+`;
    if it contains `-` and no zone follows, the retry on the `rsplit("-", 1)` halves must fail. -/
theorem splitZone_spec2 (cfg : Cfg) (bf : List FormatKey) (bt : List TypeKey) (t z : List Char)
    (htZ : 'Z' ∉ t) (htp : '+' ∉ t)
    (hnone : ∀ a b, splitLast '-' t = some (a, b) → (getTimeInfo cfg a bf bt).isSome = false)
    (hz : ZoneText z)
    (hminus : ∀ body, z = '-' :: body →
      (getTimeInfo cfg t bf bt).isSome = true ∧ (getZoneInfo cfg.pt z bf).isSome = true) :
    splitZone cfg bf bt (t ++ z) = some (t, if z = [] then none else some z) := by
  unfold splitZone
  rcases hz with rfl | rfl | ⟨sg, body, rfl, hsg, hb⟩
  · -- no zone
    have h1 : ¬ (t.getLast? = some 'Z') := fun h => htZ (List.mem_of_getLast? h)
    simp only [List.append_nil, h1, if_false]
    have h2 : t.contains '+' = false := by simpa using htp
    simp only [h2, Bool.false_eq_true, if_false, if_true]
    cases hs : splitLast '-' t with
    | none => rfl
    | some p =>
      obtain ⟨a, b⟩ := p
      simp only [hnone a b hs, Bool.false_and, Bool.false_eq_true, if_false]
  · -- Z
    simp
  · have hbZ : 'Z' ∉ body := fun h => (hb _ h).1 rfl
    have hbp : '+' ∉ body := fun h => (hb _ h).2.1 rfl
    have hbm : '-' ∉ body := fun h => (hb _ h).2.2 rfl
    have hne : (sg :: body = []) = False := by simp
    have hlast : ¬ ((t ++ sg :: body).getLast? = some 'Z') := by
      obtain ⟨c, h1, h2⟩ := getLast_cons_mem sg body
      have : (t ++ sg :: body).getLast? = some c := by simp [h1]
      rw [this]
      intro h
      injection h with h
      subst h
      rcases List.mem_cons.mp h2 with h | h
      · rcases hsg with h' | h' <;> rw [h'] at h <;> exact absurd h (by decide)
      · exact hbZ h
    simp only [hlast, if_false, hne]
    rcases hsg with rfl | rfl
    · simp [splitOnChar_one '+' t body htp hbp]
    · obtain ⟨g1, g2⟩ := hminus body rfl
      simp [htp, hbp, splitLast_append '-' t body hbm, g1, g2]

/-! ## Facts about the regenerated tables (decided by kernel evaluation) -/

/-- A truncated time expression: the marker group `-` or `--`, then digits, `:`, `,`, `.` only. -/
def truncTimeOK (e : Entry) : Bool :=
  match e.tmpl with
  | .group .truncated ls :: rest =>
    (ls == ['-'] || ls == ['-', '-']) && (litChars rest).all (fun c => c == ':' || c == ',' || c == '.')
  | _ => false

/-- A truncated date expression: not empty; marked, or implicitly truncated by a year of century (the
    table has no century group at all); items of the truncated kinds; one documented date pattern. -/
def truncDateOK (e : Entry) : Bool :=
  (tmatch e.tmpl []).isNone && (hasGroup e.tmpl .truncated || hasGroup e.tmpl .yearOfCentury) &&
    e.tmpl.all tItemOK && tdateShapeOK e.tmpl

/-- Everything the truncated-form theorems need to know about one configuration's tables. -/
def truncTableOK (pt : ParserTables) : Bool :=
  pt.dateEntries.all (fun e => e.typ != .truncated || truncDateOK e) &&
  pt.timeEntries.all (fun e => e.typ != .truncated || truncTimeOK e) &&
  pt.timeEntries.all (fun e => (tmatch e.tmpl []).isNone && (tmatch e.tmpl ['-']).isNone &&
    e.tmpl.all tItemOK && ttimeShapeOK e.tmpl)

set_option maxRecDepth 100000 in
theorem trunc_tables_ok : parserTables.all truncTableOK = true := by decide +kernel

structure TruncFacts (pt : ParserTables) : Prop where
  dates : ∀ e ∈ pt.dateEntries, e.typ = .truncated →
    (tmatch e.tmpl []).isNone = true ∧
    (hasGroup e.tmpl .truncated = true ∨ hasGroup e.tmpl .yearOfCentury = true) ∧
    e.tmpl.all tItemOK = true ∧ tdateShapeOK e.tmpl = true
  ttimes : ∀ e ∈ pt.timeEntries, e.typ = .truncated → truncTimeOK e = true
  times : ∀ e ∈ pt.timeEntries, tmatch e.tmpl [] = none ∧ tmatch e.tmpl ['-'] = none ∧
    e.tmpl.all tItemOK = true ∧ ttimeShapeOK e.tmpl = true

theorem truncFacts (pt : ParserTables) (h : pt ∈ parserTables) : TruncFacts pt := by
  have hk := List.all_eq_true.mp trunc_tables_ok pt h
  simp only [truncTableOK, Bool.and_eq_true, List.all_eq_true, Bool.or_eq_true, bne_iff_ne, ne_eq,
    Option.isNone_iff_eq_none] at hk
  obtain ⟨⟨h1, h2⟩, h3⟩ := hk
  refine ⟨fun e he ht => ?_, fun e he ht => ?_, fun e he => ?_⟩
  · rcases h1 e he with h | h
    · exact absurd ht h
    · simp only [truncDateOK, Bool.and_eq_true, Bool.or_eq_true, Option.isNone_iff_eq_none] at h
      exact ⟨by rw [h.1.1.1]; rfl, h.1.1.2, h.1.2, h.2⟩
  · rcases h2 e he with h | h
    · exact absurd ht h
    · exact h
  · have := h3 e he
    exact ⟨this.1.1.1, this.1.1.2, List.all_eq_true.mpr this.1.2, this.2⟩

/-! ## The text of a time form -/

/-- The text a listed time form spells contains no `Z` and no `+`; if it contains `-` at all (a
    truncated time form), `rsplit("-", 1)` leaves nothing or a single `-` on the left. -/
theorem timeText_ok (pt : ParserTables) (tf : TableFacts pt) (uf : TruncFacts pt) (te : Entry)
    (hte : te ∈ pt.timeEntries) (tenv : Env) (hft : fits te.tmpl tenv = true) :
    'Z' ∉ trender te.tmpl tenv ∧ '+' ∉ trender te.tmpl tenv ∧
      ∀ a b, splitLast '-' (trender te.tmpl tenv) = some (a, b) → a = [] ∨ a = ['-'] := by
  by_cases htt : te.typ = .truncated
  · have hk := uf.ttimes te hte htt
    unfold truncTimeOK at hk
    split at hk
    · rename_i ls rest htm
      simp only [Bool.and_eq_true, Bool.or_eq_true, beq_iff_eq, List.all_eq_true] at hk
      obtain ⟨hls, hrest⟩ := hk
      rw [htm] at hft ⊢
      cases tenv with
      | nil => simp [fits] at hft
      | cons gs env =>
        obtain ⟨g, s⟩ := gs
        simp only [fits, Bool.and_eq_true, decide_eq_true_eq] at hft
        obtain ⟨⟨_, rfl⟩, hf⟩ := hft
        have hbody : ∀ c ∈ trender rest env, Plain c := by
          intro c hc
          rcases trender_chars rest env hf c hc with h | h
          · exact digit_plain c h
          · rcases hrest c h with (rfl | rfl) | rfl <;> exact ⟨by decide, by decide, by decide⟩
        have hbm : '-' ∉ trender rest env := fun h => (hbody _ h).2.2 rfl
        simp only [trender]
        refine ⟨?_, ?_, ?_⟩
        · intro h
          rcases List.mem_append.mp h with h | h
          · rcases hls with rfl | rfl <;> simp at h
          · exact (hbody _ h).1 rfl
        · intro h
          rcases List.mem_append.mp h with h | h
          · rcases hls with rfl | rfl <;> simp at h
          · exact (hbody _ h).2.1 rfl
        · intro a b hs
          rcases hls with rfl | rfl
          · have := splitLast_append '-' [] (trender rest env) hbm
            simp only [List.nil_append] at this
            simp only [List.cons_append, List.nil_append] at hs
            rw [this] at hs
            simp only [Option.some.injEq, Prod.mk.injEq] at hs
            exact Or.inl hs.1.symm
          · have := splitLast_append '-' ['-'] (trender rest env) hbm
            simp only [List.cons_append, List.nil_append] at this hs
            rw [this] at hs
            simp only [Option.some.injEq, Prod.mk.injEq] at hs
            exact Or.inr hs.1.symm
    · cases hk
  · obtain ⟨hplain, _, _⟩ := plain_time te (tf.plain te hte htt) tenv hft
    refine ⟨fun h => (hplain _ h).1 rfl, fun h => (hplain _ h).2.1 rfl, fun a b hs => ?_⟩
    have hm : '-' ∉ trender te.tmpl tenv := fun h => (hplain _ h).2.2 rfl
    rw [splitLast_none '-' _ hm] at hs
    cases hs

/-- No time form matches the empty text or a lone `-`. -/
theorem getTimeInfo_stub (cfg : Cfg) (uf : TruncFacts cfg.pt) (bf : List FormatKey) (bt : List TypeKey)
    (a : List Char) (ha : a = [] ∨ a = ['-']) : getTimeInfo cfg a bf bt = none := by
  unfold getTimeInfo timeOrder
  apply firstMatch_none
  intro e he
  have hm := (List.mem_filter.mp he).1
  rcases ha with rfl | rfl
  · exact (uf.times e hm).1
  · exact (uf.times e hm).2.1

/-! ## The date part -/

theorem truncated_mem_types : TypeKey.truncated ∈ dateTypes true [.reduced] := by decide

/-- `get_date_info(date, bad_types=["reduced"])` on a rendered truncated date. -/
theorem getDateInfo_truncated (cfg : Cfg) (hat : cfg.allowTruncated = true) (tf : TableFacts cfg.pt)
    (de : Entry) (hde : de ∈ cfg.pt.dateEntries) (hdt : de.typ = .truncated) (denv : Env)
    (hfd : fits de.tmpl denv = true) :
    ∃ e', getDateInfo cfg (trender de.tmpl denv) [.reduced] = some (e', denv) ∧ e'.expr = de.expr ∧
      e'.typ = .truncated := by
  unfold getDateInfo
  rw [firstMatch_eq, hat]
  have hmem : de ∈ dateOrder cfg.pt (dateTypes true [.reduced]) :=
    mem_dateOrder _ _ de hde (tf.dates de hde).2.2 (hdt ▸ truncated_mem_types)
  obtain ⟨e', _, h2, _, h4, h5, _⟩ := firstBy_prec Entry.tmpl okPair SameDate okPair_spec
    (fun e => ⟨rfl, rfl, fun _ => rfl⟩) _
    (fun x hx => (tf.dates x (dateOrder_sub _ _ x hx)).1) de hmem
    (prec_of_allAfter okPair _ tf.orderTimeT de hmem) _ denv (tmatch_trender de.tmpl denv hfd)
  exact ⟨e', h2, h4, h5.trans hdt⟩

/-- The date part of a truncated text: nothing (`T…`), or a listed truncated date form with its group
    texts. -/
def dpText : Option (Entry × Env) → List Char
  | none => []
  | some (de, denv) => trender de.tmpl denv

def dpEnv : Option (Entry × Env) → Env
  | none => []
  | some (_, denv) => denv

def dpExpr : Option (Entry × Env) → List Char
  | none => []
  | some (de, _) => de.expr

/-- `date_info.get("truncated")`: an absent date counts as marked; a date form iff it has the marker
    group. -/
def dpMarker : Option (Entry × Env) → Bool
  | none => true
  | some (de, _) => hasGroup de.tmpl .truncated

/-- What `get_info` does after the date part is known (format, type, expression text, groups, marked). -/
def infoRest (cfg : Cfg) (ttz : List Char) (fmt : Option FormatKey) (typ : TypeKey) (dexpr : List Char)
    (denv : Env) (dtrunc : Bool) : Option Info :=
  let badFormats : List FormatKey := badFormatsOf fmt typ
  let badTypes : List TypeKey := if dtrunc then [] else [.truncated]
  match splitZone cfg badFormats badTypes ttz with
  | none => none
  | some (time, zone?) =>
    let zres : Option (List Char × ZoneInfo) :=
      match zone? with
      | none => (processZone cfg.zone []).map fun z => ([], z)
      | some ztext =>
        match getZoneInfo cfg.pt ztext badFormats with
        | none => none
        | some (ze, zenv) => (processZone cfg.zone zenv).map fun z => (ze.expr, z)
    match zres with
    | none => none
    | some (zexpr, z) =>
      match getTimeInfo cfg time badFormats badTypes with
      | none => none
      | some (te, tenv) =>
        some { dateEnv := denv, dateTrunc := dtrunc, timeEnv := tenv, zone := z,
               expr := dexpr ++ timeDesignator :: (te.expr ++ zexpr) }

theorem getInfo_emptyDate (cfg : Cfg) (hat : cfg.allowTruncated = true) (s ttz : List Char)
    (hs : splitOnChar timeDesignator s = [[], ttz]) :
    getInfo cfg s = infoRest cfg ttz none .truncated [] [] true := by
  unfold getInfo
  rw [hs]
  simp only [List.isEmpty_nil, hat, Bool.and_self, if_true]
  rfl

theorem getInfo_withDate (cfg : Cfg) (s date ttz : List Char)
    (hs : splitOnChar timeDesignator s = [date, ttz]) (hne : date.isEmpty = false) (e : Entry) (denv : Env)
    (hd : getDateInfo cfg date [.reduced] = some (e, denv)) :
    getInfo cfg s = infoRest cfg ttz (some e.fmt) e.typ e.expr denv (Env.has denv .truncated) := by
  unfold getInfo
  rw [hs]
  simp only [hne, Bool.false_and, Bool.false_eq_true, if_false, hd]
  rfl

/-- **`get_info` on a truncated text**: for truncated forms enabled, a truncated date form or no date,
    any listed time form (a truncated one only if the date part is marked) and any listed zone form or
    none, `get_info` of the rendered `date T time zone` returns exactly the rendered groups of the three
    parts, the zone processed by `process_time_zone_info`, and the concatenated expression text. -/
theorem getInfo_trunc (cfg : Cfg) (hpt : cfg.pt ∈ parserTables) (hat : cfg.allowTruncated = true)
    (dpo : Option (Entry × Env))
    (hdp : ∀ de denv, dpo = some (de, denv) →
      de ∈ cfg.pt.dateEntries ∧ de.typ = .truncated ∧ fits de.tmpl denv = true)
    (te : Entry) (hte : te ∈ cfg.pt.timeEntries) (htm : te.typ = .truncated → dpMarker dpo = true)
    (zo : Option (ZEntry × Env))
    (hzo : ∀ ze zenv, zo = some (ze, zenv) → ze ∈ cfg.pt.zoneEntries ∧ fits ze.tmpl zenv = true)
    (tenv : Env) (hft : fits te.tmpl tenv = true) :
    getInfo cfg (dpText dpo ++ timeDesignator :: (trender te.tmpl tenv ++ zoneTextOf zo)) =
      (processZone cfg.zone (zoneEnvOf zo)).map fun z =>
        { dateEnv := dpEnv dpo, dateTrunc := dpMarker dpo, timeEnv := tenv, zone := z,
          expr := dpExpr dpo ++ timeDesignator :: (te.expr ++ zoneExprOf zo) } := by
  have tf := tableFacts cfg.pt hpt
  have uf := truncFacts cfg.pt hpt
  obtain ⟨_, htn⟩ := tf.times te hte
  obtain ⟨htZ, htp, hsl⟩ := timeText_ok cfg.pt tf uf te hte tenv hft
  -- the zone text
  have hzt : ZoneText (zoneTextOf zo) ∧ timeDesignator ∉ zoneTextOf zo := by
    cases zo with
    | none => exact ⟨Or.inl rfl, by simp [zoneTextOf]⟩
    | some p =>
      obtain ⟨ze, zenv⟩ := p
      obtain ⟨h1, h3⟩ := hzo ze zenv rfl
      obtain ⟨_, h5, h6⟩ := tf.zones ze h1
      exact ⟨(zone_text ze.tmpl h6 zenv h3).1, no_designator ze.tmpl h5 zenv h3⟩
  -- step 1: the split at the designator
  have hD : timeDesignator ∉ dpText dpo := by
    cases dpo with
    | none => simp [dpText]
    | some p =>
      obtain ⟨de, denv⟩ := p
      obtain ⟨h1, _, h3⟩ := hdp de denv rfl
      exact no_designator de.tmpl (tf.dates de h1).2.1 denv h3
  have hT : timeDesignator ∉ trender te.tmpl tenv ++ zoneTextOf zo := by
    intro h
    rcases List.mem_append.mp h with h | h
    · exact no_designator te.tmpl htn tenv hft h
    · exact hzt.2 h
  have hsplit := splitOnChar_one timeDesignator _ _ hD hT
  -- the filters the date part implies
  obtain ⟨bt, hbt_eq⟩ : ∃ bt : List TypeKey, bt = (if dpMarker dpo then [] else [.truncated]) := ⟨_, rfl⟩
  have hbt : bt.contains te.typ = false := by
    rw [hbt_eq]
    cases hm : dpMarker dpo
    · simp only [Bool.false_eq_true, if_false]
      cases hty : te.typ <;> first | rfl | (rw [htm hty] at hm; cases hm)
    · rfl
  obtain ⟨te', htime, htexpr⟩ :=
    getTimeInfo_rendered cfg tf te hte [] bt rfl hbt tenv hft
  have hzone : ∀ ze zenv, zo = some (ze, zenv) →
      ∃ ze', getZoneInfo cfg.pt (trender ze.tmpl zenv) [] = some (ze', zenv) ∧ ze'.expr = ze.expr := by
    intro ze zenv hz
    obtain ⟨h1, h3⟩ := hzo ze zenv hz
    exact getZoneInfo_rendered cfg.pt tf ze h1 _ rfl zenv h3
  have hsz := splitZone_spec2 cfg [] bt (trender te.tmpl tenv) (zoneTextOf zo) htZ htp
    (fun a b hs => by rw [getTimeInfo_stub cfg uf [] bt a (hsl a b hs)]; rfl) hzt.1 (by
      intro body hb
      refine ⟨by rw [htime]; rfl, ?_⟩
      cases zo with
      | none => simp [zoneTextOf] at hb
      | some p =>
        obtain ⟨ze, zenv⟩ := p
        obtain ⟨ze', hz, _⟩ := hzone ze zenv rfl
        simp only [zoneTextOf] at hb ⊢
        rw [hz]; rfl)
  have hbf : ∀ f : Option FormatKey, badFormatsOf f .truncated = [] := fun f => by simp [badFormatsOf]
  -- everything after the date part
  have hrest : ∀ fmt : Option FormatKey,
      infoRest cfg (trender te.tmpl tenv ++ zoneTextOf zo) fmt .truncated (dpExpr dpo) (dpEnv dpo)
        (dpMarker dpo) =
      (processZone cfg.zone (zoneEnvOf zo)).map fun z =>
        { dateEnv := dpEnv dpo, dateTrunc := dpMarker dpo, timeEnv := tenv, zone := z,
          expr := dpExpr dpo ++ timeDesignator :: (te.expr ++ zoneExprOf zo) } := by
    intro fmt
    unfold infoRest
    dsimp only
    rw [hbf, ← hbt_eq, hsz]
    cases zo with
    | none =>
      simp only [zoneTextOf, zoneEnvOf, zoneExprOf, if_true, htime, htexpr]
      cases processZone cfg.zone [] <;> rfl
    | some p =>
      obtain ⟨ze, zenv⟩ := p
      obtain ⟨ze', hz, hzexpr⟩ := hzone ze zenv rfl
      obtain ⟨h1, h3⟩ := hzo ze zenv rfl
      have hzne : (trender ze.tmpl zenv = []) = False := by
        simp only [eq_iff_iff, iff_false]
        exact (zone_text ze.tmpl (tf.zones ze h1).2.2 zenv h3).2
      simp only [zoneTextOf, zoneEnvOf, zoneExprOf, hzne, if_false, hz, htime, htexpr, hzexpr]
      cases processZone cfg.zone zenv <;> rfl
  -- the date
  cases dpo with
  | none =>
    rw [getInfo_emptyDate cfg hat _ _ hsplit]
    exact hrest none
  | some p =>
    obtain ⟨de, denv⟩ := p
    obtain ⟨h1, h2, h3⟩ := hdp de denv rfl
    obtain ⟨de', hget, hexpr, htyp⟩ := getDateInfo_truncated cfg hat tf de h1 h2 denv h3
    have hne : (trender de.tmpl denv).isEmpty = false := by
      cases hx : trender de.tmpl denv with
      | nil =>
        have := tmatch_trender de.tmpl denv h3
        rw [hx] at this
        have hn := (uf.dates de h1 h2).1
        rw [this] at hn
        simp at hn
      | cons _ _ => rfl
    have hdtr : Env.has denv .truncated = hasGroup de.tmpl .truncated := Env.has_fits de.tmpl denv h3 _
    rw [getInfo_withDate cfg _ _ _ hsplit hne de' denv hget, htyp, hexpr, hdtr]
    exact hrest (some de'.fmt)

end IsoDT.Text
