/-
  IsoDT.Lemmas.DurTextAltBounds — what EVERY text accepted by the date-time-like fallback yields
  (`Model.DurTextAlt.parseAltDur`): a unit-form duration whose months, days, hours, minutes and seconds
  are non-negative and whose hours, minutes and seconds are two-digit numbers (`parseAltDur_ok_bounds`).
  Only the years can be negative (the sign of an expanded year).

  The argument follows the parser: the time groups come out of `tmatch` on a listed time form
  (`getInfo_timeEnv`), a matched `[0-9]{n}` group is `n` digits (`tmatch_get_width`), the listed time
  forms have two-digit hour / minute / second groups (`timeWidths_ok`, decided over the table), the
  constructor with `is_duration=True` passes the fields through (`ctorDur_fields`).
-/
import IsoDT.Lemmas.DurTextAlt

namespace IsoDT.Model.DurTextAlt
open IsoDT IsoDT.Model IsoDT.Text IsoDT.Gen
open _root_.IsoDT.Gen.Templates (timeDesignator parser_2_all)

/-! ## A matched digit group has the template's width -/

/-- Every group named `f` in the template is `[0-9]{n}`. -/
def fldWidth (t : Template) (f : Fld) (n : Nat) : Bool :=
  t.all fun it =>
    match it with
    | .lit _ => true
    | .digits g k => g != f || k == n
    | .digitsPlus g => g != f
    | .sign g => g != f
    | .group g _ => g != f

theorem tmatch_get_width (t : Template) (f : Fld) (n : Nat) (hw : fldWidth t f n = true) :
    ∀ (s : List Char) (env : Env), tmatch t s = some env → ∀ ds, Env.get? env f = some ds →
      ds.length = n ∧ ds.all isDigit = true := by
  induction t with
  | nil =>
    intro s env h ds hg
    simp only [tmatch] at h
    split at h
    · injection h with h; subst h; simp [Env.get?] at hg
    · cases h
  | cons it t ih =>
    simp only [fldWidth, List.all_cons, Bool.and_eq_true] at hw
    have ih := ih hw.2
    have hit := hw.1
    intro s env h ds hg
    cases it with
    | lit l =>
      cases s with
      | nil => simp [tmatch] at h
      | cons c cs =>
        simp only [tmatch] at h
        split at h
        · exact ih cs env h ds hg
        · cases h
    | digits g k =>
      simp only [tmatch] at h
      split at h
      · rename_i d r e
        cases hm : tmatch t r with
        | none => rw [hm] at h; cases h
        | some env' =>
          rw [hm] at h
          simp only [Option.map_some, Option.some.injEq] at h
          subst h
          simp only [Env.get?] at hg
          split at hg
          · rename_i hgf
            injection hg with hg
            subst hg
            obtain ⟨_, e2, e3⟩ := takeDigits_some k s d r e
            simp only [Bool.or_eq_true, bne_iff_ne, ne_eq, beq_iff_eq] at hit
            rcases hit with hit | hit
            · exact absurd hgf hit
            · exact ⟨e2.trans hit, e3⟩
          · exact ih r env' hm ds hg
      · cases h
    | digitsPlus g =>
      simp only [tmatch] at h
      split at h
      · cases h
      · cases hm : tmatch t (spanDigits s).2 with
        | none => rw [hm] at h; cases h
        | some env' =>
          rw [hm] at h
          simp only [Option.map_some, Option.some.injEq] at h
          subst h
          simp only [Env.get?] at hg
          split at hg
          · rename_i hgf
            simp only [bne_iff_ne, ne_eq] at hit
            exact absurd hgf hit
          · exact ih _ env' hm ds hg
    | sign g =>
      cases s with
      | nil => simp [tmatch] at h
      | cons c cs =>
        simp only [tmatch] at h
        split at h
        · cases hm : tmatch t cs with
          | none => rw [hm] at h; cases h
          | some env' =>
            rw [hm] at h
            simp only [Option.map_some, Option.some.injEq] at h
            subst h
            simp only [Env.get?] at hg
            split at hg
            · rename_i hgf
              simp only [bne_iff_ne, ne_eq] at hit
              exact absurd hgf hit
            · exact ih cs env' hm ds hg
        · cases h
    | group g ls =>
      simp only [tmatch] at h
      split at h
      · rename_i r e
        cases hm : tmatch t r with
        | none => rw [hm] at h; cases h
        | some env' =>
          rw [hm] at h
          simp only [Option.map_some, Option.some.injEq] at h
          subst h
          simp only [Env.get?] at hg
          split at hg
          · rename_i hgf
            simp only [bne_iff_ne, ne_eq] at hit
            exact absurd hgf hit
          · exact ih r env' hm ds hg
      · cases h

theorem firstMatch_some (l : List Entry) (s : List Char) (e : Entry) (env : Env)
    (h : firstMatch l s = some (e, env)) : e ∈ l ∧ tmatch e.tmpl s = some env := by
  induction l with
  | nil => cases h
  | cons a l ih =>
    simp only [firstMatch] at h
    split at h
    · rename_i env' hm
      simp only [Option.some.injEq, Prod.mk.injEq] at h
      obtain ⟨rfl, rfl⟩ := h
      exact ⟨List.mem_cons_self, hm⟩
    · obtain ⟨h1, h2⟩ := ih h
      exact ⟨List.mem_cons_of_mem _ h1, h2⟩

/-- Two digits spell a number below 100. -/
theorem digitsVal_two (ds : List Char) (hl : ds.length = 2) (hd : ds.all isDigit = true) :
    Text.digitsVal ds < 100 := by
  match ds, hl with
  | [a, b], _ =>
    simp only [List.all_cons, List.all_nil, Bool.and_true, Bool.and_eq_true, isDigit,
      decide_eq_true_eq] at hd
    simp only [Text.digitsVal, List.foldl_cons, List.foldl_nil]
    omega

/-! ## The time groups of `get_info` -/

/-- The time groups `get_info` returns are none at all (a date alone) or what a listed time form
    matched. -/
theorem getInfo_timeEnv (cfg : Cfg) (s : List Char) (info : Info) (h : getInfo cfg s = some info) :
    info.timeEnv = [] ∨ ∃ te ∈ cfg.pt.timeEntries, ∃ str, tmatch te.tmpl str = some info.timeEnv := by
  unfold getInfo at h
  simp only at h
  repeat' split at h
  all_goals first
    | (cases h; done)
    | (injection h with h; subst h; exact Or.inl rfl)
    | (rename_i te tenv hti
       injection h with h
       subst h
       right
       unfold getTimeInfo at hti
       obtain ⟨h1, h2⟩ := firstMatch_some _ _ _ _ hti
       unfold timeOrder at h1
       exact ⟨te, (List.mem_filter.mp h1).1, _, h2⟩)

/-- The hour, minute and second groups of every listed time form are `[0-9]{2}`. -/
theorem timeWidths_ok : parser_2_all.timeEntries.all (fun e =>
    fldWidth e.tmpl .hourOfDay 2 && fldWidth e.tmpl .minuteOfHour 2 && fldWidth e.tmpl .secondOfMinute 2) = true := by
  decide +kernel

/-- An integer time group of an accepted text is a number in `0..99`. -/
theorem optInt_time_bound (m : Mode) (s : List Char) (info : Info) (h : getInfo (altCfg m) s = some info)
    (f : Fld) (hf : f = .hourOfDay ∨ f = .minuteOfHour ∨ f = .secondOfMinute) (v : Option Int)
    (ho : optInt info.timeEnv f = some v) : ∀ x, v = some x → 0 ≤ x ∧ x < 100 := by
  intro x hx
  subst hx
  unfold optInt at ho
  split at ho
  · cases ho
  · rename_i ds hg
    unfold intOf? at ho
    split at ho
    · cases ho
    · simp only [Option.map_some, Option.some.injEq] at ho
      subst ho
      rcases getInfo_timeEnv (altCfg m) s info h with he | ⟨te, hte, str, hm⟩
      · rw [he] at hg; simp [Env.get?] at hg
      · have hw := List.all_eq_true.mp timeWidths_ok te hte
        simp only [Bool.and_eq_true] at hw
        have hwf : fldWidth te.tmpl f 2 = true := by
          rcases hf with rfl | rfl | rfl
          · exact hw.1.1
          · exact hw.1.2
          · exact hw.2
        obtain ⟨h1, h2⟩ := tmatch_get_width te.tmpl f 2 hwf str _ hm ds hg
        have := digitsVal_two ds h1 h2
        omega

/-- An integer date group of an accepted text is a non-negative number. -/
theorem optInt_nonneg (env : Env) (f : Fld) (v : Option Int) (ho : optInt env f = some v) :
    ∀ x, v = some x → 0 ≤ x := by
  intro x hx
  subst hx
  unfold optInt at ho
  split at ho
  · cases ho
  · unfold intOf? at ho
    split at ho
    · cases ho
    · simp only [Option.map_some, Option.some.injEq] at ho
      subst ho
      exact Int.natCast_nonneg _

/-! ## The fields through `_create_timepoint_from_info`, the constructor and the `result_map` -/

theorem assemble_fields (cfg : Cfg) (info : Info) (dump : Option (List Char)) (a : Args)
    (h : assemble cfg info dump = some a) :
    optInt info.dateEnv .monthOfYear = some a.month ∧ optInt info.dateEnv .dayOfMonth = some a.day ∧
    optInt info.dateEnv .dayOfYear = some a.doy ∧ optInt info.timeEnv .hourOfDay = some a.hour ∧
    optInt info.timeEnv .minuteOfHour = some a.minute ∧ optInt info.timeEnv .secondOfMinute = some a.second := by
  unfold assemble at h
  simp only at h
  split at h
  · rename_i dec yy cc xx mo dd doy wk dow e1 e2 e3 e4 e5 e6 e7 e8 e9
    split at h
    · rename_i hh mi ss f1 f2 f3
      injection h with h
      subst h
      exact ⟨e5, e6, e7, f1, f2, f3⟩
    · cases h
  · cases h

theorem ctorDur_fields (m : Mode) (a : Args) (p : XTP) (h : ctorDur m a = some p) :
    p.month = a.month ∧ p.day = a.day ∧ p.doy = a.doy ∧ p.week = a.week ∧
    (p.hour = a.hour ∨ p.hour = some 0) ∧ (p.minute = a.minute ∨ p.minute = some 0) ∧
    (p.second = a.second ∨ p.second = some 0) := by
  unfold ctorDur at h
  simp only at h
  repeat' split at h
  all_goals first
    | (cases h; done)
    | (injection h with h
       subst h
       refine ⟨rfl, rfl, rfl, rfl, ?_, ?_, ?_⟩ <;> simp)

theorem getD_bound (o a : Option Int) (ho : o = a ∨ o = some 0) (hb : ∀ x, a = some x → 0 ≤ x ∧ x < 100) :
    0 ≤ o.getD 0 ∧ o.getD 0 < 100 := by
  cases o with
  | none => simp
  | some v =>
    rcases ho with ho | ho
    · exact hb v ho.symm
    · injection ho with ho; subst ho; simp

/-- **Every accepted text**: whatever text the fallback accepts with whole components, the result is a
    unit-form duration with months, days, hours, minutes, seconds ≥ 0 and hours, minutes, seconds < 100.
    (Only the years can be negative.) -/
theorem parseAltDur_ok_bounds (m : Mode) (s : List Char) (D : Dur) (h : parseAltDur m s = .ok D) :
    ∃ y mo d hh mi sec : Int, D = .units y mo d hh mi sec ∧ 0 ≤ mo ∧ 0 ≤ d ∧
      0 ≤ hh ∧ hh < 100 ∧ 0 ≤ mi ∧ mi < 100 ∧ 0 ≤ sec ∧ sec < 100 := by
  unfold parseAltDur at h
  cases hp : parseAltTP m s with
  | none => rw [hp] at h; cases h
  | some p =>
    rw [hp] at h
    simp only [altOfTP] at h
    unfold parseAltTP at hp
    cases hi : getInfo (altCfg m) s with
    | none => rw [hi] at hp; cases hp
    | some info =>
      rw [hi] at hp
      simp only at hp
      cases ha : assemble (altCfg m) info none with
      | none => rw [ha] at hp; cases hp
      | some a =>
        rw [ha] at hp
        simp only at hp
        obtain ⟨a1, a2, a3, a4, a5, a6⟩ := assemble_fields _ _ _ _ ha
        obtain ⟨c1, c2, c3, _, c5, c6, c7⟩ := ctorDur_fields m a p hp
        have bh := optInt_time_bound m s info hi .hourOfDay (Or.inl rfl) a.hour a4
        have bmi := optInt_time_bound m s info hi .minuteOfHour (Or.inr (Or.inl rfl)) a.minute a5
        have bs := optInt_time_bound m s info hi .secondOfMinute (Or.inr (Or.inr rfl)) a.second a6
        have nmo := optInt_nonneg _ _ _ a1
        have nd := optInt_nonneg _ _ _ a2
        have ndoy := optInt_nonneg _ _ _ a3
        unfold durOf at h
        split at h
        · cases h
        · split at h
          · rename_i y hh hy hhour
            simp only at h
            have hmo : 0 ≤ p.month.getD 0 := by
              rw [c1]
              cases hmo : a.month with
              | none => simp
              | some x => exact nmo x hmo
            have hd : 0 ≤ (match p.doy with
                | some n => n
                | none => if p.month.isSome = true then p.day.getD 0 else 0) := by
              rw [c3, c2]
              cases hdoy : a.doy with
              | some n => exact ndoy n hdoy
              | none =>
                simp only
                split
                · cases hday : a.day with
                  | none => simp
                  | some x => exact nd x hday
                · exact Int.le_refl 0
            by_cases hdec : (p.hourDec.isNone && p.minuteDec.isNone && p.secondDec.isNone) = true
            · rw [if_pos hdec] at h
              injection h with h
              rw [IsoDT.Lemmas.DurText.mkDur_units] at h
              subst h
              have hb1 := getD_bound p.hour a.hour c5 bh
              rw [hhour] at hb1
              have hb2 := getD_bound p.minute a.minute c6 bmi
              have hb3 := getD_bound p.second a.second c7 bs
              exact ⟨y, _, _, hh, _, _, rfl, hmo, hd, hb1.1, hb1.2, hb2.1, hb2.2, hb3.1, hb3.2⟩
            · rw [if_neg hdec] at h
              split at h <;> cases h
          · cases h

/-! ## No truncated point, hence no missing component -/

theorem tmatch_fields (t : Template) : ∀ (s : List Char) (env : Env), tmatch t s = some env →
    env.map Prod.fst = groupFields t := by
  induction t with
  | nil =>
    intro s env h
    simp only [tmatch] at h
    split at h
    · injection h with h; subst h; rfl
    · cases h
  | cons it t ih =>
    intro s env h
    cases it with
    | lit l =>
      cases s with
      | nil => simp [tmatch] at h
      | cons c cs =>
        simp only [tmatch] at h
        split at h
        · simpa [groupFields] using ih cs env h
        · cases h
    | digits g k =>
      simp only [tmatch] at h
      split at h
      · rename_i d r e
        cases hm : tmatch t r with
        | none => rw [hm] at h; cases h
        | some env' =>
          rw [hm] at h
          simp only [Option.map_some, Option.some.injEq] at h
          subst h
          simp [groupFields, ih r env' hm]
      · cases h
    | digitsPlus g =>
      simp only [tmatch] at h
      split at h
      · cases h
      · cases hm : tmatch t (spanDigits s).2 with
        | none => rw [hm] at h; cases h
        | some env' =>
          rw [hm] at h
          simp only [Option.map_some, Option.some.injEq] at h
          subst h
          simp [groupFields, ih _ env' hm]
    | sign g =>
      cases s with
      | nil => simp [tmatch] at h
      | cons c cs =>
        simp only [tmatch] at h
        split at h
        · cases hm : tmatch t cs with
          | none => rw [hm] at h; cases h
          | some env' =>
            rw [hm] at h
            simp only [Option.map_some, Option.some.injEq] at h
            subst h
            simp [groupFields, ih cs env' hm]
        · cases h
    | group g ls =>
      simp only [tmatch] at h
      split at h
      · rename_i r e
        cases hm : tmatch t r with
        | none => rw [hm] at h; cases h
        | some env' =>
          rw [hm] at h
          simp only [Option.map_some, Option.some.injEq] at h
          subst h
          simp [groupFields, ih r env' hm]
      · cases h

theorem has_of_tmatch (t : Template) (s : List Char) (env : Env) (h : tmatch t s = some env) (f : Fld) :
    Env.has env f = hasGroup t f := by
  rw [Env.has_iff, tmatch_fields t s env h]; rfl

/-- No complete or reduced date form has a truncation marker; each has a century group. -/
theorem dateForms_not_truncated : (dateOrder parser_2_all (dateTypes false [])).all (fun e =>
    !hasGroup e.tmpl .truncated && hasGroup e.tmpl .century) = true := by decide +kernel

/-- No complete or reduced time form has a truncation marker. -/
theorem timeForms_not_truncated : parser_2_all.timeEntries.all (fun e =>
    e.typ == .truncated || !hasGroup e.tmpl .truncated) = true := by decide +kernel

/-- With `allow_truncated=False`, what `get_info` returns is never marked truncated: the date groups
    come from a complete or reduced form (century present, no marker), the time groups from a
    non-truncated form. -/
theorem getInfo_not_truncated (m : Mode) (s : List Char) (info : Info) (h : getInfo (altCfg m) s = some info) :
    info.dateTrunc = false ∧ Env.has info.dateEnv .century = true ∧ Env.has info.timeEnv .truncated = false := by
  have dateFact : ∀ (bad : List TypeKey) (hb : ∀ t ∈ dateTypes false bad, t ∈ dateTypes false [])
      (date : List Char) (e : Entry) (denv : Env),
      getDateInfo (altCfg m) date bad = some (e, denv) →
      Env.has denv .truncated = false ∧ Env.has denv .century = true := by
    intro bad hb date e denv hg
    unfold getDateInfo at hg
    obtain ⟨h1, h2⟩ := firstMatch_some _ _ _ _ hg
    have h1' : e ∈ dateOrder parser_2_all (dateTypes false []) := dateOrder_mono _ _ _ hb e h1
    have hf := List.all_eq_true.mp dateForms_not_truncated e h1'
    simp only [Bool.and_eq_true, Bool.not_eq_true'] at hf
    rw [has_of_tmatch _ _ _ h2, has_of_tmatch _ _ _ h2]
    exact hf
  unfold getInfo at h
  simp only at h
  repeat' split at h
  all_goals first
    | (cases h; done)
    | skip
  · -- a date alone
    rename_i e denv hg _ _ _
    injection h with h
    subst h
    obtain ⟨g1, g2⟩ := dateFact [] (fun t ht => ht) _ e denv hg
    exact ⟨g1, g2, rfl⟩
  · -- date T time zone
    rename_i fmt typ dexpr denv dtrunc hd _ _ _ _ _ _ _ _ _ te tenv hti
    injection h with h
    subst h
    have ha : (altCfg m).allowTruncated = false := rfl
    simp only [ha, Bool.and_false, Bool.false_eq_true, if_false] at hd
    split at hd
    · cases hd
    · rename_i e denv' hg
      simp only [Option.some.injEq, Prod.mk.injEq] at hd
      obtain ⟨_, _, _, rfl, rfl⟩ := hd
      obtain ⟨g1, g2⟩ := dateFact [.reduced] (by decide) _ e denv' hg
      refine ⟨g1, g2, ?_⟩
      rw [g1] at hti
      simp only [Bool.false_eq_true, if_false] at hti
      unfold getTimeInfo at hti
      obtain ⟨h1, h2⟩ := firstMatch_some _ _ _ _ hti
      unfold timeOrder at h1
      obtain ⟨h3, h4⟩ := List.mem_filter.mp h1
      have hf := List.all_eq_true.mp timeForms_not_truncated te h3
      rw [has_of_tmatch _ _ _ h2]
      simp only [Bool.and_eq_true, Bool.not_eq_true', List.contains_cons, List.contains_nil, Bool.or_false,
        beq_eq_false_iff_ne, ne_eq] at h4
      simp only [Bool.or_eq_true, beq_iff_eq, Bool.not_eq_true'] at hf
      rcases hf with hf | hf
      · exact absurd hf h4.2
      · exact hf

/-- **No missing component**: the time point the fallback builds always has its year and its hour (it is
    never a truncated point), so the `Duration` built from it never has a `None` slot: the last branch of
    `durOf` is dead code. -/
theorem parseAltTP_complete (m : Mode) (s : List Char) (p : XTP) (h : parseAltTP m s = some p) :
    p.truncated = false ∧ p.year.isSome = true ∧ p.hour.isSome = true := by
  unfold parseAltTP at h
  cases hi : getInfo (altCfg m) s with
  | none => rw [hi] at h; cases h
  | some info =>
    rw [hi] at h
    simp only at h
    obtain ⟨t1, t2, t3⟩ := getInfo_not_truncated m s info hi
    cases ha : assemble (altCfg m) info none with
    | none => rw [ha] at h; cases h
    | some a =>
      rw [ha] at h
      simp only at h
      have hat : a.truncated = false := by
        unfold assemble at ha
        simp only at ha
        split at ha
        · split at ha
          · injection ha with ha
            subst ha
            simp [t1, t2, t3]
          · cases ha
        · cases ha
      unfold ctorDur at h
      simp only [hat] at h
      repeat' split at h
      all_goals first
        | (cases h; done)
        | (injection h with h
           subst h
           simp_all [Option.isSome_iff_ne_none])

end IsoDT.Model.DurTextAlt
