/-
  IsoDT.Lemmas.RecShift — helper lemmas for shifting recurrences (`TimeRecurrence.__add__`):
  what `Rec.shift` rebuilds in each notation, and reading two arithmetic series pointwise.
-/
import IsoDT.Lemmas.Rec

namespace IsoDT.Lemmas
open IsoDT IsoDT.Model
open IsoDT.Spec (Date TZ TP)

/-! ### two series that differ by a constant, read pointwise -/

/-- If `l` is the series `i0, i0+step, …` and `l'` the series `i0+c, i0+c+step, …` (same
    representation and offset, at least as long), then the `k`-th point of `l'` is a valid point
    `c` seconds after the `k`-th point of `l`, in the same representation and offset. -/
theorem series_shift_get? (m : Mode) (rep : Nat) (tz : TZ) :
    ∀ (l l' : List TP) (i0 c step : Int),
      SeriesOK m rep tz l i0 step → SeriesOK m rep tz l' (i0 + c) step → l.length ≤ l'.length →
      ∀ (k : Nat) (p : TP), l[k]? = some p →
        ∃ p', l'[k]? = some p' ∧ p'.inst m = p.inst m + c ∧ p.Valid m ∧ p'.Valid m ∧
          p'.date.rep = p.date.rep ∧ p'.tz = p.tz := by
  intro l
  induction l with
  | nil => intro l' _ _ _ _ _ _ k p h; simp at h
  | cons q rest ih =>
    intro l' i0 c step h1 h2 hlen k p hk
    cases l' with
    | nil => simp at hlen
    | cons q' rest' =>
      obtain ⟨a1, a2, a3, a4, a5⟩ := h1
      obtain ⟨b1, b2, b3, b4, b5⟩ := h2
      cases k with
      | zero =>
        simp only [List.getElem?_cons_zero, Option.some.injEq] at hk
        subst hk
        exact ⟨q', rfl, by rw [a1, b1], a2, b2, by rw [a3, b3], by rw [a4, b4]⟩
      | succ j =>
        simp only [List.getElem?_cons_succ] at hk ⊢
        have e : i0 + c + step = i0 + step + c := by omega
        rw [e] at b5
        exact ih rest' (i0 + step) c step a5 b5 (by simpa using hlen) j p hk

/-! ### what `__add__` rebuilds -/

/-- start/duration notation: the constructor is re-run on the moved start and the stored interval. -/
theorem shift_fmt3_eq (m : Mode) (reps : Option Int) (s s' : TP) (d x : Dur) (en sec : Option TP)
    (h : addDur m s x = some s') :
    Rec.shift m ⟨reps, some s, some d, en, sec, 3⟩ x = mkRec m reps (some s') (some d) none := by
  simp only [Rec.shift, h, Option.bind_some, Option.getD_some]

/-- duration/end notation: the constructor is re-run on the moved end and the stored interval. -/
theorem shift_fmt4_eq (m : Mode) (reps : Option Int) (st sec : Option TP) (e e' : TP) (d x : Dur)
    (h : addDur m e x = some e') :
    Rec.shift m ⟨reps, st, some d, some e, sec, 4⟩ x = mkRec m reps none (some d) (some e') := by
  simp only [Rec.shift, h, Option.bind_some, Option.getD_some]

/-- start/second-point notation: the constructor is re-run on the moved start and second point. -/
theorem shift_fmt1_eq (m : Mode) (reps : Option Int) (s s' e2 e2' : TP) (du : Option Dur)
    (en : Option TP) (x : Dur) (h1 : addDur m s x = some s') (h2 : addDur m e2 x = some e2') :
    Rec.shift m ⟨reps, some s, du, en, some e2, 1⟩ x = mkRec m reps (some s') none (some e2') := by
  simp only [Rec.shift, h1, h2, Option.bind_some]

/-- Adding `x` and then `−x` (both exact) returns to the same instant. -/
theorem addDur_neg_inst (m : Mode) (p : TP) (x : Dur) (hp : p.Valid m) (hx : x.isExact = true) :
    ∃ p1 p2, addDur m p x = some p1 ∧ Good m p p1 (x.exactSeconds m) ∧
      addDur m p1 (x.mul (-1)) = some p2 ∧ Good m p1 p2 (-(x.exactSeconds m)) ∧ p2.inst m = p.inst m := by
  obtain ⟨p1, h1, g1⟩ := addDur_exact m p x hp hx
  obtain ⟨p2, h2, g2⟩ := addDur_exact m p1 (x.mul (-1)) g1.strict.1 (mul_exact x _ hx)
  have e : (x.mul (-1)).exactSeconds m = -(x.exactSeconds m) := by rw [mul_exactSeconds]; omega
  rw [e] at g2
  exact ⟨p1, p2, h1, g1, h2, g2, by rw [g2.inst, g1.inst]; omega⟩

/-- Equal exact durations (`Duration.__eq__`) are those of equal length. -/
theorem dur_eq_of_exact (m : Mode) (a b : Dur) (ha : a.isExact = true) (hb : b.isExact = true)
    (h : a.exactSeconds m = b.exactSeconds m) : Dur.eq m a b = true := by
  rw [dur_eq_iff]
  exact ⟨by rw [(dur_isExact_iff a).mp ha, (dur_isExact_iff b).mp hb], h⟩

end IsoDT.Lemmas
