/-
  IsoDT.Lemmas.RecurrenceQFirst — `get_first_after` on rational recurrences
  (`Model.RecurrenceQFirst`): the closed form for an exact positive interval in terms of rational
  instants, leastness on the grid `inst(start) + k·L`, validity of the result, the pre-repair
  (`floor`) variant on whole-number offsets, and agreement with the whole-second model
  (`Model.Recurrence.getFirstAfter`) on embedded inputs.

  Everything is in its own namespace `IsoDT.Lemmas.RecurrenceQFirst`.
-/
import IsoDT.Model.RecurrenceQFirst
import IsoDT.Lemmas.RecurrenceQQuery
import IsoDT.Lemmas.RecurrenceQInt

namespace IsoDT.Lemmas.RecurrenceQFirst
open IsoDT IsoDT.Model IsoDT.Lemmas IsoDT.Lemmas.DQ
open IsoDT.Spec (Date TZ TP)

/-! ### arithmetic -/

/-- `get_seconds` of an exact duration is its exact length. -/
theorem seconds_exact (m : Mode) (a : DurationQ) (h : a.isExact = true) : a.seconds m = len a := by
  unfold DurationQ.seconds; rw [if_pos h, exactSeconds_eq]

theorem pyDivmodQ_ne (x L : Rat) (h : L ≠ 0) :
    pyDivmodQ x L = some ((x / L).floor, x - ((x / L).floor : Rat) * L) := by
  unfold pyDivmodQ; rw [if_neg h]

/-- Floor division by a positive rational: `q·L ≤ x < (q+1)·L`. -/
theorem floor_div_spec (x L : Rat) (hL : 0 < L) :
    ((x / L).floor : Rat) * L ≤ x ∧ x < ((x / L).floor : Rat) * L + L := by
  have hne : L ≠ 0 := Rat.ne_of_gt hL
  have h1 := Rat.floor_le (x / L)
  have h2 := Rat.lt_floor_add_one (x / L)
  have h3 := Rat.mul_le_mul_of_nonneg_right h1 (Rat.le_of_lt hL)
  have h4 := Rat.mul_lt_mul_of_pos_right h2 hL
  rw [Rat.div_mul_cancel hne] at h3 h4
  rw [Rat.intCast_add, Rat.add_mul] at h4
  exact ⟨h3, by grind⟩

theorem floor_div_nonneg (x L : Rat) (hL : 0 < L) (hx : 0 ≤ x) : 0 ≤ (x / L).floor := by
  apply Rat.le_floor_iff.2
  have : (0 : Rat) ≤ x / L := by
    rw [Rat.div_def]
    exact Rat.mul_nonneg hx (Rat.le_of_lt (Rat.inv_pos.2 hL))
  simpa using this

theorem natCast_mul_le (a b : Nat) (L : Rat) (hL : 0 < L) (h : a ≤ b) : (a : Rat) * L ≤ (b : Rat) * L :=
  Rat.mul_le_mul_of_nonneg_right (Rat.natCast_le_natCast.2 h) (Rat.le_of_lt hL)

/-- On the grid `i0 + k·L` (`L > 0`): if `i0 + j·L ≤ x < i0 + k·L` then `j < k`. -/
theorem grid_lt (i0 L x : Rat) (hL : 0 < L) (j k : Nat) (h1 : i0 + (j : Rat) * L ≤ x)
    (h2 : x < i0 + (k : Rat) * L) : j < k := by
  rcases Nat.lt_or_ge j k with c | c
  · exact c
  · exfalso
    have := natCast_mul_le k j L hL c
    grind

/-! ### the duration that is added -/

theorem sub_seconds_exact (m : Mode) (d : DurationQ) (c : Rat) (h : d.isExact = true) :
    (DurationQ.sub m d (.units 0 0 0 0 0 c)).isExact = true := by
  rw [isExact_iff] at h ⊢
  unfold DurationQ.sub
  rw [add_ym, mul_ym, h]
  rfl

theorem sub_seconds_len (m : Mode) (d : DurationQ) (c : Rat) :
    len (DurationQ.sub m d (.units 0 0 0 0 0 c)) = len d - c := by
  unfold DurationQ.sub
  rw [add_len, mul_len]
  have : ((-1 : Int) : Rat) = -1 := rfl
  simp only [len, this, Rat.intCast_zero]
  grind

/-! ### the closed form -/

/-- The remainder `divmod` returns: `x − ⌊x/L⌋·L`. -/
def remQ (x L : Rat) : Rat := x - ((x / L).floor : Rat) * L

/-- `get_first_after` on a probe within the bounds of a recurrence with an exact positive
    interval, unfolded: the candidate is `p + (d − Duration(seconds=adj(rem)))` where
    `rem = x − ⌊x/L⌋·L`, `x = inst p − inst s`; it is returned iff it is within the bounds. -/
theorem closed_form_unfold (adj : Rat → Rat) (m : Mode) (r : RecQ) (d : DurationQ) (L : Rat)
    (hr : ExactRecQ m r d L) (s : TPQ) (hs : r.start = some s) (p : TPQ) (hp : p.Valid m) (fuel : Nat)
    (hb : inBoundsQ m r p = true) :
    getFirstAfterWithQ adj m r p fuel =
      match addDurationQ m p (DurationQ.sub m d (.units 0 0 0 0 0 (adj (remQ (p.inst m - s.inst m) L)))) with
      | some q => if inBoundsQ m r q then some q else none
      | none => none := by
  have hsv := hr.startValid s hs
  obtain ⟨dd, hI, mI, sR, hd, hl, _, _⟩ := subTPQ_spec m p s hp hsv
  have hxsec : (DurationQ.ofDurQ ⟨dd, (hI : Rat), (mI : Rat), sR⟩).seconds m = p.inst m - s.inst m := by
    rw [seconds_exact m _ rfl]; simp only [DurationQ.ofDurQ, len]; exact hl
  have hLsec : d.seconds m = L := by rw [seconds_exact m d hr.exact, hr.len]
  have hne : L ≠ 0 := Rat.ne_of_gt hr.pos
  unfold getFirstAfterWithQ remQ
  simp only [hs, hb, ↓reduceIte, hr.dur, hr.exact, hd, hxsec, hLsec, pyDivmodQ_ne _ _ hne]
  rfl

theorem closed_form (adj : Rat → Rat) (m : Mode) (r : RecQ) (d : DurationQ) (L : Rat) (hr : ExactRecQ m r d L)
    (s : TPQ) (hs : r.start = some s) (p : TPQ) (hp : p.Valid m) (fuel : Nat) (hb : inBoundsQ m r p = true) :
    ∃ t, GoodQ m p t (L - adj ((p.inst m - s.inst m) -
          (((p.inst m - s.inst m) / L).floor : Rat) * L)) ∧
      getFirstAfterWithQ adj m r p fuel = (if inBoundsQ m r t then some t else none) := by
  obtain ⟨t, ht, g⟩ := addDurationQ_exact m p
    (DurationQ.sub m d (.units 0 0 0 0 0 (adj (remQ (p.inst m - s.inst m) L)))) hp
    (sub_seconds_exact m d _ hr.exact)
  rw [sub_seconds_len, hr.len] at g
  refine ⟨t, g, ?_⟩
  rw [closed_form_unfold adj m r d L hr s hs p hp fuel hb, ht]

/-- The arithmetic of the closed form (current Python, `adj = id`): with `K = ⌊x/L⌋ + 1` the
    candidate `p + (L − rem)` is at `inst s + K·L`, strictly after `p` and at most `L` after it. -/
theorem target_arith (is ip L : Rat) (hL : 0 < L) (hge : is ≤ ip) :
    ∃ K : Nat, (K : Int) = ((ip - is) / L).floor + 1 ∧ 1 ≤ K ∧
      ip + (L - ((ip - is) - (((ip - is) / L).floor : Rat) * L)) = is + (K : Rat) * L ∧
      is + ((K - 1 : Nat) : Rat) * L ≤ ip ∧ ip < is + (K : Rat) * L := by
  have hq0 := floor_div_nonneg (ip - is) L hL (by grind)
  obtain ⟨f1, f2⟩ := floor_div_spec (ip - is) L hL
  refine ⟨(((ip - is) / L).floor + 1).toNat, by omega, by omega, ?_, ?_, ?_⟩
  · have e : (((((ip - is) / L).floor + 1).toNat : Nat) : Rat) = ((((ip - is) / L).floor : Int) : Rat) + 1 := by
      have : (((((ip - is) / L).floor + 1).toNat : Nat) : Int) = ((ip - is) / L).floor + 1 := by omega
      rw [← Rat.intCast_natCast, this, Rat.intCast_add]; rfl
    rw [e]; grind
  · have e : ((((((ip - is) / L).floor + 1).toNat - 1 : Nat)) : Rat) = ((((ip - is) / L).floor : Int) : Rat) := by
      have : ((((((ip - is) / L).floor + 1).toNat - 1 : Nat)) : Int) = ((ip - is) / L).floor := by omega
      rw [← Rat.intCast_natCast, this]
    rw [e]; grind
  · have e : (((((ip - is) / L).floor + 1).toNat : Nat) : Rat) = ((((ip - is) / L).floor : Int) : Rat) + 1 := by
      have : (((((ip - is) / L).floor + 1).toNat : Nat) : Int) = ((ip - is) / L).floor + 1 := by omega
      rw [← Rat.intCast_natCast, this, Rat.intCast_add]; rfl
    rw [e]; grind

theorem before_start (adj : Rat → Rat) (m : Mode) (r : RecQ) (s p : TPQ) (hs : r.start = some s)
    (hb : inBoundsQ m r p = false) (h : tpLtQ m p s = true) (fuel : Nat) :
    getFirstAfterWithQ adj m r p fuel = some s := by
  unfold getFirstAfterWithQ
  simp only [hs, hb, Bool.false_eq_true, ↓reduceIte, h]

theorem after_end (adj : Rat → Rat) (m : Mode) (r : RecQ) (s p : TPQ) (hs : r.start = some s)
    (hb : inBoundsQ m r p = false) (h : tpLtQ m p s = false) (fuel : Nat) :
    getFirstAfterWithQ adj m r p fuel = none := by
  unfold getFirstAfterWithQ
  simp only [hs, hb, Bool.false_eq_true, ↓reduceIte, h]

theorem tpLtQ_false_of (m : Mode) (a b : TPQ) (ha : a.Valid m) (hb : b.Valid m) (h : ¬ a.inst m < b.inst m) :
    tpLtQ m a b = false := by
  cases c : tpLtQ m a b
  · rfl
  · exact absurd ((tpLtQ_iff m a b ha hb).mp c) h

theorem inBoundsQ_false_of (m : Mode) (r : RecQ) (p : TPQ) (h : ¬ inBoundsQ m r p = true) : inBoundsQ m r p = false := by
  cases c : inBoundsQ m r p
  · rfl
  · exact absurd c h

/-- **The core statement.**  A recurrence with exact interval `L > 0` and start `s`, whose series
    has `n` members (`N = some n`: the end point is at `inst s + (n−1)·L`) or is unbounded
    (`N = none`).  For any legal probe `p`:
    before the start → the start; after the last member → `None`; otherwise, with
    `K = ⌊(inst p − inst s)/L⌋ + 1`, the instant `inst s + K·L` is strictly later than `p`, the
    member before it (`K − 1`) is at or before `p` — so no grid instant lies strictly between — and
    the result is the point at that instant in `p`'s zone, representation and precision form when
    `K` is a member index, `None` when it is not. -/
theorem core (m : Mode) (r : RecQ) (d : DurationQ) (L : Rat) (hr : ExactRecQ m r d L) (s : TPQ)
    (hs : r.start = some s) (N : Option Nat)
    (hend : ∀ n, N = some n → ∃ e, r.end_ = some e ∧ e.inst m = s.inst m + ((n - 1 : Nat) : Rat) * L)
    (hunb : N = none → r.end_ = none) (p : TPQ) (hp : p.Valid m) (fuel : Nat) :
    (p.inst m < s.inst m → getFirstAfterQ m r p fuel = some s) ∧
    (∀ n, N = some n → s.inst m + ((n - 1 : Nat) : Rat) * L < p.inst m →
      getFirstAfterQ m r p fuel = none) ∧
    (s.inst m ≤ p.inst m → (∀ n, N = some n → p.inst m ≤ s.inst m + ((n - 1 : Nat) : Rat) * L) →
      ∃ K : Nat, (K : Int) = ((p.inst m - s.inst m) / L).floor + 1 ∧ 1 ≤ K ∧
        s.inst m + ((K - 1 : Nat) : Rat) * L ≤ p.inst m ∧
        p.inst m < s.inst m + (K : Rat) * L ∧
        (∀ k : Nat, p.inst m < s.inst m + (k : Rat) * L → s.inst m + (K : Rat) * L ≤ s.inst m + (k : Rat) * L) ∧
        ((∀ n, N = some n → K < n) →
          ∃ q, getFirstAfterQ m r p fuel = some q ∧ q.inst m = s.inst m + (K : Rat) * L ∧
            GoodQ m p q (s.inst m + (K : Rat) * L - p.inst m) ∧ inBoundsQ m r q = true) ∧
        (getFirstAfterQ m r p fuel = none ↔ ∃ n, N = some n ∧ n ≤ K)) := by
  have hsv := hr.startValid s hs
  have hpos := hr.pos
  have hbi := inBoundsQ_iff m r p hp hr.startValid hr.endValid
  refine ⟨?_, ?_, ?_⟩
  · intro hlt
    have hb : inBoundsQ m r p = false := by
      apply inBoundsQ_false_of; intro c
      have := (hbi.mp c).1 s hs; grind
    exact before_start _ m r s p hs hb ((tpLtQ_iff m p s hp hsv).mpr hlt) fuel
  · intro n hn hlt
    obtain ⟨e, he, hei⟩ := hend n hn
    have hb : inBoundsQ m r p = false := by
      apply inBoundsQ_false_of; intro c
      have := (hbi.mp c).2 e he; grind
    have h0 : (0 : Rat) ≤ ((n - 1 : Nat) : Rat) * L := Rat.mul_nonneg Rat.natCast_nonneg (Rat.le_of_lt hpos)
    exact after_end _ m r s p hs hb (tpLtQ_false_of m p s hp hsv (by grind)) fuel
  · intro hge hle
    have hb : inBoundsQ m r p = true := by
      rw [hbi]
      refine ⟨fun s' h => by rw [hs] at h; cases h; exact hge, fun e he => ?_⟩
      cases hN : N with
      | none => rw [hunb hN] at he; cases he
      | some n =>
        obtain ⟨e', he', hei⟩ := hend n hN
        rw [he] at he'; cases he'
        rw [hei]; exact hle n hN
    obtain ⟨t, g, hfa⟩ := closed_form (fun x => x) m r d L hr s hs p hp fuel hb
    obtain ⟨K, hK, hK1, harith, hprev, hnext⟩ := target_arith (s.inst m) (p.inst m) L hpos hge
    have hti : t.inst m = s.inst m + (K : Rat) * L := by rw [g.inst]; exact harith
    have hbt := inBoundsQ_iff m r t g.valid hr.startValid hr.endValid
    have hK0 : (0 : Rat) ≤ (K : Rat) * L := Rat.mul_nonneg Rat.natCast_nonneg (Rat.le_of_lt hpos)
    have hsome : (∀ n, N = some n → K < n) →
        ∃ q, getFirstAfterQ m r p fuel = some q ∧ q.inst m = s.inst m + (K : Rat) * L ∧
          GoodQ m p q (s.inst m + (K : Rat) * L - p.inst m) ∧ inBoundsQ m r q = true := by
      intro hmem
      have hbt' : inBoundsQ m r t = true := by
        rw [hbt]
        refine ⟨fun s' h => by rw [hs] at h; cases h; rw [hti]; grind, fun e he => ?_⟩
        cases hN : N with
        | none => rw [hunb hN] at he; cases he
        | some n =>
          obtain ⟨e', he', hei⟩ := hend n hN
          rw [he] at he'; cases he'
          have := natCast_mul_le K (n - 1) L hpos (by have := hmem n hN; omega)
          rw [hei, hti]; grind
      refine ⟨t, ?_, hti, ?_, hbt'⟩
      · unfold getFirstAfterQ; rw [hfa, if_pos hbt']
      · have : s.inst m + (K : Rat) * L - p.inst m =
            L - ((p.inst m - s.inst m) - (((p.inst m - s.inst m) / L).floor : Rat) * L) := by grind
        rw [this]; exact g
    have hnone : (∃ n, N = some n ∧ n ≤ K) → getFirstAfterQ m r p fuel = none := by
      rintro ⟨n, hN, hnK⟩
      obtain ⟨e, he, hei⟩ := hend n hN
      have hbt' : ¬ inBoundsQ m r t = true := by
        intro c
        have h1 := (hbt.mp c).2 e he
        rw [hei, hti] at h1
        have h2 : K < (n - 1) + 1 := by
          apply grid_lt (s.inst m) L (s.inst m + (K : Rat) * L) hpos K ((n - 1) + 1) (Rat.le_refl)
          rw [natCast_succ_mul]; grind
        omega
      unfold getFirstAfterQ; rw [hfa, if_neg hbt']
    have hiff : getFirstAfterQ m r p fuel = none ↔ ∃ n, N = some n ∧ n ≤ K := by
      refine ⟨fun h0 => ?_, hnone⟩
      cases hN : N with
      | none =>
        obtain ⟨q, hq, _⟩ := hsome (fun n h => by rw [hN] at h; cases h)
        rw [h0] at hq; cases hq
      | some n =>
        rcases Nat.lt_or_ge K n with c | c
        · obtain ⟨q, hq, _⟩ := hsome (fun n' h => by rw [hN] at h; cases h; exact c)
          rw [h0] at hq; cases hq
        · exact ⟨n, rfl, c⟩
    refine ⟨K, hK, hK1, hprev, hnext, ?_, hsome, hiff⟩
    intro k hk
    have hlt : K - 1 < k := grid_lt (s.inst m) L (p.inst m) hpos (K - 1) k hprev hk
    have := natCast_mul_le K k L hpos (by omega)
    grind

/-! ### the result is a member as `get_is_valid` sees it -/

/-- A legal point within the bounds at a grid instant `inst s + K·L` is accepted by
    `get_is_valid` once the scanned prefix is longer than `K`. -/
theorem valid_of_on_grid (m : Mode) (r : RecQ) (d : DurationQ) (L : Rat) (hr : ExactRecQ m r d L) (s : TPQ)
    (hs : r.start = some s) (q : TPQ) (hq : q.Valid m) (hb : inBoundsQ m r q = true) (K : Nat)
    (hqi : q.inst m = s.inst m + (K : Rat) * L) (fuel : Nat) (hf : K < fuel) :
    getIsValidQ m r q fuel = true := by
  have hsv := hr.startValid s hs
  have hpos := hr.pos
  rw [getIsValidQ_iff m r d L hr (Or.inl (by rw [hs]; rfl)) q hq fuel, iterQ_fwd m r d L hr s hs fuel]
  obtain ⟨ser, hlenB, hlenU⟩ := iterFromQ_fwd m r d L hr fuel s hsv
    (fun s' h => by rw [hs] at h; cases h; exact Rat.le_refl)
  rw [seriesQ_mem_iff m s _ _ _ ser (q.inst m)]
  refine ⟨K, ?_, hqi⟩
  cases he : r.end_ with
  | none => rw [hlenU he]; exact hf
  | some e =>
    have hbq := (inBoundsQ_iff m r q hq hr.startValid hr.endValid).mp hb
    have hqe := hbq.2 e he
    have hsq := hbq.1 s hs
    obtain ⟨K', _, hK1, _, hprev, hnext⟩ := target_arith (s.inst m) (e.inst m) L hpos (by grind)
    have hlen := hlenB e he (K' - 1) hprev (by rw [show K' - 1 + 1 = K' by omega]; exact hnext)
    rw [hlen]
    have : K < K' := grid_lt (s.inst m) L (e.inst m) hpos K K' (by rw [← hqi]; exact hqe) hnext
    omega

/-- Whatever `get_first_after` returns on a recurrence with an exact positive interval whose start
    is not after its end is at a grid instant, legal and within the bounds. -/
theorem result_on_grid (m : Mode) (r : RecQ) (d : DurationQ) (L : Rat) (hr : ExactRecQ m r d L) (s : TPQ)
    (hs : r.start = some s) (hse : ∀ e, r.end_ = some e → s.inst m ≤ e.inst m) (p : TPQ) (hp : p.Valid m)
    (fuel : Nat) (q : TPQ) (h : getFirstAfterQ m r p fuel = some q) :
    q.Valid m ∧ inBoundsQ m r q = true ∧ p.inst m < q.inst m ∧
      ∃ K : Nat, q.inst m = s.inst m + (K : Rat) * L := by
  have hsv := hr.startValid s hs
  have hpos := hr.pos
  by_cases hb : inBoundsQ m r p = true
  · obtain ⟨t, g, hfa⟩ := closed_form (fun x => x) m r d L hr s hs p hp fuel hb
    have hge := ((inBoundsQ_iff m r p hp hr.startValid hr.endValid).mp hb).1 s hs
    obtain ⟨K, _, _, harith, _, hnext⟩ := target_arith (s.inst m) (p.inst m) L hpos hge
    unfold getFirstAfterQ at h
    rw [hfa] at h
    by_cases c : inBoundsQ m r t = true
    · rw [if_pos c] at h; cases h
      exact ⟨g.valid, c, by rw [g.inst, harith]; exact hnext, K, by rw [g.inst]; exact harith⟩
    · rw [if_neg c] at h; cases h
  · have hb' := inBoundsQ_false_of m r p hb
    by_cases c : tpLtQ m p s = true
    · unfold getFirstAfterQ at h
      rw [before_start _ m r s p hs hb' c fuel] at h
      cases h
      refine ⟨hsv, ?_, (tpLtQ_iff m p s hp hsv).mp c, 0, ?_⟩
      · rw [inBoundsQ_iff m r s hsv hr.startValid hr.endValid]
        exact ⟨fun s' h' => by rw [hs] at h'; cases h'; exact Rat.le_refl, hse⟩
      · have : ((0 : Nat) : Rat) = 0 := rfl
        rw [this]; grind
    · have c' : tpLtQ m p s = false := by cases k : tpLtQ m p s <;> simp_all
      unfold getFirstAfterQ at h
      rw [after_end _ m r s p hs hb' c' fuel] at h
      cases h

/-! ### the pre-repair variant on whole-number offsets -/

theorem remQ_isInt (x L : Rat) (hx : IsInt x) (hL : IsInt L) : ((remQ x L).floor : Rat) = remQ x L := by
  unfold remQ
  rw [hx.eq_intCast, hL.eq_intCast, ← Rat.intCast_mul, ← Rat.intCast_sub, Rat.floor_intCast]

/-- When the probe's offset from the start and the interval are whole numbers of seconds, the
    `floor` of the pre-repair code is the identity: both versions compute the same thing. -/
theorem floor_agrees (m : Mode) (r : RecQ) (d : DurationQ) (L : Rat) (hr : ExactRecQ m r d L) (s : TPQ)
    (hs : r.start = some s) (p : TPQ) (hp : p.Valid m) (fuel : Nat) (hx : IsInt (p.inst m - s.inst m))
    (hL : IsInt L) : getFirstAfterFloorQ m r p fuel = getFirstAfterQ m r p fuel := by
  by_cases hb : inBoundsQ m r p = true
  · unfold getFirstAfterFloorQ getFirstAfterQ
    rw [closed_form_unfold _ m r d L hr s hs p hp fuel hb, closed_form_unfold _ m r d L hr s hs p hp fuel hb,
      remQ_isInt _ _ hx hL]
  · have hb' := inBoundsQ_false_of m r p hb
    unfold getFirstAfterFloorQ getFirstAfterQ getFirstAfterWithQ
    simp only [hs, hb', Bool.false_eq_true, ↓reduceIte]

/-! ### agreement with the whole-second model -/

theorem tpLeQ_ofTP (m : Mode) (a b : TP) : tpLeQ m (TPQ.ofTP a) (TPQ.ofTP b) = tpLe m a b := by
  unfold tpLeQ tpLe; rw [tpLtQ_ofTP, tpEqQ_ofTP]

theorem firstAfterLoopQ_ofRec (m : Mode) (r : Rec) (p : TP) : ∀ (fuel : Nat) (c : Option TP),
    firstAfterLoopQ m (RecQ.ofRec r) (TPQ.ofTP p) fuel (c.map TPQ.ofTP) =
      (firstAfterLoop m r p fuel c).map TPQ.ofTP := by
  intro fuel
  induction fuel with
  | zero => intro c; cases c <;> rfl
  | succ fuel ih =>
    intro c
    cases c with
    | none => rfl
    | some c =>
      simp only [Option.map_some, firstAfterLoopQ, firstAfterLoop, tpLeQ_ofTP, getNextQ_ofRec]
      by_cases k : tpLe m c p = true
      · rw [if_pos k, if_pos k]; exact ih _
      · rw [if_neg k, if_neg k]; rfl

/-- Python `divmod` of two whole numbers. -/
theorem pyDivmodQ_intCast (a b : Int) :
    pyDivmodQ (a : Rat) (b : Rat) = if b = 0 then none else some (Int.fdiv a b, ((Int.fmod a b : Int) : Rat)) := by
  by_cases hb : b = 0
  · subst hb; rw [if_pos rfl]; unfold pyDivmodQ; rw [if_pos (by simp)]
  · rw [if_neg hb]
    have hne : (b : Rat) ≠ 0 := fun h0 => hb (Rat.intCast_inj.1 (by simpa using h0))
    rw [pyDivmodQ_ne _ _ hne, floor_intCast_div a b hb, ← Rat.intCast_mul, ← Rat.intCast_sub]
    congr 3
    rw [Int.fmod_def, Int.mul_comm]

theorem units_seconds_ofDur (c : Int) :
    DurationQ.units 0 0 0 0 0 (c : Rat) = DurationQ.ofDur (.units 0 0 0 0 0 c) := by
  simp only [DurationQ.ofDur, Rat.intCast_zero]

/-- **The rational model extends the whole-second model**: on embedded whole-second points and
    whole-number intervals `get_first_after` is the integer model's, whatever the recurrence. -/
theorem getFirstAfterQ_ofRec (m : Mode) (r : Rec) (p : TP) (fuel : Nat) :
    getFirstAfterQ m (RecQ.ofRec r) (TPQ.ofTP p) fuel = (getFirstAfter m r p fuel).map TPQ.ofTP := by
  unfold getFirstAfterQ getFirstAfterWithQ getFirstAfter
  have hstart : (RecQ.ofRec r).start = r.start.map TPQ.ofTP := rfl
  have hdur : (RecQ.ofRec r).dur = r.dur.map DurationQ.ofDur := rfl
  rw [hstart, hdur]
  cases hs : r.start with
  | none => rfl
  | some s =>
    simp only [Option.map_some, inBoundsQ_ofRec, tpLtQ_ofTP]
    by_cases hb : inBounds m r p = true
    · rw [if_pos hb, if_pos hb]
      have hloop := firstAfterLoopQ_ofRec m r p fuel (some s)
      simp only [Option.map_some] at hloop
      cases hd : r.dur with
      | none => simp only [Option.map_none]; exact hloop
      | some d =>
        simp only [Option.map_some, ofDur_isExact]
        by_cases hex : d.isExact = true
        · rw [if_pos hex, if_pos hex, subTPQ_ofTP]
          cases hsub : subTP m p s with
          | none => rfl
          | some diff =>
            obtain ⟨dd, hh, mi, ss, rfl⟩ := subTP_units m p s diff hsub
            simp only [Option.map_some, ofDurQ_durQOf_units, ofDur_seconds, pyDivmodQ_intCast]
            by_cases hz : d.seconds m = 0
            · rw [if_pos hz, if_pos hz]; rfl
            · rw [if_neg hz, if_neg hz]
              simp only [units_seconds_ofDur]
              unfold DurationQ.sub Dur.sub
              rw [ofDur_mul, ofDur_add, addDurationQ_ofTP]
              cases addDur m p (Dur.add m d ((Dur.units 0 0 0 0 0
                (Int.fmod ((Dur.units 0 0 dd hh mi ss).seconds m) (d.seconds m))).mul (-1))) with
              | none => rfl
              | some q =>
                simp only [Option.map_some, inBoundsQ_ofRec]
                cases inBounds m r q <;> rfl
        · rw [if_neg hex, if_neg hex]; exact hloop
    · rw [if_neg hb, if_neg hb]
      cases tpLt m p s <;> rfl

end IsoDT.Lemmas.RecurrenceQFirst
