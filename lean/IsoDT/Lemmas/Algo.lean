/-
  IsoDT.Lemmas.Algo — the definitions REGENERATED from the Python source (`Gen/Algo.lean`, written by
  harness/gen_algo.py) equal the hand-written model (`Model/Calendar`, `Model/CalendarAux`,
  `Model/LocalTZ`), for every mode and every integer argument.  Loops of the generated code are
  related to their closed forms by induction over the iterated list (`*_for<N>` lemmas); the generic
  scanning loops and the day-list facts live in `Lemmas/DayList` (independent of the generated file).
-/
import IsoDT.Gen.Algo
import IsoDT.Model.CalendarAux
import IsoDT.Model.LocalTZ
import IsoDT.Lemmas.DayList

namespace IsoDT.Lemmas.AlgoEq
open IsoDT IsoDT.Model IsoDT.Lemmas

theorem leap_for1 (m : Mode) (y : Int) (k : Bool → Bool) (l : List (Int × Bool)) (acc : Bool) :
    Gen.Algo.get_is_leap_year.for1 m y k l acc =
      k (l.foldl (fun acc ft => if y % ft.1 == 0 then ft.2 else acc) acc) := by
  induction l generalizing acc with
  | nil => rfl
  | cons ft rest ih =>
    obtain ⟨f, t⟩ := ft
    simp only [Gen.Algo.get_is_leap_year.for1, List.foldl, ih]
    congr 2
    simp

theorem get_is_leap_year_eq (m : Mode) (y : Int) : Gen.Algo.get_is_leap_year m y = isLeapYear y := by
  unfold Gen.Algo.get_is_leap_year isLeapYear
  rw [leap_for1]

theorem _get_days_in_year_eq (m : Mode) (y : Int) : Gen.Algo._get_days_in_year m y = daysInYear m y := by
  unfold Gen.Algo._get_days_in_year daysInYear calOf
  rw [get_is_leap_year_eq]

theorem get_days_in_year_eq (m : Mode) (y : Int) : Gen.Algo.get_days_in_year m y = daysInYear m y :=
  _get_days_in_year_eq m y

/-! ### `get_local_time_zone` -/

theorem get_local_time_zone_eq (tz alt dl dst : Int) :
    Gen.Algo.get_local_time_zone tz alt dl dst = some (localTZ tz alt (dl != 0) dst) := by
  unfold Gen.Algo.get_local_time_zone localTZ splitOffset localOffsetSeconds Gen.Algo.pyMod
  have hc : (dst = 1 ∧ (dl != 0) = true) ↔ (dst = 1 ∧ dl ≠ 0) := by simp
  simp only [hc]
  generalize (if dst = 1 ∧ dl ≠ 0 then -alt else -tz) = off
  have e1 : ∀ a : Int, a.fdiv 3600 = a / 3600 := fun a => Int.fdiv_eq_ediv_of_nonneg a (by omega)
  have e2 : ∀ a : Int, a.fdiv 60 = a / 60 := fun a => Int.fdiv_eq_ediv_of_nonneg a (by omega)
  by_cases h2 : off < 0 <;> simp [h2, e1, e2]

/-! ### `_get_days_in_year_range` -/

theorem range_while1 (m : Mode) (e f : Int) (k : Int → Int) (r : Int) :
    Gen.Algo._get_days_in_year_range.while1 m e f k r = k (firstMult f r e) := by
  induction r using firstMult.induct (k := f) (e := e) with
  | case1 r h ih =>
    rw [Gen.Algo._get_days_in_year_range.while1, firstMult]
    simp only [h, and_self, ↓reduceIte, ne_eq, not_false_eq_true]
    exact ih
  | case2 r h =>
    rw [Gen.Algo._get_days_in_year_range.while1, firstMult]
    simp only [h, ↓reduceIte]

theorem range_for1 (m : Mode) (s e diff : Int) (k : Int → Int) (l : List (Int × Bool)) (days : Int) :
    Gen.Algo._get_days_in_year_range.for1 m s e diff k l days =
      k (l.foldl (fun days ft =>
        if ft.2 then days + numCorr ft.1 s e * diff else days - numCorr ft.1 s e * diff) days) := by
  induction l generalizing days with
  | nil => rfl
  | cons ft rest ih =>
    obtain ⟨f, t⟩ := ft
    simp only [Gen.Algo._get_days_in_year_range.for1, List.foldl, range_while1 m e f, ih]
    congr 2
    have key : ∀ X : Int, X = numCorr f s e →
        (if t = true then days + X * diff else days - X * diff) =
        (if t = true then days + numCorr f s e * diff else days - numCorr f s e * diff) := by
      intro X h; rw [h]
    apply key
    unfold numCorr
    simp only
    split <;> split <;> split <;> omega

theorem _get_days_in_year_range_eq (m : Mode) (s e : Int) :
    Gen.Algo._get_days_in_year_range m s e = daysInYearRange m s e := by
  unfold Gen.Algo._get_days_in_year_range daysInYearRange calOf
  simp only [range_for1, get_days_in_year_eq]

theorem get_days_in_year_range_eq (m : Mode) (s e : Int) :
    Gen.Algo.get_days_in_year_range m s e = daysInYearRange m s e := _get_days_in_year_range_eq m s e

/-! ### `_get_days_since_1_ad` -/

theorem _get_days_since_1_ad_eq (m : Mode) (y : Int) :
    Gen.Algo._get_days_since_1_ad m y = daysSince1AD m y := by
  unfold Gen.Algo._get_days_since_1_ad daysSince1AD
  simp only [get_days_in_year_eq, get_days_in_year_range_eq]
  -- robust against re-ordering of the tests in the Python: compare leaf by leaf
  repeat' split
  all_goals first
    | rfl
    | (exfalso; omega)

/-! ### `_get_days_in_month` -/

/-- The leap flag that the `year` argument of `get_days_in_month` selects. -/
def yearArgLeap : Gen.Algo.YearArg → Bool
  | .none => false
  | .leap => true
  | .int y => isLeapYear y

/-- What `CALENDAR.DAYS_IN_MONTHS[_LEAP][month - 1]` gives for EVERY integer month: the table entry for
    1..12, Python's wrap-around for -11..0 (month 0 is December), IndexError otherwise. -/
def monthIndexed (m : Mode) (lp : Bool) (mo : Int) : Option Int :=
  if 1 ≤ mo ∧ mo ≤ 12 then some (daysInMonthB m lp mo)
  else if -11 ≤ mo ∧ mo ≤ 0 then some (daysInMonthB m lp (mo + 12))
  else none

theorem table_length (m : Mode) (lp : Bool) : (table m lp).length = 12 := by
  cases m <;> cases lp <;> decide

theorem pyIndex_table_fin : ∀ m ∈ Mode.all, ∀ lp : Bool, ∀ k : Fin 26,
    Gen.Algo.pyIndex (table m lp) ((k.val : Int) - 12 - 1) = monthIndexed m lp ((k.val : Int) - 12) := by
  decide +kernel

theorem pyIndex_table (m : Mode) (lp : Bool) (mo : Int) :
    Gen.Algo.pyIndex (table m lp) (mo - 1) = monthIndexed m lp mo := by
  by_cases h : -12 ≤ mo ∧ mo ≤ 13
  · have := forall_fin_int (P := fun x => Gen.Algo.pyIndex (table m lp) (x - 12 - 1) = monthIndexed m lp (x - 12))
      26 (pyIndex_table_fin m (mode_mem_all m) lp) (mo + 12) (by omega) (by omega)
    simpa [show mo + 12 - 12 = mo by omega] using this
  · have hl := table_length m lp
    unfold Gen.Algo.pyIndex monthIndexed
    by_cases h0 : 0 ≤ mo - 1
    · have : (table m lp).length ≤ (mo - 1).toNat := by omega
      simp only [h0, ↓reduceIte, List.getElem?_eq_none this]
      have h1 : ¬ (1 ≤ mo ∧ mo ≤ 12) := by omega
      have h2 : ¬ (-11 ≤ mo ∧ mo ≤ 0) := by omega
      simp only [h1, h2, ↓reduceIte]
    · have h1 : ¬ (1 ≤ mo ∧ mo ≤ 12) := by omega
      have h2 : ¬ (-11 ≤ mo ∧ mo ≤ 0) := by omega
      have h3 : ¬ (-(mo - 1) ≤ ((table m lp).length : Int)) := by omega
      simp only [h0, h1, h2, h3, ↓reduceIte]

theorem _get_days_in_month_eq (m : Mode) (mo : Int) (ya : Gen.Algo.YearArg) :
    Gen.Algo._get_days_in_month m mo ya = monthIndexed m (yearArgLeap ya) mo := by
  have hT := pyIndex_table m true mo
  have hF := pyIndex_table m false mo
  unfold table calOf at hT hF
  simp only [↓reduceIte, Bool.false_eq_true] at hT hF
  unfold Gen.Algo._get_days_in_month
  cases ya with
  | none => simp only [hF, yearArgLeap]
  | leap => simp only [hT, yearArgLeap]
  | int y =>
    simp only [yearArgLeap, get_is_leap_year_eq]
    cases isLeapYear y <;> simp [hT, hF]

/-! ### `_iter_months_days`, `iter_months_days` (every argument) -/

theorem pyRangeUp_eq (a : Int) (n : Nat) : Gen.Algo.pyRangeUp a n = rangeUp a n := by
  induction n generalizing a with
  | zero => rfl
  | succ n ih => simp only [Gen.Algo.pyRangeUp, rangeUp, ih]

theorem pyRangeDn_eq (a : Int) (n : Nat) : Gen.Algo.pyRangeDn a n = rangeDn a n := by
  induction n generalizing a with
  | zero => rfl
  | succ n ih => simp only [Gen.Algo.pyRangeDn, rangeDn, ih]

theorem pyRange_eq (a b : Int) : Gen.Algo.pyRange a b = upTo a b := pyRangeUp_eq _ _
theorem pyRangeDown_eq (a b : Int) : Gen.Algo.pyRangeDown a b = downTo a b := pyRangeDn_eq _ _
theorem pySliceFrom_eq {α : Type} (l : List α) (i : Int) : Gen.Algo.pySliceFrom l i = sliceFrom l i := rfl

/-- The four inner loops `for day in day_range: results.append((month_num, day))`. -/
theorem imd_for2 (m : Mode) (mn : Int) (k : List (Int × Int) → Option (List (Int × Int)))
    (l : List Int) (res : List (Int × Int)) :
    Gen.Algo._iter_months_days.for2 m mn k l res = k (res ++ monthDays mn l) := by
  induction l generalizing res with
  | nil => simp [Gen.Algo._iter_months_days.for2, monthDays]
  | cons d rest ih => simp [Gen.Algo._iter_months_days.for2, monthDays, ih]
theorem imd_for4 (m : Mode) (mn : Int) (k : List (Int × Int) → Option (List (Int × Int)))
    (l : List Int) (res : List (Int × Int)) :
    Gen.Algo._iter_months_days.for4 m mn k l res = k (res ++ monthDays mn l) := by
  induction l generalizing res with
  | nil => simp [Gen.Algo._iter_months_days.for4, monthDays]
  | cons d rest ih => simp [Gen.Algo._iter_months_days.for4, monthDays, ih]
theorem imd_for6 (m : Mode) (mn : Int) (k : List (Int × Int) → Option (List (Int × Int)))
    (l : List Int) (res : List (Int × Int)) :
    Gen.Algo._iter_months_days.for6 m mn k l res = k (res ++ monthDays mn l) := by
  induction l generalizing res with
  | nil => simp [Gen.Algo._iter_months_days.for6, monthDays]
  | cons d rest ih => simp [Gen.Algo._iter_months_days.for6, monthDays, ih]
theorem imd_for8 (m : Mode) (mn : Int) (k : List (Int × Int) → Option (List (Int × Int)))
    (l : List Int) (res : List (Int × Int)) :
    Gen.Algo._iter_months_days.for8 m mn k l res = k (res ++ monthDays mn l) := by
  induction l generalizing res with
  | nil => simp [Gen.Algo._iter_months_days.for8, monthDays]
  | cons d rest ih => simp [Gen.Algo._iter_months_days.for8, monthDays, ih]

theorem imd_for1 (m : Mode) (k : List (Int × Int) → Option (List (Int × Int)))
    (t : List (Int × Int)) (res : List (Int × Int)) :
    Gen.Algo._iter_months_days.for1 m k t res =
      k (res ++ t.flatMap fun p => monthDays p.1 (downTo p.2 0)) := by
  induction t generalizing res with
  | nil => simp [Gen.Algo._iter_months_days.for1]
  | cons p rest ih =>
    obtain ⟨mn, len⟩ := p
    simp [Gen.Algo._iter_months_days.for1, imd_for2, ih, pyRangeDown_eq]

theorem imd_for5 (m : Mode) (k : List (Int × Int) → Option (List (Int × Int)))
    (t : List (Int × Int)) (res : List (Int × Int)) :
    Gen.Algo._iter_months_days.for5 m k t res =
      k (res ++ t.flatMap fun p => monthDays p.1 (upTo 1 (p.2 + 1))) := by
  induction t generalizing res with
  | nil => simp [Gen.Algo._iter_months_days.for5]
  | cons p rest ih =>
    obtain ⟨mn, len⟩ := p
    simp [Gen.Algo._iter_months_days.for5, imd_for6, ih, pyRange_eq]

theorem imd_for3 (m : Mode) (mo : Int) (d : Option Int) (k : List (Int × Int) → Option (List (Int × Int)))
    (t : List (Int × Int)) (res : List (Int × Int)) :
    Gen.Algo._iter_months_days.for3 m mo d k t res =
      k (res ++ t.flatMap fun p =>
          if p.1 > mo then []
          else match d with
            | some d => if p.1 = mo then monthDays p.1 (downTo d 0) else monthDays p.1 (downTo p.2 0)
            | none => monthDays p.1 (downTo p.2 0)) := by
  induction t generalizing res with
  | nil => simp [Gen.Algo._iter_months_days.for3]
  | cons p rest ih =>
    obtain ⟨mn, len⟩ := p
    simp only [Gen.Algo._iter_months_days.for3, imd_for4, ih, pyRangeDown_eq, List.flatMap_cons]
    by_cases h1 : mn > mo
    · simp [h1]
    · cases d with
      | none => simp [h1]
      | some d => by_cases h2 : mn = mo <;> simp [h1, h2]

theorem imd_for7 (m : Mode) (mo : Int) (d : Option Int) (k : List (Int × Int) → Option (List (Int × Int)))
    (t : List (Int × Int)) (res : List (Int × Int)) :
    Gen.Algo._iter_months_days.for7 m mo d k t res =
      k (res ++ t.flatMap fun p =>
          match d with
          | some d => if p.1 = mo then monthDays p.1 (upTo d (p.2 + 1)) else monthDays p.1 (upTo 1 (p.2 + 1))
          | none => monthDays p.1 (upTo 1 (p.2 + 1))) := by
  induction t generalizing res with
  | nil => simp [Gen.Algo._iter_months_days.for7]
  | cons p rest ih =>
    obtain ⟨mn, len⟩ := p
    simp only [Gen.Algo._iter_months_days.for7, imd_for8, ih, pyRange_eq, List.flatMap_cons]
    cases d with
    | none => simp
    | some d => by_cases h2 : mn = mo <;> simp [h2]

theorem _iter_months_days_eq (m : Mode) (lp : Bool) (mo d : Option Int) (rev : Bool) :
    Gen.Algo._iter_months_days m lp mo d rev = iterMonthsDays m lp mo d rev := by
  unfold Gen.Algo._iter_months_days iterMonthsDays
  by_cases h0 : d ≠ none ∧ mo = none
  · simp only [h0, and_self, ↓reduceIte, ne_eq, not_false_eq_true]
  · simp only [h0, ↓reduceIte, imd_for1, imd_for3, imd_for5, imd_for7, pySliceFrom_eq, List.nil_append]
    have hs : (if lp = true then (Gen.calOfMode m).indexedLeap else (Gen.calOfMode m).indexed) = indexed m lp := rfl
    rw [hs]
    cases rev <;> cases mo <;> simp <;> (cases d <;> rfl)

theorem iter_months_days_eq (m : Mode) (y : Int) (mo d : Option Int) (rev : Bool) :
    Gen.Algo.iter_months_days m y mo d rev = iterMonthsDaysY m y mo d rev := by
  unfold Gen.Algo.iter_months_days iterMonthsDaysY
  simp only [get_is_leap_year_eq, _iter_months_days_eq]

theorem iter_months_days_fwd (m : Mode) (y : Int) :
    Gen.Algo.iter_months_days m y none none false = some (dayList m (isLeapYear y)) := by
  rw [iter_months_days_eq]; exact iterMonthsDays_fwd m _

/-! ### ordinal ↔ calendar -/

theorem o2c_for1 (m : Mode) (y doy : Int) (k : Int → Option (Int × Int × Int)) (l : List (Int × Int)) (c : Int) :
    Gen.Algo.get_calendar_date_from_ordinal_date.for1 m y doy k l c =
      scanCount (fun p => (y, p.1, p.2)) doy k l c := by
  induction l generalizing c with
  | nil => rfl
  | cons p rest ih =>
    obtain ⟨a, b⟩ := p
    simp only [Gen.Algo.get_calendar_date_from_ordinal_date.for1, scanCount, ih]

theorem get_calendar_date_from_ordinal_date_eq (m : Mode) (y doy : Int) :
    Gen.Algo.get_calendar_date_from_ordinal_date m y doy = calFromOrd m y doy := by
  unfold Gen.Algo.get_calendar_date_from_ordinal_date calFromOrd
  simp only [iter_months_days_fwd, o2c_for1, scanCount_eq, walkFwd_eq_nthDay]
  by_cases h : 0 < doy ∧ doy ≤ 0 + ((dayList m (isLeapYear y)).length : Int)
  · simp only [h, and_self, ↓reduceIte, Int.sub_zero]
  · simp only [h, ↓reduceIte]
    rw [nthDay_none _ _ (by omega)]
    rfl

theorem c2o_for1 (m : Mode) (y mo d : Int) (k : Int → Option (Int × Int)) (l : List (Int × Int)) (c : Int) :
    Gen.Algo.get_ordinal_date_from_calendar_date.for1 m y mo d k l c =
      scanElem True (fun n => (y, n)) mo d k l c := by
  induction l generalizing c with
  | nil => rfl
  | cons p rest ih =>
    obtain ⟨a, b⟩ := p
    simp only [Gen.Algo.get_ordinal_date_from_calendar_date.for1, scanElem, ih, true_and]

theorem get_ordinal_date_from_calendar_date_eq (m : Mode) (y mo d : Int) :
    Gen.Algo.get_ordinal_date_from_calendar_date m y mo d = ordFromCal m y mo d := by
  unfold Gen.Algo.get_ordinal_date_from_calendar_date ordFromCal
  simp only [iter_months_days_fwd, c2o_for1, scanElem_eq True trivial, posOf_eq_dayPos]
  cases dayPos (dayList m (isLeapYear y)) mo d <;> simp

/-! ### week-year starts -/

theorem wstart_for1 (m : Mode) (y : Int) (k : Int → Option (Int × Int × Int)) (l : List (Int × Int)) (c : Int) :
    Gen.Algo._get_calendar_date_week_date_start.for1 m y k l c =
      if 2 ≤ c ∧ c - 2 < l.length then (l[(c - 2).toNat]?).map (fun p => (y - 1, p.1, p.2))
      else k (c - l.length) := by
  induction l generalizing c with
  | nil =>
    have : ¬ (2 ≤ c ∧ c - 2 < ((([] : List (Int × Int)).length : Nat) : Int)) := by
      simp only [List.length_nil]; omega
    simp only [Gen.Algo._get_calendar_date_week_date_start.for1, this, ↓reduceIte]; simp
  | cons p rest ih =>
    obtain ⟨a, b⟩ := p
    simp only [Gen.Algo._get_calendar_date_week_date_start.for1, ih, List.length_cons]
    by_cases h1 : c - 1 = 1
    · have : 2 ≤ c ∧ c - 2 < ((rest.length + 1 : Nat) : Int) := by omega
      have e : (c - 2).toNat = 0 := by omega
      simp only [h1, this, e, and_self, ↓reduceIte, List.getElem?_cons_zero, Option.map_some]
    · simp only [h1, ↓reduceIte]
      by_cases h2 : 2 ≤ c ∧ c - 2 < ((rest.length + 1 : Nat) : Int)
      · have h3 : 2 ≤ c - 1 ∧ c - 1 - 2 < (rest.length : Int) := by omega
        have e : (c - 2).toNat = (c - 1 - 2).toNat + 1 := by omega
        simp only [h2, h3, and_self, ↓reduceIte, e, List.getElem?_cons_succ]
      · have h3 : ¬ (2 ≤ c - 1 ∧ c - 1 - 2 < (rest.length : Int)) := by omega
        simp only [h2, h3, ↓reduceIte]
        congr 1; omega

theorem iter_months_days_rev (m : Mode) (y : Int) :
    Gen.Algo.iter_months_days m y none none true = some (revListOf (indexed m (isLeapYear y))) := by
  rw [iter_months_days_eq]; exact iterMonthsDays_rev m _

theorem wstart_tail (m : Mode) (y : Int) (lp : Bool) (dow : Int) (h1 : 1 ≤ dow) (h7 : dow ≤ 7) :
    (if dow = 1 then some (y, 1, 1)
      else if dow > 4 then some (y, 1, 1 + (8 - dow))
      else if 2 ≤ dow ∧ dow - 2 < ((revListOf (indexed m lp)).length : Int) then
        Option.map (fun p => (y - 1, p.fst, p.snd)) (revListOf (indexed m lp))[(dow - 2).toNat]?
      else none) =
    some (if dow = 1 then (y, 1, 1)
      else if dow > 4 then (y, 1, 1 + (8 - dow))
      else match walkRev (indexed m lp).reverse (dow - 1) with
        | some (mo, d) => (y - 1, mo, d)
        | none => (y - 1, 0, 0)) := by
  by_cases c1 : dow = 1
  · simp only [c1, ↓reduceIte]
  · by_cases c4 : dow > 4
    · simp only [c1, c4, ↓reduceIte]
    · have hl := (revList_fin m (mode_mem_all m) lp).1
      have c2 : 2 ≤ dow ∧ dow - 2 < ((revListOf (indexed m lp)).length : Int) := by omega
      have e : (dow - 2).toNat = (dow - 1 - 1).toNat := by omega
      simp only [c1, c4, c2, and_self, ↓reduceIte, e,
        revList_walkRev m lp (dow - 1) (by omega) (by omega),
        walkRev_spec m lp (dow - 1) (by omega) (by omega), Option.map_some]

/-- The Python never falls off its last loop: the result is always a date. -/
theorem _get_calendar_date_week_date_start_eq (m : Mode) (y : Int) :
    Gen.Algo._get_calendar_date_week_date_start m y = some (weekStartCal m y) := by
  unfold Gen.Algo._get_calendar_date_week_date_start weekStartCal calOf
  simp only [gen_weekRefCal, gen_weekRefOrd, get_days_in_year_range_eq, iter_months_days_rev, wstart_for1]
  have hw := daysInWeek_eq m
  unfold calOf at hw
  simp only [hw]
  by_cases h0 : y = 2000
  · simp [h0]
  · by_cases hy : y > 2000
    · simp only [h0, hy, ↓reduceIte]
      exact wstart_tail m y _ _ (by omega) (by omega)
    · have hy' : 2000 > y := by omega
      simp only [h0, hy, hy', ↓reduceIte]
      exact wstart_tail m y _ _ (by omega) (by omega)

theorem get_calendar_date_week_date_start_eq (m : Mode) (y : Int) :
    Gen.Algo.get_calendar_date_week_date_start m y = some (weekStartCal m y) :=
  _get_calendar_date_week_date_start_eq m y

theorem owstart_for1 (m : Mode) (cy mo d : Int) (k : Int → Option (Int × Int)) (l : List (Int × Int)) (c : Int) :
    Gen.Algo._get_ordinal_date_week_date_start.for1 m cy mo d k l c =
      scanElem True (fun n => (cy, n)) mo d k l c := by
  induction l generalizing c with
  | nil => rfl
  | cons p rest ih =>
    obtain ⟨a, b⟩ := p
    simp only [Gen.Algo._get_ordinal_date_week_date_start.for1, scanElem, ih, true_and]

/-- The Python never returns `None` here either. -/
theorem _get_ordinal_date_week_date_start_eq (m : Mode) (y : Int) :
    Gen.Algo._get_ordinal_date_week_date_start m y = some (ordWeekStart m y) := by
  unfold Gen.Algo._get_ordinal_date_week_date_start
  rw [get_calendar_date_week_date_start_eq]
  obtain ⟨hv, _⟩ := weekStartCal_spec m y
  have hp := posOf_valid m _ _ _ hv
  rw [ordWeekStart_eq]
  generalize weekStartCal m y = s at *
  obtain ⟨sy, smo, sd⟩ := s
  simp only at hp ⊢
  rw [posOf_eq_dayPos] at hp
  simp only [iter_months_days_fwd, owstart_for1, scanElem_eq True trivial, hp]
  simp

theorem get_ordinal_date_week_date_start_eq (m : Mode) (y : Int) :
    Gen.Algo.get_ordinal_date_week_date_start m y = some (ordWeekStart m y) :=
  _get_ordinal_date_week_date_start_eq m y

/-! ### `_get_weeks_in_year` -/

theorem wiy_for1 (m : Mode) (k : Int → Option Int) (n : Nat) (a acc : Int) :
    Gen.Algo._get_weeks_in_year.for1 m k (rangeUp a n) acc = k (acc + sumYears m a (a + n)) := by
  induction n generalizing a acc with
  | zero =>
    rw [sumYears]
    simp [rangeUp, Gen.Algo._get_weeks_in_year.for1]
  | succ n ih =>
    rw [sumYears]
    have h : a < a + ((n + 1 : Nat) : Int) := by omega
    have e : a + 1 + (n : Int) = a + ((n + 1 : Nat) : Int) := by omega
    simp only [rangeUp, Gen.Algo._get_weeks_in_year.for1, ih, get_days_in_year_eq, h, ↓reduceIte, e]
    congr 1; omega

theorem _get_weeks_in_year_eq (m : Mode) (y : Int) :
    Gen.Algo._get_weeks_in_year m y = some (weeksInYear m y) := by
  unfold Gen.Algo._get_weeks_in_year weeksInYear calOf
  simp only [get_ordinal_date_week_date_start_eq, pyRange_eq]
  generalize ordWeekStart m y = s
  generalize ordWeekStart m (y + 1) = n
  obtain ⟨sy, sd⟩ := s
  obtain ⟨ny, nd⟩ := n
  simp only [upTo, wiy_for1]
  by_cases h : sy ≤ ny
  · have e : sy + ((ny - sy).toNat : Int) = ny := by omega
    rw [e]
  · have e : (ny - sy).toNat = 0 := by omega
    rw [e]
    have e1 : sumYears m sy ny = 0 := by rw [sumYears]; simp; omega
    have e2 : sumYears m sy (sy + ((0 : Nat) : Int)) = 0 := by rw [sumYears]; simp
    rw [e1, e2]

theorem get_weeks_in_year_eq (m : Mode) (y : Int) :
    Gen.Algo.get_weeks_in_year m y = some (weeksInYear m y) := _get_weeks_in_year_eq m y

/-! ### week → calendar -/

theorem w2c_for1 (m : Mode) (n sy : Int) (k : Int → Option (Int × Int × Int)) (l : List (Int × Int)) (c : Int) :
    Gen.Algo.get_calendar_date_from_week_date.for1 m n sy k l c =
      scanCount (fun p => (sy, p.1, p.2)) n k l c := by
  induction l generalizing c with
  | nil => rfl
  | cons p rest ih =>
    obtain ⟨a, b⟩ := p
    have e : (n = c + 1) ↔ (c + 1 = n) := eq_comm
    simp only [Gen.Algo.get_calendar_date_from_week_date.for1, scanCount, ih, e]

theorem w2c_for2 (m : Mode) (y n : Int) (k : Int → Option (Int × Int × Int)) (l : List (Int × Int)) (c : Int) :
    Gen.Algo.get_calendar_date_from_week_date.for2 m y n k l c =
      scanCount (fun p => (y, p.1, p.2)) n k l c := by
  induction l generalizing c with
  | nil => rfl
  | cons p rest ih =>
    obtain ⟨a, b⟩ := p
    have e : (n = c + 1) ↔ (c + 1 = n) := eq_comm
    simp only [Gen.Algo.get_calendar_date_from_week_date.for2, scanCount, ih, e]

theorem w2c_for3 (m : Mode) (y n : Int) (k : Int → Option (Int × Int × Int)) (l : List (Int × Int)) (c : Int) :
    Gen.Algo.get_calendar_date_from_week_date.for3 m y n k l c =
      scanCount (fun p => (y + 1, p.1, p.2)) n k l c := by
  induction l generalizing c with
  | nil => rfl
  | cons p rest ih =>
    obtain ⟨a, b⟩ := p
    have e : (n = c + 1) ↔ (c + 1 = n) := eq_comm
    simp only [Gen.Algo.get_calendar_date_from_week_date.for3, scanCount, ih, e]

theorem calFromOrd_nth (m : Mode) (y x : Int) :
    calFromOrd m y x = (nthDay (dayList m (isLeapYear y)) x).map (fun p => (y, p.1, p.2)) := by
  unfold calFromOrd; rw [walkFwd_eq_nthDay]

theorem get_calendar_date_from_week_date_eq (m : Mode) (y w d : Int) :
    Gen.Algo.get_calendar_date_from_week_date m y w d = calFromWeek m y w d := by
  unfold Gen.Algo.get_calendar_date_from_week_date calFromWeek calOf
  rw [get_calendar_date_week_date_start_eq]
  obtain ⟨hv, _⟩ := weekStartCal_spec m y
  have hp := posOf_valid m _ _ _ hv
  have hshape := weekStartCal_shape m y
  generalize weekStartCal m y = s at *
  obtain ⟨sy, sm, sd⟩ := s
  simp only at hp hshape ⊢
  rw [posOf_eq_dayPos] at hp
  obtain ⟨hso1, hso2, _⟩ := dayPos_some _ _ _ _ hp
  have hpart := (partial_lists m _ sm sd _ hshape hp).2
  generalize Spec.dbm m sy sm + sd = so at *
  simp only [iter_months_days_eq, iterMonthsDaysY, hpart, iterMonthsDays_fwd, w2c_for1, w2c_for2, w2c_for3,
    scanCount_eq, posOf_eq_dayPos, hp, calFromOrd_nth]
  generalize (w - 1) * (Gen.calOfMode m).daysInWeek + d - 1 = n
  have hl0 := dayList_length m sy
  have hl1 := dayList_length m y
  have hl2 := dayList_length m (y + 1)
  have hP : ((List.drop so.toNat (dayList m (isLeapYear sy))).length : Int) = daysInYear m sy - so := by
    rw [List.length_drop]; omega
  have hso : ((so.toNat : Nat) : Int) = so := by omega
  simp only [hP]
  rw [← hl0, ← hl1]
  generalize hL0 : dayList m (isLeapYear sy) = L0 at *
  generalize hL1 : dayList m (isLeapYear y) = L1 at *
  generalize hL2 : dayList m (isLeapYear (y + 1)) = L2 at *
  repeat' split
  all_goals first
    | rfl
    | (exfalso; omega)
    | (congr 2; omega)
    | (rw [nthDay_drop _ _ _ (by omega), hso]; congr 2; omega)
    | (rw [nthDay_none _ _ (by omega)]; rfl)
    | (symm; rw [nthDay_none _ _ (by omega)]; rfl)

/-! ### calendar → week -/

/-- The (week-year, week, weekday) the Python builds from the running day count. -/
def weekOfCount (m : Mode) (wy tot : Int) : Int × Int × Int :=
  (wy, tot / (Gen.calOfMode m).daysInWeek + 1, tot % (Gen.calOfMode m).daysInWeek + 1)

theorem c2w_for1 (m : Mode) (y mo d sy wy : Int) (k : Int → Option (Int × Int × Int)) (l : List (Int × Int)) (c : Int) :
    Gen.Algo.get_week_date_from_calendar_date.for1 m y mo d sy wy k l c =
      scanElem (sy = y) (weekOfCount m wy) mo d k l c := by
  induction l generalizing c with
  | nil => rfl
  | cons p rest ih =>
    obtain ⟨a, b⟩ := p
    simp only [Gen.Algo.get_week_date_from_calendar_date.for1, scanElem, ih, weekOfCount]

theorem c2w_for3 (m : Mode) (y mo d wy isy : Int) (k : Int → Option (Int × Int × Int)) (l : List (Int × Int)) (c : Int) :
    Gen.Algo.get_week_date_from_calendar_date.for3 m y mo d wy isy k l c =
      scanElem (isy = y) (weekOfCount m wy) mo d k l c := by
  induction l generalizing c with
  | nil => rfl
  | cons p rest ih =>
    obtain ⟨a, b⟩ := p
    simp only [Gen.Algo.get_week_date_from_calendar_date.for3, scanElem, ih, weekOfCount]

theorem c2w_core (m : Mode) (y mo d : Int) (s : Int × Int × Int) (wy : Int)
    (hv : Spec.ValidCal m s.1 s.2.1 s.2.2)
    (hshape : (s.2.1 = 1 ∧ 1 ≤ s.2.2 ∧ s.2.2 ≤ 4) ∨ (s.2.1 = 12 ∧ 26 ≤ s.2.2 ∧ s.2.2 ≤ 31)) :
    (match Gen.Algo.iter_months_days m s.1 (some s.2.1) (some s.2.2) false with
      | none => none
      | some t4 =>
        Gen.Algo.get_week_date_from_calendar_date.for1 m y mo d s.1 wy
          (fun tot => Gen.Algo.get_week_date_from_calendar_date.for2 m y mo d wy (fun _ => none)
            [s.1 + 1, s.1 + 2] tot) t4 (-1)) = weekFromCalAt m y mo d s wy := by
  obtain ⟨sy, sm, sd⟩ := s
  simp only at hv hshape ⊢
  have hp := posOf_valid m _ _ _ hv
  rw [posOf_eq_dayPos] at hp
  obtain ⟨hso1, hso2, _⟩ := dayPos_some _ _ _ _ hp
  have hpart := (partial_lists m _ sm sd _ hshape hp).1
  generalize Spec.dbm m sy sm + sd = so at *
  have hl0 := dayList_length m sy
  have hl1 := dayList_length m (sy + 1)
  have hl2 := dayList_length m (sy + 2)
  unfold weekFromCalAt daysFromStart calOf
  simp only [iter_months_days_eq, iterMonthsDaysY, hpart, iterMonthsDays_fwd, c2w_for1, c2w_for3,
    Gen.Algo.get_week_date_from_calendar_date.for2, posOf_eq_dayPos, hp]
  have hP : ((List.drop (so - 1).toNat (dayList m (isLeapYear sy))).length : Int) = daysInYear m sy - so + 1 := by
    rw [List.length_drop]; omega
  have hso : (((so - 1).toNat : Nat) : Int) = so - 1 := by omega
  by_cases c0 : sy = y
  · have c1 : ¬ (sy + 1 = y) := by omega
    have c2 : ¬ (sy + 2 = y) := by omega
    simp only [scanElem_eq _ c0, scanElem_off _ c1, scanElem_off _ c2, dayPos_drop]
    subst c0
    simp only [↓reduceIte]
    cases hd : dayPos (dayList m (isLeapYear sy)) mo d with
    | none => simp only
    | some od =>
      simp only [hso]
      by_cases c : so - 1 < od
      · have c' : ¬ (od - so < 0) := by omega
        have e : -1 + (od - (so - 1)) = od - so := by omega
        simp only [c, c', ↓reduceIte, e, weekOfCount]
      · have c' : od - so < 0 := by omega
        simp only [c, c', ↓reduceIte]
  · by_cases c1 : sy + 1 = y
    · have c2 : ¬ (sy + 2 = y) := by omega
      simp only [scanElem_off _ c0, scanElem_eq _ c1, scanElem_off _ c2, hP]
      subst c1
      have c0' : ¬ (sy = sy + 1) := by omega
      simp only [c0', ↓reduceIte]
      cases hd : dayPos (dayList m (isLeapYear (sy + 1))) mo d with
      | none => simp only
      | some od =>
        obtain ⟨ho1, ho2, _⟩ := dayPos_some _ _ _ _ hd
        have c' : ¬ (daysInYear m sy - so + od < 0) := by omega
        have e : -1 + (daysInYear m sy - so + 1) + od = daysInYear m sy - so + od := by omega
        simp only [c', ↓reduceIte, e, weekOfCount]
    · by_cases c2 : sy + 2 = y
      · simp only [scanElem_off _ c0, scanElem_off _ c1, scanElem_eq _ c2, hP]
        subst c2
        have c0' : ¬ (sy = sy + 2) := by omega
        have c1' : ¬ (sy + 1 = sy + 2) := by omega
        simp only [c0', c1', ↓reduceIte]
        cases hd : dayPos (dayList m (isLeapYear (sy + 2))) mo d with
        | none => simp only
        | some od =>
          obtain ⟨ho1, ho2, _⟩ := dayPos_some _ _ _ _ hd
          have c' : ¬ (daysInYear m sy - so + daysInYear m (sy + 1) + od < 0) := by omega
          have e : -1 + (daysInYear m sy - so + 1) + ((dayList m (isLeapYear (sy + 1))).length : Int) + od =
              daysInYear m sy - so + daysInYear m (sy + 1) + od := by omega
          simp only [c', ↓reduceIte, e, weekOfCount]
      · simp only [scanElem_off _ c0, scanElem_off _ c1, scanElem_off _ c2]
        simp only [c0, c1, c2, ↓reduceIte]
        cases dayPos (dayList m (isLeapYear y)) mo d <;> rfl

theorem tupLt3_eq (a b : Int × Int × Int) : Gen.Algo.tupLt3 a b = lexLt a b := rfl

theorem tupLe3_eq (a b : Int × Int × Int) : Gen.Algo.tupLe3 a b = lexLe a b := by
  obtain ⟨a1, a2, a3⟩ := a
  obtain ⟨b1, b2, b3⟩ := b
  rw [Bool.eq_iff_iff]
  simp only [Gen.Algo.tupLe3, Gen.Algo.tupLe2, lexLe, lexLt, Bool.or_eq_true, Bool.and_eq_true,
    decide_eq_true_eq, beq_iff_eq, Bool.not_eq_true', Bool.or_eq_false_iff, Bool.and_eq_false_imp,
    decide_eq_false_iff_not]
  omega

theorem get_week_date_from_calendar_date_eq (m : Mode) (y mo d : Int) :
    Gen.Algo.get_week_date_from_calendar_date m y mo d = weekFromCal m y mo d := by
  unfold Gen.Algo.get_week_date_from_calendar_date weekFromCal
  simp only [get_calendar_date_week_date_start_eq, tupLe3_eq, tupLt3_eq, Bool.and_eq_true]
  have v0 := (weekStartCal_spec m (y - 1)).1
  have v1 := (weekStartCal_spec m y).1
  have v2 := (weekStartCal_spec m (y + 1)).1
  have s0 := weekStartCal_shape m (y - 1)
  have s1 := weekStartCal_shape m y
  have s2 := weekStartCal_shape m (y + 1)
  generalize weekStartCal m (y - 1) = prev at *
  generalize weekStartCal m y = this at *
  generalize weekStartCal m (y + 1) = next at *
  by_cases k1 : lexLe prev (y, mo, d) = true ∧ lexLt (y, mo, d) this = true
  · simp only [k1, and_self, ↓reduceIte]
    exact c2w_core m y mo d prev (y - 1) v0 s0
  · simp only [k1, ↓reduceIte]
    by_cases k2 : lexLe this (y, mo, d) = true ∧ lexLt (y, mo, d) next = true
    · simp only [k2, and_self, ↓reduceIte]
      exact c2w_core m y mo d this y v1 s1
    · simp only [k2, ↓reduceIte]
      exact c2w_core m y mo d next (y + 1) v2 s2

/-! ### the two composites -/

theorem get_ordinal_date_from_week_date_eq (m : Mode) (y w d : Int) :
    Gen.Algo.get_ordinal_date_from_week_date m y w d = ordFromWeek m y w d := by
  unfold Gen.Algo.get_ordinal_date_from_week_date ordFromWeek
  rw [get_calendar_date_from_week_date_eq]
  cases calFromWeek m y w d with
  | none => rfl
  | some r => obtain ⟨a, b, c⟩ := r; exact get_ordinal_date_from_calendar_date_eq m a b c

theorem get_week_date_from_ordinal_date_eq (m : Mode) (y doy : Int) :
    Gen.Algo.get_week_date_from_ordinal_date m y doy = weekFromOrd m y doy := by
  unfold Gen.Algo.get_week_date_from_ordinal_date weekFromOrd
  rw [get_calendar_date_from_ordinal_date_eq]
  cases calFromOrd m y doy with
  | none => rfl
  | some r => obtain ⟨a, b, c⟩ := r; exact get_week_date_from_calendar_date_eq m a b c

end IsoDT.Lemmas.AlgoEq
