/-
  IsoDT.Lemmas.Cmp — re-zoning, comparison, hashing and point difference in terms of instants.
-/
import IsoDT.Lemmas.Tick

namespace IsoDT.Lemmas
open IsoDT IsoDT.Model
open IsoDT.Spec (Date TZ TP)

def sgn (x : Int) : Int := if x < 0 then -1 else if x > 0 then 1 else 0

theorem sgn_neg_iff (x : Int) : sgn x = -1 ↔ x < 0 := by
  unfold sgn; by_cases h1 : x < 0 <;> by_cases h2 : x > 0 <;> simp [h1, h2] <;> omega
theorem sgn_zero_iff (x : Int) : sgn x = 0 ↔ x = 0 := by
  unfold sgn; by_cases h1 : x < 0 <;> by_cases h2 : x > 0 <;> simp [h1, h2] <;> omega
theorem sgn_one_iff (x : Int) : sgn x = 1 ↔ x > 0 := by
  unfold sgn; by_cases h1 : x < 0 <;> by_cases h2 : x > 0 <;> simp [h1, h2] <;> omega
theorem sgn_pos_iff (x : Int) : sgn x > 0 ↔ x > 0 := by
  unfold sgn; by_cases h1 : x < 0 <;> by_cases h2 : x > 0 <;> simp [h1, h2] <;> omega

/-! ### `addDur` with an exact duration, `to_time_zone` -/

theorem addDur_exact_units (m : Mode) (p : TP) (d h mi s : Int) (hv : p.Valid m) :
    ∃ q, addDur m p (.units 0 0 d h mi s) = some q ∧ Good m p q (86400 * d + 3600 * h + 60 * mi + s) := by
  obtain ⟨q, he, g⟩ := addUnits_spec m p d h mi s hv
  refine ⟨q, ?_, g⟩
  simp only [addDur, Dur.toDays, he, Option.bind_eq_bind, Option.bind_some, addMonths, addYears,
    ↓reduceIte, Option.pure_def]

theorem toTimeZone_spec (m : Mode) (p : TP) (z : TZ) (hv : p.Valid m) (hz : z.Valid) :
    ∃ q, toTimeZone m p z = some q ∧ q.inst m = p.inst m ∧ q.tz = z ∧ q.date.rep = p.date.rep ∧
      q.Valid m ∧ (p.hh < 24 → q.hh < 24) := by
  unfold toTimeZone
  by_cases c : z.h = p.tz.h ∧ z.mi = p.tz.mi
  · rw [if_pos c]
    refine ⟨p, rfl, rfl, ?_, rfl, hv, fun h => h⟩
    obtain ⟨zh, zm⟩ := z
    obtain ⟨pd, ph, pm, ps, ⟨th, tm⟩⟩ := p
    simp only at c
    simp only [c.1, c.2]
  · rw [if_neg c]
    obtain ⟨q, he, g⟩ := addDur_exact_units m p 0 (z.h - p.tz.h) (z.mi - p.tz.mi) 0 hv
    rw [he]
    refine ⟨{ q with tz := z }, rfl, ?_, rfl, g.rep, ?_, fun _ => g.strict.2⟩
    · have := g.inst
      have ht := g.tz
      simp only [TP.inst, TZ.seconds, TP.secOfDay] at this ⊢
      rw [ht] at this
      omega
    · obtain ⟨⟨a, b, c', d, e, f, g', h, _⟩, _⟩ := g.strict
      exact ⟨a, b, c', d, e, f, g', h, hz⟩

/-! ### two strict points in one offset: instants order like (day number, second of day) -/

theorem strict_sod (m : Mode) (p : TP) (h : p.Strict m) : 0 ≤ p.secOfDay ∧ p.secOfDay < 86400 := by
  obtain ⟨⟨_, h1, _, h3, h4, h5, h6, _, _⟩, h9⟩ := h
  unfold TP.secOfDay; omega

theorem inst_order (m : Mode) (a b : TP) (ha : a.Strict m) (hb : b.Strict m) (htz : a.tz = b.tz) :
    (a.inst m < b.inst m ↔ a.date.dayNum m < b.date.dayNum m ∨
      (a.date.dayNum m = b.date.dayNum m ∧ a.secOfDay < b.secOfDay)) ∧
    (a.inst m = b.inst m ↔ a.date.dayNum m = b.date.dayNum m ∧ a.secOfDay = b.secOfDay) := by
  have := strict_sod m a ha
  have := strict_sod m b hb
  unfold TP.inst; rw [htz]; omega

/-! ### Python list comparison on valid dates -/

theorem cmpList_cal (m : Mode) (y1 mo1 d1 s1 y2 mo2 d2 s2 : Int)
    (h1 : Spec.ValidCal m y1 mo1 d1) (h2 : Spec.ValidCal m y2 mo2 d2) :
    cmpList [y1, mo1, d1, s1] [y2, mo2, d2, s2] =
      if Spec.dayNumCal m y1 mo1 d1 < Spec.dayNumCal m y2 mo2 d2 then -1
      else if Spec.dayNumCal m y1 mo1 d1 > Spec.dayNumCal m y2 mo2 d2 then 1
      else if s1 < s2 then -1 else if s1 > s2 then 1 else 0 := by
  have l1 := lexLt_iff m (y1, mo1, d1) (y2, mo2, d2) h1 h2
  have l2 := lexLt_iff m (y2, mo2, d2) (y1, mo1, d1) h2 h1
  simp only [lexLt, Bool.or_eq_true, Bool.and_eq_true, decide_eq_true_eq, beq_iff_eq] at l1 l2
  simp only [cmpList]
  by_cases c1 : y1 < y2
  · have : Spec.dayNumCal m y1 mo1 d1 < Spec.dayNumCal m y2 mo2 d2 := l1.mp (Or.inl c1)
    simp only [c1, this, ↓reduceIte]
  · by_cases c2 : y1 > y2
    · have : Spec.dayNumCal m y2 mo2 d2 < Spec.dayNumCal m y1 mo1 d1 := l2.mp (Or.inl c2)
      have n : ¬ Spec.dayNumCal m y1 mo1 d1 < Spec.dayNumCal m y2 mo2 d2 := by omega
      simp only [c1, c2, n, this, gt_iff_lt, ↓reduceIte]
    · have ey : y1 = y2 := by omega
      subst ey
      simp only [c1, c2, ↓reduceIte]
      by_cases c3 : mo1 < mo2
      · have : Spec.dayNumCal m y1 mo1 d1 < Spec.dayNumCal m y1 mo2 d2 := l1.mp (Or.inr ⟨rfl, Or.inl c3⟩)
        simp only [c3, this, ↓reduceIte]
      · by_cases c4 : mo1 > mo2
        · have : Spec.dayNumCal m y1 mo2 d2 < Spec.dayNumCal m y1 mo1 d1 := l2.mp (Or.inr ⟨rfl, Or.inl c4⟩)
          have n : ¬ Spec.dayNumCal m y1 mo1 d1 < Spec.dayNumCal m y1 mo2 d2 := by omega
          simp only [c3, c4, n, this, gt_iff_lt, ↓reduceIte]
        · have em : mo1 = mo2 := by omega
          subst em
          simp only [c3, c4, ↓reduceIte]
          unfold Spec.dayNumCal
          by_cases c5 : d1 < d2
          · have : Spec.dby m y1 + Spec.dbm m y1 mo1 + d1 - 1 < Spec.dby m y1 + Spec.dbm m y1 mo1 + d2 - 1 := by omega
            simp only [c5, this, ↓reduceIte]
          · by_cases c6 : d1 > d2
            · have n : ¬ Spec.dby m y1 + Spec.dbm m y1 mo1 + d1 - 1 < Spec.dby m y1 + Spec.dbm m y1 mo1 + d2 - 1 := by omega
              have : Spec.dby m y1 + Spec.dbm m y1 mo1 + d1 - 1 > Spec.dby m y1 + Spec.dbm m y1 mo1 + d2 - 1 := by omega
              simp only [c5, c6, n, this, ↓reduceIte]
            · have ed : d1 = d2 := by omega
              subst ed
              simp only [c5, c6, Int.lt_irrefl, gt_iff_lt, ↓reduceIte]

theorem cmpList_ord (m : Mode) (y1 n1 s1 y2 n2 s2 : Int)
    (h1 : Spec.ValidOrd m y1 n1) (h2 : Spec.ValidOrd m y2 n2) :
    cmpList [y1, n1, s1] [y2, n2, s2] =
      if Spec.dayNumOrd m y1 n1 < Spec.dayNumOrd m y2 n2 then -1
      else if Spec.dayNumOrd m y1 n1 > Spec.dayNumOrd m y2 n2 then 1
      else if s1 < s2 then -1 else if s1 > s2 then 1 else 0 := by
  have r1 := dayNumOrd_range m _ _ h1
  have r2 := dayNumOrd_range m _ _ h2
  simp only [cmpList]
  by_cases c1 : y1 < y2
  · have := dby_mono m (y1 + 1) y2 (by omega)
    have : Spec.dayNumOrd m y1 n1 < Spec.dayNumOrd m y2 n2 := by omega
    simp only [c1, this, ↓reduceIte]
  · by_cases c2 : y1 > y2
    · have := dby_mono m (y2 + 1) y1 (by omega)
      have : Spec.dayNumOrd m y1 n1 > Spec.dayNumOrd m y2 n2 := by omega
      have n : ¬ Spec.dayNumOrd m y1 n1 < Spec.dayNumOrd m y2 n2 := by omega
      simp only [c1, c2, n, this, ↓reduceIte]
    · have ey : y1 = y2 := by omega
      subst ey
      simp only [c1, c2, ↓reduceIte]
      unfold Spec.dayNumOrd
      by_cases c5 : n1 < n2
      · have : Spec.dby m y1 + n1 - 1 < Spec.dby m y1 + n2 - 1 := by omega
        simp only [c5, this, ↓reduceIte]
      · by_cases c6 : n1 > n2
        · have n : ¬ Spec.dby m y1 + n1 - 1 < Spec.dby m y1 + n2 - 1 := by omega
          have : Spec.dby m y1 + n1 - 1 > Spec.dby m y1 + n2 - 1 := by omega
          simp only [c5, c6, n, this, ↓reduceIte]
        · have ed : n1 = n2 := by omega
          subst ed
          simp only [c5, c6, Int.lt_irrefl, gt_iff_lt, ↓reduceIte]

/-! ### `_cmp` -/

theorem normalise24_strict (m : Mode) (p : TP) (h : p.Strict m) : normalise24 m p = some p := by
  unfold normalise24; rw [hoursInDay_eq]
  have : ¬ p.hh = 24 := by have := h.2; omega
  rw [if_neg this]

/-- The common prefix of `_cmp`, `__sub__` and `__hash__`: both operands as strict points in the
    first operand's offset, instants unchanged. -/
theorem align_spec (m : Mode) (a b : TP) (ha : a.Valid m) (hb : b.Valid m) :
    ∃ a2 b2, (toTimeZone m b a.tz).bind (normalise24 m) = some b2 ∧ normalise24 m a = some a2 ∧
      a2.Strict m ∧ b2.Strict m ∧ a2.tz = b2.tz ∧ a2.inst m = a.inst m ∧ b2.inst m = b.inst m ∧
      a2.date.rep = a.date.rep := by
  obtain ⟨b1, e1, i1, t1, _, v1, _⟩ := toTimeZone_spec m b a.tz hb ha.2.2.2.2.2.2.2.2
  obtain ⟨b2, e2, g2⟩ := normalise24_spec m b1 v1
  obtain ⟨a2, e3, g3⟩ := normalise24_spec m a ha
  refine ⟨a2, b2, by rw [e1, Option.bind_some, e2], e3, g3.strict, g2.strict, ?_, ?_, ?_, g3.rep⟩
  · rw [g3.tz, g2.tz, t1]
  · rw [g3.inst]; omega
  · rw [g2.inst, i1]; omega

theorem rep0_cal (d : Date) (h : d.rep = 0) : ∃ y mo dd, d = .cal y mo dd := by
  cases d <;> simp [Date.rep] at h
  exact ⟨_, _, _, rfl⟩

theorem rep1_ord (d : Date) (h : d.rep = 1) : ∃ y n, d = .ord y n := by
  cases d <;> simp [Date.rep] at h
  exact ⟨_, _, rfl⟩

theorem cmp3_eq (na nb sa sb x : Int) (h1 : 0 ≤ sa ∧ sa < 86400) (h2 : 0 ≤ sb ∧ sb < 86400)
    (hx : x = 86400 * (na - nb) + (sa - sb)) :
    (if na < nb then -1 else if na > nb then 1 else if sa < sb then -1 else if sa > sb then 1 else 0)
      = sgn x := by
  unfold sgn
  split
  · have : x < 0 := by omega
    simp [this]
  · split
    · have n : ¬ x < 0 := by omega
      have : x > 0 := by omega
      simp [n, this]
    · split
      · have : x < 0 := by omega
        simp [this]
      · split
        · have n : ¬ x < 0 := by omega
          have : x > 0 := by omega
          simp [n, this]
        · have n : ¬ x < 0 := by omega
          have n' : ¬ x > 0 := by omega
          simp [n, n']

theorem inst_diff (m : Mode) (a b : TP) (htz : a.tz = b.tz) :
    a.inst m - b.inst m = 86400 * (a.date.dayNum m - b.date.dayNum m) + (a.secOfDay - b.secOfDay) := by
  unfold TP.inst; rw [htz]; omega

theorem cmp_spec (m : Mode) (a b : TP) (ha : a.Valid m) (hb : b.Valid m) :
    cmp m a b = some (sgn (a.inst m - b.inst m)) := by
  unfold cmp
  by_cases c : a = b
  · subst c; simp [sgn]
  · rw [if_neg c]
    obtain ⟨a2, b2, eb, ea, sa, sb, htz, ia, ib, _⟩ := align_spec m a b ha hb
    cases h1 : toTimeZone m b a.tz with
    | none => rw [h1] at eb; simp at eb
    | some b1 =>
      rw [h1, Option.bind_some] at eb
      simp only [Option.bind_eq_bind, Option.bind_some, eb, ea]
      have sda := strict_sod m a2 sa
      have sdb := strict_sod m b2 sb
      have hd := inst_diff m a2 b2 htz
      rw [← ia, ← ib]
      have krep : (if a2.date.rep = 0 then 0 else 1) < 3 := by split <;> omega
      obtain ⟨ra, ea', va, rra, na⟩ := convert_spec m _ krep a2.date sa.1.1
      obtain ⟨rb, eb', vb, rrb, nb⟩ := convert_spec m _ krep b2.date sb.1.1
      rw [ea', eb']
      by_cases k0 : a2.date.rep = 0
      · simp only [k0, ↓reduceIte] at rra rrb
        obtain ⟨y1, mo1, d1, e1⟩ := rep0_cal ra rra
        obtain ⟨y2, mo2, d2, e2⟩ := rep0_cal rb rrb
        subst e1 e2
        simp only
        rw [cmpList_cal m _ _ _ _ _ _ _ _ va vb]
        exact congrArg some (cmp3_eq _ _ _ _ _ sda sdb (by rw [hd, ← na, ← nb]; rfl))
      · simp only [k0, ↓reduceIte] at rra rrb
        obtain ⟨y1, n1, e1⟩ := rep1_ord ra rra
        obtain ⟨y2, n2, e2⟩ := rep1_ord rb rrb
        subst e1 e2
        simp only
        rw [cmpList_ord m _ _ _ _ _ _ va vb]
        exact congrArg some (cmp3_eq _ _ _ _ _ sda sdb (by rw [hd, ← na, ← nb]; rfl))

/-! ### `__hash__` -/

theorem utc_valid : (⟨0, 0⟩ : TZ).Valid := by decide

theorem hashKey_some (m : Mode) (p : TP) (hv : p.Valid m) :
    ∃ (u2 : TP) (y mo d : Int), hashKey m p = some [y, mo, d, u2.hh, u2.mi, u2.ss] ∧ u2.Strict m ∧ u2.tz = ⟨0, 0⟩ ∧
      u2.inst m = p.inst m ∧ Spec.ValidCal m y mo d ∧ Spec.dayNumCal m y mo d = u2.date.dayNum m := by
  obtain ⟨u, e1, i1, t1, _, v1, _⟩ := toTimeZone_spec m p ⟨0, 0⟩ hv utc_valid
  obtain ⟨u2, e2, g2⟩ := normalise24_spec m u v1
  obtain ⟨r, e3, v3, r3, n3⟩ := convert_spec m 0 (by omega) u2.date g2.strict.1.1
  obtain ⟨y, mo, d, er⟩ := rep0_cal r r3
  subst er
  refine ⟨u2, y, mo, d, ?_, g2.strict, by rw [g2.tz, t1], by rw [g2.inst, i1]; omega, v3, n3⟩
  unfold hashKey toUtc
  simp only [e1, Option.bind_eq_bind, Option.bind_some, e2, e3]

theorem hms_unique (h1 m1 s1 h2 m2 s2 : Int) (a : 0 ≤ m1 ∧ m1 < 60 ∧ 0 ≤ s1 ∧ s1 < 60)
    (b : 0 ≤ m2 ∧ m2 < 60 ∧ 0 ≤ s2 ∧ s2 < 60)
    (e : 3600 * h1 + 60 * m1 + s1 = 3600 * h2 + 60 * m2 + s2) : h1 = h2 ∧ m1 = m2 ∧ s1 = s2 := by
  omega

theorem hashKey_eq_of_inst_eq (m : Mode) (p q : TP) (hp : p.Valid m) (hq : q.Valid m)
    (h : p.inst m = q.inst m) : hashKey m p = hashKey m q ∧ (hashKey m p).isSome := by
  obtain ⟨u, y1, mo1, d1, e1, s1, t1, i1, v1, n1⟩ := hashKey_some m p hp
  obtain ⟨w, y2, mo2, d2, e2, s2, t2, i2, v2, n2⟩ := hashKey_some m q hq
  have ord := (inst_order m u w s1 s2 (by rw [t1, t2])).2
  obtain ⟨hd, hs⟩ := ord.mp (by rw [i1, i2, h])
  obtain ⟨ey, emo, ed⟩ := cal_unique m _ _ _ _ _ _ v1 v2 (by rw [n1, n2, hd])
  obtain ⟨⟨_, _, _, a3, a4, a5, a6, _, _⟩, _⟩ := s1
  obtain ⟨⟨_, _, _, b3, b4, b5, b6, _, _⟩, _⟩ := s2
  obtain ⟨eh, em, es⟩ := hms_unique u.hh u.mi u.ss w.hh w.mi w.ss ⟨a3, a4, a5, a6⟩ ⟨b3, b4, b5, b6⟩
    (by unfold TP.secOfDay at hs; exact hs)
  rw [e1, e2, ey, emo, ed, eh, em, es]
  exact ⟨rfl, rfl⟩

/-! ### `__sub__(TimePoint)` -/

theorem subCore_spec (m : Mode) (a b : TP) (ha : a.Valid m) (hb : b.Valid m) :
    ∃ dd hh mm ss, subCore m a b = some (.units 0 0 dd hh mm ss) ∧
      86400 * dd + 3600 * hh + 60 * mm + ss = a.inst m - b.inst m ∧
      0 ≤ hh ∧ hh < 24 ∧ 0 ≤ mm ∧ mm < 60 ∧ 0 ≤ ss ∧ ss < 60 := by
  obtain ⟨a2, b2, eb, ea, sa, sb, htz, ia, ib, _⟩ := align_spec m a b ha hb
  cases h1 : toTimeZone m b a.tz with
  | none => rw [h1] at eb; simp at eb
  | some b1 =>
    rw [h1, Option.bind_some] at eb
    have hd := inst_diff m a2 b2 htz
    obtain ⟨ra, ea', va, rra, na⟩ := convert_spec m 1 (by omega) a2.date sa.1.1
    obtain ⟨rb, eb', vb, rrb, nb⟩ := convert_spec m 1 (by omega) b2.date sb.1.1
    obtain ⟨y1, n1, e1⟩ := rep1_ord ra rra
    obtain ⟨y2, n2, e2⟩ := rep1_ord rb rrb
    subst e1 e2
    have na' : Spec.dayNumOrd m y1 n1 = a2.date.dayNum m := na
    have nb' : Spec.dayNumOrd m y2 n2 = b2.date.dayNum m := nb
    unfold subCore
    simp only [h1, Option.bind_eq_bind, Option.bind_some, eb, ea, ea', eb', secondsInMinute_eq,
      minutesInHour_eq, hoursInDay_eq, daysInYearRange_eq]
    obtain ⟨⟨_, a1, _, a3, a4, a5, a6, _, _⟩, a9⟩ := sa
    obtain ⟨⟨_, b1', _, b3, b4, b5, b6, _, _⟩, b9⟩ := sb
    refine ⟨_, _, _, _, rfl, ?_, ?_⟩
    · rw [← ia, ← ib, hd, ← na', ← nb']
      unfold Spec.dayNumOrd TP.secOfDay
      have e1 : y1 - 1 + 1 = y1 := by omega
      have e2 : y2 - 1 + 1 = y2 := by omega
      rw [e1, e2]
      have hyy : y1 = y2 → Spec.dby m y1 = Spec.dby m y2 := fun h => by rw [h]
      split <;> split <;> split <;> split <;> split <;> omega
    · split <;> split <;> split <;> omega

theorem subTP_spec (m : Mode) (a b : TP) (ha : a.Valid m) (hb : b.Valid m) :
    ∃ dd hh mm ss, subTP m a b = some (.units 0 0 dd hh mm ss) ∧
      86400 * dd + 3600 * hh + 60 * mm + ss = a.inst m - b.inst m ∧
      (-24 < hh ∧ hh < 24 ∧ -60 < mm ∧ mm < 60 ∧ -60 < ss ∧ ss < 60) ∧
      ((0 ≤ dd ∧ 0 ≤ hh ∧ 0 ≤ mm ∧ 0 ≤ ss) ∨ (dd ≤ 0 ∧ hh ≤ 0 ∧ mm ≤ 0 ∧ ss ≤ 0)) := by
  unfold subTP
  rw [cmp_spec m b a hb ha]
  simp only [Option.bind_eq_bind, Option.bind_some]
  by_cases c : sgn (b.inst m - a.inst m) > 0
  · rw [if_pos c]
    obtain ⟨dd, hh, mm, ss, e, hl, r⟩ := subCore_spec m b a hb ha
    rw [e]
    have hpos : b.inst m - a.inst m > 0 := by
      unfold sgn at c; split at c <;> first | omega | (split at c <;> omega)
    refine ⟨dd * -1, hh * -1, mm * -1, ss * -1, rfl, by omega, by omega, Or.inr ?_⟩
    have : 0 ≤ dd := by omega
    omega
  · rw [if_neg c]
    obtain ⟨dd, hh, mm, ss, e, hl, r⟩ := subCore_spec m a b ha hb
    rw [e]
    have hge : a.inst m - b.inst m ≥ 0 := by
      unfold sgn at c; split at c <;> first | omega | (split at c <;> omega)
    refine ⟨dd, hh, mm, ss, rfl, hl, by omega, Or.inl ?_⟩
    have : 0 ≤ dd := by omega
    omega

end IsoDT.Lemmas
