/-
  IsoDT.Lemmas.TruncQ — `add_truncated` on rational-slot points (`Model.TruncatedQ`) reduced to the
  whole-second model (`Model.Truncated`):

  * along the embedding `TPQ.ofTP` every loop, conversion and the whole operation commute with the
    integer model (`DayEmb`, `dayEmb_ofTP`, `addTruncatedQ_ofTP`, `addTruncTPQ_ofTP`);
  * a loop over day designators does not touch the time slots of a strict point, so it is the
    integer loop on the date at 00:00:00 with the slots carried along (`reT`, `dayEmb_reT`,
    `addTruncatedQ_dayOnly`);
  * after `to_hour_minute_second` the second slot is a whole number plus `p`'s fraction of a
    second (`hmsTPQ_spec`); the following statement moves a point with a non-zero fraction up to the
    next whole second, so the prefix `Model.ceilSec` always yields the strict whole-second point at
    the least whole second not earlier than `p` (`ceilSec_spec`) and the run is the integer model's
    on that point (`addTruncatedQ_time`).  Why that statement is needed: `_tick_over` keeps a
    fraction (`tickOverQ_liftF`), so started on a non-zero fraction the seconds loop would never
    meet its whole-number target (`ssLoop_never`).

  All lemmas live in the namespace `IsoDT.Lemmas.TruncQ`; the parts of `addTruncatedQF`
  (`hmsPartQ`, `ssPartQ`, ..., `timePartsQ`, `dayPartsQ`) in `IsoDT.Model`.
-/
import IsoDT.Lemmas.CmpQ
import IsoDT.Lemmas.TruncDay
import IsoDT.Model.TruncatedQ

namespace IsoDT.Lemmas.TruncQ
open IsoDT IsoDT.Model
open IsoDT.Spec (Date TZ TP)

theorem isInt_add {x y : Rat} (hx : IsInt x) (hy : IsInt y) : IsInt (x + y) := by
  rw [hx.eq_intCast, hy.eq_intCast, ← Rat.intCast_add]; exact isInt_intCast _
theorem isInt_sub {x y : Rat} (hx : IsInt x) (hy : IsInt y) : IsInt (x - y) := by
  rw [hx.eq_intCast, hy.eq_intCast, ← Rat.intCast_sub]; exact isInt_intCast _

theorem divmodQ_inRange (x : Rat) (n : Int) (h0 : 0 ≤ x) (h1 : x < (n : Rat)) : divmodQ x n = (0, x) := by
  have hn' : (0 : Rat) < (n : Rat) := by grind
  have c0 : ((0 : Int) : Rat) = 0 := rfl
  have hf : (x / (n : Rat)).floor = 0 := by
    apply floor_eq_of
    · apply Rat.not_lt.1
      rw [Rat.div_lt_iff hn']
      apply Rat.not_lt.2
      rw [c0]; grind
    · rw [Rat.div_lt_iff hn', c0]; grind
  simp only [divmodQ, hf]
  congr 1
  rw [c0]; grind

theorem tickTimeQ_fix (m : Mode) (t : HMS) (hok : t.Ok) (hlt : t.hh < 24) : tickTimeQ m t = some (0, t) := by
  obtain ⟨hh, mi, ss⟩ := t
  have c24 : ((24 : Int) : Rat) = 24 := rfl
  have c60 : ((60 : Int) : Rat) = 60 := rfl
  have c0 : ((0 : Int) : Rat) = 0 := rfl
  cases mi with
  | none =>
    cases ss with
    | some s => simp [HMS.Ok] at hok
    | none =>
      simp only [HMS.Ok] at hok hlt
      simp only [tickTimeQ, hoursInDay_eq, Option.map_some]
      rw [divmodQ_inRange hh 24 hok.1 (by rw [c24]; exact hlt)]
  | some mi =>
    cases ss with
    | none =>
      simp only [HMS.Ok] at hok hlt
      obtain ⟨i1, h0, _, m0, m1, _⟩ := hok
      have e := i1.eq_intCast
      generalize hh.num = H at e
      subst e
      simp only [tickTimeQ, hoursInDay_eq, minutesInHour_eq, Option.map_some, truncQ_intCast, Rat.sub_self,
        Rat.zero_mul, Rat.add_zero, rat_sub_zero]
      rw [divmodQ_inRange mi 60 m0 (by rw [c60]; exact m1)]
      simp only [c0, Rat.add_zero]
      rw [divmodQ_inRange (H : Rat) 24 h0 (by rw [c24]; exact hlt)]
    | some s =>
      simp only [HMS.Ok] at hok hlt
      obtain ⟨i1, i2, h0, _, m0, m1, s0, s1, _⟩ := hok
      have e := i1.eq_intCast
      generalize hh.num = H at e
      subst e
      have e := i2.eq_intCast
      generalize mi.num = M at e
      subst e
      simp only [tickTimeQ, hoursInDay_eq, minutesInHour_eq, secondsInMinute_eq, Option.map_some, truncQ_intCast,
        Rat.sub_self, Rat.zero_mul, Rat.add_zero, rat_sub_zero]
      rw [divmodQ_inRange s 60 s0 (by rw [c60]; exact s1)]
      simp only [c0, Rat.add_zero]
      rw [divmodQ_inRange (M : Rat) 60 m0 (by rw [c60]; exact m1)]
      simp only [c0, Rat.add_zero]
      rw [divmodQ_inRange (H : Rat) 24 h0 (by rw [c24]; exact hlt)]

/-- Generic transfer of a loop along an embedding of whole-second points. -/
theorem loopFieldQ_emb (m : Mode) (emb : TP → TPQ) (C : TP → Prop) (hitQ : TPQ → Prop) [DecidablePred hitQ]
    (bumpQ : TPQ → TPQ) (get : TP → Int) (bump : TP → TP) (target : Int)
    (hhit : ∀ p, C p → (hitQ (emb p) ↔ get p = target))
    (hstep : ∀ p, C p → tickOverQ m (bumpQ (emb p)) = (tickOver m (bump p)).map emb)
    (hC : ∀ p q, C p → tickOver m (bump p) = some q → C q) :
    ∀ (fuel : Nat) (p : TP), C p →
      loopFieldQ m hitQ bumpQ fuel (emb p) = (loopField m get bump target fuel p).map emb := by
  intro fuel
  induction fuel with
  | zero =>
    intro p hp
    unfold loopFieldQ loopField
    by_cases c : get p = target
    · rw [if_pos c, if_pos ((hhit p hp).2 c)]; rfl
    · rw [if_neg c, if_neg (fun h => c ((hhit p hp).1 h))]; rfl
  | succ fuel ih =>
    intro p hp
    unfold loopFieldQ loopField
    by_cases c : get p = target
    · rw [if_pos c, if_pos ((hhit p hp).2 c)]; rfl
    · rw [if_neg c, if_neg (fun h => c ((hhit p hp).1 h)), hstep p hp]
      cases ht : tickOver m (bump p) with
      | none => rfl
      | some q =>
        simp only [Option.map_some, Option.bind_some]
        exact ih q (hC p q hp ht)

/-- A loop whose test can never succeed along its walk spins for ever: `none` for every fuel. -/
theorem loopFieldQ_never (m : Mode) (hit : TPQ → Prop) [DecidablePred hit] (bump : TPQ → TPQ) (J : TPQ → Prop)
    (hJ : ∀ q, J q → ¬ hit q) (hstep : ∀ q q', J q → tickOverQ m (bump q) = some q' → J q') :
    ∀ (fuel : Nat) (q : TPQ), J q → loopFieldQ m hit bump fuel q = none := by
  intro fuel
  induction fuel with
  | zero => intro q hq; unfold loopFieldQ; rw [if_neg (hJ q hq)]
  | succ fuel ih =>
    intro q hq
    unfold loopFieldQ
    rw [if_neg (hJ q hq)]
    cases ht : tickOverQ m (bump q) with
    | none => rfl
    | some q' => rw [Option.bind_some]; exact ih q' (hstep q q' hq ht)

theorem tickOver_zero_shape (m : Mode) (d : Date) (tz : TZ) (r : TP) (h : tickOver m ⟨d, 0, 0, 0, tz⟩ = some r) :
    r = ⟨r.date, 0, 0, 0, tz⟩ := by
  unfold tickOver at h
  simp only [secondsInMinute_eq, minutesInHour_eq, hoursInDay_eq] at h
  obtain ⟨dt, _, rfl⟩ := Option.map_eq_some_iff.1 h
  simp

/-- A whole-second skeleton (time 00:00:00) re-dressed with the time slots of `q0`. -/
def reT (q0 : TPQ) (p : TP) : TPQ := ⟨p.date, q0.hh, q0.mi, q0.ss, p.tz⟩

def ZeroTime (p : TP) : Prop := p.hh = 0 ∧ p.mi = 0 ∧ p.ss = 0

theorem tickOverQ_reT (m : Mode) (q0 : TPQ) (hok : q0.hms.Ok) (hlt : q0.hh < 24) (d : Date) (tz : TZ) :
    tickOverQ m (reT q0 ⟨d, 0, 0, 0, tz⟩) = (tickOver m ⟨d, 0, 0, 0, tz⟩).map (reT q0) := by
  have hfix := tickTimeQ_fix m q0.hms hok hlt
  simp only [TPQ.hms] at hfix
  simp only [tickOverQ, reT, hfix, carryDays, Int.mul_zero]
  cases h : tickOver m ⟨d, 0, 0, 0, tz⟩ with
  | none => rfl
  | some r =>
    have := tickOver_zero_shape m d tz r h
    rw [this]; rfl

end IsoDT.Lemmas.TruncQ

/-! ### `add_truncated` over rational slots cut into its parts -/
namespace IsoDT.Model
open IsoDT.Spec (Date TZ TP)

def hmsPartQ (m : Mode) (t : Trunc) (p : TPQ) : Option TPQ :=
  if (truncSS t).isSome ∨ (truncMI t).isSome then (hmsTPQ m p).bind (ceilSecQ m) else some p

def ssPartQ (fuel : Nat) (m : Mode) : Option Int → TPQ → Option TPQ
  | some s, p => loopFieldQ m (fun q => q.ss = some (s : Rat)) (fun q => { q with ss := q.ss.map (· + 1) }) fuel p
  | none, p => some p
def miPartQ (fuel : Nat) (m : Mode) : Option Int → TPQ → Option TPQ
  | some x, p => loopFieldQ m (fun q => q.mi = some (x : Rat)) (fun q => { q with mi := q.mi.map (· + 1) }) fuel p
  | none, p => some p
def hhPartQ (fuel : Nat) (m : Mode) : Option Int → TPQ → Option TPQ
  | some x, p => loopFieldQ m (fun q => q.hh = (x : Rat)) (fun q => { q with hh := q.hh + 1 }) fuel p
  | none, p => some p
def dowPartQ (fuel : Nat) (m : Mode) : Option Int → TPQ → Option TPQ
  | some x, p => (toRepQ m 2 p).bind (loopFieldQ m (fun q => getDowQ q = x) bumpDayQ fuel)
  | none, p => some p
def domPartQ (fuel : Nat) (m : Mode) : Option Int → TPQ → Option TPQ
  | some x, p => (toRepQ m 0 p).bind (loopFieldQ m (fun q => getDomQ q = x) bumpDayQ fuel)
  | none, p => some p
def doyPartQ (fuel : Nat) (m : Mode) : Option Int → TPQ → Option TPQ
  | some x, p => (toRepQ m 1 p).bind (loopFieldQ m (fun q => getDoyQ q = x) bumpDayQ fuel)
  | none, p => some p
def weekPartQ (fuel : Nat) (m : Mode) : Option Int → TPQ → Option TPQ
  | some x, p => (toRepQ m 2 p).bind (loopFieldQ m (fun q => getWeekQ q = x) bumpWeekQ fuel)
  | none, p => some p

/-- The three time-of-day loops. -/
def timePartsQ (fuel : Nat) (m : Mode) (t : Trunc) (p : TPQ) : Option TPQ :=
  (ssPartQ fuel m (truncSS t) p).bind fun p1 => (miPartQ fuel m (truncMI t) p1).bind fun p2 => hhPartQ fuel m t.hh p2

/-- The four day-designator loops. -/
def dayPartsQ (fu : TruncFuel) (m : Mode) (t : Trunc) (p : TPQ) : Option TPQ :=
  (dowPartQ fu.dow m t.dow p).bind fun p4 => (domPartQ fu.dom m t.dom p4).bind fun p5 =>
  (doyPartQ fu.doy m t.doy p5).bind fun p6 => weekPartQ fu.week m t.week p6

end IsoDT.Model
namespace IsoDT.Lemmas.TruncQ
open IsoDT IsoDT.Model
open IsoDT.Spec (Date TZ TP)

def timeParts (m : Mode) (t : Trunc) (p : TP) : Option TP :=
  (ssPart m (effSS t) p).bind fun p1 => (miPart m (effMI t) p1).bind fun p2 => hhPart m t.hh p2

def dayParts (m : Mode) (t : Trunc) (p : TP) : Option TP :=
  (dowPart m t.dow p).bind fun p4 => (domPart m t.dom p4).bind fun p5 =>
  (doyPart m t.doy p5).bind fun p6 => weekPart m t.week p6

theorem addTruncated_two (m : Mode) (p : TP) (t : Trunc) :
    addTruncated m p t = (normalise24 m p).bind fun p0 => (timeParts m t p0).bind (dayParts m t) := by
  rw [addTruncated_parts]
  cases normalise24 m p with
  | none => rfl
  | some p0 =>
    simp only [Option.bind_some, timeParts]
    cases ssPart m (effSS t) p0 with
    | none => rfl
    | some p1 =>
      simp only [Option.bind_some]
      cases miPart m (effMI t) p1 with
      | none => rfl
      | some p2 => simp only [Option.bind_some]; rfl

theorem truncMI_eq (t : Trunc) : truncMI t = effMI t := rfl
theorem truncSS_eq (t : Trunc) : truncSS t = effSS t := rfl

theorem addTruncatedQF_two (fu : TruncFuel) (m : Mode) (p : TPQ) (t : Trunc) :
    addTruncatedQF fu m p t = (normalise24Q m p).bind fun p0 => (hmsPartQ m t p0).bind fun pH =>
      (timePartsQ fu.time m t pH).bind (dayPartsQ fu m t) := by
  obtain ⟨week, dow, dom, doy, hh, mi, ss, tz⟩ := t
  unfold addTruncatedQF
  cases normalise24Q m p with
  | none => rfl
  | some p0 =>
    cases hh <;> cases mi <;> cases ss <;>
      simp only [Option.bind_eq_bind, Option.bind_some, hmsPartQ, truncSS, truncMI, Option.isSome_none,
        Option.isSome_some, Bool.false_eq_true, or_self, or_true, true_or, ↓reduceIte] <;>
      (try cases ((hmsTPQ m p0).bind (ceilSecQ m)) <;> simp only [Option.bind_none, Option.bind_some]) <;>
      cases week <;> cases dow <;> cases dom <;> cases doy <;> unfold dayPartsQ <;>
      simp only [timePartsQ, truncSS, truncMI, ssPartQ, miPartQ, hhPartQ, dowPartQ, domPartQ, doyPartQ,
        weekPartQ, Option.isSome_none, Option.isSome_some, Bool.false_eq_true, or_self, or_true, ↓reduceIte,
        Option.bind_assoc, Option.bind_some, Option.bind_fun_some]

/-! ### embeddings of whole-second points along which the loops commute -/

/-- An embedding `emb` of the whole-second points of a class `C` into rational-slot points that
    commutes with `_tick_over` and with replacing the date. -/
structure DayEmb (m : Mode) (emb : TP → TPQ) (C : TP → Prop) : Prop where
  date : ∀ p, (emb p).date = p.date
  setDate : ∀ p d, { emb p with date := d } = emb { p with date := d }
  tick : ∀ p, C p → tickOverQ m (emb p) = (tickOver m p).map emb
  cDate : ∀ p d, C p → C { p with date := d }
  cTick : ∀ p q, C p → tickOver m p = some q → C q

theorem loopField_inv (m : Mode) (get : TP → Int) (bump : TP → TP) (target : Int) (C : TP → Prop)
    (hC : ∀ p q, C p → tickOver m (bump p) = some q → C q) :
    ∀ (fuel : Nat) (p q : TP), C p → loopField m get bump target fuel p = some q → C q := by
  intro fuel
  induction fuel with
  | zero =>
    intro p q hp h
    unfold loopField at h
    split at h
    · cases h; exact hp
    · cases h
  | succ fuel ih =>
    intro p q hp h
    unfold loopField at h
    split at h
    · cases h; exact hp
    · cases ht : tickOver m (bump p) with
      | none => rw [ht] at h; cases h
      | some p1 => rw [ht, Option.bind_some] at h; exact ih p1 q (hC p p1 hp ht) h

section dayemb
variable {m : Mode} {emb : TP → TPQ} {C : TP → Prop}

theorem dayEmb_toRep (E : DayEmb m emb C) (k : Nat) (p : TP) :
    toRepQ m k (emb p) = (toRep m k p).map emb := by
  unfold toRepQ Model.toRep
  rw [E.date, Option.map_map]
  congr 1
  funext dt
  exact E.setDate p dt

theorem dayEmb_toRep_c (E : DayEmb m emb C) (k : Nat) (p q : TP) (hp : C p) (h : toRep m k p = some q) : C q := by
  unfold Model.toRep at h
  obtain ⟨dt, _, rfl⟩ := Option.map_eq_some_iff.1 h
  exact E.cDate p dt hp

theorem dayEmb_bumpDay (E : DayEmb m emb C) (p : TP) :
    bumpDayQ (emb p) = emb { p with date := bumpDay p.date 1 } := by
  unfold bumpDayQ; rw [E.date]; exact E.setDate p _

theorem dayEmb_bumpWeek (E : DayEmb m emb C) (p : TP) : bumpWeekQ (emb p) = emb (bumpWeek p) := by
  unfold bumpWeekQ Model.bumpWeek
  rw [E.date]
  cases p.date with
  | week y w d => exact E.setDate p _
  | cal y mo d => rfl
  | ord y n => rfl

theorem getDowQ_emb (E : DayEmb m emb C) (p : TP) : getDowQ (emb p) = getDow p := by
  have h := E.date p
  unfold getDowQ getDow
  cases hd : p.date <;> rw [hd] at h <;> rw [h]
theorem getDomQ_emb (E : DayEmb m emb C) (p : TP) : getDomQ (emb p) = getDom p := by
  have h := E.date p
  unfold getDomQ getDom
  cases hd : p.date <;> rw [hd] at h <;> rw [h]
theorem getDoyQ_emb (E : DayEmb m emb C) (p : TP) : getDoyQ (emb p) = getDoy p := by
  have h := E.date p
  unfold getDoyQ getDoy
  cases hd : p.date <;> rw [hd] at h <;> rw [h]
theorem getWeekQ_emb (E : DayEmb m emb C) (p : TP) : getWeekQ (emb p) = getWeek p := by
  have h := E.date p
  unfold getWeekQ getWeek
  cases hd : p.date <;> rw [hd] at h <;> rw [h]

theorem bumpWeek_c (E : DayEmb m emb C) (p : TP) (hp : C p) : C (bumpWeek p) := by
  unfold Model.bumpWeek
  cases p.date with
  | week y w d => exact E.cDate p _ hp
  | cal y mo d => exact hp
  | ord y n => exact hp

/-- A day loop (`get` reads the date only, the bump replaces the date only). -/
theorem dayEmb_dayLoop (E : DayEmb m emb C) (getQ : TPQ → Int) (get : TP → Int) (hg : ∀ p, getQ (emb p) = get p)
    (target : Int) (fuel : Nat) (p : TP) (hp : C p) :
    loopFieldQ m (fun q => getQ q = target) bumpDayQ fuel (emb p) =
      (loopField m get (fun q => { q with date := Model.bumpDay q.date 1 }) target fuel p).map emb ∧
    ∀ q, loopField m get (fun q => { q with date := Model.bumpDay q.date 1 }) target fuel p = some q → C q := by
  constructor
  · apply loopFieldQ_emb m emb C _ bumpDayQ get _ target
    · intro p _; rw [hg]
    · intro p hp; rw [dayEmb_bumpDay E]; exact E.tick _ (E.cDate p _ hp)
    · intro p q hp h; exact E.cTick _ q (E.cDate p _ hp) h
    · exact hp
  · intro q h
    exact loopField_inv m get _ target C (fun p q hp h => E.cTick _ q (E.cDate p _ hp) h) fuel p q hp h

theorem dayEmb_weekLoop (E : DayEmb m emb C) (target : Int) (fuel : Nat) (p : TP) (hp : C p) :
    loopFieldQ m (fun q => getWeekQ q = target) bumpWeekQ fuel (emb p) =
      (loopField m getWeek Model.bumpWeek target fuel p).map emb ∧
    ∀ q, loopField m getWeek Model.bumpWeek target fuel p = some q → C q := by
  constructor
  · apply loopFieldQ_emb m emb C _ bumpWeekQ getWeek _ target
    · intro p _; rw [getWeekQ_emb E]
    · intro p hp; rw [dayEmb_bumpWeek E]; exact E.tick _ (bumpWeek_c E p hp)
    · intro p q hp h; exact E.cTick _ q (bumpWeek_c E p hp) h
    · exact hp
  · intro q h
    exact loopField_inv m getWeek _ target C (fun p q hp h => E.cTick _ q (bumpWeek_c E p hp) h) fuel p q hp h

theorem dayEmb_dowPart (E : DayEmb m emb C) (o : Option Int) (p : TP) (hp : C p) :
    dowPartQ fuelDow m o (emb p) = (dowPart m o p).map emb ∧ ∀ q, dowPart m o p = some q → C q := by
  cases o with
  | none => exact ⟨rfl, fun q h => by cases h; exact hp⟩
  | some x =>
    simp only [dowPartQ, Lemmas.dowPart, dayEmb_toRep E]
    cases hr : toRep m 2 p with
    | none => exact ⟨rfl, fun q h => by cases h⟩
    | some r =>
      have hrC := dayEmb_toRep_c E 2 p r hp hr
      have := dayEmb_dayLoop E getDowQ getDow (getDowQ_emb E) x fuelDow r hrC
      simpa only [Option.map_some, Option.bind_some] using this

theorem dayEmb_domPart (E : DayEmb m emb C) (o : Option Int) (p : TP) (hp : C p) :
    domPartQ fuelDom m o (emb p) = (domPart m o p).map emb ∧ ∀ q, domPart m o p = some q → C q := by
  cases o with
  | none => exact ⟨rfl, fun q h => by cases h; exact hp⟩
  | some x =>
    simp only [domPartQ, Lemmas.domPart, dayEmb_toRep E]
    cases hr : toRep m 0 p with
    | none => exact ⟨rfl, fun q h => by cases h⟩
    | some r =>
      have hrC := dayEmb_toRep_c E 0 p r hp hr
      have := dayEmb_dayLoop E getDomQ getDom (getDomQ_emb E) x fuelDom r hrC
      simpa only [Option.map_some, Option.bind_some] using this

theorem dayEmb_doyPart (E : DayEmb m emb C) (o : Option Int) (p : TP) (hp : C p) :
    doyPartQ fuelDoy m o (emb p) = (doyPart m o p).map emb ∧ ∀ q, doyPart m o p = some q → C q := by
  cases o with
  | none => exact ⟨rfl, fun q h => by cases h; exact hp⟩
  | some x =>
    simp only [doyPartQ, Lemmas.doyPart, dayEmb_toRep E]
    cases hr : toRep m 1 p with
    | none => exact ⟨rfl, fun q h => by cases h⟩
    | some r =>
      have hrC := dayEmb_toRep_c E 1 p r hp hr
      have := dayEmb_dayLoop E getDoyQ getDoy (getDoyQ_emb E) x fuelDoy r hrC
      simpa only [Option.map_some, Option.bind_some] using this

theorem dayEmb_weekPart (E : DayEmb m emb C) (o : Option Int) (p : TP) (hp : C p) :
    weekPartQ fuelWeek m o (emb p) = (weekPart m o p).map emb ∧ ∀ q, weekPart m o p = some q → C q := by
  cases o with
  | none => exact ⟨rfl, fun q h => by cases h; exact hp⟩
  | some x =>
    simp only [weekPartQ, Lemmas.weekPart, dayEmb_toRep E]
    cases hr : toRep m 2 p with
    | none => exact ⟨rfl, fun q h => by cases h⟩
    | some r =>
      have hrC := dayEmb_toRep_c E 2 p r hp hr
      have := dayEmb_weekLoop E x fuelWeek r hrC
      simpa only [Option.map_some, Option.bind_some] using this

/-- **The four day-designator loops commute with the embedding.** -/
theorem dayEmb_dayParts (E : DayEmb m emb C) (t : Trunc) (p : TP) (hp : C p) :
    dayPartsQ stdTruncFuel m t (emb p) = (dayParts m t p).map emb := by
  unfold dayPartsQ TruncQ.dayParts stdTruncFuel
  obtain ⟨e4, c4⟩ := dayEmb_dowPart E t.dow p hp
  rw [e4]
  cases h4 : Lemmas.dowPart m t.dow p with
  | none => rfl
  | some p4 =>
    simp only [Option.map_some, Option.bind_some]
    obtain ⟨e5, c5⟩ := dayEmb_domPart E t.dom p4 (c4 p4 h4)
    rw [e5]
    cases h5 : Lemmas.domPart m t.dom p4 with
    | none => rfl
    | some p5 =>
      simp only [Option.map_some, Option.bind_some]
      obtain ⟨e6, c6⟩ := dayEmb_doyPart E t.doy p5 (c5 p5 h5)
      rw [e6]
      cases h6 : Lemmas.doyPart m t.doy p5 with
      | none => rfl
      | some p6 =>
        simp only [Option.map_some, Option.bind_some]
        exact (dayEmb_weekPart E t.week p6 (c6 p6 h6)).1

end dayemb

/-- The embedding of all whole-second points. -/
theorem dayEmb_ofTP (m : Mode) : DayEmb m TPQ.ofTP (fun _ => True) :=
  ⟨fun _ => rfl, fun _ _ => rfl, fun p _ => tickOverQ_ofTP m p, fun _ _ _ => trivial, fun _ _ _ _ => trivial⟩

/-- A date skeleton (time 00:00:00) dressed with the time slots of a strict point `q0`. -/
theorem dayEmb_reT (m : Mode) (q0 : TPQ) (hok : q0.hms.Ok) (hlt : q0.hh < 24) : DayEmb m (reT q0) ZeroTime := by
  refine ⟨fun _ => rfl, fun _ _ => rfl, ?_, fun p d hp => hp, ?_⟩
  · intro p hp
    obtain ⟨d, hh, mi, ss, tz⟩ := p
    obtain ⟨h1, h2, h3⟩ := hp
    simp only at h1 h2 h3
    subst h1 h2 h3
    exact tickOverQ_reT m q0 hok hlt d tz
  · intro p q hp h
    obtain ⟨d, hh, mi, ss, tz⟩ := p
    obtain ⟨h1, h2, h3⟩ := hp
    simp only at h1 h2 h3
    subst h1 h2 h3
    have := tickOver_zero_shape m d tz q h
    rw [this]; exact ⟨rfl, rfl, rfl⟩

/-! ### the time-of-day loops along `ofTP` -/

theorem ssPartQ_ofTP (m : Mode) (o : Option Int) (p : TP) :
    ssPartQ fuelTime m o (TPQ.ofTP p) = (ssPart m o p).map TPQ.ofTP := by
  cases o with
  | none => rfl
  | some s =>
    simp only [ssPartQ, ssPart]
    apply loopFieldQ_emb m TPQ.ofTP (fun _ => True) _ _ (·.ss) _ s
    · intro p _; simp only [TPQ.ofTP, Option.some.injEq, Rat.intCast_inj]
    · intro p _
      have c1 : (1 : Rat) = ((1 : Int) : Rat) := rfl
      simp only [TPQ.ofTP, Option.map_some, c1, ← Rat.intCast_add]
      exact tickOverQ_ofTP m { p with ss := p.ss + 1 }
    · intros; trivial
    · trivial

theorem miPartQ_ofTP (m : Mode) (o : Option Int) (p : TP) :
    miPartQ fuelTime m o (TPQ.ofTP p) = (miPart m o p).map TPQ.ofTP := by
  cases o with
  | none => rfl
  | some s =>
    simp only [miPartQ, miPart]
    apply loopFieldQ_emb m TPQ.ofTP (fun _ => True) _ _ (·.mi) _ s
    · intro p _; simp only [TPQ.ofTP, Option.some.injEq, Rat.intCast_inj]
    · intro p _
      have c1 : (1 : Rat) = ((1 : Int) : Rat) := rfl
      simp only [TPQ.ofTP, Option.map_some, c1, ← Rat.intCast_add]
      exact tickOverQ_ofTP m { p with mi := p.mi + 1 }
    · intros; trivial
    · trivial

theorem hhPartQ_ofTP (m : Mode) (o : Option Int) (p : TP) :
    hhPartQ fuelTime m o (TPQ.ofTP p) = (hhPart m o p).map TPQ.ofTP := by
  cases o with
  | none => rfl
  | some s =>
    simp only [hhPartQ, hhPart]
    apply loopFieldQ_emb m TPQ.ofTP (fun _ => True) _ _ (·.hh) _ s
    · intro p _; simp only [TPQ.ofTP, Rat.intCast_inj]
    · intro p _
      have c1 : (1 : Rat) = ((1 : Int) : Rat) := rfl
      simp only [TPQ.ofTP, c1, ← Rat.intCast_add]
      exact tickOverQ_ofTP m { p with hh := p.hh + 1 }
    · intros; trivial
    · trivial

theorem timePartsQ_ofTP (m : Mode) (t : Trunc) (p : TP) :
    timePartsQ fuelTime m t (TPQ.ofTP p) = (timeParts m t p).map TPQ.ofTP := by
  unfold timePartsQ timeParts
  rw [ssPartQ_ofTP, truncSS_eq, truncMI_eq]
  cases ssPart m (effSS t) p with
  | none => rfl
  | some p1 =>
    simp only [Option.map_some, Option.bind_some]
    rw [miPartQ_ofTP]
    cases miPart m (effMI t) p1 with
    | none => rfl
    | some p2 =>
      simp only [Option.map_some, Option.bind_some]
      exact hhPartQ_ofTP m t.hh p2

theorem hmsTPQ_ofTP (m : Mode) (p : TP) : hmsTPQ m (TPQ.ofTP p) = some (TPQ.ofTP p) := rfl

theorem ceilSecQ_ofTP (m : Mode) (p : TP) : ceilSecQ m (TPQ.ofTP p) = some (TPQ.ofTP p) := by
  simp only [ceilSecQ, TPQ.ofTP, truncQ_intCast, ne_eq, not_true_eq_false, ↓reduceIte]

theorem hmsPartQ_ofTP (m : Mode) (t : Trunc) (p : TP) : hmsPartQ m t (TPQ.ofTP p) = some (TPQ.ofTP p) := by
  unfold hmsPartQ; split
  · rw [hmsTPQ_ofTP, Option.bind_some, ceilSecQ_ofTP]
  · rfl

/-- The loops after `to_hour_minute_second`, started on a whole-second point. -/
theorem loopsQ_ofTP (m : Mode) (t : Trunc) (p : TP) :
    (timePartsQ stdTruncFuel.time m t (TPQ.ofTP p)).bind (dayPartsQ stdTruncFuel m t) =
      ((timeParts m t p).bind (dayParts m t)).map TPQ.ofTP := by
  show (timePartsQ fuelTime m t (TPQ.ofTP p)).bind (dayPartsQ stdTruncFuel m t) = _
  rw [timePartsQ_ofTP]
  cases timeParts m t p with
  | none => rfl
  | some p3 =>
    simp only [Option.map_some, Option.bind_some]
    exact dayEmb_dayParts (dayEmb_ofTP m) t p3 trivial

/-- **On a whole-second point the rational model is the integer model.** -/
theorem addTruncatedQ_ofTP (m : Mode) (p : TP) (t : Trunc) :
    addTruncatedQ m (TPQ.ofTP p) t = (addTruncated m p t).map TPQ.ofTP := by
  unfold addTruncatedQ
  rw [addTruncatedQF_two, addTruncated_two, normalise24Q_ofTP]
  cases normalise24 m p with
  | none => rfl
  | some p0 =>
    simp only [Option.map_some, Option.bind_some, hmsPartQ_ofTP]
    exact loopsQ_ofTP m t p0

theorem addTruncTPQ_ofTP (m : Mode) (p : TP) (t : Trunc) :
    addTruncTPQ m (TPQ.ofTP p) t = (addTruncTP m p t).map TPQ.ofTP := by
  unfold addTruncTPQ addTruncTPQF addTruncTP
  cases t.tz with
  | none => exact addTruncatedQ_ofTP m p t
  | some z =>
    simp only
    rw [toTimeZoneQ_ofTP]
    cases toTimeZone m p z with
    | none => rfl
    | some q =>
      simp only [Option.map_some, Option.bind_some]
      have := addTruncatedQ_ofTP m q t
      unfold addTruncatedQ at this
      rw [this]
      cases addTruncated m q t with
      | none => rfl
      | some r =>
        simp only [Option.map_some, Option.bind_some]
        exact toTimeZoneQ_ofTP m r p.tz

/-! ### a whole-second point plus a fraction of a second -/

theorem divmodQ_intCast_add (a n : Int) (hn : 0 < n) (f : Rat) (h0 : 0 ≤ f) (h1 : f < 1) :
    divmodQ ((a : Rat) + f) n = (a / n, ((a % n : Int) : Rat) + f) := by
  have hn' : (0 : Rat) < (n : Rat) := Rat.intCast_pos.2 hn
  have hm0 : 0 ≤ a % n := Int.emod_nonneg a (by omega)
  have hm1 : a % n < n := Int.emod_lt_of_pos a hn
  have e : a = n * (a / n) + a % n := (Int.mul_ediv_add_emod a n).symm
  have lo : ((a / n : Int) : Rat) * (n : Rat) ≤ (a : Rat) := by
    rw [← Rat.intCast_mul, Rat.intCast_le_intCast, Int.mul_comm]; omega
  have hi : (a : Rat) + 1 ≤ (((a / n : Int) : Rat) + 1) * (n : Rat) := by
    have c1 : (1 : Rat) = ((1 : Int) : Rat) := rfl
    rw [c1, ← Rat.intCast_add, ← Rat.intCast_add, ← Rat.intCast_mul, Rat.intCast_le_intCast, Int.add_mul, Int.mul_comm]
    omega
  obtain ⟨em, _, _⟩ := emod_cast a n hn
  have hf : (((a : Rat) + f) / (n : Rat)).floor = a / n := by
    apply floor_eq_of
    · apply Rat.not_lt.1
      rw [Rat.div_lt_iff hn']
      apply Rat.not_lt.2
      grind
    · rw [Rat.div_lt_iff hn']; grind
  simp only [divmodQ, hf]
  congr 1
  grind

/-- A whole-second point with `f` added to its second slot. -/
def liftF (f : Rat) (p : TP) : TPQ := ⟨p.date, (p.hh : Rat), some (p.mi : Rat), some ((p.ss : Rat) + f), p.tz⟩

theorem liftF_zero (p : TP) : liftF 0 p = TPQ.ofTP p := by
  simp only [liftF, TPQ.ofTP, Rat.add_zero]

theorem tickTimeQ_liftF (m : Mode) (hh mi ss : Int) (f : Rat) (h0 : 0 ≤ f) (h1 : f < 1) :
    tickTimeQ m ⟨(hh : Rat), some (mi : Rat), some ((ss : Rat) + f)⟩ =
      some ((hh + (mi + ss / 60) / 60) / 24,
        ⟨(((hh + (mi + ss / 60) / 60) % 24 : Int) : Rat), some (((mi + ss / 60) % 60 : Int) : Rat),
          some (((ss % 60 : Int) : Rat) + f)⟩) := by
  simp only [tickTimeQ, hoursInDay_eq, minutesInHour_eq, secondsInMinute_eq, Option.map_some,
    truncQ_intCast, Rat.sub_self, Rat.zero_mul, Rat.add_zero, rat_sub_zero]
  rw [divmodQ_intCast_add _ _ (by omega) f h0 h1]
  dsimp only
  rw [← Rat.intCast_add, divmodQ_intCast _ _ (by omega)]
  dsimp only
  rw [← Rat.intCast_add, divmodQ_intCast _ _ (by omega)]

/-- **`_tick_over` keeps the fraction of a second.** -/
theorem tickOverQ_liftF (m : Mode) (f : Rat) (h0 : 0 ≤ f) (h1 : f < 1) (p : TP) :
    tickOverQ m (liftF f p) = (tickOver m p).map (liftF f) := by
  obtain ⟨date, hh, mi, ss, tz⟩ := p
  simp only [tickOverQ, liftF, tickTimeQ_liftF m hh mi ss f h0 h1, carryDays]
  have e : ((calOf m).hoursInDay * ((hh + (mi + ss / 60) / 60) / 24) + (0 + 0 / 60) / 60) / 24
      = (hh + (mi + ss / 60) / 60) / 24 := by rw [hoursInDay_eq]; omega
  unfold tickOver
  simp only [secondsInMinute_eq, minutesInHour_eq, hoursInDay_eq] at e ⊢
  rw [e]
  cases date with
  | cal y mo d =>
    dsimp only
    cases tickDayOfMonth m y mo (d + (hh + (mi + ss / 60) / 60) / 24) with
    | none => rfl
    | some r => obtain ⟨a, b, c⟩ := r; rfl
  | ord y doy => rfl
  | week y w d => rfl

theorem not_isInt_add_frac (a : Int) (f : Rat) (h0 : 0 < f) (h1 : f < 1) (b : Int) : (a : Rat) + f ≠ (b : Rat) := by
  intro h
  have e : f = ((b - a : Int) : Rat) := by rw [Rat.intCast_sub]; grind
  have c0 : ((0 : Int) : Rat) = 0 := rfl
  have c1 : ((1 : Int) : Rat) = 1 := rfl
  rw [e, ← c0, Rat.intCast_lt_intCast] at h0
  rw [e, ← c1, Rat.intCast_lt_intCast] at h1
  omega

/-- **With a fraction of a second the seconds loop never meets its whole-number target.** -/
theorem ssLoop_never (m : Mode) (f : Rat) (h0 : 0 < f) (h1 : f < 1) (s : Int) (fuel : Nat) (p : TP) :
    loopFieldQ m (fun q => q.ss = some (s : Rat)) (fun q => { q with ss := q.ss.map (· + 1) }) fuel (liftF f p) = none := by
  apply loopFieldQ_never m _ _ (fun q => ∃ r : TP, q = liftF f r)
  · rintro q ⟨r, rfl⟩ h
    simp only [liftF, Option.some.injEq] at h
    exact not_isInt_add_frac r.ss f h0 h1 s h
  · rintro q q' ⟨r, rfl⟩ h
    have e : ({ liftF f r with ss := (liftF f r).ss.map (· + 1) } : TPQ) = liftF f { r with ss := r.ss + 1 } := by
      have c1 : (1 : Rat) = ((1 : Int) : Rat) := rfl
      simp only [liftF, Option.map_some, Rat.intCast_add, ← c1]
      congr 2
      grind
    rw [e, tickOverQ_liftF m f (Rat.le_of_lt h0) h1] at h
    obtain ⟨r', _, rfl⟩ := Option.map_eq_some_iff.1 h
    exact ⟨r', rfl⟩
  · exact ⟨p, rfl⟩

/-! ### `to_hour_minute_second` of a strict point -/

/-- `p` denotes a whole second: its time of day, in seconds, is a whole number (whatever the
    precision form). -/
def WholeSec (p : TPQ) : Prop := IsInt p.hms.secs

instance (p : TPQ) : Decidable (WholeSec p) := by unfold WholeSec; infer_instance

/-- **`to_hour_minute_second` of a strict point**: a strict whole-second point `p'` (same date,
    same offset) plus a fraction `f ∈ [0, 1)` on the second slot; the instant is kept; `f = 0`
    exactly when `p` denotes a whole second. -/
theorem hmsTPQ_spec (m : Mode) (p : TPQ) (h : TPQ.Strict m p) :
    ∃ (p' : TP) (f : Rat), hmsTPQ m p = some (liftF f p') ∧ 0 ≤ f ∧ f < 1 ∧ p'.Strict m ∧ p'.date = p.date ∧
      p'.tz = p.tz ∧ ((p'.inst m : Int) : Rat) + f = p.inst m ∧ (f = 0 ↔ WholeSec p) := by
  obtain ⟨H, M, S, e, a1, a2, a3, a4, a5, a6, a7⟩ := hmsQ_spec m p h
  have c0 : ((0 : Int) : Rat) = 0 := rfl
  have c60 : ((60 : Int) : Rat) = 60 := rfl
  have f1 := Rat.floor_le S
  have f2 := Rat.lt_floor_add_one S
  have k0 : 0 ≤ S.floor := Rat.le_floor_iff.2 (by rw [c0]; exact a5)
  have k1 : S.floor < 60 := Rat.floor_lt_iff.2 (by rw [c60]; exact a6)
  refine ⟨⟨p.date, H, M, S.floor, p.tz⟩, S - (S.floor : Rat), ?_, by grind, by grind, ?_, rfl, rfl, ?_, ?_⟩
  · simp only [hmsTPQ, e, Option.map_some, liftF]
    congr 3
    grind
  · refine ⟨⟨h.1.1, ?_, ?_, ?_, ?_, ?_, ?_, ?_, h.1.2.1⟩, ?_⟩ <;> dsimp only <;>
      first | omega | (intro h24; omega)
  · simp only [TP.inst, TP.secOfDay, TPQ.inst, Rat.intCast_sub, Rat.intCast_add, Rat.intCast_mul, ← a7]
    have c1 : ((86400 : Int) : Rat) = 86400 := rfl
    have c2 : ((3600 : Int) : Rat) = 3600 := rfl
    rw [c1, c2, c60]
    grind
  · unfold WholeSec
    rw [← a7]
    constructor
    · intro hf
      have : S = (S.floor : Rat) := by grind
      rw [this]
      have c2 : (3600 : Rat) = ((3600 : Int) : Rat) := rfl
      rw [c2, ← c60, ← Rat.intCast_mul, ← Rat.intCast_mul, ← Rat.intCast_add, ← Rat.intCast_add]
      exact isInt_intCast _
    · intro hi
      have c2 : (3600 : Rat) = ((3600 : Int) : Rat) := rfl
      have hS : IsInt S := by
        have : S = 3600 * (H : Rat) + 60 * (M : Rat) + S - ((3600 * H + 60 * M : Int) : Rat) := by
          rw [Rat.intCast_add, Rat.intCast_mul, Rat.intCast_mul, ← c2, c60]; grind
        rw [this]
        exact isInt_sub hi (isInt_intCast _)
      have := hS.eq_intCast
      rw [this, Rat.floor_intCast]
      grind

/-- A strict point passes `_get_end_of_day_normalised` unchanged. -/
theorem normalise24_strict' (m : Mode) (p : TP) (h : p.Strict m) : normalise24 m p = some p := by
  unfold normalise24
  rw [hoursInDay_eq, if_neg (by have := h.2; omega)]

theorem truncSS_some_of_time (t : Trunc) (ht : t.hh ≠ none ∨ t.mi ≠ none ∨ t.ss ≠ none) :
    ∃ s, truncSS t = some s := by
  obtain ⟨week, dow, dom, doy, hh, mi, ss, tz⟩ := t
  cases hh <;> cases mi <;> cases ss <;> simp [truncSS, truncMI] at ht ⊢

/-- **No time field named**: no `to_hour_minute_second`, no time loop; the day loops run on the
    date of `p0` (`p` with 24:00 normalised) exactly as the integer model does on that date at
    00:00:00, and the three time slots of `p0` - precision form and fraction included - are carried
    along unchanged. -/
theorem addTruncatedQ_dayOnly (m : Mode) (p : TPQ) (hv : p.Valid m) (t : Trunc)
    (h1 : t.hh = none) (h2 : t.mi = none) (h3 : t.ss = none) :
    ∃ p0, normalise24Q m p = some p0 ∧ GoodQ m p p0 0 ∧
      addTruncatedQ m p t = (addTruncated m ⟨p0.date, 0, 0, 0, p0.tz⟩ t).map (reT p0) := by
  obtain ⟨p0, e0, g0⟩ := normalise24Q_spec m p hv
  refine ⟨p0, e0, g0, ?_⟩
  have hmi : truncMI t = none := by unfold truncMI; rw [h1, h2]
  have hss : truncSS t = none := by unfold truncSS; rw [h3, hmi, h1]; rfl
  unfold addTruncatedQ
  rw [addTruncatedQF_two, e0, addTruncated_two]
  have n0 : normalise24 m ⟨p0.date, 0, 0, 0, p0.tz⟩ = some ⟨p0.date, 0, 0, 0, p0.tz⟩ := by
    simp [normalise24, hoursInDay_eq]
  have tq : timePartsQ stdTruncFuel.time m t p0 = some p0 := by
    unfold timePartsQ; rw [hss, hmi, h1]; rfl
  have ti : timeParts m t ⟨p0.date, 0, 0, 0, p0.tz⟩ = some ⟨p0.date, 0, 0, 0, p0.tz⟩ := by
    unfold timeParts; rw [← truncSS_eq, ← truncMI_eq, hss, hmi, h1]; rfl
  have hp : hmsPartQ m t p0 = some p0 := by
    unfold hmsPartQ; rw [hss, hmi]; rfl
  simp only [Option.bind_some, n0, hp, tq, ti]
  exact dayEmb_dayParts (dayEmb_reT m p0 g0.valid.2.2 g0.lt24) t ⟨p0.date, 0, 0, 0, p0.tz⟩ ⟨rfl, rfl, rfl⟩

/-! ### meaning of the embeddings -/

theorem ofTP_inst (m : Mode) (p : TP) : (TPQ.ofTP p).inst m = ((p.inst m : Int) : Rat) := by
  simp only [TPQ.inst, TPQ.hms, TPQ.ofTP, HMS.secs, Option.getD_some, TP.inst, TP.secOfDay,
    Rat.intCast_sub, Rat.intCast_add, Rat.intCast_mul]
  rfl

theorem ofTP_strict (m : Mode) (p : TP) (h : p.Strict m) : TPQ.Strict m (TPQ.ofTP p) := by
  obtain ⟨⟨a, c1, c2, c3, c4, c5, c6, c7, b⟩, c8⟩ := h
  have c0 : ((0 : Int) : Rat) = 0 := rfl
  have c24 : ((24 : Int) : Rat) = 24 := rfl
  have c60 : ((60 : Int) : Rat) = 60 := rfl
  refine ⟨⟨a, b, ?_⟩, ?_⟩
  · simp only [TPQ.hms, TPQ.ofTP, HMS.Ok, isInt_intCast, true_and]
    rw [← c0, ← c24, ← c60]
    simp only [Rat.intCast_le_intCast, Rat.intCast_lt_intCast, Rat.intCast_inj]
    exact ⟨c1, c2, c3, c4, c5, c6, c7⟩
  · show ((p.hh : Int) : Rat) < 24
    rw [← c24, Rat.intCast_lt_intCast]; exact c8

/-- `p` denotes a whole second iff its instant is a whole number of seconds. -/
theorem wholeSec_iff_inst (m : Mode) (p : TPQ) : WholeSec p ↔ IsInt (p.inst m) := by
  unfold WholeSec TPQ.inst
  have c1 : (86400 : Rat) = ((86400 : Int) : Rat) := rfl
  constructor
  · intro h
    rw [c1, ← Rat.intCast_mul]
    exact isInt_sub (isInt_add (isInt_intCast _) h) (isInt_intCast _)
  · intro h
    have : p.hms.secs = 86400 * ((p.date.dayNum m : Int) : Rat) + p.hms.secs - ((p.tz.seconds : Int) : Rat) -
        ((86400 * p.date.dayNum m - p.tz.seconds : Int) : Rat) := by
      rw [Rat.intCast_sub, Rat.intCast_mul, ← c1]; grind
    rw [this]
    exact isInt_sub h (isInt_intCast _)

theorem wholeSec_of_inst_eq (m : Mode) (p q : TPQ) (h : q.inst m = p.inst m) : WholeSec q ↔ WholeSec p := by
  rw [wholeSec_iff_inst m, wholeSec_iff_inst m, h]

/-- The date skeleton of a rational-slot point: its date at 00:00:00 in its offset. -/
def skel (p : TPQ) : TP := ⟨p.date, 0, 0, 0, p.tz⟩

theorem skel_strict (m : Mode) (p : TPQ) (h : p.Valid m) : (skel p).Strict m := by
  refine ⟨⟨h.1, ?_, ?_, ?_, ?_, ?_, ?_, ?_, h.2.1⟩, ?_⟩ <;> simp [skel]

theorem reT_skel (p : TPQ) : reT p (skel p) = p := rfl

/-- A strict whole-second point at 00:00:00 dressed with the slots of a strict `q0`. -/
theorem reT_spec (m : Mode) (q0 : TPQ) (h0 : TPQ.Strict m q0) (r : TP) (hr : r.Strict m)
    (hz : r.hh = 0 ∧ r.mi = 0 ∧ r.ss = 0) :
    TPQ.Strict m (reT q0 r) ∧ (reT q0 r).inst m = ((r.inst m : Int) : Rat) + q0.hms.secs := by
  refine ⟨⟨⟨hr.1.1, hr.1.2.2.2.2.2.2.2.2, h0.1.2.2⟩, h0.2⟩, ?_⟩
  obtain ⟨z1, z2, z3⟩ := hz
  simp only [TPQ.inst, reT, TPQ.hms, TP.inst, TP.secOfDay, z1, z2, z3, Rat.intCast_sub, Rat.intCast_add,
    Rat.intCast_mul]
  have c1 : ((86400 : Int) : Rat) = 86400 := rfl
  have c0 : ((0 : Int) : Rat) = 0 := rfl
  rw [c1, c0]
  grind

/-! ### a time field is named: the run starts from the next whole second -/

theorem truncQ_intCast_add (a : Int) (ha : 0 ≤ a) (f : Rat) (h0 : 0 ≤ f) (h1 : f < 1) :
    truncQ ((a : Rat) + f) = a := by
  have c0 : ((0 : Int) : Rat) = 0 := rfl
  have hnn : ¬ ((a : Rat) + f < 0) := by
    have := Rat.intCast_le_intCast.2 ha
    rw [c0] at this
    grind
  unfold truncQ
  rw [if_neg hnn]
  exact floor_eq_of (by grind) (by grind)

/-- **The prefix of `add_truncated` when a time field is named** (`Model.ceilSec`: 24:00 normalised,
    `to_hour_minute_second`, up to the next whole second if inside one) yields the strict
    whole-second point at the least whole second not earlier than `p`, in `p`'s offset and date
    representation, in hour:minute:second form. -/
theorem ceilSec_spec (m : Mode) (p : TPQ) (hv : p.Valid m) :
    ∃ c : TP, ceilSec m p = some (TPQ.ofTP c) ∧ c.Strict m ∧ c.tz = p.tz ∧ c.date.rep = p.date.rep ∧
      p.inst m ≤ ((c.inst m : Int) : Rat) ∧ ((c.inst m : Int) : Rat) < p.inst m + 1 ∧
      (WholeSec p → ((c.inst m : Int) : Rat) = p.inst m) := by
  obtain ⟨p0, e0, g0⟩ := normalise24Q_spec m p hv
  have s0 : TPQ.Strict m p0 := ⟨g0.valid, g0.lt24⟩
  obtain ⟨p', f, e1, f0, f1, ps, pd, ptz, pi, pf⟩ := hmsTPQ_spec m p0 s0
  have hi0 : p0.inst m = p.inst m := by rw [g0.inst]; grind
  have hws : WholeSec p0 ↔ WholeSec p := wholeSec_of_inst_eq m p p0 hi0
  unfold ceilSec
  rw [e0, Option.bind_some, e1, Option.bind_some]
  by_cases hf : f = 0
  · subst hf
    rw [liftF_zero, ceilSecQ_ofTP]
    exact ⟨p', rfl, ps, by rw [ptz, g0.tz], by rw [pd, g0.rep], by grind, by grind, fun _ => by grind⟩
  · have hpos : 0 < f := by grind
    have hss0 : 0 ≤ p'.ss := ps.1.2.2.2.2.2.1
    have htr := truncQ_intCast_add p'.ss hss0 f f0 f1
    have hne : (p'.ss : Rat) + f ≠ ((truncQ ((p'.ss : Rat) + f) : Int) : Rat) := by
      rw [htr]; grind
    have c1 : (1 : Rat) = ((1 : Int) : Rat) := rfl
    have hb : ({ liftF f p' with ss := some (((truncQ ((p'.ss : Rat) + f) : Int) : Rat) + 1) } : TPQ) =
        TPQ.ofTP { p' with ss := p'.ss + 1 } := by
      simp only [liftF, TPQ.ofTP, htr, c1, ← Rat.intCast_add]
    obtain ⟨c, ec, cs, ci, ctz, cr⟩ := step_spec m (fun q => { q with ss := q.ss + 1 }) 1 p'.date.rep
      (stepOK_ss m _) p' ps rfl
    have hcq : ceilSecQ m (liftF f p') = some (TPQ.ofTP c) := by
      simp only [ceilSecQ, liftF] at hb ⊢
      rw [if_pos hne, hb, tickOverQ_ofTP, ec]; rfl
    refine ⟨c, hcq, cs, by rw [ctz, ptz, g0.tz], by rw [cr, pd, g0.rep], ?_, ?_, ?_⟩
    · rw [ci, Rat.intCast_add, ← c1]; grind
    · rw [ci, Rat.intCast_add, ← c1]; grind
    · intro hw; exact absurd (pf.2 (hws.2 hw)) hf

/-- **A time field is named**: the run on `p` is the whole-second model's run on the whole-second
    point `c` that `ceilSec` yields; the result is in hour:minute:second form. -/
theorem addTruncatedQ_time (m : Mode) (p : TPQ) (t : Trunc)
    (ht : t.hh ≠ none ∨ t.mi ≠ none ∨ t.ss ≠ none) (c : TP) (hc : ceilSec m p = some (TPQ.ofTP c))
    (cs : c.Strict m) :
    addTruncatedQ m p t = (addTruncated m c t).map TPQ.ofTP := by
  obtain ⟨s, hs⟩ := truncSS_some_of_time t ht
  unfold ceilSec at hc
  unfold addTruncatedQ
  rw [addTruncatedQF_two, addTruncated_two, normalise24_strict' m c cs]
  cases e0 : normalise24Q m p with
  | none => rw [e0] at hc; cases hc
  | some p0 =>
    rw [e0, Option.bind_some] at hc
    simp only [Option.bind_some]
    have : hmsPartQ m t p0 = some (TPQ.ofTP c) := by
      unfold hmsPartQ; rw [hs]; simp only [Option.isSome_some, true_or, ↓reduceIte]; exact hc
    rw [this, Option.bind_some]
    exact loopsQ_ofTP m t c

end IsoDT.Lemmas.TruncQ
