/-
  IsoDT.Lemmas.Trunc — the `while field != target: field += 1; _tick_over()` loops of
  `add_truncated`.
-/
import IsoDT.Lemmas.Rec
import IsoDT.Model.Truncated

namespace IsoDT.Lemmas
open IsoDT IsoDT.Model
open IsoDT.Spec (Date TZ TP)

/-- A strict point is determined by its instant, representation and offset. -/
theorem strict_unique (m : Mode) (a b : TP) (ha : a.Strict m) (hb : b.Strict m)
    (hr : a.date.rep = b.date.rep) (htz : a.tz = b.tz) (hi : a.inst m = b.inst m) : a = b := by
  obtain ⟨hd, hs⟩ := (inst_order m a b ha hb htz).2.mp hi
  have hdate := date_unique m a.date b.date ha.1.1 hb.1.1 hr hd
  obtain ⟨⟨_, _, _, a3, a4, a5, a6, _, _⟩, _⟩ := ha
  obtain ⟨⟨_, _, _, b3, b4, b5, b6, _, _⟩, _⟩ := hb
  obtain ⟨eh, em, es⟩ := hms_unique a.hh a.mi a.ss b.hh b.mi b.ss ⟨a3, a4, a5, a6⟩ ⟨b3, b4, b5, b6⟩
    (by unfold TP.secOfDay at hs; exact hs)
  obtain ⟨ad, ah, am, as, atz⟩ := a
  obtain ⟨bd, bh, bm, bs, btz⟩ := b
  simp only at hdate eh em es htz
  subst hdate eh em es htz
  rfl

/-- One `field += 1; _tick_over()` step that moves the instant by `delta` seconds. -/
structure StepOK (m : Mode) (bump : TP → TP) (delta : Int) (k : Nat) : Prop where
  pre : ∀ p : TP, p.Strict m → p.date.rep = k → PreValid (bump p).date
  tz : ∀ p : TP, (bump p).tz = p.tz
  rep : ∀ p : TP, p.Strict m → p.date.rep = k → (bump p).date.rep = p.date.rep
  inst : ∀ p : TP, p.Strict m → p.date.rep = k → (bump p).inst m = p.inst m + delta

theorem step_spec (m : Mode) (bump : TP → TP) (delta : Int) (k : Nat) (hb : StepOK m bump delta k) (p : TP)
    (hp : p.Strict m) (hk : p.date.rep = k) :
    ∃ q, tickOver m (bump p) = some q ∧ q.Strict m ∧ q.inst m = p.inst m + delta ∧
      q.tz = p.tz ∧ q.date.rep = p.date.rep := by
  obtain ⟨q, he, hi, hv, r⟩ := tickOver_spec m (bump p) (hb.pre p hp hk)
  have tzv : q.tz.Valid := by rw [r.2.2.2.2.2.2.1, hb.tz]; exact hp.1.2.2.2.2.2.2.2.2
  refine ⟨q, he, strict_of_tick m q tzv ⟨hv, r.1, r.2.1, r.2.2.1, r.2.2.2.1, r.2.2.2.2.1, r.2.2.2.2.2.1⟩,
    by rw [hi, hb.inst p hp hk], by rw [r.2.2.2.2.2.2.1, hb.tz], by rw [r.2.2.2.2.2.2.2, hb.rep p hp hk]⟩

/-- `k` steps from `p`. -/
def stepsFrom (m : Mode) (bump : TP → TP) : Nat → TP → Option TP
  | 0, p => some p
  | k + 1, p => (tickOver m (bump p)).bind (stepsFrom m bump k)

theorem stepsFrom_spec (m : Mode) (bump : TP → TP) (delta : Int) (kr : Nat) (hb : StepOK m bump delta kr) :
    ∀ (k : Nat) (p : TP), p.Strict m → p.date.rep = kr →
      ∃ q, stepsFrom m bump k p = some q ∧ q.Strict m ∧ q.inst m = p.inst m + (k : Int) * delta ∧
        q.tz = p.tz ∧ q.date.rep = p.date.rep := by
  intro k
  induction k with
  | zero => intro p hp _; exact ⟨p, rfl, hp, by omega, rfl, rfl⟩
  | succ k ih =>
    intro p hp hk
    obtain ⟨q, he, hs, hi, ht, hr⟩ := step_spec m bump delta kr hb p hp hk
    obtain ⟨q2, he2, hs2, hi2, ht2, hr2⟩ := ih q hs (by rw [hr, hk])
    refine ⟨q2, by simp only [stepsFrom, he, Option.bind_some, he2], hs2, ?_, by rw [ht2, ht], by rw [hr2, hr]⟩
    rw [hi2, hi]
    have e : ((k + 1 : Nat) : Int) = (k : Int) + 1 := by omega
    rw [e, Int.add_mul]; omega

/-- **The loop returns the first point along the walk whose field equals the target**: if it
    returns `q` within the fuel, then `q` is `k` steps from `p` for some `k ≤ fuel`, its field is the
    target, and no earlier step had the target. -/
theorem loopField_spec (m : Mode) (get : TP → Int) (bump : TP → TP) (target : Int) :
    ∀ (fuel : Nat) (p q : TP), loopField m get bump target fuel p = some q →
      ∃ k : Nat, k ≤ fuel ∧ stepsFrom m bump k p = some q ∧ get q = target ∧
        ∀ j : Nat, j < k → ∀ x, stepsFrom m bump j p = some x → get x ≠ target := by
  intro fuel
  induction fuel with
  | zero =>
    intro p q h
    unfold loopField at h
    by_cases c : get p = target
    · rw [if_pos c] at h
      have : p = q := by simpa using h
      subst this
      exact ⟨0, Nat.le_refl _, rfl, c, fun j hj => by omega⟩
    · rw [if_neg c] at h; cases h
  | succ fuel ih =>
    intro p q h
    unfold loopField at h
    by_cases c : get p = target
    · rw [if_pos c] at h
      have : p = q := by simpa using h
      subst this
      exact ⟨0, by omega, rfl, c, fun j hj => by omega⟩
    · rw [if_neg c] at h
      cases ht : tickOver m (bump p) with
      | none => rw [ht] at h; cases h
      | some p1 =>
        rw [ht, Option.bind_some] at h
        obtain ⟨k, hk, hs, hg, hmin⟩ := ih p1 q h
        refine ⟨k + 1, by omega, by simp only [stepsFrom, ht, Option.bind_some, hs], hg, ?_⟩
        intro j hj x hx
        cases j with
        | zero =>
          have : p = x := by simpa [stepsFrom] using hx
          subst this; exact c
        | succ j =>
          simp only [stepsFrom, ht, Option.bind_some] at hx
          exact hmin j (by omega) x hx

/-- **The loop terminates as soon as some step within the fuel has the target.** -/
theorem loopField_some (m : Mode) (get : TP → Int) (bump : TP → TP) (target : Int) :
    ∀ (fuel : Nat) (p : TP) (k : Nat) (x : TP), k ≤ fuel → stepsFrom m bump k p = some x → get x = target →
      ∃ q, loopField m get bump target fuel p = some q := by
  intro fuel
  induction fuel with
  | zero =>
    intro p k x hk hs hg
    have : k = 0 := by omega
    subst this
    have : p = x := by simpa [stepsFrom] using hs
    subst this
    exact ⟨p, by unfold loopField; rw [if_pos hg]⟩
  | succ fuel ih =>
    intro p k x hk hs hg
    unfold loopField
    by_cases c : get p = target
    · exact ⟨p, by rw [if_pos c]⟩
    · rw [if_neg c]
      cases k with
      | zero =>
        have : p = x := by simpa [stepsFrom] using hs
        subst this; exact absurd hg c
      | succ k =>
        cases ht : tickOver m (bump p) with
        | none => simp only [stepsFrom, ht] at hs; cases hs
        | some p1 =>
          simp only [stepsFrom, ht, Option.bind_some] at hs
          rw [Option.bind_some]
          exact ih p1 k x (by omega) hs hg

/-! ### the four periodic loops: second, minute, hour, weekday -/

theorem stepOK_ss (m : Mode) (k : Nat) : StepOK m (fun q => { q with ss := q.ss + 1 }) 1 k :=
  ⟨fun p hp _ => preValid_of_valid m _ hp.1.1, fun _ => rfl, fun _ _ _ => rfl,
   fun p _ _ => by simp only [TP.inst, TP.secOfDay]; omega⟩

theorem stepOK_mi (m : Mode) (k : Nat) : StepOK m (fun q => { q with mi := q.mi + 1 }) 60 k :=
  ⟨fun p hp _ => preValid_of_valid m _ hp.1.1, fun _ => rfl, fun _ _ _ => rfl,
   fun p _ _ => by simp only [TP.inst, TP.secOfDay]; omega⟩

theorem stepOK_hh (m : Mode) (k : Nat) : StepOK m (fun q => { q with hh := q.hh + 1 }) 3600 k :=
  ⟨fun p hp _ => preValid_of_valid m _ hp.1.1, fun _ => rfl, fun _ _ _ => rfl,
   fun p _ _ => by simp only [TP.inst, TP.secOfDay]; omega⟩

theorem stepOK_day (m : Mode) (k : Nat) : StepOK m (fun q => { q with date := bumpDay q.date 1 }) 86400 k :=
  ⟨fun p hp _ => preValid_bumpDay _ _ (preValid_of_valid m _ hp.1.1), fun _ => rfl,
   fun p _ _ => rep_bumpDay _ _,
   fun p _ _ => by simp only [TP.inst, dayNum_bumpDay, TP.secOfDay]; omega⟩

theorem stepOK_week (m : Mode) : StepOK m bumpWeek 604800 2 := by
  refine ⟨?_, ?_, ?_, ?_⟩
  · intro p hp _
    obtain ⟨d, h, mi, s, tz⟩ := p
    cases d <;> simp only [bumpWeek, PreValid]
    exact preValid_of_valid m _ hp.1.1
  · intro p; obtain ⟨d, h, mi, s, tz⟩ := p; cases d <;> rfl
  · intro p _ _; obtain ⟨d, h, mi, s, tz⟩ := p; cases d <;> rfl
  · intro p hp hk
    obtain ⟨d, h, mi, s, tz⟩ := p
    cases d with
    | week y w dd => simp only [bumpWeek, TP.inst, Date.dayNum, Spec.dayNumWeek, TP.secOfDay]; omega
    | cal y mo dd => simp [Date.rep] at hk
    | ord y n => simp [Date.rep] at hk

end IsoDT.Lemmas
