/-
  IsoDT.Lemmas.Trunc — the `while field != target: field += 1; _tick_over()` loops of
  `add_truncated`.
-/
import IsoDT.Lemmas.Rec
import IsoDT.Model.Truncated

namespace IsoDT.Lemmas
open IsoDT IsoDT.Model
open IsoDT.Spec (Date TZ TP)

/-- A strict point is determined by its instant, representation and offset. -/
theorem strict_unique (m : Mode) (a b : TP) (ha : a.Strict m) (hb : b.Strict m)
    (hr : a.date.rep = b.date.rep) (htz : a.tz = b.tz) (hi : a.inst m = b.inst m) : a = b := by
  obtain ⟨hd, hs⟩ := (inst_order m a b ha hb htz).2.mp hi
  have hdate := date_unique m a.date b.date ha.1.1 hb.1.1 hr hd
  obtain ⟨⟨_, _, _, a3, a4, a5, a6, _, _⟩, _⟩ := ha
  obtain ⟨⟨_, _, _, b3, b4, b5, b6, _, _⟩, _⟩ := hb
  obtain ⟨eh, em, es⟩ := hms_unique a.hh a.mi a.ss b.hh b.mi b.ss ⟨a3, a4, a5, a6⟩ ⟨b3, b4, b5, b6⟩
    (by unfold TP.secOfDay at hs; exact hs)
  obtain ⟨ad, ah, am, as, atz⟩ := a
  obtain ⟨bd, bh, bm, bs, btz⟩ := b
  simp only at hdate eh em es htz
  subst hdate eh em es htz
  rfl

/-- One `field += 1; _tick_over()` step that moves the instant by `delta` seconds. -/
structure StepOK (m : Mode) (bump : TP → TP) (delta : Int) (k : Nat) : Prop where
  pre : ∀ p : TP, p.Strict m → p.date.rep = k → PreValid (bump p).date
  tz : ∀ p : TP, (bump p).tz = p.tz
  rep : ∀ p : TP, p.Strict m → p.date.rep = k → (bump p).date.rep = p.date.rep
  inst : ∀ p : TP, p.Strict m → p.date.rep = k → (bump p).inst m = p.inst m + delta

theorem step_spec (m : Mode) (bump : TP → TP) (delta : Int) (k : Nat) (hb : StepOK m bump delta k) (p : TP)
    (hp : p.Strict m) (hk : p.date.rep = k) :
    ∃ q, tickOver m (bump p) = some q ∧ q.Strict m ∧ q.inst m = p.inst m + delta ∧
      q.tz = p.tz ∧ q.date.rep = p.date.rep := by
  obtain ⟨q, he, hi, hv, r⟩ := tickOver_spec m (bump p) (hb.pre p hp hk)
  have tzv : q.tz.Valid := by rw [r.2.2.2.2.2.2.1, hb.tz]; exact hp.1.2.2.2.2.2.2.2.2
  refine ⟨q, he, strict_of_tick m q tzv ⟨hv, r.1, r.2.1, r.2.2.1, r.2.2.2.1, r.2.2.2.2.1, r.2.2.2.2.2.1⟩,
    by rw [hi, hb.inst p hp hk], by rw [r.2.2.2.2.2.2.1, hb.tz], by rw [r.2.2.2.2.2.2.2, hb.rep p hp hk]⟩

/-- `k` steps from `p`. -/
def stepsFrom (m : Mode) (bump : TP → TP) : Nat → TP → Option TP
  | 0, p => some p
  | k + 1, p => (tickOver m (bump p)).bind (stepsFrom m bump k)

theorem stepsFrom_spec (m : Mode) (bump : TP → TP) (delta : Int) (kr : Nat) (hb : StepOK m bump delta kr) :
    ∀ (k : Nat) (p : TP), p.Strict m → p.date.rep = kr →
      ∃ q, stepsFrom m bump k p = some q ∧ q.Strict m ∧ q.inst m = p.inst m + (k : Int) * delta ∧
        q.tz = p.tz ∧ q.date.rep = p.date.rep := by
  intro k
  induction k with
  | zero => intro p hp _; exact ⟨p, rfl, hp, by omega, rfl, rfl⟩
  | succ k ih =>
    intro p hp hk
    obtain ⟨q, he, hs, hi, ht, hr⟩ := step_spec m bump delta kr hb p hp hk
    obtain ⟨q2, he2, hs2, hi2, ht2, hr2⟩ := ih q hs (by rw [hr, hk])
    refine ⟨q2, by simp only [stepsFrom, he, Option.bind_some, he2], hs2, ?_, by rw [ht2, ht], by rw [hr2, hr]⟩
    rw [hi2, hi]
    have e : ((k + 1 : Nat) : Int) = (k : Int) + 1 := by omega
    rw [e, Int.add_mul]; omega

/-- **The loop returns the first point along the walk whose field equals the target**: if it
    returns `q` within the fuel, then `q` is `k` steps from `p` for some `k ≤ fuel`, its field is the
    target, and no earlier step had the target. -/
theorem loopField_spec (m : Mode) (get : TP → Int) (bump : TP → TP) (target : Int) :
    ∀ (fuel : Nat) (p q : TP), loopField m get bump target fuel p = some q →
      ∃ k : Nat, k ≤ fuel ∧ stepsFrom m bump k p = some q ∧ get q = target ∧
        ∀ j : Nat, j < k → ∀ x, stepsFrom m bump j p = some x → get x ≠ target := by
  intro fuel
  induction fuel with
  | zero =>
    intro p q h
    unfold loopField at h
    by_cases c : get p = target
    · rw [if_pos c] at h
      have : p = q := by simpa using h
      subst this
      exact ⟨0, Nat.le_refl _, rfl, c, fun j hj => by omega⟩
    · rw [if_neg c] at h; cases h
  | succ fuel ih =>
    intro p q h
    unfold loopField at h
    by_cases c : get p = target
    · rw [if_pos c] at h
      have : p = q := by simpa using h
      subst this
      exact ⟨0, by omega, rfl, c, fun j hj => by omega⟩
    · rw [if_neg c] at h
      cases ht : tickOver m (bump p) with
      | none => rw [ht] at h; cases h
      | some p1 =>
        rw [ht, Option.bind_some] at h
        obtain ⟨k, hk, hs, hg, hmin⟩ := ih p1 q h
        refine ⟨k + 1, by omega, by simp only [stepsFrom, ht, Option.bind_some, hs], hg, ?_⟩
        intro j hj x hx
        cases j with
        | zero =>
          have : p = x := by simpa [stepsFrom] using hx
          subst this; exact c
        | succ j =>
          simp only [stepsFrom, ht, Option.bind_some] at hx
          exact hmin j (by omega) x hx

/-- **The loop terminates as soon as some step within the fuel has the target.** -/
theorem loopField_some (m : Mode) (get : TP → Int) (bump : TP → TP) (target : Int) :
    ∀ (fuel : Nat) (p : TP) (k : Nat) (x : TP), k ≤ fuel → stepsFrom m bump k p = some x → get x = target →
      ∃ q, loopField m get bump target fuel p = some q := by
  intro fuel
  induction fuel with
  | zero =>
    intro p k x hk hs hg
    have : k = 0 := by omega
    subst this
    have : p = x := by simpa [stepsFrom] using hs
    subst this
    exact ⟨p, by unfold loopField; rw [if_pos hg]⟩
  | succ fuel ih =>
    intro p k x hk hs hg
    unfold loopField
    by_cases c : get p = target
    · exact ⟨p, by rw [if_pos c]⟩
    · rw [if_neg c]
      cases k with
      | zero =>
        have : p = x := by simpa [stepsFrom] using hs
        subst this; exact absurd hg c
      | succ k =>
        cases ht : tickOver m (bump p) with
        | none => simp only [stepsFrom, ht] at hs; cases hs
        | some p1 =>
          simp only [stepsFrom, ht, Option.bind_some] at hs
          rw [Option.bind_some]
          exact ih p1 k x (by omega) hs hg

/-! ### the four periodic loops: second, minute, hour, weekday -/

theorem stepOK_ss (m : Mode) (k : Nat) : StepOK m (fun q => { q with ss := q.ss + 1 }) 1 k :=
  ⟨fun p hp _ => preValid_of_valid m _ hp.1.1, fun _ => rfl, fun _ _ _ => rfl,
   fun p _ _ => by simp only [TP.inst, TP.secOfDay]; omega⟩

theorem stepOK_mi (m : Mode) (k : Nat) : StepOK m (fun q => { q with mi := q.mi + 1 }) 60 k :=
  ⟨fun p hp _ => preValid_of_valid m _ hp.1.1, fun _ => rfl, fun _ _ _ => rfl,
   fun p _ _ => by simp only [TP.inst, TP.secOfDay]; omega⟩

theorem stepOK_hh (m : Mode) (k : Nat) : StepOK m (fun q => { q with hh := q.hh + 1 }) 3600 k :=
  ⟨fun p hp _ => preValid_of_valid m _ hp.1.1, fun _ => rfl, fun _ _ _ => rfl,
   fun p _ _ => by simp only [TP.inst, TP.secOfDay]; omega⟩

theorem stepOK_day (m : Mode) (k : Nat) : StepOK m (fun q => { q with date := bumpDay q.date 1 }) 86400 k :=
  ⟨fun p hp _ => preValid_bumpDay _ _ (preValid_of_valid m _ hp.1.1), fun _ => rfl,
   fun p _ _ => rep_bumpDay _ _,
   fun p _ _ => by simp only [TP.inst, dayNum_bumpDay, TP.secOfDay]; omega⟩

theorem stepOK_week (m : Mode) : StepOK m bumpWeek 604800 2 := by
  refine ⟨?_, ?_, ?_, ?_⟩
  · intro p hp _
    obtain ⟨d, h, mi, s, tz⟩ := p
    cases d <;> simp only [bumpWeek, PreValid]
    exact preValid_of_valid m _ hp.1.1
  · intro p; obtain ⟨d, h, mi, s, tz⟩ := p; cases d <;> rfl
  · intro p _ _; obtain ⟨d, h, mi, s, tz⟩ := p; cases d <;> rfl
  · intro p hp hk
    obtain ⟨d, h, mi, s, tz⟩ := p
    cases d with
    | week y w dd => simp only [bumpWeek, TP.inst, Date.dayNum, Spec.dayNumWeek, TP.secOfDay]; omega
    | cal y mo dd => simp [Date.rep] at hk
    | ord y n => simp [Date.rep] at hk

/-- General shape of a periodic loop: if the field of the strict point `k₀` steps ahead is the
    target (`k₀ ≤ fuel`) and no earlier step has it, the loop returns exactly that point. -/
theorem loopField_at (m : Mode) (get : TP → Int) (bump : TP → TP) (target : Int) (delta : Int) (kr : Nat)
    (hb : StepOK m bump delta kr) (fuel : Nat) (p : TP) (hp : p.Strict m) (hk : p.date.rep = kr)
    (k0 : Nat) (hk0 : k0 ≤ fuel)
    (hit : ∀ x, stepsFrom m bump k0 p = some x → get x = target)
    (miss : ∀ j, j < k0 → ∀ x, stepsFrom m bump j p = some x → get x ≠ target) :
    ∃ q, loopField m get bump target fuel p = some q ∧ q.Strict m ∧
      q.inst m = p.inst m + (k0 : Int) * delta ∧ q.tz = p.tz ∧ q.date.rep = p.date.rep ∧ get q = target := by
  obtain ⟨x, hx, xs, xi, xt, xr⟩ := stepsFrom_spec m bump delta kr hb k0 p hp hk
  obtain ⟨q, hq⟩ := loopField_some m get bump target fuel p k0 x hk0 hx (hit x hx)
  obtain ⟨k, _, hs, hg, hmin⟩ := loopField_spec m get bump target fuel p q hq
  have hkk : k = k0 := by
    rcases Nat.lt_trichotomy k k0 with h | h | h
    · exact absurd hg (miss k h q hs)
    · exact h
    · exact absurd (hit x hx) (hmin k0 h x hx)
  subst hkk
  have : q = x := by rw [hs] at hx; simpa using hx
  subst this
  exact ⟨q, hq, xs, xi, xt, xr, hg⟩

theorem strict_fields (m : Mode) (p : TP) (hp : p.Strict m) :
    0 ≤ p.hh ∧ p.hh < 24 ∧ 0 ≤ p.mi ∧ p.mi < 60 ∧ 0 ≤ p.ss ∧ p.ss < 60 := by
  obtain ⟨⟨_, a1, _, a3, a4, a5, a6, _, _⟩, a9⟩ := hp
  exact ⟨a1, a9, a3, a4, a5, a6⟩

/-- Two strict points in one offset whose instants differ by `d`: relation of their fields. -/
theorem inst_fields (m : Mode) (p x : TP) (htz : x.tz = p.tz) (d : Int) (hi : x.inst m = p.inst m + d) :
    86400 * x.date.dayNum m + 3600 * x.hh + 60 * x.mi + x.ss =
      86400 * p.date.dayNum m + 3600 * p.hh + 60 * p.mi + p.ss + d := by
  unfold TP.inst TP.secOfDay at hi; rw [htz] at hi; omega

/-- The seconds loop: lands on the next instant (within 59 s) whose second is the target. -/
theorem loop_ss (m : Mode) (p : TP) (hp : p.Strict m) (s : Int) (hs : 0 ≤ s ∧ s < 60) :
    ∃ q, loopField m (·.ss) (fun q => { q with ss := q.ss + 1 }) s fuelTime p = some q ∧ q.Strict m ∧
      q.inst m = p.inst m + (s - p.ss) % 60 ∧ q.tz = p.tz ∧ q.date.rep = p.date.rep ∧ q.ss = s := by
  have hf := strict_fields m p hp
  have key := loopField_at m (·.ss) (fun q => { q with ss := q.ss + 1 }) s 1 p.date.rep (stepOK_ss m _)
    fuelTime p hp rfl ((s - p.ss) % 60).toNat (by unfold fuelTime; omega) ?_ ?_
  · obtain ⟨q, h1, h2, h3, h4, h5, h6⟩ := key
    refine ⟨q, h1, h2, ?_, h4, h5, h6⟩
    rw [h3]; have : (((s - p.ss) % 60).toNat : Int) = (s - p.ss) % 60 := by omega
    rw [this]; omega
  · intro x hx
    obtain ⟨x', hx', xs, xi, xt, _⟩ := stepsFrom_spec m _ 1 _ (stepOK_ss m p.date.rep) _ p hp rfl
    rw [hx] at hx'; cases hx'
    have hfx := strict_fields m x xs
    have := inst_fields m p x xt _ xi
    show x.ss = s
    omega
  · intro j hj x hx
    obtain ⟨x', hx', xs, xi, xt, _⟩ := stepsFrom_spec m _ 1 _ (stepOK_ss m p.date.rep) j p hp rfl
    rw [hx] at hx'; cases hx'
    have hfx := strict_fields m x xs
    have := inst_fields m p x xt _ xi
    show x.ss ≠ s
    omega

/-- The minutes loop: the next instant (a whole number of minutes ahead, < 60) whose minute is the
    target; the second is untouched. -/
theorem loop_mi (m : Mode) (p : TP) (hp : p.Strict m) (t : Int) (ht : 0 ≤ t ∧ t < 60) :
    ∃ q, loopField m (·.mi) (fun q => { q with mi := q.mi + 1 }) t fuelTime p = some q ∧ q.Strict m ∧
      q.inst m = p.inst m + 60 * ((t - p.mi) % 60) ∧ q.tz = p.tz ∧ q.date.rep = p.date.rep ∧
      q.mi = t ∧ q.ss = p.ss := by
  have hf := strict_fields m p hp
  have key := loopField_at m (·.mi) (fun q => { q with mi := q.mi + 1 }) t 60 p.date.rep (stepOK_mi m _)
    fuelTime p hp rfl ((t - p.mi) % 60).toNat (by unfold fuelTime; omega) ?_ ?_
  · obtain ⟨q, h1, h2, h3, h4, h5, h6⟩ := key
    have hfq := strict_fields m q h2
    have := inst_fields m p q h4 _ h3
    refine ⟨q, h1, h2, ?_, h4, h5, h6, by omega⟩
    rw [h3]; have : (((t - p.mi) % 60).toNat : Int) = (t - p.mi) % 60 := by omega
    rw [this]; omega
  · intro x hx
    obtain ⟨x', hx', xs, xi, xt, _⟩ := stepsFrom_spec m _ 60 _ (stepOK_mi m p.date.rep) _ p hp rfl
    rw [hx] at hx'; cases hx'
    have hfx := strict_fields m x xs
    have := inst_fields m p x xt _ xi
    show x.mi = t
    omega
  · intro j hj x hx
    obtain ⟨x', hx', xs, xi, xt, _⟩ := stepsFrom_spec m _ 60 _ (stepOK_mi m p.date.rep) j p hp rfl
    rw [hx] at hx'; cases hx'
    have hfx := strict_fields m x xs
    have := inst_fields m p x xt _ xi
    show x.mi ≠ t
    omega

/-- The hours loop: the next instant (a whole number of hours ahead, < 24) whose hour is the
    target; minute and second untouched. -/
theorem loop_hh (m : Mode) (p : TP) (hp : p.Strict m) (t : Int) (ht : 0 ≤ t ∧ t < 24) :
    ∃ q, loopField m (·.hh) (fun q => { q with hh := q.hh + 1 }) t fuelTime p = some q ∧ q.Strict m ∧
      q.inst m = p.inst m + 3600 * ((t - p.hh) % 24) ∧ q.tz = p.tz ∧ q.date.rep = p.date.rep ∧
      q.hh = t ∧ q.mi = p.mi ∧ q.ss = p.ss := by
  have hf := strict_fields m p hp
  have key := loopField_at m (·.hh) (fun q => { q with hh := q.hh + 1 }) t 3600 p.date.rep (stepOK_hh m _)
    fuelTime p hp rfl ((t - p.hh) % 24).toNat (by unfold fuelTime; omega) ?_ ?_
  · obtain ⟨q, h1, h2, h3, h4, h5, h6⟩ := key
    have hfq := strict_fields m q h2
    have := inst_fields m p q h4 _ h3
    refine ⟨q, h1, h2, ?_, h4, h5, h6, by omega, by omega⟩
    rw [h3]; have : (((t - p.hh) % 24).toNat : Int) = (t - p.hh) % 24 := by omega
    rw [this]; omega
  · intro x hx
    obtain ⟨x', hx', xs, xi, xt, _⟩ := stepsFrom_spec m _ 3600 _ (stepOK_hh m p.date.rep) _ p hp rfl
    rw [hx] at hx'; cases hx'
    have hfx := strict_fields m x xs
    have := inst_fields m p x xt _ xi
    show x.hh = t
    omega
  · intro j hj x hx
    obtain ⟨x', hx', xs, xi, xt, _⟩ := stepsFrom_spec m _ 3600 _ (stepOK_hh m p.date.rep) j p hp rfl
    rw [hx] at hx'; cases hx'
    have hfx := strict_fields m x xs
    have := inst_fields m p x xt _ xi
    show x.hh ≠ t
    omega

theorem weekday_of_week_date (m : Mode) (wy w d : Int) (h : Spec.ValidWeek m wy w d) :
    Spec.weekday m (Spec.dayNumWeek m wy w d) = d := by
  obtain ⟨_, _, h1, h2⟩ := h
  have := weekday_weekYearStart m wy
  unfold Spec.dayNumWeek Spec.weekday at *; omega

theorem rep2_week (d : Date) (h : d.rep = 2) : ∃ y w dd, d = .week y w dd := by
  cases d <;> simp [Date.rep] at h
  exact ⟨_, _, _, rfl⟩

/-- The weekday of a strict week-date point is the weekday of the day it denotes. -/
theorem getDow_eq (m : Mode) (p : TP) (hp : p.Strict m) (hk : p.date.rep = 2) :
    getDow p = Spec.weekday m (p.date.dayNum m) := by
  obtain ⟨y, w, d, e⟩ := rep2_week p.date hk
  have hv : Spec.ValidWeek m y w d := by have := hp.1.1; rw [e] at this; exact this
  unfold getDow; rw [e]
  exact (weekday_of_week_date m y w d hv).symm

/-- The weekday loop (on a week-date point): the next day (< 7 days ahead) with the target weekday;
    time of day untouched. -/
theorem loop_dow (m : Mode) (p : TP) (hp : p.Strict m) (hk : p.date.rep = 2) (t : Int) (ht : 1 ≤ t ∧ t ≤ 7) :
    ∃ q, loopField m getDow (fun q => { q with date := bumpDay q.date 1 }) t fuelDow p = some q ∧ q.Strict m ∧
      q.inst m = p.inst m + 86400 * ((t - getDow p) % 7) ∧ q.tz = p.tz ∧ q.date.rep = 2 ∧
      getDow q = t ∧ q.hh = p.hh ∧ q.mi = p.mi ∧ q.ss = p.ss := by
  have hf := strict_fields m p hp
  have hd := getDow_eq m p hp hk
  have hwr := weekday_range m (p.date.dayNum m)
  have facts : ∀ j : Nat, ∀ x, stepsFrom m (fun q => { q with date := bumpDay q.date 1 }) j p = some x →
      x.Strict m ∧ x.date.rep = 2 ∧ x.tz = p.tz ∧ x.inst m = p.inst m + (j : Int) * 86400 ∧
      getDow x = (getDow p - 1 + (j : Int)) % 7 + 1 ∧ x.hh = p.hh ∧ x.mi = p.mi ∧ x.ss = p.ss := by
    intro j x hx
    obtain ⟨x', hx', xs, xi, xt, xr⟩ := stepsFrom_spec m _ 86400 2 (stepOK_day m 2) j p hp hk
    rw [hx] at hx'; cases hx'
    have hfx := strict_fields m x xs
    have hif := inst_fields m p x xt _ xi
    have hdx := getDow_eq m x xs (by rw [xr, hk])
    have hn : x.date.dayNum m = p.date.dayNum m + (j : Int) := by omega
    refine ⟨xs, by rw [xr, hk], xt, xi, ?_, by omega, by omega, by omega⟩
    rw [hdx, hd, hn]; unfold Spec.weekday; omega
  have key := loopField_at m getDow (fun q => { q with date := bumpDay q.date 1 }) t 86400 2 (stepOK_day m 2)
    fuelDow p hp hk ((t - getDow p) % 7).toNat (by unfold fuelDow; omega) ?_ ?_
  · obtain ⟨q, h1, h2, h3, h4, h5, h6⟩ := key
    obtain ⟨k, _, hs, _, _⟩ := loopField_spec m _ _ _ _ p q h1
    have fq := facts k q hs
    refine ⟨q, h1, h2, ?_, h4, fq.2.1, h6, fq.2.2.2.2.2.1, fq.2.2.2.2.2.2.1, fq.2.2.2.2.2.2.2⟩
    rw [h3]; have : (((t - getDow p) % 7).toNat : Int) = (t - getDow p) % 7 := by omega
    rw [this]; omega
  · intro x hx
    have := (facts _ x hx).2.2.2.2.1
    rw [this, hd]; omega
  · intro j hj x hx
    have := (facts _ x hx).2.2.2.2.1
    rw [this, hd]; omega

end IsoDT.Lemmas
