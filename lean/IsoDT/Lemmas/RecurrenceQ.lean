/-
  IsoDT.Lemmas.RecurrenceQ — recurrences over rational points (`Model.RecurrenceQ`) with an exact
  interval: bounds, neighbours and iteration in terms of rational instants.  The structure follows
  `Lemmas/Rec.lean` (the whole-second case) statement by statement; `Int` arithmetic (`omega`)
  becomes `Rat` arithmetic (`grind`), and the count of points is stated without division:
  `k + 1` points fit when `p + k·L ≤ end < p + (k+1)·L`.
-/
import IsoDT.Model.RecurrenceQ
import IsoDT.Lemmas.CmpQ
import IsoDT.Lemmas.NominalQ
import IsoDT.Lemmas.DurationQ

namespace IsoDT.Lemmas
open IsoDT IsoDT.Model IsoDT.Lemmas.DQ
open IsoDT.Spec (Date TZ TP)

/-! ### point comparisons -/

theorem tpLtQ_iff (m : Mode) (a b : TPQ) (ha : a.Valid m) (hb : b.Valid m) :
    tpLtQ m a b = true ↔ a.inst m < b.inst m := by
  unfold tpLtQ; rw [cmpQ_spec m a b ha hb]
  simp only [beq_iff_eq, Option.some.injEq, sgnQ_neg_iff]; grind

theorem tpGtQ_iff (m : Mode) (a b : TPQ) (ha : a.Valid m) (hb : b.Valid m) :
    tpGtQ m a b = true ↔ a.inst m > b.inst m := by
  unfold tpGtQ; rw [cmpQ_spec m a b ha hb]
  simp only [beq_iff_eq, Option.some.injEq, sgnQ_one_iff]; grind

theorem tpEqQ_iff (m : Mode) (a b : TPQ) (ha : a.Valid m) (hb : b.Valid m) :
    tpEqQ m a b = true ↔ a.inst m = b.inst m := by
  unfold tpEqQ; rw [cmpQ_spec m a b ha hb]
  simp only [beq_iff_eq, Option.some.injEq, sgnQ_zero_iff]; grind

theorem tpLeQ_iff (m : Mode) (a b : TPQ) (ha : a.Valid m) (hb : b.Valid m) :
    tpLeQ m a b = true ↔ a.inst m ≤ b.inst m := by
  unfold tpLeQ
  rw [Bool.or_eq_true, tpLtQ_iff m a b ha hb, tpEqQ_iff m a b ha hb]; grind

/-! ### exact durations -/

theorem addYearsQ_zero (m : Mode) (p : TPQ) : addYearsQ m p 0 = p := by
  unfold addYearsQ; rw [if_pos rfl]

/-- Years and months both zero: `__add__` is its exact part. -/
theorem addDurQ_exact (m : Mode) (p : TPQ) (e : DurQ) (hv : p.Valid m) :
    ∃ q, addDurQ m p ⟨0, 0, e⟩ = some q ∧ GoodQ m p q e.seconds := by
  obtain ⟨q, he, g⟩ := addExactQ_spec m p e hv
  refine ⟨q, ?_, g⟩
  simp only [addDurQ, he, addMonthsQ_zero, addYearsQ_zero, Option.bind_eq_bind, Option.bind_some,
    Option.pure_def]

theorem toNQ_exact (m : Mode) (d : DurationQ) (hex : d.isExact = true) :
    ∃ e : DurQ, d.toNQ m = ⟨0, 0, e⟩ ∧ e.seconds = len d := by
  cases d with
  | weeks w =>
    refine ⟨⟨w * 7, 0, 0, 0⟩, by simp only [DurationQ.toNQ, DurationQ.toDays, daysInWeek_eq], ?_⟩
    simp only [DurQ.seconds, len, Rat.intCast_mul, Rat.intCast_ofNat]; grind
  | units y mo dd h mi s =>
    simp only [DurationQ.isExact, Bool.and_eq_true, beq_iff_eq] at hex
    obtain ⟨hy, hmo⟩ := hex
    subst hy hmo
    exact ⟨⟨dd, h, mi, s⟩, rfl, rfl⟩

/-- `p + d` for an exact `d`: the instant moves by exactly the length of `d`. -/
theorem addDurationQ_exact (m : Mode) (p : TPQ) (d : DurationQ) (hv : p.Valid m) (hex : d.isExact = true) :
    ∃ q, addDurationQ m p d = some q ∧ GoodQ m p q (len d) := by
  obtain ⟨e, he, hl⟩ := toNQ_exact m d hex
  obtain ⟨q, hq, g⟩ := addDurQ_exact m p e hv
  refine ⟨q, by unfold addDurationQ; rw [he, hq], ?_⟩
  rw [← hl]; exact g

theorem mulQ_exact (d : DurationQ) (n : Int) (h : d.isExact = true) : (d.mul n).isExact = true := by
  rw [isExact_iff] at h ⊢
  rw [mul_ym, h]; simp

theorem subDurationQ_exact (m : Mode) (p : TPQ) (d : DurationQ) (hv : p.Valid m) (hex : d.isExact = true) :
    ∃ q, subDurationQ m p d = some q ∧ GoodQ m p q (-(len d)) := by
  obtain ⟨q, e, g⟩ := addDurationQ_exact m p (d.mul (-1)) hv (mulQ_exact d (-1) hex)
  refine ⟨q, e, ?_⟩
  have : len (d.mul (-1)) = -(len d) := by
    rw [mul_len]
    have : ((-1 : Int) : Rat) = -1 := rfl
    rw [this]; grind
  rw [← this]; exact g

/-! ### a recurrence with an exact positive interval -/

/-- The facts about a constructed recurrence the iteration lemmas need: interval `d` exact of
    length `L > 0` (ANY positive rational — there is no smallest interval), more than one
    repetition, legal bounds. -/
structure ExactRecQ (m : Mode) (r : RecQ) (d : DurationQ) (L : Rat) : Prop where
  dur : r.dur = some d
  exact : d.isExact = true
  len : len d = L
  pos : 0 < L
  multi : r.reps ≠ some 1
  startValid : ∀ s, r.start = some s → s.Valid m
  endValid : ∀ e, r.end_ = some e → e.Valid m

theorem nonzeroQ_of_ne (d : DurationQ) (h : len d ≠ 0) : d.nonzero = true := by
  cases hz : d.nonzero
  · exfalso; apply h
    cases d with
    | weeks w =>
      simp only [DurationQ.nonzero, bne_eq_false_iff_eq] at hz
      subst hz
      simp only [len, Rat.intCast_zero]; grind
    | units y mo dd hh mi s =>
      simp only [DurationQ.nonzero, Bool.or_eq_false_iff, bne_eq_false_iff_eq] at hz
      obtain ⟨⟨⟨⟨⟨_, _⟩, h3⟩, h4⟩, h5⟩, h6⟩ := hz
      subst h3 h4 h5 h6
      simp only [len, Rat.intCast_zero]; grind
  · rfl

/-- In bounds ⇔ between the instants of the bounds that exist — exact comparison of rationals. -/
theorem inBoundsQ_iff (m : Mode) (r : RecQ) (p : TPQ) (hp : p.Valid m)
    (hsv : ∀ s, r.start = some s → s.Valid m) (hev : ∀ e, r.end_ = some e → e.Valid m) :
    inBoundsQ m r p = true ↔
      (∀ s, r.start = some s → s.inst m ≤ p.inst m) ∧ (∀ e, r.end_ = some e → p.inst m ≤ e.inst m) := by
  unfold inBoundsQ
  rw [Bool.and_eq_true]
  constructor
  · rintro ⟨h1, h2⟩
    constructor
    · intro s hs
      rw [hs] at h1
      simp only [Bool.not_eq_true'] at h1
      have := tpLtQ_iff m p s hp (hsv s hs)
      rw [h1] at this; simp at this; exact Rat.not_lt.1 this
    · intro e he
      rw [he] at h2
      simp only [Bool.not_eq_true'] at h2
      have := tpGtQ_iff m p e hp (hev e he)
      rw [h2] at this; simp at this; exact Rat.not_lt.1 this
  · rintro ⟨h1, h2⟩
    constructor
    · cases hs : r.start with
      | none => rfl
      | some s =>
        simp only [Bool.not_eq_true']
        have h3 := tpLtQ_iff m p s hp (hsv s hs)
        have h4 := h1 s hs
        cases hlt : tpLtQ m p s
        · rfl
        · have := h3.mp hlt; exact absurd this (Rat.not_lt.2 h4)
    · cases he : r.end_ with
      | none => rfl
      | some e =>
        simp only [Bool.not_eq_true']
        have h3 := tpGtQ_iff m p e hp (hev e he)
        have h4 := h2 e he
        cases hgt : tpGtQ m p e
        · rfl
        · have := h3.mp hgt; exact absurd this (Rat.not_lt.2 h4)

/-- `get_next` from any legal point: the point one interval later, if it is within bounds. -/
theorem getNextQ_exact (m : Mode) (r : RecQ) (d : DurationQ) (L : Rat) (hr : ExactRecQ m r d L) (p : TPQ)
    (hp : p.Valid m) :
    ∃ q, addDurationQ m p d = some q ∧ GoodQ m p q L ∧
      getNextQ m r p = if inBoundsQ m r q then some q else none := by
  obtain ⟨q, e, g⟩ := addDurationQ_exact m p d hp hr.exact
  rw [hr.len] at g
  refine ⟨q, e, g, ?_⟩
  unfold getNextQ
  rw [if_neg hr.multi, hr.dur]
  simp only [e]

theorem getPrevQ_exact (m : Mode) (r : RecQ) (d : DurationQ) (L : Rat) (hr : ExactRecQ m r d L) (p : TPQ)
    (hp : p.Valid m) :
    ∃ q, subDurationQ m p d = some q ∧ GoodQ m p q (-L) ∧
      getPrevQ m r p = if inBoundsQ m r q then some q else none := by
  obtain ⟨q, e, g⟩ := subDurationQ_exact m p d hp hr.exact
  rw [hr.len] at g
  refine ⟨q, e, g, ?_⟩
  unfold getPrevQ
  rw [if_neg hr.multi, hr.dur]
  simp only [e]

/-- `p` is in `p0`'s date representation, UTC offset and precision form (`None` pattern). -/
def SameFormQ (p0 p : TPQ) : Prop :=
  p.date.rep = p0.date.rep ∧ p.tz = p0.tz ∧ p.mi.isSome = p0.mi.isSome ∧ p.ss.isSome = p0.ss.isSome

theorem sameFormQ_refl (p : TPQ) : SameFormQ p p := ⟨rfl, rfl, rfl, rfl⟩

theorem sameFormQ_of_good {m : Mode} {p q : TPQ} {x : Rat} (g : GoodQ m p q x) : SameFormQ p q :=
  ⟨g.rep, g.tz, g.mi, g.ss⟩

theorem sameFormQ_trans {a b c : TPQ} (h1 : SameFormQ a b) (h2 : SameFormQ b c) : SameFormQ a c :=
  ⟨h2.1.trans h1.1, h2.2.1.trans h1.2.1, h2.2.2.1.trans h1.2.2.1, h2.2.2.2.trans h1.2.2.2⟩

/-- A list of points is the arithmetic series `i0, i0 + step, i0 + 2·step, …` (rational instants)
    of legal points in the representation, offset and precision form of `p0`. -/
def SeriesOKQ (m : Mode) (p0 : TPQ) : List TPQ → Rat → Rat → Prop
  | [], _, _ => True
  | p :: rest, i0, step =>
    p.inst m = i0 ∧ p.Valid m ∧ SameFormQ p0 p ∧ SeriesOKQ m p0 rest (i0 + step) step

theorem seriesOKQ_form (m : Mode) (a b : TPQ) (h : SameFormQ a b) :
    ∀ (l : List TPQ) (i0 step : Rat), SeriesOKQ m b l i0 step → SeriesOKQ m a l i0 step := by
  intro l
  induction l with
  | nil => intro _ _ _; trivial
  | cons p rest ih =>
    intro i0 step ⟨h1, h2, h3, h4⟩
    exact ⟨h1, h2, sameFormQ_trans h h3, ih _ _ h4⟩

theorem natCast_succ_mul (k : Nat) (L : Rat) : ((k + 1 : Nat) : Rat) * L = (k : Rat) * L + L := by
  rw [Rat.natCast_add]; grind

theorem nat_zero_of_mul_lt (k : Nat) (L x : Rat) (hL : 0 < L) (h1 : x + (k : Rat) * L ≤ x + 0 + 0 ∨ (k : Rat) * L < L) :
    k = 0 := by
  rcases Nat.eq_zero_or_pos k with h | h
  · exact h
  · exfalso
    have h1' : (1 : Rat) ≤ (k : Rat) := by
      have := (Rat.natCast_le_natCast (a := 1) (b := k)).2 h
      simpa using this
    have := Rat.mul_le_mul_of_nonneg_right h1' (Rat.le_of_lt hL)
    rcases h1 with h1 | h1 <;> grind

/-- Forward iteration from a legal point `p` at or after the start: yields `p, p+d, p+2d, …` while
    not past the end; `k + 1` points when `p + k·L ≤ end < p + (k+1)·L`. -/
theorem iterFromQ_fwd (m : Mode) (r : RecQ) (d : DurationQ) (L : Rat) (hr : ExactRecQ m r d L) :
    ∀ (fuel : Nat) (p : TPQ), p.Valid m →
      (∀ s, r.start = some s → s.inst m ≤ p.inst m) →
      SeriesOKQ m p (iterFromQ m r false fuel p) (p.inst m) L ∧
      (∀ e, r.end_ = some e → ∀ k : Nat, p.inst m + (k : Rat) * L ≤ e.inst m →
        e.inst m < p.inst m + ((k + 1 : Nat) : Rat) * L →
        (iterFromQ m r false fuel p).length = min fuel (k + 1)) ∧
      (r.end_ = none → (iterFromQ m r false fuel p).length = fuel) := by
  intro fuel
  induction fuel with
  | zero =>
    intro p _ _
    refine ⟨trivial, ?_, fun _ => rfl⟩
    intro e _ k _ _
    simp only [iterFromQ, List.length_nil]; omega
  | succ fuel ih =>
    intro p hp hs
    obtain ⟨q, eq', g, hn⟩ := getNextQ_exact m r d L hr p hp
    have hb := inBoundsQ_iff m r p hp hr.startValid hr.endValid
    have hbq := inBoundsQ_iff m r q g.valid hr.startValid hr.endValid
    have hpos := hr.pos
    simp only [iterFromQ, Bool.false_eq_true, ↓reduceIte, hn]
    by_cases cp : inBoundsQ m r p = true
    · rw [if_pos cp]
      have hqs : ∀ s, r.start = some s → s.inst m ≤ q.inst m := by
        intro s h; have := hs s h; have := g.inst; grind
      by_cases cq : inBoundsQ m r q = true
      · rw [if_pos cq]
        obtain ⟨i1, i2, i3⟩ := ih q g.valid hqs
        refine ⟨⟨rfl, hp, sameFormQ_refl p, ?_⟩, ?_, ?_⟩
        · rw [g.inst] at i1
          exact seriesOKQ_form m p q (sameFormQ_of_good g) _ _ _ i1
        · intro e he k hle hlt
          have hqe := (hbq.mp cq).2 e he
          rw [g.inst] at hqe
          rw [natCast_succ_mul] at hlt
          -- the next point is still within the end: at least two points fit
          cases k with
          | zero =>
            exfalso
            have : ((0 : Nat) : Rat) = 0 := rfl
            rw [this] at hlt; grind
          | succ k' =>
            rw [natCast_succ_mul] at hle
            have := i2 e he k' (by rw [g.inst]; grind) (by rw [g.inst, natCast_succ_mul]; grind)
            simp only [List.length_cons, this]; omega
        · intro hne
          simp only [List.length_cons, i3 hne]
      · rw [if_neg cq]
        refine ⟨⟨rfl, hp, sameFormQ_refl p, trivial⟩, ?_, ?_⟩
        · intro e he k hle hlt
          -- q is out of bounds although it is after the start: it is past the end
          have hq_end : ¬ (q.inst m ≤ e.inst m) := by
            intro hqe
            apply cq
            rw [hbq]
            refine ⟨hqs, ?_⟩
            intro e' he'; rw [he] at he'; cases he'; exact hqe
          rw [g.inst] at hq_end
          have hk : k = 0 := nat_zero_of_mul_lt k L 0 hpos (Or.inr (by grind))
          subst hk
          simp only [List.length_cons, List.length_nil]; omega
        · intro hne
          exfalso; apply cq; rw [hbq]
          exact ⟨hqs, fun e he => by rw [hne] at he; cases he⟩
    · rw [if_neg cp]
      refine ⟨trivial, ?_, ?_⟩
      · intro e he k hle _
        exfalso; apply cp; rw [hb]
        refine ⟨hs, fun e' he' => ?_⟩
        rw [he] at he'; cases he'
        have : (0 : Rat) ≤ (k : Rat) * L := Rat.mul_nonneg Rat.natCast_nonneg (Rat.le_of_lt hpos)
        grind
      · intro hne
        exfalso; apply cp; rw [hb]
        exact ⟨hs, fun e he => by rw [hne] at he; cases he⟩

/-- Backward iteration (unbounded duration/end notation) from a legal point `p` at or before the
    end: yields `p, p-d, p-2d, …` while not before the start. -/
theorem iterFromQ_rev (m : Mode) (r : RecQ) (d : DurationQ) (L : Rat) (hr : ExactRecQ m r d L) :
    ∀ (fuel : Nat) (p : TPQ), p.Valid m →
      (∀ e, r.end_ = some e → p.inst m ≤ e.inst m) →
      SeriesOKQ m p (iterFromQ m r true fuel p) (p.inst m) (-L) ∧
      (∀ s, r.start = some s → ∀ k : Nat, s.inst m ≤ p.inst m - (k : Rat) * L →
        p.inst m - ((k + 1 : Nat) : Rat) * L < s.inst m →
        (iterFromQ m r true fuel p).length = min fuel (k + 1)) ∧
      (r.start = none → (iterFromQ m r true fuel p).length = fuel) := by
  intro fuel
  induction fuel with
  | zero =>
    intro p _ _
    refine ⟨trivial, ?_, fun _ => rfl⟩
    intro s _ k _ _
    simp only [iterFromQ, List.length_nil]; omega
  | succ fuel ih =>
    intro p hp he
    obtain ⟨q, eq', g, hn⟩ := getPrevQ_exact m r d L hr p hp
    have hb := inBoundsQ_iff m r p hp hr.startValid hr.endValid
    have hbq := inBoundsQ_iff m r q g.valid hr.startValid hr.endValid
    have hpos := hr.pos
    simp only [iterFromQ, ↓reduceIte, hn]
    by_cases cp : inBoundsQ m r p = true
    · rw [if_pos cp]
      have hqe : ∀ e, r.end_ = some e → q.inst m ≤ e.inst m := by
        intro e h; have := he e h; have := g.inst; grind
      by_cases cq : inBoundsQ m r q = true
      · rw [if_pos cq]
        obtain ⟨i1, i2, i3⟩ := ih q g.valid hqe
        refine ⟨⟨rfl, hp, sameFormQ_refl p, ?_⟩, ?_, ?_⟩
        · rw [g.inst] at i1
          exact seriesOKQ_form m p q (sameFormQ_of_good g) _ _ _ i1
        · intro s hs k hle hlt
          have hqs := (hbq.mp cq).1 s hs
          rw [g.inst] at hqs
          rw [natCast_succ_mul] at hlt
          cases k with
          | zero =>
            exfalso
            have : ((0 : Nat) : Rat) = 0 := rfl
            rw [this] at hlt; grind
          | succ k' =>
            rw [natCast_succ_mul] at hle
            have := i2 s hs k' (by rw [g.inst]; grind) (by rw [g.inst, natCast_succ_mul]; grind)
            simp only [List.length_cons, this]; omega
        · intro hne
          simp only [List.length_cons, i3 hne]
      · rw [if_neg cq]
        refine ⟨⟨rfl, hp, sameFormQ_refl p, trivial⟩, ?_, ?_⟩
        · intro s hs k hle hlt
          have hq_start : ¬ (s.inst m ≤ q.inst m) := by
            intro hqs
            apply cq
            rw [hbq]
            refine ⟨?_, hqe⟩
            intro s' hs'; rw [hs] at hs'; cases hs'; exact hqs
          rw [g.inst] at hq_start
          have hk : k = 0 := nat_zero_of_mul_lt k L 0 hpos (Or.inr (by grind))
          subst hk
          simp only [List.length_cons, List.length_nil]; omega
        · intro hne
          exfalso; apply cq; rw [hbq]
          exact ⟨fun s hs => (by rw [hne] at hs; cases hs), hqe⟩
    · rw [if_neg cp]
      refine ⟨trivial, ?_, ?_⟩
      · intro s hs k hle _
        exfalso; apply cp; rw [hb]
        refine ⟨fun s' hs' => ?_, he⟩
        rw [hs] at hs'; cases hs'
        have : (0 : Rat) ≤ (k : Rat) * L := Rat.mul_nonneg Rat.natCast_nonneg (Rat.le_of_lt hpos)
        grind
      · intro hne
        exfalso; apply cp; rw [hb]
        exact ⟨fun s hs => (by rw [hne] at hs; cases hs), he⟩

/-! ### `__iter__` on a recurrence with an exact positive interval -/

theorem iterQ_fwd (m : Mode) (r : RecQ) (d : DurationQ) (L : Rat) (hr : ExactRecQ m r d L) (s : TPQ)
    (hs : r.start = some s) (fuel : Nat) : iterQ m r fuel = iterFromQ m r false fuel s := by
  unfold iterQ
  simp only [hs, Option.isNone_some, Bool.false_eq_true, ↓reduceIte, hr.dur]
  have h1 : (r.reps == some 1) = false := by
    cases h : r.reps == some 1
    · rfl
    · exact absurd (by simpa using h) hr.multi
  have h2 : (!d.nonzero) = false := by
    rw [nonzeroQ_of_ne d (by rw [hr.len]; exact Rat.ne_of_gt hr.pos)]; rfl
  simp only [h1, h2, Bool.or_self, Bool.false_eq_true, ↓reduceIte]

theorem iterQ_rev (m : Mode) (r : RecQ) (d : DurationQ) (L : Rat) (hr : ExactRecQ m r d L) (e : TPQ)
    (hs : r.start = none) (he : r.end_ = some e) (fuel : Nat) :
    iterQ m r fuel = iterFromQ m r true fuel e := by
  unfold iterQ
  simp only [hs, Option.isNone_none, ↓reduceIte, he, hr.dur]
  have h1 : (r.reps == some 1) = false := by
    cases h : r.reps == some 1
    · rfl
    · exact absurd (by simpa using h) hr.multi
  have h2 : (!d.nonzero) = false := by
    rw [nonzeroQ_of_ne d (by rw [hr.len]; exact Rat.ne_of_gt hr.pos)]; rfl
  simp only [h1, h2, Bool.or_self, Bool.false_eq_true, ↓reduceIte]

/-! ### what the constructor builds -/

/-- `d < Duration(years=0)` on an exact duration: its length is negative. -/
theorem ltQ_zero_iff (m : Mode) (d : DurationQ) (hex : d.isExact = true) :
    DurationQ.lt m d DurationQ.zero = true ↔ len d < 0 := by
  obtain ⟨e1, r1⟩ := das_spec m d
  obtain ⟨e2, r2⟩ := das_spec m DurationQ.zero
  unfold DurationQ.lt
  rw [pairLt_iff _ _ r1 r2, e1, e2]
  rw [isExact_iff] at hex
  have hz : ym DurationQ.zero = (0, 0) := rfl
  simp only [rough, hex, hz, zero_len, Int.zero_mul, Int.add_zero, Rat.intCast_zero]
  grind

theorem ltQ_zero_false (m : Mode) (d : DurationQ) (hex : d.isExact = true) (hnn : 0 ≤ len d) :
    DurationQ.lt m d DurationQ.zero = false := by
  cases h : DurationQ.lt m d DurationQ.zero
  · rfl
  · have := (ltQ_zero_iff m d hex).mp h; grind

/-- `d == Duration(years=0)` on an exact duration: its length is zero. -/
theorem isZeroDurQ_iff (m : Mode) (d : DurationQ) (hex : d.isExact = true) :
    isZeroDurQ m d = true ↔ len d = 0 := by
  unfold isZeroDurQ
  rw [eq_iff, zero_len]
  rw [isExact_iff] at hex
  have hz : ym DurationQ.zero = (0, 0) := rfl
  rw [hex, hz]; simp

theorem isZeroDurQ_false (m : Mode) (d : DurationQ) (hex : d.isExact = true) (hne : len d ≠ 0) :
    isZeroDurQ m d = false := by
  cases h : isZeroDurQ m d
  · rfl
  · exact absurd ((isZeroDurQ_iff m d hex).mp h) hne

/-- start/duration notation, `n ≥ 2` repetitions: the derived end is `start + d·(n−1)`. -/
theorem mkRecQ_fmt3_bounded (m : Mode) (n : Int) (s : TPQ) (d : DurationQ) (hn : 2 ≤ n) (hs : s.Valid m)
    (hex : d.isExact = true) (hpos : 0 < len d) :
    ∃ e, mkRecQ m (some n) (some s) (some d) none = some ⟨some n, some s, some d, some e, none, 3⟩ ∧
      GoodQ m s e (len d * ((n - 1 : Int) : Rat)) := by
  obtain ⟨e, he, g⟩ := addDurationQ_exact m s (d.mul (n - 1)) hs (mulQ_exact d _ hex)
  rw [mul_len] at g
  refine ⟨e, ?_, g⟩
  unfold mkRecQ
  have c1 : ¬ n ≤ 0 := by omega
  have c2 : ¬ (n = 1) := by omega
  simp only [c1, decide_false, Bool.false_eq_true, ↓reduceIte, ltQ_zero_false m d hex (Rat.le_of_lt hpos),
    isZeroDurQ_false m d hex (Rat.ne_of_gt hpos), Option.some.injEq, c2, or_self, he, Option.map_some]

/-- start/duration notation, unbounded. -/
theorem mkRecQ_fmt3_unbounded (m : Mode) (s : TPQ) (d : DurationQ) (hex : d.isExact = true)
    (hpos : 0 < len d) :
    mkRecQ m none (some s) (some d) none = some ⟨none, some s, some d, none, none, 3⟩ := by
  unfold mkRecQ
  simp only [Bool.false_eq_true, ↓reduceIte, ltQ_zero_false m d hex (Rat.le_of_lt hpos),
    isZeroDurQ_false m d hex (Rat.ne_of_gt hpos), reduceCtorEq, or_self]

/-- duration/end notation, `n ≥ 2` repetitions: the derived start is `end − d·(n−1)`. -/
theorem mkRecQ_fmt4_bounded (m : Mode) (n : Int) (e : TPQ) (d : DurationQ) (hn : 2 ≤ n) (he : e.Valid m)
    (hex : d.isExact = true) (hpos : 0 < len d) :
    ∃ s, mkRecQ m (some n) none (some d) (some e) = some ⟨some n, some s, some d, some e, none, 4⟩ ∧
      GoodQ m e s (-(len d * ((n - 1 : Int) : Rat))) := by
  obtain ⟨s, hs, g⟩ := subDurationQ_exact m e (d.mul (n - 1)) he (mulQ_exact d _ hex)
  rw [mul_len] at g
  refine ⟨s, ?_, g⟩
  unfold mkRecQ
  have c1 : ¬ n ≤ 0 := by omega
  have c2 : ¬ (n = 1) := by omega
  simp only [c1, decide_false, Bool.false_eq_true, ↓reduceIte, ltQ_zero_false m d hex (Rat.le_of_lt hpos),
    isZeroDurQ_false m d hex (Rat.ne_of_gt hpos), Option.some.injEq, c2, or_self, hs, Option.map_some]

theorem mkRecQ_fmt4_unbounded (m : Mode) (e : TPQ) (d : DurationQ) (hex : d.isExact = true)
    (hpos : 0 < len d) :
    mkRecQ m none none (some d) (some e) = some ⟨none, none, some d, some e, none, 4⟩ := by
  unfold mkRecQ
  simp only [Bool.false_eq_true, ↓reduceIte, ltQ_zero_false m d hex (Rat.le_of_lt hpos),
    isZeroDurQ_false m d hex (Rat.ne_of_gt hpos), reduceCtorEq, or_self]

/-- start/second-point notation: the interval is the exact difference of the two points. -/
theorem mkRecQ_fmt1 (m : Mode) (reps : Option Int) (s e2 : TPQ) (hs : s.Valid m) (he : e2.Valid m)
    (hlt : s.inst m < e2.inst m) (hreps : ∀ n, reps = some n → 2 ≤ n) :
    ∃ d, (subTPQ m e2 s).map DurationQ.ofDurQ = some d ∧ d.isExact = true ∧ len d = e2.inst m - s.inst m ∧
      (reps = none → mkRecQ m none (some s) none (some e2) = some ⟨none, some s, some d, none, some e2, 1⟩) ∧
      (∀ n, reps = some n → ∃ e, mkRecQ m (some n) (some s) none (some e2) =
          some ⟨some n, some s, some d, some e, some e2, 1⟩ ∧
          GoodQ m s e ((e2.inst m - s.inst m) * ((n - 1 : Int) : Rat))) := by
  obtain ⟨dd, hh, mm, ss, hd, hl, _, _⟩ := subTPQ_spec m e2 s he hs
  have hex : (DurationQ.units 0 0 dd (hh : Rat) (mm : Rat) ss).isExact = true := rfl
  have hsec : len (DurationQ.units 0 0 dd (hh : Rat) (mm : Rat) ss) = e2.inst m - s.inst m := by
    simp only [len]; exact hl
  have c1 : tpEqQ m s e2 = false := by
    cases h : tpEqQ m s e2
    · rfl
    · have := (tpEqQ_iff m s e2 hs he).mp h; grind
  have c2 : tpLtQ m e2 s = false := by
    cases h : tpLtQ m e2 s
    · rfl
    · have := (tpLtQ_iff m e2 s he hs).mp h; grind
  refine ⟨_, by rw [hd]; rfl, hex, hsec, ?_, ?_⟩
  · intro _
    unfold mkRecQ
    simp only [Bool.false_eq_true, ↓reduceIte, reduceCtorEq, c1, c2, hd, DurationQ.ofDurQ]
  · intro n hn
    have h2 := hreps n hn
    obtain ⟨e, he', g⟩ := addDurationQ_exact m s
      ((DurationQ.units 0 0 dd (hh : Rat) (mm : Rat) ss).mul (n - 1)) hs (mulQ_exact _ _ hex)
    rw [mul_len, hsec] at g
    refine ⟨e, ?_, g⟩
    unfold mkRecQ
    have k1 : ¬ n ≤ 0 := by omega
    have k2 : ¬ (n = 1) := by omega
    simp only [k1, decide_false, Bool.false_eq_true, ↓reduceIte, Option.some.injEq, k2, c1, c2, hd,
      DurationQ.ofDurQ, he', Option.map_some]

/-! ### reading a series -/

theorem seriesQ_getElem? (m : Mode) (p0 : TPQ) : ∀ (l : List TPQ) (i0 step : Rat),
    SeriesOKQ m p0 l i0 step → ∀ i : Nat, i < l.length →
      ∃ p, l[i]? = some p ∧ p.inst m = i0 + (i : Rat) * step ∧ p.Valid m ∧ SameFormQ p0 p := by
  intro l
  induction l with
  | nil => intro _ _ _ i h; simp at h
  | cons p rest ih =>
    intro i0 step hs i h
    obtain ⟨h1, h2, h3, h4⟩ := hs
    cases i with
    | zero =>
      refine ⟨p, rfl, ?_, h2, h3⟩
      have : ((0 : Nat) : Rat) = 0 := rfl
      rw [h1, this]; grind
    | succ k =>
      obtain ⟨q, e1, e2, e3⟩ := ih (i0 + step) step h4 k (by simpa using h)
      refine ⟨q, by simpa using e1, ?_, e3⟩
      rw [e2, natCast_succ_mul]; grind

theorem seriesQ_mem_iff (m : Mode) (p0 : TPQ) (l : List TPQ) (i0 step : Rat)
    (hs : SeriesOKQ m p0 l i0 step) (x : Rat) :
    (∃ q ∈ l, q.inst m = x) ↔ ∃ k : Nat, k < l.length ∧ x = i0 + (k : Rat) * step := by
  constructor
  · rintro ⟨q, hq, hqe⟩
    obtain ⟨i, hi, hget⟩ := List.getElem_of_mem hq
    obtain ⟨p, e1, e2, _⟩ := seriesQ_getElem? m p0 l i0 step hs i hi
    rw [List.getElem?_eq_getElem hi, hget] at e1
    cases e1
    exact ⟨i, hi, by rw [← hqe, e2]⟩
  · rintro ⟨k, hk, rfl⟩
    obtain ⟨p, e1, e2, _⟩ := seriesQ_getElem? m p0 l i0 step hs k hk
    exact ⟨p, List.mem_of_getElem? e1, e2⟩

theorem seriesQ_mem_valid (m : Mode) (p0 : TPQ) : ∀ (l : List TPQ) (i0 step : Rat),
    SeriesOKQ m p0 l i0 step → ∀ q ∈ l, q.Valid m := by
  intro l
  induction l with
  | nil => intro _ _ _ q hq; cases hq
  | cons p rest ih =>
    intro i0 step hs q hq
    obtain ⟨_, h2, _, h4⟩ := hs
    rcases List.mem_cons.mp hq with rfl | hq
    · exact h2
    · exact ih _ _ h4 q hq

/-! ### everything `__iter__` yields passed the bounds check -/

theorem iterFromQ_mem_inBounds (m : Mode) (r : RecQ) (rev : Bool) : ∀ (fuel : Nat) (p q : TPQ),
    q ∈ iterFromQ m r rev fuel p → inBoundsQ m r q = true := by
  intro fuel
  induction fuel with
  | zero => intro p q h; simp only [iterFromQ] at h; cases h
  | succ fuel ih =>
    intro p q h
    simp only [iterFromQ] at h
    by_cases cp : inBoundsQ m r p = true
    · rw [if_pos cp] at h
      rcases List.mem_cons.mp h with rfl | h
      · exact cp
      · cases hn : (if rev = true then getPrevQ m r p else getNextQ m r p) with
        | none => rw [hn] at h; cases h
        | some p' => rw [hn] at h; exact ih p' q h
    · rw [if_neg cp] at h; cases h

theorem iterQ_mem_inBounds (m : Mode) (r : RecQ) (fuel : Nat) (q : TPQ) (h : q ∈ iterQ m r fuel) :
    inBoundsQ m r q = true := by
  unfold iterQ at h
  cases hp : (if r.start.isNone = true then r.end_ else r.start) with
  | none => simp only [hp] at h; cases h
  | some p =>
    simp only [hp] at h
    generalize (r.reps == some 1 || (match r.dur with | none => true | some d => !d.nonzero)) = c at h
    cases c with
    | true =>
      simp only [↓reduceIte] at h
      by_cases c0 : fuel = 0
      · rw [if_pos c0] at h; cases h
      · rw [if_neg c0] at h
        by_cases cb : inBoundsQ m r p = true
        · rw [if_pos cb] at h
          rcases List.mem_cons.mp h with rfl | h
          · exact cb
          · cases h
        · rw [if_neg cb] at h; cases h
    | false =>
      simp only [Bool.false_eq_true, ↓reduceIte] at h
      exact iterFromQ_mem_inBounds m r _ fuel p q h

end IsoDT.Lemmas
