/-
  IsoDT.Lemmas.Text — generic lemmas about the template matcher / renderer of the text layer:
  digit fields, the template round trip, the decidable shape-disjointness check and its soundness,
  first-match in a pairwise-disjoint try-order, and the string splitting helpers.
-/
import IsoDT.Model.TextDump

namespace IsoDT.Text
open IsoDT

/-! ## Digits -/

theorem digitChar (d : Nat) (h : d < 10) :
    isDigit (Char.ofNat (48 + d)) = true ∧ (Char.ofNat (48 + d)).toNat = 48 + d := by
  have : ∀ d : Fin 10, isDigit (Char.ofNat (48 + d.val)) = true ∧
      (Char.ofNat (48 + d.val)).toNat = 48 + d.val := by decide
  exact this ⟨d, h⟩

theorem renderNat_length (w v : Nat) : (renderNat w v).length = w := by
  induction w with
  | zero => rfl
  | succ w ih => simp [renderNat, ih]

theorem renderNat_digits (w v : Nat) : (renderNat w v).all isDigit = true := by
  induction w with
  | zero => rfl
  | succ w ih =>
    simp only [renderNat, List.all_cons, ih, Bool.and_true]
    exact (digitChar _ (Nat.mod_lt _ (by decide))).1

theorem foldl_digits (w v acc : Nat) :
    (renderNat w v).foldl (fun a c => 10 * a + (c.toNat - 48)) acc = acc * 10 ^ w + v % 10 ^ w := by
  induction w generalizing acc with
  | zero => simp [renderNat, Nat.mod_one]
  | succ w ih =>
    have hd := (digitChar (v / 10 ^ w % 10) (Nat.mod_lt _ (by decide))).2
    simp only [renderNat, List.foldl_cons, hd, ih]
    have e1 : 48 + v / 10 ^ w % 10 - 48 = v / 10 ^ w % 10 := by omega
    rw [e1, Nat.pow_succ, Nat.mod_mul, Nat.add_mul, Nat.mul_comm 10 acc, Nat.mul_assoc,
      Nat.mul_comm 10 (10 ^ w)]
    rw [Nat.mul_comm (10 ^ w) (v / 10 ^ w % 10)]
    omega

theorem digitsVal_renderNat (w v : Nat) : digitsVal (renderNat w v) = v % 10 ^ w := by
  unfold digitsVal
  rw [foldl_digits]; simp

theorem intOf_renderNat (w v : Nat) (hw : 0 < w) (hv : v < 10 ^ w) :
    intOf? (renderNat w v) = some (v : Int) := by
  unfold intOf?
  have : (renderNat w v).isEmpty = false := by
    cases w with
    | zero => omega
    | succ w => simp [renderNat]
  rw [this, digitsVal_renderNat, Nat.mod_eq_of_lt hv]; rfl

theorem renderNat_split (a b v : Nat) :
    renderNat (a + b) v = renderNat a (v / 10 ^ b) ++ renderNat b v := by
  induction a with
  | zero => simp [renderNat]
  | succ a ih =>
    have : a + 1 + b = (a + b) + 1 := by omega
    rw [this]
    simp only [renderNat, ih, List.cons_append]
    congr 2
    rw [Nat.pow_add, Nat.div_div_eq_div_mul, Nat.mul_comm]

theorem takeDigits_append (s r : List Char) (h : s.all isDigit = true) :
    takeDigits s.length (s ++ r) = some (s, r) := by
  induction s with
  | nil => rfl
  | cons c s ih =>
    simp only [List.all_cons, Bool.and_eq_true] at h
    simp [takeDigits, h.1, ih h.2]

theorem takeDigits_some (n : Nat) (s d r : List Char) (h : takeDigits n s = some (d, r)) :
    s = d ++ r ∧ d.length = n ∧ d.all isDigit = true := by
  induction n generalizing s d r with
  | zero => simp [takeDigits] at h; obtain ⟨rfl, rfl⟩ := h; simp
  | succ n ih =>
    cases s with
    | nil => simp [takeDigits] at h
    | cons c s =>
      simp only [takeDigits] at h
      split at h
      · rename_i hc
        split at h
        · rename_i d' r' e
          simp only [Option.some.injEq, Prod.mk.injEq] at h
          obtain ⟨rfl, rfl⟩ := h
          obtain ⟨e1, e2, e3⟩ := ih s d' r' e
          exact ⟨by simp [e1], by simp [e2], by simp [hc, e3]⟩
        · exact absurd h (by simp)
      · exact absurd h (by simp)

theorem spanDigits_append (s r : List Char) (h : s.all isDigit = true)
    (hr : ∀ c r', r = c :: r' → isDigit c = false) : spanDigits (s ++ r) = (s, r) := by
  induction s with
  | nil =>
    cases r with
    | nil => rfl
    | cons c r' => simp [spanDigits, hr c r' rfl]
  | cons c s ih =>
    simp only [List.all_cons, Bool.and_eq_true] at h
    simp [spanDigits, h.1, ih h.2]

theorem spanDigits_spec (s : List Char) :
    s = (spanDigits s).1 ++ (spanDigits s).2 ∧ (spanDigits s).1.all isDigit = true := by
  induction s with
  | nil => simp [spanDigits]
  | cons c s ih =>
    by_cases hc : isDigit c = true
    · simp only [spanDigits, hc, if_true, List.cons_append, List.all_cons, Bool.true_and]
      exact ⟨by rw [← ih.1], ih.2⟩
    · simp [spanDigits, hc]

theorem stripPrefix_append (ls r : List Char) : stripPrefix ls (ls ++ r) = some r := by
  induction ls with
  | nil => rfl
  | cons l ls ih => simp [stripPrefix, ih]

theorem stripPrefix_some (ls s r : List Char) (h : stripPrefix ls s = some r) : s = ls ++ r := by
  induction ls generalizing s with
  | nil => simp [stripPrefix] at h; simp [h]
  | cons l ls ih =>
    cases s with
    | nil => simp [stripPrefix] at h
    | cons c s =>
      simp only [stripPrefix] at h
      split at h
      · rename_i e; subst e; simp [ih s h]
      · exact absurd h (by simp)

/-! ## The template round trip -/

/-- `digitsPlus` occurs only as the last item (checked by the translator, re-checked on the tables). -/
def wf : Template → Bool
  | [] => true
  | .digitsPlus _ :: t => t.isEmpty
  | _ :: t => wf t

/-- **Round trip**: a template matches the text it renders for any fitting assignment of its groups,
    and returns exactly that assignment. -/
theorem tmatch_trender (t : Template) (env : Env) (h : fits t env = true) :
    tmatch t (trender t env) = some env := by
  induction t generalizing env with
  | nil =>
    cases env with
    | nil => rfl
    | cons _ _ => simp [fits] at h
  | cons it t ih =>
    cases it with
    | lit c =>
      simp only [fits] at h
      simp [trender, tmatch, ih env h]
    | digits f n =>
      cases env with
      | nil => simp [fits] at h
      | cons gs env =>
        obtain ⟨g, s⟩ := gs
        simp only [fits, Bool.and_eq_true, decide_eq_true_eq] at h
        obtain ⟨⟨⟨rfl, hl⟩, hd⟩, hf⟩ := h
        subst hl
        simp [trender, tmatch, takeDigits_append s _ hd, ih env hf]
    | digitsPlus f =>
      cases env with
      | nil => simp [fits] at h
      | cons gs env =>
        obtain ⟨g, s⟩ := gs
        simp only [fits, Bool.and_eq_true, decide_eq_true_eq, Bool.not_eq_true', List.isEmpty_iff] at h
        obtain ⟨⟨⟨⟨rfl, hne⟩, hd⟩, rfl⟩, rfl⟩ := h
        have hs : spanDigits (s ++ []) = (s, []) := spanDigits_append s [] hd (by simp)
        simp only [List.append_nil] at hs
        have hne' : s ≠ [] := by intro e; simp [e] at hne
        simp [trender, tmatch, hs, hne', atEnd]
    | sign f =>
      cases env with
      | nil => simp [fits] at h
      | cons gs env =>
        obtain ⟨g, s⟩ := gs
        simp only [fits, Bool.and_eq_true, decide_eq_true_eq, Bool.or_eq_true] at h
        obtain ⟨⟨rfl, hs⟩, hf⟩ := h
        rcases hs with rfl | rfl <;> simp [trender, tmatch, ih env hf]
    | group f ls =>
      cases env with
      | nil => simp [fits] at h
      | cons gs env =>
        obtain ⟨g, s⟩ := gs
        simp only [fits, Bool.and_eq_true, decide_eq_true_eq] at h
        obtain ⟨⟨rfl, rfl⟩, hf⟩ := h
        simp [trender, tmatch, stripPrefix_append, ih env hf]

/-! ## Shapes: which texts can a template match at all -/

/-- A character class of a template position. -/
inductive CC where
  | ch (c : Char)
  | digit
  | sign
  deriving DecidableEq, Repr

def CC.mem : CC → Char → Bool
  | .ch a, c => a = c
  | .digit, c => isDigit c
  | .sign, c => c = '+' || c = '-'

/-- Do two classes share a character? -/
def CC.meet : CC → CC → Bool
  | .ch a, .ch b => a = b
  | .ch a, .digit => isDigit a
  | .digit, .ch a => isDigit a
  | .ch a, .sign => a = '+' || a = '-'
  | .sign, .ch a => a = '+' || a = '-'
  | .digit, .digit => true
  | .sign, .sign => true
  | .digit, .sign => false
  | .sign, .digit => false

theorem CC.meet_of_mem (x y : CC) (c : Char) (hx : x.mem c = true) (hy : y.mem c = true) :
    x.meet y = true := by
  have hp : isDigit '+' = false := by decide
  have hm : isDigit '-' = false := by decide
  cases x <;> cases y <;> simp only [CC.mem, CC.meet, decide_eq_true_eq, Bool.or_eq_true] at * <;>
    first
    | (subst hx; first | exact hy | (subst hy; rfl))
    | (subst hy; exact hx)
    | rfl
    | (rcases hy with rfl | rfl <;> simp_all)
    | (rcases hx with rfl | rfl <;> simp_all)

/-- What follows the fixed positions of a shape. -/
inductive Tail where
  /-- end of text -/
  | none
  /-- one or more digits, then the end -/
  | plus
  /-- zero or more digits, then the end -/
  | star
  deriving DecidableEq, Repr

/-- The texts of a shape: fixed classes, then the tail, then `$`. -/
def acceptsT : List CC → Tail → List Char → Bool
  | k :: ks, t, c :: s => k.mem c && acceptsT ks t s
  | _ :: _, _, [] => false
  | [], .none, s => atEnd s
  | [], .plus, s => !(spanDigits s).1.isEmpty && atEnd (spanDigits s).2
  | [], .star, s => atEnd (spanDigits s).2

/-- The shape of a (well-formed) template. -/
def shapeOf : Template → List CC × Tail
  | [] => ([], .none)
  | .lit c :: t => (.ch c :: (shapeOf t).1, (shapeOf t).2)
  | .digits _ n :: t => (List.replicate n .digit ++ (shapeOf t).1, (shapeOf t).2)
  | .digitsPlus _ :: _ => ([], .plus)
  | .sign _ :: t => (.sign :: (shapeOf t).1, (shapeOf t).2)
  | .group _ ls :: t => (ls.map .ch ++ (shapeOf t).1, (shapeOf t).2)

theorem acceptsT_digits (d r : List Char) (ks : List CC) (tl : Tail) (hd : d.all isDigit = true)
    (h : acceptsT ks tl r = true) : acceptsT (List.replicate d.length .digit ++ ks) tl (d ++ r) = true := by
  induction d with
  | nil => simpa using h
  | cons c d ih =>
    simp only [List.all_cons, Bool.and_eq_true] at hd
    simp [List.replicate_succ, acceptsT, CC.mem, hd.1, ih hd.2]

theorem acceptsT_lits (ls r : List Char) (ks : List CC) (tl : Tail)
    (h : acceptsT ks tl r = true) : acceptsT (ls.map .ch ++ ks) tl (ls ++ r) = true := by
  induction ls with
  | nil => simpa using h
  | cons c ls ih => simp [acceptsT, CC.mem, ih]

/-- Every text a template matches has the template's shape. -/
theorem tmatch_accepts (t : Template) (hw : wf t = true) (s : List Char) (env : Env)
    (h : tmatch t s = some env) : acceptsT (shapeOf t).1 (shapeOf t).2 s = true := by
  induction t generalizing s env with
  | nil =>
    simp only [tmatch] at h
    split at h
    · rename_i he; simpa [shapeOf, acceptsT] using he
    · exact absurd h (by simp)
  | cons it t ih =>
    cases it with
    | lit c =>
      cases s with
      | nil => simp [tmatch] at h
      | cons x s =>
        simp only [tmatch] at h
        split at h
        · rename_i e; subst e
          simp [shapeOf, acceptsT, CC.mem, ih (by simpa [wf] using hw) s env h]
        · exact absurd h (by simp)
    | digits f n =>
      simp only [tmatch] at h
      split at h
      · rename_i d r e
        obtain ⟨rfl, hl, hd⟩ := takeDigits_some n s d r e
        cases hm : tmatch t r with
        | none => simp [hm] at h
        | some env' =>
          subst hl
          exact acceptsT_digits d r _ _ hd (ih (by simpa [wf] using hw) r env' hm)
      · exact absurd h (by simp)
    | digitsPlus f =>
      simp only [tmatch] at h
      split at h
      · exact absurd h (by simp)
      · rename_i hne
        have ht : t = [] := by simpa [wf] using hw
        subst ht
        cases hm : tmatch [] (spanDigits s).2 with
        | none => simp [hm] at h
        | some env' =>
          simp only [tmatch] at hm
          split at hm
          · rename_i he
            simp only [shapeOf, acceptsT, Bool.and_eq_true, Bool.not_eq_true', List.isEmpty_eq_false_iff]
            exact ⟨hne, he⟩
          · exact absurd hm (by simp)
    | sign f =>
      cases s with
      | nil => simp [tmatch] at h
      | cons x s =>
        simp only [tmatch] at h
        split at h
        · rename_i hx
          cases hm : tmatch t s with
          | none => simp [hm] at h
          | some env' =>
            have := ih (by simpa [wf] using hw) s env' hm
            simp only [shapeOf, acceptsT, CC.mem, Bool.and_eq_true, Bool.or_eq_true, decide_eq_true_eq]
            exact ⟨hx, this⟩
        · exact absurd h (by simp)
    | group f ls =>
      simp only [tmatch] at h
      split at h
      · rename_i r e
        have := stripPrefix_some ls s r e
        subst this
        cases hm : tmatch t r with
        | none => simp [hm] at h
        | some env' => exact acceptsT_lits ls r _ _ (ih (by simpa [wf] using hw) r env' hm)
      · exact absurd h (by simp)

/-- `overlapB` when the first shape has no fixed positions left. -/
def overlapTail : Tail → List CC → Tail → Bool
  | .none, [], tb => tb != .plus
  | .plus, [], tb => tb != .none
  | .star, [], _ => true
  | .none, y :: _, _ => y.mem '\n'
  | .plus, y :: b, tb => y.meet .digit && overlapTail .star b tb
  | .star, y :: b, tb => (y.meet .digit && overlapTail .star b tb) || y.mem '\n'

/-- Can two shapes share a text? (`false` = certainly not.)  Structural in the first list. -/
def overlapB : List CC → Tail → List CC → Tail → Bool
  | [], ta, b, tb => overlapTail ta b tb
  | x :: _, _, [], .none => x.mem '\n'
  | x :: a, ta, [], .plus => x.meet .digit && overlapB a ta [] .star
  | x :: a, ta, [], .star => (x.meet .digit && overlapB a ta [] .star) || x.mem '\n'
  | x :: a, ta, y :: b, tb => x.meet y && overlapB a ta b tb

theorem atEnd_cons (c : Char) (s : List Char) (h : atEnd (c :: s) = true) : c = '\n' := by
  cases s with
  | nil => simpa [atEnd] using h
  | cons _ _ => simp [atEnd] at h

theorem nl_not_digit : isDigit '\n' = false := by decide

theorem meet_digit_of (y : CC) (c : Char) (hy : y.mem c = true) (hc : isDigit c = true) :
    y.meet .digit = true := CC.meet_of_mem y .digit c hy (by simpa [CC.mem] using hc)

theorem digit_meet_of (y : CC) (c : Char) (hy : y.mem c = true) (hc : isDigit c = true) :
    CC.meet y .digit = true := meet_digit_of y c hy hc

/-- The tail of a text in "digits then end" state, after one character was consumed by the other
    side's class. -/
theorem tail_step (tl : Tail) (htl : tl ≠ .none) (c : Char) (s : List Char)
    (h : acceptsT [] tl (c :: s) = true) :
    (isDigit c = true ∧ acceptsT [] .star s = true) ∨ (tl = .star ∧ c = '\n') := by
  by_cases hc : isDigit c = true
  · left
    refine ⟨hc, ?_⟩
    cases tl with
    | none => exact absurd rfl htl
    | plus => simpa [acceptsT, spanDigits, hc] using h
    | star => simpa [acceptsT, spanDigits, hc] using h
  · right
    cases tl with
    | none => exact absurd rfl htl
    | plus => simp [acceptsT, spanDigits, hc] at h
    | star =>
      simp only [acceptsT, spanDigits, hc] at h
      exact ⟨rfl, atEnd_cons c s (by simpa using h)⟩

theorem overlapTail_sound (ta : Tail) (b : List CC) (tb : Tail) (s : List Char)
    (ha : acceptsT [] ta s = true) (hb : acceptsT b tb s = true) : overlapTail ta b tb = true := by
  induction s generalizing ta b tb with
  | nil =>
    cases b with
    | cons y b => simp [acceptsT] at hb
    | nil => cases ta <;> cases tb <;> simp_all [overlapTail, acceptsT, spanDigits, atEnd]
  | cons c s ih =>
    cases b with
    | nil =>
      cases ta <;> cases tb <;> simp only [overlapTail] <;> try rfl
      · -- none, plus
        have := atEnd_cons c s (by simpa [acceptsT] using ha)
        subst this
        simp [acceptsT, spanDigits, nl_not_digit] at hb
      · -- plus, none
        have := atEnd_cons c s (by simpa [acceptsT] using hb)
        subst this
        simp [acceptsT, spanDigits, nl_not_digit] at ha
    | cons y b =>
      simp only [acceptsT, Bool.and_eq_true] at hb
      cases ta with
      | none =>
        have := atEnd_cons c s (by simpa [acceptsT] using ha)
        subst this
        simpa [overlapTail] using hb.1
      | plus =>
        rcases tail_step .plus (by simp) c s ha with ⟨hc, hs⟩ | ⟨h1, _⟩
        · simp only [overlapTail, Bool.and_eq_true]
          exact ⟨meet_digit_of y c hb.1 hc, ih .star b tb hs hb.2⟩
        · exact absurd h1 (by simp)
      | star =>
        rcases tail_step .star (by simp) c s ha with ⟨hc, hs⟩ | ⟨_, h2⟩
        · simp only [overlapTail, Bool.or_eq_true, Bool.and_eq_true]
          exact Or.inl ⟨meet_digit_of y c hb.1 hc, ih .star b tb hs hb.2⟩
        · subst h2
          simp only [overlapTail, Bool.or_eq_true]
          exact Or.inr hb.1

/-- **Soundness of the disjointness check**: if one text has both shapes, `overlapB` says so. -/
theorem overlapB_sound (a : List CC) (ta : Tail) (b : List CC) (tb : Tail) (s : List Char)
    (ha : acceptsT a ta s = true) (hb : acceptsT b tb s = true) : overlapB a ta b tb = true := by
  induction s generalizing a ta b tb with
  | nil =>
    cases a with
    | cons x a => simp [acceptsT] at ha
    | nil => simpa [overlapB] using overlapTail_sound ta b tb [] ha hb
  | cons c s ih =>
    cases a with
    | nil => simpa [overlapB] using overlapTail_sound ta b tb (c :: s) ha hb
    | cons x a =>
      cases b with
      | cons y b =>
        simp only [acceptsT, Bool.and_eq_true] at ha hb
        simp only [overlapB, Bool.and_eq_true]
        exact ⟨CC.meet_of_mem x y c ha.1 hb.1, ih a ta b tb ha.2 hb.2⟩
      | nil =>
        simp only [acceptsT, Bool.and_eq_true] at ha
        cases tb with
        | none =>
          have := atEnd_cons c s (by simpa [acceptsT] using hb)
          subst this
          simpa [overlapB] using ha.1
        | plus =>
          rcases tail_step .plus (by simp) c s hb with ⟨hc, hs⟩ | ⟨h1, _⟩
          · simp only [overlapB, Bool.and_eq_true]
            exact ⟨meet_digit_of x c ha.1 hc, ih a ta [] .star ha.2 hs⟩
          · exact absurd h1 (by simp)
        | star =>
          rcases tail_step .star (by simp) c s hb with ⟨hc, hs⟩ | ⟨_, h2⟩
          · simp only [overlapB, Bool.or_eq_true, Bool.and_eq_true]
            exact Or.inl ⟨meet_digit_of x c ha.1 hc, ih a ta [] .star ha.2 hs⟩
          · subst h2
            simp only [overlapB, Bool.or_eq_true]
            exact Or.inr ha.1

/-- The decidable check: no text is matched by both templates. -/
def shapeDisjoint (a b : Template) : Bool :=
  !overlapB (shapeOf a).1 (shapeOf a).2 (shapeOf b).1 (shapeOf b).2

theorem shapeDisjoint_sound (a b : Template) (ha : wf a = true) (hb : wf b = true)
    (h : shapeDisjoint a b = true) (s : List Char) (env : Env) (hm : tmatch b s = some env) :
    tmatch a s = none := by
  cases hma : tmatch a s with
  | none => rfl
  | some env' =>
    have h1 := tmatch_accepts a ha s env' hma
    have h2 := tmatch_accepts b hb s env hm
    have := overlapB_sound _ _ _ _ s h1 h2
    simp [shapeDisjoint, this] at h

end IsoDT.Text
