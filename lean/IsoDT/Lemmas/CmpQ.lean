/-
  IsoDT.Lemmas.CmpQ — re-zoning, comparison, hashing and point difference over rational hour /
  minute / second slots (`Model.TimePointQ2`) in terms of instants (`TPQ.inst`).
-/
import IsoDT.Lemmas.Cmp
import IsoDT.Lemmas.TickQ
import IsoDT.Model.TimePointQ2

namespace IsoDT.Lemmas
open IsoDT IsoDT.Model
open IsoDT.Spec (Date TZ TP)

/-- Sign of a rational as `-1`, `0`, `1`. -/
def sgnQ (x : Rat) : Int := if x < 0 then -1 else if x > 0 then 1 else 0

theorem sgnQ_neg_iff (x : Rat) : sgnQ x = -1 ↔ x < 0 := by
  unfold sgnQ; by_cases h1 : x < 0 <;> by_cases h2 : x > 0 <;> simp [h1, h2]
theorem sgnQ_zero_iff (x : Rat) : sgnQ x = 0 ↔ x = 0 := by
  unfold sgnQ; by_cases h1 : x < 0 <;> by_cases h2 : x > 0 <;> simp [h1, h2] <;> grind
theorem sgnQ_one_iff (x : Rat) : sgnQ x = 1 ↔ x > 0 := by
  unfold sgnQ; by_cases h1 : x < 0 <;> by_cases h2 : x > 0 <;> simp [h1, h2] <;> grind
theorem sgnQ_pos_iff (x : Rat) : sgnQ x > 0 ↔ x > 0 := by
  unfold sgnQ; by_cases h1 : x < 0 <;> by_cases h2 : x > 0 <;> simp [h1, h2] <;> grind

theorem sgnQ_intCast (x : Int) : sgnQ (x : Rat) = sgn x := by
  have c0 : ((0 : Int) : Rat) = 0 := rfl
  unfold sgnQ sgn
  rw [← c0]
  simp only [Rat.intCast_lt_intCast, gt_iff_lt]

/-! ### integer-valued rationals -/

theorem isInt_le_of_lt {x : Rat} (h : IsInt x) (n : Int) (hl : x < (n : Rat)) : x ≤ ((n - 1 : Int) : Rat) := by
  rw [h.eq_intCast] at hl ⊢
  rw [Rat.intCast_lt_intCast] at hl
  rw [Rat.intCast_le_intCast]; omega

theorem isInt_nonneg {x : Rat} (h : IsInt x) (h0 : 0 ≤ x) : 0 ≤ x.num := by
  have c0 : ((0 : Int) : Rat) = 0 := rfl
  rw [h.eq_intCast, ← c0, Rat.intCast_le_intCast] at h0
  simpa using h0

theorem cast_tzSeconds (z : TZ) : ((z.seconds : Int) : Rat) = 3600 * (z.h : Rat) + 60 * (z.mi : Rat) := by
  simp only [TZ.seconds, Rat.intCast_add, Rat.intCast_mul]; rfl

/-! ### `to_time_zone` -/

theorem toTimeZoneQ_spec (m : Mode) (p : TPQ) (z : TZ) (hv : p.Valid m) (hz : z.Valid) :
    ∃ q, toTimeZoneQ m p z = some q ∧ q.inst m = p.inst m ∧ q.tz = z ∧ q.Valid m ∧
      q.date.rep = p.date.rep ∧ q.mi.isSome = p.mi.isSome ∧ q.ss.isSome = p.ss.isSome ∧
      (p.hh < 24 → q.hh < 24) := by
  unfold toTimeZoneQ
  by_cases c : z.h = p.tz.h ∧ z.mi = p.tz.mi
  · rw [if_pos c]
    refine ⟨p, rfl, rfl, ?_, hv, rfl, rfl, rfl, fun h => h⟩
    obtain ⟨zh, zm⟩ := z
    obtain ⟨pd, ph, pm, ps, ⟨th, tm⟩⟩ := p
    simp only at c
    simp only [c.1, c.2]
  · rw [if_neg c]
    obtain ⟨q, he, g⟩ := addExactQ_spec m p
      ⟨0, ((z.h - p.tz.h : Int) : Rat), ((z.mi - p.tz.mi : Int) : Rat), 0⟩ hv
    rw [he]
    refine ⟨{ q with tz := z }, rfl, ?_, rfl, ⟨g.valid.1, hz, g.valid.2.2⟩, g.rep, g.mi, g.ss,
      fun _ => g.lt24⟩
    have hi := g.inst
    have ht := g.tz
    simp only [TPQ.inst, TPQ.hms, DurQ.seconds, cast_tzSeconds, Rat.intCast_sub, ht] at hi ⊢
    have c0 : ((0 : Int) : Rat) = 0 := rfl
    rw [c0] at hi
    grind

/-! ### strict points: legal with `hh < 24` -/

def TPQ.Strict (m : Mode) (p : TPQ) : Prop := p.Valid m ∧ p.hh < 24

theorem normalise24Q_strict (m : Mode) (p : TPQ) (h : TPQ.Strict m p) : normalise24Q m p = some p := by
  have c24 : ((24 : Int) : Rat) = 24 := rfl
  unfold normalise24Q; rw [hoursInDay_eq, c24]
  have : ¬ p.hh = 24 := by have := h.2; grind
  rw [if_neg this]

/-- The common prefix of `_cmp`, `__sub__` and `__hash__`: both operands as strict points in the
    first operand's offset, instants unchanged. -/
theorem alignQ_spec (m : Mode) (a b : TPQ) (ha : a.Valid m) (hb : b.Valid m) :
    ∃ a2 b2, (toTimeZoneQ m b a.tz).bind (normalise24Q m) = some b2 ∧ normalise24Q m a = some a2 ∧
      TPQ.Strict m a2 ∧ TPQ.Strict m b2 ∧ a2.tz = b2.tz ∧ a2.inst m = a.inst m ∧
      b2.inst m = b.inst m ∧ a2.date.rep = a.date.rep := by
  obtain ⟨b1, e1, i1, t1, v1, _⟩ := toTimeZoneQ_spec m b a.tz hb ha.2.1
  obtain ⟨b2, e2, g2⟩ := normalise24Q_spec m b1 v1
  obtain ⟨a2, e3, g3⟩ := normalise24Q_spec m a ha
  refine ⟨a2, b2, by rw [e1, Option.bind_some, e2], e3, ⟨g3.valid, g3.lt24⟩, ⟨g2.valid, g2.lt24⟩,
    ?_, ?_, ?_, g3.rep⟩
  · rw [g3.tz, g2.tz, t1]
  · rw [g3.inst]; grind
  · rw [g2.inst, i1]; grind

/-! ### `get_second_of_day` -/

theorem secOfDayQ_eq (m : Mode) (p : TPQ) : p.secOfDayQ m = p.hms.secs := by
  have c60 : ((60 : Int) : Rat) = 60 := rfl
  have c3600 : ((3600 : Int) : Rat) = 3600 := rfl
  obtain ⟨date, hh, mi, ss, tz⟩ := p
  cases mi <;> cases ss <;>
    simp only [TPQ.secOfDayQ, TPQ.hms, HMS.secs, secondsInMinute_eq, secondsInHour_eq, c60, c3600,
      Option.getD_some, Option.getD_none] <;> grind

theorem strictQ_sod (m : Mode) (p : TPQ) (h : TPQ.Strict m p) : 0 ≤ p.hms.secs ∧ p.hms.secs < 86400 := by
  obtain ⟨⟨_, _, hok⟩, hlt⟩ := h
  obtain ⟨date, hh, mi, ss, tz⟩ := p
  have c24 : ((24 : Int) : Rat) = 24 := rfl
  have c60 : ((60 : Int) : Rat) = 60 := rfl
  have c23 : ((24 - 1 : Int) : Rat) = 23 := rfl
  have c59 : ((60 - 1 : Int) : Rat) = 59 := rfl
  cases mi with
  | none =>
    cases ss with
    | none =>
      simp only [TPQ.hms, HMS.Ok, HMS.secs, Option.getD_none] at hok hlt ⊢
      grind
    | some s => simp [TPQ.hms, HMS.Ok] at hok
  | some mi =>
    cases ss with
    | none =>
      simp only [TPQ.hms, HMS.Ok, HMS.secs, Option.getD_none, Option.getD_some] at hok hlt ⊢
      have := isInt_le_of_lt hok.1 24 (by rw [c24]; exact hlt)
      rw [c23] at this
      grind
    | some s =>
      simp only [TPQ.hms, HMS.Ok, HMS.secs, Option.getD_some] at hok hlt ⊢
      have h1 := isInt_le_of_lt hok.1 24 (by rw [c24]; exact hlt)
      have h2 := isInt_le_of_lt hok.2.1 60 (by rw [c60]; exact hok.2.2.2.2.2.1)
      rw [c23] at h1
      rw [c59] at h2
      grind

/-! ### Python list comparison with a rational last element -/

def cmpRat (s1 s2 : Rat) : Int := if s1 < s2 then -1 else if s1 > s2 then 1 else 0

theorem cmpListQ_cons_int (a b : Int) (as bs : List Rat) :
    cmpListQ ((a : Rat) :: as) ((b : Rat) :: bs) =
      if a < b then -1 else if a > b then 1 else cmpListQ as bs := by
  simp only [cmpListQ, gt_iff_lt, Rat.intCast_lt_intCast]

theorem cmpListQ_last (s1 s2 : Rat) : cmpListQ [s1] [s2] = cmpRat s1 s2 := by
  simp only [cmpListQ, cmpRat]

theorem cmpListQ_cal (y1 mo1 d1 y2 mo2 d2 : Int) (s1 s2 : Rat) :
    cmpListQ [(y1 : Rat), (mo1 : Rat), (d1 : Rat), s1] [(y2 : Rat), (mo2 : Rat), (d2 : Rat), s2] =
      if cmpList [y1, mo1, d1, 0] [y2, mo2, d2, 0] = 0 then cmpRat s1 s2
      else cmpList [y1, mo1, d1, 0] [y2, mo2, d2, 0] := by
  simp only [cmpListQ_cons_int, cmpListQ_last, cmpList, gt_iff_lt, Int.lt_irrefl, ↓reduceIte]
  split
  · simp
  · split
    · simp
    · split
      · simp
      · split
        · simp
        · split
          · simp
          · split <;> simp

theorem cmpListQ_ord (y1 n1 y2 n2 : Int) (s1 s2 : Rat) :
    cmpListQ [(y1 : Rat), (n1 : Rat), s1] [(y2 : Rat), (n2 : Rat), s2] =
      if cmpList [y1, n1, 0] [y2, n2, 0] = 0 then cmpRat s1 s2 else cmpList [y1, n1, 0] [y2, n2, 0] := by
  simp only [cmpListQ_cons_int, cmpListQ_last, cmpList, gt_iff_lt, Int.lt_irrefl, ↓reduceIte]
  split
  · simp
  · split
    · simp
    · split
      · simp
      · split <;> simp

/-- Day number first, then second of day: the sign of the difference of the instants. -/
theorem cmp3Q_eq (na nb : Int) (sa sb x : Rat) (h1 : 0 ≤ sa ∧ sa < 86400) (h2 : 0 ≤ sb ∧ sb < 86400)
    (hx : x = 86400 * ((na : Rat) - (nb : Rat)) + (sa - sb)) :
    (if (if na < nb then (-1 : Int) else if na > nb then 1 else 0) = 0 then cmpRat sa sb
      else (if na < nb then (-1 : Int) else if na > nb then 1 else 0)) = sgnQ x := by
  have c1 : ((1 : Int) : Rat) = 1 := rfl
  unfold sgnQ cmpRat
  by_cases l : na < nb
  · have : (na : Rat) + 1 ≤ (nb : Rat) := by
      rw [← c1, ← Rat.intCast_add, Rat.intCast_le_intCast]; omega
    have hneg : x < 0 := by grind
    simp [l, hneg]
  · by_cases g : na > nb
    · have : (nb : Rat) + 1 ≤ (na : Rat) := by
        rw [← c1, ← Rat.intCast_add, Rat.intCast_le_intCast]; omega
      have hpos : x > 0 := by grind
      have hn : ¬ x < 0 := by grind
      simp [l, g, hpos, hn]
    · have e : na = nb := by omega
      subst e
      have hx' : x = sa - sb := by grind
      simp only [Int.lt_irrefl, gt_iff_lt, ↓reduceIte]
      by_cases a : sa < sb
      · have : x < 0 := by grind
        simp [a, this]
      · by_cases b : sa > sb
        · have h3 : x > 0 := by grind
          have h4 : ¬ x < 0 := by grind
          simp [a, b, h3, h4]
        · have h3 : ¬ x > 0 := by grind
          have h4 : ¬ x < 0 := by grind
          simp [a, b, h3, h4]

theorem instQ_diff (m : Mode) (a b : TPQ) (htz : a.tz = b.tz) :
    a.inst m - b.inst m =
      86400 * (((a.date.dayNum m : Int) : Rat) - ((b.date.dayNum m : Int) : Rat)) + (a.hms.secs - b.hms.secs) := by
  unfold TPQ.inst; rw [htz]; grind

/-! ### `_cmp` -/

theorem cmpQ_spec (m : Mode) (a b : TPQ) (ha : a.Valid m) (hb : b.Valid m) :
    cmpQ m a b = some (sgnQ (a.inst m - b.inst m)) := by
  unfold cmpQ
  by_cases c : a = b
  · subst c
    have : a.inst m - a.inst m = 0 := by grind
    rw [if_pos rfl, this]; rfl
  · rw [if_neg c]
    obtain ⟨a2, b2, eb, ea, sa, sb, htz, ia, ib, _⟩ := alignQ_spec m a b ha hb
    cases h1 : toTimeZoneQ m b a.tz with
    | none => rw [h1] at eb; simp at eb
    | some b1 =>
      rw [h1, Option.bind_some] at eb
      simp only [Option.bind_eq_bind, Option.bind_some, eb, ea]
      have sda := strictQ_sod m a2 sa
      have sdb := strictQ_sod m b2 sb
      have hd := instQ_diff m a2 b2 htz
      rw [← ia, ← ib]
      have krep : (if a2.date.rep = 0 then 0 else 1) < 3 := by split <;> omega
      obtain ⟨ra, ea', va, rra, na⟩ := convert_spec m _ krep a2.date sa.1.1
      obtain ⟨rb, eb', vb, rrb, nb⟩ := convert_spec m _ krep b2.date sb.1.1
      rw [ea', eb']
      by_cases k0 : a2.date.rep = 0
      · simp only [k0, ↓reduceIte] at rra rrb
        obtain ⟨y1, mo1, d1, e1⟩ := rep0_cal ra rra
        obtain ⟨y2, mo2, d2, e2⟩ := rep0_cal rb rrb
        subst e1 e2
        simp only
        rw [cmpListQ_cal, cmpList_cal m _ _ _ _ _ _ _ _ va vb, secOfDayQ_eq, secOfDayQ_eq]
        simp only [Int.lt_irrefl, gt_iff_lt, ↓reduceIte]
        exact congrArg some (cmp3Q_eq _ _ _ _ _ sda sdb (by rw [hd, ← na, ← nb]; rfl))
      · simp only [k0, ↓reduceIte] at rra rrb
        obtain ⟨y1, n1, e1⟩ := rep1_ord ra rra
        obtain ⟨y2, n2, e2⟩ := rep1_ord rb rrb
        subst e1 e2
        simp only
        rw [cmpListQ_ord, cmpList_ord m _ _ _ _ _ _ va vb, secOfDayQ_eq, secOfDayQ_eq]
        simp only [Int.lt_irrefl, gt_iff_lt, ↓reduceIte]
        exact congrArg some (cmp3Q_eq _ _ _ _ _ sda sdb (by rw [hd, ← na, ← nb]; rfl))

/-! ### `get_hour_minute_second` -/

theorem truncQ_nonneg {x : Rat} (h : 0 ≤ x) :
    0 ≤ truncQ x ∧ (truncQ x : Rat) ≤ x ∧ x < (truncQ x : Rat) + 1 := by
  have hn : ¬ x < 0 := Rat.not_lt.2 h
  unfold truncQ; rw [if_neg hn]
  exact ⟨Rat.le_floor_iff.2 (by simpa using h), Rat.floor_le x, by simpa using Rat.lt_floor_add_one x⟩

/-- One expansion step of `get_hour_minute_second`: `int(x)` and `60 * (x - int(x))`. -/
theorem expand_step (x : Rat) (n : Int) (h0 : 0 ≤ x) (h1 : x < (n : Rat)) :
    0 ≤ truncQ x ∧ truncQ x ≤ n - 1 ∧ 0 ≤ 60 * (x - (truncQ x : Rat)) ∧ 60 * (x - (truncQ x : Rat)) < 60 := by
  obtain ⟨a, b, c⟩ := truncQ_nonneg h0
  have : (truncQ x : Rat) < (n : Rat) := by grind
  rw [Rat.intCast_lt_intCast] at this
  refine ⟨a, by omega, by grind, by grind⟩

theorem int_of_cast_bounds (H : Int) (n : Int) (h0 : 0 ≤ (H : Rat)) (h1 : (H : Rat) < (n : Rat)) :
    0 ≤ H ∧ H ≤ n - 1 := by
  have c0 : ((0 : Int) : Rat) = 0 := rfl
  rw [← c0, Rat.intCast_le_intCast] at h0
  rw [Rat.intCast_lt_intCast] at h1
  omega

theorem hmsQ_spec (m : Mode) (p : TPQ) (h : TPQ.Strict m p) :
    ∃ (H M : Int) (S : Rat), hmsQ m p = some ((H : Rat), (M : Rat), S) ∧ 0 ≤ H ∧ H ≤ 23 ∧ 0 ≤ M ∧
      M ≤ 59 ∧ 0 ≤ S ∧ S < 60 ∧ 3600 * (H : Rat) + 60 * (M : Rat) + S = p.hms.secs := by
  obtain ⟨⟨_, _, hok⟩, hlt⟩ := h
  obtain ⟨date, hh, mi, ss, tz⟩ := p
  have c24 : ((24 : Int) : Rat) = 24 := rfl
  have c60 : ((60 : Int) : Rat) = 60 := rfl
  cases mi with
  | none =>
    cases ss with
    | some s => simp [TPQ.hms, HMS.Ok] at hok
    | none =>
      simp only [TPQ.hms, HMS.Ok] at hok hlt
      obtain ⟨a1, a2, a3, a4⟩ := expand_step hh 24 hok.1 (by rw [c24]; exact hlt)
      obtain ⟨b1, b2, b3, b4⟩ := expand_step (60 * (hh - (truncQ hh : Rat))) 60 a3 (by rw [c60]; exact a4)
      refine ⟨truncQ hh, truncQ (60 * (hh - (truncQ hh : Rat))), _, ?_, a1, by omega, b1, by omega, b3, b4, ?_⟩
      · simp only [hmsQ, minutesInHour_eq, secondsInMinute_eq, c60]
      · simp only [TPQ.hms, HMS.secs, Option.getD_none]; grind
  | some mi =>
    cases ss with
    | none =>
      simp only [TPQ.hms, HMS.Ok] at hok hlt
      obtain ⟨i1, h0, _, m0, m1, _⟩ := hok
      have e := i1.eq_intCast
      generalize hh.num = H at e
      subst e
      obtain ⟨g1, g2⟩ := int_of_cast_bounds H 24 h0 (by rw [c24]; exact hlt)
      obtain ⟨b1, b2, b3, b4⟩ := expand_step mi 60 m0 (by rw [c60]; exact m1)
      refine ⟨H, truncQ mi, _, ?_, g1, by omega, b1, by omega, b3, b4, ?_⟩
      · simp only [hmsQ, secondsInMinute_eq, c60]
      · simp only [TPQ.hms, HMS.secs, Option.getD_none, Option.getD_some]; grind
    | some s =>
      simp only [TPQ.hms, HMS.Ok] at hok hlt
      obtain ⟨i1, i2, h0, _, m0, m1, s0, s1, _⟩ := hok
      have e := i1.eq_intCast
      generalize hh.num = H at e
      subst e
      have e := i2.eq_intCast
      generalize mi.num = M at e
      subst e
      obtain ⟨g1, g2⟩ := int_of_cast_bounds H 24 h0 (by rw [c24]; exact hlt)
      obtain ⟨g3, g4⟩ := int_of_cast_bounds M 60 m0 (by rw [c60]; exact m1)
      refine ⟨H, M, s, ?_, g1, by omega, g3, by omega, s0, s1, ?_⟩
      · simp only [hmsQ, Option.map_some]
      · simp only [TPQ.hms, HMS.secs, Option.getD_some]

theorem int_eq_zero_of_cast (k : Int) (h1 : -1 < (k : Rat)) (h2 : (k : Rat) < 1) : k = 0 := by
  have c1 : ((1 : Int) : Rat) = 1 := rfl
  have cm1 : ((-1 : Int) : Rat) = -1 := rfl
  rw [← cm1, Rat.intCast_lt_intCast] at h1
  rw [← c1, Rat.intCast_lt_intCast] at h2
  omega

/-- (hour, minute, second) with whole hour and minute, minute and second in range, is determined
    by the second of day. -/
theorem hmsQ_unique (H1 M1 H2 M2 : Int) (S1 S2 : Rat) (a : 0 ≤ M1 ∧ M1 ≤ 59 ∧ 0 ≤ S1 ∧ S1 < 60)
    (b : 0 ≤ M2 ∧ M2 ≤ 59 ∧ 0 ≤ S2 ∧ S2 < 60)
    (e : 3600 * (H1 : Rat) + 60 * (M1 : Rat) + S1 = 3600 * (H2 : Rat) + 60 * (M2 : Rat) + S2) :
    H1 = H2 ∧ M1 = M2 ∧ S1 = S2 := by
  have ck : ((60 * (H2 - H1) + (M2 - M1) : Int) : Rat) = 60 * ((H2 : Rat) - (H1 : Rat)) + ((M2 : Rat) - (M1 : Rat)) := by
    simp only [Rat.intCast_add, Rat.intCast_sub, Rat.intCast_mul]; rfl
  have hk := int_eq_zero_of_cast (60 * (H2 - H1) + (M2 - M1)) (by rw [ck]; grind) (by rw [ck]; grind)
  have hm : M1 = M2 := by omega
  have hh : H1 = H2 := by omega
  subst hm hh
  exact ⟨rfl, rfl, by grind⟩

/-- (day number, second of day in `[0, 86400)`) is determined by the instant. -/
theorem day_sod_unique (n1 n2 : Int) (s1 s2 : Rat) (a : 0 ≤ s1 ∧ s1 < 86400) (b : 0 ≤ s2 ∧ s2 < 86400)
    (e : 86400 * (n1 : Rat) + s1 = 86400 * (n2 : Rat) + s2) : n1 = n2 ∧ s1 = s2 := by
  have ck : ((n1 - n2 : Int) : Rat) = (n1 : Rat) - (n2 : Rat) := Rat.intCast_sub _ _
  have hk := int_eq_zero_of_cast (n1 - n2) (by rw [ck]; grind) (by rw [ck]; grind)
  have hn : n1 = n2 := by omega
  subst hn
  exact ⟨rfl, by grind⟩

/-! ### `__hash__` -/

theorem hashKeyQ_some (m : Mode) (p : TPQ) (hv : p.Valid m) :
    ∃ (y mo d H M : Int) (S : Rat),
      hashKeyQ m p = some [(y : Rat), (mo : Rat), (d : Rat), (H : Rat), (M : Rat), S] ∧
      Spec.ValidCal m y mo d ∧ (0 ≤ H ∧ H ≤ 23) ∧ (0 ≤ M ∧ M ≤ 59 ∧ 0 ≤ S ∧ S < 60) ∧
      86400 * ((Spec.dayNumCal m y mo d : Int) : Rat) + (3600 * (H : Rat) + 60 * (M : Rat) + S) = p.inst m := by
  obtain ⟨u, e1, i1, t1, v1, _⟩ := toTimeZoneQ_spec m p ⟨0, 0⟩ hv utc_valid
  obtain ⟨u2, e2, g2⟩ := normalise24Q_spec m u v1
  have su : TPQ.Strict m u2 := ⟨g2.valid, g2.lt24⟩
  obtain ⟨H, M, S, e4, h0, h1, m0, m1, s0, s1, hs⟩ := hmsQ_spec m u2 su
  obtain ⟨r, e3, v3, r3, n3⟩ := convert_spec m 0 (by omega) u2.date g2.valid.1
  obtain ⟨y, mo, d, er⟩ := rep0_cal r r3
  subst er
  refine ⟨y, mo, d, H, M, S, ?_, v3, ⟨h0, h1⟩, ⟨m0, m1, s0, s1⟩, ?_⟩
  · unfold hashKeyQ toUtcQ
    simp only [e1, Option.bind_eq_bind, Option.bind_some, e2, e3, e4]
  · have n3' : Spec.dayNumCal m y mo d = u2.date.dayNum m := n3
    have hi := g2.inst
    have ht : u2.tz = ⟨0, 0⟩ := by rw [g2.tz, t1]
    have c0 : (((⟨0, 0⟩ : TZ).seconds : Int) : Rat) = 0 := rfl
    rw [n3', hs, ← i1]
    simp only [TPQ.inst, ht, c0] at hi ⊢
    grind

theorem hashKeyQ_eq_of_inst_eq (m : Mode) (p q : TPQ) (hp : p.Valid m) (hq : q.Valid m)
    (h : p.inst m = q.inst m) : hashKeyQ m p = hashKeyQ m q ∧ (hashKeyQ m p).isSome := by
  obtain ⟨y1, mo1, d1, H1, M1, S1, e1, v1, hb1, mb1, i1⟩ := hashKeyQ_some m p hp
  obtain ⟨y2, mo2, d2, H2, M2, S2, e2, v2, hb2, mb2, i2⟩ := hashKeyQ_some m q hq
  have c23 : ((23 : Int) : Rat) = 23 := rfl
  have c59 : ((59 : Int) : Rat) = 59 := rfl
  have c0 : ((0 : Int) : Rat) = 0 := rfl
  have sod (H M : Int) (S : Rat) (hb : 0 ≤ H ∧ H ≤ 23) (mb : 0 ≤ M ∧ M ≤ 59 ∧ 0 ≤ S ∧ S < 60) :
      0 ≤ 3600 * (H : Rat) + 60 * (M : Rat) + S ∧ 3600 * (H : Rat) + 60 * (M : Rat) + S < 86400 := by
    have a1 := Rat.intCast_le_intCast.2 hb.1
    have a2 := Rat.intCast_le_intCast.2 hb.2
    have a3 := Rat.intCast_le_intCast.2 mb.1
    have a4 := Rat.intCast_le_intCast.2 mb.2.1
    rw [c0] at a1 a3
    rw [c23] at a2
    rw [c59] at a4
    grind
  obtain ⟨hd, hs⟩ := day_sod_unique _ _ _ _ (sod H1 M1 S1 hb1 mb1) (sod H2 M2 S2 hb2 mb2)
    (by rw [i1, i2, h])
  obtain ⟨ey, emo, ed⟩ := cal_unique m _ _ _ _ _ _ v1 v2 hd
  obtain ⟨eh, em, es⟩ := hmsQ_unique H1 M1 H2 M2 S1 S2 mb1 mb2 hs
  rw [e1, e2, ey, emo, ed, eh, em, es]
  exact ⟨rfl, rfl⟩

/-! ### `__sub__(TimePoint)` -/

theorem cast_sub_one (k : Int) : (k : Rat) - 1 = ((k - 1 : Int) : Rat) := by
  rw [Rat.intCast_sub]; rfl

theorem cast_lt_zero (k : Int) : ((k : Rat) < 0) ↔ k < 0 := by
  have c0 : ((0 : Int) : Rat) = 0 := rfl
  rw [← c0, Rat.intCast_lt_intCast]

theorem ite_cast (c : Prop) [Decidable c] (a b : Int) :
    (if c then (a : Rat) else (b : Rat)) = ((if c then a else b : Int) : Rat) := by
  split <;> rfl

/-- The borrow chain on whole-number hour and minute differences: the carries are the integer
    model's. -/
theorem borrowQ_int (m : Mode) (dd dh dm : Int) (ds : Rat) :
    borrowQ m dd (dh : Rat) (dm : Rat) ds =
      ⟨(if (if (if ds < 0 then dm - 1 else dm) < 0 then dh - 1 else dh) < 0 then dd - 1 else dd),
       ((if (if (if ds < 0 then dm - 1 else dm) < 0 then dh - 1 else dh) < 0 then
          (if (if ds < 0 then dm - 1 else dm) < 0 then dh - 1 else dh) + 24
          else (if (if ds < 0 then dm - 1 else dm) < 0 then dh - 1 else dh) : Int) : Rat),
       ((if (if ds < 0 then dm - 1 else dm) < 0 then (if ds < 0 then dm - 1 else dm) + 60
          else (if ds < 0 then dm - 1 else dm) : Int) : Rat),
       (if ds < 0 then ds + 60 else ds)⟩ := by
  have c60 : ((60 : Int) : Rat) = 60 := rfl
  simp only [borrowQ, secondsInMinute_eq, minutesInHour_eq, hoursInDay_eq]
  simp only [cast_sub_one, ite_cast, cast_lt_zero, ← Rat.intCast_add]
  rw [c60]

theorem borrowQ_spec (m : Mode) (dd1 H1 M1 H2 M2 : Int) (S1 S2 : Rat)
    (hb1 : 0 ≤ H1 ∧ H1 ≤ 23) (mb1 : 0 ≤ M1 ∧ M1 ≤ 59 ∧ 0 ≤ S1 ∧ S1 < 60)
    (hb2 : 0 ≤ H2 ∧ H2 ≤ 23) (mb2 : 0 ≤ M2 ∧ M2 ≤ 59 ∧ 0 ≤ S2 ∧ S2 < 60) :
    ∃ (dd hI mI : Int) (s : Rat),
      borrowQ m dd1 ((H1 : Rat) - (H2 : Rat)) ((M1 : Rat) - (M2 : Rat)) (S1 - S2) =
        ⟨dd, (hI : Rat), (mI : Rat), s⟩ ∧
      86400 * (dd : Rat) + 3600 * (hI : Rat) + 60 * (mI : Rat) + s =
        86400 * (dd1 : Rat) + (3600 * (H1 : Rat) + 60 * (M1 : Rat) + S1) -
          (3600 * (H2 : Rat) + 60 * (M2 : Rat) + S2) ∧
      0 ≤ hI ∧ hI < 24 ∧ 0 ≤ mI ∧ mI < 60 ∧ 0 ≤ s ∧ s < 60 := by
  have c1 : ((1 : Int) : Rat) = 1 := rfl
  have c24 : ((24 : Int) : Rat) = 24 := rfl
  have c60 : ((60 : Int) : Rat) = 60 := rfl
  rw [← Rat.intCast_sub, ← Rat.intCast_sub, borrowQ_int]
  by_cases hs : S1 - S2 < 0
  · simp only [hs, ↓reduceIte]
    refine ⟨_, _, _, _, rfl, ?_, ?_, ?_, ?_, ?_, by grind, by grind⟩
    · by_cases hm : M1 - M2 - 1 < 0 <;> simp only [hm, ↓reduceIte]
      · by_cases hh : H1 - H2 - 1 < 0 <;> simp only [hh, ↓reduceIte] <;>
          simp only [Rat.intCast_add, Rat.intCast_sub, c1, c24, c60] <;> grind
      · by_cases hh : H1 - H2 < 0 <;> simp only [hh, ↓reduceIte] <;>
          simp only [Rat.intCast_add, Rat.intCast_sub, c1, c24] <;> grind
    all_goals ((repeat' split) <;> omega)
  · simp only [hs, ↓reduceIte]
    refine ⟨_, _, _, _, rfl, ?_, ?_, ?_, ?_, ?_, by grind, by grind⟩
    · by_cases hm : M1 - M2 < 0 <;> simp only [hm, ↓reduceIte]
      · by_cases hh : H1 - H2 - 1 < 0 <;> simp only [hh, ↓reduceIte] <;>
          simp only [Rat.intCast_add, Rat.intCast_sub, c1, c24, c60] <;> grind
      · by_cases hh : H1 - H2 < 0 <;> simp only [hh, ↓reduceIte] <;>
          simp only [Rat.intCast_add, Rat.intCast_sub, c1, c24] <;> grind
    all_goals ((repeat' split) <;> omega)

theorem dayDiff_eq (m : Mode) (y1 n1 y2 n2 : Int) :
    (if y1 > y2 then n1 - n2 + daysInYearRange m y2 (y1 - 1) else n1 - n2 - daysInYearRange m y1 (y2 - 1)) =
      Spec.dayNumOrd m y1 n1 - Spec.dayNumOrd m y2 n2 := by
  simp only [daysInYearRange_eq]
  unfold Spec.dayNumOrd
  have e1 : y1 - 1 + 1 = y1 := by omega
  have e2 : y2 - 1 + 1 = y2 := by omega
  rw [e1, e2]
  have hyy : y1 = y2 → Spec.dby m y1 = Spec.dby m y2 := fun h => by rw [h]
  split <;> split <;> omega

theorem subCoreQ_spec (m : Mode) (a b : TPQ) (ha : a.Valid m) (hb : b.Valid m) :
    ∃ (dd hI mI : Int) (s : Rat), subCoreQ m a b = some ⟨dd, (hI : Rat), (mI : Rat), s⟩ ∧
      86400 * (dd : Rat) + 3600 * (hI : Rat) + 60 * (mI : Rat) + s = a.inst m - b.inst m ∧
      0 ≤ hI ∧ hI < 24 ∧ 0 ≤ mI ∧ mI < 60 ∧ 0 ≤ s ∧ s < 60 := by
  obtain ⟨a2, b2, eb, ea, sa, sb, htz, ia, ib, _⟩ := alignQ_spec m a b ha hb
  cases h1 : toTimeZoneQ m b a.tz with
  | none => rw [h1] at eb; simp at eb
  | some b1 =>
    rw [h1, Option.bind_some] at eb
    have hd := instQ_diff m a2 b2 htz
    obtain ⟨ra, ea', va, rra, na⟩ := convert_spec m 1 (by omega) a2.date sa.1.1
    obtain ⟨rb, eb', vb, rrb, nb⟩ := convert_spec m 1 (by omega) b2.date sb.1.1
    obtain ⟨y1, n1, e1⟩ := rep1_ord ra rra
    obtain ⟨y2, n2, e2⟩ := rep1_ord rb rrb
    subst e1 e2
    have na' : Spec.dayNumOrd m y1 n1 = a2.date.dayNum m := na
    have nb' : Spec.dayNumOrd m y2 n2 = b2.date.dayNum m := nb
    obtain ⟨H1, M1, S1, t1, hb1, hb1', mb1, mb1', sb1, sb1', hs1⟩ := hmsQ_spec m a2 sa
    obtain ⟨H2, M2, S2, t2, hb2, hb2', mb2, mb2', sb2, sb2', hs2⟩ := hmsQ_spec m b2 sb
    unfold subCoreQ
    simp only [h1, Option.bind_eq_bind, Option.bind_some, eb, ea, ea', eb', t1, t2, dayDiff_eq]
    obtain ⟨dd, hI, mI, s, e, hl, r⟩ := borrowQ_spec m (Spec.dayNumOrd m y1 n1 - Spec.dayNumOrd m y2 n2)
      H1 M1 H2 M2 S1 S2 ⟨hb1, hb1'⟩ ⟨mb1, mb1', sb1, sb1'⟩ ⟨hb2, hb2'⟩ ⟨mb2, mb2', sb2, sb2'⟩
    refine ⟨dd, hI, mI, s, congrArg some e, ?_, r⟩
    rw [hl, ← ia, ← ib, hd, hs1, hs2, na', nb', Rat.intCast_sub]
    grind

theorem neg_mul_cast (x : Int) : (x : Rat) * (((-1 : Int) : Int) : Rat) = ((x * -1 : Int) : Rat) := by
  rw [Rat.intCast_mul]

theorem subTPQ_spec (m : Mode) (a b : TPQ) (ha : a.Valid m) (hb : b.Valid m) :
    ∃ (dd hI mI : Int) (s : Rat), subTPQ m a b = some ⟨dd, (hI : Rat), (mI : Rat), s⟩ ∧
      86400 * (dd : Rat) + 3600 * (hI : Rat) + 60 * (mI : Rat) + s = a.inst m - b.inst m ∧
      (-24 < hI ∧ hI < 24 ∧ -60 < mI ∧ mI < 60 ∧ -60 < s ∧ s < 60) ∧
      ((0 ≤ dd ∧ 0 ≤ hI ∧ 0 ≤ mI ∧ 0 ≤ s) ∨ (dd ≤ 0 ∧ hI ≤ 0 ∧ mI ≤ 0 ∧ s ≤ 0)) := by
  have c0 : ((0 : Int) : Rat) = 0 := rfl
  have c23 : ((23 : Int) : Rat) = 23 := rfl
  have c59 : ((59 : Int) : Rat) = 59 := rfl
  have cm1 : ((-1 : Int) : Rat) = -1 := rfl
  -- the day count of a non-negative difference is non-negative
  have dpos (dd hI mI : Int) (s x : Rat) (hl : 86400 * (dd : Rat) + 3600 * (hI : Rat) + 60 * (mI : Rat) + s = x)
      (r : 0 ≤ hI ∧ hI < 24 ∧ 0 ≤ mI ∧ mI < 60 ∧ 0 ≤ s ∧ s < 60) (hx : 0 ≤ x) : 0 ≤ dd := by
    have a2 := Rat.intCast_le_intCast.2 (show hI ≤ 23 by omega)
    have a4 := Rat.intCast_le_intCast.2 (show mI ≤ 59 by omega)
    rw [c23] at a2
    rw [c59] at a4
    have : (-1 : Rat) < (dd : Rat) := by grind
    rw [← cm1, Rat.intCast_lt_intCast] at this
    omega
  unfold subTPQ
  rw [cmpQ_spec m b a hb ha]
  simp only [Option.bind_eq_bind, Option.bind_some]
  by_cases c : sgnQ (b.inst m - a.inst m) > 0
  · rw [if_pos c]
    obtain ⟨dd, hI, mI, s, e, hl, r⟩ := subCoreQ_spec m b a hb ha
    rw [e]
    have hpos : b.inst m - a.inst m > 0 := (sgnQ_pos_iff _).1 c
    have hd := dpos dd hI mI s _ hl r (by grind)
    refine ⟨dd * -1, hI * -1, mI * -1, s * -1, ?_, ?_, ⟨by omega, by omega, by omega, by omega, by grind, by grind⟩,
      Or.inr ⟨by omega, by omega, by omega, by grind⟩⟩
    · simp only [Option.map_some, DurQ.neg, DurQ.mul, Rat.intCast_mul, cm1]
    · simp only [Rat.intCast_mul, cm1]; grind
  · rw [if_neg c]
    obtain ⟨dd, hI, mI, s, e, hl, r⟩ := subCoreQ_spec m a b ha hb
    rw [e]
    have hge : ¬ (b.inst m - a.inst m > 0) := fun h => c ((sgnQ_pos_iff _).2 h)
    have hd := dpos dd hI mI s _ hl r (by grind)
    exact ⟨dd, hI, mI, s, rfl, hl, ⟨by omega, by omega, by omega, by omega, by grind, by grind⟩,
      Or.inl ⟨hd, by omega, by omega, by grind⟩⟩

/-! ### the rational model extends the whole-second model -/

/-- The exact units of a whole-number `Duration` (years and months dropped; `to_days` on weeks). -/
def durQOf : Dur → DurQ
  | .units _ _ d h mi s => ⟨d, (h : Rat), (mi : Rat), (s : Rat)⟩
  | .weeks w => ⟨7 * w, 0, 0, 0⟩

theorem ofTP_inj (a b : TP) : TPQ.ofTP a = TPQ.ofTP b ↔ a = b := by
  obtain ⟨d1, h1, m1, s1, z1⟩ := a
  obtain ⟨d2, h2, m2, s2, z2⟩ := b
  simp only [TPQ.ofTP, TPQ.mk.injEq, Option.some.injEq, Rat.intCast_inj, TP.mk.injEq]

theorem addUnits_eq_addDur (m : Mode) (p : TP) (d h mi s : Int) :
    addDur m p (.units 0 0 d h mi s) = addUnits m p d h mi s := by
  cases e : addUnits m p d h mi s <;> simp [addDur, Dur.toDays, e, addMonths, addYears]

theorem toTimeZoneQ_ofTP (m : Mode) (p : TP) (z : TZ) :
    toTimeZoneQ m (TPQ.ofTP p) z = (toTimeZone m p z).map TPQ.ofTP := by
  unfold toTimeZoneQ toTimeZone
  have ht : (TPQ.ofTP p).tz = p.tz := rfl
  rw [ht]
  by_cases c : z.h = p.tz.h ∧ z.mi = p.tz.mi
  · rw [if_pos c, if_pos c]; rfl
  · rw [if_neg c, if_neg c, addUnits_eq_addDur]
    have e := addExactQ_ofTP m p 0 (z.h - p.tz.h) (z.mi - p.tz.mi) 0
    have c0 : ((0 : Int) : Rat) = 0 := rfl
    rw [c0] at e
    rw [e]
    cases addUnits m p 0 (z.h - p.tz.h) (z.mi - p.tz.mi) 0 <;> rfl

theorem secOfDayQ_ofTP (m : Mode) (p : TP) : (TPQ.ofTP p).secOfDayQ m = ((p.secOfDay : Int) : Rat) := by
  rw [secOfDayQ_eq]
  simp only [TPQ.hms, TPQ.ofTP, HMS.secs, Option.getD_some, TP.secOfDay, Rat.intCast_add, Rat.intCast_mul]
  rfl

theorem cmpListQ_map (l1 l2 : List Int) :
    cmpListQ (l1.map fun (x : Int) => (x : Rat)) (l2.map fun (x : Int) => (x : Rat)) = cmpList l1 l2 := by
  induction l1 generalizing l2 with
  | nil => cases l2 <;> rfl
  | cons a as ih =>
    cases l2 with
    | nil => rfl
    | cons b bs =>
      simp only [List.map_cons, cmpListQ_cons_int, cmpList, ih]

theorem cmpQ_ofTP (m : Mode) (a b : TP) : cmpQ m (TPQ.ofTP a) (TPQ.ofTP b) = cmp m a b := by
  unfold cmpQ cmp
  by_cases c : a = b
  · rw [if_pos c, if_pos ((ofTP_inj a b).2 c)]
  · rw [if_neg c, if_neg (fun h => c ((ofTP_inj a b).1 h))]
    have ht : (TPQ.ofTP a).tz = a.tz := rfl
    simp only [Option.bind_eq_bind, ht, toTimeZoneQ_ofTP, normalise24Q_ofTP, ofTP_map_bind]
    cases toTimeZone m b a.tz with
    | none => rfl
    | some b1 =>
      simp only [Option.bind_some]
      cases normalise24 m b1 with
      | none => rfl
      | some b2 =>
        simp only [Option.bind_some]
        cases normalise24 m a with
        | none => rfl
        | some a2 =>
          simp only [Option.bind_some, secOfDayQ_ofTP]
          have hda : (TPQ.ofTP a2).date = a2.date := rfl
          have hdb : (TPQ.ofTP b2).date = b2.date := rfl
          rw [hda, hdb]
          generalize convert m (if a2.date.rep = 0 then 0 else 1) a2.date = ca
          generalize convert m (if a2.date.rep = 0 then 0 else 1) b2.date = cb
          rcases ca with _ | (⟨y1, mo1, d1⟩ | ⟨y1, n1⟩ | ⟨y1, w1, d1⟩) <;>
            rcases cb with _ | (⟨y2, mo2, d2⟩ | ⟨y2, n2⟩ | ⟨y2, w2, d2⟩) <;> try rfl
          · exact congrArg some (cmpListQ_map [y1, mo1, d1, a2.secOfDay] [y2, mo2, d2, b2.secOfDay])
          · exact congrArg some (cmpListQ_map [y1, n1, a2.secOfDay] [y2, n2, b2.secOfDay])

theorem hmsQ_ofTP (m : Mode) (p : TP) :
    hmsQ m (TPQ.ofTP p) = some ((p.hh : Rat), (p.mi : Rat), (p.ss : Rat)) := rfl

theorem hashKeyQ_ofTP (m : Mode) (p : TP) :
    hashKeyQ m (TPQ.ofTP p) = (hashKey m p).map (List.map fun (x : Int) => (x : Rat)) := by
  unfold hashKeyQ hashKey toUtcQ toUtc
  simp only [Option.bind_eq_bind, toTimeZoneQ_ofTP, normalise24Q_ofTP, ofTP_map_bind]
  cases toTimeZone m p ⟨0, 0⟩ with
  | none => rfl
  | some u =>
    simp only [Option.bind_some]
    cases normalise24 m u with
    | none => rfl
    | some u2 =>
      simp only [Option.bind_some, hmsQ_ofTP]
      have hd : (TPQ.ofTP u2).date = u2.date := rfl
      rw [hd]
      generalize convert m 0 u2.date = cu
      rcases cu with _ | (⟨y1, mo1, d1⟩ | ⟨y1, n1⟩ | ⟨y1, w1, d1⟩) <;> rfl

theorem subCoreQ_ofTP (m : Mode) (a b : TP) :
    subCoreQ m (TPQ.ofTP a) (TPQ.ofTP b) = (subCore m a b).map durQOf := by
  unfold subCoreQ subCore
  have ht : (TPQ.ofTP a).tz = a.tz := rfl
  simp only [Option.bind_eq_bind, ht, toTimeZoneQ_ofTP, normalise24Q_ofTP, ofTP_map_bind]
  cases toTimeZone m b a.tz with
  | none => rfl
  | some b1 =>
    simp only [Option.bind_some]
    cases normalise24 m b1 with
    | none => rfl
    | some b2 =>
      simp only [Option.bind_some]
      cases normalise24 m a with
      | none => rfl
      | some a2 =>
        simp only [Option.bind_some, hmsQ_ofTP]
        have hda : (TPQ.ofTP a2).date = a2.date := rfl
        have hdb : (TPQ.ofTP b2).date = b2.date := rfl
        rw [hda, hdb]
        generalize convert m 1 a2.date = ca
        generalize convert m 1 b2.date = cb
        rcases ca with _ | (⟨y1, mo1, d1⟩ | ⟨y1, n1⟩ | ⟨y1, w1, d1⟩) <;>
          rcases cb with _ | (⟨y2, mo2, d2⟩ | ⟨y2, n2⟩ | ⟨y2, w2, d2⟩) <;> try rfl
        simp only [Option.map_some, durQOf, ← Rat.intCast_sub, borrowQ_int, cast_lt_zero,
          secondsInMinute_eq, minutesInHour_eq, hoursInDay_eq]
        have c60 : ((60 : Int) : Rat) = 60 := rfl
        rw [← c60, ← Rat.intCast_add, ite_cast]

theorem durQOf_neg (d : Dur) : durQOf d.neg = (durQOf d).neg := by
  have cm1 : (((-1 : Int) : Int) : Rat) = -1 := rfl
  cases d with
  | weeks w =>
    simp only [Dur.neg, Dur.mul, durQOf, DurQ.neg, DurQ.mul, Rat.zero_mul, DurQ.mk.injEq, and_true]
    omega
  | units y mo d h mi s =>
    simp only [Dur.neg, Dur.mul, durQOf, DurQ.neg, DurQ.mul, Rat.intCast_mul]

theorem subTPQ_ofTP (m : Mode) (a b : TP) :
    subTPQ m (TPQ.ofTP a) (TPQ.ofTP b) = (subTP m a b).map durQOf := by
  unfold subTPQ subTP
  simp only [Option.bind_eq_bind, cmpQ_ofTP, subCoreQ_ofTP]
  cases cmp m b a with
  | none => rfl
  | some c =>
    simp only [Option.bind_some]
    by_cases h : c > 0
    · rw [if_pos h, if_pos h, Option.map_map, Option.map_map]
      cases subCore m b a with
      | none => rfl
      | some d => simp only [Option.map_some, Function.comp, durQOf_neg]
    · rw [if_neg h, if_neg h]

end IsoDT.Lemmas
