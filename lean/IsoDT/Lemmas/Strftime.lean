/-
  IsoDT.Lemmas.Strftime

  Part 1 (`namespace IsoDT.Spec.Posix`) is *specification*, meant to be read: the POSIX meaning of the
  eleven supported strftime conversions on the civil (calendar) date-time fields of a time point, over a
  fixed-width decimal renderer; what a format "over the supported directives and literal text" is; when a
  format determines a full date, time and zone.  Nothing in part 1 refers to `Gen` or `Model`.

  Part 2 (`namespace IsoDT.Lemmas.Strf`) relates the executable model (`Model/Strftime.lean`, over the
  regenerated `Gen.Strftime` tables) to part 1.
-/
import IsoDT.Model.Strftime
import IsoDT.Lemmas.Cmp

/-! # Part 1 — specification -/

namespace IsoDT.Spec.Posix
open IsoDT IsoDT.Spec

/-- The decimal digit `d` as a character. -/
def dch (d : Nat) : Char := Char.ofNat (48 + d)

/-- Exactly `w` decimal digits: `v mod 10^w`, most significant digit first. -/
def render : Nat → Nat → List Char
  | 0, _ => []
  | w + 1, v => render w (v / 10) ++ [dch (v % 10)]

/-- Decimal notation of a natural number, no leading zeros. -/
def decimal (n : Nat) : List Char :=
  if n < 10 then [dch n] else decimal (n / 10) ++ [dch (n % 10)]
decreasing_by omega

/-- Decimal notation of an integer. -/
def decimalInt (z : Int) : List Char :=
  if z < 0 then '-' :: decimal z.natAbs else decimal z.toNat

/-- The civil date-time a conversion specification looks at (`struct tm` plus the UTC offset in
    minutes east of Greenwich and the Unix time of the instant). -/
structure Civil where
  year : Int
  month : Int
  day : Int
  yday : Int
  hour : Int
  minute : Int
  second : Int
  utcOff : Int
  unix : Int

/-- Instant of 1970-01-01T00:00:00Z in the mode's calendar. -/
def epochInst (m : Mode) : Int := 86400 * dayNumCal m 1970 1 1

/-- `c` is the civil date-time of `p`: the calendar date with `p`'s day number (whatever
    representation `p` keeps), its day of the year, `p`'s clock fields and offset, and the number of
    seconds from the Unix epoch to `p`'s instant. -/
def IsCivil (m : Mode) (p : TP) (c : Civil) : Prop :=
  ValidCal m c.year c.month c.day ∧ dayNumCal m c.year c.month c.day = p.date.dayNum m ∧
  c.yday = p.date.dayNum m - dby m c.year + 1 ∧
  c.hour = p.hh ∧ c.minute = p.mi ∧ c.second = p.ss ∧ c.utcOff = 60 * p.tz.h + p.tz.mi ∧
  c.unix = p.inst m - epochInst m

/-- The supported conversion specifications. -/
inductive Dir where
  | Y | m | d | j | H | M | S | F | X | z | s
  deriving DecidableEq, Repr

def Dir.toChar : Dir → Char
  | .Y => 'Y' | .m => 'm' | .d => 'd' | .j => 'j' | .H => 'H' | .M => 'M' | .S => 'S'
  | .F => 'F' | .X => 'X' | .z => 'z' | .s => 's'

def Dir.all : List Dir := [.Y, .m, .d, .j, .H, .M, .S, .F, .X, .z, .s]

def Dir.ofChar (c : Char) : Option Dir := Dir.all.find? fun dir => dir.toChar == c

inductive FItem where
  | lit (c : Char)
  | conv (d : Dir)
  deriving DecidableEq, Repr

/-- A format string over the supported directives and literal text: `%` is always followed by one
    of the eleven letters; everything else is literal. -/
def parseFmt : List Char → Option (List FItem)
  | [] => some []
  | [c] => if c = '%' then none else some [.lit c]
  | c :: c' :: rest =>
    if c = '%' then
      match Dir.ofChar c' with
      | some dir => (parseFmt rest).map fun r => .conv dir :: r
      | none => none
    else (parseFmt (c' :: rest)).map fun r => .lit c :: r

/-- POSIX `strftime`, one conversion: `%Y` four-digit year, `%m %d %H %M %S` two digits, `%j` three,
    `%F` = `%Y-%m-%d`, `%X` = `%H:%M:%S` (POSIX locale), `%z` = sign and hhmm of the offset, `%s` the
    Unix time in decimal. -/
def field (c : Civil) : Dir → List Char
  | .Y => render 4 c.year.toNat
  | .m => render 2 c.month.toNat
  | .d => render 2 c.day.toNat
  | .j => render 3 c.yday.toNat
  | .H => render 2 c.hour.toNat
  | .M => render 2 c.minute.toNat
  | .S => render 2 c.second.toNat
  | .F => render 4 c.year.toNat ++ '-' :: render 2 c.month.toNat ++ '-' :: render 2 c.day.toNat
  | .X => render 2 c.hour.toNat ++ ':' :: render 2 c.minute.toNat ++ ':' :: render 2 c.second.toNat
  | .z => (if c.utcOff < 0 then '-' else '+') ::
            (render 2 (c.utcOff.natAbs / 60) ++ render 2 (c.utcOff.natAbs % 60))
  | .s => decimalInt c.unix

def itemText (c : Civil) : FItem → List Char
  | .lit ch => [ch]
  | .conv dir => field c dir

/-- POSIX `strftime` of a whole format. -/
def posix (c : Civil) (items : List FItem) : List Char := items.flatMap (itemText c)

/-- The date-time fields a conversion names. -/
inductive SField where
  | year | month | day | yday | hour | minute | second | zone | unix
  deriving DecidableEq, Repr

def Dir.fields : Dir → List SField
  | .Y => [.year] | .m => [.month] | .d => [.day] | .j => [.yday]
  | .H => [.hour] | .M => [.minute] | .S => [.second]
  | .F => [.year, .month, .day] | .X => [.hour, .minute, .second] | .z => [.zone] | .s => [.unix]

def fieldsOf : List FItem → List SField
  | [] => []
  | .lit _ :: r => fieldsOf r
  | .conv dir :: r => dir.fields ++ fieldsOf r

/-- The format determines a full date, time and zone: no field is named twice, and either `%s` is the
    only conversion, or year, hour, minute, second and zone are named together with month and day or
    (exclusively) with the day of the year. -/
def Determined (items : List FItem) : Prop :=
  (fieldsOf items).Nodup ∧
  (fieldsOf items = [.unix] ∨
   (.unix ∉ fieldsOf items ∧ .year ∈ fieldsOf items ∧ .hour ∈ fieldsOf items ∧ .minute ∈ fieldsOf items ∧
    .second ∈ fieldsOf items ∧ .zone ∈ fieldsOf items ∧
    ((.month ∈ fieldsOf items ∧ .day ∈ fieldsOf items ∧ .yday ∉ fieldsOf items) ∨
     (.yday ∈ fieldsOf items ∧ .month ∉ fieldsOf items ∧ .day ∉ fieldsOf items))))

instance (items : List FItem) : Decidable (Determined items) := by unfold Determined; infer_instance

end IsoDT.Spec.Posix

/-! # Part 2 — the model against the specification -/

namespace IsoDT.Lemmas.Strf
open IsoDT IsoDT.Model IsoDT.Model.Strf IsoDT.Lemmas
open IsoDT.Spec (Date TZ TP)
open IsoDT.Spec.Posix
open IsoDT.Gen.Strftime (Fld Fmt Pat Cls Piece fmtOf patOf clsOf)

deriving instance DecidableEq for Except

/-! ### digits -/

theorem dch_eq : Model.Strf.dch = Spec.Posix.dch := rfl

theorem dch_spec (d : Nat) (h : d < 10) : (Spec.Posix.dch d).toNat = 48 + d ∧ isDigitC (Spec.Posix.dch d) = true := by
  have : ∀ d : Fin 10, (Spec.Posix.dch d.val).toNat = 48 + d.val ∧ isDigitC (Spec.Posix.dch d.val) = true := by decide
  exact this ⟨d, h⟩

theorem showNat_eq_decimal (n : Nat) : showNat n = decimal n := by
  induction n using Nat.strongRecOn with
  | _ n ih =>
    rw [showNat, decimal]
    by_cases h : n < 10
    · simp only [h, ↓reduceIte, dch_eq]
    · simp only [h, ↓reduceIte, dch_eq]
      rw [ih (n / 10) (by omega)]

theorem showInt_eq_decimalInt (z : Int) : showInt z = decimalInt z := by
  unfold showInt decimalInt
  simp only [showNat_eq_decimal]

theorem render_length (w v : Nat) : (render w v).length = w := by
  induction w generalizing v with
  | zero => rfl
  | succ w ih => simp [render, ih]

theorem render_digits (w v : Nat) : ∀ c ∈ render w v, isDigitC c = true := by
  induction w generalizing v with
  | zero => intro c hc; simp [render] at hc
  | succ w ih =>
    intro c hc
    simp only [render, List.mem_append, List.mem_singleton] at hc
    rcases hc with hc | hc
    · exact ih _ c hc
    · subst hc; exact (dch_spec _ (Nat.mod_lt _ (by decide))).2

theorem render_zero (w : Nat) : render w 0 = List.replicate w '0' := by
  induction w with
  | zero => rfl
  | succ w ih =>
    simp only [render, Nat.zero_div, Nat.zero_mod, ih]
    have : Spec.Posix.dch 0 = '0' := by decide
    rw [this, ← List.replicate_succ']

theorem decimal_ne_nil (n : Nat) : decimal n ≠ [] := by
  rw [decimal]; split <;> simp

theorem decimal_digits (n : Nat) : ∀ c ∈ decimal n, isDigitC c = true := by
  induction n using Nat.strongRecOn with
  | _ n ih =>
    rw [decimal]
    by_cases h : n < 10
    · simp only [h, ↓reduceIte, List.mem_singleton]
      intro c hc; subst hc; exact (dch_spec n h).2
    · simp only [h, ↓reduceIte, List.mem_append, List.mem_singleton]
      intro c hc
      rcases hc with hc | hc
      · exact ih (n / 10) (by omega) c hc
      · subst hc; exact (dch_spec _ (Nat.mod_lt _ (by decide))).2

/-- `"%0wd" % n` is the fixed-width rendering whenever `n` has at most `w` digits. -/
theorem pad_decimal (w n : Nat) (hw : 1 ≤ w) (h : n < 10 ^ w) :
    List.replicate (w - (decimal n).length) '0' ++ decimal n = render w n := by
  induction w generalizing n with
  | zero => omega
  | succ w ih =>
    rw [decimal]
    by_cases h10 : n < 10
    · simp only [h10, ↓reduceIte, List.length_singleton, render, Nat.add_sub_cancel]
      rw [Nat.div_eq_of_lt h10, render_zero, Nat.mod_eq_of_lt h10]
    · simp only [h10, ↓reduceIte, render, List.length_append, List.length_singleton]
      have hw' : 1 ≤ w := by
        rcases Nat.eq_zero_or_pos w with rfl | hp
        · simp at h; omega
        · exact hp
      have hlt : n / 10 < 10 ^ w := by
        rw [Nat.pow_succ] at h
        exact Nat.div_lt_of_lt_mul (by rw [Nat.mul_comm]; exact h)
      rw [← ih (n / 10) hw' hlt, Nat.add_sub_add_right, List.append_assoc]

theorem zpad_eq_render (w : Nat) (z : Int) (hw : 1 ≤ w) (h0 : 0 ≤ z) (h1 : z.toNat < 10 ^ w) :
    zpad w z = render w z.toNat := by
  unfold zpad
  rw [if_neg (by omega), showNat_eq_decimal]
  exact pad_decimal w z.toNat hw h1

theorem parseNat_snoc (s : List Char) (c : Char) :
    parseNat (s ++ [c]) = 10 * parseNat s + (c.toNat - 48) := by
  unfold parseNat
  rw [List.foldl_append]
  rfl

theorem parseNat_render (w v : Nat) : parseNat (render w v) = v % 10 ^ w := by
  induction w generalizing v with
  | zero => simp [render, parseNat, Nat.mod_one]
  | succ w ih =>
    rw [render, parseNat_snoc, ih, (dch_spec _ (Nat.mod_lt v (by decide))).1]
    rw [Nat.pow_succ, Nat.mul_comm (10 ^ w) 10, Nat.mod_mul]
    omega

theorem parseNat_decimal (n : Nat) : parseNat (decimal n) = n := by
  induction n using Nat.strongRecOn with
  | _ n ih =>
    rw [decimal]
    by_cases h : n < 10
    · simp only [h, ↓reduceIte]
      have := (dch_spec n h).1
      simp only [parseNat, List.foldl_cons, List.foldl_nil, this]
      omega
    · simp only [h, ↓reduceIte]
      rw [parseNat_snoc, ih (n / 10) (by omega), (dch_spec _ (Nat.mod_lt n (by decide))).1]
      omega

/-! ### the split format and the table -/

/-- The translation the specification expects of each conversion, over the properties of
    `Gen.Strftime`. -/
def piecesOf : Dir → List Piece
  | .Y => [.fld .century, .fld .yearOfCentury]
  | .m => [.fld .monthOfYear]
  | .d => [.fld .dayOfMonth]
  | .j => [.fld .dayOfYear]
  | .H => [.fld .hourOfDay]
  | .M => [.fld .minuteOfHour]
  | .S => [.fld .secondOfMinute]
  | .F => [.fld .century, .fld .yearOfCentury, .lit '-', .fld .monthOfYear, .lit '-', .fld .dayOfMonth]
  | .X => [.fld .hourOfDay, .lit ':', .fld .minuteOfHour, .lit ':', .fld .secondOfMinute]
  | .z => [.fld .tzSign, .fld .tzHourAbs, .fld .tzMinuteAbs]
  | .s => [.fld .unix]

def piecesOfItem : FItem → List Piece
  | .lit c => [.lit c]
  | .conv dir => piecesOf dir

def piecesOfItems (items : List FItem) : List Piece := items.flatMap piecesOfItem

/-- The regenerated `STRFTIME_TRANSLATE_INFO` translates each of the eleven conversions as expected. -/
theorem lookupDir_toChar (dir : Dir) : lookupDir dir.toChar = some (piecesOf dir) := by
  cases dir <;> decide

/-- … and knows no other letter. -/
theorem lookupDir_none (c : Char) (h : Dir.ofChar c = none) : lookupDir c = none := by
  have hall : ∀ dir ∈ Dir.all, ¬ (dir.toChar == c) = true := by
    intro dir hd
    have := List.find?_eq_none.mp h dir hd
    simpa using this
  have h' : ∀ dir : Dir, dir.toChar ≠ c := by
    intro dir
    have := hall dir (by cases dir <;> decide)
    simpa using this
  have hY := h' .Y; have hm := h' .m; have hd := h' .d; have hj := h' .j; have hH := h' .H
  have hM := h' .M; have hS := h' .S; have hF := h' .F; have hX := h' .X; have hz := h' .z
  have hs := h' .s
  simp only [Dir.toChar] at hY hm hd hj hH hM hS hF hX hz hs
  unfold lookupDir
  have : Gen.Strftime.table.find? (fun e => e.1 == c) = none := by
    rw [List.find?_eq_none]
    intro e he
    have hk : e.1 ∈ ['d', 'F', 'H', 'j', 'm', 'M', 's', 'S', 'X', 'Y', 'z'] := by
      have hkeys : Gen.Strftime.table.map (·.1) = ['d', 'F', 'H', 'j', 'm', 'M', 's', 'S', 'X', 'Y', 'z'] := by
        decide
      rw [← hkeys]
      exact List.mem_map_of_mem he
    simp only [List.mem_cons, List.not_mem_nil, or_false] at hk
    intro hbeq
    have hec : e.1 = c := by simpa using hbeq
    rcases hk with hk | hk | hk | hk | hk | hk | hk | hk | hk | hk | hk <;> rw [hk] at hec <;>
      first | exact hd hec | exact hF hec | exact hH hec | exact hj hec | exact hm hec | exact hM hec
            | exact hs hec | exact hS hec | exact hX hec | exact hY hec | exact hz hec
  rw [this]

theorem ofChar_some (c : Char) (dir : Dir) (h : Dir.ofChar c = some dir) : c = dir.toChar := by
  have := List.find?_some h
  simp only [beq_iff_eq] at this
  exact this.symm

theorem isWord_toChar (dir : Dir) : isWord dir.toChar = true := by cases dir <;> decide

theorem toChar_ne_percent (dir : Dir) : dir.toChar ≠ '%' := by cases dir <;> decide

/-- On a format over the supported directives and literal text, the library's splitter and table
    produce exactly the specification's reading of it. -/
theorem translate_scan (fmt : List Char) (items : List FItem) (h : parseFmt fmt = some items) :
    translate (scan fmt) = .ok (piecesOfItems items) ∧ Piece.lit '%' ∉ piecesOfItems items := by
  induction fmt using parseFmt.induct generalizing items with
  | case1 =>
    simp only [parseFmt, Option.some.injEq] at h
    subst h
    exact ⟨rfl, by simp [piecesOfItems]⟩
  | case2 => simp [parseFmt] at h
  | case3 c hc =>
    simp only [parseFmt, hc, ↓reduceIte, Option.some.injEq] at h
    subst h
    refine ⟨rfl, ?_⟩
    simp only [piecesOfItems, piecesOfItem, List.flatMap_cons, List.flatMap_nil, List.append_nil,
      List.mem_singleton, Piece.lit.injEq]
    exact fun e => hc e.symm
  | case4 c' rest dir hdir ih =>
    simp only [parseFmt, ↓reduceIte, hdir] at h
    cases hr : parseFmt rest with
    | none => simp [hr] at h
    | some r =>
      simp only [hr, Option.map_some, Option.some.injEq] at h
      subst h
      obtain ⟨ih1, ih2⟩ := ih r hr
      have hc' := ofChar_some c' dir hdir
      subst hc'
      refine ⟨?_, ?_⟩
      · simp only [scan, isWord_toChar, and_self, ↓reduceIte, translate, lookupDir_toChar, ih1]
        rfl
      · simp only [piecesOfItems, List.flatMap_cons, List.mem_append, not_or] at ih2 ⊢
        refine ⟨?_, ih2⟩
        cases dir <;> simp [piecesOfItem, piecesOf]
  | case5 c' rest hdir =>
    simp [parseFmt, hdir] at h
  | case6 c c' rest hc ih =>
    simp only [parseFmt, hc, ↓reduceIte] at h
    cases hr : parseFmt (c' :: rest) with
    | none => simp [hr] at h
    | some r =>
      simp only [hr, Option.map_some, Option.some.injEq] at h
      subst h
      obtain ⟨ih1, ih2⟩ := ih r hr
      refine ⟨?_, ?_⟩
      · simp only [scan, hc, false_and, ↓reduceIte, translate, ih1]
        rfl
      · simp only [piecesOfItems, List.flatMap_cons, List.mem_append, not_or] at ih2 ⊢
        refine ⟨?_, ih2⟩
        simp only [piecesOfItem, List.mem_singleton, Piece.lit.injEq]
        exact fun e => hc e.symm

/-- One unknown `%`-letter anywhere makes the translation fail with `StrftimeSyntaxError`. -/
theorem translate_unsupported (items : List Item) (c : Char) (hmem : Item.dir c ∈ items)
    (hc : Dir.ofChar c = none) : translate items = .error .syntax := by
  induction items with
  | nil => simp at hmem
  | cons it rest ih =>
    cases it with
    | ch x =>
      simp only [List.mem_cons, reduceCtorEq, false_or] at hmem
      simp only [translate, ih hmem]
    | dir x =>
      simp only [translate]
      by_cases hx : x = c
      · subst hx
        rw [lookupDir_none x hc]
      · have hr : Item.dir c ∈ rest := by
          simp only [List.mem_cons, Item.dir.injEq] at hmem
          rcases hmem with h | h
          · exact absurd h.symm hx
          · exact h
        rw [ih hr]
        cases lookupDir x <;> rfl

/-! ### the property getters against the civil date-time -/

theorem unixEpoch_eq : unixEpoch = ⟨.cal 1970 1 1, 0, 0, 0, ⟨0, 0⟩⟩ := by decide

theorem unixEpoch_valid (m : Mode) : unixEpoch.Valid m := by
  rw [unixEpoch_eq]; cases m <;> decide

theorem unixEpoch_inst (m : Mode) : unixEpoch.inst m = epochInst m := by
  rw [unixEpoch_eq]
  simp [TP.inst, Spec.Date.dayNum, TP.secOfDay, TZ.seconds, epochInst]

/-- `seconds_since_unix_epoch` (C18) in the vocabulary of part 1. -/
theorem secondsSince_spec (m : Mode) (p : TP) (hp : p.Valid m) :
    secondsSinceUnixEpoch m p = some (p.inst m - epochInst m) := by
  obtain ⟨dd, hh, mm, ss, e, hl, _, _⟩ := subTP_spec m p unixEpoch hp (unixEpoch_valid m)
  rw [unixEpoch_inst] at hl
  simp only [secondsSinceUnixEpoch, e, Option.map_some, Dur.daysAndSeconds, secondsInDay_eq,
    secondsInHour_eq, secondsInMinute_eq, Option.some.injEq]
  have e1 : (0 : Int) * (calOf m).roughDaysInYear = 0 := by omega
  have e2 : (0 : Int) * (calOf m).roughDaysInMonth = 0 := by omega
  rw [e1, e2]
  omega

theorem forDump_spec (m : Mode) (p : TP) (hv : p.Valid m) :
    ∃ p', forDump m p = some p' ∧ p'.Valid m ∧ p'.date.rep ≠ 2 ∧
      p'.date.dayNum m = p.date.dayNum m ∧ p'.hh = p.hh ∧ p'.mi = p.mi ∧ p'.ss = p.ss ∧ p'.tz = p.tz := by
  unfold forDump
  by_cases h : p.date.rep = 2
  · rw [if_pos h]
    obtain ⟨r, he, hrv, hrr, hn⟩ := convert_spec m 0 (by omega) p.date hv.1
    rw [he]
    refine ⟨{ p with date := r }, rfl, ?_, ?_, hn, rfl, rfl, rfl, rfl⟩
    · obtain ⟨_, b⟩ := hv
      exact ⟨hrv, b⟩
    · show r.rep ≠ 2
      omega
  · rw [if_neg h]
    exact ⟨p, rfl, hv, h, rfl, rfl, rfl, rfl, rfl⟩

theorem isCivil_transfer (m : Mode) (p p' : TP) (c : Civil) (hc : IsCivil m p c)
    (hn : p'.date.dayNum m = p.date.dayNum m) (h1 : p'.hh = p.hh) (h2 : p'.mi = p.mi) (h3 : p'.ss = p.ss)
    (h4 : p'.tz = p.tz) : IsCivil m p' c := by
  obtain ⟨a, b, c1, d, e, f, g, h⟩ := hc
  refine ⟨a, by rw [hn]; exact b, by rw [hn]; exact c1, by rw [h1]; exact d, by rw [h2]; exact e,
    by rw [h3]; exact f, by rw [h4]; exact g, ?_⟩
  rw [h]
  simp only [TP.inst, TP.secOfDay, hn, h1, h2, h3, h4]

/-- The getters `month_of_year`, `day_of_month`, `day_of_year`, `year`, … of a valid calendar- or
    ordinal-date point return its civil fields. -/
theorem dumpCtx_spec (m : Mode) (p : TP) (hv : p.Valid m) (hrep : p.date.rep ≠ 2) (c : Civil)
    (hc : IsCivil m p c) :
    dumpCtx m p = some ⟨c.year, c.month, c.day, c.yday, p.hh, p.mi, p.ss, p.tz, c.unix⟩ := by
  obtain ⟨hcv, hcn, hyd, _, _, _, _, hux⟩ := hc
  obtain ⟨r0, he0, hv0, hr0, hn0⟩ := convert_spec m 0 (by omega) p.date hv.1
  obtain ⟨r1, he1, hv1, hr1, hn1⟩ := convert_spec m 1 (by omega) p.date hv.1
  have e0 : r0 = .cal c.year c.month c.day :=
    date_unique m r0 (.cal c.year c.month c.day) hv0 hcv (by rw [hr0]; rfl) (by rw [hn0]; exact hcn.symm)
  obtain ⟨y1, n1, e1⟩ := rep1_ord r1 hr1
  subst e0 e1
  have hrange1 := dayNumOrd_range m y1 n1 hv1
  have hrangec := dayNumCal_range m _ _ _ hcv
  have hn1' : Spec.dayNumOrd m y1 n1 = p.date.dayNum m := hn1
  have hy1 : y1 = c.year :=
    year_unique m y1 c.year (p.date.dayNum m) (by rw [← hn1']; exact hrange1) (by rw [← hcn]; exact hrangec)
  subst hy1
  have hnn : n1 = c.yday := by
    rw [hyd, ← hn1']; unfold Spec.dayNumOrd; omega
  subst hnn
  have hyear : dateYear p.date = c.year := by
    cases hd : p.date with
    | cal y mo d =>
      rw [hd] at he0
      simp only [convert, Option.some.injEq, Spec.Date.cal.injEq] at he0
      exact he0.1
    | ord y n =>
      rw [hd] at he1
      simp only [convert, Option.some.injEq, Spec.Date.ord.injEq] at he1
      exact he1.1
    | week y w d => rw [hd] at hrep; exact absurd rfl hrep
  unfold dumpCtx
  rw [he0, he1, secondsSince_spec m p hv]
  simp only [hyear, hux]

/-! ### rendering: the `%`-formatting of the translated pieces is the POSIX text -/

theorem civil_ranges (m : Mode) (p : TP) (hv : p.Valid m) (c : Civil) (hc : IsCivil m p c) :
    1 ≤ c.month ∧ c.month ≤ 12 ∧ 1 ≤ c.day ∧ c.day ≤ 31 ∧ 1 ≤ c.yday ∧ c.yday ≤ 366 ∧
    0 ≤ c.hour ∧ c.hour ≤ 24 ∧ 0 ≤ c.minute ∧ c.minute < 60 ∧ 0 ≤ c.second ∧ c.second < 60 := by
  obtain ⟨hcv, hcn, hyd, h1, h2, h3, _, _⟩ := hc
  obtain ⟨_, a1, a2, a3, a4, a5, a6, _, _⟩ := hv
  have hr := dayNumCal_range m _ _ _ hcv
  have hs := dby_succ m c.year
  have hb := yearLen_bounds m c.year
  obtain ⟨m1, m2, d1, d2⟩ := hcv
  have hml := monthLen_bounds m c.year c.month m1 m2
  rw [hcn] at hr
  refine ⟨m1, m2, d1, by omega, by omega, by omega, ?_, ?_, ?_, ?_, ?_, ?_⟩ <;> omega

theorem render4_split (y : Nat) : render 4 y = render 2 (y / 100) ++ render 2 (y % 100) := by
  have h1 : y / 10 / 10 / 10 % 10 = y / 100 / 10 % 10 := by omega
  have h2 : y / 10 / 10 % 10 = y / 100 % 10 := by omega
  have h3 : y / 10 % 10 = y % 100 / 10 % 10 := by omega
  have h4 : y % 10 = y % 100 % 10 := by omega
  simp only [render, List.nil_append, List.cons_append, h1, h2, h3, h4]

theorem render_year (y : Int) (h : 0 ≤ y ∧ y ≤ 9999) :
    zpad 2 (absI y % 10000 / 100) ++ zpad 2 (absI y % 100) = render 4 y.toNat := by
  have ha : absI y = y := by unfold absI; rw [if_neg (by omega)]
  rw [ha, zpad_eq_render 2 _ (by omega) (by omega) (by omega),
    zpad_eq_render 2 _ (by omega) (by omega) (by omega), render4_split]
  have e1 : (y % 10000 / 100).toNat = y.toNat / 100 := by omega
  have e2 : (y % 100).toNat = y.toNat % 100 := by omega
  rw [e1, e2]

theorem render_zone (z : TZ) (hz : z.Valid) :
    [if tzSign z < 0 then '-' else '+'] ++ zpad 2 (tzHourAbs z) ++ zpad 2 (tzMinuteAbs z) =
    (if 60 * z.h + z.mi < 0 then '-' else '+') ::
      (render 2 ((60 * z.h + z.mi).natAbs / 60) ++ render 2 ((60 * z.h + z.mi).natAbs % 60)) := by
  obtain ⟨h1, h2, h3, h4, h5, h6⟩ := hz
  have hs : (tzSign z < 0) ↔ (60 * z.h + z.mi < 0) := by
    unfold tzSign; split <;> omega
  have eh : (tzHourAbs z).toNat = (60 * z.h + z.mi).natAbs / 60 := by
    unfold tzHourAbs; split <;> omega
  have em : (tzMinuteAbs z).toNat = (60 * z.h + z.mi).natAbs % 60 := by
    unfold tzMinuteAbs; split <;> omega
  have bh : 0 ≤ tzHourAbs z ∧ (tzHourAbs z).toNat < 100 := by unfold tzHourAbs; split <;> omega
  have bm : 0 ≤ tzMinuteAbs z ∧ (tzMinuteAbs z).toNat < 100 := by unfold tzMinuteAbs; split <;> omega
  rw [zpad_eq_render 2 _ (by omega) bh.1 bh.2, zpad_eq_render 2 _ (by omega) bm.1 bm.2, eh, em]
  by_cases c : 60 * z.h + z.mi < 0
  · simp [c, hs.mpr c]
  · simp [c, mt hs.mp c]

/-- The dump context the model builds for a point whose civil date-time is `c`. -/
def ctxOf (p : TP) (c : Civil) : DumpCtx := ⟨c.year, c.month, c.day, c.yday, p.hh, p.mi, p.ss, p.tz, c.unix⟩

theorem render_dir (m : Mode) (p : TP) (hv : p.Valid m) (c : Civil) (hc : IsCivil m p c) (dir : Dir)
    (hy : SField.year ∈ dir.fields → 0 ≤ c.year ∧ c.year ≤ 9999) :
    renderPieces (ctxOf p c) (piecesOf dir) = field c dir := by
  obtain ⟨r1, r2, r3, r4, r5, r6, r7, r8, r9, r10, r11, r12⟩ := civil_ranges m p hv c hc
  obtain ⟨_, _, _, e1, e2, e3, e4, _⟩ := hc
  have hmo : zpad 2 c.month = render 2 c.month.toNat := zpad_eq_render 2 _ (by omega) (by omega) (by omega)
  have hd : zpad 2 c.day = render 2 c.day.toNat := zpad_eq_render 2 _ (by omega) (by omega) (by omega)
  have hj : zpad 3 c.yday = render 3 c.yday.toNat := zpad_eq_render 3 _ (by omega) (by omega) (by omega)
  have hH : zpad 2 p.hh = render 2 c.hour.toNat := by
    rw [← e1]; exact zpad_eq_render 2 _ (by omega) (by omega) (by omega)
  have hM : zpad 2 p.mi = render 2 c.minute.toNat := by
    rw [← e2]; exact zpad_eq_render 2 _ (by omega) (by omega) (by omega)
  have hS : zpad 2 p.ss = render 2 c.second.toNat := by
    rw [← e3]; exact zpad_eq_render 2 _ (by omega) (by omega) (by omega)
  have hz := render_zone p.tz hv.2.2.2.2.2.2.2.2
  rw [← e4] at hz
  cases dir
  case Y =>
    have hY := render_year c.year (hy (by simp [Dir.fields]))
    simpa [renderPieces, piecesOf, renderPiece, fmtOf, fmtVal, fldVal, ctxOf, field] using hY
  case m => simpa [renderPieces, piecesOf, renderPiece, fmtOf, fmtVal, fldVal, ctxOf, field] using hmo
  case d => simpa [renderPieces, piecesOf, renderPiece, fmtOf, fmtVal, fldVal, ctxOf, field] using hd
  case j => simpa [renderPieces, piecesOf, renderPiece, fmtOf, fmtVal, fldVal, ctxOf, field] using hj
  case H => simpa [renderPieces, piecesOf, renderPiece, fmtOf, fmtVal, fldVal, ctxOf, field] using hH
  case M => simpa [renderPieces, piecesOf, renderPiece, fmtOf, fmtVal, fldVal, ctxOf, field] using hM
  case S => simpa [renderPieces, piecesOf, renderPiece, fmtOf, fmtVal, fldVal, ctxOf, field] using hS
  case F =>
    have hY := render_year c.year (hy (by simp [Dir.fields]))
    show (zpad 2 (absI c.year % 10000 / 100) ++ (zpad 2 (absI c.year % 100) ++ (['-'] ++ (zpad 2 c.month ++
      (['-'] ++ (zpad 2 c.day ++ [])))))) = _
    rw [← List.append_assoc, hY, hmo, hd]
    simp [field]
  case X =>
    show (zpad 2 p.hh ++ ([':'] ++ (zpad 2 p.mi ++ ([':'] ++ (zpad 2 p.ss ++ []))))) = _
    rw [hH, hM, hS]
    simp [field]
  case z =>
    show ([if tzSign p.tz < 0 then '-' else '+'] ++ (zpad 2 (tzHourAbs p.tz) ++ (zpad 2 (tzMinuteAbs p.tz) ++ []))) = _
    rw [List.append_nil, ← List.append_assoc, hz]
    rfl
  case s =>
    show showInt c.unix ++ [] = _
    rw [List.append_nil, showInt_eq_decimalInt]
    rfl

theorem render_items (m : Mode) (p : TP) (hv : p.Valid m) (c : Civil) (hc : IsCivil m p c)
    (items : List FItem) (hy : SField.year ∈ fieldsOf items → 0 ≤ c.year ∧ c.year ≤ 9999) :
    renderPieces (ctxOf p c) (piecesOfItems items) = posix c items := by
  induction items with
  | nil => rfl
  | cons it rest ih =>
    unfold renderPieces piecesOfItems posix at *
    rw [List.flatMap_cons, List.flatMap_append, List.flatMap_cons]
    cases it with
    | lit ch => rw [ih (fun h => hy h)]; rfl
    | conv dir =>
      rw [ih (fun h => hy (by simp [fieldsOf, h]))]
      congr 1
      exact render_dir m p hv c hc dir (fun h => hy (by simp [fieldsOf, h]))

/-- The `century` property (and with it the year bounds check) is requested exactly by the
    conversions that name the year. -/
theorem century_mem (items : List FItem) (h : Piece.fld .century ∈ piecesOfItems items) :
    SField.year ∈ fieldsOf items := by
  induction items with
  | nil => simp [piecesOfItems] at h
  | cons it rest ih =>
    simp only [piecesOfItems, List.flatMap_cons, List.mem_append] at h
    cases it with
    | lit ch =>
      rcases h with h | h
      · simp [piecesOfItem] at h
      · exact ih h
    | conv dir =>
      simp only [fieldsOf, List.mem_append]
      rcases h with h | h
      · left
        cases dir <;> simp [piecesOfItem, piecesOf] at h <;> simp [Dir.fields]
      · exact Or.inr (ih h)

/-! ### strptime: which regex groups a format names -/

/-- The specification field a property belongs to. -/
def sf : Fld → SField
  | .century => .year | .yearOfCentury => .year | .monthOfYear => .month | .dayOfMonth => .day
  | .dayOfYear => .yday | .hourOfDay => .hour | .minuteOfHour => .minute | .secondOfMinute => .second
  | .tzSign => .zone | .tzHourAbs => .zone | .tzMinuteAbs => .zone | .unix => .unix

theorem fldsOf_append (a b : List Piece) : fldsOf (a ++ b) = fldsOf a ++ fldsOf b := by
  induction a with
  | nil => rfl
  | cons x xs ih => cases x <;> simp [fldsOf, ih]

theorem mem_fldsOf_dir (f : Fld) (dir : Dir) : f ∈ fldsOf (piecesOf dir) ↔ sf f ∈ dir.fields := by
  cases f <;> cases dir <;> decide

theorem nodup_fldsOf_dir (dir : Dir) : (fldsOf (piecesOf dir)).Nodup := by cases dir <;> decide

theorem mem_fldsOf_items (f : Fld) (items : List FItem) :
    f ∈ fldsOf (piecesOfItems items) ↔ sf f ∈ fieldsOf items := by
  induction items with
  | nil => simp [piecesOfItems, fldsOf, fieldsOf]
  | cons it rest ih =>
    unfold piecesOfItems at ih ⊢
    rw [List.flatMap_cons, fldsOf_append, List.mem_append, ih]
    cases it with
    | lit ch => simp [piecesOfItem, fldsOf, fieldsOf]
    | conv dir => simp only [piecesOfItem, fieldsOf, List.mem_append, mem_fldsOf_dir]

theorem nodup_fldsOf_items (items : List FItem) (h : (fieldsOf items).Nodup) :
    (fldsOf (piecesOfItems items)).Nodup := by
  induction items with
  | nil => simp [piecesOfItems, fldsOf]
  | cons it rest ih =>
    cases it with
    | lit ch =>
      have := ih h
      simpa [piecesOfItems, piecesOfItem, fldsOf, fldsOf_append] using this
    | conv dir =>
      simp only [fieldsOf] at h
      rw [List.nodup_append] at h
      obtain ⟨_, h2, h3⟩ := h
      have e : fldsOf (piecesOfItems (.conv dir :: rest)) =
          fldsOf (piecesOf dir) ++ fldsOf (piecesOfItems rest) := by
        simp [piecesOfItems, piecesOfItem, fldsOf_append]
      rw [e, List.nodup_append]
      refine ⟨nodup_fldsOf_dir dir, ih h2, ?_⟩
      intro a ha b hb hab
      subst hab
      exact h3 (sf a) ((mem_fldsOf_dir a dir).mp ha) (sf a) ((mem_fldsOf_items a rest).mp hb) rfl

theorem hasDup_false (fs : List Fld) (h : fs.Nodup) : hasDup fs = false := by
  induction fs with
  | nil => rfl
  | cons f rest ih =>
    rw [List.nodup_cons] at h
    simp only [hasDup, ih h.2, Bool.or_false, List.contains_eq_mem, decide_eq_false_iff_not]
    exact h.1

end IsoDT.Lemmas.Strf
