/-
  IsoDT.Lemmas.Strftime

  Part 1 (`namespace IsoDT.Spec.Posix`) is *specification*, meant to be read: the POSIX meaning of the
  eleven supported strftime conversions on the civil (calendar) date-time fields of a time point, over a
  fixed-width decimal renderer; what a format "over the supported directives and literal text" is; when a
  format determines a full date, time and zone.  Nothing in part 1 refers to `Gen` or `Model`.

  Part 2 (`namespace IsoDT.Lemmas.Strf`) relates the executable model (`Model/Strftime.lean`, over the
  regenerated `Gen.Strftime` tables) to part 1.
-/
import IsoDT.Model.Strftime
import IsoDT.Lemmas.Cmp

/-! # Part 1 — specification -/

namespace IsoDT.Spec.Posix
open IsoDT IsoDT.Spec

/-- The decimal digit `d` as a character. -/
def dch (d : Nat) : Char := Char.ofNat (48 + d)

/-- Exactly `w` decimal digits: `v mod 10^w`, most significant digit first. -/
def render : Nat → Nat → List Char
  | 0, _ => []
  | w + 1, v => render w (v / 10) ++ [dch (v % 10)]

/-- Decimal notation of a natural number, no leading zeros. -/
def decimal (n : Nat) : List Char :=
  if n < 10 then [dch n] else decimal (n / 10) ++ [dch (n % 10)]
decreasing_by omega

/-- Decimal notation of an integer. -/
def decimalInt (z : Int) : List Char :=
  if z < 0 then '-' :: decimal z.natAbs else decimal z.toNat

/-- The civil date-time a conversion specification looks at (`struct tm` plus the UTC offset in
    minutes east of Greenwich and the Unix time of the instant). -/
structure Civil where
  year : Int
  month : Int
  day : Int
  yday : Int
  hour : Int
  minute : Int
  second : Int
  utcOff : Int
  unix : Int

/-- Instant of 1970-01-01T00:00:00Z in the mode's calendar. -/
def epochInst (m : Mode) : Int := 86400 * dayNumCal m 1970 1 1

/-- `c` is the civil date-time of `p`: the calendar date with `p`'s day number (whatever
    representation `p` keeps), its day of the year, `p`'s clock fields and offset, and the number of
    seconds from the Unix epoch to `p`'s instant. -/
def IsCivil (m : Mode) (p : TP) (c : Civil) : Prop :=
  ValidCal m c.year c.month c.day ∧ dayNumCal m c.year c.month c.day = p.date.dayNum m ∧
  c.yday = p.date.dayNum m - dby m c.year + 1 ∧
  c.hour = p.hh ∧ c.minute = p.mi ∧ c.second = p.ss ∧ c.utcOff = 60 * p.tz.h + p.tz.mi ∧
  c.unix = p.inst m - epochInst m

/-- The supported conversion specifications. -/
inductive Dir where
  | Y | m | d | j | H | M | S | F | X | z | s
  deriving DecidableEq, Repr

def Dir.toChar : Dir → Char
  | .Y => 'Y' | .m => 'm' | .d => 'd' | .j => 'j' | .H => 'H' | .M => 'M' | .S => 'S'
  | .F => 'F' | .X => 'X' | .z => 'z' | .s => 's'

def Dir.all : List Dir := [.Y, .m, .d, .j, .H, .M, .S, .F, .X, .z, .s]

def Dir.ofChar (c : Char) : Option Dir := Dir.all.find? fun dir => dir.toChar == c

inductive FItem where
  | lit (c : Char)
  | conv (dir : Dir)
  deriving DecidableEq, Repr

/-- A format string over the supported directives and literal text: `%` is always followed by one
    of the eleven letters; everything else is literal. -/
def parseFmt : List Char → Option (List FItem)
  | [] => some []
  | [c] => if c = '%' then none else some [.lit c]
  | c :: c' :: rest =>
    if c = '%' then
      match Dir.ofChar c' with
      | some dir => (parseFmt rest).map fun r => .conv dir :: r
      | none => none
    else (parseFmt (c' :: rest)).map fun r => .lit c :: r

/-- POSIX `strftime`, one conversion: `%Y` four-digit year, `%m %d %H %M %S` two digits, `%j` three,
    `%F` = `%Y-%m-%d`, `%X` = `%H:%M:%S` (POSIX locale), `%z` = sign and hhmm of the offset, `%s` the
    Unix time in decimal. -/
def field (c : Civil) : Dir → List Char
  | .Y => render 4 c.year.toNat
  | .m => render 2 c.month.toNat
  | .d => render 2 c.day.toNat
  | .j => render 3 c.yday.toNat
  | .H => render 2 c.hour.toNat
  | .M => render 2 c.minute.toNat
  | .S => render 2 c.second.toNat
  | .F => render 4 c.year.toNat ++ '-' :: render 2 c.month.toNat ++ '-' :: render 2 c.day.toNat
  | .X => render 2 c.hour.toNat ++ ':' :: render 2 c.minute.toNat ++ ':' :: render 2 c.second.toNat
  | .z => (if c.utcOff < 0 then '-' else '+') ::
            (render 2 (c.utcOff.natAbs / 60) ++ render 2 (c.utcOff.natAbs % 60))
  | .s => decimalInt c.unix

def itemText (c : Civil) : FItem → List Char
  | .lit ch => [ch]
  | .conv dir => field c dir

/-- POSIX `strftime` of a whole format. -/
def posix (c : Civil) (items : List FItem) : List Char := items.flatMap (itemText c)

/-- The date-time fields a conversion names. -/
inductive SField where
  | year | month | day | yday | hour | minute | second | zone | unix
  deriving DecidableEq, Repr

def Dir.fields : Dir → List SField
  | .Y => [.year] | .m => [.month] | .d => [.day] | .j => [.yday]
  | .H => [.hour] | .M => [.minute] | .S => [.second]
  | .F => [.year, .month, .day] | .X => [.hour, .minute, .second] | .z => [.zone] | .s => [.unix]

def fieldsOf : List FItem → List SField
  | [] => []
  | .lit _ :: r => fieldsOf r
  | .conv dir :: r => dir.fields ++ fieldsOf r

/-- The format determines a full date, time and zone: no field is named twice, and either `%s` is the
    only conversion, or year, hour, minute, second and zone are named together with month and day or
    (exclusively) with the day of the year. -/
def Determined (items : List FItem) : Prop :=
  (fieldsOf items).Nodup ∧
  (fieldsOf items = [.unix] ∨
   (.unix ∉ fieldsOf items ∧ .year ∈ fieldsOf items ∧ .hour ∈ fieldsOf items ∧ .minute ∈ fieldsOf items ∧
    .second ∈ fieldsOf items ∧ .zone ∈ fieldsOf items ∧
    ((.month ∈ fieldsOf items ∧ .day ∈ fieldsOf items ∧ .yday ∉ fieldsOf items) ∨
     (.yday ∈ fieldsOf items ∧ .month ∉ fieldsOf items ∧ .day ∉ fieldsOf items))))

instance (items : List FItem) : Decidable (Determined items) := by unfold Determined; infer_instance

end IsoDT.Spec.Posix

/-! # Part 2 — the model against the specification -/

namespace IsoDT.Lemmas.Strf
open IsoDT IsoDT.Model IsoDT.Model.Strf IsoDT.Lemmas
open IsoDT.Spec (Date TZ TP)
open IsoDT.Spec.Posix
open IsoDT.Gen.Strftime (Fld Fmt Pat Cls Piece fmtOf patOf clsOf)

deriving instance DecidableEq for Except

/-! ### digits -/

theorem dch_eq : Model.Strf.dch = Spec.Posix.dch := rfl

theorem dch_spec (d : Nat) (h : d < 10) : (Spec.Posix.dch d).toNat = 48 + d ∧ isDigitC (Spec.Posix.dch d) = true := by
  have : ∀ d : Fin 10, (Spec.Posix.dch d.val).toNat = 48 + d.val ∧ isDigitC (Spec.Posix.dch d.val) = true := by decide
  exact this ⟨d, h⟩

theorem showNat_eq_decimal (n : Nat) : showNat n = decimal n := by
  induction n using Nat.strongRecOn with
  | _ n ih =>
    rw [showNat, decimal]
    by_cases h : n < 10
    · simp only [h, ↓reduceIte, dch_eq]
    · simp only [h, ↓reduceIte, dch_eq]
      rw [ih (n / 10) (by omega)]

theorem showInt_eq_decimalInt (z : Int) : showInt z = decimalInt z := by
  unfold showInt decimalInt
  simp only [showNat_eq_decimal]

theorem render_length (w v : Nat) : (render w v).length = w := by
  induction w generalizing v with
  | zero => rfl
  | succ w ih => simp [render, ih]

theorem render_digits (w v : Nat) : ∀ c ∈ render w v, isDigitC c = true := by
  induction w generalizing v with
  | zero => intro c hc; simp [render] at hc
  | succ w ih =>
    intro c hc
    simp only [render, List.mem_append, List.mem_singleton] at hc
    rcases hc with hc | hc
    · exact ih _ c hc
    · subst hc; exact (dch_spec _ (Nat.mod_lt _ (by decide))).2

theorem render_zero (w : Nat) : render w 0 = List.replicate w '0' := by
  induction w with
  | zero => rfl
  | succ w ih =>
    simp only [render, Nat.zero_div, Nat.zero_mod, ih]
    have : Spec.Posix.dch 0 = '0' := by decide
    rw [this, ← List.replicate_succ']

theorem decimal_ne_nil (n : Nat) : decimal n ≠ [] := by
  rw [decimal]; split <;> simp

theorem decimal_digits (n : Nat) : ∀ c ∈ decimal n, isDigitC c = true := by
  induction n using Nat.strongRecOn with
  | _ n ih =>
    rw [decimal]
    by_cases h : n < 10
    · simp only [h, ↓reduceIte, List.mem_singleton]
      intro c hc; subst hc; exact (dch_spec n h).2
    · simp only [h, ↓reduceIte, List.mem_append, List.mem_singleton]
      intro c hc
      rcases hc with hc | hc
      · exact ih (n / 10) (by omega) c hc
      · subst hc; exact (dch_spec _ (Nat.mod_lt _ (by decide))).2

/-- `"%0wd" % n` is the fixed-width rendering whenever `n` has at most `w` digits. -/
theorem pad_decimal (w n : Nat) (hw : 1 ≤ w) (h : n < 10 ^ w) :
    List.replicate (w - (decimal n).length) '0' ++ decimal n = render w n := by
  induction w generalizing n with
  | zero => omega
  | succ w ih =>
    rw [decimal]
    by_cases h10 : n < 10
    · simp only [h10, ↓reduceIte, List.length_singleton, render, Nat.add_sub_cancel]
      rw [Nat.div_eq_of_lt h10, render_zero, Nat.mod_eq_of_lt h10]
    · simp only [h10, ↓reduceIte, render, List.length_append, List.length_singleton]
      have hw' : 1 ≤ w := by
        rcases Nat.eq_zero_or_pos w with rfl | hp
        · simp at h; omega
        · exact hp
      have hlt : n / 10 < 10 ^ w := by
        rw [Nat.pow_succ] at h
        exact Nat.div_lt_of_lt_mul (by rw [Nat.mul_comm]; exact h)
      rw [← ih (n / 10) hw' hlt, Nat.add_sub_add_right, List.append_assoc]

theorem zpad_eq_render (w : Nat) (z : Int) (hw : 1 ≤ w) (h0 : 0 ≤ z) (h1 : z.toNat < 10 ^ w) :
    zpad w z = render w z.toNat := by
  unfold zpad
  rw [if_neg (by omega), showNat_eq_decimal]
  exact pad_decimal w z.toNat hw h1

theorem parseNat_snoc (s : List Char) (c : Char) :
    parseNat (s ++ [c]) = 10 * parseNat s + (c.toNat - 48) := by
  unfold parseNat
  rw [List.foldl_append]
  rfl

theorem parseNat_render (w v : Nat) : parseNat (render w v) = v % 10 ^ w := by
  induction w generalizing v with
  | zero => simp [render, parseNat, Nat.mod_one]
  | succ w ih =>
    rw [render, parseNat_snoc, ih, (dch_spec _ (Nat.mod_lt v (by decide))).1]
    rw [Nat.pow_succ, Nat.mul_comm (10 ^ w) 10, Nat.mod_mul]
    omega

theorem parseNat_decimal (n : Nat) : parseNat (decimal n) = n := by
  induction n using Nat.strongRecOn with
  | _ n ih =>
    rw [decimal]
    by_cases h : n < 10
    · simp only [h, ↓reduceIte]
      have := (dch_spec n h).1
      simp only [parseNat, List.foldl_cons, List.foldl_nil, this]
      omega
    · simp only [h, ↓reduceIte]
      rw [parseNat_snoc, ih (n / 10) (by omega), (dch_spec _ (Nat.mod_lt n (by decide))).1]
      omega

/-! ### the split format and the table -/

/-- The translation the specification expects of each conversion, over the properties of
    `Gen.Strftime`. -/
def piecesOf : Dir → List Piece
  | .Y => [.fld .century, .fld .yearOfCentury]
  | .m => [.fld .monthOfYear]
  | .d => [.fld .dayOfMonth]
  | .j => [.fld .dayOfYear]
  | .H => [.fld .hourOfDay]
  | .M => [.fld .minuteOfHour]
  | .S => [.fld .secondOfMinute]
  | .F => [.fld .century, .fld .yearOfCentury, .lit '-', .fld .monthOfYear, .lit '-', .fld .dayOfMonth]
  | .X => [.fld .hourOfDay, .lit ':', .fld .minuteOfHour, .lit ':', .fld .secondOfMinute]
  | .z => [.fld .tzSign, .fld .tzHourAbs, .fld .tzMinuteAbs]
  | .s => [.fld .unix]

def piecesOfItem : FItem → List Piece
  | .lit c => [.lit c]
  | .conv dir => piecesOf dir

def piecesOfItems (items : List FItem) : List Piece := items.flatMap piecesOfItem

/-- The regenerated `STRFTIME_TRANSLATE_INFO` translates each of the eleven conversions as expected. -/
theorem lookupDir_toChar (dir : Dir) : lookupDir dir.toChar = some (piecesOf dir) := by
  cases dir <;> decide

/-- … and knows no other letter. -/
theorem lookupDir_none (c : Char) (h : Dir.ofChar c = none) : lookupDir c = none := by
  have hall : ∀ dir ∈ Dir.all, ¬ (dir.toChar == c) = true := by
    intro dir hd
    have := List.find?_eq_none.mp h dir hd
    simpa using this
  have h' : ∀ dir : Dir, dir.toChar ≠ c := by
    intro dir
    have := hall dir (by cases dir <;> decide)
    simpa using this
  have hY := h' .Y; have hm := h' .m; have hd := h' .d; have hj := h' .j; have hH := h' .H
  have hM := h' .M; have hS := h' .S; have hF := h' .F; have hX := h' .X; have hz := h' .z
  have hs := h' .s
  simp only [Dir.toChar] at hY hm hd hj hH hM hS hF hX hz hs
  unfold lookupDir
  have : Gen.Strftime.table.find? (fun e => e.1 == c) = none := by
    rw [List.find?_eq_none]
    intro e he
    have hk : e.1 ∈ ['d', 'F', 'H', 'j', 'm', 'M', 's', 'S', 'X', 'Y', 'z'] := by
      have hkeys : Gen.Strftime.table.map (·.1) = ['d', 'F', 'H', 'j', 'm', 'M', 's', 'S', 'X', 'Y', 'z'] := by
        decide
      rw [← hkeys]
      exact List.mem_map_of_mem he
    simp only [List.mem_cons, List.not_mem_nil, or_false] at hk
    intro hbeq
    have hec : e.1 = c := by simpa using hbeq
    rcases hk with hk | hk | hk | hk | hk | hk | hk | hk | hk | hk | hk <;> rw [hk] at hec <;>
      first | exact hd hec | exact hF hec | exact hH hec | exact hj hec | exact hm hec | exact hM hec
            | exact hs hec | exact hS hec | exact hX hec | exact hY hec | exact hz hec
  rw [this]

theorem ofChar_some (c : Char) (dir : Dir) (h : Dir.ofChar c = some dir) : c = dir.toChar := by
  have := List.find?_some h
  simp only [beq_iff_eq] at this
  exact this.symm

theorem isWord_toChar (dir : Dir) : isWord dir.toChar = true := by cases dir <;> decide

theorem toChar_ne_percent (dir : Dir) : dir.toChar ≠ '%' := by cases dir <;> decide

/-- On a format over the supported directives and literal text, the library's splitter and table
    produce exactly the specification's reading of it. -/
theorem translate_scan (fmt : List Char) (items : List FItem) (h : parseFmt fmt = some items) :
    translate (scan fmt) = .ok (piecesOfItems items) ∧ Piece.lit '%' ∉ piecesOfItems items := by
  induction fmt using parseFmt.induct generalizing items with
  | case1 =>
    simp only [parseFmt, Option.some.injEq] at h
    subst h
    exact ⟨rfl, by simp [piecesOfItems]⟩
  | case2 => simp [parseFmt] at h
  | case3 c hc =>
    simp only [parseFmt, hc, ↓reduceIte, Option.some.injEq] at h
    subst h
    refine ⟨rfl, ?_⟩
    simp only [piecesOfItems, piecesOfItem, List.flatMap_cons, List.flatMap_nil, List.append_nil,
      List.mem_singleton, Piece.lit.injEq]
    exact fun e => hc e.symm
  | case4 c' rest dir hdir ih =>
    simp only [parseFmt, ↓reduceIte, hdir] at h
    cases hr : parseFmt rest with
    | none => simp [hr] at h
    | some r =>
      simp only [hr, Option.map_some, Option.some.injEq] at h
      subst h
      obtain ⟨ih1, ih2⟩ := ih r hr
      have hc' := ofChar_some c' dir hdir
      subst hc'
      refine ⟨?_, ?_⟩
      · simp only [scan, isWord_toChar, and_self, ↓reduceIte, translate, lookupDir_toChar, ih1]
        rfl
      · simp only [piecesOfItems, List.flatMap_cons, List.mem_append, not_or] at ih2 ⊢
        refine ⟨?_, ih2⟩
        cases dir <;> simp [piecesOfItem, piecesOf]
  | case5 c' rest hdir =>
    simp [parseFmt, hdir] at h
  | case6 c c' rest hc ih =>
    simp only [parseFmt, hc, ↓reduceIte] at h
    cases hr : parseFmt (c' :: rest) with
    | none => simp [hr] at h
    | some r =>
      simp only [hr, Option.map_some, Option.some.injEq] at h
      subst h
      obtain ⟨ih1, ih2⟩ := ih r hr
      refine ⟨?_, ?_⟩
      · simp only [scan, hc, false_and, ↓reduceIte, translate, ih1]
        rfl
      · simp only [piecesOfItems, List.flatMap_cons, List.mem_append, not_or] at ih2 ⊢
        refine ⟨?_, ih2⟩
        simp only [piecesOfItem, List.mem_singleton, Piece.lit.injEq]
        exact fun e => hc e.symm

/-- One unknown `%`-letter anywhere makes the translation fail with `StrftimeSyntaxError`. -/
theorem translate_unsupported (items : List Item) (c : Char) (hmem : Item.dir c ∈ items)
    (hc : Dir.ofChar c = none) : translate items = .error .syntax := by
  induction items with
  | nil => simp at hmem
  | cons it rest ih =>
    cases it with
    | ch x =>
      simp only [List.mem_cons, reduceCtorEq, false_or] at hmem
      simp only [translate, ih hmem]
    | dir x =>
      simp only [translate]
      by_cases hx : x = c
      · subst hx
        rw [lookupDir_none x hc]
      · have hr : Item.dir c ∈ rest := by
          simp only [List.mem_cons, Item.dir.injEq] at hmem
          rcases hmem with h | h
          · exact absurd h.symm hx
          · exact h
        rw [ih hr]
        cases lookupDir x <;> rfl

/-! ### the property getters against the civil date-time -/

theorem unixEpoch_eq : unixEpoch = ⟨.cal 1970 1 1, 0, 0, 0, ⟨0, 0⟩⟩ := by decide

theorem unixEpoch_valid (m : Mode) : unixEpoch.Valid m := by
  rw [unixEpoch_eq]; cases m <;> decide

theorem unixEpoch_inst (m : Mode) : unixEpoch.inst m = epochInst m := by
  rw [unixEpoch_eq]
  simp [TP.inst, Spec.Date.dayNum, TP.secOfDay, TZ.seconds, epochInst]

/-- `seconds_since_unix_epoch` (C18) in the vocabulary of part 1. -/
theorem secondsSince_spec (m : Mode) (p : TP) (hp : p.Valid m) :
    secondsSinceUnixEpoch m p = some (p.inst m - epochInst m) := by
  obtain ⟨dd, hh, mm, ss, e, hl, _, _⟩ := subTP_spec m p unixEpoch hp (unixEpoch_valid m)
  rw [unixEpoch_inst] at hl
  simp only [secondsSinceUnixEpoch, e, Option.map_some, Dur.daysAndSeconds, secondsInDay_eq,
    secondsInHour_eq, secondsInMinute_eq, Option.some.injEq]
  have e1 : (0 : Int) * (calOf m).roughDaysInYear = 0 := by omega
  have e2 : (0 : Int) * (calOf m).roughDaysInMonth = 0 := by omega
  rw [e1, e2]
  omega

theorem forDump_spec (m : Mode) (p : TP) (hv : p.Valid m) :
    ∃ p', forDump m p = some p' ∧ p'.Valid m ∧ p'.date.rep ≠ 2 ∧
      p'.date.dayNum m = p.date.dayNum m ∧ p'.hh = p.hh ∧ p'.mi = p.mi ∧ p'.ss = p.ss ∧ p'.tz = p.tz := by
  unfold forDump
  by_cases h : p.date.rep = 2
  · rw [if_pos h]
    obtain ⟨r, he, hrv, hrr, hn⟩ := convert_spec m 0 (by omega) p.date hv.1
    rw [he]
    refine ⟨{ p with date := r }, rfl, ?_, ?_, hn, rfl, rfl, rfl, rfl⟩
    · obtain ⟨_, b⟩ := hv
      exact ⟨hrv, b⟩
    · show r.rep ≠ 2
      omega
  · rw [if_neg h]
    exact ⟨p, rfl, hv, h, rfl, rfl, rfl, rfl, rfl⟩

theorem isCivil_transfer (m : Mode) (p p' : TP) (c : Civil) (hc : IsCivil m p c)
    (hn : p'.date.dayNum m = p.date.dayNum m) (h1 : p'.hh = p.hh) (h2 : p'.mi = p.mi) (h3 : p'.ss = p.ss)
    (h4 : p'.tz = p.tz) : IsCivil m p' c := by
  obtain ⟨a, b, c1, d, e, f, g, h⟩ := hc
  refine ⟨a, by rw [hn]; exact b, by rw [hn]; exact c1, by rw [h1]; exact d, by rw [h2]; exact e,
    by rw [h3]; exact f, by rw [h4]; exact g, ?_⟩
  rw [h]
  simp only [TP.inst, TP.secOfDay, hn, h1, h2, h3, h4]

/-- The getters `month_of_year`, `day_of_month`, `day_of_year`, `year`, … of a valid calendar- or
    ordinal-date point return its civil fields. -/
theorem dumpCtx_spec (m : Mode) (p : TP) (hv : p.Valid m) (hrep : p.date.rep ≠ 2) (c : Civil)
    (hc : IsCivil m p c) :
    dumpCtx m p = some ⟨c.year, c.month, c.day, c.yday, p.hh, p.mi, p.ss, p.tz, c.unix⟩ := by
  obtain ⟨hcv, hcn, hyd, _, _, _, _, hux⟩ := hc
  obtain ⟨r0, he0, hv0, hr0, hn0⟩ := convert_spec m 0 (by omega) p.date hv.1
  obtain ⟨r1, he1, hv1, hr1, hn1⟩ := convert_spec m 1 (by omega) p.date hv.1
  have e0 : r0 = .cal c.year c.month c.day :=
    date_unique m r0 (.cal c.year c.month c.day) hv0 hcv (by rw [hr0]; rfl) (by rw [hn0]; exact hcn.symm)
  obtain ⟨y1, n1, e1⟩ := rep1_ord r1 hr1
  subst e0 e1
  have hrange1 := dayNumOrd_range m y1 n1 hv1
  have hrangec := dayNumCal_range m _ _ _ hcv
  have hn1' : Spec.dayNumOrd m y1 n1 = p.date.dayNum m := hn1
  have hy1 : y1 = c.year :=
    year_unique m y1 c.year (p.date.dayNum m) (by rw [← hn1']; exact hrange1) (by rw [← hcn]; exact hrangec)
  subst hy1
  have hnn : n1 = c.yday := by
    rw [hyd, ← hn1']; unfold Spec.dayNumOrd; omega
  subst hnn
  have hyear : dateYear p.date = c.year := by
    cases hd : p.date with
    | cal y mo d =>
      rw [hd] at he0
      simp only [convert, Option.some.injEq, Spec.Date.cal.injEq] at he0
      exact he0.1
    | ord y n =>
      rw [hd] at he1
      simp only [convert, Option.some.injEq, Spec.Date.ord.injEq] at he1
      exact he1.1
    | week y w d => rw [hd] at hrep; exact absurd rfl hrep
  unfold dumpCtx
  rw [he0, he1, secondsSince_spec m p hv]
  simp only [hyear, hux]

/-! ### rendering: the `%`-formatting of the translated pieces is the POSIX text -/

theorem civil_ranges (m : Mode) (p : TP) (hv : p.Valid m) (c : Civil) (hc : IsCivil m p c) :
    1 ≤ c.month ∧ c.month ≤ 12 ∧ 1 ≤ c.day ∧ c.day ≤ 31 ∧ 1 ≤ c.yday ∧ c.yday ≤ 366 ∧
    0 ≤ c.hour ∧ c.hour ≤ 24 ∧ 0 ≤ c.minute ∧ c.minute < 60 ∧ 0 ≤ c.second ∧ c.second < 60 := by
  obtain ⟨hcv, hcn, hyd, h1, h2, h3, _, _⟩ := hc
  obtain ⟨_, a1, a2, a3, a4, a5, a6, _, _⟩ := hv
  have hr := dayNumCal_range m _ _ _ hcv
  have hs := dby_succ m c.year
  have hb := yearLen_bounds m c.year
  obtain ⟨m1, m2, d1, d2⟩ := hcv
  have hml := monthLen_bounds m c.year c.month m1 m2
  rw [hcn] at hr
  refine ⟨m1, m2, d1, by omega, by omega, by omega, ?_, ?_, ?_, ?_, ?_, ?_⟩ <;> omega

theorem render4_split (y : Nat) : render 4 y = render 2 (y / 100) ++ render 2 (y % 100) := by
  have h1 : y / 10 / 10 / 10 % 10 = y / 100 / 10 % 10 := by omega
  have h2 : y / 10 / 10 % 10 = y / 100 % 10 := by omega
  have h3 : y / 10 % 10 = y % 100 / 10 % 10 := by omega
  have h4 : y % 10 = y % 100 % 10 := by omega
  simp only [render, List.nil_append, List.cons_append, h1, h2, h3, h4]

theorem render_year (y : Int) (h : 0 ≤ y ∧ y ≤ 9999) :
    zpad 2 (absI y % 10000 / 100) ++ zpad 2 (absI y % 100) = render 4 y.toNat := by
  have ha : absI y = y := by unfold absI; rw [if_neg (by omega)]
  rw [ha, zpad_eq_render 2 _ (by omega) (by omega) (by omega),
    zpad_eq_render 2 _ (by omega) (by omega) (by omega), render4_split]
  have e1 : (y % 10000 / 100).toNat = y.toNat / 100 := by omega
  have e2 : (y % 100).toNat = y.toNat % 100 := by omega
  rw [e1, e2]

theorem render_zone (z : TZ) (hz : z.Valid) :
    [if tzSign z < 0 then '-' else '+'] ++ zpad 2 (tzHourAbs z) ++ zpad 2 (tzMinuteAbs z) =
    (if 60 * z.h + z.mi < 0 then '-' else '+') ::
      (render 2 ((60 * z.h + z.mi).natAbs / 60) ++ render 2 ((60 * z.h + z.mi).natAbs % 60)) := by
  obtain ⟨h1, h2, h3, h4, h5, h6⟩ := hz
  have hs : (tzSign z < 0) ↔ (60 * z.h + z.mi < 0) := by
    unfold tzSign; split <;> omega
  have eh : (tzHourAbs z).toNat = (60 * z.h + z.mi).natAbs / 60 := by
    unfold tzHourAbs; split <;> omega
  have em : (tzMinuteAbs z).toNat = (60 * z.h + z.mi).natAbs % 60 := by
    unfold tzMinuteAbs; split <;> omega
  have bh : 0 ≤ tzHourAbs z ∧ (tzHourAbs z).toNat < 100 := by unfold tzHourAbs; split <;> omega
  have bm : 0 ≤ tzMinuteAbs z ∧ (tzMinuteAbs z).toNat < 100 := by unfold tzMinuteAbs; split <;> omega
  rw [zpad_eq_render 2 _ (by omega) bh.1 bh.2, zpad_eq_render 2 _ (by omega) bm.1 bm.2, eh, em]
  by_cases c : 60 * z.h + z.mi < 0
  · simp [c, hs.mpr c]
  · simp [c, mt hs.mp c]

/-- The dump context the model builds for a point whose civil date-time is `c`. -/
def ctxOf (p : TP) (c : Civil) : DumpCtx := ⟨c.year, c.month, c.day, c.yday, p.hh, p.mi, p.ss, p.tz, c.unix⟩

theorem render_dir (m : Mode) (p : TP) (hv : p.Valid m) (c : Civil) (hc : IsCivil m p c) (dir : Dir)
    (hy : SField.year ∈ dir.fields → 0 ≤ c.year ∧ c.year ≤ 9999) :
    renderPieces (ctxOf p c) (piecesOf dir) = field c dir := by
  obtain ⟨r1, r2, r3, r4, r5, r6, r7, r8, r9, r10, r11, r12⟩ := civil_ranges m p hv c hc
  obtain ⟨_, _, _, e1, e2, e3, e4, _⟩ := hc
  have hmo : zpad 2 c.month = render 2 c.month.toNat := zpad_eq_render 2 _ (by omega) (by omega) (by omega)
  have hd : zpad 2 c.day = render 2 c.day.toNat := zpad_eq_render 2 _ (by omega) (by omega) (by omega)
  have hj : zpad 3 c.yday = render 3 c.yday.toNat := zpad_eq_render 3 _ (by omega) (by omega) (by omega)
  have hH : zpad 2 p.hh = render 2 c.hour.toNat := by
    rw [← e1]; exact zpad_eq_render 2 _ (by omega) (by omega) (by omega)
  have hM : zpad 2 p.mi = render 2 c.minute.toNat := by
    rw [← e2]; exact zpad_eq_render 2 _ (by omega) (by omega) (by omega)
  have hS : zpad 2 p.ss = render 2 c.second.toNat := by
    rw [← e3]; exact zpad_eq_render 2 _ (by omega) (by omega) (by omega)
  have hz := render_zone p.tz hv.2.2.2.2.2.2.2.2
  rw [← e4] at hz
  cases dir
  case Y =>
    have hY := render_year c.year (hy (by simp [Dir.fields]))
    simpa [renderPieces, piecesOf, renderPiece, fmtOf, fmtVal, fldVal, ctxOf, field] using hY
  case m => simpa [renderPieces, piecesOf, renderPiece, fmtOf, fmtVal, fldVal, ctxOf, field] using hmo
  case d => simpa [renderPieces, piecesOf, renderPiece, fmtOf, fmtVal, fldVal, ctxOf, field] using hd
  case j => simpa [renderPieces, piecesOf, renderPiece, fmtOf, fmtVal, fldVal, ctxOf, field] using hj
  case H => simpa [renderPieces, piecesOf, renderPiece, fmtOf, fmtVal, fldVal, ctxOf, field] using hH
  case M => simpa [renderPieces, piecesOf, renderPiece, fmtOf, fmtVal, fldVal, ctxOf, field] using hM
  case S => simpa [renderPieces, piecesOf, renderPiece, fmtOf, fmtVal, fldVal, ctxOf, field] using hS
  case F =>
    have hY := render_year c.year (hy (by simp [Dir.fields]))
    show (zpad 2 (absI c.year % 10000 / 100) ++ (zpad 2 (absI c.year % 100) ++ (['-'] ++ (zpad 2 c.month ++
      (['-'] ++ (zpad 2 c.day ++ [])))))) = _
    rw [← List.append_assoc, hY, hmo, hd]
    simp [field]
  case X =>
    show (zpad 2 p.hh ++ ([':'] ++ (zpad 2 p.mi ++ ([':'] ++ (zpad 2 p.ss ++ []))))) = _
    rw [hH, hM, hS]
    simp [field]
  case z =>
    show ([if tzSign p.tz < 0 then '-' else '+'] ++ (zpad 2 (tzHourAbs p.tz) ++ (zpad 2 (tzMinuteAbs p.tz) ++ []))) = _
    rw [List.append_nil, ← List.append_assoc, hz]
    rfl
  case s =>
    show showInt c.unix ++ [] = _
    rw [List.append_nil, showInt_eq_decimalInt]
    rfl

theorem render_items (m : Mode) (p : TP) (hv : p.Valid m) (c : Civil) (hc : IsCivil m p c)
    (items : List FItem) (hy : SField.year ∈ fieldsOf items → 0 ≤ c.year ∧ c.year ≤ 9999) :
    renderPieces (ctxOf p c) (piecesOfItems items) = posix c items := by
  induction items with
  | nil => rfl
  | cons it rest ih =>
    unfold renderPieces piecesOfItems posix at *
    rw [List.flatMap_cons, List.flatMap_append, List.flatMap_cons]
    cases it with
    | lit ch => rw [ih (fun h => hy h)]; rfl
    | conv dir =>
      rw [ih (fun h => hy (by simp [fieldsOf, h]))]
      congr 1
      exact render_dir m p hv c hc dir (fun h => hy (by simp [fieldsOf, h]))

/-- The `century` property (and with it the year bounds check) is requested exactly by the
    conversions that name the year. -/
theorem century_mem (items : List FItem) (h : Piece.fld .century ∈ piecesOfItems items) :
    SField.year ∈ fieldsOf items := by
  induction items with
  | nil => simp [piecesOfItems] at h
  | cons it rest ih =>
    simp only [piecesOfItems, List.flatMap_cons, List.mem_append] at h
    cases it with
    | lit ch =>
      rcases h with h | h
      · simp [piecesOfItem] at h
      · exact ih h
    | conv dir =>
      simp only [fieldsOf, List.mem_append]
      rcases h with h | h
      · left
        cases dir <;> simp [piecesOfItem, piecesOf] at h <;> simp [Dir.fields]
      · exact Or.inr (ih h)

/-! ### strptime: which regex groups a format names -/

/-- The specification field a property belongs to. -/
def sf : Fld → SField
  | .century => .year | .yearOfCentury => .year | .monthOfYear => .month | .dayOfMonth => .day
  | .dayOfYear => .yday | .hourOfDay => .hour | .minuteOfHour => .minute | .secondOfMinute => .second
  | .tzSign => .zone | .tzHourAbs => .zone | .tzMinuteAbs => .zone | .unix => .unix

theorem fldsOf_append (a b : List Piece) : fldsOf (a ++ b) = fldsOf a ++ fldsOf b := by
  induction a with
  | nil => rfl
  | cons x xs ih => cases x <;> simp [fldsOf, ih]

theorem mem_fldsOf_dir (f : Fld) (dir : Dir) : f ∈ fldsOf (piecesOf dir) ↔ sf f ∈ dir.fields := by
  cases f <;> cases dir <;> decide

theorem nodup_fldsOf_dir (dir : Dir) : (fldsOf (piecesOf dir)).Nodup := by cases dir <;> decide

theorem mem_fldsOf_items (f : Fld) (items : List FItem) :
    f ∈ fldsOf (piecesOfItems items) ↔ sf f ∈ fieldsOf items := by
  induction items with
  | nil => simp [piecesOfItems, fldsOf, fieldsOf]
  | cons it rest ih =>
    unfold piecesOfItems at ih ⊢
    rw [List.flatMap_cons, fldsOf_append, List.mem_append, ih]
    cases it with
    | lit ch => simp [piecesOfItem, fldsOf, fieldsOf]
    | conv dir => simp only [piecesOfItem, fieldsOf, List.mem_append, mem_fldsOf_dir]

theorem nodup_fldsOf_items (items : List FItem) (h : (fieldsOf items).Nodup) :
    (fldsOf (piecesOfItems items)).Nodup := by
  induction items with
  | nil => simp [piecesOfItems, fldsOf]
  | cons it rest ih =>
    cases it with
    | lit ch =>
      have := ih h
      simpa [piecesOfItems, piecesOfItem, fldsOf, fldsOf_append] using this
    | conv dir =>
      simp only [fieldsOf] at h
      rw [List.nodup_append] at h
      obtain ⟨_, h2, h3⟩ := h
      have e : fldsOf (piecesOfItems (.conv dir :: rest)) =
          fldsOf (piecesOf dir) ++ fldsOf (piecesOfItems rest) := by
        simp [piecesOfItems, piecesOfItem, fldsOf_append]
      rw [e, List.nodup_append]
      refine ⟨nodup_fldsOf_dir dir, ih h2, ?_⟩
      intro a ha b hb hab
      subst hab
      exact h3 (sf a) ((mem_fldsOf_dir a dir).mp ha) (sf a) ((mem_fldsOf_items a rest).mp hb) rfl

theorem hasDup_false (fs : List Fld) (h : fs.Nodup) : hasDup fs = false := by
  induction fs with
  | nil => rfl
  | cons f rest ih =>
    rw [List.nodup_cons] at h
    simp only [hasDup, ih h.2, Bool.or_false, List.contains_eq_mem, decide_eq_false_iff_not]
    exact h.1

/-! ### strptime: the assembled regex matches what strftime printed, group by group -/

/-- The text printed for property `f`. -/
def valOf (c : DumpCtx) (f : Fld) : List Char := renderPiece c (.fld f)

/-- The printed text of `f` is matched (entirely) by the capture pattern of `f`. -/
def Fits (c : DumpCtx) (f : Fld) : Prop :=
  match patOf f with
  | .digits n => (valOf c f).length = n ∧ ∀ ch ∈ valOf c f, isDigitC ch = true
  | .signPM => valOf c f = ['+'] ∨ valOf c f = ['-']
  | .unixNum => unixSyntax (valOf c f) = true

def bindingsOf (c : DumpCtx) (ps : List Piece) : List (Fld × List Char) :=
  (fldsOf ps).map fun f => (f, valOf c f)

theorem patOf_unix (f : Fld) (h : patOf f = .unixNum) : f = .unix := by
  cases f <;> simp [patOf] at h <;> rfl

theorem renderPieces_cons (c : DumpCtx) (x : Piece) (ps : List Piece) :
    renderPieces c (x :: ps) = renderPiece c x ++ renderPieces c ps := by
  simp [renderPieces]

theorem width_rendered (c : DumpCtx) (ps : List Piece) (hfit : ∀ f ∈ fldsOf ps, Fits c f)
    (hnu : Fld.unix ∉ fldsOf ps) : (renderPieces c ps).length = (ps.map pieceWidth).sum := by
  induction ps with
  | nil => rfl
  | cons x xs ih =>
    rw [renderPieces_cons, List.length_append, List.map_cons, List.sum_cons]
    cases x with
    | lit ch =>
      rw [ih (fun f hf => hfit f (by simpa [fldsOf] using hf)) (by simpa [fldsOf] using hnu)]
      rfl
    | fld f =>
      simp only [fldsOf, List.mem_cons, not_or] at hnu
      rw [ih (fun g hg => hfit g (by simp [fldsOf, hg])) hnu.2]
      congr 1
      have hf := hfit f (by simp [fldsOf])
      unfold Fits at hf
      show (valOf c f).length = pieceWidth (.fld f)
      have hpw : pieceWidth (.fld f) =
          match patOf f with
          | .digits n => n
          | .signPM => 1
          | .unixNum => 0 := rfl
      rw [hpw]
      cases hp : patOf f with
      | digits n => rw [hp] at hf; exact hf.1
      | signPM =>
        rw [hp] at hf
        rcases hf with hf | hf <;> (rw [hf]; rfl)
      | unixNum => exact absurd (patOf_unix f hp).symm hnu.1

theorem all_of_forall (l : List Char) (h : ∀ ch ∈ l, isDigitC ch = true) : l.all isDigitC = true := by
  simpa using h

theorem match_rendered (c : DumpCtx) (ps : List Piece) (hfit : ∀ f ∈ fldsOf ps, Fits c f)
    (hnd : (fldsOf ps).Nodup) : matchPieces ps (renderPieces c ps) = some (bindingsOf c ps) := by
  induction ps with
  | nil => rfl
  | cons x xs ih =>
    rw [renderPieces_cons]
    cases x with
    | lit ch =>
      have := ih (fun f hf => hfit f (by simpa [fldsOf] using hf)) (by simpa [fldsOf] using hnd)
      simp only [renderPiece, List.singleton_append, matchPieces, ↓reduceIte, this]
      rfl
    | fld f =>
      simp only [fldsOf, List.nodup_cons] at hnd
      have ih' := ih (fun g hg => hfit g (by simp [fldsOf, hg])) hnd.2
      have hf := hfit f (by simp [fldsOf])
      unfold Fits at hf
      have hb : bindingsOf c (.fld f :: xs) = (f, valOf c f) :: bindingsOf c xs := rfl
      show matchPieces (.fld f :: xs) (valOf c f ++ renderPieces c xs) = _
      rw [hb]
      unfold matchPieces
      cases hp : patOf f with
      | digits n =>
        rw [hp] at hf
        obtain ⟨hl, hd⟩ := hf
        have ht : (valOf c f ++ renderPieces c xs).take n = valOf c f := by
          rw [← hl]; exact List.take_left
        have hdr : (valOf c f ++ renderPieces c xs).drop n = renderPieces c xs := by
          rw [← hl]; exact List.drop_left
        simp only [ht, hdr, ih', Option.map_some, all_of_forall _ hd, and_true, List.length_append]
        rw [if_pos (by omega)]
      | signPM =>
        rw [hp] at hf
        rcases hf with hf | hf <;> simp [hf, ih']
      | unixNum =>
        rw [hp] at hf
        have hfu := patOf_unix f hp
        have hw := width_rendered c xs (fun g hg => hfit g (by simp [fldsOf, hg])) (by rw [← hfu]; exact hnd.1)
        have hk : (valOf c f ++ renderPieces c xs).length - (xs.map pieceWidth).sum = (valOf c f).length := by
          rw [List.length_append, hw]; omega
        have ht : (valOf c f ++ renderPieces c xs).take (valOf c f).length = valOf c f := List.take_left
        have hdr : (valOf c f ++ renderPieces c xs).drop (valOf c f).length = renderPieces c xs :=
          List.drop_left
        simp only [hk, ht, hdr, hf, ih', Option.map_some, and_true]
        rw [if_pos (by rw [List.length_append, hw]; omega)]

theorem lookup_bindings (c : DumpCtx) (fs : List Fld) (f : Fld) :
    (fs.map fun g => (g, valOf c g)).lookup f = if f ∈ fs then some (valOf c f) else none := by
  induction fs with
  | nil => rfl
  | cons g rest ih =>
    simp only [List.map_cons, List.lookup_cons, List.mem_cons]
    by_cases h : f = g
    · subst h; simp
    · have : (f == g) = false := by simpa using h
      rw [this, ih]
      simp [h]

/-! ### strptime: Unix-time text -/

theorem isDigitC_ne_minus (ch : Char) (h : isDigitC ch = true) : ch ≠ '-' := by
  intro e; subst e; exact absurd h (by decide)

theorem decimal_head (n : Nat) : ∃ d0 tl, decimal n = d0 :: tl ∧ isDigitC d0 = true := by
  have hne := decimal_ne_nil n
  cases hd : decimal n with
  | nil => exact absurd hd hne
  | cons d0 tl => exact ⟨d0, tl, rfl, decimal_digits n d0 (by rw [hd]; simp)⟩

theorem takeWhile_all (l : List Char) (h : ∀ ch ∈ l, isDigitC ch = true) :
    l.takeWhile isDigitC = l ∧ l.dropWhile isDigitC = [] := by
  induction l with
  | nil => exact ⟨rfl, rfl⟩
  | cons x xs ih =>
    have hx := h x (by simp)
    have := ih (fun ch hc => h ch (by simp [hc]))
    simp [List.takeWhile, List.dropWhile, hx, this.1, this.2]

/-- The body of a Unix-time text: the text without its minus sign. -/
def unixBody (s : List Char) : List Char :=
  match s with
  | '-' :: r => r
  | r => r

def unixNeg (s : List Char) : Bool :=
  match s with
  | '-' :: _ => true
  | _ => false

theorem unixBody_digits (s : List Char) (d0 : Char) (tl : List Char) (hs : s = d0 :: tl)
    (hd : isDigitC d0 = true) : unixBody s = s ∧ unixNeg s = false := by
  subst hs
  have hne := isDigitC_ne_minus d0 hd
  unfold unixBody unixNeg
  constructor
  · split
    · rename_i r heq; simp only [List.cons.injEq] at heq; exact absurd heq.1 hne
    · rfl
  · split
    · rename_i r heq; simp only [List.cons.injEq] at heq; exact absurd heq.1 hne
    · rfl

theorem unixSyntax_eq (s : List Char) :
    unixSyntax s = (!((unixBody s).takeWhile isDigitC).isEmpty &&
      (match (unixBody s).dropWhile isDigitC with
       | [] => true
       | ch :: r => (ch == ',' || ch == '.') && r.all isDigitC)) := rfl

theorem parseUnix_eq (s : List Char) :
    parseUnix s =
      (match (unixBody s).dropWhile isDigitC with
       | [] => .ok (if unixNeg s then -(parseNat ((unixBody s).takeWhile isDigitC) : Int)
                    else (parseNat ((unixBody s).takeWhile isDigitC) : Int))
       | ch :: r =>
         if ch == ',' then .error .value
         else if r.all (· == '0') then
           .ok (if unixNeg s then -(parseNat ((unixBody s).takeWhile isDigitC) : Int)
                else (parseNat ((unixBody s).takeWhile isDigitC) : Int))
         else .error .badInput) := rfl

theorem unix_text (z : Int) :
    unixSyntax (decimalInt z) = true ∧ parseUnix (decimalInt z) = .ok z := by
  obtain ⟨d0, tl, hd, hdig⟩ := decimal_head (if z < 0 then z.natAbs else z.toNat)
  have hall := decimal_digits (if z < 0 then z.natAbs else z.toNat)
  have htw := takeWhile_all _ hall
  have hpn := parseNat_decimal (if z < 0 then z.natAbs else z.toNat)
  by_cases hz : z < 0
  · simp only [hz, ↓reduceIte] at hd hall htw hpn
    have hb : unixBody (decimalInt z) = decimal z.natAbs ∧ unixNeg (decimalInt z) = true := by
      unfold decimalInt; rw [if_pos hz]; exact ⟨rfl, rfl⟩
    rw [unixSyntax_eq, parseUnix_eq, hb.1, hb.2, htw.1, htw.2, hpn, hd]
    refine ⟨rfl, ?_⟩
    simp only [↓reduceIte]
    congr 1
    omega
  · simp only [hz, ↓reduceIte] at hd hall htw hpn
    have hdz : decimalInt z = decimal z.toNat := by unfold decimalInt; rw [if_neg hz]
    have hb := unixBody_digits (decimalInt z) d0 tl (by rw [hdz, hd]) hdig
    rw [unixSyntax_eq, parseUnix_eq, hb.1, hb.2, hdz, htw.1, htw.2, hpn, hd]
    refine ⟨rfl, ?_⟩
    simp only [Bool.false_eq_true, ↓reduceIte]
    congr 1
    omega

/-! ### strptime: from the captured groups back to the point -/

theorem zpad_fits (w : Nat) (z : Int) (hw : 1 ≤ w) (h0 : 0 ≤ z) (h1 : z.toNat < 10 ^ w) :
    (zpad w z).length = w ∧ (∀ ch ∈ zpad w z, isDigitC ch = true) ∧ (parseNat (zpad w z) : Int) = z := by
  rw [zpad_eq_render w z hw h0 h1]
  refine ⟨render_length _ _, render_digits _ _, ?_⟩
  rw [parseNat_render, Nat.mod_eq_of_lt h1]
  omega

theorem tz_abs_bounds (z : TZ) (hz : z.Valid) :
    0 ≤ tzHourAbs z ∧ (tzHourAbs z).toNat < 10 ^ 2 ∧ 0 ≤ tzMinuteAbs z ∧ (tzMinuteAbs z).toNat < 10 ^ 2 := by
  obtain ⟨h1, h2, h3, h4, h5, h6⟩ := hz
  unfold tzHourAbs tzMinuteAbs
  split <;> split <;> omega

/-- Every property of a valid point with a civil year in 0000–9999 prints a text its own capture
    pattern matches. -/
theorem fits_all (m : Mode) (p : TP) (hv : p.Valid m) (c : Civil) (hc : IsCivil m p c)
    (hy : 0 ≤ c.year ∧ c.year ≤ 9999) (f : Fld) : Fits (ctxOf p c) f := by
  obtain ⟨r1, r2, r3, r4, r5, r6, r7, r8, r9, r10, r11, r12⟩ := civil_ranges m p hv c hc
  obtain ⟨_, _, _, e1, e2, e3, e4, _⟩ := hc
  have ha : absI c.year = c.year := by unfold absI; rw [if_neg (by omega)]
  obtain ⟨t1, t2, t3, t4⟩ := tz_abs_bounds p.tz hv.2.2.2.2.2.2.2.2
  cases f
  case century =>
    have := zpad_fits 2 (absI c.year % 10000 / 100) (by omega) (by omega) (by omega)
    exact ⟨this.1, this.2.1⟩
  case yearOfCentury =>
    have := zpad_fits 2 (absI c.year % 100) (by omega) (by omega) (by omega)
    exact ⟨this.1, this.2.1⟩
  case monthOfYear =>
    have := zpad_fits 2 c.month (by omega) (by omega) (by omega)
    exact ⟨this.1, this.2.1⟩
  case dayOfMonth =>
    have := zpad_fits 2 c.day (by omega) (by omega) (by omega)
    exact ⟨this.1, this.2.1⟩
  case dayOfYear =>
    have := zpad_fits 3 c.yday (by omega) (by omega) (by omega)
    exact ⟨this.1, this.2.1⟩
  case hourOfDay =>
    have := zpad_fits 2 p.hh (by omega) (by omega) (by omega)
    exact ⟨this.1, this.2.1⟩
  case minuteOfHour =>
    have := zpad_fits 2 p.mi (by omega) (by omega) (by omega)
    exact ⟨this.1, this.2.1⟩
  case secondOfMinute =>
    have := zpad_fits 2 p.ss (by omega) (by omega) (by omega)
    exact ⟨this.1, this.2.1⟩
  case tzSign =>
    show ([if tzSign p.tz < 0 then '-' else '+'] = ['+'] ∨ [if tzSign p.tz < 0 then '-' else '+'] = ['-'])
    split
    · exact Or.inr rfl
    · exact Or.inl rfl
  case tzHourAbs =>
    have := zpad_fits 2 (tzHourAbs p.tz) (by omega) t1 t2
    exact ⟨this.1, this.2.1⟩
  case tzMinuteAbs =>
    have := zpad_fits 2 (tzMinuteAbs p.tz) (by omega) t3 t4
    exact ⟨this.1, this.2.1⟩
  case unix =>
    show unixSyntax (showInt c.unix) = true
    rw [showInt_eq_decimalInt]
    exact (unix_text c.unix).1

theorem numOf_bindings (c : DumpCtx) (ps : List Piece) (f : Fld) :
    numOf (bindingsOf c ps) f = if f ∈ fldsOf ps then some (parseNat (valOf c f) : Int) else none := by
  unfold numOf bindingsOf
  rw [lookup_bindings]
  split <;> rfl

theorem mkTZ_valid (m : Mode) (z : TZ) (hz : z.Valid) : mkTZ m z.h z.mi = some z := by
  unfold mkTZ
  rw [minutesInHour_eq]
  simp only
  unfold TZ.Valid at hz
  rw [if_neg (by omega), if_neg]
  split <;> split <;> omega

theorem zone_back (z : TZ) (hz : z.Valid) :
    (if tzSign z < 0 then (⟨-(tzHourAbs z), -(tzMinuteAbs z)⟩ : TZ) else ⟨tzHourAbs z, tzMinuteAbs z⟩) = z := by
  obtain ⟨zh, zm⟩ := z
  obtain ⟨h1, h2, h3, h4, h5, h6⟩ := hz
  simp only at h1 h2 h3 h4 h5 h6
  unfold tzSign tzHourAbs tzMinuteAbs
  simp only
  split <;> split <;> split <;> split <;> simp only [TZ.mk.injEq] <;> omega

theorem fromUnix_local (m : Mode) (n : Int) (loc : TZ) (hz : loc.Valid) :
    ∃ q, fromUnix m n (some loc) = some q ∧ q.inst m = epochInst m + n ∧ q.Strict m ∧ q.tz = loc := by
  obtain ⟨r, e1, i1, t1, r1, v1, _⟩ := toTimeZone_spec m unixEpoch loc (unixEpoch_valid m) hz
  obtain ⟨q, e, g⟩ := addDur_exact_units m r 0 0 0 n v1
  refine ⟨q, ?_, ?_, g.strict, ?_⟩
  · simp only [fromUnix, e1, Option.bind_some, e]
  · rw [g.inst, i1, unixEpoch_inst]; omega
  · rw [g.tz, t1]

/-- The `TimePoint(...)` call accepts the fields of a valid point. -/
theorem mkPoint_valid (m : Mode) (q : TP) (hq : q.Valid m) (hrep : q.date.rep ≠ 2)
    (mo d doy : Option Int)
    (hdate : (∃ y mm dd, q.date = .cal y mm dd ∧ mo = some mm ∧ d = some dd ∧ doy = none) ∨
             (∃ y n, q.date = .ord y n ∧ mo = none ∧ d = none ∧ doy = some n)) :
    mkPoint m (dateYear q.date) mo d doy (some q.hh) (some q.mi) (some q.ss) q.tz.h q.tz.mi = .ok q := by
  obtain ⟨hdv, a1, a2, a3, a4, a5, a6, a7, hz⟩ := hq
  have htime : timeOk m q.hh q.mi q.ss = true := by
    unfold timeOk
    rw [hoursInDay_eq, minutesInHour_eq, secondsInMinute_eq]
    by_cases h24 : q.hh = 24
    · have := a7 h24
      simp [h24, this.1, this.2]
    · simp only [h24, ↓reduceIte, Bool.and_eq_true, decide_eq_true_eq]
      omega
  unfold mkPoint
  rw [mkTZ_valid m q.tz hz]
  simp only [Option.getD_some]
  rcases hdate with ⟨y, mm, dd, hd, rfl, rfl, rfl⟩ | ⟨y, n, hd, rfl, rfl, rfl⟩
  · rw [hd] at hdv
    obtain ⟨v1, v2, v3, v4⟩ := hdv
    have hok : dateOk m (.cal y mm dd) = true := by
      simp only [dateOk, monthsInYear_eq, daysInMonth_eq m y mm v1 v2, decide_eq_true_eq]
      exact ⟨v1, v2, v3, v4⟩
    simp only [Option.isSome_none, Bool.false_eq_true, and_false, false_and, ↓reduceIte, Option.getD_some, hd,
      dateYear, pickDate, hok, htime, Bool.and_self]
    obtain ⟨qd, qh, qm, qs, qz⟩ := q
    simp only at hd
    subst hd
    rfl
  · rw [hd] at hdv
    obtain ⟨v1, v2⟩ := hdv
    have hok : dateOk m (.ord y n) = true := by
      simp only [dateOk, daysInYear_eq, decide_eq_true_eq]
      exact ⟨v1, v2⟩
    simp only [Option.getD_none, ne_eq, not_true_eq_false, or_self, false_and, and_false, Option.isSome_none,
      Bool.false_eq_true, ↓reduceIte, hd, dateYear, pickDate, hok, htime, Bool.and_self]
    obtain ⟨qd, qh, qm, qs, qz⟩ := q
    simp only at hd
    subst hd
    rfl

theorem lookup_bindingsOf (c : DumpCtx) (ps : List Piece) (f : Fld) :
    (bindingsOf c ps).lookup f = if f ∈ fldsOf ps then some (valOf c f) else none := by
  unfold bindingsOf; exact lookup_bindings c (fldsOf ps) f

theorem hasZone_bindings (c : DumpCtx) (ps : List Piece) (h : Fld.tzSign ∈ fldsOf ps) :
    ((bindingsOf c ps).any fun e => clsOf e.1 == .zone) = true := by
  rw [List.any_eq_true]
  exact ⟨(.tzSign, valOf c .tzSign), List.mem_map.mpr ⟨.tzSign, h, rfl⟩, rfl⟩

theorem sign_captured (z : TZ) :
    (some [if tzSign z < 0 then '-' else '+'] == some ['-']) = decide (tzSign z < 0) := by
  by_cases h : tzSign z < 0
  · simp [h]
  · simp only [h, ↓reduceIte, decide_false]
    decide

/-- From the groups captured out of the printed text of a format that names year, hour, minute,
    second, zone and either month + day or the day of the year (and not `%s`), the parser rebuilds a
    valid point with the same local date, clock fields and offset, hence the same instant. -/
theorem assemble_full (m : Mode) (p : TP) (hv : p.Valid m) (c : Civil) (hc : IsCivil m p c)
    (hy : 0 ≤ c.year ∧ c.year ≤ 9999) (cfg : PCfg) (loc : TZ) (ps : List Piece)
    (hnu : Fld.unix ∉ fldsOf ps) (h1 : Fld.century ∈ fldsOf ps) (h2 : Fld.yearOfCentury ∈ fldsOf ps)
    (h3 : Fld.hourOfDay ∈ fldsOf ps) (h4 : Fld.minuteOfHour ∈ fldsOf ps) (h5 : Fld.secondOfMinute ∈ fldsOf ps)
    (h6 : Fld.tzSign ∈ fldsOf ps) (h7 : Fld.tzHourAbs ∈ fldsOf ps) (h8 : Fld.tzMinuteAbs ∈ fldsOf ps)
    (hdate : (Fld.monthOfYear ∈ fldsOf ps ∧ Fld.dayOfMonth ∈ fldsOf ps ∧ Fld.dayOfYear ∉ fldsOf ps) ∨
             (Fld.dayOfYear ∈ fldsOf ps ∧ Fld.monthOfYear ∉ fldsOf ps ∧ Fld.dayOfMonth ∉ fldsOf ps)) :
    ∃ q, assemble m cfg loc (bindingsOf (ctxOf p c) ps) = .ok q ∧ q.inst m = p.inst m ∧ q.Valid m ∧
      q.tz = p.tz ∧ q.hh = p.hh ∧ q.mi = p.mi ∧ q.ss = p.ss ∧ q.date.rep ≠ 2 := by
  obtain ⟨r1, r2, r3, r4, r5, r6, r7, r8, r9, r10, r11, r12⟩ := civil_ranges m p hv c hc
  obtain ⟨hcv, hcn, hyd, e1, e2, e3, e4, _⟩ := hc
  have hzv : p.tz.Valid := hv.2.2.2.2.2.2.2.2
  have ha : absI c.year = c.year := by unfold absI; rw [if_neg (by omega)]
  obtain ⟨t1, t2, t3, t4⟩ := tz_abs_bounds p.tz hzv
  have vcen : (parseNat (valOf (ctxOf p c) .century) : Int) = absI c.year % 10000 / 100 :=
    (zpad_fits 2 (absI c.year % 10000 / 100) (by omega) (by omega) (by omega)).2.2
  have vyoc : (parseNat (valOf (ctxOf p c) .yearOfCentury) : Int) = absI c.year % 100 :=
    (zpad_fits 2 (absI c.year % 100) (by omega) (by omega) (by omega)).2.2
  have vmo : (parseNat (valOf (ctxOf p c) .monthOfYear) : Int) = c.month :=
    (zpad_fits 2 c.month (by omega) (by omega) (by omega)).2.2
  have vd : (parseNat (valOf (ctxOf p c) .dayOfMonth) : Int) = c.day :=
    (zpad_fits 2 c.day (by omega) (by omega) (by omega)).2.2
  have vj : (parseNat (valOf (ctxOf p c) .dayOfYear) : Int) = c.yday :=
    (zpad_fits 3 c.yday (by omega) (by omega) (by omega)).2.2
  have vH : (parseNat (valOf (ctxOf p c) .hourOfDay) : Int) = p.hh :=
    (zpad_fits 2 p.hh (by omega) (by omega) (by omega)).2.2
  have vM : (parseNat (valOf (ctxOf p c) .minuteOfHour) : Int) = p.mi :=
    (zpad_fits 2 p.mi (by omega) (by omega) (by omega)).2.2
  have vS : (parseNat (valOf (ctxOf p c) .secondOfMinute) : Int) = p.ss :=
    (zpad_fits 2 p.ss (by omega) (by omega) (by omega)).2.2
  have vzh : (parseNat (valOf (ctxOf p c) .tzHourAbs) : Int) = tzHourAbs p.tz :=
    (zpad_fits 2 (tzHourAbs p.tz) (by omega) t1 t2).2.2
  have vzm : (parseNat (valOf (ctxOf p c) .tzMinuteAbs) : Int) = tzMinuteAbs p.tz :=
    (zpad_fits 2 (tzMinuteAbs p.tz) (by omega) t3 t4).2.2
  have vsign : valOf (ctxOf p c) .tzSign = [if tzSign p.tz < 0 then '-' else '+'] := rfl
  have hyear : 100 * (absI c.year % 10000 / 100) + absI c.year % 100 = c.year := by rw [ha]; omega
  have hzone := zone_back p.tz hzv
  -- what `assemble` hands to the constructor
  have hasm : ∀ mo d doy,
      numOf (bindingsOf (ctxOf p c) ps) .monthOfYear = mo → numOf (bindingsOf (ctxOf p c) ps) .dayOfMonth = d →
      numOf (bindingsOf (ctxOf p c) ps) .dayOfYear = doy →
      assemble m cfg loc (bindingsOf (ctxOf p c) ps) =
        mkPoint m c.year mo d doy (some p.hh) (some p.mi) (some p.ss) p.tz.h p.tz.mi := by
    intro mo d doy hmo hd hdoy
    unfold assemble
    simp only [lookup_bindingsOf, hnu, ↓reduceIte, h6, vsign, sign_captured, hasZone_bindings _ _ h6,
      hmo, hd, hdoy, numOf_bindings, h1, h2, h3, h4, h5, h7, h8, vcen, vyoc, vH, vM, vS, vzh, vzm,
      Option.getD_some, hyear]
    by_cases hs : tzSign p.tz < 0
    · simp only [hs, ↓reduceIte, decide_true] at hzone ⊢
      have hh : -tzHourAbs p.tz = p.tz.h := congrArg TZ.h hzone
      have hm : -tzMinuteAbs p.tz = p.tz.mi := congrArg TZ.mi hzone
      rw [hh, hm]
    · simp only [hs, ↓reduceIte, decide_false, Bool.false_eq_true] at hzone ⊢
      have hh : tzHourAbs p.tz = p.tz.h := congrArg TZ.h hzone
      have hm : tzMinuteAbs p.tz = p.tz.mi := congrArg TZ.mi hzone
      rw [hh, hm]
  rcases hdate with ⟨d1, d2, d3⟩ | ⟨d1, d2, d3⟩
  · let q : TP := ⟨.cal c.year c.month c.day, p.hh, p.mi, p.ss, p.tz⟩
    have hq : q.Valid m := by
      obtain ⟨_, b⟩ := hv
      exact ⟨hcv, b⟩
    refine ⟨q, ?_, ?_, hq, rfl, rfl, rfl, rfl, by simp [q, Spec.Date.rep]⟩
    · rw [hasm (some c.month) (some c.day) none (by rw [numOf_bindings, if_pos d1, vmo])
        (by rw [numOf_bindings, if_pos d2, vd]) (by rw [numOf_bindings, if_neg d3])]
      exact mkPoint_valid m q hq (by simp [q, Spec.Date.rep]) _ _ _ (Or.inl ⟨c.year, c.month, c.day, rfl, rfl, rfl, rfl⟩)
    · simp only [TP.inst, TP.secOfDay, Spec.Date.dayNum, q, hcn]
  · let q : TP := ⟨.ord c.year c.yday, p.hh, p.mi, p.ss, p.tz⟩
    have hr := dayNumCal_range m _ _ _ hcv
    have hs := dby_succ m c.year
    have hq : q.Valid m := by
      obtain ⟨_, b⟩ := hv
      refine ⟨?_, b⟩
      show Spec.ValidOrd m c.year c.yday
      unfold Spec.ValidOrd
      rw [hcn] at hr
      omega
    refine ⟨q, ?_, ?_, hq, rfl, rfl, rfl, rfl, by simp [q, Spec.Date.rep]⟩
    · rw [hasm none none (some c.yday) (by rw [numOf_bindings, if_neg d2])
        (by rw [numOf_bindings, if_neg d3]) (by rw [numOf_bindings, if_pos d1, vj])]
      exact mkPoint_valid m q hq (by simp [q, Spec.Date.rep]) _ _ _ (Or.inr ⟨c.year, c.yday, rfl, rfl, rfl, rfl⟩)
    · simp only [TP.inst, TP.secOfDay, Spec.Date.dayNum, q, Spec.dayNumOrd, hyd]
      omega

/-- `%s` (without `%z`): the text is read back as the local-zone point of that Unix time. -/
theorem assemble_unix (m : Mode) (p : TP) (c : Civil) (hux : c.unix = p.inst m - epochInst m)
    (cfg : PCfg) (loc : TZ) (hloc : loc.Valid) (ps : List Piece) (hu : Fld.unix ∈ fldsOf ps)
    (hns : Fld.tzSign ∉ fldsOf ps) :
    ∃ q, assemble m cfg loc (bindingsOf (ctxOf p c) ps) = .ok q ∧ q.inst m = p.inst m ∧ q.Strict m ∧
      q.tz = loc := by
  obtain ⟨q, hq, hi, hs, ht⟩ := fromUnix_local m c.unix loc hloc
  refine ⟨q, ?_, by rw [hi, hux]; omega, hs, ht⟩
  have hv : valOf (ctxOf p c) .unix = decimalInt c.unix := by
    show showInt c.unix = _
    exact showInt_eq_decimalInt _
  unfold assemble
  simp only [lookup_bindingsOf, hu, hns, ↓reduceIte, hv, (unix_text c.unix).2, hq]
  rfl

/-! ### strptime: what is absent from the format is absent from the captured groups -/

theorem keys_of_match (ps : List Piece) (data : List Char) (b : List (Fld × List Char))
    (h : matchPieces ps data = some b) : b.map (·.1) = fldsOf ps := by
  induction ps generalizing data b with
  | nil =>
    cases data with
    | nil => simp only [matchPieces, Option.some.injEq] at h; subst h; rfl
    | cons x xs => simp [matchPieces] at h
  | cons x xs ih =>
    cases x with
    | lit ch =>
      cases data with
      | nil => simp [matchPieces] at h
      | cons y ys =>
        simp only [matchPieces] at h
        split at h
        · exact ih ys b h
        · exact absurd h (by simp)
    | fld f =>
      unfold matchPieces at h
      cases hp : patOf f with
      | digits n =>
        simp only [hp] at h
        split at h
        · cases hr : matchPieces xs (List.drop n data) with
          | none => simp [hr] at h
          | some b' =>
            simp only [hr, Option.map_some, Option.some.injEq] at h
            subst h
            simp [fldsOf, ih _ b' hr]
        · exact absurd h (by simp)
      | signPM =>
        simp only [hp] at h
        cases data with
        | nil => simp at h
        | cons y ys =>
          simp only at h
          split at h
          · cases hr : matchPieces xs ys with
            | none => simp [hr] at h
            | some b' =>
              simp only [hr, Option.map_some, Option.some.injEq] at h
              subst h
              simp [fldsOf, ih _ b' hr]
          · exact absurd h (by simp)
      | unixNum =>
        simp only [hp] at h
        split at h
        · cases hr : matchPieces xs (List.drop (data.length - (xs.map pieceWidth).sum) data) with
          | none => simp [hr] at h
          | some b' =>
            simp only [hr, Option.map_some, Option.some.injEq] at h
            subst h
            simp [fldsOf, ih _ b' hr]
        · exact absurd h (by simp)

theorem lookup_absent (b : List (Fld × List Char)) (f : Fld) (h : f ∉ b.map (·.1)) : b.lookup f = none := by
  induction b with
  | nil => rfl
  | cons e rest ih =>
    simp only [List.map_cons, List.mem_cons, not_or] at h
    obtain ⟨k, v⟩ := e
    have : (f == k) = false := by simpa using h.1
    simp only [List.lookup_cons, this]
    exact ih h.2

theorem mkTZ_inv (m : Mode) (h mi : Int) (z : TZ) (hz : mkTZ m h mi = some z) :
    z = ⟨h, mi⟩ ∧ z.Valid := by
  unfold mkTZ at hz
  rw [minutesInHour_eq] at hz
  by_cases c1 : h < -99 ∨ h > 99
  · rw [if_pos c1] at hz; exact absurd hz (by simp)
  · rw [if_neg c1] at hz
    simp only at hz
    by_cases c2 : mi < (if h > 0 then 0 else 1 - 60) ∨ mi > (if h < 0 then 0 else 60 - 1)
    · rw [if_pos c2] at hz; exact absurd hz (by simp)
    · rw [if_neg c2] at hz
      simp only [Option.some.injEq] at hz
      subst hz
      refine ⟨rfl, ?_⟩
      unfold TZ.Valid
      simp only
      split at c2 <;> split at c2 <;> omega

/-- What an accepted `TimePoint(...)` call returns: absent clock fields are zero, an absent month or
    day is 1 (unless a day of the year is given), the zone is the one handed in. -/
theorem mkPoint_inv (m : Mode) (year : Int) (mo d doy hh mi ss : Option Int) (tzh tzm : Int) (q : TP)
    (h : mkPoint m year mo d doy hh mi ss tzh tzm = .ok q) :
    q.hh = hh.getD 0 ∧ q.mi = mi.getD 0 ∧ q.ss = ss.getD 0 ∧ q.tz = ⟨tzh, tzm⟩ ∧
    q.date = pickDate year mo d doy ∧ q.Valid m := by
  cases hz : mkTZ m tzh tzm with
  | none => unfold mkPoint at h; rw [hz] at h; exact absurd h (by simp)
  | some z =>
    obtain ⟨hzz, hzv⟩ := mkTZ_inv m tzh tzm z hz
    unfold mkPoint at h
    rw [hz] at h
    simp only at h
    generalize pickDate year mo d doy = date at h ⊢
    by_cases c1 : (mo.getD 0 ≠ 0 ∨ d.getD 0 ≠ 0) ∧ doy.isSome = true
    · rw [if_pos c1] at h; exact absurd h (by simp)
    · rw [if_neg c1] at h
      by_cases c3 : doy.isSome = true ∧ (mo.isSome = true ∨ d.isSome = true)
      · rw [if_pos c3] at h; exact absurd h (by simp)
      rw [if_neg c3] at h
      by_cases c2 : (dateOk m date && timeOk m (hh.getD 0) (mi.getD 0) (ss.getD 0)) = true
      · rw [if_pos c2] at h
        simp only [Except.ok.injEq] at h
        subst h
        refine ⟨rfl, rfl, rfl, hzz, rfl, ?_⟩
        simp only [Bool.and_eq_true] at c2
        obtain ⟨hd, ht⟩ := c2
        unfold timeOk at ht
        rw [hoursInDay_eq, minutesInHour_eq, secondsInMinute_eq] at ht
        simp only [Bool.and_eq_true, decide_eq_true_eq] at ht
        obtain ⟨⟨t1, t2, t3, t4⟩, t5⟩ := ht
        have hdv : Spec.Date.Valid m date := by
          cases date with
          | cal y mm dd =>
            simp only [dateOk, monthsInYear_eq, decide_eq_true_eq] at hd
            obtain ⟨v1, v2, v3, v4⟩ := hd
            rw [daysInMonth_eq m y mm v1 v2] at v4
            exact ⟨v1, v2, v3, v4⟩
          | ord y n =>
            simp only [dateOk, daysInYear_eq, decide_eq_true_eq] at hd
            exact hd
          | week y w dd => simp [dateOk] at hd
        by_cases h24 : hh.getD 0 = 24
        · rw [if_pos h24] at t5
          simp only [decide_eq_true_eq] at t5
          exact ⟨hdv, t1, t2, t3, by show mi.getD 0 < 60; omega, t4, by show ss.getD 0 < 60; omega,
            fun _ => t5, hzv⟩
        · rw [if_neg h24] at t5
          simp only [decide_eq_true_eq] at t5
          exact ⟨hdv, t1, t2, t3, t5.1, t4, t5.2, fun e => absurd e h24, hzv⟩
      · rw [if_neg c2] at h; exact absurd h (by simp)

theorem lookup_present (b : List (Fld × List Char)) (f : Fld) (h : f ∈ b.map (·.1)) :
    ∃ v, b.lookup f = some v := by
  induction b with
  | nil => simp at h
  | cons e rest ih =>
    obtain ⟨k, v⟩ := e
    simp only [List.map_cons, List.mem_cons] at h
    by_cases hk : f = k
    · subst hk; exact ⟨v, by simp⟩
    · have : (f == k) = false := by simpa using hk
      simp only [List.lookup_cons, this]
      exact ih (h.resolve_left hk)

theorem any_zone_false (b : List (Fld × List Char)) (items : List FItem)
    (hkeys : b.map (·.1) = fldsOf (piecesOfItems items))
    (hz : SField.zone ∉ fieldsOf items) (hu : SField.unix ∉ fieldsOf items) :
    (b.any fun e => clsOf e.1 == .zone) = false := by
  rw [List.any_eq_false]
  intro e he
  have hmem : e.1 ∈ fldsOf (piecesOfItems items) := by
    rw [← hkeys]; exact List.mem_map_of_mem he
  rw [mem_fldsOf_items] at hmem
  generalize e.1 = k at hmem
  cases k <;> first
    | exact absurd hmem hz
    | exact absurd hmem hu
    | (simp [clsOf])

end IsoDT.Lemmas.Strf
