/-
  C18 / C17 (the strptime glue) — from the groups a `strptime` match captured to the `TimePoint`,
  THROUGH the parser's zone processing.

  Model: `Model/StrptimeZone.lean` — `_parse_from_custom_regex` after the match, dictionary by
  dictionary: the `%s` translator (`get_timepoint_properties_from_seconds_since_unix_epoch`), the
  date / time / ELSE partition, `process_time_zone_info` (`assumed_time_zone`,
  `default_to_unknown_time_zone`, `timezone.get_local_time_zone()`), `_create_timepoint_from_info`,
  the constructor (`Model.mkTP`).  `strpZone m cfg loc mt` is
  `TimePointParser(assumed_time_zone=cfg.assumed, default_to_unknown_time_zone=cfg.defaultUnknown)
   .strptime(text, fmt)` for a text matching `fmt` with captured values `mt`, in a process whose local
  zone is `loc`.  Lemmas: `Lemmas/StrptimeZone.lean`.

  * `C18_strptime_unix_instant`        `%s`: for EVERY n, mode, legal local zone and parser
                                        configuration the result is the instant epoch + n, in the
                                        LOCAL zone: `assumed_time_zone` is never applied to a Unix
                                        time (nor is the unknown-zone default);
  * `C18_strptime_unix_any_fields`     … and whatever else the format captures beside `%s` (date and
                                        time fields) is overridden by it;
  * `C18_strptime_unix_zero_fields`    the same spelled out for results whose year, hour, minute,
                                        second and local offset are all ZERO (nothing in the glue looks
                                        at the truthiness of a value), with `decide` witnesses;
  * `C18_strptime_unix_with_zone`      `%s` beside `%z`: the captured offset is overwritten by the
                                        local one, the captured SIGN survives and negates it — the
                                        result is 2 × (local offset) away from epoch + n
                                        (`C18_strptime_unix_with_zone_counterexample`; the text-level
                                        witness is `C17_unix_with_zone_counterexample`);
  * `C17_strptime_zone_default`        field formats: without zone groups the constructor gets the
                                        assumed zone if one is configured, else NO zone keyword if
                                        `default_to_unknown_time_zone`, else the local zone; with
                                        `%z` exactly the captured zone, whatever the configuration;
                                        the other keywords are exactly the captured numbers;
  * `C17_strptime_zone_round_trip`     hence the fields + zone of any valid calendar / ordinal point
                                        come back as that very point under every configuration, and
                                        the fields without the zone come back in the default zone;
  * `C17_strptime_is_glue`             the text-level model `Strf.strptime` (of `C17_strptime`,
                                        `C17_defaults`, …) answers what this glue model answers on the
                                        numbers the captured groups spell;
  * `C17_strptime_round_trip_through_glue`  so the strftime → strptime round trip of `C17_strptime`
                                        holds with the parsing half run through the glue;
  * `C17_strptime_unknown_zone_is_utc` `default_to_unknown_time_zone` on a complete date-time gives
                                        the KNOWN zone (0, 0), not an unknown one.

  Outside these statements (model only, checked by the `strpzone` correspondence): the `Z` group
  (`time_zone_utc`; no strptime directive captures it), Unix-time texts with a fraction, `float()`
  rounding of counts beyond 2^53.
-/
import IsoDT.Lemmas.StrptimeZone
import IsoDT.Props.C17

namespace IsoDT.Props.C18
open IsoDT IsoDT.Model IsoDT.Model.StrpZone IsoDT.Lemmas IsoDT.Lemmas.StrpZone
open IsoDT.Spec (Date TZ TP)
open IsoDT.Model.Strf (PCfg)

/-- **C18 (`%s` beside any date / time fields)**: for every Unix time `n`, mode, legal local zone
    `loc`, EVERY parser configuration `cfg` (any `assumed_time_zone`, either value of
    `default_to_unknown_time_zone`) and whatever other date and time groups the format captures
    (`%Y %m %d %j %H %M %S`, any subset, any values), the point built is
    `get_timepoint_from_seconds_since_unix_epoch(n)`: the instant 1970-01-01T00:00:00Z + n seconds,
    a legal calendar-date point, carrying the LOCAL zone, with a known zone. -/
theorem C18_strptime_unix_any_fields (m : Mode) (n : Int) (loc : TZ) (hloc : loc.Valid) (cfg : PCfg)
    (year month dom doy hh mi ss : Option Int) :
    ∃ q, strpZone m cfg loc ⟨year, month, dom, doy, hh, mi, ss, none, false, some n⟩ = .ok q false ∧
      fromUnix m n (some loc) = some q ∧ q.inst m = unixEpoch.inst m + n ∧ q.tz = loc ∧ q.Strict m ∧
      q.date.rep = 0 := by
  obtain ⟨q, e, hi, hs, ht, hr, hall⟩ := strpZone_unix_point m cfg loc hloc n
  refine ⟨q, ?_, e, hi, ht, hs, hr⟩
  rw [hall]
  rfl

/-- **C18 (`strptime(str(n), "%s")`)**: the assumed zone is never applied to a Unix time. -/
theorem C18_strptime_unix_instant (m : Mode) (n : Int) (loc : TZ) (hloc : loc.Valid) (cfg : PCfg) :
    ∃ q, strpZone m cfg loc { unix := some n } = .ok q false ∧
      fromUnix m n (some loc) = some q ∧ q.inst m = unixEpoch.inst m + n ∧ q.tz = loc ∧ q.Strict m ∧
      q.date.rep = 0 :=
  C18_strptime_unix_any_fields m n loc hloc cfg none none none none none none none

/-- Non-vacuity: pre-1970, a negative half-hour local zone, an assumed zone that is NOT applied;
    and a format that also captures a (contradicting) date and time. -/
example : strpZone .greg ⟨some ⟨5, 30⟩, false⟩ ⟨-3, -30⟩ { unix := some (-3600) } =
      .ok ⟨.cal 1969 12 31, 19, 30, 0, ⟨-3, -30⟩⟩ false ∧
    strpZone .d360 ⟨some ⟨5, 30⟩, true⟩ ⟨0, 45⟩
        { year := some 2000, month := some 2, dom := some 30, hh := some 24, unix := some 86399 } =
      .ok ⟨.cal 1970 1 2, 0, 44, 59, ⟨0, 45⟩⟩ false := by decide +kernel

/-- **C18 (zero fields)**: when the local-zone point of the Unix time has year 0, month `mo`, day `d`
    at 00:00:00 — and also when the local zone itself is (0, 0) — `strptime(…, "%s")` returns exactly
    that point under every configuration: the zeros are kept (no keyword is dropped or replaced because
    its value is falsy), the zone is the local one and known. -/
theorem C18_strptime_unix_zero_fields (m : Mode) (n : Int) (loc : TZ) (hloc : loc.Valid) (cfg : PCfg)
    (mo d : Int) (hq : fromUnix m n (some loc) = some ⟨.cal 0 mo d, 0, 0, 0, loc⟩) :
    strpZone m cfg loc { unix := some n } = .ok ⟨.cal 0 mo d, 0, 0, 0, loc⟩ false ∧
    TP.inst m ⟨.cal 0 mo d, 0, 0, 0, loc⟩ = unixEpoch.inst m + n := by
  obtain ⟨q, e, hq', hi, _⟩ := C18_strptime_unix_instant m n loc hloc cfg
  rw [hq] at hq'
  cases hq'
  exact ⟨e, hi⟩

/-- Witnesses for the hypothesis (Gregorian year 0 is n ∈ −62167219200 … −62135596801): midnight of
    0000-01-01 under local zone (0, 0) — every field zero — with the assumed zones (5, 30), (0, 0),
    (−3, −30), none, and the unknown flag; and the same instant seen from +05:30. -/
example : fromUnix .greg (-62167219200) (some ⟨0, 0⟩) = some ⟨.cal 0 1 1, 0, 0, 0, ⟨0, 0⟩⟩ ∧
    strpZone .greg ⟨some ⟨5, 30⟩, false⟩ ⟨0, 0⟩ { unix := some (-62167219200) } =
      .ok ⟨.cal 0 1 1, 0, 0, 0, ⟨0, 0⟩⟩ false ∧
    strpZone .greg ⟨some ⟨0, 0⟩, false⟩ ⟨0, 0⟩ { unix := some (-62167219200) } =
      .ok ⟨.cal 0 1 1, 0, 0, 0, ⟨0, 0⟩⟩ false ∧
    strpZone .greg ⟨some ⟨-3, -30⟩, true⟩ ⟨0, 0⟩ { unix := some (-62167219200) } =
      .ok ⟨.cal 0 1 1, 0, 0, 0, ⟨0, 0⟩⟩ false ∧
    strpZone .greg ⟨none, true⟩ ⟨0, 0⟩ { unix := some (-62167219200) } =
      .ok ⟨.cal 0 1 1, 0, 0, 0, ⟨0, 0⟩⟩ false ∧
    strpZone .greg ⟨some ⟨0, 0⟩, false⟩ ⟨5, 30⟩ { unix := some (-62167219200) } =
      .ok ⟨.cal 0 1 1, 5, 30, 0, ⟨5, 30⟩⟩ false := by decide +kernel

example : strpZone .greg ⟨some ⟨5, 30⟩, false⟩ ⟨0, 0⟩ { unix := some (-62150000000) } =
      .ok ⟨.cal 0 7 18, 7, 6, 40, ⟨0, 0⟩⟩ false ∧
    strpZone .greg ⟨some ⟨5, 30⟩, false⟩ ⟨0, 0⟩ { unix := some 0 } =
      .ok ⟨.cal 1970 1 1, 0, 0, 0, ⟨0, 0⟩⟩ false ∧
    strpZone .d360 ⟨some ⟨5, 30⟩, false⟩ ⟨0, 0⟩ { unix := some (-61274880000) } =
      .ok ⟨.cal 0 1 1, 0, 0, 0, ⟨0, 0⟩⟩ false := by decide +kernel

/-- **`%s` beside `%z`**: the offset `%z` captured is overwritten by the local one, but its SIGN is
    still applied.  With a plus sign the result is as without `%z`; with a minus sign it is the
    local-zone clock reading labelled with the NEGATED local offset. -/
theorem C18_strptime_unix_with_zone (m : Mode) (n : Int) (loc : TZ) (hloc : loc.Valid) (cfg : PCfg)
    (year month dom doy hh mi ss : Option Int) (neg : Bool) (zh zm : Int) :
    ∃ q, fromUnix m n (some loc) = some q ∧
      strpZone m cfg loc ⟨year, month, dom, doy, hh, mi, ss, some (neg, zh, zm), false, some n⟩ =
        .ok (if neg then { q with tz := ⟨-loc.h, -loc.mi⟩ } else q) false ∧
      TP.inst m (if neg then { q with tz := ⟨-loc.h, -loc.mi⟩ } else q) =
        unixEpoch.inst m + n + (if neg then 2 * loc.seconds else 0) := by
  obtain ⟨q, e, hi, hs, ht, hr, hall⟩ := strpZone_unix_point m cfg loc hloc n
  refine ⟨q, e, ?_, ?_⟩
  · rw [hall]
    cases neg <;> rfl
  · cases neg
    · simp [hi]
    · simp only [↓reduceIte]
      unfold TP.inst at hi ⊢
      simp only [TZ.seconds, TP.secOfDay] at hi ⊢
      rw [ht] at hi
      omega

/-- So `%s %z` does not denote epoch + n unless the sign is `+` or the local zone is UTC: for n = 0
    read as `"0-0000"` under local zone +05:30 the result is eleven hours off. -/
theorem C18_strptime_unix_with_zone_counterexample :
    strpZone .greg ⟨none, false⟩ ⟨5, 30⟩ { zone := some (true, 0, 0), unix := some 0 } =
      .ok ⟨.cal 1970 1 1, 5, 30, 0, ⟨-5, -30⟩⟩ false ∧
    TP.inst .greg ⟨.cal 1970 1 1, 5, 30, 0, ⟨-5, -30⟩⟩ = unixEpoch.inst .greg + 0 + 39600 := by
  decide +kernel

example : strpZone .greg ⟨none, false⟩ ⟨5, 30⟩ { zone := some (false, 1, 0), unix := some 0 } =
    .ok ⟨.cal 1970 1 1, 5, 30, 0, ⟨5, 30⟩⟩ false := by decide +kernel

end IsoDT.Props.C18

namespace IsoDT.Props.C17
open IsoDT IsoDT.Model IsoDT.Model.StrpZone IsoDT.Lemmas IsoDT.Lemmas.StrpZone
open IsoDT.Spec (Date TZ TP)
open IsoDT.Model.Strf (PCfg)

/-- **C17 (zone default of `strptime`)**: for a field format (no `%s`) capturing any subset of
    `%Y %m %d %j %H %M %S` with any values:

    1. WITHOUT zone groups the `TimePoint` constructor is called with exactly the captured numbers
       (`year = 100·century + year_of_century`, 0 if `%Y` is absent; an absent group is an absent
       keyword, to which the constructor applies its start-of-period defaults) and the zone keywords
       `defaultZoneArgs cfg loc`: the assumed zone if one is configured (even (0, 0)), else none at
       all if `default_to_unknown_time_zone`, else the local zone;
    2. WITH `%z` (sign, hours, minutes) it is called with exactly that zone — both parts negated for a
       minus sign — whatever the configuration and the local zone. -/
theorem C17_strptime_zone_default (m : Mode) (cfg : PCfg) (loc : TZ)
    (year month dom doy hh mi ss : Option Int) :
    strpZone m cfg loc ⟨year, month, dom, doy, hh, mi, ss, none, false, none⟩ =
      resOf (mkTP m ⟨some (year.getD 0), month, none, doy, dom, none, hh, mi, ss,
        (defaultZoneArgs cfg loc).1, (defaultZoneArgs cfg loc).2⟩) ∧
    (∀ a, cfg.assumed = some a → defaultZoneArgs cfg loc = (some a.h, some a.mi)) ∧
    (cfg.assumed = none → cfg.defaultUnknown = true → defaultZoneArgs cfg loc = (none, none)) ∧
    (cfg.assumed = none → cfg.defaultUnknown = false → defaultZoneArgs cfg loc = (some loc.h, some loc.mi)) ∧
    ∀ (neg : Bool) (zh zm : Int),
      strpZone m cfg loc ⟨year, month, dom, doy, hh, mi, ss, some (neg, zh, zm), false, none⟩ =
        resOf (mkTP m ⟨some (year.getD 0), month, none, doy, dom, none, hh, mi, ss,
          some (if neg then -zh else zh), some (if neg then -zm else zm)⟩) := by
  refine ⟨strpZone_fields m cfg loc year month dom doy hh mi ss none, ?_, ?_, ?_, ?_⟩
  · intro a h; simp [defaultZoneArgs, h]
  · intro h1 h2; simp [defaultZoneArgs, h1, h2]
  · intro h1 h2; simp [defaultZoneArgs, h1, h2]
  · intro neg zh zm
    rw [strpZone_fields m cfg loc year month dom doy hh mi ss (some (neg, zh, zm))]
    cases neg <;> rfl

/-- Non-vacuity: year 0000 at midnight with the assumed zone (0, 0) / none + local / unknown flag;
    a `%z` of `-0030` (zero hours, negative minutes) against an assumed zone; a month-only format. -/
example : strpZone .greg ⟨some ⟨0, 0⟩, false⟩ ⟨5, 30⟩
      { year := some 0, month := some 1, dom := some 1, hh := some 0, mi := some 0, ss := some 0 } =
      .ok ⟨.cal 0 1 1, 0, 0, 0, ⟨0, 0⟩⟩ false ∧
    strpZone .greg ⟨none, false⟩ ⟨5, 30⟩
      { year := some 0, month := some 1, dom := some 1, hh := some 0, mi := some 0, ss := some 0 } =
      .ok ⟨.cal 0 1 1, 0, 0, 0, ⟨5, 30⟩⟩ false ∧
    strpZone .greg ⟨none, true⟩ ⟨5, 30⟩
      { year := some 0, month := some 1, dom := some 1, hh := some 0, mi := some 0, ss := some 0 } =
      .ok ⟨.cal 0 1 1, 0, 0, 0, ⟨0, 0⟩⟩ false ∧
    strpZone .greg ⟨some ⟨5, 30⟩, false⟩ ⟨1, 0⟩
      { year := some 2000, doy := some 366, hh := some 24, mi := some 0, ss := some 0,
        zone := some (true, 0, 30) } =
      .ok ⟨.ord 2000 366, 24, 0, 0, ⟨0, -30⟩⟩ false ∧
    strpZone .greg ⟨some ⟨5, 30⟩, false⟩ ⟨0, 0⟩ { month := some 3 } =
      .ok ⟨.cal 0 3 1, 0, 0, 0, ⟨5, 30⟩⟩ false ∧
    strpZone .greg ⟨some ⟨5, -30⟩, false⟩ ⟨0, 0⟩ { month := some 3 } = .err := by decide +kernel

/-- What a format naming year, month + day or day-of-year, hour, minute, second (and `%z` if
    `withZone`) captures from the text `strftime` prints for `p` (`C17_strptime`: the text level). -/
def capturedOf (p : TP) (withZone : Bool) : Matched :=
  let zone : Option (Bool × Int × Int) :=
    if withZone then some (decide (tzSign p.tz < 0), tzHourAbs p.tz, tzMinuteAbs p.tz) else none
  match p.date with
  | .cal y mo d =>
    { year := some y, month := some mo, dom := some d, hh := some p.hh, mi := some p.mi, ss := some p.ss,
      zone := zone }
  | .ord y n => { year := some y, doy := some n, hh := some p.hh, mi := some p.mi, ss := some p.ss, zone := zone }
  | .week y _ _ => { year := some y, zone := zone }

/-- **C17 (the glue inverts the fields)**: for every valid point `p` kept as a calendar or ordinal
    date (what `strftime` prints from), in any mode and offset, 24:00 included:

    * its date, time AND zone fields come back as `p` itself under EVERY parser configuration and
      local zone;
    * its date and time fields alone come back as `p` re-labelled with the default zone: the assumed
      zone `a` if configured (and legal), else (0, 0) — a known zone — under
      `default_to_unknown_time_zone`, else the local zone. -/
theorem C17_strptime_zone_round_trip (m : Mode) (p : TP) (hv : p.Valid m) (hrep : p.date.rep ≠ 2)
    (cfg : PCfg) (loc : TZ) :
    strpZone m cfg loc (capturedOf p true) = .ok p false ∧
    (∀ a, cfg.assumed = some a → a.Valid →
      strpZone m cfg loc (capturedOf p false) = .ok { p with tz := a } false) ∧
    (cfg.assumed = none → cfg.defaultUnknown = true →
      strpZone m cfg loc (capturedOf p false) = .ok { p with tz := ⟨0, 0⟩ } false) ∧
    (cfg.assumed = none → cfg.defaultUnknown = false → loc.Valid →
      strpZone m cfg loc (capturedOf p false) = .ok { p with tz := loc } false) := by
  obtain ⟨date, h, mi, s, tz⟩ := p
  have hzv : tz.Valid := hv.2.2.2.2.2.2.2.2
  have hback := Strf.zone_back tz hzv
  -- re-labelling with a legal zone keeps the point legal
  have hre : ∀ z : TZ, z.Valid → (⟨date, h, mi, s, z⟩ : TP).Valid m := by
    intro z hz
    obtain ⟨a, b, c, d', e', f, g, i, _⟩ := hv
    exact ⟨a, b, c, d', e', f, g, i, hz⟩
  have key : ∀ (withZone : Bool) (z : TZ), z.Valid →
      zoneArgs cfg loc (if withZone then some (decide (tzSign tz < 0), tzHourAbs tz, tzMinuteAbs tz) else none) =
        (some z.h, some z.mi) →
      strpZone m cfg loc (capturedOf ⟨date, h, mi, s, tz⟩ withZone) = .ok ⟨date, h, mi, s, z⟩ false := by
    intro withZone z hz hza
    have hc := C09.C09_accept_complete m ⟨date, h, mi, s, z⟩ (hre z hz)
    cases date with
    | cal y mo d =>
      simp only [capturedOf]
      rw [strpZone_fields, hza]
      simp only [argsOf] at hc
      simp only [Option.getD_some, hc, resOf]
    | ord y n =>
      simp only [capturedOf]
      rw [strpZone_fields, hza]
      simp only [argsOf] at hc
      simp only [Option.getD_some, hc, resOf]
    | week y w d => simp [Date.rep] at hrep
  refine ⟨?_, ?_, ?_, ?_⟩
  · apply key true tz hzv
    simp only [↓reduceIte, zoneArgs]
    by_cases c : tzSign tz < 0
    · rw [if_pos c] at hback
      have h1 := congrArg TZ.h hback
      have h2 := congrArg TZ.mi hback
      simp only at h1 h2
      simp only [c, decide_true, ↓reduceIte, h1, h2]
    · rw [if_neg c] at hback
      have h1 := congrArg TZ.h hback
      have h2 := congrArg TZ.mi hback
      simp only at h1 h2
      simp only [c, decide_false, Bool.false_eq_true, ↓reduceIte, h1, h2]
  · intro a ha hav
    apply key false a hav
    simp [zoneArgs, defaultZoneArgs, ha]
  · intro h1 h2
    -- no zone keyword at all: `TimeZone(hours=None, minutes=None, unknown=False)`
    have hc := C09.C09_accept_complete m ⟨date, h, mi, s, ⟨0, 0⟩⟩ (hre ⟨0, 0⟩ (by decide))
    have hz : zoneArgs cfg loc none = (none, none) := by simp [zoneArgs, defaultZoneArgs, h1, h2]
    cases date with
    | cal y mo d =>
      simp only [capturedOf, Bool.false_eq_true, ↓reduceIte]
      rw [strpZone_fields, hz]
      simp only [argsOf] at hc
      simp only [Option.getD_some, mkTP_no_zone, hc, resOf]
    | ord y n =>
      simp only [capturedOf, Bool.false_eq_true, ↓reduceIte]
      rw [strpZone_fields, hz]
      simp only [argsOf] at hc
      simp only [Option.getD_some, mkTP_no_zone, hc, resOf]
    | week y w d => simp [Date.rep] at hrep
  · intro h1 h2 hl
    apply key false loc hl
    simp [zoneArgs, defaultZoneArgs, h1, h2]

/-- Non-vacuity: a negative half-hour offset with zero hours at 24:00 on a leap day (ordinal). -/
example : (⟨.ord 2000 366, 24, 0, 0, ⟨0, -30⟩⟩ : TP).Valid .greg ∧
    capturedOf ⟨.ord 2000 366, 24, 0, 0, ⟨0, -30⟩⟩ true =
      { year := some 2000, doy := some 366, hh := some 24, mi := some 0, ss := some 0, zone := some (true, 0, 30) } ∧
    strpZone .greg ⟨some ⟨5, 30⟩, true⟩ ⟨1, 0⟩ (capturedOf ⟨.ord 2000 366, 24, 0, 0, ⟨0, -30⟩⟩ true) =
      .ok ⟨.ord 2000 366, 24, 0, 0, ⟨0, -30⟩⟩ false ∧
    strpZone .greg ⟨some ⟨5, 30⟩, true⟩ ⟨1, 0⟩ (capturedOf ⟨.ord 2000 366, 24, 0, 0, ⟨0, -30⟩⟩ false) =
      .ok ⟨.ord 2000 366, 24, 0, 0, ⟨5, 30⟩⟩ false := by decide +kernel

section
open IsoDT.Model.Strf IsoDT.Lemmas.Strf IsoDT.Spec.Posix
open IsoDT.Gen.Strftime (Fld Piece)

/-- **C17 (the text-level model is the glue model)**: `Strf.strptime` of `Model/Strftime.lean` — the
    model `C17_strptime`, `C17_defaults`, … speak about, which summarises the glue in three lines —
    answers, for every format over the supported directives, every text it matches (captured groups
    `b`; a `%s` group spelling a whole number), every configuration and legal local zone, exactly what
    the dictionary-level model answers on the numbers the groups spell. -/
theorem C17_strptime_is_glue (m : Mode) (cfg : PCfg) (loc : TZ) (hloc : loc.Valid) (data fmt : List Char)
    (items : List FItem) (hf : parseFmt fmt = some items)
    (hnd : hasDup (fldsOf (piecesOfItems items)) = false)
    (b : List (Fld × List Char)) (hm : matchPieces (piecesOfItems items) data = some b) (n : Option Int)
    (hux : match b.lookup .unix with
      | none => n = none
      | some txt => ∃ k, parseUnix txt = .ok k ∧ n = some k) :
    resOf (strptime m cfg loc data fmt).toOption = strpZone m cfg loc (matchedOf b n) :=
  strptime_eq_strpZone m cfg loc hloc data fmt items hf hnd b hm n hux

/-- **C17 (strptime inverts strftime, through the glue)**: the round trip of `C17_strptime`, with the
    parsing half run through the dictionary-level glue: for a format that determines date, time and
    zone, every valid point `p` with a civil year in 0000–9999, every configuration and legal local
    zone, `strftime` prints a text which the format's regex matches with groups `b`, and the glue on
    the numbers they spell builds a valid point at the same instant — with `p`'s own offset and clock
    fields, except for `%s`, which comes back in the local zone. -/
theorem C17_strptime_round_trip_through_glue (m : Mode) (p : TP) (hv : p.Valid m) (c : Civil)
    (hc : IsCivil m p c) (hy : 0 ≤ c.year ∧ c.year ≤ 9999) (fmt : List Char) (items : List FItem)
    (hf : parseFmt fmt = some items) (hd : Determined items) (cfg : PCfg) (loc : TZ) (hloc : loc.Valid) :
    ∃ text b n q, strftime m p fmt = .ok text ∧ matchPieces (piecesOfItems items) text = some b ∧
      strpZone m cfg loc (matchedOf b n) = .ok q false ∧
      q.inst m = p.inst m ∧ q.Valid m ∧
      (fieldsOf items = [.unix] → q.tz = loc) ∧
      (fieldsOf items ≠ [.unix] → q.tz = p.tz ∧ q.hh = p.hh ∧ q.mi = p.mi ∧ q.ss = p.ss) := by
  obtain ⟨text, q, h1, h2, h3, h4, h5, h6⟩ := C17_strptime m p hv c hc hy fmt items hf hd cfg loc hloc
  obtain ⟨ht, _⟩ := translate_scan fmt items hf
  have hnd := hasDup_false _ (nodup_fldsOf_items items hd.1)
  have h2' := h2
  unfold strptime at h2'
  simp only [ht, hnd, Bool.false_eq_true, ↓reduceIte] at h2'
  cases hm : matchPieces (piecesOfItems items) text with
  | none => rw [hm] at h2'; cases h2'
  | some b =>
    rw [hm] at h2'
    simp only at h2'
    -- the `%s` group, if any, spelled a whole number (else `assemble` would have failed)
    have hux : ∃ n, (match b.lookup .unix with
        | none => n = none
        | some txt => ∃ k, parseUnix txt = .ok k ∧ n = some k) := by
      cases hu : b.lookup .unix with
      | none => exact ⟨none, rfl⟩
      | some txt =>
        cases hp : parseUnix txt with
        | ok k => exact ⟨some k, k, hp, rfl⟩
        | error e =>
          unfold assemble at h2'
          simp only [hu, hp] at h2'
          cases h2'
    obtain ⟨n, hn⟩ := hux
    refine ⟨text, b, n, q, h1, hm, ?_, h3, h4, h5, h6⟩
    rw [← C17_strptime_is_glue m cfg loc hloc text fmt items hf hnd b hm n hn, h2]
    rfl

/-- Non-vacuity: the groups of `"2000-366T24:00:00-0030"` under `"%Y-%jT%H:%M:%S%z"`, and the point
    the glue builds from them under an assumed zone that must not be applied. -/
example : matchPieces (piecesOfItems [.conv .Y, .lit '-', .conv .j, .lit 'T', .conv .X, .conv .z])
      "2000-366T24:00:00-0030".toList =
      some [(.century, ['2', '0']), (.yearOfCentury, ['0', '0']), (.dayOfYear, ['3', '6', '6']),
        (.hourOfDay, ['2', '4']), (.minuteOfHour, ['0', '0']), (.secondOfMinute, ['0', '0']),
        (.tzSign, ['-']), (.tzHourAbs, ['0', '0']), (.tzMinuteAbs, ['3', '0'])] ∧
    strpZone .greg ⟨some ⟨5, 30⟩, false⟩ ⟨1, 0⟩ (matchedOf
      [(.century, ['2', '0']), (.yearOfCentury, ['0', '0']), (.dayOfYear, ['3', '6', '6']),
        (.hourOfDay, ['2', '4']), (.minuteOfHour, ['0', '0']), (.secondOfMinute, ['0', '0']),
        (.tzSign, ['-']), (.tzHourAbs, ['0', '0']), (.tzMinuteAbs, ['3', '0'])] none) =
      .ok ⟨.ord 2000 366, 24, 0, 0, ⟨0, -30⟩⟩ false := by decide +kernel

end

/-- **`default_to_unknown_time_zone` does not give an unknown zone to a complete date-time**: no zone
    keyword reaches the constructor, and `has_unknown_tz = self._truncated and …` is `False` for a
    non-truncated point, so the zone is the known (0, 0) — the same point as with
    `assumed_time_zone=(0, 0)`. -/
theorem C17_strptime_unknown_zone_is_utc (m : Mode) (loc : TZ) (year month dom doy hh mi ss : Option Int) :
    strpZone m ⟨none, true⟩ loc ⟨year, month, dom, doy, hh, mi, ss, none, false, none⟩ =
      strpZone m ⟨some ⟨0, 0⟩, false⟩ loc ⟨year, month, dom, doy, hh, mi, ss, none, false, none⟩ ∧
    ∀ q u, strpZone m ⟨none, true⟩ loc ⟨year, month, dom, doy, hh, mi, ss, none, false, none⟩ = .ok q u →
      u = false ∧ q.tz = ⟨0, 0⟩ := by
  have e1 := strpZone_fields m ⟨none, true⟩ loc year month dom doy hh mi ss none
  have e2 := strpZone_fields m ⟨some ⟨0, 0⟩, false⟩ loc year month dom doy hh mi ss none
  simp only [zoneArgs, defaultZoneArgs, ↓reduceIte, mkTP_no_zone] at e1 e2
  refine ⟨by rw [e1, e2], ?_⟩
  intro q u hq
  rw [e1] at hq
  cases hm : mkTP m ⟨some (year.getD 0), month, none, doy, dom, none, hh, mi, ss, some 0, some 0⟩ with
  | none => rw [hm] at hq; cases hq
  | some p =>
    rw [hm] at hq
    simp only [resOf, Res.ok.injEq] at hq
    obtain ⟨rfl, rfl⟩ := hq
    have := mkTP_tz m _ p hm
    simp only [mkTZOpt_zero, Option.some.injEq] at this
    exact ⟨rfl, this.symm⟩

example : strpZone .greg ⟨none, true⟩ ⟨5, 30⟩ { year := some 2000, hh := some 12 } =
    .ok ⟨.cal 2000 1 1, 12, 0, 0, ⟨0, 0⟩⟩ false := by decide +kernel

end IsoDT.Props.C17
