/-
  C14 (last clause) — `TimeRecurrenceParser.parse(str(r)) == r`, with the same points; and the
  recurrence part of C09 (the parser is total).

  `Rec.toString` mirrors `TimeRecurrence.__str__`, `RecText.parseRecFull` / `parseRec` mirror
  `TimeRecurrenceParser.parse` (Model/RecText.lean: the three `RECURRENCE_REGEXES` in order,
  `int(reps)`, the point parser `Text.parse`, the interval parser `DurText.parse`, then the
  constructor `mkRec`).  Agreement with the Python: driver ops `rstr`, `rparse`, `rgroups`.

  Main theorems: `C14_text_roundtrip` (all notations), `C14_text_roundtrip_start_duration`,
  `C14_text_roundtrip_duration_end`, `C14_text_roundtrip_start_second` (per notation, with the parsed
  value identified), `C09_rec_text_total`, `mkRec_neg_none`, `C14_text_none_unparseable`.

  The round trip composes C08 (`str(p)` is the specified text and parses back to `p`), C10
  (`str(d)` parses back to `d`, the empty duration as `P0Y`) and the splitting lemmas of
  Lemmas/RecText.lean (a printed point has no `/`, no newline and does not start with `P`; a
  printed non-negative interval is `P` followed by at least one digit/letter, no `/`).
-/
import IsoDT.Lemmas.RecText
import IsoDT.Props.C08
import IsoDT.Props.C10
import IsoDT.Props.C14

namespace IsoDT.Props.C14b
open IsoDT IsoDT.Model IsoDT.Text IsoDT.RecText IsoDT.Lemmas IsoDT.Lemmas.RecText
open IsoDT.Spec (Date TZ TP)
open IsoDT.Model.DurText (toText)
open IsoDT.Props.C10 (SingleSigned TimeExact normal C10_roundtrip)

/-! ## The pieces -/

theorem singleSigned_of_nonNeg (d : Dur) (h : NonNeg d) : SingleSigned d := by
  cases d with
  | weeks w => trivial
  | units y mo dd hh mi ss => exact Or.inl h

theorem ofTP_ned (ned : Nat) (p : TP) : (XTP.ofTP ned p).ned = ned := by
  obtain ⟨dt, hh, mi, ss, tz⟩ := p
  cases dt <;> rfl

theorem ofTP_toTP (ned : Nat) (p : TP) : (XTP.ofTP ned p).toTP? = some p := by
  obtain ⟨dt, hh, mi, ss, tz⟩ := p
  cases dt <;> rfl

/-- The expanded year digits a printed point may carry for the parser `cfg` to read it back: the
    parser's own number, or none at all (a four-digit year). -/
def NedOK (cfg : Cfg) (ned : Nat) : Prop := ned = cfg.pt.ned ∨ ned = 0

/-- The point parser on a printed point (C08, and `parse_stdText0` for four-digit years under a
    parser with expanded digits). -/
theorem parsePoint_std (cfg : Cfg) (hpt : cfg.pt ∈ Gen.Templates.parserTables) (hb : cfg.pt.basicOnly = false)
    (ned : Nat) (hn : NedOK cfg ned) (p : TP) (hv : p.Valid cfg.mode) (hy : YearInRange ned (dateYear p.date)) :
    parsePoint cfg (some (stdText ned p)) = .ok (some (p, ned)) := by
  rcases hn with rfl | rfl
  · simp only [parsePoint, C08.C08_parse cfg hpt hb p hv hy, ofTP_toTP, ofTP_ned]
  · simp only [parsePoint, parse_stdText0 cfg hpt hb p hv hy, ofTP_toTP, ofTP_ned]

/-- `str(point)` of a valid point within the year range (C08). -/
theorem strPoint_std (cfg : Cfg) (hpt : cfg.pt ∈ Gen.Templates.parserTables) (ned : Nat) (hn : NedOK cfg ned)
    (p : TP) (hv : p.Valid cfg.mode) (hy : YearInRange ned (dateYear p.date)) :
    strPoint cfg.mode ned (some p) = .ok (stdText ned p) := by
  have h3 : ned = 0 ∨ ned = 2 ∨ ned = 3 := by
    rcases hn with rfl | rfl
    · exact C08.tables_ned cfg.pt hpt
    · exact Or.inl rfl
  exact C08.C08_str cfg.mode ned h3 p hv hy

/-- The interval parser on a printed non-negative interval (C10). -/
theorem parseIntv_std (m : Mode) (d : Dur) (hnn : NonNeg d) (hx : TimeExact d) :
    parseIntv m (some (toText d)) = .ok (some (normal d)) := by
  simp only [parseIntv, (C10_roundtrip m d (singleSigned_of_nonNeg d hnn) hx).1]

theorem parsePoint_none (cfg : Cfg) : parsePoint cfg none = .ok none := rfl
theorem parseIntv_none (m : Mode) : parseIntv m none = .ok none := rfl

/-- The constructor does not tell an empty week-form interval from the empty unit form. -/
theorem mkRec_normal (m : Mode) (reps : Option Int) (st : Option TP) (d : Dur) (en : Option TP) :
    mkRec m reps st (some (normal d)) en = mkRec m reps st (some d) en := by
  by_cases hnz : d.nonzero = true
  · simp [normal, hnz]
  · have hz : d.nonzero = false := by simpa using hnz
    cases d with
    | units y mo dd hh mi ss =>
      simp only [Dur.nonzero, Bool.or_eq_false_iff, bne_eq_false_iff_eq] at hz
      obtain ⟨⟨⟨⟨⟨rfl, rfl⟩, rfl⟩, rfl⟩, rfl⟩, rfl⟩ := hz
      simp [normal, Dur.nonzero]
    | weeks w =>
      have : w = 0 := by simpa [Dur.nonzero] using hz
      subst this
      have e1 : normal (.weeks 0) = Dur.zero := by simp [normal, Dur.nonzero, Dur.zero]
      have l1 : Dur.lt m (.weeks 0) Dur.zero = false := by cases m <;> decide
      have l2 : Dur.lt m Dur.zero Dur.zero = false := by cases m <;> decide
      have z1 : isZeroDur m (.weeks 0) = true := by cases m <;> decide
      have z2 : isZeroDur m Dur.zero = true := by cases m <;> decide
      rw [e1]
      unfold mkRec
      simp only [l1, l2, z1, z2, or_true, if_true]

theorem mem_cons_of (P : Char → Prop) (c : Char) (t : List Char) (h : ∀ x ∈ c :: t, P x) :
    P c ∧ ∀ x ∈ t, P x := ⟨h c (by simp), fun x hx => h x (by simp [hx])⟩

/-! ## The parser on an assembled text -/

/-- `Rn/start/second`, both points printed: the constructor is called with exactly those
    repetitions and points. -/
theorem parse_text_fmt1 (cfg : Cfg) (hpt : cfg.pt ∈ Gen.Templates.parserTables) (hb : cfg.pt.basicOnly = false)
    (nedS nedE : Nat) (hnS : NedOK cfg nedS) (hnE : NedOK cfg nedE)
    (reps : Option Int) (hpos : ∀ n, reps = some n → 0 < n) (s e : TP)
    (hs : s.Valid cfg.mode) (hys : YearInRange nedS (dateYear s.date))
    (he : e.Valid cfg.mode) (hye : YearInRange nedE (dateYear e.date)) :
    parseRecFull cfg (strPrefix reps ++ (stdText nedS s ++ '/' :: stdText nedE e)) =
      match mkRec cfg.mode reps (some s) none (some e) with
      | none => .fail
      | some r => .ok ⟨r, nedS, if (reps == some 1) = true then nedS else nedE⟩ := by
  obtain ⟨g, hg, hrv⟩ := header_strPrefix reps hpos (stdText nedS s ++ '/' :: stdText nedE e)
  unfold parseRecFull
  rw [hg]
  simp only
  rw [firstRegex_pt_pt _ _ (stdText_chars _ s) (stdText_chars _ e) (stdText_ne_nil _ s) (stdText_ne_nil _ e)]
  simp only [parsePoint_std cfg hpt hb nedS hnS s hs hys, parsePoint_std cfg hpt hb nedE hnE e he hye,
    parseIntv_none, Res.both, hrv, Option.map_some, Option.getD_some, Option.isNone_none, Bool.true_and]
  rfl

/-- `Rn/start/interval`. -/
theorem parse_text_fmt3 (cfg : Cfg) (hpt : cfg.pt ∈ Gen.Templates.parserTables) (hb : cfg.pt.basicOnly = false)
    (nedS : Nat) (hnS : NedOK cfg nedS)
    (reps : Option Int) (hpos : ∀ n, reps = some n → 0 < n) (s : TP) (d : Dur)
    (hs : s.Valid cfg.mode) (hys : YearInRange nedS (dateYear s.date))
    (hnn : NonNeg d) (hx : TimeExact d) :
    parseRecFull cfg (strPrefix reps ++ (stdText nedS s ++ '/' :: toText d)) =
      match mkRec cfg.mode reps (some s) (some d) none with
      | none => .fail
      | some r => .ok ⟨r, nedS, 0⟩ := by
  obtain ⟨g, hg, hrv⟩ := header_strPrefix reps hpos (stdText nedS s ++ '/' :: toText d)
  obtain ⟨c, body, hd, hch⟩ := toText_shape d hnn
  unfold parseRecFull
  rw [hg]
  simp only
  rw [hd, firstRegex_pt_du _ c body (stdText_chars _ s) hch (stdText_ne_nil _ s), ← hd]
  simp only [parsePoint_std cfg hpt hb nedS hnS s hs hys, parsePoint_none, parseIntv_std cfg.mode d hnn hx,
    Res.both, hrv, Option.map_some, Option.map_none, Option.getD_some, Option.getD_none, Option.isNone_some,
    Bool.false_and, mkRec_normal]
  rfl

/-- `Rn/interval/end`. -/
theorem parse_text_fmt4 (cfg : Cfg) (hpt : cfg.pt ∈ Gen.Templates.parserTables) (hb : cfg.pt.basicOnly = false)
    (nedE : Nat) (hnE : NedOK cfg nedE)
    (reps : Option Int) (hpos : ∀ n, reps = some n → 0 < n) (e : TP) (d : Dur)
    (he : e.Valid cfg.mode) (hye : YearInRange nedE (dateYear e.date))
    (hnn : NonNeg d) (hx : TimeExact d) :
    parseRecFull cfg (strPrefix reps ++ (toText d ++ '/' :: stdText nedE e)) =
      match mkRec cfg.mode reps none (some d) (some e) with
      | none => .fail
      | some r => .ok ⟨r, 0, nedE⟩ := by
  obtain ⟨g, hg, hrv⟩ := header_strPrefix reps hpos (toText d ++ '/' :: stdText nedE e)
  obtain ⟨c, body, hd, hch⟩ := toText_shape d hnn
  unfold parseRecFull
  rw [hg]
  simp only
  have e1 : toText d ++ '/' :: stdText nedE e = 'P' :: c :: (body ++ '/' :: stdText nedE e) := by
    rw [hd]; rfl
  rw [e1, firstRegex_du_pt c body _ hch (stdText_chars _ e) (stdText_ne_nil _ e), ← hd]
  simp only [parsePoint_std cfg hpt hb nedE hnE e he hye, parsePoint_none, parseIntv_std cfg.mode d hnn hx,
    Res.both, hrv, Option.map_some, Option.map_none, Option.getD_some, Option.getD_none, Option.isNone_some,
    Bool.false_and, mkRec_normal]
  rfl

/-! ## What the constructor stores -/

/-- `self._repetitions is not None and self._repetitions <= 0`. -/
def repsBad : Option Int → Bool
  | some n => decide (n ≤ 0)
  | none => false

theorem reps_pos_of (reps : Option Int) (h : ¬ repsBad reps = true) : ∀ n, reps = some n → 0 < n := by
  intro n hn
  subst hn
  simp only [repsBad, decide_eq_true_eq] at h
  omega

theorem mkRec_bad (m : Mode) (reps : Option Int) (st : Option TP) (du : Option Dur) (en : Option TP)
    (h : repsBad reps = true) : mkRec m reps st du en = none := by
  cases reps with
  | none => cases h
  | some n =>
    simp only [repsBad] at h
    unfold mkRec
    simp only [h, if_true]

theorem mkRec_pos (m : Mode) (reps : Option Int) (st : Option TP) (du : Option Dur) (en : Option TP) (r : Rec)
    (h : mkRec m reps st du en = some r) : ∀ n, reps = some n → 0 < n := by
  by_cases g1 : repsBad reps = true
  · rw [mkRec_bad m reps st du en g1] at h
    cases h
  · exact reps_pos_of reps g1

theorem mkRec_fmt3_eq (m : Mode) (reps : Option Int) (s : TP) (d : Dur) :
    mkRec m reps (some s) (some d) none =
      if repsBad reps = true then none
      else if Dur.lt m d Dur.zero = true then none
      else if reps = some 1 ∨ isZeroDur m d = true then some ⟨some 1, some s, none, some s, none, 3⟩
      else match reps with
        | none => some ⟨none, some s, some d, none, none, 3⟩
        | some n => (addDur m s (d.mul (n - 1))).map fun e' => ⟨reps, some s, some d, some e', none, 3⟩ := by
  cases reps <;> (unfold mkRec; rfl)

theorem mkRec_fmt4_eq (m : Mode) (reps : Option Int) (e : TP) (d : Dur) :
    mkRec m reps none (some d) (some e) =
      if repsBad reps = true then none
      else if Dur.lt m d Dur.zero = true then none
      else if reps = some 1 ∨ isZeroDur m d = true then some ⟨some 1, some e, none, some e, none, 4⟩
      else match reps with
        | none => some ⟨none, none, some d, some e, none, 4⟩
        | some n => (subDur m e (d.mul (n - 1))).map fun s' => ⟨reps, some s', some d, some e, none, 4⟩ := by
  cases reps <;> (unfold mkRec; rfl)

theorem mkRec_fmt1_eq (m : Mode) (reps : Option Int) (s e : TP) :
    mkRec m reps (some s) none (some e) =
      if repsBad reps = true then none
      else if reps = some 1 then some ⟨reps, some s, none, some s, some s, 1⟩
      else if tpEq m s e = true then some ⟨some 1, some s, none, some e, some e, 1⟩
      else if tpLt m e s = true then none
      else match subTP m e s with
        | none => none
        | some d =>
          match reps with
          | none => some ⟨none, some s, some d, none, some e, 1⟩
          | some n => (addDur m s (d.mul (n - 1))).map fun e' => ⟨reps, some s, some d, some e', some e, 1⟩ := by
  cases reps <;> (unfold mkRec; rfl)

/-- Start/interval notation: a single point (one repetition or an empty interval), or the
    repetitions, start and interval as given. -/
theorem mkRec_fmt3_shape (m : Mode) (reps : Option Int) (s : TP) (d : Dur) (r : Rec)
    (h : mkRec m reps (some s) (some d) none = some r) :
    r = ⟨some 1, some s, none, some s, none, 3⟩ ∨
      (r.reps = reps ∧ r.start = some s ∧ r.dur = some d ∧ r.fmt = 3) := by
  rw [mkRec_fmt3_eq] at h
  by_cases g1 : repsBad reps = true
  · rw [if_pos g1] at h; cases h
  rw [if_neg g1] at h
  by_cases g2 : Dur.lt m d Dur.zero = true
  · rw [if_pos g2] at h; cases h
  rw [if_neg g2] at h
  by_cases g3 : reps = some 1 ∨ isZeroDur m d = true
  · rw [if_pos g3] at h
    left; exact (Option.some.inj h).symm
  rw [if_neg g3] at h
  right
  cases reps with
  | none => simp only [Option.some.injEq] at h; subst h; exact ⟨rfl, rfl, rfl, rfl⟩
  | some n =>
    simp only [Option.map_eq_some_iff] at h
    obtain ⟨e', _, rfl⟩ := h
    exact ⟨rfl, rfl, rfl, rfl⟩

/-- Interval/end notation. -/
theorem mkRec_fmt4_shape (m : Mode) (reps : Option Int) (e : TP) (d : Dur) (r : Rec)
    (h : mkRec m reps none (some d) (some e) = some r) :
    r = ⟨some 1, some e, none, some e, none, 4⟩ ∨
      (r.reps = reps ∧ r.end_ = some e ∧ r.dur = some d ∧ r.fmt = 4) := by
  rw [mkRec_fmt4_eq] at h
  by_cases g1 : repsBad reps = true
  · rw [if_pos g1] at h; cases h
  rw [if_neg g1] at h
  by_cases g2 : Dur.lt m d Dur.zero = true
  · rw [if_pos g2] at h; cases h
  rw [if_neg g2] at h
  by_cases g3 : reps = some 1 ∨ isZeroDur m d = true
  · rw [if_pos g3] at h
    left; exact (Option.some.inj h).symm
  rw [if_neg g3] at h
  right
  cases reps with
  | none => simp only [Option.some.injEq] at h; subst h; exact ⟨rfl, rfl, rfl, rfl⟩
  | some n =>
    simp only [Option.map_eq_some_iff] at h
    obtain ⟨e', _, rfl⟩ := h
    exact ⟨rfl, rfl, rfl, rfl⟩

/-- Start/second-point notation: one repetition asked for (the second point is dropped), the two
    points at the same instant (stored as one repetition), or the repetitions and points as given. -/
theorem mkRec_fmt1_shape (m : Mode) (reps : Option Int) (s e : TP) (r : Rec)
    (h : mkRec m reps (some s) none (some e) = some r) :
    (reps = some 1 ∧ r = ⟨some 1, some s, none, some s, some s, 1⟩) ∨
    (reps ≠ some 1 ∧ tpEq m s e = true ∧ r = ⟨some 1, some s, none, some e, some e, 1⟩) ∨
    (reps ≠ some 1 ∧ r.reps = reps ∧ r.start = some s ∧ r.second = some e ∧ r.fmt = 1) := by
  rw [mkRec_fmt1_eq] at h
  by_cases g1 : repsBad reps = true
  · rw [if_pos g1] at h; cases h
  rw [if_neg g1] at h
  by_cases g2 : reps = some 1
  · rw [if_pos g2] at h
    left; exact ⟨g2, by rw [g2] at h; exact (Option.some.inj h).symm⟩
  rw [if_neg g2] at h
  by_cases g3 : tpEq m s e = true
  · rw [if_pos g3] at h
    right; left; exact ⟨g2, g3, (Option.some.inj h).symm⟩
  rw [if_neg g3] at h
  by_cases g4 : tpLt m e s = true
  · rw [if_pos g4] at h; cases h
  rw [if_neg g4] at h
  right; right
  cases hd : subTP m e s with
  | none => rw [hd] at h; cases h
  | some dd =>
    rw [hd] at h
    cases reps with
    | none => simp only [Option.some.injEq] at h; subst h; exact ⟨g2, rfl, rfl, rfl, rfl⟩
    | some n =>
      simp only [Option.map_eq_some_iff] at h
      obtain ⟨e', _, rfl⟩ := h
      exact ⟨g2, rfl, rfl, rfl, rfl⟩

theorem tpEq_refl (m : Mode) (a : TP) : tpEq m a a = true := by simp [tpEq, cmp]

/-- `r == r`. -/
theorem rec_eq_refl (m : Mode) (r : Rec) : Rec.eq m r r = true := by
  unfold Rec.eq
  have h1 : ∀ o : Option TP, optTpEq m o o = true := by
    intro o; cases o
    · rfl
    · exact tpEq_refl m _
  have h2 : optDurEq m r.dur r.dur = true := by
    cases r.dur
    · rfl
    · exact DurText.dur_eq_refl m _
  simp [h1, h2]

theorem nonNeg_zero : NonNeg Dur.zero := by decide
theorem timeExact_zero : TimeExact Dur.zero :=
  C10.timeExact_of_lt 0 0 0 0 0 0 (by decide) (by decide) (by decide)

theorem mkRec_single3 (m : Mode) (s : TP) :
    mkRec m (some 1) (some s) (some Dur.zero) none = some ⟨some 1, some s, none, some s, none, 3⟩ := by
  have l2 : Dur.lt m Dur.zero Dur.zero = false := by cases m <;> decide
  unfold mkRec
  simp [l2]

theorem mkRec_single4 (m : Mode) (e : TP) :
    mkRec m (some 1) none (some Dur.zero) (some e) = some ⟨some 1, some e, none, some e, none, 4⟩ := by
  have l2 : Dur.lt m Dur.zero Dur.zero = false := by cases m <;> decide
  unfold mkRec
  simp [l2]

theorem parseRec_of_full (cfg : Cfg) (text : List Char) (p : Parsed) (h : parseRecFull cfg text = .ok p) :
    parseRec cfg text = some p.val := by
  simp [parseRec, h]

/-! ## The round trip, notation by notation

  In each theorem `cfg` is the configuration of the time point parser (any regenerated table that
  allows extended notation — also the default `TimePointParser()` —, any `allow_truncated` /
  default-zone setting, any calendar mode); a printed point carries either the parser's number of
  expanded year digits or none (`NedOK`: e.g. with the default parser, `+002000-…` or `2000-…`) and
  its year is one those digits can spell (`YearInRange`, as in C08); `r` is what the constructor
  built. -/

/-- **Start/interval notation** (`Rn/start/d`, `R/start/d`, and the single point `R1/start/P0Y`
    that one repetition or an empty interval is stored as): `str(r)` succeeds and
    `parse(str(r))` is `r` itself, field for field; in particular `parse(str(r)) == r`. -/
theorem C14_text_roundtrip_start_duration (cfg : Cfg) (hpt : cfg.pt ∈ Gen.Templates.parserTables)
    (hb : cfg.pt.basicOnly = false) (nedS : Nat) (hnS : NedOK cfg nedS) (reps : Option Int) (s : TP) (d : Dur)
    (hs : s.Valid cfg.mode) (hys : YearInRange nedS (dateYear s.date))
    (hnn : NonNeg d) (hx : TimeExact d) (r : Rec)
    (hr : mkRec cfg.mode reps (some s) (some d) none = some r) (nedE : Nat) :
    ∃ text, r.toString cfg.mode nedS nedE = .ok text ∧
      parseRecFull cfg text = .ok ⟨r, nedS, 0⟩ ∧ parseRec cfg text = some r ∧
      Rec.eq cfg.mode r r = true := by
  have hpos := mkRec_pos _ _ _ _ _ _ hr
  have hstr := strPoint_std cfg hpt nedS hnS s hs hys
  rcases mkRec_fmt3_shape _ _ _ _ _ hr with rfl | ⟨h1, h2, h3, h4⟩
  · have hp := parse_text_fmt3 cfg hpt hb nedS hnS (some 1) (fun n h => by cases h; decide) s Dur.zero hs hys
      nonNeg_zero timeExact_zero
    rw [mkRec_single3] at hp
    refine ⟨strPrefix (some 1) ++ (stdText nedS s ++ '/' :: toText Dur.zero), ?_, hp,
      parseRec_of_full _ _ _ hp, rec_eq_refl _ _⟩
    simp only [Rec.toString, hstr, strDur, List.append_assoc]
    rfl
  · have hp := parse_text_fmt3 cfg hpt hb nedS hnS reps hpos s d hs hys hnn hx
    rw [hr] at hp
    refine ⟨strPrefix reps ++ (stdText nedS s ++ '/' :: toText d), ?_, hp,
      parseRec_of_full _ _ _ hp, rec_eq_refl _ _⟩
    simp only [Rec.toString, h4, h2, h1, h3, hstr, strDur, List.append_assoc]

/-- **Interval/end notation** (`Rn/d/end`, `R/d/end`, and the single point `R1/P0Y/end`):
    `parse(str(r))` is `r` itself. -/
theorem C14_text_roundtrip_duration_end (cfg : Cfg) (hpt : cfg.pt ∈ Gen.Templates.parserTables)
    (hb : cfg.pt.basicOnly = false) (nedE : Nat) (hnE : NedOK cfg nedE) (reps : Option Int) (e : TP) (d : Dur)
    (he : e.Valid cfg.mode) (hye : YearInRange nedE (dateYear e.date))
    (hnn : NonNeg d) (hx : TimeExact d) (r : Rec)
    (hr : mkRec cfg.mode reps none (some d) (some e) = some r) (nedS : Nat) :
    ∃ text, r.toString cfg.mode nedS nedE = .ok text ∧
      parseRecFull cfg text = .ok ⟨r, 0, nedE⟩ ∧ parseRec cfg text = some r ∧
      Rec.eq cfg.mode r r = true := by
  have hpos := mkRec_pos _ _ _ _ _ _ hr
  have hstr := strPoint_std cfg hpt nedE hnE e he hye
  rcases mkRec_fmt4_shape _ _ _ _ _ hr with rfl | ⟨h1, h2, h3, h4⟩
  · have hp := parse_text_fmt4 cfg hpt hb nedE hnE (some 1) (fun n h => by cases h; decide) e Dur.zero he hye
      nonNeg_zero timeExact_zero
    rw [mkRec_single4] at hp
    refine ⟨strPrefix (some 1) ++ (toText Dur.zero ++ '/' :: stdText nedE e), ?_, hp,
      parseRec_of_full _ _ _ hp, rec_eq_refl _ _⟩
    simp only [Rec.toString, hstr, strDur, List.append_assoc]
    rfl
  · have hp := parse_text_fmt4 cfg hpt hb nedE hnE reps hpos e d he hye hnn hx
    rw [hr] at hp
    refine ⟨strPrefix reps ++ (toText d ++ '/' :: stdText nedE e), ?_, hp,
      parseRec_of_full _ _ _ hp, rec_eq_refl _ _⟩
    simp only [Rec.toString, h4, h2, h1, h3, hstr, strDur, List.append_assoc]

theorem iter_single (m : Mode) (s : TP) (en sec : Option TP) (hen : ∀ e, en = some e → tpEq m s e = true)
    (fuel : Nat) :
    iter m ⟨some 1, some s, none, en, sec, 1⟩ fuel = if fuel = 0 then [] else [s] := by
  have h1 : tpLt m s s = false := by simp [tpLt, cmp]
  cases en with
  | none =>
    simp only [iter, Option.isNone_some, Bool.false_eq_true, if_false, BEq.rfl, Bool.true_or, if_true,
      Model.inBounds, h1, Bool.not_false, Bool.and_self]
  | some e =>
    have h2 : tpGt m s e = false := by
      have := hen e rfl
      simp only [tpEq, beq_iff_eq] at this
      simp [tpGt, this]
    simp only [iter, Option.isNone_some, Bool.false_eq_true, if_false, BEq.rfl, Bool.true_or, if_true,
      Model.inBounds, h1, h2, Bool.not_false, Bool.and_self]

/-- The digits the printed second point carries: with one repetition asked for, the stored second
    point is the start point object itself. -/
def secondNed (reps : Option Int) (nedS nedE : Nat) : Nat := if reps = some 1 then nedS else nedE

/-- **Start/second-point notation** (`Rn/start/second`, `R/start/second`; also `R1/start/start`,
    which one repetition is stored as): `parse(str(r))` is a recurrence `r'` with `r' == r`, the
    same notation and the same points.  It is `r` itself except when the two points given denote
    the same instant in different spellings: `r` keeps the second spelling as its end, `r'`
    (built from `R1/start/second`, where one repetition drops the second point) the first. -/
theorem C14_text_roundtrip_start_second (cfg : Cfg) (hpt : cfg.pt ∈ Gen.Templates.parserTables)
    (hb : cfg.pt.basicOnly = false) (nedS nedE : Nat) (hnS : NedOK cfg nedS) (hnE : NedOK cfg nedE)
    (reps : Option Int) (s e : TP)
    (hs : s.Valid cfg.mode) (hys : YearInRange nedS (dateYear s.date))
    (he : e.Valid cfg.mode) (hye : YearInRange nedE (dateYear e.date)) (r : Rec)
    (hr : mkRec cfg.mode reps (some s) none (some e) = some r) :
    ∃ text r' nE, r.toString cfg.mode nedS (secondNed reps nedS nedE) = .ok text ∧
      parseRecFull cfg text = .ok ⟨r', nedS, nE⟩ ∧ parseRec cfg text = some r' ∧
      Rec.eq cfg.mode r' r = true ∧ r'.fmt = r.fmt ∧ r'.reps = r.reps ∧ r'.start = r.start ∧ r'.dur = r.dur ∧
      (∀ fuel, iter cfg.mode r' fuel = iter cfg.mode r fuel) ∧
      (r' = r ∨ (tpEq cfg.mode s e = true ∧ r'.end_ = some s ∧ r.end_ = some e)) := by
  have hpos := mkRec_pos _ _ _ _ _ _ hr
  have hstrS := strPoint_std cfg hpt nedS hnS s hs hys
  have hstrE := strPoint_std cfg hpt nedE hnE e he hye
  have one : mkRec cfg.mode (some 1) (some s) none (some s) = some ⟨some 1, some s, none, some s, some s, 1⟩ := by
    unfold mkRec; simp
  have one' : mkRec cfg.mode (some 1) (some s) none (some e) = some ⟨some 1, some s, none, some s, some s, 1⟩ := by
    unfold mkRec; simp
  rcases mkRec_fmt1_shape _ _ _ _ _ hr with ⟨h1, rfl⟩ | ⟨hne, heq, rfl⟩ | ⟨hne, h1, h2, h3, h4⟩
  · have hp := parse_text_fmt1 cfg hpt hb nedS nedS hnS hnS (some 1) (fun n h => by cases h; decide) s s
      hs hys hs hys
    rw [one] at hp
    refine ⟨strPrefix (some 1) ++ (stdText nedS s ++ '/' :: stdText nedS s), _, _, ?_, hp,
      parseRec_of_full _ _ _ hp, rec_eq_refl _ _, rfl, rfl, rfl, rfl, fun _ => rfl, Or.inl rfl⟩
    simp only [Rec.toString, secondNed, h1, if_true, hstrS, List.append_assoc]
  · have hp := parse_text_fmt1 cfg hpt hb nedS nedE hnS hnE (some 1) (fun n h => by cases h; decide) s e
      hs hys he hye
    rw [one'] at hp
    refine ⟨strPrefix (some 1) ++ (stdText nedS s ++ '/' :: stdText nedE e), _, _, ?_, hp,
      parseRec_of_full _ _ _ hp, ?_, rfl, rfl, rfl, rfl, ?_, Or.inr ⟨heq, rfl, rfl⟩⟩
    · simp only [Rec.toString, secondNed, if_neg hne, hstrS, hstrE, List.append_assoc]
    · simp [Rec.eq, optTpEq, optDurEq, tpEq_refl, heq]
    · intro fuel
      rw [iter_single _ _ _ _ (fun x h => by cases h; exact tpEq_refl _ _),
        iter_single _ _ _ _ (fun x h => by cases h; exact heq)]
  · have hp := parse_text_fmt1 cfg hpt hb nedS nedE hnS hnE reps hpos s e hs hys he hye
    rw [hr] at hp
    refine ⟨strPrefix reps ++ (stdText nedS s ++ '/' :: stdText nedE e), r, _, ?_, hp,
      parseRec_of_full _ _ _ hp, rec_eq_refl _ _, rfl, rfl, rfl, rfl, fun _ => rfl, Or.inl rfl⟩
    simp only [Rec.toString, secondNed, if_neg hne, h4, h2, h1, h3, hstrS, hstrE, List.append_assoc]

/-! ## All notations at once -/

theorem mkRec_both_none (m : Mode) (reps : Option Int) (s e : TP) (d : Dur) :
    mkRec m reps (some s) (some d) (some e) = none := by
  have h : mkRec m reps (some s) (some d) (some e) =
      if repsBad reps = true then none else if Dur.lt m d Dur.zero = true then none else none := by
    cases reps <;> (unfold mkRec; rfl)
  rw [h]; simp

theorem mkRec_neither_none (m : Mode) (reps : Option Int) (d : Dur) :
    mkRec m reps none (some d) none = none := by
  have h : mkRec m reps none (some d) none =
      if repsBad reps = true then none else if Dur.lt m d Dur.zero = true then none else none := by
    cases reps <;> (unfold mkRec; rfl)
  rw [h]; simp

theorem mkRec_start_only (m : Mode) (reps : Option Int) (s : TP) (r : Rec)
    (h : mkRec m reps (some s) none none = some r) :
    reps = some 1 ∧ r = ⟨some 1, some s, none, some s, some s, 1⟩ := by
  have e : mkRec m reps (some s) none none =
      if repsBad reps = true then none
      else if reps = some 1 then some ⟨reps, some s, none, some s, some s, 1⟩ else none := by
    cases reps <;> (unfold mkRec; rfl)
  rw [e] at h
  by_cases g1 : repsBad reps = true
  · rw [if_pos g1] at h; cases h
  rw [if_neg g1] at h
  by_cases g2 : reps = some 1
  · rw [if_pos g2] at h
    exact ⟨g2, by rw [g2] at h; exact (Option.some.inj h).symm⟩
  · rw [if_neg g2] at h; cases h

/-- **C14, text round trip** — `TimeRecurrenceParser.parse(str(r)) == r` with the same points —
    for every recurrence `r` the constructor builds from

      * repetitions `reps` (absent = unbounded, else any positive count),
      * a start point and a second point (notation 1), a start point and an interval (notation 3),
        an interval and an end point (notation 4), or one repetition of a start point alone,
      * the given points valid whole-second points (any of the three date representations, any
        calendar mode, any legal UTC offset, 24:00:00 included), each carrying either the parser's
        number of expanded year digits or none (`NedOK`; independently for the two points) and a
        year those digits can spell (`YearInRange`, as in C08: 0000–9999 without expanded digits,
        `|y| < 10^(4+n)` with `n`) — so also the default `TimeRecurrenceParser()` reading back
        four-digit years (`parse_stdText0`),
      * the interval a non-negative integer duration, unit form or week form, nominal or exact, of
        any size, with hours/minutes/seconds exactly representable in binary64 (as in C10; a
        single-signed interval with a negative component is refused by the constructor:
        `mkRec_neg_none`):

    `str(r)` succeeds with some text; `parse(text)` succeeds with a recurrence `r'` such that
    `r' == r` (`TimeRecurrence.__eq__`), `r'` is in the same notation, and iterating `r'` yields
    exactly the points iterating `r` yields (any number of them).  (`r'` is `r` itself, field for
    field, except for two spellings of one instant given as start and second point: see
    `C14_text_roundtrip_start_second`.)

    The digits passed to `Rec.toString` for the second point are the start point's when one
    repetition was asked for in notation 1 (`secondNed`: the stored second point is then the start
    point object itself).

    Not covered, because false or outside the model: a recurrence built from one repetition and
    an end point only prints as `R1/None/None` (`C14_text_none_unparseable`); points with decimal
    seconds / intervals with decimal components (float domain); `min_point`/`max_point` (never
    printed by `__str__`, so lost — the value model has no such fields); `int`/`str` of the
    repetitions are the mathematical conversions (CPython's 4300-digit limit on `int`↔`str` is an
    interpreter setting, not modelled, here as in C10). -/
theorem C14_text_roundtrip (cfg : Cfg) (hpt : cfg.pt ∈ Gen.Templates.parserTables)
    (hb : cfg.pt.basicOnly = false) (nedS nedE : Nat) (hnS : NedOK cfg nedS) (hnE : NedOK cfg nedE)
    (reps : Option Int) (start : Option TP) (dur : Option Dur)
    (end_ : Option TP) (r : Rec)
    (hr : mkRec cfg.mode reps start dur end_ = some r)
    (hst : ∀ s, start = some s → s.Valid cfg.mode ∧ YearInRange nedS (dateYear s.date))
    (hen : ∀ e, end_ = some e → e.Valid cfg.mode ∧ YearInRange nedE (dateYear e.date))
    (hdu : ∀ d, dur = some d → NonNeg d ∧ TimeExact d)
    (hne : start.isSome = true ∨ dur.isSome = true) :
    ∃ text r', r.toString cfg.mode nedS (if dur = none then secondNed reps nedS nedE else nedE) = .ok text ∧
      parseRec cfg text = some r' ∧
      Rec.eq cfg.mode r' r = true ∧ r'.fmt = r.fmt ∧ ∀ fuel, iter cfg.mode r' fuel = iter cfg.mode r fuel := by
  cases dur with
  | none =>
    cases start with
    | none => simp at hne
    | some s =>
      obtain ⟨hs, hys⟩ := hst s rfl
      cases end_ with
      | some e =>
        obtain ⟨he, hye⟩ := hen e rfl
        obtain ⟨text, r', _, h1, _, h3, h4, h5, _, _, _, h6, _⟩ :=
          C14_text_roundtrip_start_second cfg hpt hb nedS nedE hnS hnE reps s e hs hys he hye r hr
        exact ⟨text, r', by simpa using h1, h3, h4, h5, h6⟩
      | none =>
        obtain ⟨rfl, rfl⟩ := mkRec_start_only _ _ _ _ hr
        have one : mkRec cfg.mode (some 1) (some s) none (some s) =
            some ⟨some 1, some s, none, some s, some s, 1⟩ := by unfold mkRec; simp
        obtain ⟨text, r', _, h1, _, h3, h4, h5, _, _, _, h6, _⟩ :=
          C14_text_roundtrip_start_second cfg hpt hb nedS nedS hnS hnS (some 1) s s hs hys hs hys _ one
        refine ⟨text, r', ?_, h3, h4, h5, h6⟩
        simpa [secondNed] using h1
  | some d =>
    obtain ⟨hnn, hx⟩ := hdu d rfl
    cases start with
    | some s =>
      obtain ⟨hs, hys⟩ := hst s rfl
      cases end_ with
      | some e => rw [mkRec_both_none] at hr; cases hr
      | none =>
        obtain ⟨text, h1, _, h3, h4⟩ :=
          C14_text_roundtrip_start_duration cfg hpt hb nedS hnS reps s d hs hys hnn hx r hr nedE
        exact ⟨text, r, by simpa using h1, h3, h4, rfl, fun _ => rfl⟩
    | none =>
      cases end_ with
      | none => rw [mkRec_neither_none] at hr; cases hr
      | some e =>
        obtain ⟨he, hye⟩ := hen e rfl
        obtain ⟨text, h1, _, h3, h4⟩ :=
          C14_text_roundtrip_duration_end cfg hpt hb nedE hnE reps e d he hye hnn hx r hr nedS
        exact ⟨text, r, by simpa using h1, h3, h4, rfl, fun _ => rfl⟩

/-! ## Negative intervals are outside the property -/

/-- A single-signed interval with a negative component is `< Duration()`: the constructor refuses
    it, whatever else is given (so `NonNeg` above is the whole single-signed domain). -/
theorem mkRec_neg_none (m : Mode) (reps : Option Int) (st en : Option TP) (d : Dur)
    (hs : SingleSigned d) (hneg : ¬ NonNeg d) : mkRec m reps st (some d) en = none := by
  have hlt : Dur.lt m d Dur.zero = true := by
    have zero_das : Dur.zero.daysAndSeconds m = (0, 0) := by cases m <;> decide
    unfold Dur.lt
    rw [zero_das]
    cases d with
    | weeks w =>
      have hw : w < 0 := by unfold NonNeg at hneg; omega
      simp only [Dur.daysAndSeconds, pairLt, daysInWeek_eq, Bool.or_eq_true, decide_eq_true_eq]
      left; omega
    | units y mo dd hh mi ss =>
      have hY : (calOf m).roughDaysInYear = 360 ∨ (calOf m).roughDaysInYear = 365 ∨
          (calOf m).roughDaysInYear = 366 := by cases m <;> decide
      have hM : (calOf m).roughDaysInMonth = 30 := by cases m <;> decide
      rcases hs with h | ⟨a1, a2, a3, a4, a5, a6⟩
      · exact absurd h hneg
      · have hsome : y < 0 ∨ mo < 0 ∨ dd < 0 ∨ hh < 0 ∨ mi < 0 ∨ ss < 0 := by
          unfold NonNeg at hneg; omega
        simp only [Dur.daysAndSeconds, pairLt, hM, secondsInDay_eq, secondsInHour_eq,
          secondsInMinute_eq, Bool.or_eq_true, decide_eq_true_eq]
        left
        rcases hY with hY | hY | hY <;> rw [hY] <;> omega
  have e : mkRec m reps st (some d) en = if repsBad reps = true then none
      else if Dur.lt m d Dur.zero = true then none
      else match st, en with
        | some s, none =>
          if reps = some 1 ∨ isZeroDur m d = true then some ⟨some 1, st, none, st, none, 3⟩
          else match reps with
            | none => some ⟨none, st, some d, none, none, 3⟩
            | some n => (addDur m s (d.mul (n - 1))).map fun e' => ⟨reps, st, some d, some e', none, 3⟩
        | none, some e =>
          if reps = some 1 ∨ isZeroDur m d = true then some ⟨some 1, en, none, en, none, 4⟩
          else match reps with
            | none => some ⟨none, none, some d, en, none, 4⟩
            | some n => (subDur m e (d.mul (n - 1))).map fun s' => ⟨reps, some s', some d, en, none, 4⟩
        | _, _ => none := by
    cases reps <;> (unfold mkRec; rfl)
  rw [e, hlt]
  simp

example : mkRec .greg (some 2) (some ⟨.cal 2000 1 1, 0, 0, 0, ⟨0, 0⟩⟩) (some (.units 0 (-1) 0 0 0 0)) none = none :=
  mkRec_neg_none _ _ _ _ _ (Or.inr (by decide)) (by decide)

/-! ## Totality (C09 for recurrence texts) -/

/-- The constructor only builds notations 1, 3 and 4. -/
theorem mkRec_fmt (m : Mode) (a : Option Int) (b : Option TP) (c : Option Dur) (e : Option TP) (r : Rec)
    (hh : mkRec m a b c e = some r) : r.fmt = 1 ∨ r.fmt = 3 ∨ r.fmt = 4 := by
  unfold mkRec at hh
  repeat' split at hh
  all_goals first
    | (cases hh <;> simp; done)
    | (simp only [Option.map_eq_some_iff] at hh; obtain ⟨_, _, rfl⟩ := hh; simp; done)

/-- **The recurrence parser is total**: on every text whatsoever `parseRecFull` answers — a
    failure (the Python's `ValueError`-derived exceptions), `outside` (no claim), or a recurrence;
    and a recurrence it returns is one the constructor accepted for some repetitions, start,
    interval and end read from the text, with a positive repetition count if any, in one of the
    three notations. -/
theorem C09_rec_text_total (cfg : Cfg) (s : List Char) :
    parseRecFull cfg s = .fail ∨ parseRecFull cfg s = .outside ∨
    ∃ p reps start dur end_, parseRecFull cfg s = .ok p ∧ parseRec cfg s = some p.val ∧
      mkRec cfg.mode reps start dur end_ = some p.val ∧ (∀ n, reps = some n → 0 < n) ∧
      (p.val.fmt = 1 ∨ p.val.fmt = 3 ∨ p.val.fmt = 4) := by
  cases h : parseRecFull cfg s with
  | fail => exact Or.inl rfl
  | outside => exact Or.inr (Or.inl rfl)
  | ok p =>
    right; right
    have h0 := h
    unfold parseRecFull at h
    split at h
    · cases h
    · cases h
    · split at h
      · cases h
      · split at h
        · cases h
        · cases h
        · split at h
          · cases h
          · rename_i reps rest _ g _ st en iv _ r hm
            simp only [Res.ok.injEq] at h
            subst h
            refine ⟨_, _, _, _, _, rfl, parseRec_of_full _ _ _ h0, hm, mkRec_pos _ _ _ _ _ _ hm, ?_⟩
            exact mkRec_fmt _ _ _ _ _ _ hm

/-! ## Outside the property -/

/-- One repetition with an end point only: the constructor drops the end point
    (`self._second_point = self._end_point = self._start_point`, which is `None`), the recurrence has
    no points, prints as `R1/None/None`, and that text is refused. -/
theorem C14_text_none_unparseable :
    mkRec .greg (some 1) none none (some ⟨.cal 2000 1 1, 0, 0, 0, ⟨0, 0⟩⟩) =
      some ⟨some 1, none, none, none, none, 1⟩ ∧
    (⟨some 1, none, none, none, none, 1⟩ : Rec).toString .greg 0 0 = .ok "R1/None/None".toList ∧
    iter .greg ⟨some 1, none, none, none, none, 1⟩ 5 = [] ∧
    parseRecFull (defaultCfg .greg 0 0) "R1/None/None".toList = .fail := by
  refine ⟨by decide +kernel, by decide +kernel, by decide +kernel, by decide +kernel⟩

/-! ## Non-vacuity

  `cfgD` is the configuration of `TimeRecurrenceParser()` (two expanded year digits) in a process
  whose local offset is +00:00, Gregorian calendar; `cfg0` a recurrence parser built on
  `TimePointParser(num_expanded_year_digits=0, allow_truncated=True, assumed_time_zone=(5, 30))`
  in the 360-day calendar. -/

def cfgD : Cfg := defaultCfg .greg 0 0
def cfg0 : Cfg := ⟨Gen.Templates.parser_0_all, true, .assumed 5 30, .d360⟩

theorem cfgD_pt : cfgD.pt = Gen.Templates.parser_2_all := rfl
theorem cfgD_mem : cfgD.pt ∈ Gen.Templates.parserTables := by rw [cfgD_pt]; exact .tail _ (.tail _ (.head _))
theorem cfgD_ext : cfgD.pt.basicOnly = false := by rw [cfgD_pt]; rfl

-- start/interval, nominal interval, negative expanded year, week date, 24:00:00, offset -00:30
example := C14_text_roundtrip_start_duration cfgD cfgD_mem cfgD_ext 2 (Or.inl rfl) (some 3)
    ⟨.week (-396) 53 7, 24, 0, 0, ⟨0, -30⟩⟩ (.units 0 1 0 6 0 0) (by decide +kernel)
    (by decide +kernel) (by decide)
    (C10.timeExact_of_lt _ _ _ _ _ _ (by decide) (by decide) (by decide))
    ⟨some 3, some ⟨.week (-396) 53 7, 24, 0, 0, ⟨0, -30⟩⟩, some (.units 0 1 0 6 0 0),
      some ⟨.week (-395) 9 4, 12, 0, 0, ⟨0, -30⟩⟩, none, 3⟩ (by decide +kernel) 2
-- the same recurrence, computed: the text and its parse
example : (⟨some 3, some ⟨.week (-396) 53 7, 24, 0, 0, ⟨0, -30⟩⟩, some (.units 0 1 0 6 0 0),
      some ⟨.week (-395) 9 4, 12, 0, 0, ⟨0, -30⟩⟩, none, 3⟩ : Rec).toString .greg 2 2 =
      .ok "R3/-000396-W53-7T24:00:00-00:30/P1MT6H".toList ∧
    parseRec cfgD "R3/-000396-W53-7T24:00:00-00:30/P1MT6H".toList =
      some ⟨some 3, some ⟨.week (-396) 53 7, 24, 0, 0, ⟨0, -30⟩⟩, some (.units 0 1 0 6 0 0),
        some ⟨.week (-395) 9 4, 12, 0, 0, ⟨0, -30⟩⟩, none, 3⟩ := by
  refine ⟨by decide +kernel, by decide +kernel⟩

-- interval/end, unbounded, week-form interval, four-digit years with a parser that has no expanded digits
example := C14_text_roundtrip_duration_end cfg0 (.head _) rfl 0 (Or.inl rfl) none ⟨.ord 2000 360, 23, 59, 59, ⟨5, 30⟩⟩ (.weeks 2)
    (by decide +kernel) (by decide +kernel) (by decide) trivial
    ⟨none, none, some (.weeks 2), some ⟨.ord 2000 360, 23, 59, 59, ⟨5, 30⟩⟩, none, 4⟩ (by decide +kernel) 0
example : (⟨none, none, some (.weeks 2), some ⟨.ord 2000 360, 23, 59, 59, ⟨5, 30⟩⟩, none, 4⟩ : Rec).toString .d360 0 0 =
      .ok "R/P2W/2000-360T23:59:59+05:30".toList ∧
    parseRec cfg0 "R/P2W/2000-360T23:59:59+05:30".toList =
      some ⟨none, none, some (.weeks 2), some ⟨.ord 2000 360, 23, 59, 59, ⟨5, 30⟩⟩, none, 4⟩ := by
  refine ⟨by decide +kernel, by decide +kernel⟩

-- start/second point: two spellings of one instant — the parse is equal, not identical
example := C14_text_roundtrip cfgD cfgD_mem cfgD_ext 2 2 (Or.inl rfl) (Or.inl rfl) (some 5)
    (some ⟨.cal 2000 1 1, 0, 0, 0, ⟨0, 0⟩⟩) none
    (some ⟨.ord 2000 1, 1, 0, 0, ⟨1, 0⟩⟩)
    ⟨some 1, some ⟨.cal 2000 1 1, 0, 0, 0, ⟨0, 0⟩⟩, none, some ⟨.ord 2000 1, 1, 0, 0, ⟨1, 0⟩⟩,
      some ⟨.ord 2000 1, 1, 0, 0, ⟨1, 0⟩⟩, 1⟩ (by decide +kernel)
    (fun s h => by cases h; decide +kernel) (fun s h => by cases h; decide +kernel)
    (fun d h => by cases h) (Or.inl rfl)
example : parseRec cfgD "R1/+002000-01-01T00:00:00Z/+002000-001T01:00:00+01:00".toList =
    some ⟨some 1, some ⟨.cal 2000 1 1, 0, 0, 0, ⟨0, 0⟩⟩, none, some ⟨.cal 2000 1 1, 0, 0, 0, ⟨0, 0⟩⟩,
      some ⟨.cal 2000 1 1, 0, 0, 0, ⟨0, 0⟩⟩, 1⟩ := by decide +kernel
-- start/second point, bounded; the default parser, the start carrying no expanded digits (four-digit
-- year), the second point two
example := C14_text_roundtrip cfgD cfgD_mem cfgD_ext 0 2 (Or.inr rfl) (Or.inl rfl) (some 4)
    (some ⟨.cal 2001 2 28, 12, 0, 0, ⟨1, 0⟩⟩) none (some ⟨.ord 2001 60, 6, 30, 0, ⟨-2, 0⟩⟩)
    ⟨some 4, some ⟨.cal 2001 2 28, 12, 0, 0, ⟨1, 0⟩⟩, some (.units 0 0 0 21 30 0),
      some ⟨.cal 2001 3 3, 4, 30, 0, ⟨1, 0⟩⟩, some ⟨.ord 2001 60, 6, 30, 0, ⟨-2, 0⟩⟩, 1⟩ (by decide +kernel)
    (fun s h => by cases h; decide +kernel) (fun s h => by cases h; decide +kernel)
    (fun d h => by cases h) (Or.inl rfl)
example : (⟨some 4, some ⟨.cal 2001 2 28, 12, 0, 0, ⟨1, 0⟩⟩, some (.units 0 0 0 21 30 0),
        some ⟨.cal 2001 3 3, 4, 30, 0, ⟨1, 0⟩⟩, some ⟨.ord 2001 60, 6, 30, 0, ⟨-2, 0⟩⟩, 1⟩ : Rec).toString .greg 0 2 =
      .ok "R4/2001-02-28T12:00:00+01:00/+002001-060T06:30:00-02:00".toList ∧
    parseRecFull cfgD "R4/2001-02-28T12:00:00+01:00/+002001-060T06:30:00-02:00".toList =
      .ok ⟨⟨some 4, some ⟨.cal 2001 2 28, 12, 0, 0, ⟨1, 0⟩⟩, some (.units 0 0 0 21 30 0),
        some ⟨.cal 2001 3 3, 4, 30, 0, ⟨1, 0⟩⟩, some ⟨.ord 2001 60, 6, 30, 0, ⟨-2, 0⟩⟩, 1⟩, 0, 2⟩ := by
  refine ⟨by decide +kernel, by decide +kernel⟩
-- the default parser, four-digit year, single point from an empty week-form interval
example := C14_text_roundtrip_start_duration cfgD cfgD_mem cfgD_ext 0 (Or.inr rfl) none
    ⟨.cal 9999 12 31, 23, 59, 59, ⟨-12, 0⟩⟩ (.weeks 0) (by decide +kernel) (by decide +kernel) (by decide) trivial
    ⟨some 1, some ⟨.cal 9999 12 31, 23, 59, 59, ⟨-12, 0⟩⟩, none, some ⟨.cal 9999 12 31, 23, 59, 59, ⟨-12, 0⟩⟩, none, 3⟩
    (by decide +kernel) 0
example : (⟨some 1, some ⟨.cal 9999 12 31, 23, 59, 59, ⟨-12, 0⟩⟩, none, some ⟨.cal 9999 12 31, 23, 59, 59, ⟨-12, 0⟩⟩,
      none, 3⟩ : Rec).toString .greg 0 0 = .ok "R1/9999-12-31T23:59:59-12:00/P0Y".toList := by decide +kernel

-- which `/` wins, what the classes admit, the default parser on four-digit and reduced spellings
example : firstRegex "P1D/P/2000".toList = some ⟨none, some "2000".toList, some "P1D/P".toList⟩ ∧
    firstRegex "P1D/2000/P".toList = some ⟨none, some "2000/P".toList, some "P1D".toList⟩ ∧
    firstRegex "Px//P".toList = some ⟨none, some "/P".toList, some "Px".toList⟩ ∧
    firstRegex "/x/y".toList = some ⟨some "/x".toList, some "y".toList, none⟩ ∧
    firstRegex "a/b/c".toList = some ⟨some "a".toList, some "b/c".toList, none⟩ ∧
    firstRegex "a/Px\n".toList = some ⟨some "a".toList, none, some "Px".toList⟩ ∧
    firstRegex "a/\n\n".toList = some ⟨some "a".toList, some "\n".toList, none⟩ ∧
    firstRegex "Pa\nb/c".toList = none ∧ firstRegex "a/P".toList = none := by decide
example : parseRec cfgD "R2/2000-01-31T00Z/P1M".toList =
      some ⟨some 2, some ⟨.cal 2000 1 31, 0, 0, 0, ⟨0, 0⟩⟩, some (.units 0 1 0 0 0 0),
        some ⟨.cal 2000 2 29, 0, 0, 0, ⟨0, 0⟩⟩, none, 3⟩ ∧
    parseRec cfgD "R/20000101T00/PT1H".toList =
      some ⟨none, some ⟨.cal 2000 1 1, 0, 0, 0, ⟨0, 0⟩⟩, some (.units 0 0 0 1 0 0), none, none, 3⟩ ∧
    parseRecFull cfgD "R0/2000/P1D".toList = .fail ∧ parseRecFull cfgD "R/2000/-P1D".toList = .fail ∧
    parseRecFull cfgD "R/2000/PT1,5H".toList = .outside ∧ parseRecFull cfgD "R/P1D/2000/P".toList = .fail := by
  refine ⟨by decide +kernel, by decide +kernel, by decide +kernel, by decide +kernel, by decide +kernel,
    by decide +kernel⟩

end IsoDT.Props.C14b
