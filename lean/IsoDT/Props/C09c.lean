/-
  C09 (truncated constructor) — impossible dates are refused when a TRUNCATED point is built through the
  constructor: `TimePoint(truncated=True, [truncated_property=..., year=<short year>], month_of_year=…,
  day_of_month=…, day_of_year=…, week_of_year=…, day_of_week=…, hour_of_day=…, minute_of_hour=…,
  second_of_minute=…, time_zone_hour=…, time_zone_minute=…)` with integral arguments.

  `Model.mkTruncTP` mirrors `TimePoint.__init__` + `_check_bounds` for `truncated=True` (checked against the
  Python by the driver op `mktrunc`); `Model.truncProps` is `get_truncated_properties()`.

  What is proved, for ALL argument values (any subset given, any integers, all four calendar modes):
  * `C09_trunc_keeps`              the object holds exactly the arguments; the zone is unknown iff none given;
  * `C09_trunc_accept_sound`       every kept field is within the legal range of the mode;
  * `C09_trunc_year_sound`         with a stored year the date fields are valid IN THAT YEAR;
  * `C09_trunc_short_year_possible` with a stored (short) year — of any magnitude or sign — there is a full
                                   year Y ≥ 0 whose last two digits / last digit are the reported
                                   year_of_century / year_of_decade and in which the given date exists;
  * `C09_trunc_no_year_possible`   without a year, each given date notation exists in some year Y ≥ 0;
  * `C09_trunc_accept_complete`    the accepted argument sets are exactly `Lemmas.TruncAcceptable`;
  * `C09_trunc_conflicts`          two date notations at once are refused whatever the values;
  * `C09_trunc_reported_year`      what `get_truncated_properties()` reports for the year.
  The converse of `…_short_year_possible` is FALSE of the code (it checks against the short year itself,
  i.e. year 0..99 resp. 0..9, not against every year with those digits): `C09_trunc_short_year_overstrict`.
-/
import IsoDT.Lemmas.ConstructTrunc

namespace IsoDT.Props.C09
open IsoDT IsoDT.Model IsoDT.Lemmas IsoDT.Lemmas.ConstructTrunc
open IsoDT.Spec (TZ)

/-- **The truncated object holds exactly what it was given** (nothing is defaulted, the year is stored
    unreduced), with a legal zone that is "unknown" exactly when neither zone argument is given. -/
theorem C09_trunc_keeps (m : Mode) (a : TruncArgs) (f : TruncFields) (h : mkTruncTP m a = some f) :
    f.tprop = a.tprop ∧ f.year = a.year ∧ f.month = a.month ∧ f.dom = a.dom ∧ f.doy = a.doy ∧
    f.week = a.week ∧ f.dow = a.dow ∧ f.hh = a.hh ∧ f.mi = a.mi ∧ f.ss = a.ss ∧
    (f.tzUnknown = true ↔ a.tzh = none ∧ a.tzm = none) ∧
    mkTZOpt m a.tzh a.tzm = some f.tz ∧ f.tz.Valid ∧ (f.tzUnknown = true → f.tz = ⟨0, 0⟩) := by
  obtain ⟨tz, hz, _, _, rfl⟩ := mkTruncTP_some m a f h
  refine ⟨rfl, rfl, rfl, rfl, rfl, rfl, rfl, rfl, rfl, rfl, ?_, hz, mkTZOpt_valid m _ _ tz hz, ?_⟩
  · simp [fieldsOf]
  · intro hu
    have : a.tzh = none ∧ a.tzm = none := by simpa [fieldsOf] using hu
    rw [this.1, this.2] at hz
    exact (Option.some.inj hz).symm

example : mkTruncTP .greg ⟨.yearOfCentury, some 150, some 2, some 28, none, none, none, some 5, none, none, none, some 30⟩ =
    some ⟨.yearOfCentury, some 150, some 2, some 28, none, none, none, some 5, none, none, false, ⟨0, 30⟩⟩ := by
  decide +kernel

/-- **No impossible field is admitted**: whatever keyword arguments are given (any subset, any integers,
    with or without a year), if the truncated constructor accepts them then every field the object holds
    is legal for the mode: month 1..12; day of month 1..(longest month) and, with a month, within that
    month's leap-year length; day of year within the leap-year length; ISO week 1..(most weeks a year of
    the mode has); weekday 1..7; hour 0..24; minute and second below 60; hour 24 only with minute and
    second 0 or absent; zone parts in range and of one sign; at most one date notation. -/
theorem C09_trunc_accept_sound (m : Mode) (a : TruncArgs) (f : TruncFields) (h : mkTruncTP m a = some f) :
    (∀ mo, f.month = some mo → 1 ≤ mo ∧ mo ≤ 12) ∧
    (∀ d, f.dom = some d → 1 ≤ d ∧ d ≤ maxDom m) ∧
    (∀ mo d, f.month = some mo → f.dom = some d → d ≤ Spec.monthLenB m true mo) ∧
    (∀ n, f.doy = some n → 1 ≤ n ∧ n ≤ Spec.yearLenB m true) ∧
    (∀ w, f.week = some w → 1 ≤ w ∧ w ≤ maxWeeks m) ∧
    (∀ d, f.dow = some d → 1 ≤ d ∧ d ≤ 7) ∧
    (∀ x, f.hh = some x → 0 ≤ x ∧ x ≤ 24) ∧
    (∀ x, f.mi = some x → 0 ≤ x ∧ x < 60) ∧
    (∀ x, f.ss = some x → 0 ≤ x ∧ x < 60) ∧
    (f.hh = some 24 → (∀ x, f.mi = some x → x = 0) ∧ (∀ x, f.ss = some x → x = 0)) ∧
    f.tz.Valid ∧ oneRep a = true := by
  obtain ⟨tz, hz, hc, hb, rfl⟩ := mkTruncTP_some m a f h
  obtain ⟨b1, b2, b3, b4, b5, b6, b7⟩ := (truncBoundsOk_iff m _ _ _ _ _ _ _ _ _).mp hb
  have hone : oneRep a = true := by
    have := conflict_eq_of_ranges a _ _ _ _ b1 b2 b4 b5
    rw [hc] at this
    cases ho : oneRep a
    · rw [ho] at this; cases this
    · rfl
  simp only [fieldsOf]
  refine ⟨?_, ?_, ?_, ?_, ?_, ?_, ?_, ?_, ?_, ?_, mkTZOpt_valid m _ _ tz hz, hone⟩
  · intro mo e; rw [e] at b1; exact b1
  · intro d e
    rw [e] at b2
    have hd := (OptIn_some _ _ _).mp b2
    refine ⟨hd.1, ?_⟩
    cases hm : a.month with
    | none =>
      rw [hm] at hd
      cases hy : a.year <;> rw [hy] at hd <;> exact hd.2
    | some mo =>
      rw [hm] at b1 hd
      have hmo := (OptIn_some _ _ _).mp b1
      cases hy : a.year with
      | none =>
        rw [hy] at hd
        have := (monthLenB_le_leap m true mo hmo.1 hmo.2).2
        simp only [maxDomOf] at hd; omega
      | some y =>
        rw [hy] at hd
        have := monthLenB_le_leap m (Spec.leap m y) mo hmo.1 hmo.2
        simp only [maxDomOf, Spec.monthLen] at hd; omega
  · intro mo d e1 e2
    rw [e1] at b1
    rw [e1, e2] at b2
    have hmo := (OptIn_some _ _ _).mp b1
    have hd := (OptIn_some _ _ _).mp b2
    cases hy : a.year with
    | none => rw [hy] at hd; exact hd.2
    | some y =>
      rw [hy] at hd
      have := monthLenB_le_leap m (Spec.leap m y) mo hmo.1 hmo.2
      simp only [maxDomOf, Spec.monthLen] at hd; omega
  · intro n e
    rw [e] at b3
    have hn := (OptIn_some _ _ _).mp b3
    refine ⟨hn.1, ?_⟩
    cases hy : a.year with
    | none => rw [hy] at hn; exact hn.2
    | some y =>
      rw [hy] at hn
      have := yearLen_le_leap m y
      simp only [maxDoyOf] at hn; omega
  · intro w e
    rw [e] at b4
    have hw := (OptIn_some _ _ _).mp b4
    refine ⟨hw.1, ?_⟩
    cases hy : a.year with
    | none => rw [hy] at hw; exact hw.2
    | some y =>
      rw [hy] at hw
      have := weeksInYear_le_max m y
      simp only [maxWeekOf] at hw; omega
  · intro d e; rw [e] at b5; exact b5
  · intro x e; rw [e] at b6; exact b6
  · intro x e
    by_cases c : a.hh = some 24
    · rw [if_pos c, e] at b7
      have := (OptIn_some _ _ _).mp b7.1; omega
    · rw [if_neg c, e] at b7
      have := (OptIn_some _ _ _).mp b7.1; omega
  · intro x e
    by_cases c : a.hh = some 24
    · rw [if_pos c, e] at b7
      have := (OptIn_some _ _ _).mp b7.2; omega
    · rw [if_neg c, e] at b7
      have := (OptIn_some _ _ _).mp b7.2; omega
  · intro c
    rw [if_pos c] at b7
    refine ⟨fun x e => ?_, fun x e => ?_⟩
    · rw [e] at b7; have := (OptIn_some _ _ _).mp b7.1; omega
    · rw [e] at b7; have := (OptIn_some _ _ _).mp b7.2; omega

/-- Non-vacuity: accepted sets exist with every field given, at the limits (no year: 29 February, hour 24). -/
example : (mkTruncTP .greg ⟨.none, none, some 2, some 29, none, none, none, some 24, some 0, some 0, some (-1), some (-30)⟩).isSome = true ∧
    (mkTruncTP .greg ⟨.none, none, none, none, some 366, none, none, none, some 59, some 59, none, none⟩).isSome = true ∧
    (mkTruncTP .greg ⟨.none, none, none, none, none, some 53, some 7, none, none, none, none, none⟩).isSome = true := by
  decide +kernel

/-- **With a stored year the date is a real date of THAT year** (the short year is used as the year:
    `year_of_century=1` is checked as the year 1): month and day form a valid calendar date, the day of
    year a valid ordinal date, the week (and weekday) a valid ISO week (date) of year `y` — in the mode's
    calendar, for any `y`. -/
theorem C09_trunc_year_sound (m : Mode) (a : TruncArgs) (f : TruncFields) (h : mkTruncTP m a = some f)
    (y : Int) (hy : f.year = some y) :
    (∀ mo d, f.month = some mo → f.dom = some d → Spec.ValidCal m y mo d) ∧
    (∀ d, f.month = none → f.dom = some d → Spec.ValidCal m y 1 d) ∧
    (∀ n, f.doy = some n → Spec.ValidOrd m y n) ∧
    (∀ w, f.week = some w → 1 ≤ w ∧ w ≤ Spec.weeksInYear m y) ∧
    (∀ w d, f.week = some w → f.dow = some d → Spec.ValidWeek m y w d) := by
  obtain ⟨tz, _, _, hb, rfl⟩ := mkTruncTP_some m a f h
  obtain ⟨b1, b2, b3, b4, b5, _, _⟩ := (truncBoundsOk_iff m _ _ _ _ _ _ _ _ _).mp hb
  simp only [fieldsOf] at hy ⊢
  rw [hy] at b2 b3 b4
  refine ⟨?_, ?_, ?_, ?_, ?_⟩
  · intro mo d e1 e2
    rw [e1] at b1; rw [e1, e2] at b2
    have hmo := (OptIn_some _ _ _).mp b1
    have hd := (OptIn_some _ _ _).mp b2
    exact ⟨hmo.1, hmo.2, hd.1, hd.2⟩
  · intro d e1 e2
    rw [e1, e2] at b2
    have hd := (OptIn_some _ _ _).mp b2
    refine ⟨by omega, by omega, hd.1, ?_⟩
    rw [monthLen_jan]; exact hd.2
  · intro n e; rw [e] at b3; exact (OptIn_some _ _ _).mp b3
  · intro w e; rw [e] at b4; exact (OptIn_some _ _ _).mp b4
  · intro w d e1 e2
    rw [e1] at b4; rw [e2] at b5
    have hw := (OptIn_some _ _ _).mp b4
    have hd := (OptIn_some _ _ _).mp b5
    exact ⟨hw.1, hw.2, hd.1, hd.2⟩

example : (mkTruncTP .greg ⟨.yearOfCentury, some 4, some 2, some 29, none, none, none, none, none, none, none, none⟩).isSome = true ∧
    Spec.ValidCal .greg 4 2 29 := by decide +kernel

/-- **What `get_truncated_properties()` reports for the year**: nothing without a `truncated_property`;
    `year % 100` (in 0..99) as year_of_century, `year % 10` (in 0..9) as year_of_decade, first in the
    dict; the method raises exactly when the property is named and no year was given. -/
theorem C09_trunc_reported_year (f : TruncFields) :
    (f.tprop = .none → ∃ l, truncProps f = some l ∧
      ∀ e ∈ l, e.1 ≠ .yearOfCentury ∧ e.1 ≠ .yearOfDecade) ∧
    (∀ y, f.tprop = .yearOfCentury → f.year = some y →
      ∃ l, truncProps f = some ((.yearOfCentury, y % 100) :: l) ∧ 0 ≤ y % 100 ∧ y % 100 < 100) ∧
    (∀ y, f.tprop = .yearOfDecade → f.year = some y →
      ∃ l, truncProps f = some ((.yearOfDecade, y % 10) :: l) ∧ 0 ≤ y % 10 ∧ y % 10 < 10) ∧
    (truncProps f = none ↔ f.tprop ≠ .none ∧ f.year = none) := by
  refine ⟨?_, ?_, ?_, ?_⟩
  · intro ht
    have e0 : truncYearEntry f = some [] := by simp only [truncYearEntry, ht]
    unfold truncProps; rw [e0]
    refine ⟨_, rfl, ?_⟩
    intro e he
    simp only [List.nil_append, List.mem_append] at he
    have key : ∀ (k : TruncKey) (v : Option Int), e ∈ truncEntry k v → e.1 = k := by
      intro k v hm
      cases v with
      | none => simp [truncEntry] at hm
      | some x => simp only [truncEntry, List.mem_singleton] at hm; rw [hm]
    rcases he with ((((((he | he) | he) | he) | he) | he) | he) | he <;>
      (have := key _ _ he; rw [this]; exact ⟨by decide, by decide⟩)
  · intro y ht hy
    have e0 : truncYearEntry f = some [(.yearOfCentury, y % 100)] := by simp only [truncYearEntry, ht, hy]
    unfold truncProps; rw [e0]
    exact ⟨_, rfl, by omega, by omega⟩
  · intro y ht hy
    have e0 : truncYearEntry f = some [(.yearOfDecade, y % 10)] := by simp only [truncYearEntry, ht, hy]
    unfold truncProps; rw [e0]
    exact ⟨_, rfl, by omega, by omega⟩
  · unfold truncProps truncYearEntry
    cases f.tprop <;> cases f.year <;> simp

example : truncProps ⟨.yearOfCentury, some (-1), some 2, none, none, none, none, none, none, none, true, ⟨0, 0⟩⟩ =
    some [(.yearOfCentury, 99), (.monthOfYear, 2)] := by decide +kernel
example : truncProps ⟨.yearOfDecade, none, some 2, none, none, none, none, none, none, none, true, ⟨0, 0⟩⟩ = none := by
  decide +kernel

/-- **A short year accepted with a date can be completed to a real date**: whenever the constructor
    accepts a stored year `y` (year_of_century 0..99, year_of_decade 0..9 — or ANY integer, the constructor
    does not check) there EXISTS a full year `Y ≥ 0` with `Y % 100 = y % 100` and `Y % 10 = y % 10` — the
    very values `get_truncated_properties()` reports as year_of_century / year_of_decade — in which the
    month+day is a valid calendar date, the day of year a valid ordinal date, the ISO week (date) a valid
    week (date).  For `0 ≤ y` the witness is `y` itself (`C09_trunc_year_sound`); negative years use the
    2800-year periodicity of every mode's calendar. -/
theorem C09_trunc_short_year_possible (m : Mode) (a : TruncArgs) (f : TruncFields) (h : mkTruncTP m a = some f)
    (y : Int) (hy : f.year = some y) :
    ∃ Y : Int, 0 ≤ Y ∧ Y % 100 = y % 100 ∧ Y % 10 = y % 10 ∧
      (∀ mo d, f.month = some mo → f.dom = some d → Spec.ValidCal m Y mo d) ∧
      (∀ d, f.month = none → f.dom = some d → Spec.ValidCal m Y 1 d) ∧
      (∀ n, f.doy = some n → Spec.ValidOrd m Y n) ∧
      (∀ w, f.week = some w → 1 ≤ w ∧ w ≤ Spec.weeksInYear m Y) ∧
      (∀ w d, f.week = some w → f.dow = some d → Spec.ValidWeek m Y w d) := by
  obtain ⟨s1, s2, s3, s4, s5⟩ := C09_trunc_year_sound m a f h y hy
  obtain ⟨Y, p0, p1, p2, pm, py, pw⟩ := nonneg_twin m y
  refine ⟨Y, p0, p1, p2, ?_, ?_, ?_, ?_, ?_⟩
  · intro mo d e1 e2
    have := s1 mo d e1 e2
    unfold Spec.ValidCal at this ⊢; rw [pm]; exact this
  · intro d e1 e2
    have := s2 d e1 e2
    unfold Spec.ValidCal at this ⊢; rw [pm]; exact this
  · intro n e
    have := s3 n e
    unfold Spec.ValidOrd at this ⊢; rw [py]; exact this
  · intro w e; rw [pw]; exact s4 w e
  · intro w d e1 e2
    have := s5 w d e1 e2
    unfold Spec.ValidWeek at this ⊢; rw [pw]; exact this

/-- For a non-negative stored year the witness is that year itself. -/
theorem C09_trunc_short_year_possible_self (m : Mode) (a : TruncArgs) (f : TruncFields)
    (h : mkTruncTP m a = some f) (y : Int) (hy : f.year = some y) (h0 : 0 ≤ y) :
    ∃ Y : Int, Y = y ∧ 0 ≤ Y ∧
      (∀ mo d, f.month = some mo → f.dom = some d → Spec.ValidCal m Y mo d) ∧
      (∀ n, f.doy = some n → Spec.ValidOrd m Y n) ∧
      (∀ w d, f.week = some w → f.dow = some d → Spec.ValidWeek m Y w d) := by
  obtain ⟨s1, _, s3, _, s5⟩ := C09_trunc_year_sound m a f h y hy
  exact ⟨y, rfl, h0, s1, s3, s5⟩

example : (mkTruncTP .greg ⟨.yearOfCentury, some (-4), none, none, some 366, none, none, none, none, none, none, none⟩).isSome = true ∧
    (-4 : Int) % 100 = 96 ∧ Spec.ValidOrd .greg 96 366 := by decide +kernel

/-- **Without a year every accepted date notation exists in some year** `Y ≥ 0` of the mode: the month+day
    (a leap year: 29 February is accepted), a lone day of month (in January), the day of year (a leap
    year: day 366 in the Gregorian and 366-day calendars), the ISO week (a year with the mode's maximal
    number of weeks). -/
theorem C09_trunc_no_year_possible (m : Mode) (a : TruncArgs) (f : TruncFields) (h : mkTruncTP m a = some f)
    (hy : f.year = none) :
    (∀ mo d, f.month = some mo → f.dom = some d → ∃ Y : Int, 0 ≤ Y ∧ Spec.ValidCal m Y mo d) ∧
    (∀ d, f.month = none → f.dom = some d → ∃ Y : Int, 0 ≤ Y ∧ Spec.ValidCal m Y 1 d) ∧
    (∀ n, f.doy = some n → ∃ Y : Int, 0 ≤ Y ∧ Spec.ValidOrd m Y n) ∧
    (∀ w, f.week = some w → ∃ Y : Int, 0 ≤ Y ∧ 1 ≤ w ∧ w ≤ Spec.weeksInYear m Y) ∧
    (∀ w d, f.week = some w → f.dow = some d → ∃ Y : Int, 0 ≤ Y ∧ Spec.ValidWeek m Y w d) := by
  obtain ⟨tz, _, _, hb, rfl⟩ := mkTruncTP_some m a f h
  obtain ⟨b1, b2, b3, b4, b5, _, _⟩ := (truncBoundsOk_iff m _ _ _ _ _ _ _ _ _).mp hb
  simp only [fieldsOf] at hy ⊢
  rw [hy] at b2 b3 b4
  have hl := longWeekYear_spec m
  refine ⟨?_, ?_, ?_, ?_, ?_⟩
  · intro mo d e1 e2
    rw [e1] at b1; rw [e1, e2] at b2
    have hmo := (OptIn_some _ _ _).mp b1
    have hd := (OptIn_some _ _ _).mp b2
    refine ⟨4, by omega, hmo.1, hmo.2, hd.1, ?_⟩
    rw [monthLen_four]; exact hd.2
  · intro d e1 e2
    rw [e1, e2] at b2
    have hd := (OptIn_some _ _ _).mp b2
    refine ⟨4, by omega, by omega, by omega, hd.1, ?_⟩
    rw [monthLen_jan]; exact hd.2
  · intro n e
    rw [e] at b3
    have hn := (OptIn_some _ _ _).mp b3
    refine ⟨4, by omega, hn.1, ?_⟩
    rw [yearLen_four]; exact hn.2
  · intro w e
    rw [e] at b4
    have hw := (OptIn_some _ _ _).mp b4
    exact ⟨longWeekYear m, hl.1, hw.1, by rw [hl.2]; exact hw.2⟩
  · intro w d e1 e2
    rw [e1] at b4; rw [e2] at b5
    have hw := (OptIn_some _ _ _).mp b4
    have hd := (OptIn_some _ _ _).mp b5
    exact ⟨longWeekYear m, hl.1, hw.1, by rw [hl.2]; exact hw.2, hd.1, hd.2⟩

example : (mkTruncTP .d366 ⟨.none, none, none, none, some 366, none, none, none, none, none, none, none⟩).isSome = true ∧
    (mkTruncTP .d365 ⟨.none, none, none, none, none, some 53, some 1, none, none, none, none, none⟩).isSome = true ∧
    Spec.ValidWeek .d365 3 53 1 := by decide +kernel

/-- **Exactly the in-range argument sets are accepted** (the converse, as far as it is true of the code):
    the constructor accepts iff `Lemmas.TruncAcceptable` — a legal zone, at most one date notation, every
    given field within its limit, where the limits come from the stored year when there is one (used as
    a full year, whatever `truncated_property` says) and otherwise from a leap year / the mode's maxima —
    and then the object is `fieldsOf a tz`. -/
theorem C09_trunc_accept_complete (m : Mode) (a : TruncArgs) :
    ((mkTruncTP m a).isSome = true ↔ TruncAcceptable m a) ∧
    (TruncAcceptable m a → ∃ tz, mkTZOpt m a.tzh a.tzm = some tz ∧ mkTruncTP m a = some (fieldsOf a tz)) := by
  have fwd : TruncAcceptable m a →
      ∃ tz, mkTZOpt m a.tzh a.tzm = some tz ∧ mkTruncTP m a = some (fieldsOf a tz) := by
    rintro ⟨hz, hone, b1, b2, b3, b4, b5, b6, b7⟩
    have hz' := (mkTZOpt_isSome_iff m _ _).mpr hz
    obtain ⟨tz, htz⟩ := Option.isSome_iff_exists.mp hz'
    have hc : conflict a = false := by
      rw [conflict_eq_of_ranges a _ _ _ _ b1 b2 b4 b5, hone]; rfl
    have hb := (truncBoundsOk_iff m a.year a.month a.dom a.doy a.week a.dow a.hh a.mi a.ss).mpr
      ⟨b1, b2, b3, b4, b5, b6, b7⟩
    refine ⟨tz, htz, ?_⟩
    rw [mkTruncTP_eq, htz]
    simp only [hc, hb, Bool.false_eq_true, ↓reduceIte]
  refine ⟨⟨?_, fun h => ?_⟩, fwd⟩
  · intro h
    obtain ⟨f, hf⟩ := Option.isSome_iff_exists.mp h
    obtain ⟨tz, hz, hc, hb, _⟩ := mkTruncTP_some m a f hf
    obtain ⟨b1, b2, b3, b4, b5, b6, b7⟩ := (truncBoundsOk_iff m _ _ _ _ _ _ _ _ _).mp hb
    have hone : oneRep a = true := by
      have := conflict_eq_of_ranges a _ _ _ _ b1 b2 b4 b5
      rw [hc] at this
      cases ho : oneRep a
      · rw [ho] at this; cases this
      · rfl
    exact ⟨(mkTZOpt_isSome_iff m _ _).mp (by rw [hz]; rfl), hone, b1, b2, b3, b4, b5, b6, b7⟩
  · obtain ⟨tz, _, e⟩ := fwd h
    rw [e]; rfl

example : TruncAcceptable .greg ⟨.yearOfDecade, some 8, some 2, some 29, none, none, none, some 24, none, some 0, some 1, none⟩ := by
  decide +kernel
example : ¬ TruncAcceptable .greg ⟨.yearOfDecade, some 9, some 2, some 29, none, none, none, none, none, none, none, none⟩ := by
  decide +kernel

/-- **Two date notations at once are refused whatever their values** (Python truthiness: a given non-zero
    value; a given zero is refused by the bounds instead — second part), as is an illegal zone. -/
theorem C09_trunc_conflicts (m : Mode) (a : TruncArgs) :
    ((truthy a.month || truthy a.dom) = true → (truthy a.week || truthy a.dow) = true → mkTruncTP m a = none) ∧
    ((truthy a.month || truthy a.dom) = true → a.doy.isSome = true → mkTruncTP m a = none) ∧
    ((truthy a.week || truthy a.dow) = true → a.doy.isSome = true → mkTruncTP m a = none) ∧
    (oneRep a = false → mkTruncTP m a = none) ∧
    (mkTZOpt m a.tzh a.tzm = none → mkTruncTP m a = none) := by
  have hcf : conflict a = true → mkTruncTP m a = none := by
    intro hc
    rw [mkTruncTP_eq]
    cases mkTZOpt m a.tzh a.tzm <;> simp only [hc, ↓reduceIte]
  refine ⟨fun h1 h2 => hcf ?_, fun h1 h2 => hcf ?_, fun h1 h2 => hcf ?_, fun h => ?_, fun h => ?_⟩
  · unfold conflict; rw [h1, h2]; rfl
  · unfold conflict; rw [h1, h2]; simp
  · unfold conflict; rw [h1, h2]; simp
  · cases hm : mkTruncTP m a with
    | none => rfl
    | some f =>
      have := (C09_trunc_accept_sound m a f hm).2.2.2.2.2.2.2.2.2.2.2
      rw [h] at this; cases this
  · rw [mkTruncTP_eq, h]

example : mkTruncTP .greg ⟨.none, none, some 1, none, none, some 1, none, none, none, none, none, none⟩ = none ∧
    mkTruncTP .greg ⟨.none, none, none, some 1, some 1, none, none, none, none, none, none, none⟩ = none ∧
    mkTruncTP .greg ⟨.none, none, none, none, some 1, none, some 1, none, none, none, none, none⟩ = none ∧
    mkTruncTP .greg ⟨.none, none, some 0, none, some 1, none, none, none, none, none, none, none⟩ = none ∧
    mkTruncTP .greg ⟨.none, none, none, none, none, none, none, some 1, none, none, some 1, some (-1)⟩ = none := by
  decide +kernel

/-! ## The boundary cases of the statement, in the modes where they differ -/

/-- Short-year calendar dates: 01-02-29 refused, 04-02-29 and 00-02-29 accepted in the Gregorian calendar;
    29 February always refused with 365 days, always accepted with 366, the 30th always accepted and the
    31st refused with 360. -/
theorem C09_trunc_witness_feb29 :
    mkTruncTP .greg ⟨.yearOfCentury, some 1, some 2, some 29, none, none, none, none, none, none, none, none⟩ = none ∧
    (mkTruncTP .greg ⟨.yearOfCentury, some 4, some 2, some 29, none, none, none, none, none, none, none, none⟩).isSome = true ∧
    (mkTruncTP .greg ⟨.yearOfCentury, some 0, some 2, some 29, none, none, none, none, none, none, none, none⟩).isSome = true ∧
    mkTruncTP .greg ⟨.yearOfCentury, some 4, some 2, some 30, none, none, none, none, none, none, none, none⟩ = none ∧
    mkTruncTP .d365 ⟨.yearOfCentury, some 4, some 2, some 29, none, none, none, none, none, none, none, none⟩ = none ∧
    (mkTruncTP .d366 ⟨.yearOfCentury, some 1, some 2, some 29, none, none, none, none, none, none, none, none⟩).isSome = true ∧
    (mkTruncTP .d360 ⟨.yearOfCentury, some 1, some 2, some 30, none, none, none, none, none, none, none, none⟩).isSome = true ∧
    mkTruncTP .d360 ⟨.yearOfCentury, some 1, some 1, some 31, none, none, none, none, none, none, none, none⟩ = none ∧
    mkTruncTP .d360 ⟨.none, none, none, some 31, none, none, none, none, none, none, none, none⟩ = none ∧
    (mkTruncTP .greg ⟨.none, none, none, some 31, none, none, none, none, none, none, none, none⟩).isSome = true := by
  decide +kernel

/-- Short-year ordinal dates: 99-366 refused, 00-366 and 96-366 accepted (Gregorian); day 366 never with
    365 days, always with 366; day 361 never with 360; day 0 never. -/
theorem C09_trunc_witness_doy :
    mkTruncTP .greg ⟨.yearOfCentury, some 99, none, none, some 366, none, none, none, none, none, none, none⟩ = none ∧
    (mkTruncTP .greg ⟨.yearOfCentury, some 0, none, none, some 366, none, none, none, none, none, none, none⟩).isSome = true ∧
    (mkTruncTP .greg ⟨.yearOfCentury, some 96, none, none, some 366, none, none, none, none, none, none, none⟩).isSome = true ∧
    (mkTruncTP .greg ⟨.yearOfCentury, some 99, none, none, some 365, none, none, none, none, none, none, none⟩).isSome = true ∧
    mkTruncTP .greg ⟨.yearOfCentury, some 0, none, none, some 367, none, none, none, none, none, none, none⟩ = none ∧
    mkTruncTP .d365 ⟨.yearOfCentury, some 0, none, none, some 366, none, none, none, none, none, none, none⟩ = none ∧
    (mkTruncTP .d366 ⟨.yearOfCentury, some 99, none, none, some 366, none, none, none, none, none, none, none⟩).isSome = true ∧
    mkTruncTP .d360 ⟨.yearOfCentury, some 0, none, none, some 361, none, none, none, none, none, none, none⟩ = none ∧
    (mkTruncTP .d360 ⟨.none, none, none, none, some 360, none, none, none, none, none, none, none⟩).isSome = true ∧
    mkTruncTP .greg ⟨.none, none, none, none, some 0, none, none, none, none, none, none, none⟩ = none := by
  decide +kernel

/-- Short-year weeks: W53 refused for a 52-week short year (year 1), accepted for a 53-week one (year 4 —
    year 3 with 365 days), W54 never; with 360 days W52 only in a 52-week year (year 2, not year 1) and
    W53 never, not even without a year. -/
theorem C09_trunc_witness_week :
    mkTruncTP .greg ⟨.yearOfCentury, some 1, none, none, none, some 53, none, none, none, none, none, none⟩ = none ∧
    (mkTruncTP .greg ⟨.yearOfCentury, some 4, none, none, none, some 53, none, none, none, none, none, none⟩).isSome = true ∧
    mkTruncTP .greg ⟨.none, none, none, none, none, some 54, none, none, none, none, none, none⟩ = none ∧
    mkTruncTP .d365 ⟨.yearOfDecade, some 4, none, none, none, some 53, none, none, none, none, none, none⟩ = none ∧
    (mkTruncTP .d365 ⟨.yearOfDecade, some 3, none, none, none, some 53, none, none, none, none, none, none⟩).isSome = true ∧
    (mkTruncTP .d366 ⟨.yearOfDecade, some 0, none, none, none, some 53, none, none, none, none, none, none⟩).isSome = true ∧
    mkTruncTP .d366 ⟨.yearOfDecade, some 1, none, none, none, some 53, none, none, none, none, none, none⟩ = none ∧
    mkTruncTP .d360 ⟨.yearOfDecade, some 1, none, none, none, some 52, none, none, none, none, none, none⟩ = none ∧
    (mkTruncTP .d360 ⟨.yearOfDecade, some 2, none, none, none, some 52, none, none, none, none, none, none⟩).isSome = true ∧
    mkTruncTP .d360 ⟨.none, none, none, none, none, some 53, none, none, none, none, none, none⟩ = none ∧
    mkTruncTP .greg ⟨.none, none, none, none, none, some 1, some 8, none, none, none, none, none⟩ = none := by
  decide +kernel

/-- Time of day: hour 24 with minute 1 (or second 1, also without a minute) refused, 24, 24:00, 24:00:00
    accepted, hour 25 / minute 60 / second 60 refused (a lone minute or second too), month 13 refused. -/
theorem C09_trunc_witness_time :
    mkTruncTP .greg ⟨.none, none, none, none, none, none, none, some 24, some 1, none, none, none⟩ = none ∧
    mkTruncTP .greg ⟨.none, none, none, none, none, none, none, some 24, none, some 1, none, none⟩ = none ∧
    (mkTruncTP .greg ⟨.none, none, none, none, none, none, none, some 24, none, none, none, none⟩).isSome = true ∧
    (mkTruncTP .greg ⟨.none, none, none, none, none, none, none, some 24, some 0, some 0, none, none⟩).isSome = true ∧
    mkTruncTP .greg ⟨.none, none, none, none, none, none, none, some 25, none, none, none, none⟩ = none ∧
    mkTruncTP .greg ⟨.none, none, none, none, none, none, none, none, some 60, none, none, none⟩ = none ∧
    mkTruncTP .greg ⟨.none, none, none, none, none, none, none, none, none, some 60, none, none⟩ = none ∧
    (mkTruncTP .greg ⟨.none, none, none, none, none, none, none, none, some 59, some 59, none, none⟩).isSome = true ∧
    mkTruncTP .greg ⟨.none, none, some 13, none, none, none, none, none, none, none, none, none⟩ = none ∧
    (mkTruncTP .greg ⟨.none, none, none, none, none, none, none, none, none, none, none, none⟩).isSome = true := by
  decide +kernel

/-- **The converse of `C09_trunc_short_year_possible` is FALSE of the code** (counter-witnesses): the bounds
    are those of the short year read as a full year (year_of_decade 2 = the year 2, year_of_century 3 = the
    year 3), so dates that exist in SOME year with that last digit / those last two digits are refused:
    29 February and day 366 for year_of_decade 2 or 6 (2012, 2016 are leap years), week 53 for
    year_of_decade 5 (2015 has 53 weeks) and for year_of_century 3 (1903 has 53 weeks). -/
theorem C09_trunc_short_year_overstrict :
    (mkTruncTP .greg ⟨.yearOfDecade, some 2, some 2, some 29, none, none, none, none, none, none, none, none⟩ = none ∧
      (2012 : Int) % 10 = 2 ∧ Spec.ValidCal .greg 2012 2 29) ∧
    (mkTruncTP .greg ⟨.yearOfDecade, some 6, none, none, some 366, none, none, none, none, none, none, none⟩ = none ∧
      (2016 : Int) % 10 = 6 ∧ Spec.ValidOrd .greg 2016 366) ∧
    (mkTruncTP .greg ⟨.yearOfDecade, some 5, none, none, none, some 53, none, none, none, none, none, none⟩ = none ∧
      (2015 : Int) % 10 = 5 ∧ Spec.ValidWeek .greg 2015 53 1) ∧
    (mkTruncTP .greg ⟨.yearOfCentury, some 3, none, none, none, some 53, none, none, none, none, none, none⟩ = none ∧
      (1903 : Int) % 100 = 3 ∧ Spec.ValidWeek .greg 1903 53 1) := by
  decide +kernel

end IsoDT.Props.C09
