/-
  C05 (rational slots) — month and year arithmetic on time points in ANY time-precision form.

  The Python keeps `_hour_of_day`, `_minute_of_hour`, `_second_of_minute` as floats, the last two
  possibly `None` (decimal seconds / decimal minutes / decimal hours).  `Model.TimePointQ3` runs
  the statements of `add_months`, of the year branch of `__add__` and of the whole
  `__add__(Duration)` on such points, the slots as exact rationals.  The nominal part of a
  duration only ever moves DATE slots, which are integers in every form; so, for all four calendar
  modes, the three date representations, any offset, every year in `Int`, either sign:

  * `C05_nominal_projection`: the date `add_months` / the year branch give on a rational-slot
    point is the date the whole-second model (`Props/C05.lean`) gives on the point's date at
    midnight, and the time slots are copied — the nominal part never looks at the time slots;
  * `C05_add_months_rat` / `C05_add_years_rat`: hence the calendar rules of `C05_add_months` /
    `C05_add_years` (|n| single month steps with end-of-month clamping through the calendar form
    and back; 29 Feb → 28 Feb, day 366 → 365, week 53 → 52), with time slots, slot pattern (which of
    minute / second are `None`), UTC offset and representation unchanged, result legal;
  * `C05_order_rat`: a mixed duration applies its exact part first (`C01_add_exact_rat`), then
    months, then years;
  * `C05_add_valid_rat`: `p + d` for any duration of a legal point is defined, legal with
    `hh < 24`, in `p`'s representation, offset and precision form; its time slots are those after
    the exact part alone and its date is the whole-second model's for the nominal part;
  * `C05_rat_extends_int` (+ `_months`, `_years`): on whole-second points the rational model
    coincides with the whole-second model, so the theorems of `Props/C05.lean` are instances;
  * `C05_add_months_24_rat`: what `add_months` does to a 24:00 spelling when called directly
    (`__add__` normalises 24:00 first): zero months keep it; otherwise the months are added to the
    date as written, the day is clamped, and only then 24:00 carries into the next day.

  What this does NOT say: anything about binary rounding in the float computation of the exact
  part (see `Props/C01q.lean`).  The nominal part itself does no float arithmetic at all except the
  `_tick_over()` at the end of `add_months`, which on in-range slots subtracts / adds zero
  remainders (`tickTimeQ_ok_id` in exact arithmetic).
-/
import IsoDT.Lemmas.NominalQ
import IsoDT.Props.C05

namespace IsoDT.Props.C05
open IsoDT IsoDT.Model IsoDT.Lemmas
open IsoDT.Spec (Date TZ TP)

/-- The whole-second point a rational-slot point projects to for nominal arithmetic is strict as
    soon as the date and the offset are legal. -/
theorem midnight_strict (m : Mode) (p : TPQ) (hv : p.Valid m) : p.midnight.Strict m := by
  refine ⟨⟨hv.1, ?_, ?_, ?_, ?_, ?_, ?_, ?_, hv.2.1⟩, ?_⟩ <;> simp [TPQ.midnight]

/-- **Projection**: the nominal part of `__add__` never looks at the time slots.  On a legal point
    with `hh < 24` (all that `__add__` hands over after the exact part) `add_months` returns the
    input with its date replaced by the date the whole-second model computes from the input's date
    at midnight; the year branch does so on every point. -/
theorem C05_nominal_projection (m : Mode) (p : TPQ) (n : Int) :
    (p.hms.Ok → p.hh < 24 →
      addMonthsQ m p n = (addMonths m p.midnight n).map fun q => p.withDate q.date) ∧
    addYearsQ m p n = p.withDate (addYears m p.midnight n).date :=
  ⟨addMonthsQ_proj m p n, addYearsQ_proj m p n⟩

/-- **C05 (months) over rationals**: `add_months(n)`, `n ≠ 0`, on a legal point with `hh < 24` in
    any representation and any precision form: the date is exactly the date of the whole-second
    model (`q.midnight` is `addMonths` of `p.midnight`), hence in calendar form the input moved by
    `|n|` single clamping steps (`C05_month_steps`), ordinal and week dates going through their
    calendar form and back; time slots (so also which of them are `None`), offset and
    representation are unchanged and the result is legal. -/
theorem C05_add_months_rat (m : Mode) (p : TPQ) (n : Int) (hn : n ≠ 0) (hp : TPQ.Strict m p) :
    ∃ y mo d q, convert m 0 p.date = some (.cal y mo d) ∧ Spec.ValidCal m y mo d ∧
      addMonthsQ m p n = some q ∧
      addMonths m p.midnight n = some q.midnight ∧
      convert m 0 q.date = some (.cal (specMonthSteps m (decide (n > 0)) n.natAbs (y, mo, d)).1
        (specMonthSteps m (decide (n > 0)) n.natAbs (y, mo, d)).2.1
        (specMonthSteps m (decide (n > 0)) n.natAbs (y, mo, d)).2.2) ∧
      TPQ.Strict m q ∧ q.date.rep = p.date.rep ∧ q.tz = p.tz ∧ q.hh = p.hh ∧ q.mi = p.mi ∧ q.ss = p.ss := by
  obtain ⟨y, mo, d, q0, ec, vc, e0, cv, s0, r0, t0, h0, m0, ss0⟩ :=
    C05_add_months m p.midnight n hn (midnight_strict m p hp.1)
  have hq0 : q0 = (p.withDate q0.date).midnight := by
    obtain ⟨qd, qh, qm, qs, qt⟩ := q0
    simp only [TPQ.midnight] at t0 h0 m0 ss0
    simp only [TPQ.midnight, TPQ.withDate, t0, h0, m0, ss0]
  refine ⟨y, mo, d, p.withDate q0.date, ec, vc, ?_, ?_, cv, ⟨⟨s0.1.1, hp.1.2.1, hp.1.2.2⟩, hp.2⟩, r0,
    rfl, rfl, rfl, rfl⟩
  · rw [addMonthsQ_proj m p n hp.1.2.2 hp.2, e0]; rfl
  · rw [e0, ← hq0]

theorem C05_add_zero_months_rat (m : Mode) (p : TPQ) : addMonthsQ m p 0 = some p := addMonthsQ_zero m p

/-- **C05 (years) over rationals**: adding `n` years to a legal point in any precision form keeps
    month and day (29 Feb → 28 Feb in a common year), the ordinal day (366 → 365) or the ISO week
    and weekday (week 53 → the target year's last week), according to the representation; the date
    is exactly the whole-second model's; time slots, offset and representation are unchanged and
    the result is legal (with `hh < 24` if the input has). -/
theorem C05_add_years_rat (m : Mode) (p : TPQ) (n : Int) (hp : p.Valid m) :
    (addYearsQ m p n).Valid m ∧ (addYearsQ m p n).date.rep = p.date.rep ∧ (addYearsQ m p n).tz = p.tz ∧
    (addYearsQ m p n).hh = p.hh ∧ (addYearsQ m p n).mi = p.mi ∧ (addYearsQ m p n).ss = p.ss ∧
    (addYearsQ m p n).midnight = addYears m p.midnight n ∧
    (addYearsQ m p n).date =
      match p.date with
      | .cal y mo d => .cal (y + n) mo (min d (Spec.monthLen m (y + n) mo))
      | .ord y doy => .ord (y + n) (min doy (Spec.yearLen m (y + n)))
      | .week y w d => .week (y + n) (min w (Spec.weeksInYear m (y + n))) d := by
  obtain ⟨a1, a2, a3, a4, a5, a6, a7⟩ := C05_add_years m p.midnight n (midnight_strict m p hp)
  rw [addYearsQ_proj]
  refine ⟨⟨a1.1.1, hp.2.1, hp.2.2⟩, a2, rfl, rfl, rfl, rfl, ?_, a7⟩
  generalize addYears m p.midnight n = r at a3 a4 a5 a6
  obtain ⟨rd, rh, rm, rs, rt⟩ := r
  simp only [TPQ.midnight] at a3 a4 a5 a6
  simp only [TPQ.midnight, TPQ.withDate, a3, a4, a5, a6]

/-- **C05 (order) over rationals**: a mixed duration applies its exact part first, then months,
    then years. -/
theorem C05_order_rat (m : Mode) (p : TPQ) (d : DurNQ) :
    addDurQ m p d =
      (addExactQ m p d.exact).bind fun p1 => (addMonthsQ m p1 d.months).bind fun p2 =>
        some (addYearsQ m p2 d.years) := by
  simp only [addDurQ, Option.bind_eq_bind, Option.pure_def]

/-- The whole-second `__add__` of a purely nominal duration to a midnight point skips the exact
    part. -/
theorem addDur_nominal_midnight (m : Mode) (p : TPQ) (y mo : Int) :
    addDur m p.midnight (.units y mo 0 0 0 0) =
      (addMonths m p.midnight mo).bind fun p2 => some (addYears m p2 y) := by
  have e : addUnits m p.midnight 0 0 0 0 = some p.midnight := by
    simp [addUnits, normalise24, stepS, stepM, stepH, stepD, TPQ.midnight, hoursInDay_eq]
  rw [C05_order, e, Option.bind_some]

/-- **C05 (validity) over rationals**: `p + d` for any duration (nominal, exact or mixed, either
    sign, fractional hours / minutes / seconds) of a legal point in any precision form is defined;
    it is a legal point with `hh < 24`, in `p`'s representation, offset and precision form; its
    time slots are those after the exact part alone, and its date is the date the whole-second
    model gives for the nominal part applied to the date reached by the exact part. -/
theorem C05_add_valid_rat (m : Mode) (p : TPQ) (d : DurNQ) (hv : p.Valid m) :
    ∃ p1 q, addExactQ m p d.exact = some p1 ∧ addDurQ m p d = some q ∧
      addDur m p1.midnight (.units d.years d.months 0 0 0 0) = some q.midnight ∧
      TPQ.Strict m q ∧ q.date.rep = p.date.rep ∧ q.tz = p.tz ∧
      q.hh = p1.hh ∧ q.mi = p1.mi ∧ q.ss = p1.ss ∧
      q.mi.isSome = p.mi.isSome ∧ q.ss.isSome = p.ss.isSome := by
  obtain ⟨p1, e1, g1⟩ := addExactQ_spec m p d.exact hv
  have s1 : TPQ.Strict m p1 := ⟨g1.valid, g1.lt24⟩
  have hd := addDur_nominal_midnight m p1 d.years d.months
  rw [C05_order_rat, e1, Option.bind_some]
  by_cases c : d.months = 0
  · rw [c, addMonths_zero, Option.bind_some] at hd
    rw [c, addMonthsQ_zero, Option.bind_some]
    obtain ⟨b1, b2, b3, b4, b5, b6, b7, _⟩ := C05_add_years_rat m p1 d.years g1.valid
    exact ⟨p1, _, rfl, rfl, by rw [hd, b7], ⟨b1, by rw [b4]; exact g1.lt24⟩, by rw [b2, g1.rep],
      by rw [b3, g1.tz], b4, b5, b6, by rw [b5, g1.mi], by rw [b6, g1.ss]⟩
  · obtain ⟨_, _, _, p2, _, _, e2, em, _, s2, r2, t2, hh2, mi2, ss2⟩ := C05_add_months_rat m p1 d.months c s1
    rw [em, Option.bind_some] at hd
    rw [e2, Option.bind_some]
    obtain ⟨b1, b2, b3, b4, b5, b6, b7, _⟩ := C05_add_years_rat m p2 d.years s2.1
    exact ⟨p1, _, rfl, rfl, by rw [hd, b7], ⟨b1, by rw [b4]; exact s2.2⟩, by rw [b2, r2, g1.rep],
      by rw [b3, t2, g1.tz], by rw [b4, hh2], by rw [b5, mi2], by rw [b6, ss2],
      by rw [b5, mi2, g1.mi], by rw [b6, ss2, g1.ss]⟩

/-! ## The rational model extends the whole-second model -/

theorem C05_rat_extends_int_months (m : Mode) (p : TP) (n : Int) :
    addMonthsQ m (TPQ.ofTP p) n = (addMonths m p n).map TPQ.ofTP := addMonthsQ_ofTP m p n

theorem C05_rat_extends_int_years (m : Mode) (p : TP) (n : Int) :
    addYearsQ m (TPQ.ofTP p) n = TPQ.ofTP (addYears m p n) := addYearsQ_ofTP m p n

/-- **C05, whole seconds as an instance**: on a whole-second point and a whole-number `Duration`
    (unit form or week form) the rational model of `__add__` gives the answer of the whole-second
    model `addDur` (same failure, same point), so `C05_add_months`, `C05_add_years`, `C05_order`,
    `C05_add_valid` of `Props/C05.lean` are statements about `addDurQ` too. -/
theorem C05_rat_extends_int (m : Mode) (p : TP) (d : Dur) :
    addDurQ m (TPQ.ofTP p) (d.toNQ m) = (addDur m p d).map TPQ.ofTP := addDurQ_ofTP m p d

/-! ## `add_months` called directly on a 24:00 spelling -/

/-- `add_months(n)`, `n ≠ 0`, on ANY slot values: it is the whole-second `add_months` on the
    point's date at `24·nd` o'clock, `nd` the number of days the closing `_tick_over()` carries
    out of the slots (`1` for a 24:00 spelling) — the carry happens AFTER the month steps and
    their clamp. -/
theorem C05_add_months_24_rat (m : Mode) (p : TPQ) (n : Int) (hn : n ≠ 0) (nd : Int) (t : HMS)
    (ht : tickTimeQ m ⟨p.hh, p.mi, p.ss⟩ = some (nd, t)) :
    addMonthsQ m p n =
      (addMonths m ⟨p.date, (calOf m).hoursInDay * nd, 0, 0, p.tz⟩ n).map
        fun q => ⟨q.date, t.hh, t.mi, t.ss, p.tz⟩ := addMonthsQ_carry m p n hn nd t ht

/-! ## Non-vacuity: concrete runs of the model (kernel-evaluated) -/

-- decimal-hour point, 31 March 12.5h + P1M: clamp to 30 April, 12.5h kept, no minute / second slot
example : TPQ.Strict .greg ⟨.cal 2001 3 31, 25/2, none, none, ⟨5, 30⟩⟩ := ⟨by decide +kernel, by decide +kernel⟩
example : addDurQ .greg ⟨.cal 2001 3 31, 25/2, none, none, ⟨5, 30⟩⟩ ⟨0, 1, ⟨0, 0, 0, 0⟩⟩ =
    some ⟨.cal 2001 4 30, 25/2, none, none, ⟨5, 30⟩⟩ := by decide +kernel
-- decimal-minute point on the leap day, + P1Y: 28 Feb
example : addDurQ .greg ⟨.cal 2000 2 29, 23, some (119/2), none, ⟨0, 0⟩⟩ ⟨1, 0, ⟨0, 0, 0, 0⟩⟩ =
    some ⟨.cal 2001 2 28, 23, some (119/2), none, ⟨0, 0⟩⟩ := by decide +kernel
-- decimal-second ordinal point on day 366, - P1Y: day 365
example : subDurQ .greg ⟨.ord 2000 366, 0, some 0, some (1/4), ⟨0, 0⟩⟩ ⟨1, 0, ⟨0, 0, 0, 0⟩⟩ =
    some ⟨.ord 1999 365, 0, some 0, some (1/4), ⟨0, 0⟩⟩ := by decide +kernel
-- week 53 in decimal-hour form, + P1Y: week 52
example : addDurQ .greg ⟨.week 2020 53 7, 1/8, none, none, ⟨-5, -30⟩⟩ ⟨1, 0, ⟨0, 0, 0, 0⟩⟩ =
    some ⟨.week 2021 52 7, 1/8, none, none, ⟨-5, -30⟩⟩ := by decide +kernel
-- an ordinal date goes through its calendar form and back: day 31 (31 Jan) + P1M = 28 Feb = day 59
example : addDurQ .greg ⟨.ord 2001 31, 12, some (1/2), none, ⟨0, 0⟩⟩ ⟨0, 1, ⟨0, 0, 0, 0⟩⟩ =
    some ⟨.ord 2001 59, 12, some (1/2), none, ⟨0, 0⟩⟩ := by decide +kernel
-- the exact part first: 30 Jan 23.5h + P1MT0.5H is 31 Jan 00h + P1M = 28 Feb (months first would
-- give 28 Feb 23.5h + 0.5h = 1 March)
example : addDurQ .greg ⟨.cal 2001 1 30, 47/2, none, none, ⟨0, 0⟩⟩ ⟨0, 1, ⟨0, 1/2, 0, 0⟩⟩ =
    some ⟨.cal 2001 2 28, 0, none, none, ⟨0, 0⟩⟩ := by decide +kernel
-- months before years: 29 Feb 2000 + P1Y1M = 29 March 2001 (years first would give 28 March)
example : addDurQ .greg ⟨.cal 2000 2 29, 0, some 0, some (1/2), ⟨0, 0⟩⟩ ⟨1, 1, ⟨0, 0, 0, 0⟩⟩ =
    some ⟨.cal 2001 3 29, 0, some 0, some (1/2), ⟨0, 0⟩⟩ := by decide +kernel
-- 360-day calendar: every month has 30 days, nothing to clamp
example : addDurQ .d360 ⟨.cal 2001 1 30, 1/2, none, none, ⟨0, 0⟩⟩ ⟨0, 1, ⟨0, 0, 0, 0⟩⟩ =
    some ⟨.cal 2001 2 30, 1/2, none, none, ⟨0, 0⟩⟩ := by decide +kernel
-- `__add__` normalises a 24:00 spelling first: 31 Jan 24h + P1M = 1 Feb 00h + P1M = 1 March
example : addDurQ .greg ⟨.cal 2001 1 31, 24, none, none, ⟨0, 0⟩⟩ ⟨0, 1, ⟨0, 0, 0, 0⟩⟩ =
    some ⟨.cal 2001 3 1, 0, none, none, ⟨0, 0⟩⟩ := by decide +kernel
-- `add_months` called directly clamps first and carries after: 30 Jan 24h, one month on: 28 Feb 24h = 1 March
-- (the same instant, 31 Jan 00h, gives 28 Feb 00h); zero months leave the 24:00 spelling alone
example : addMonthsQ .greg ⟨.cal 2001 1 30, 24, some 0, none, ⟨0, 0⟩⟩ 1 =
    some ⟨.cal 2001 3 1, 0, some 0, none, ⟨0, 0⟩⟩ := by decide +kernel
example : addMonthsQ .greg ⟨.cal 2001 1 31, 0, some 0, none, ⟨0, 0⟩⟩ 1 =
    some ⟨.cal 2001 2 28, 0, some 0, none, ⟨0, 0⟩⟩ := by decide +kernel
example : addMonthsQ .greg ⟨.cal 2001 1 30, 24, some 0, none, ⟨0, 0⟩⟩ 0 =
    some ⟨.cal 2001 1 30, 24, some 0, none, ⟨0, 0⟩⟩ := by decide +kernel
-- instance of the hypothesis of `C05_add_months_24_rat`
example : tickTimeQ .greg ⟨24, some 0, none⟩ = some (1, ⟨0, some 0, none⟩) := by decide +kernel
-- whole-second instance of `C05_rat_extends_int` (week form of the duration)
example : addDurQ .greg (TPQ.ofTP ⟨.cal 2001 3 31, 1, 2, 3, ⟨0, 0⟩⟩) ((Dur.weeks 2).toNQ .greg) =
    some (TPQ.ofTP ⟨.cal 2001 4 14, 1, 2, 3, ⟨0, 0⟩⟩) := by decide +kernel

end IsoDT.Props.C05
