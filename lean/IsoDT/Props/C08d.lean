/-
  C08 (custom formats, decimal points) — "dumping with any custom format that contains a complete date,
  THE TIME DOWN TO p's PRECISION and a zone likewise parses back to an equal instant", for points whose
  last given unit carries a decimal fraction (`DTP`: `hh,F` / `hh:mm,F` / `hh:mm:ss,F`, at most the
  dumper's six digits).

  The formats (`Custom.DFmt`, `Lemmas/TextCustomDec`): a complete date expression (calendar, ordinal or
  week; basic or extended; optionally `+X`), `T`, the time form OF THE POINT'S OWN PRECISION with its
  decimal token — `hh,ii`; `hh:mm,nn` / `hhmm,nn`; `hh:mm:ss,tt` / `hhmmss,tt`; comma or point — and a
  zone expression that spells the point's own offset: a placeholder (`+hh:mm` / `+hhmm` / `+hh`), `Z`
  for a UTC point, or a literal equal to the point's offset.

  NOT covered: a literal zone (or `Z`) DIFFERENT from the point's offset.  Re-zoning a decimal point is
  binary floating-point arithmetic in the Python (`to_time_zone` adds a `Duration` to float fields);
  the model answers `unsupported` there (`C08_custom_decimal_rezone_outside_model`) and the harness
  judges those cases by the oracle alone (op `tdumpf`).
-/
import IsoDT.Lemmas.TextCustomDec
import IsoDT.Props.C08c

namespace IsoDT.Props.C08
open IsoDT IsoDT.Model IsoDT.Lemmas IsoDT.Text IsoDT.Text.Custom
open IsoDT.Spec (Date TZ TP)
open _root_.IsoDT.Gen.Templates (dumpTables parserTables dumper_0 dumper_2 dumper_3)

/-- **C08 (custom formats, decimal points, writing)**: for every valid point `d` with a decimal hour,
    minute or second (fraction of at most six digits; hour 24 only with a zero fraction; any
    representation, calendar mode and offset), every dumper table and every complete custom format of
    `d`'s precision whose zone expression spells `d`'s own offset, `dump(d, format)` is the specified
    text: the date `dQ` (`d`'s date re-expressed in the format's representation) with the year digits
    the format asks for, `T`, the units with the fraction as `_decimal_string` prints it (trailing zeros
    dropped, at least one digit — also for a zero fraction), and the zone — provided `dQ`'s year is
    within the digits the format prints. -/
theorem C08_custom_dump_decimal (m : Mode) (dt : DumpTables) (hdt : dt ∈ dumpTables) (n : Nat) (f : DFmt)
    (hf : f.WF dt.ned) (d : DTP) (hv : d.Valid m) (hs : f.zone.Same d.tz) (dQ : Date)
    (hc : convert m f.kind.k d.date = some dQ) (hy : YearInRange (f.yd dt.ned) (dateYear dQ)) :
    dump m dt (d.toXTP n) (f.text (DTimeUnit d.time)) = .ok (decCustomText dt.ned f { d with date := dQ }) := by
  rw [dump_dec m dt hdt n f hf d hv hs dQ hc, if_pos hy]

/-- … and the dumper's bounds error when the year of the re-expressed date is outside those digits. -/
theorem C08_custom_dump_decimal_bounds (m : Mode) (dt : DumpTables) (hdt : dt ∈ dumpTables) (n : Nat)
    (f : DFmt) (hf : f.WF dt.ned) (d : DTP) (hv : d.Valid m) (hs : f.zone.Same d.tz) (dQ : Date)
    (hc : convert m f.kind.k d.date = some dQ) (hy : ¬ YearInRange (f.yd dt.ned) (dateYear dQ)) :
    dump m dt (d.toXTP n) (f.text (DTimeUnit d.time)) = .error .err := by
  rw [dump_dec m dt hdt n f hf d hv hs dQ hc, if_neg hy]

/-- **C08 (custom formats, decimal points, reading)**: the specified text of a valid decimal point in
    the format's representation is decoded to that point with its fraction as printed (`d.norm`: the
    same units; the fraction without trailing zeros — the same number, `fracValue_stripZeros`). -/
theorem C08_custom_parse_decimal (cfg : Cfg) (hpt : cfg.pt ∈ parserTables) (f : DFmt)
    (hb : f.ext = true → cfg.pt.basicOnly = false) (hx : f.expanded = true → cfg.pt.ned ≠ 0)
    (d : DTP) (hv : d.Valid cfg.mode) (hr : d.date.rep = f.kind.k)
    (hy : YearInRange (f.yd cfg.pt.ned) (dateYear d.date)) (hzf : DZoneFaithful f d.tz) :
    parse cfg (decCustomText cfg.pt.ned f d) false = some (DTP.toXTP (f.yd cfg.pt.ned) d.norm) :=
  parse_decCustomText cfg hpt f hb hx d hv hr hy hzf

theorem decCustomText_yd (n n' : Nat) (f : DFmt) (d : DTP) (h : f.yd n = f.yd n') :
    decCustomText n f d = decCustomText n' f d := by
  unfold decCustomText; rw [h]

/-- **C08 (custom formats, decimal points, round trip)**: `dump(d, format)` succeeds with the specified
    text; parsing it yields the point `d'` = `d` with its date re-expressed in the format's
    representation and its fraction as printed: the same day (`dayNum`), the same hour / minute /
    second, the same fraction as a number, the same offset — an equal instant carrying the format's
    zone. -/
theorem C08_custom_roundtrip_decimal (m : Mode) (dt : DumpTables) (hdt : dt ∈ dumpTables) (n : Nat)
    (f : DFmt) (hf : f.WF dt.ned) (cfg : Cfg) (hpt : cfg.pt ∈ parserTables) (hm : cfg.mode = m)
    (hb : f.ext = true → cfg.pt.basicOnly = false) (hx : f.expanded = true → cfg.pt.ned = dt.ned)
    (d : DTP) (hv : d.Valid m) (hs : f.zone.Same d.tz) (hown : f.zone = .own .h → d.tz.mi = 0)
    (dQ : Date) (hc : convert m f.kind.k d.date = some dQ) (hy : YearInRange (f.yd dt.ned) (dateYear dQ)) :
    ∃ text, dump m dt (d.toXTP n) (f.text (DTimeUnit d.time)) = .ok text ∧
      text = decCustomText dt.ned f { d with date := dQ } ∧
      parse cfg text false = some (DTP.toXTP (f.yd dt.ned) ({ d with date := dQ } : DTP).norm) ∧
      ({ d with date := dQ } : DTP).Valid m ∧ dQ.rep = f.kind.k ∧ dQ.dayNum m = d.date.dayNum m ∧
      fracValue (({ d with date := dQ } : DTP).norm.time.ds) = fracValue d.time.ds := by
  subst hm
  obtain ⟨_, hvQ, hrQ, hnQ⟩ := convert_back cfg.mode f.kind.k (kind_lt _) d.date dQ hv.1 hc
  have hvd' : ({ d with date := dQ } : DTP).Valid cfg.mode := ⟨hvQ, hv.2.1, hv.2.2⟩
  refine ⟨_, C08_custom_dump_decimal cfg.mode dt hdt n f hf d hv hs dQ hc hy, rfl, ?_, hvd', hrQ, hnQ, ?_⟩
  · have hyd : f.yd dt.ned = f.yd cfg.pt.ned := by
      unfold DFmt.yd
      cases hxe : f.expanded with
      | false => rfl
      | true => simp only [if_true]; exact (hx hxe).symm
    have hxn : f.expanded = true → cfg.pt.ned ≠ 0 := fun hxe => by rw [hx hxe]; exact hf.1 hxe
    have hzf : DZoneFaithful f d.tz := by
      unfold DZoneFaithful
      obtain ⟨_, hw⟩ := hf
      cases hzs : f.zone with
      | utc => rw [hzs] at hs; simp only [ZSpec.style]; exact hs
      | own s =>
        cases s with
        | hm => simp only [ZSpec.style]
        | h => simp only [ZSpec.style]; exact hown hzs
      | lit s z =>
        rw [hzs] at hw hs
        cases s with
        | hm => simp only [ZSpec.style]
        | h => simp only [ZSpec.style]; rw [← hs]; exact hw.2 rfl
    rw [decCustomText_yd dt.ned cfg.pt.ned f _ hyd, hyd]
    exact C08_custom_parse_decimal cfg hpt f hb hxn { d with date := dQ } hvd' hrQ (hyd ▸ hy) hzf
  · obtain ⟨date, time, tz⟩ := d
    cases time <;> simp [DTP.norm, DTime.norm, DTime.ds, fracValue_stripZeros]

/-! ## Outside the model -/

/-- A literal zone different from the offset of a decimal point: the Python re-zones with float
    arithmetic; the model does not follow it there (`unsupported`), so no theorem is claimed. -/
theorem C08_custom_decimal_rezone_outside_model :
    dump .greg dumper_0 (DTP.toXTP 0 ⟨.cal 2000 1 1, .minute 12 30 "5".toList, ⟨0, 0⟩⟩)
      "CCYY-MM-DDThh:mm,nn+05:30".toList = .error .unsupported := by decide +kernel

/-! ## Non-vacuity -/

/-- A decimal minute on a week date in year −396, dumped as a basic calendar date with `+X`, a point as
    the decimal sign and the placeholder zone, by the dumper with two expanded digits. -/
example : ∃ text,
    dump .greg dumper_2 (DTP.toXTP 2 ⟨.week (-396) 53 5, .minute 23 59 "0250".toList, ⟨0, -30⟩⟩)
      "+XCCYYMMDDThhmm.nn+hhmm".toList = .ok text ∧
    text = "-0003961231T2359.025-0030".toList ∧
    parse ⟨Gen.Templates.parser_2_all, true, .assumed 1 0, .greg⟩ text false =
      some (DTP.toXTP 2 ⟨.cal (-396) 12 31, .minute 23 59 "025".toList, ⟨0, -30⟩⟩) := by
  obtain ⟨text, h1, h2, h3, _⟩ :=
    C08_custom_roundtrip_decimal .greg dumper_2 (by simp [dumpTables]) 2 ⟨true, .cal, false, .point, .own .hm⟩
      (by decide) ⟨Gen.Templates.parser_2_all, true, .assumed 1 0, .greg⟩ (.tail _ (.tail _ (.head _))) rfl
      (by decide) (by decide) ⟨.week (-396) 53 5, .minute 23 59 "0250".toList, ⟨0, -30⟩⟩ (by decide +kernel)
      trivial (by decide) (.cal (-396) 12 31) (by decide +kernel) (by decide +kernel)
  exact ⟨text, h1.trans (by rfl), h2.trans (by decide +kernel), h3.trans (by decide +kernel)⟩

/-- Decimal hour 24 with a zero fraction, ordinal format, `Z` on a UTC point. -/
example : dump .greg dumper_0 (DTP.toXTP 0 ⟨.cal 2000 2 29, .hour 24 "000".toList, ⟨0, 0⟩⟩)
      ("CCYY-DDDThh,ii".toList ++ ['Z']) = .ok "2000-060T24,0Z".toList :=
  (C08_custom_dump_decimal .greg dumper_0 (by simp [dumpTables]) 0 ⟨false, .ord, true, .comma, .utc⟩ (by decide)
    ⟨.cal 2000 2 29, .hour 24 "000".toList, ⟨0, 0⟩⟩ (by decide +kernel) rfl (.ord 2000 60) (by decide +kernel)
    (by decide +kernel)).trans (by decide +kernel)

/-- A decimal second with a literal zone equal to the point's own. -/
example : dump .d360 dumper_0 (DTP.toXTP 0 ⟨.ord 2001 360, .second 23 59 59 "999999".toList, ⟨-3, -30⟩⟩)
      "CCYY-Www-DThh:mm:ss,tt-03:30".toList = .ok "2001-W52-4T23:59:59,999999-03:30".toList :=
  (C08_custom_dump_decimal .d360 dumper_0 (by simp [dumpTables]) 0
    ⟨false, .week, true, .comma, .lit .hm ⟨-3, -30⟩⟩ (by decide)
    ⟨.ord 2001 360, .second 23 59 59 "999999".toList, ⟨-3, -30⟩⟩ (by decide +kernel) rfl (.week 2001 52 4)
    (by decide +kernel) (by decide +kernel)).trans (by decide +kernel)

end IsoDT.Props.C08
