/-
  C02 — Comparison and hashing of time points follow the timeline.

  `Model.cmp` mirrors `TimePoint._cmp` (re-zone the other operand, normalise 24:00 on both,
  compare `[*date, second_of_day]` lists, calendar triple or ordinal pair by the left operand's
  representation); the six operators are that comparison read through `operator.lt/eq/…`.
-/
import IsoDT.Lemmas.Cmp

namespace IsoDT.Props.C02
open IsoDT IsoDT.Model IsoDT.Lemmas
open IsoDT.Spec (Date TZ TP)

/-- The six comparison operators as `_cmp` computes them from the list comparison. -/
def lt (m : Mode) (a b : TP) : Prop := cmp m a b = some (-1)
def eq (m : Mode) (a b : TP) : Prop := cmp m a b = some 0
def gt (m : Mode) (a b : TP) : Prop := cmp m a b = some 1
def le (m : Mode) (a b : TP) : Prop := lt m a b ∨ eq m a b
def ge (m : Mode) (a b : TP) : Prop := gt m a b ∨ eq m a b
def ne (m : Mode) (a b : TP) : Prop := ¬ eq m a b

/-- **C02**: the comparison is the order of the instants, whatever representations, offsets and
    24:00 spellings the operands use. -/
theorem C02_cmp (m : Mode) (a b : TP) (ha : a.Valid m) (hb : b.Valid m) :
    cmp m a b = some (sgn (a.inst m - b.inst m)) := cmp_spec m a b ha hb

theorem C02_operators (m : Mode) (a b : TP) (ha : a.Valid m) (hb : b.Valid m) :
    (lt m a b ↔ a.inst m < b.inst m) ∧ (eq m a b ↔ a.inst m = b.inst m) ∧
    (gt m a b ↔ a.inst m > b.inst m) ∧ (le m a b ↔ a.inst m ≤ b.inst m) ∧
    (ge m a b ↔ a.inst m ≥ b.inst m) ∧ (ne m a b ↔ a.inst m ≠ b.inst m) := by
  unfold le ge ne lt eq gt
  rw [cmp_spec m a b ha hb]
  simp only [Option.some.injEq, sgn_neg_iff, sgn_zero_iff, sgn_one_iff]
  refine ⟨?_, ?_, ?_, ?_, ?_, ?_⟩ <;> omega

/-- Exactly one of `a < b`, `a == b`, `a > b`. -/
theorem C02_trichotomy (m : Mode) (a b : TP) (ha : a.Valid m) (hb : b.Valid m) :
    (lt m a b ∧ ¬ eq m a b ∧ ¬ gt m a b) ∨ (¬ lt m a b ∧ eq m a b ∧ ¬ gt m a b) ∨
    (¬ lt m a b ∧ ¬ eq m a b ∧ gt m a b) := by
  obtain ⟨h1, h2, h3, _⟩ := C02_operators m a b ha hb
  rw [h1, h2, h3]; omega

theorem C02_eq_symm (m : Mode) (a b : TP) (ha : a.Valid m) (hb : b.Valid m) :
    (eq m a b ↔ eq m b a) ∧ (ne m a b ↔ ne m b a) ∧ (lt m a b ↔ gt m b a) := by
  obtain ⟨h1, h2, h3, _, _, h6⟩ := C02_operators m a b ha hb
  obtain ⟨g1, g2, g3, _, _, g6⟩ := C02_operators m b a hb ha
  rw [h1, h2, h6, g2, g3, g6]; omega

theorem C02_trans (m : Mode) (a b c : TP) (ha : a.Valid m) (hb : b.Valid m) (hc : c.Valid m) :
    (le m a b → le m b c → le m a c) ∧ (lt m a b → lt m b c → lt m a c) ∧
    (eq m a b → eq m b c → eq m a c) := by
  have h1 := C02_operators m a b ha hb
  have h2 := C02_operators m b c hb hc
  have h3 := C02_operators m a c ha hc
  rw [h1.2.2.2.1, h2.2.2.2.1, h3.2.2.2.1, h1.1, h2.1, h3.1, h1.2.1, h2.2.1, h3.2.1]; omega

/-- Points that compare equal have the same hash key (Python hashes the key tuple; equal int
    tuples hash equally — CPython, trusted). -/
theorem C02_hash (m : Mode) (a b : TP) (ha : a.Valid m) (hb : b.Valid m) (h : eq m a b) :
    hashKey m a = hashKey m b ∧ (hashKey m a).isSome :=
  hashKey_eq_of_inst_eq m a b ha hb (((C02_operators m a b ha hb).2.1).mp h)

/-- The sign of `a - b` agrees with the comparison. -/
theorem C02_sub_sign (m : Mode) (a b : TP) (ha : a.Valid m) (hb : b.Valid m) :
    ∃ d, subTP m a b = some d ∧ cmp m a b = some (sgn (d.exactSeconds m)) := by
  obtain ⟨dd, hh, mm, ss, e, hl, _⟩ := subTP_spec m a b ha hb
  refine ⟨_, e, ?_⟩
  rw [cmp_spec m a b ha hb]
  simp only [Dur.exactSeconds, secondsInDay_eq, secondsInHour_eq, secondsInMinute_eq]
  have : dd * 86400 + hh * 3600 + mm * 60 + ss = a.inst m - b.inst m := by omega
  rw [this]

/-! ## Non-vacuity, and the 24:00 witnesses of the repaired defect (F2), both operand orders -/

example : (⟨.cal 2000 12 31, 24, 0, 0, ⟨0, 0⟩⟩ : TP).Valid .greg ∧
    (⟨.cal 2001 1 1, 1, 0, 0, ⟨1, 0⟩⟩ : TP).Valid .greg := by decide
example : cmp .greg ⟨.cal 2000 12 31, 24, 0, 0, ⟨0, 0⟩⟩ ⟨.cal 2001 1 1, 1, 0, 0, ⟨1, 0⟩⟩ = some 0 := by
  decide +kernel
example : cmp .greg ⟨.cal 2001 1 1, 1, 0, 0, ⟨1, 0⟩⟩ ⟨.cal 2000 12 31, 24, 0, 0, ⟨0, 0⟩⟩ = some 0 := by
  decide +kernel
example : hashKey .greg ⟨.cal 2000 12 31, 24, 0, 0, ⟨0, 0⟩⟩ = hashKey .greg ⟨.week 2001 1 1, 1, 0, 0, ⟨1, 0⟩⟩ := by
  decide +kernel

end IsoDT.Props.C02
