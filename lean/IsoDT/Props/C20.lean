import IsoDT.Model.Truncated
namespace IsoDT.Props.C20
theorem placeholder : (1 : Nat) = 1 := rfl
end IsoDT.Props.C20
