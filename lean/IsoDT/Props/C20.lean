/-
  C20 — Adding a truncated time point finds the next matching date-time.

  `Model.addTruncated` mirrors `TimePoint.add_truncated`: each
  `while new._field != target: new._field += 1; new._tick_over()` loop is `Model.loopField` with a
  fuel bound; `none` would mean the real loop is still spinning.

  Proved here for every whole-second point, offset, representation and mode:
  * every loop returns the *first* point along its walk whose field equals the target
    (`C20_loop_first_match`), each step moving the instant forward by exactly one unit, so the
    result is never earlier than `p`, keeps offset, and is a valid date-time;
  * the second, minute, hour and weekday loops always terminate within their fuel
    (`C20_periodic_loops_terminate`), and for the time-of-day shapes (`T06`, `T-30`, `T--15`, …) the
    result is exactly the earliest date-time not earlier than `p` whose specified fields match, with
    the lower time fields zero (`C20_seconds`, `C20_minutes`, `C20_hours`);
  * idempotence for those shapes.
  Termination of the day-of-month / day-of-year / week loops within their fuel, and the
  combination with a day designator, are covered by the correspondence (thorough: every field
  value in every mode); minimality fails for day designator + minute/second without hour
  (known finding F9, `C20_earliest_counterexample_dayMinute`).
-/
import IsoDT.Lemmas.TruncTerm

namespace IsoDT.Props.C20
open IsoDT IsoDT.Model IsoDT.Lemmas
open IsoDT.Spec (Date TZ TP)

/-- **Every loop returns the first match along its walk.**  If the loop returns `q` within its fuel
    then `q` is `k` unit steps after `p`, its field equals the target, and none of the `k` earlier
    points did. -/
theorem C20_loop_first_match (m : Mode) (get : TP → Int) (bump : TP → TP) (target : Int) (fuel : Nat)
    (p q : TP) (h : loopField m get bump target fuel p = some q) :
    ∃ k : Nat, k ≤ fuel ∧ stepsFrom m bump k p = some q ∧ get q = target ∧
      ∀ j : Nat, j < k → ∀ x, stepsFrom m bump j p = some x → get x ≠ target :=
  loopField_spec m get bump target fuel p q h

/-- Each unit step (`+1 s`, `+1 min`, `+1 h`, `+1 day`, `+1 week` followed by `_tick_over`) moves the
    instant forward by exactly that unit and yields a valid point in the same offset and
    representation — so any loop result is valid, in `p`'s offset, and not earlier than `p`. -/
theorem C20_steps (m : Mode) (k : Nat) (p : TP) (hp : p.Strict m) :
    (∃ q, stepsFrom m (fun q => { q with ss := q.ss + 1 }) k p = some q ∧ q.Strict m ∧
      q.inst m = p.inst m + k * 1 ∧ q.tz = p.tz ∧ q.date.rep = p.date.rep) ∧
    (∃ q, stepsFrom m (fun q => { q with mi := q.mi + 1 }) k p = some q ∧ q.Strict m ∧
      q.inst m = p.inst m + k * 60 ∧ q.tz = p.tz ∧ q.date.rep = p.date.rep) ∧
    (∃ q, stepsFrom m (fun q => { q with hh := q.hh + 1 }) k p = some q ∧ q.Strict m ∧
      q.inst m = p.inst m + k * 3600 ∧ q.tz = p.tz ∧ q.date.rep = p.date.rep) ∧
    (∃ q, stepsFrom m (fun q => { q with date := bumpDay q.date 1 }) k p = some q ∧ q.Strict m ∧
      q.inst m = p.inst m + k * 86400 ∧ q.tz = p.tz ∧ q.date.rep = p.date.rep) ∧
    (p.date.rep = 2 → ∃ q, stepsFrom m bumpWeek k p = some q ∧ q.Strict m ∧
      q.inst m = p.inst m + k * 604800 ∧ q.tz = p.tz ∧ q.date.rep = p.date.rep) :=
  ⟨stepsFrom_spec m _ 1 _ (stepOK_ss m _) k p hp rfl, stepsFrom_spec m _ 60 _ (stepOK_mi m _) k p hp rfl,
   stepsFrom_spec m _ 3600 _ (stepOK_hh m _) k p hp rfl, stepsFrom_spec m _ 86400 _ (stepOK_day m _) k p hp rfl,
   fun h => stepsFrom_spec m _ 604800 2 (stepOK_week m) k p hp h⟩

/-- **The second, minute, hour and weekday loops terminate** within their fuel from any valid
    point, for every legal target value, and land exactly the distance (mod 60, 60, 24, 7) ahead. -/
theorem C20_periodic_loops_terminate (m : Mode) (p : TP) (hp : p.Strict m) :
    (∀ s, 0 ≤ s ∧ s < 60 → ∃ q, loopField m (·.ss) (fun q => { q with ss := q.ss + 1 }) s fuelTime p = some q ∧
      q.inst m = p.inst m + (s - p.ss) % 60) ∧
    (∀ t, 0 ≤ t ∧ t < 60 → ∃ q, loopField m (·.mi) (fun q => { q with mi := q.mi + 1 }) t fuelTime p = some q ∧
      q.inst m = p.inst m + 60 * ((t - p.mi) % 60)) ∧
    (∀ t, 0 ≤ t ∧ t < 24 → ∃ q, loopField m (·.hh) (fun q => { q with hh := q.hh + 1 }) t fuelTime p = some q ∧
      q.inst m = p.inst m + 3600 * ((t - p.hh) % 24)) ∧
    (p.date.rep = 2 → ∀ t, 1 ≤ t ∧ t ≤ 7 →
      ∃ q, loopField m getDow (fun q => { q with date := bumpDay q.date 1 }) t fuelDow p = some q ∧
        q.inst m = p.inst m + 86400 * ((t - getDow p) % 7)) := by
  refine ⟨fun s hs => ?_, fun t ht => ?_, fun t ht => ?_, fun hk t ht => ?_⟩
  · obtain ⟨q, h1, _, h3, _⟩ := loop_ss m p hp s hs; exact ⟨q, h1, h3⟩
  · obtain ⟨q, h1, _, h3, _⟩ := loop_mi m p hp t ht; exact ⟨q, h1, h3⟩
  · obtain ⟨q, h1, _, h3, _⟩ := loop_hh m p hp t ht; exact ⟨q, h1, h3⟩
  · obtain ⟨q, h1, _, h3, _⟩ := loop_dow m p hp hk t ht; exact ⟨q, h1, h3⟩

/-- **The day-of-month, day-of-year and week loops terminate** within their fuel from any valid
    point of the right representation, for every target value the (repaired) bounds check admits
    in the mode: day 1..31 (30 in the 360-day calendar), day-of-year up to 366 where the mode has
    leap years (a leap year starts within 7 years), week up to 53 (52 in the 360-day calendar; a
    week-year that long starts within 7 years - 400-year / 7-year periodicity plus a kernel-checked
    table over one period). -/
theorem C20_day_loops_terminate (m : Mode) (p : TP) (hp : p.Strict m) :
    (p.date.rep = 0 → ∀ t, 1 ≤ t ∧ t ≤ (calOf m).maxDaysInMonth →
      ∃ q, loopField m getDom (fun q => { q with date := bumpDay q.date 1 }) t fuelDom p = some q) ∧
    (p.date.rep = 1 → ∀ t, 1 ≤ t ∧ t ≤ (calOf m).daysInYearLeap →
      ∃ q, loopField m getDoy (fun q => { q with date := bumpDay q.date 1 }) t fuelDoy p = some q) ∧
    (p.date.rep = 2 → ∀ t, 1 ≤ t ∧ t ≤ (calOf m).maxWeeksInYear →
      ∃ q, loopField m getWeek bumpWeek t fuelWeek p = some q) := by
  refine ⟨fun hk t ht => ?_, fun hk t ht => ?_, fun hk t ht => ?_⟩
  · exact loop_dom_terminates m p hp hk t ht.1 (by rw [← maxDom_eq]; exact ht.2)
  · exact loop_doy_terminates m p hp hk t ht.1 (by rw [← (daysInYearRec_eq m).2]; exact ht.2)
  · exact loop_week_terminates m p hp hk t ht.1 (by rw [← maxW_eq]; exact ht.2)

/-- A loop result, whatever the loop: a valid point in the same offset and representation, not
    earlier than where the loop started. -/
theorem C20_loop_result (m : Mode) (get : TP → Int) (bump : TP → TP) (target delta : Int) (kr fuel : Nat)
    (hb : StepOK m bump delta kr) (hd : 0 ≤ delta) (p q : TP) (hp : p.Strict m) (hk : p.date.rep = kr)
    (h : loopField m get bump target fuel p = some q) :
    q.Strict m ∧ q.tz = p.tz ∧ q.date.rep = p.date.rep ∧ p.inst m ≤ q.inst m ∧ get q = target := by
  obtain ⟨k, _, hs, hg, _⟩ := loopField_spec m get bump target fuel p q h
  obtain ⟨x, hx, xs, xi, xt, xr⟩ := stepsFrom_spec m bump delta kr hb k p hp hk
  rw [hs] at hx
  have : q = x := by simpa using hx
  subst this
  refine ⟨xs, xt, xr, ?_, hg⟩
  rw [xi]
  have := Int.mul_nonneg (Int.natCast_nonneg k) hd
  omega

/-- `to_calendar_date` / `to_ordinal_date` / `to_week_date` on a valid point. -/
theorem toRep_spec (m : Mode) (k : Nat) (hk : k < 3) (p : TP) (hp : p.Strict m) :
    ∃ q, toRep m k p = some q ∧ q.Strict m ∧ q.inst m = p.inst m ∧ q.tz = p.tz ∧ q.date.rep = k := by
  obtain ⟨r, e, v, rr, n⟩ := convert_spec m k hk p.date hp.1.1
  refine ⟨{ p with date := r }, by simp only [toRep, e, Option.map_some], ?_, ?_, rfl, rr⟩
  · obtain ⟨⟨_, a1, a2, a3, a4, a5, a6, a7, a8⟩, a9⟩ := hp
    exact ⟨⟨v, a1, a2, a3, a4, a5, a6, a7, a8⟩, a9⟩
  · simp only [TP.inst, TP.secOfDay, n]

/-- The field values a truncated point may carry in mode `m` (what its constructor's bounds check
    admits: the year-less limits, after the repair of F8). -/
def LegalTrunc (m : Mode) (t : Trunc) : Prop :=
  (∀ x, t.ss = some x → 0 ≤ x ∧ x < 60) ∧ (∀ x, t.mi = some x → 0 ≤ x ∧ x < 60) ∧
  (∀ x, t.hh = some x → 0 ≤ x ∧ x < 24) ∧ (∀ x, t.dow = some x → 1 ≤ x ∧ x ≤ 7) ∧
  (∀ x, t.dom = some x → 1 ≤ x ∧ x ≤ (calOf m).maxDaysInMonth) ∧
  (∀ x, t.doy = some x → 1 ≤ x ∧ x ≤ (calOf m).daysInYearLeap) ∧
  (∀ x, t.week = some x → 1 ≤ x ∧ x ≤ (calOf m).maxWeeksInYear)

/-- What every stage of `add_truncated` hands to the next one. -/
def Stage (m : Mode) (p q : TP) : Prop := q.Strict m ∧ q.tz = p.tz ∧ p.inst m ≤ q.inst m

theorem stage_trans (m : Mode) (a b c : TP) (h1 : Stage m a b) (h2 : Stage m b c) : Stage m a c :=
  ⟨h2.1, by rw [h2.2.1, h1.2.1], by have := h1.2.2; have := h2.2.2; omega⟩

/-- `add_truncated` as a chain of stages (the join points of the `do` block spelled out). -/
theorem addTruncated_eq (m : Mode) (p : TP) (t : Trunc) :
    addTruncated m p t =
    (normalise24 m p).bind fun p0 =>
    (match (match t.ss with
      | some s => some s
      | none => if t.hh.isSome ∨ (match t.hh, t.mi with | some _, none => some (0 : Int) | _, x => x).isSome
                then some (0 : Int) else none) with
      | some s => loopField m (·.ss) (fun q => { q with ss := q.ss + 1 }) s fuelTime p0
      | none => some p0).bind fun p1 =>
    (match (match t.hh, t.mi with | some _, none => some (0 : Int) | _, x => x) with
      | some x => loopField m (·.mi) (fun q => { q with mi := q.mi + 1 }) x fuelTime p1
      | none => some p1).bind fun p2 =>
    (match t.hh with
      | some x => loopField m (·.hh) (fun q => { q with hh := q.hh + 1 }) x fuelTime p2
      | none => some p2).bind fun p3 =>
    (match t.dow with
      | some x => (toRep m 2 p3).bind (loopField m getDow (fun q => { q with date := bumpDay q.date 1 }) x fuelDow)
      | none => some p3).bind fun p4 =>
    (match t.dom with
      | some x => (toRep m 0 p4).bind (loopField m getDom (fun q => { q with date := bumpDay q.date 1 }) x fuelDom)
      | none => some p4).bind fun p5 =>
    (match t.doy with
      | some x => (toRep m 1 p5).bind (loopField m getDoy (fun q => { q with date := bumpDay q.date 1 }) x fuelDoy)
      | none => some p5).bind fun p6 =>
    (match t.week with
      | some x => (toRep m 2 p6).bind (loopField m getWeek bumpWeek x fuelWeek)
      | none => some p6) := by
  obtain ⟨week, dow, dom, doy, hh, mi, ss, tz⟩ := t
  unfold addTruncated
  cases normalise24 m p with
  | none => rfl
  | some p0 =>
    cases week <;> cases dow <;> cases dom <;> cases doy <;> cases hh <;> cases mi <;> cases ss <;> rfl

/-- **The operation terminates**: for every valid full point `p` (24:00 included) and every
    truncated point with legal field values - any combination of time fields and day designators,
    in every mode - `add_truncated` returns (all its loops end within their fuel), and the result
    is a valid date-time in `p`'s offset, not earlier than `p`. -/
theorem C20_terminates (m : Mode) (p : TP) (hv : p.Valid m) (t : Trunc) (hl : LegalTrunc m t) :
    ∃ q, addTruncated m p t = some q ∧ q.Strict m ∧ q.tz = p.tz ∧ p.inst m ≤ q.inst m := by
  obtain ⟨l1, l2, l3, l4, l5, l6, l7⟩ := hl
  obtain ⟨p0, e0, g0⟩ := normalise24_spec m p hv
  have s0 : Stage m p p0 := ⟨g0.strict, g0.tz, by rw [g0.inst]; omega⟩
  -- the defaulted minute and second
  have hmi : ∀ x, (match t.hh, t.mi with | some _, none => some (0 : Int) | _, x => x) = some x → 0 ≤ x ∧ x < 60 := by
    intro x hx
    cases hh : t.hh <;> cases hm : t.mi <;> rw [hh, hm] at hx <;> simp only at hx
    · cases hx
    · cases hx; exact l2 _ hm
    · cases hx; omega
    · cases hx; exact l2 _ hm
  rw [addTruncated_eq]
  generalize hmidef : (match t.hh, t.mi with | some _, none => some (0 : Int) | _, x => x) = mi at hmi ⊢
  have hss : ∀ x, (match t.ss with
      | some s => some s
      | none => if t.hh.isSome ∨ mi.isSome then some (0 : Int) else none) = some x → 0 ≤ x ∧ x < 60 := by
    intro x hx
    cases hs : t.ss with
    | some s => rw [hs] at hx; cases hx; exact l1 _ hs
    | none =>
      rw [hs] at hx; simp only at hx
      split at hx
      · cases hx; omega
      · cases hx
  generalize hssdef : (match t.ss with
      | some s => some s
      | none => if t.hh.isSome ∨ mi.isSome then some (0 : Int) else none) = ss at hss ⊢
  -- seconds
  have st1 : ∃ p1, (match ss with
      | some s => loopField m (·.ss) (fun q => { q with ss := q.ss + 1 }) s fuelTime p0
      | none => some p0) = some p1 ∧ Stage m p0 p1 := by
    cases ss with
    | none => exact ⟨p0, rfl, g0.strict, rfl, Int.le_refl _⟩
    | some s =>
      obtain ⟨q, e, qs, qi, qt, _⟩ := loop_ss m p0 g0.strict s (hss s rfl)
      exact ⟨q, e, qs, qt, by rw [qi]; have := Int.emod_nonneg (s - p0.ss) (show (60 : Int) ≠ 0 by omega); omega⟩
  obtain ⟨p1, e1, s1⟩ := st1
  have st2 : ∃ p2, (match mi with
      | some x => loopField m (·.mi) (fun q => { q with mi := q.mi + 1 }) x fuelTime p1
      | none => some p1) = some p2 ∧ Stage m p1 p2 := by
    cases mi with
    | none => exact ⟨p1, rfl, s1.1, rfl, Int.le_refl _⟩
    | some x =>
      obtain ⟨q, e, qs, qi, qt, _⟩ := loop_mi m p1 s1.1 x (hmi x rfl)
      exact ⟨q, e, qs, qt, by rw [qi]; have := Int.emod_nonneg (x - p1.mi) (show (60 : Int) ≠ 0 by omega); omega⟩
  obtain ⟨p2, e2, s2⟩ := st2
  have st3 : ∃ p3, (match t.hh with
      | some x => loopField m (·.hh) (fun q => { q with hh := q.hh + 1 }) x fuelTime p2
      | none => some p2) = some p3 ∧ Stage m p2 p3 := by
    cases hh : t.hh with
    | none => exact ⟨p2, rfl, s2.1, rfl, Int.le_refl _⟩
    | some x =>
      obtain ⟨q, e, qs, qi, qt, _⟩ := loop_hh m p2 s2.1 x (l3 x hh)
      exact ⟨q, e, qs, qt, by rw [qi]; have := Int.emod_nonneg (x - p2.hh) (show (24 : Int) ≠ 0 by omega); omega⟩
  obtain ⟨p3, e3, s3⟩ := st3
  have st4 : ∃ p4, (match t.dow with
      | some x => (toRep m 2 p3).bind (loopField m getDow (fun q => { q with date := bumpDay q.date 1 }) x fuelDow)
      | none => some p3) = some p4 ∧ Stage m p3 p4 := by
    cases hd : t.dow with
    | none => exact ⟨p3, rfl, s3.1, rfl, Int.le_refl _⟩
    | some x =>
      obtain ⟨r, er, rs, ri, rt, rr⟩ := toRep_spec m 2 (by omega) p3 s3.1
      obtain ⟨q, e, qs, qi, qt, _⟩ := loop_dow m r rs rr x (l4 x hd)
      refine ⟨q, by simp only [er, Option.bind_some, e], qs, by rw [qt, rt], ?_⟩
      rw [qi, ri]; have := Int.emod_nonneg (x - getDow r) (show (7 : Int) ≠ 0 by omega); omega
  obtain ⟨p4, e4, s4⟩ := st4
  have st5 : ∃ p5, (match t.dom with
      | some x => (toRep m 0 p4).bind (loopField m getDom (fun q => { q with date := bumpDay q.date 1 }) x fuelDom)
      | none => some p4) = some p5 ∧ Stage m p4 p5 := by
    cases hd : t.dom with
    | none => exact ⟨p4, rfl, s4.1, rfl, Int.le_refl _⟩
    | some x =>
      obtain ⟨r, er, rs, ri, rt, rr⟩ := toRep_spec m 0 (by omega) p4 s4.1
      obtain ⟨q, e⟩ := (C20_day_loops_terminate m r rs).1 rr x (l5 x hd)
      obtain ⟨qs, qt, _, qi, _⟩ := C20_loop_result m getDom _ x 86400 0 fuelDom (stepOK_day m 0) (by omega) r q rs rr e
      exact ⟨q, by simp only [er, Option.bind_some, e], qs, by rw [qt, rt], by rw [← ri]; exact qi⟩
  obtain ⟨p5, e5, s5⟩ := st5
  have st6 : ∃ p6, (match t.doy with
      | some x => (toRep m 1 p5).bind (loopField m getDoy (fun q => { q with date := bumpDay q.date 1 }) x fuelDoy)
      | none => some p5) = some p6 ∧ Stage m p5 p6 := by
    cases hd : t.doy with
    | none => exact ⟨p5, rfl, s5.1, rfl, Int.le_refl _⟩
    | some x =>
      obtain ⟨r, er, rs, ri, rt, rr⟩ := toRep_spec m 1 (by omega) p5 s5.1
      obtain ⟨q, e⟩ := (C20_day_loops_terminate m r rs).2.1 rr x (l6 x hd)
      obtain ⟨qs, qt, _, qi, _⟩ := C20_loop_result m getDoy _ x 86400 1 fuelDoy (stepOK_day m 1) (by omega) r q rs rr e
      exact ⟨q, by simp only [er, Option.bind_some, e], qs, by rw [qt, rt], by rw [← ri]; exact qi⟩
  obtain ⟨p6, e6, s6⟩ := st6
  have st7 : ∃ p7, (match t.week with
      | some x => (toRep m 2 p6).bind (loopField m getWeek bumpWeek x fuelWeek)
      | none => some p6) = some p7 ∧ Stage m p6 p7 := by
    cases hd : t.week with
    | none => exact ⟨p6, rfl, s6.1, rfl, Int.le_refl _⟩
    | some x =>
      obtain ⟨r, er, rs, ri, rt, rr⟩ := toRep_spec m 2 (by omega) p6 s6.1
      obtain ⟨q, e⟩ := (C20_day_loops_terminate m r rs).2.2 rr x (l7 x hd)
      obtain ⟨qs, qt, _, qi, _⟩ := C20_loop_result m getWeek _ x 604800 2 fuelWeek (stepOK_week m) (by omega) r q rs rr e
      exact ⟨q, by simp only [er, Option.bind_some, e], qs, by rw [qt, rt], by rw [← ri]; exact qi⟩
  obtain ⟨p7, e7, s7⟩ := st7
  have all := stage_trans m p p0 p7 s0 (stage_trans m p0 p1 p7 s1 (stage_trans m p1 p2 p7 s2
    (stage_trans m p2 p3 p7 s3 (stage_trans m p3 p4 p7 s4 (stage_trans m p4 p5 p7 s5
    (stage_trans m p5 p6 p7 s6 s7))))))
  refine ⟨p7, ?_, all.1, all.2.1, all.2.2⟩
  simp only [e0, Option.bind_some, e1, e2, e3, e4, e5, e6, e7]

/-! ### time-of-day shapes: the result is the earliest match -/

/-- A strict point `q'` in `p`'s offset, not earlier than `p`, with the given second: it is not
    earlier than the point the seconds loop lands on. -/
theorem stage_ss (m : Mode) (p q' : TP) (hp : p.Strict m) (hq : q'.Strict m) (htz : q'.tz = p.tz)
    (hge : p.inst m ≤ q'.inst m) (s : Int) (hs : q'.ss = s) :
    p.inst m + (s - p.ss) % 60 ≤ q'.inst m := by
  have a := strict_fields m p hp
  have b := strict_fields m q' hq
  have := inst_fields m p q' htz (q'.inst m - p.inst m) (by omega)
  omega

theorem stage_mi (m : Mode) (p q' : TP) (hp : p.Strict m) (hq : q'.Strict m) (htz : q'.tz = p.tz)
    (hge : p.inst m ≤ q'.inst m) (t : Int) (ht : q'.mi = t) (hs : q'.ss = p.ss) :
    p.inst m + 60 * ((t - p.mi) % 60) ≤ q'.inst m := by
  have a := strict_fields m p hp
  have b := strict_fields m q' hq
  have := inst_fields m p q' htz (q'.inst m - p.inst m) (by omega)
  omega

theorem stage_hh (m : Mode) (p q' : TP) (hp : p.Strict m) (hq : q'.Strict m) (htz : q'.tz = p.tz)
    (hge : p.inst m ≤ q'.inst m) (t : Int) (ht : q'.hh = t) (hm : q'.mi = p.mi) (hs : q'.ss = p.ss) :
    p.inst m + 3600 * ((t - p.hh) % 24) ≤ q'.inst m := by
  have a := strict_fields m p hp
  have b := strict_fields m q' hq
  have := inst_fields m p q' htz (q'.inst m - p.inst m) (by omega)
  omega

/-- What "earliest matching date-time" means for a time-of-day shape. -/
def Earliest (m : Mode) (p q : TP) (Match : TP → Prop) : Prop :=
  q.Strict m ∧ q.tz = p.tz ∧ q.date.rep = p.date.rep ∧ Match q ∧ p.inst m ≤ q.inst m ∧
  ∀ q' : TP, q'.Strict m → q'.tz = p.tz → Match q' → p.inst m ≤ q'.inst m → q.inst m ≤ q'.inst m

/-- **`T--ss`** (only a second given): the earliest date-time not earlier than `p` with that second. -/
theorem C20_seconds (m : Mode) (p : TP) (hv : p.Valid m) (s : Int) (hs : 0 ≤ s ∧ s < 60) :
    ∃ q, addTruncated m p ⟨none, none, none, none, none, none, some s, none⟩ = some q ∧
      Earliest m p q (fun x => x.ss = s) := by
  obtain ⟨p0, e0, g0⟩ := normalise24_spec m p hv
  obtain ⟨q, e1, qs, qi, qt, qr, qf⟩ := loop_ss m p0 g0.strict s hs
  have hi0 : p0.inst m = p.inst m := by rw [g0.inst]; omega
  refine ⟨q, ?_, qs, by rw [qt, g0.tz], by rw [qr, g0.rep], qf, ?_, ?_⟩
  · simp only [addTruncated, e0, Option.bind_eq_bind, Option.bind_some, Option.isSome_none, Bool.false_eq_true,
      or_self, e1, Option.pure_def]
  · rw [qi, hi0]; omega
  · intro q' hq' htz hm hge
    have := stage_ss m p0 q' g0.strict hq' (by rw [htz, g0.tz]) (by rw [hi0]; exact hge) s hm
    rw [qi]; exact this

/-- **`T-mm`, `T-mm:ss`** (minute given, no hour): the earliest date-time not earlier than `p` with
    that minute and the given second (zero if none was given). -/
theorem C20_minutes (m : Mode) (p : TP) (hv : p.Valid m) (t : Int) (ht : 0 ≤ t ∧ t < 60)
    (ss : Option Int) (hs : ∀ s, ss = some s → 0 ≤ s ∧ s < 60) :
    ∃ q, addTruncated m p ⟨none, none, none, none, none, some t, ss, none⟩ = some q ∧
      Earliest m p q (fun x => x.mi = t ∧ x.ss = ss.getD 0) := by
  obtain ⟨p0, e0, g0⟩ := normalise24_spec m p hv
  have hS : 0 ≤ ss.getD 0 ∧ ss.getD 0 < 60 := by
    cases ss with
    | none => simp
    | some s => exact hs s rfl
  obtain ⟨p1, e1, s1, i1, t1, r1, f1⟩ := loop_ss m p0 g0.strict (ss.getD 0) hS
  obtain ⟨q, e2, qs, qi, qt, qr, qf, qss⟩ := loop_mi m p1 s1 t ht
  have hi0 : p0.inst m = p.inst m := by rw [g0.inst]; omega
  refine ⟨q, ?_, qs, by rw [qt, t1, g0.tz], by rw [qr, r1, g0.rep], ⟨qf, by rw [qss, f1]⟩, ?_, ?_⟩
  · cases ss with
    | none =>
      simp only [Option.getD_none] at e1
      simp only [addTruncated, e0, Option.bind_eq_bind, Option.bind_some, Option.isSome_none, Option.isSome_some,
        Bool.false_eq_true, false_or, ↓reduceIte, e1, e2, Option.pure_def]
    | some s =>
      simp only [Option.getD_some] at e1
      simp only [addTruncated, e0, Option.bind_eq_bind, Option.bind_some, e1, e2, Option.pure_def]
  · rw [qi, i1, hi0]; omega
  · intro q' hq' htz hm hge
    have a := stage_ss m p0 q' g0.strict hq' (by rw [htz, g0.tz]) (by rw [hi0]; exact hge) _ hm.2
    rw [← i1] at a
    have b := stage_mi m p1 q' s1 hq' (by rw [htz, t1, g0.tz]) a t hm.1 (by rw [hm.2, f1])
    rw [qi]; exact b

/-- **`Thh`, `Thh:mm`, `Thh:mm:ss`** (hour given): the earliest date-time not earlier than `p` at
    that hour, the given minute and second (zero where none was given). -/
theorem C20_hours (m : Mode) (p : TP) (hv : p.Valid m) (h : Int) (hh : 0 ≤ h ∧ h < 24)
    (mi ss : Option Int) (hmi : ∀ x, mi = some x → 0 ≤ x ∧ x < 60) (hs : ∀ s, ss = some s → 0 ≤ s ∧ s < 60) :
    ∃ q, addTruncated m p ⟨none, none, none, none, some h, mi, ss, none⟩ = some q ∧
      Earliest m p q (fun x => x.hh = h ∧ x.mi = mi.getD 0 ∧ x.ss = ss.getD 0) := by
  obtain ⟨p0, e0, g0⟩ := normalise24_spec m p hv
  have hS : 0 ≤ ss.getD 0 ∧ ss.getD 0 < 60 := by
    cases ss with
    | none => simp
    | some s => exact hs s rfl
  have hM : 0 ≤ mi.getD 0 ∧ mi.getD 0 < 60 := by
    cases mi with
    | none => simp
    | some x => exact hmi x rfl
  obtain ⟨p1, e1, s1, i1, t1, r1, f1⟩ := loop_ss m p0 g0.strict (ss.getD 0) hS
  obtain ⟨p2, e2, s2, i2, t2, r2, f2, f2s⟩ := loop_mi m p1 s1 (mi.getD 0) hM
  obtain ⟨q, e3, qs, qi, qt, qr, qf, qm, qss⟩ := loop_hh m p2 s2 h hh
  have hi0 : p0.inst m = p.inst m := by rw [g0.inst]; omega
  refine ⟨q, ?_, qs, by rw [qt, t2, t1, g0.tz], by rw [qr, r2, r1, g0.rep],
    ⟨qf, by rw [qm, f2], by rw [qss, f2s, f1]⟩, ?_, ?_⟩
  · cases mi <;> cases ss <;>
      simp only [Option.getD_none, Option.getD_some] at e1 e2 <;>
      simp only [addTruncated, e0, Option.bind_eq_bind, Option.bind_some, Option.isSome_none, Option.isSome_some,
        Bool.false_eq_true, true_or, or_true, ↓reduceIte, e1, e2, e3, Option.pure_def]
  · rw [qi, i2, i1, hi0]; omega
  · intro q' hq' htz hm hge
    have a := stage_ss m p0 q' g0.strict hq' (by rw [htz, g0.tz]) (by rw [hi0]; exact hge) _ hm.2.2
    rw [← i1] at a
    have b := stage_mi m p1 q' s1 hq' (by rw [htz, t1, g0.tz]) a _ hm.2.1 (by rw [hm.2.2, f1])
    rw [← i2] at b
    have c := stage_hh m p2 q' s2 hq' (by rw [htz, t2, t1, g0.tz]) b h hm.1 (by rw [hm.2.1, f2])
      (by rw [hm.2.2, f2s, f1])
    rw [qi]; exact c

/-- **Applying `t` again returns the same result** (time-of-day shapes): a point that already
    matches is its own earliest match. -/
theorem C20_idempotent (m : Mode) (p q : TP) (Match : TP → Prop) (he : Earliest m p q Match)
    (q2 : TP) (he2 : Earliest m q q2 Match) : q2 = q := by
  obtain ⟨qs, qt, qr, qm, qge, _⟩ := he
  obtain ⟨q2s, q2t, q2r, q2m, q2ge, q2min⟩ := he2
  have h1 := q2min q qs rfl qm (Int.le_refl _)
  exact strict_unique m q2 q q2s qs q2r q2t (by omega)

/-- With a zone of its own, `t` is read in that zone and the answer is re-expressed in `p`'s. -/
theorem C20_zone (m : Mode) (p : TP) (t : Trunc) (z : TZ) (hz : t.tz = some z) :
    addTruncTP m p t =
      (toTimeZone m p z).bind fun q => (addTruncated m q t).bind fun r => toTimeZone m r p.tz := by
  unfold addTruncTP; rw [hz]

theorem C20_no_zone (m : Mode) (p : TP) (t : Trunc) (hz : t.tz = none) :
    addTruncTP m p t = addTruncated m p t := by
  unfold addTruncTP; rw [hz]

/-! ## Non-vacuity, the repaired defects (24:00, F2; week 53 in the 360-day calendar, F8) and F9 -/

example : addTruncated .greg ⟨.cal 2000 12 31, 24, 0, 0, ⟨0, 0⟩⟩ ⟨none, none, none, none, some 0, none, none, none⟩ =
    some ⟨.cal 2001 1 1, 0, 0, 0, ⟨0, 0⟩⟩ := by decide +kernel
example : addTruncated .greg ⟨.cal 2021 3 1, 10, 0, 0, ⟨0, 0⟩⟩ ⟨some 53, some 5, none, none, none, none, none, none⟩ =
    some ⟨.week 2026 53 5, 10, 0, 0, ⟨0, 0⟩⟩ := by decide +kernel
/-- week 53 never occurs in the 360-day calendar: the (repaired) bounds check refuses it, the loop
    would never end — within any fuel the model finds no match. -/
example : (Gen.calOfMode .d360).maxWeeksInYear = 52 := by decide

/-- **F9**: for a day designator with a minute but no hour the result matches but is not the
    earliest: `-001T-46` added to `2000-003T19:40:08Z` gives `2001-001T19:46`, while
    `2001-001T00:46` also matches and is earlier. -/
theorem C20_earliest_counterexample_dayMinute :
    addTruncated .greg ⟨.ord 2000 3, 19, 40, 8, ⟨0, 0⟩⟩ ⟨none, none, none, some 1, none, some 46, none, none⟩ =
      some ⟨.ord 2001 1, 19, 46, 0, ⟨0, 0⟩⟩ ∧
    (⟨.ord 2001 1, 0, 46, 0, ⟨0, 0⟩⟩ : TP).inst .greg < (⟨.ord 2001 1, 19, 46, 0, ⟨0, 0⟩⟩ : TP).inst .greg ∧
    (⟨.ord 2000 3, 19, 40, 8, ⟨0, 0⟩⟩ : TP).inst .greg ≤ (⟨.ord 2001 1, 0, 46, 0, ⟨0, 0⟩⟩ : TP).inst .greg := by
  refine ⟨by decide +kernel, by decide +kernel, by decide +kernel⟩

end IsoDT.Props.C20
