/-
  C07 — The parser decodes every documented date-time form to exactly its fields.

  The regular expressions are the templates of `Gen.Templates`, regenerated on every run from the regex
  objects the live `TimePointParser` compiled, for num_expanded_year_digits ∈ {0, 2, 3} ×
  allow_only_basic (allow_truncated does not change the tables, only which of them are tried).
  `IsoDT.Text.parse` mirrors `get_info` / `_create_timepoint_from_info` / `TimePoint.__init__`;
  its agreement with the Python is the correspondence (driver ops `tparse`, `tmatch`).
-/
import IsoDT.Lemmas.TextDecode

namespace IsoDT.Props.C07
open IsoDT IsoDT.Text
open _root_.IsoDT.Gen.Templates (timeDesignator dateTypeOrder parserTables)

/-! ## The regular expressions, generically -/

/-- **C07 (template round trip)**: a regular expression of template shape matches the text it spells for
    any assignment of its groups that fits (right widths, digits only, a sign, the literal group text),
    and `groupdict()` is exactly that assignment — for every template, hence for every entry of every
    regenerated table. -/
theorem C07_template_roundtrip (t : Template) (env : Env) (h : fits t env = true) :
    tmatch t (trender t env) = some env := tmatch_trender t env h

/-- Soundness of the decidable shape check used below: if `shapeDisjoint a b`, nothing `b` matches is
    matched by `a`. -/
theorem C07_shapeDisjoint_sound (a b : Template) (ha : wf a = true) (hb : wf b = true)
    (h : shapeDisjoint a b = true) (s : List Char) (env : Env) (hm : tmatch b s = some env) :
    tmatch a s = none := shapeDisjoint_sound a b ha hb h s env hm

/-! ## The try-order -/

/-- The date forms that an earlier, different form of the try-order can pre-empt, per configuration:
    (earlier expression, later expression).  Only with `allow_truncated`, and only a signed reduced
    form against a truncated form: `-YYMM` / `±XCC` with two expanded digits (`-2706`), and with no
    expanded digits `-YYMM` / `±XCCYY` and `-YY` / `±XCC` (forms that cannot be decoded then anyway). -/
def documentedOverlaps (ned : Nat) : List (List Char × List Char) :=
  if ned = 2 then [(['-', 'Y', 'Y', 'M', 'M'], ['+', 'X', 'C', 'C'])]
  else if ned = 0 then [(['-', 'Y', 'Y', 'M', 'M'], ['+', 'X', 'C', 'C', 'Y', 'Y']),
                        (['-', 'Y', 'Y'], ['+', 'X', 'C', 'C'])]
  else []

set_option maxRecDepth 100000 in
/-- **C07 (overlaps)**: the complete list of genuine overlaps between documented date forms, for every
    regenerated configuration with truncated forms enabled, is `documentedOverlaps`; the truncated
    form is reached first.  Without truncated forms, and among the forms that can precede a time,
    there is none. -/
theorem C07_overlaps : ∀ pt ∈ parserTables,
    overlaps (dateOrder pt (dateTypes true [])) = documentedOverlaps pt.ned ∧
    overlaps (dateOrder pt (dateTypes false [])) = [] ∧
    overlaps (dateOrder pt (dateTypes true [.reduced])) = [] ∧
    overlaps (dateOrder pt (dateTypes false [.reduced])) = [] := by decide +kernel

/-- Is `e` the later form of a documented overlap? -/
def isLoser (ned : Nat) (e : Entry) : Bool := (documentedOverlaps ned).any (·.2 = e.expr)

set_option maxRecDepth 100000 in
/-- **C07 (first match)**, table part: in every configuration, for every date form of the try-order
    (date alone or before a time, truncated forms enabled or not) other than the later form of a
    documented overlap, every form tried earlier either cannot match any text this form matches
    (`shapeDisjoint`) or is the same regular expression with the same expression text; the same holds for
    all pairs of the time table and of the zone table. -/
theorem C07_first_match_tables : ∀ pt ∈ parserTables,
    (∀ trunc : Bool, ∀ e ∈ dateOrder pt (dateTypes trunc []),
      (trunc = false ∨ isLoser pt.ned e = false) → prec okPair (dateOrder pt (dateTypes trunc [])) e = true) ∧
    (∀ trunc : Bool, allAfter okPair (dateOrder pt (dateTypes trunc [.reduced])) = true) ∧
    allAfter okPairT pt.timeEntries = true ∧ allAfter okPairZ pt.zoneEntries = true := by
  decide +kernel

/-- **C07 (first match)**: a text rendered from a listed date form (not the later form of a documented
    overlap) is decoded by that form's regular expression and yields that form's expression text, with
    exactly the rendered groups — no earlier entry of the try-order catches it. -/
theorem C07_first_match (cfg : Cfg) (hpt : cfg.pt ∈ parserTables) (e : Entry)
    (he : e ∈ dateOrder cfg.pt (dateTypes cfg.allowTruncated []))
    (hl : cfg.allowTruncated = false ∨ isLoser cfg.pt.ned e = false)
    (env : Env) (hf : fits e.tmpl env = true) :
    ∃ e', getDateInfo cfg (trender e.tmpl env) [] = some (e', env) ∧ e'.tmpl = e.tmpl ∧
      e'.expr = e.expr ∧ e'.typ = e.typ := by
  have tf := tableFacts cfg.pt hpt
  have hp := (C07_first_match_tables cfg.pt hpt).1 cfg.allowTruncated e he hl
  obtain ⟨e', _, h2, h3, h4, h5, _⟩ := firstBy_prec Entry.tmpl okPair SameDate okPair_spec
    (fun e => ⟨rfl, rfl, fun _ => rfl⟩) _
    (fun x hx => (tf.dates x (dateOrder_sub _ _ x hx)).1) e he hp _ env (tmatch_trender e.tmpl env hf)
  exact ⟨e', by simpa [getDateInfo, firstMatch_eq] using h2, h3, h4, h5⟩

/-- The documented overlap is real: `-2706` is both `-YYMM` and `±XCC` (two expanded digits), and the
    truncated form decodes it. -/
theorem C07_overlap_witness :
    tmatch [.group .truncated ['-'], .digits .yearOfCentury 2, .digits .monthOfYear 2] "-2706".toList = some [(.truncated, ['-']), (.yearOfCentury, ['2', '7']),
      (.monthOfYear, ['0', '6'])] ∧
    (tmatch [.sign .yearSign, .digits .expandedYear 2, .digits .century 2] "-2706".toList).isSome = true := by
  decide +kernel

/-! ## Splitting -/

/-- **C07 (split)**: `get_info` cuts `time ++ zone` exactly where the zone starts, for a time text
    without `Z`, `+`, `-` and every zone style: none, `Z`, `+hh…`, `-hh…` (the last because the "is it
    a truncated time" retry finds both halves well-formed). -/
theorem C07_split (cfg : Cfg) (bf : List FormatKey) (bt : List TypeKey) (t z : List Char)
    (ht : ∀ c ∈ t, Plain c) (hz : ZoneText z)
    (hminus : ∀ body, z = '-' :: body →
      (getTimeInfo cfg t bf bt).isSome = true ∧ (getZoneInfo cfg.pt z bf).isSome = true) :
    splitZone cfg bf bt (t ++ z) = some (t, if z = [] then none else some z) :=
  splitZone_spec cfg bf bt t z ht hz hminus

/-- **C07 (split, whole text)**: for every configuration, every complete date form, every non-truncated
    time form of the same format and every zone form of that format (or none), `get_info` of the
    rendered `date T time zone` returns exactly the rendered groups of the three parts, the zone
    processed by `process_time_zone_info`, and the concatenated expression text. -/
theorem C07_groups (cfg : Cfg) (hpt : cfg.pt ∈ parserTables)
    (de : Entry) (hde : de ∈ cfg.pt.dateEntries) (hdc : de.typ = .complete)
    (te : Entry) (hte : te ∈ cfg.pt.timeEntries) (htt : te.typ ≠ .truncated) (htf : te.fmt = de.fmt)
    (zo : Option (ZEntry × Env))
    (hzo : ∀ ze zenv, zo = some (ze, zenv) →
      ze ∈ cfg.pt.zoneEntries ∧ ze.fmt = de.fmt ∧ fits ze.tmpl zenv = true)
    (denv tenv : Env) (hfd : fits de.tmpl denv = true) (hft : fits te.tmpl tenv = true) :
    getInfo cfg (trender de.tmpl denv ++ timeDesignator :: (trender te.tmpl tenv ++ zoneTextOf zo)) =
      (processZone cfg.zone (zoneEnvOf zo)).map fun z =>
        { dateEnv := denv, dateTrunc := false, timeEnv := tenv, zone := z,
          expr := de.expr ++ timeDesignator :: (te.expr ++ zoneExprOf zo) } :=
  getInfo_rendered cfg hpt de hde hdc te hte htt htf zo hzo denv tenv hfd hft

/-- **C07 (date alone)**: likewise for a text that is one rendered date form (complete, reduced or
    truncated) that is not the later form of a documented overlap. -/
theorem C07_groups_date (cfg : Cfg) (hpt : cfg.pt ∈ parserTables) (de : Entry)
    (hmem : de ∈ dateOrder cfg.pt (dateTypes cfg.allowTruncated []))
    (hl : cfg.allowTruncated = false ∨ isLoser cfg.pt.ned de = false)
    (denv : Env) (hfd : fits de.tmpl denv = true) :
    getInfo cfg (trender de.tmpl denv) =
      (processZone cfg.zone []).map fun z =>
        { dateEnv := denv, dateTrunc := Env.has denv .truncated, timeEnv := [], zone := z,
          expr := de.expr } :=
  getInfo_date cfg hpt de hmem
    ((C07_first_match_tables cfg.pt hpt).1 cfg.allowTruncated de hmem hl) denv hfd

/-! ## Non-vacuity -/

/-- `±XCCYY-MM-DD` with two expanded digits, as the live parser compiled it. -/
def exTemplate : Template := [.sign .yearSign, .digits .expandedYear 2, .digits .century 2,
  .digits .yearOfCentury 2, .lit '-', .digits .monthOfYear 2, .lit '-', .digits .dayOfMonth 2]

def exEnv : Env := [(.yearSign, ['-']), (.expandedYear, ['0', '0']), (.century, ['0', '4']),
  (.yearOfCentury, ['0', '0']), (.monthOfYear, ['0', '2']), (.dayOfMonth, ['2', '9'])]

example : (Gen.Templates.parser_2_all.dateEntries.any fun e => e.tmpl = exTemplate) = true := by
  decide +kernel
example : fits exTemplate exEnv = true := by decide +kernel
example : trender exTemplate exEnv = "-000400-02-29".toList := by decide +kernel
example : tmatch exTemplate "-000400-02-29".toList = some exEnv := by decide +kernel

example : Plain ':' ∧ Plain '5' ∧ ZoneText "-00:30".toList :=
  ⟨by decide, by decide, Or.inr (Or.inr ⟨'-', "00:30".toList, by decide, Or.inr rfl, by decide⟩)⟩

example : dateOrder Gen.Templates.parser_2_all (dateTypes true []) ≠ [] ∧
    (dateOrder Gen.Templates.parser_2_all (dateTypes true [])).any (isLoser 2) = true := by decide +kernel

end IsoDT.Props.C07
