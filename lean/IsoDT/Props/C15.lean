/-
  C15 — The active calendar mode alone determines calendar results.

  Two halves.

  (1) The process-wide state: `CALENDAR` (mode + the attributes `set_mode` installs) and the
      `lru_cache` tables of the memoised helpers.  `Model.Cache` is that state machine, with
      *arbitrary* function bodies constrained only by what `Gen.Cache.table` (regenerated from
      data.py / dumpers.py on every run) says they read and call.  `C15_inv` and `C15_fresh` hold
      for every table that passes `KeyDiscipline`, every history of `set_mode`/calls of any
      length, every depth bound; `C15_discipline` is the obligation on the *source*: the
      regenerated table passes.  It stops compiling when a mode-dependent helper loses its key
      parameter, when a call site stops passing `CALENDAR.mode`, or when an un-keyed memoised
      function (e.g. `get_is_leap_year`) starts reading a mode-dependent attribute.

  (2) What a mode *is*: `C15_modes*` — the seven spellings are the keys of `Calendar.MODES`, all
      spellings of one mode install identical records, every derived constant is the function of
      the month tables it should be, and the four records carry exactly the month tables of the
      property text; the leap rule is the 4/100/400 rule.

  Not proved here (correspondence, harness/props/c15.py): that the Python bodies read and call
  what the translator says (re-validated dynamically), and that `functools.lru_cache` is a map.
-/
import IsoDT.Lemmas.Cache
import IsoDT.Lemmas.Calendar

namespace IsoDT.Props.C15
open IsoDT IsoDT.Model.Cache IsoDT.Lemmas.Cache

variable {V : Type} [DecidableEq V]

/-! ## The state machine: invariant and fresh-process equivalence -/

/-- Under the key discipline every cache entry of every reachable state holds the cache-free
    value for the mode named in its key (for an un-keyed entry: for every mode).  Reachable =
    any history of mode switches and calls, from a fresh process. -/
theorem C15_inv (S : Sys V) (hd : KeyDiscipline S.T = true) (he : EnvOK S) (hc : Conf S)
    (fuel : Nat) (s0 : Spelling) (ops : List (Op V)) :
    CacheOK S (run S fuel (fresh s0) ops).cache :=
  run_ok S hd he hc fuel ops (fresh s0) (fun _ h => by simp [fresh] at h)

/-- Same, from any state whose cache is sound (e.g. after eviction of arbitrary entries). -/
theorem C15_inv_from (S : Sys V) (hd : KeyDiscipline S.T = true) (he : EnvOK S) (hc : Conf S)
    (fuel : Nat) (st : State V) (h : CacheOK S st.cache) (ops : List (Op V)) :
    CacheOK S (run S fuel st ops).cache := run_ok S hd he hc fuel ops st h

omit [DecidableEq V] in
/-- Dropping entries (LRU eviction) keeps a cache sound. -/
theorem C15_eviction (S : Sys V) (c c' : Cache V) (h : CacheOK S c) (hsub : ∀ e, e ∈ c' → e ∈ c) :
    CacheOK S c' := fun e he => h e (hsub e he)

/-- After any history of `set_mode`s and calls, whatever a call returns is
    (a) the cache-free value for the *current* mode,
    (b) what a fresh process that only ever used the current mode returns (given enough depth), and
    (c) the only thing such a process can return. -/
theorem C15_fresh (S : Sys V) (hd : KeyDiscipline S.T = true) (he : EnvOK S) (hc : Conf S)
    (fuel : Nat) (s0 : Spelling) (ops : List (Op V)) (f : Fn) (a : List V) (v : V)
    (h : (step S fuel (run S fuel (fresh s0) ops) (.call f a)).2 = some v) :
    let cur := (run S fuel (fresh s0) ops).mode
    PureVal S cur f a v ∧
    (∃ n, (step S n (fresh cur) (.call f a)).2 = some v) ∧
    (∀ n v', (step S n (fresh cur) (.call f a)).2 = some v' → v' = v) := by
  intro cur
  have hinv := C15_inv S hd he hc fuel s0 ops
  obtain ⟨c, hev⟩ := step_call_out S fuel _ f a v h
  have hpv : PureVal S cur f a v := (evalM_sound S hd he hc _ fuel _ f a v c hinv hev).2
  have hempty : CacheOK S (fresh (V := V) cur).cache := fun _ hmem => by simp [fresh] at hmem
  refine ⟨hpv, ?_, ?_⟩
  · obtain ⟨n, hn⟩ := hpv
    obtain ⟨c', hc'⟩ := evalM_complete S hd he hc cur n [] f a v hempty hn
    exact ⟨n, by simp [step, fresh, hc']⟩
  · intro n v' hv'
    obtain ⟨c', hc'⟩ := step_call_out S n _ f a v' hv'
    exact pureVal_unique S cur f a v' v
      (evalM_sound S hd he hc _ n _ f a v' c' hempty hc').2 hpv

/-- The current mode after a history is the last accepted `set_mode` argument: the history
    matters to later results only through it. -/
theorem C15_mode_last (S : Sys V) (fuel : Nat) (st : State V) (ops : List (Op V)) (s : Spelling)
    (hs : S.valid s = true) : (run S fuel st (ops ++ [.setMode s])).mode = s := by
  induction ops generalizing st with
  | nil => simp [run, step, hs]
  | cons op ops ih => simp only [List.cons_append, run]; exact ih _

/-! ## The obligation on the source -/

/-- The regenerated memoised-helper table obeys the key discipline. -/
theorem C15_discipline : KeyDiscipline Gen.Cache.table = true := by decide +kernel

/-- Hence, for the system whose table is the one read off the source: -/
theorem C15_inv_source (S : Sys V) (hT : S.T = Gen.Cache.table) (he : EnvOK S) (hc : Conf S)
    (fuel : Nat) (s0 : Spelling) (ops : List (Op V)) :
    CacheOK S (run S fuel (fresh s0) ops).cache :=
  C15_inv S (hT ▸ C15_discipline) he hc fuel s0 ops

theorem C15_fresh_source (S : Sys V) (hT : S.T = Gen.Cache.table) (he : EnvOK S) (hc : Conf S)
    (fuel : Nat) (s0 : Spelling) (ops : List (Op V)) (f : Fn) (a : List V) (v : V)
    (h : (step S fuel (run S fuel (fresh s0) ops) (.call f a)).2 = some v) :
    PureVal S (run S fuel (fresh s0) ops).mode f a v ∧
    (∃ n, (step S n (fresh (run S fuel (fresh s0) ops).mode) (.call f a)).2 = some v) :=
  let r := C15_fresh S (hT ▸ C15_discipline) he hc fuel s0 ops f a v h
  ⟨r.1, r.2.1⟩

/-- Every memoised function of the source that is *not* keyed by the mode at every call site
    (`get_is_leap_year`, the two `TimePointDumper` methods) is outside the mode-dependent set:
    it reads only mode-independent attributes and calls only such functions. -/
theorem C15_unkeyed_independent (f : Nat) (hm : isMemo Gen.Cache.table f = true)
    (hk : effKeyed Gen.Cache.table f = false) :
    modeDep Gen.Cache.table f = false ∧
    (∀ a, a ∈ (fnOf Gen.Cache.table f).reads → a ∈ Gen.Cache.table.indepAttrs) ∧
    (∀ g, g ∈ (fnOf Gen.Cache.table f).calls → modeDep Gen.Cache.table g = false) :=
  have h := discipline_keyed _ C15_discipline f hm hk
  ⟨h, discipline_closed _ C15_discipline f h⟩

/-- `get_is_leap_year` is in the table and does not depend on the mode. -/
theorem C15_leap_year_independent :
    "get_is_leap_year" ∈ Gen.Cache.fnNames ∧
    (List.range Gen.Cache.fnNames.length).all (fun i =>
      Gen.Cache.fnNames[i]? != some "get_is_leap_year" || !modeDep Gen.Cache.table i) = true := by
  decide +kernel

/-- The table is not trivially disciplined: there are memoised functions that do depend on the
    mode, and every one of them is keyed at every call site. -/
theorem C15_keyed_nonvacuous :
    ((List.range Gen.Cache.table.fns.length).filter (fun f =>
        isMemo Gen.Cache.table f && modeDep Gen.Cache.table f)).length ≥ 1 ∧
    (List.range Gen.Cache.table.fns.length).all (fun f =>
        !(isMemo Gen.Cache.table f && modeDep Gen.Cache.table f) ||
          (effKeyed Gen.Cache.table f && Gen.Cache.table.sites.any (fun s => s.callee == f))) = true := by
  decide +kernel

/-- The attribute `mode` itself is classified mode-dependent (so every wrapper that picks the key
    is in the dependent set, and so is everything that calls a wrapper). -/
theorem C15_mode_attr_dependent :
    (List.range Gen.Cache.attrNames.length).all (fun i =>
      Gen.Cache.attrNames[i]? != some "mode" ||
        (Gen.Cache.table.depAttrs.contains i && !Gen.Cache.table.indepAttrs.contains i)) = true ∧
    "mode" ∈ Gen.Cache.attrNames := by decide

/-! ## What each mode is -/

def sumI (l : List Int) : Int := l.foldl (· + ·) 0
def maxI (l : List Int) : Int := l.foldl (fun a b => if a < b then b else a) 0
def enumFrom1 (l : List Int) : List (Int × Int) :=
  (List.range l.length).zip l |>.map (fun p => ((p.1 : Int) + 1, p.2))

/-- Every constant `set_mode` derives is the function of the two month tables it should be —
    for each of the seven spellings (this is what breaks when `set_mode` forgets to recompute
    one). -/
def Coherent (r : Gen.CalRec) : Bool :=
  r.indexed == enumFrom1 r.daysInMonths && r.indexedLeap == enumFrom1 r.daysInMonthsLeap &&
  r.monthsInYear == r.daysInMonths.length && r.daysInMonthsLeap.length == r.daysInMonths.length &&
  r.daysInYear == sumI r.daysInMonths && r.daysInYearLeap == sumI r.daysInMonthsLeap &&
  r.roughDaysInYear == r.daysInYear && r.maxDaysInMonth == maxI r.daysInMonths &&
  r.maxWeeksInYear == (r.daysInYearLeap + 6) / 7 &&
  r.secondsInMinute == 60 && r.minutesInHour == 60 && r.hoursInDay == 24 && r.daysInWeek == 7 &&
  r.secondsInHour == 3600 && r.secondsInDay == 86400 && r.minutesInDay == 1440

/-- All spellings of one mode install identical records; the spellings are exactly the seven of
    the property text, each naming its mode; every derived constant is coherent. -/
theorem C15_modes :
    (∀ e ∈ Gen.calRecs, e.2.2 = Gen.calOfMode e.2.1) ∧
    (∀ e ∈ Gen.calRecs, Coherent e.2.2 = true) ∧
    Gen.calRecs.length = 7 ∧
    (∀ p ∈ [("gregorian", Mode.greg), ("360day", .d360), ("360_day", .d360), ("365day", .d365),
            ("365_day", .d365), ("366day", .d366), ("366_day", .d366)],
        p ∈ Gen.calRecs.map (fun e => (e.1, e.2.1))) ∧
    Gen.defaultSpelling = "gregorian" := by
  refine ⟨by decide, by decide, by decide, by decide, by decide⟩

/-- The four records have exactly the month tables of the property text: twelve 30-day months;
    365 days always; 366 days always; Gregorian 365/366. -/
theorem C15_modes_tables :
    (Gen.calOfMode .d360).daysInMonths = List.replicate 12 30 ∧
    (Gen.calOfMode .d360).daysInMonthsLeap = List.replicate 12 30 ∧
    (Gen.calOfMode .d365).daysInMonths = [31, 28, 31, 30, 31, 30, 31, 31, 30, 31, 30, 31] ∧
    (Gen.calOfMode .d365).daysInMonthsLeap = [31, 28, 31, 30, 31, 30, 31, 31, 30, 31, 30, 31] ∧
    (Gen.calOfMode .d366).daysInMonths = [31, 29, 31, 30, 31, 30, 31, 31, 30, 31, 30, 31] ∧
    (Gen.calOfMode .d366).daysInMonthsLeap = [31, 29, 31, 30, 31, 30, 31, 31, 30, 31, 30, 31] ∧
    (Gen.calOfMode .greg).daysInMonths = [31, 28, 31, 30, 31, 30, 31, 31, 30, 31, 30, 31] ∧
    (Gen.calOfMode .greg).daysInMonthsLeap = [31, 29, 31, 30, 31, 30, 31, 31, 30, 31, 30, 31] ∧
    ((Gen.calOfMode .d360).daysInYear, (Gen.calOfMode .d360).daysInYearLeap) = (360, 360) ∧
    ((Gen.calOfMode .d365).daysInYear, (Gen.calOfMode .d365).daysInYearLeap) = (365, 365) ∧
    ((Gen.calOfMode .d366).daysInYear, (Gen.calOfMode .d366).daysInYearLeap) = (366, 366) ∧
    ((Gen.calOfMode .greg).daysInYear, (Gen.calOfMode .greg).daysInYearLeap) = (365, 366) := by
  decide

/-- In terms of the Spec: month lengths, year length and leap behaviour of every year in every
    mode are the calendar definition's (the Gregorian 4/100/400 rule; none / always otherwise). -/
theorem C15_modes_spec (m : Mode) (y : Int) :
    Model.table m (Spec.leap m y) = Spec.monthTab m (Spec.leap m y) ∧
    Model.daysInYear m y = Spec.yearLen m y ∧
    Model.isLeapYear y = Spec.isLeapG y ∧
    Gen.leapFactors = [(4, true), (100, false), (400, true)] ∧
    (m ≠ .greg → Model.table m true = Model.table m false) :=
  ⟨Lemmas.table_eq m _, Lemmas.daysInYear_eq m y, Lemmas.isLeapYear_eq y, Lemmas.gen_leapFactors,
   fun h => by rw [Lemmas.table_eq, Lemmas.table_eq]; exact Lemmas.monthTab_fixed m h true false⟩

/-! ## Non-vacuity: a three-function instance, and why the discipline is needed -/

namespace Example

/-- 0: `leap` (memoised, un-keyed, reads the mode-independent attribute 1);
    1: `days` (public wrapper: reads the mode, attribute 0, calls 2);
    2: `_days` (memoised, key parameter 1, reads the mode-dependent attribute 2, calls 0). -/
def toy (wrapperPassesMode : Bool) : Gen.Cache.Table :=
  { fns := [{ memo := true, keyIdx := none, reads := [1], calls := [] },
            { memo := false, keyIdx := none, reads := [0], calls := [2] },
            { memo := true, keyIdx := some 1, reads := [2], calls := [0] }],
    sites := [⟨2, wrapperPassesMode⟩], depAttrs := [0, 2], indepAttrs := [1] }

def toySys (wrapperPassesMode : Bool) : Sys Int :=
  { T := toy wrapperPassesMode,
    env := fun s a => if a = 2 then (if s = "360day" then 360 else 365) else if a = 1 then 4 else 0,
    body := fun f a =>
      match f with
      | 0 => .read 1 (fun k => .ret (if a.headD 0 % k = 0 then 1 else 0))
      | 1 => .read 0 (fun _ => .call 2 a .ret)
      | 2 => .call 0 a (fun l => .read 2 (fun d => .ret (d + l)))
      | _ => .ret 0,
    valid := fun s => s = "360day" || s = "gregorian" }

theorem toy_conf (b : Bool) : Conf (toySys b) := by
  intro f a
  match f with
  | 0 => simp [toySys, toy, ConfP, fnOf]
  | 1 => simp [toySys, toy, ConfP, fnOf]
  | 2 => simp [toySys, toy, ConfP, fnOf]
  | n + 3 => simp [toySys, ConfP]

theorem toy_env (b : Bool) : EnvOK (toySys b) := by
  intro a ha s s'
  simp [toySys, toy] at ha
  subst ha
  simp [toySys]

example : KeyDiscipline (toy true) = true := by decide

def history : List (Op Int) := [.call 1 [2004], .setMode "360day", .call 1 [2003], .setMode "bogus"]

/-- With the discipline: 366 under gregorian, then 361 (= 360 + leap flag) under 360day. -/
example : (step (toySys true) 5 (fresh "gregorian") (.call 1 [2004])).2 = some 366 ∧
    (step (toySys true) 5 (run (toySys true) 5 (fresh "gregorian") history) (.call 1 [2004])).2
      = some 361 ∧
    evalP (toySys true) "360day" 5 1 [2004] = some 361 ∧
    (run (toySys true) 5 (fresh "gregorian") history).mode = "360day" ∧
    (run (toySys true) 5 (fresh "gregorian") history).cache.length = 4 := by decide

/-- The discipline is not decoration: if the wrapper stops passing `CALENDAR.mode`, the table
    fails the check, and the same history serves the value computed under gregorian. -/
theorem C15_discipline_needed :
    KeyDiscipline (toy false) = false ∧
    (step (toySys false) 5 (run (toySys false) 5 (fresh "gregorian") history) (.call 1 [2004])).2
      = some 366 ∧
    evalP (toySys false) "360day" 5 1 [2004] = some 361 := by decide

end Example

end IsoDT.Props.C15
