/-
  C19 — The command line prints exactly what the library computes.

  `Model.Cli.plan` is the dispatch of `main.main` over what `argparse` returns; a `Plan` names the
  library-level operation (`DateTimeOperator.process_time_point_str`, `diff_time_point_strs`,
  `format_duration_str`, `iter_recurrence_str`) and its operands.  The check executes the plan
  through the library API and compares with the real command's output, so the theorems below
  (about the plan) transfer to what is printed.  `argparse`, `now`, and the `datetime`/`time`
  fallbacks are outside the model; "never a traceback" is observed, not proved.
-/
import IsoDT.Model.Cli

namespace IsoDT.Props.C19
open IsoDT.Model.Cli

/-- **A date-time argument with any number of offsets** is shifted by those offsets *in the order
    given* and printed in the print format if there is one, otherwise in the notation it was
    written in (`printFormat = none`). -/
theorem C19_shift (a : Args) (i : Str) (hv : a.version = false) (hi : a.items = [i])
    (hr : i.head? ≠ some 'R') (ht : a.asTotal = none) :
    plan a = .shiftPrint (some i) (readOffsets a.offsets1) a.printFormat := by
  unfold plan; simp [hv, hi, hr, ht]

/-- No argument: the current time (or `now`), same treatment. -/
theorem C19_now (a : Args) (hv : a.version = false) (hi : a.items = []) :
    plan a = .shiftPrint none (readOffsets a.offsets1) a.printFormat := by
  unfold plan; simp [hv, hi]

/-- **Two date-times** print the signed duration between the first (shifted by `--offset1`s) and
    the second (shifted by `--offset2`s); `--as-total` reports that same duration in the unit. -/
theorem C19_diff (a : Args) (i1 i2 : Str) (rest : List Str) (hv : a.version = false)
    (hi : a.items = i1 :: i2 :: rest) :
    plan a = .diff i1 i2 (readOffsets a.offsets1) (readOffsets a.offsets2)
      a.printFormat a.asTotal := by
  unfold plan; simp [hv, hi]

/-- **A recurrence argument** prints its first `N` points. -/
theorem C19_recurrence (a : Args) (i : Str) (hv : a.version = false) (hi : a.items = [i])
    (hr : i.head? = some 'R') : plan a = .recurrence i a.printFormat a.maxResults := by
  unfold plan; simp [hv, hi, hr]

/-- `--max=N` for `N ≥ 1` prints exactly `min N (number of points)` points, in order. -/
theorem C19_max (n : Nat) (hn : 1 ≤ n) (avail : Option Nat) :
    printedCount (n : Int) avail = match avail with | none => n | some k => min n k := by
  unfold printedCount
  by_cases h1 : (n : Int) ≤ 1
  · have : n = 1 := by omega
    subst this; cases avail <;> simp
  · simp only [h1, ↓reduceIte, Int.toNat_natCast]; rfl

theorem C19_as_total (a : Args) (i u : Str) (hv : a.version = false) (hi : a.items = [i])
    (hr : i.head? ≠ some 'R') (ht : a.asTotal = some u) : plan a = .asTotal i u := by
  unfold plan; simp [hv, hi, hr, ht]

/-- Offsets are applied in the order given; empty ones are skipped; each is unescaped, then split
    into sign and duration text. -/
theorem C19_offsets_in_order (l : List Str) :
    readOffsets l = ((l.map unescape).filter (· ≠ [])).map readOffset := rfl

/-- An offset's leading `-` means subtraction of the duration that follows, `+` or nothing means
    addition. -/
theorem C19_offset_sign (d : Str) (hd : d.head? ≠ some '-' ∧ d.head? ≠ some '+') :
    readOffset ('-' :: d) = ⟨true, d⟩ ∧ readOffset ('+' :: d) = ⟨false, d⟩ ∧ readOffset d = ⟨false, d⟩ := by
  refine ⟨rfl, rfl, ?_⟩
  cases d with
  | nil => rfl
  | cons c rest =>
    simp only [List.head?_cons, ne_eq, Option.some.injEq] at hd
    unfold readOffset
    split
    · rename_i h; cases h; exact absurd rfl hd.1
    · rename_i h; cases h; exact absurd rfl hd.2
    · rfl

/-- **`-P…` spellings**: an argument starting with `-P` is protected from `argparse` by a
    backslash and restored afterwards: the offset the library sees is the argument as typed
    (for arguments that contain no backslash themselves). -/
theorem C19_escape_roundtrip (s : Str) (h : '\\' ∉ s) : unescape (escapeArg s) = s := by
  have hf : ∀ l : Str, '\\' ∉ l → l.filter (· ≠ '\\') = l := by
    intro l hl
    induction l with
    | nil => rfl
    | cons c rest ih =>
      simp only [List.mem_cons, not_or] at hl
      simp only [List.filter_cons]
      have : (decide (c ≠ '\\')) = true := by simp; exact fun e => hl.1 e.symm
      rw [this]; simp only [↓reduceIte]; rw [ih hl.2]
  unfold unescape escapeArg
  split
  · simp only [List.filter_cons]
    have : (decide ('\\' ≠ '\\')) = false := by simp
    rw [this]; simp only [Bool.false_eq_true, ↓reduceIte]
    exact hf _ h
  · exact hf _ h

theorem C19_escape_only_dashP (s : Str) : escapeArg s = s ∨ (∃ r, s = '-' :: 'P' :: r ∧ escapeArg s = '\\' :: s) := by
  unfold escapeArg
  split
  · rename_i r; exact Or.inr ⟨r, rfl, rfl⟩
  · exact Or.inl rfl

/-- **`--calendar`, `--utc`, `--ref` and the environment variables select what they say**: the
    option wins over the environment variable, which wins over the default. -/
theorem C19_options (a : Args) (envCal envRef : Option Str) :
    (ctxOf a envCal envRef).utc = a.utc ∧ (ctxOf a envCal envRef).parseFormat = a.parseFormat ∧
    (∀ c, a.calendar = some c → c ≠ [] → (ctxOf a envCal envRef).calendar = some c) ∧
    (a.calendar = none → (ctxOf a envCal envRef).calendar = envCal) ∧
    (∀ r, a.ref = some r → (ctxOf a envCal envRef).ref = some r) ∧
    (a.ref = none → (ctxOf a envCal envRef).ref = envRef) := by
  refine ⟨rfl, rfl, ?_, ?_, ?_, ?_⟩
  · intro c hc hne
    simp only [ctxOf, hc]
    have : c.isEmpty = false := by cases c <;> simp_all
    simp [this]
  · intro hc; simp only [ctxOf, hc]
  · intro r hr; simp only [ctxOf, hr]
  · intro hr; simp only [ctxOf, hr]

theorem C19_version (a : Args) (hv : a.version = true) : plan a = .version := by
  unfold plan; simp [hv]

/-! ## Non-vacuity -/

example : plan ⟨["2000".toList], none, none, 10, ["\\-P1D".toList, "PT1H".toList], [], none, none, none, false, false⟩ =
    .shiftPrint (some "2000".toList) [⟨true, "P1D".toList⟩, ⟨false, "PT1H".toList⟩] none := by decide
example : escapeArgs ["-P1D".toList, "-1".toList, "2000".toList] =
    ["\\-P1D".toList, "-1".toList, "2000".toList] := by decide

end IsoDT.Props.C19
