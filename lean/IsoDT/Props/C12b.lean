/-
  C12 (month/year intervals) — a recurrence whose interval has months and/or years iterates by
  repeated nominal addition.

  `NominalNonneg d`: `d` is in unit form, every component is `≥ 0` and years or months are
  non-zero (`P1M`, `P1Y2M3D`, `P1YT12H`, …).  `repeatAdd m d n p` is the list
  `p, p+d, (p+d)+d, …` of `n` points, each one `Model.addDur` (= `TimePoint.__add__`) applied to
  the previous point; `repeatSub` likewise with `Model.subDur`.

  Proved here, for every mode, every date representation, every offset and a start that may be
  in the 24:00 form:
  * one nominal addition lands strictly later (`C12_nominal_step_later`);
  * `R/start/d`: iteration is exactly the series of repeated additions, strictly increasing
    (`C12_nominal_unbounded`);
  * `Rn/start/d`, `n ≥ 2`: iteration is that series cut at the first point after the derived
    bound `start + (n−1)·d` (`C12_nominal_bounded_prefix`) — how many points that is depends on
    clamping (`C12_count_counterexample_nominal`, known finding F5);
  * `R/d/end`: iteration is the series of repeated subtractions from the end, strictly decreasing
    (`C12_nominal_duration_end_unbounded`);
  * `Rn/d/end`, `n ≥ 2`: iteration runs forward from the derived start `end − (n−1)·d`, cut at
    the first point after `end` (`C12_nominal_duration_end_bounded_prefix`); the end itself need
    not be among the points (`C12_end_not_reached_nominal`).
-/
import IsoDT.Props.C12
import IsoDT.Lemmas.RecNominal

namespace IsoDT.Props.C12
open IsoDT IsoDT.Model IsoDT.Lemmas
open IsoDT.Spec (Date TZ TP)

/-! ### list facts used below -/

theorem mem_takeWhile_pos {α : Type} (f : α → Bool) : ∀ (l : List α) (x : α),
    x ∈ l.takeWhile f → f x = true := by
  intro l
  induction l with
  | nil => intro x h; cases h
  | cons a t ih =>
    intro x h
    by_cases c : f a = true
    · rw [List.takeWhile_cons_of_pos c, List.mem_cons] at h
      rcases h with rfl | h
      · exact c
      · exact ih x h
    · rw [List.takeWhile_cons_of_neg c] at h; cases h

/-- The element at which `takeWhile` stops fails the test. -/
theorem takeWhile_stop {α : Type} (f : α → Bool) : ∀ (l : List α)
    (h : (l.takeWhile f).length < l.length), f (l[(l.takeWhile f).length]) = false := by
  intro l
  induction l with
  | nil => intro h; simp at h
  | cons a t ih =>
    intro h
    by_cases c : f a = true
    · simp only [List.takeWhile_cons_of_pos c, List.length_cons, List.getElem_cons_succ] at h ⊢
      exact ih (by omega)
    · simp only [List.takeWhile_cons_of_neg c, List.length_nil, List.getElem_cons_zero]
      simpa using c

/-- In a strictly increasing list, cutting at the first point after `e` keeps every point that is
    not after `e`. -/
theorem mem_takeWhile_of_increasing (m : Mode) (e : TP) : ∀ (l : List TP),
    l.Pairwise (fun a b => a.inst m < b.inst m) → ∀ x ∈ l, x.inst m ≤ e.inst m →
      x ∈ l.takeWhile (withinEnd m (some e)) := by
  intro l
  induction l with
  | nil => intro _ x h; cases h
  | cons a t ih =>
    intro hp x hx hle
    rw [List.pairwise_cons] at hp
    have ca : withinEnd m (some e) a = true := by
      simp only [withinEnd, decide_eq_true_eq]
      rw [List.mem_cons] at hx
      rcases hx with rfl | hx
      · exact hle
      · have := hp.1 x hx; omega
    rw [List.takeWhile_cons_of_pos ca, List.mem_cons]
    rw [List.mem_cons] at hx
    rcases hx with rfl | hx
    · exact Or.inl rfl
    · exact Or.inr (ih hp.2 x hx hle)

/-! ### one step -/

/-- **One nominal step lands strictly later.**  For a valid point `p` (24:00 allowed) and a
    non-negative interval `d` with years or months non-zero, `p + d` is defined, is a valid point
    with `0 ≤ h < 24` in `p`'s representation and offset, and denotes a strictly later instant
    (at least one day more than the exact part of `d`): end-of-month / leap-day / week-53
    clamping never moves a point back to or before where it started. -/
theorem C12_nominal_step_later (m : Mode) (p : TP) (d : Dur) (hp : p.Valid m) (hd : NominalNonneg d) :
    ∃ q, addDur m p d = some q ∧ q.Strict m ∧ q.date.rep = p.date.rep ∧ q.tz = p.tz ∧
      p.inst m < q.inst m ∧ p.inst m + d.exactSeconds m + 86400 ≤ q.inst m :=
  addDur_nominal_lt m p d hp hd

example : NominalNonneg (.units 0 1 0 0 0 0) ∧ (⟨.cal 2001 1 31, 24, 0, 0, ⟨1, 0⟩⟩ : TP).Valid .greg ∧
    addDur .greg ⟨.cal 2001 1 31, 24, 0, 0, ⟨1, 0⟩⟩ (.units 0 1 0 0 0 0) =
      some ⟨.cal 2001 3 1, 0, 0, 0, ⟨1, 0⟩⟩ := by decide +kernel

/-- The symmetric fact: `p − d` is strictly earlier. -/
theorem C12_nominal_step_earlier (m : Mode) (p : TP) (d : Dur) (hp : p.Valid m) (hd : NominalNonneg d) :
    ∃ q, subDur m p d = some q ∧ q.Strict m ∧ q.date.rep = p.date.rep ∧ q.tz = p.tz ∧
      q.inst m < p.inst m ∧ q.inst m + d.exactSeconds m + 86400 ≤ p.inst m :=
  subDur_nominal_lt m p d hp hd

example : NominalNonneg (.units 1 0 0 0 0 0) ∧ (⟨.ord 2004 366, 12, 0, 0, ⟨0, 0⟩⟩ : TP).Valid .greg ∧
    subDur .greg ⟨.ord 2004 366, 12, 0, 0, ⟨0, 0⟩⟩ (.units 1 0 0 0 0 0) =
      some ⟨.ord 2003 365, 12, 0, 0, ⟨0, 0⟩⟩ := by decide +kernel

/-! ### `R/start/d` -/

/-- **start/duration, unbounded, month/year interval**: the constructor accepts it, and the first
    `fuel` iterated points are exactly `start, start+d, (start+d)+d, …` — each point after the
    first is ONE nominal addition of `d` to the previous point (not `start + k·d`) — all `fuel` of
    them, every one a valid point in the start's representation and offset (all but possibly the
    start itself with `0 ≤ h < 24`), with strictly increasing instants, the `i`-th at least `i`
    days after the start. -/
theorem C12_nominal_unbounded (m : Mode) (s : TP) (d : Dur) (hs : s.Valid m) (hd : NominalNonneg d)
    (fuel : Nat) :
    ∃ r, mkRec m none (some s) (some d) none = some r ∧
      iter m r fuel = repeatAdd m d fuel s ∧
      (iter m r fuel).length = fuel ∧
      (1 ≤ fuel → (iter m r fuel).head? = some s) ∧
      (∀ (i : Nat) (h : i + 1 < (iter m r fuel).length),
        addDur m ((iter m r fuel)[i]'(by omega)) d = some ((iter m r fuel)[i + 1])) ∧
      (∀ q ∈ iter m r fuel, q.Valid m ∧ q.date.rep = s.date.rep ∧ q.tz = s.tz) ∧
      (∀ q ∈ (iter m r fuel).tail, q.Strict m) ∧
      (iter m r fuel).Pairwise (fun a b => a.inst m < b.inst m) ∧
      (∀ (i : Nat) (h : i < (iter m r fuel).length),
        s.inst m + 86400 * (i : Int) ≤ ((iter m r fuel)[i]).inst m) := by
  refine ⟨_, mkRec_fmt3_unbounded_nominal m s d hd, ?_⟩
  have hx : NomRec m ⟨none, some s, some d, none, none, 3⟩ d :=
    ⟨rfl, hd, by simp, fun s' h => by cases h; exact hs, fun e' h => by cases h⟩
  have hi : iter m ⟨none, some s, some d, none, none, 3⟩ fuel = repeatAdd m d fuel s := by
    rw [iter_fwd_nominal m _ d hx s rfl fuel,
      iterFrom_fwd_nominal m _ d hx fuel s hs (fun s' h => by cases h; exact Int.le_refl _)]
    exact takeWhile_true _ (fun _ => rfl) _
  obtain ⟨a1, a2, a3, a4⟩ := repeatAdd_spec m d hd fuel s hs
  simp only [hi]
  refine ⟨trivial, a1, repeatAdd_head m d fuel s, repeatAdd_chain m d fuel s, ?_, ?_, a4,
    repeatAdd_lower m d hd fuel s hs⟩
  · intro q hq; obtain ⟨v, r, t, _⟩ := a2 q hq; exact ⟨v, r, t⟩
  · intro q hq; exact (a3 q hq).1

/-- 2001-01-31 + P1M repeatedly: 31 Jan, 28 Feb, 28 Mar, 28 Apr (not 31 Mar: each step starts
    from the previous, clamped, point). -/
example : NominalNonneg (.units 0 1 0 0 0 0) ∧ (⟨.cal 2001 1 31, 0, 0, 0, ⟨0, 0⟩⟩ : TP).Valid .greg ∧
    mkRec .greg none (some ⟨.cal 2001 1 31, 0, 0, 0, ⟨0, 0⟩⟩) (some (.units 0 1 0 0 0 0)) none =
      some ⟨none, some ⟨.cal 2001 1 31, 0, 0, 0, ⟨0, 0⟩⟩, some (.units 0 1 0 0 0 0), none, none, 3⟩ ∧
    iter .greg ⟨none, some ⟨.cal 2001 1 31, 0, 0, 0, ⟨0, 0⟩⟩, some (.units 0 1 0 0 0 0), none, none, 3⟩ 4 =
      [⟨.cal 2001 1 31, 0, 0, 0, ⟨0, 0⟩⟩, ⟨.cal 2001 2 28, 0, 0, 0, ⟨0, 0⟩⟩,
       ⟨.cal 2001 3 28, 0, 0, 0, ⟨0, 0⟩⟩, ⟨.cal 2001 4 28, 0, 0, 0, ⟨0, 0⟩⟩] := by decide +kernel

/-- A leap day + P1Y repeatedly stays on 28 February after the first step. -/
example : NominalNonneg (.units 1 0 0 0 0 0) ∧ (⟨.cal 2000 2 29, 6, 0, 0, ⟨-5, 0⟩⟩ : TP).Valid .greg ∧
    repeatAdd .greg (.units 1 0 0 0 0 0) 6 ⟨.cal 2000 2 29, 6, 0, 0, ⟨-5, 0⟩⟩ =
      [⟨.cal 2000 2 29, 6, 0, 0, ⟨-5, 0⟩⟩, ⟨.cal 2001 2 28, 6, 0, 0, ⟨-5, 0⟩⟩,
       ⟨.cal 2002 2 28, 6, 0, 0, ⟨-5, 0⟩⟩, ⟨.cal 2003 2 28, 6, 0, 0, ⟨-5, 0⟩⟩,
       ⟨.cal 2004 2 28, 6, 0, 0, ⟨-5, 0⟩⟩, ⟨.cal 2005 2 28, 6, 0, 0, ⟨-5, 0⟩⟩] := by decide +kernel

/-! ### `Rn/start/d` -/

/-- **start/duration, `n ≥ 2` repetitions, month/year interval**: the constructor derives the far
    bound by ONE multiplied addition `e' = start + (n−1)·d` (a strict valid point after the start).
    Whatever that bound is, the iterated points are the series `start, start+d, (start+d)+d, …` of
    repeated additions cut at its first point after `e'`:
    * they are `takeWhile (· ≤ e')` of the series, hence a prefix of it; the first is the start;
      each further one is the previous plus `d`; all valid, same representation and offset,
      strictly increasing, none after `e'`;
    * if iteration stopped before the fuel ran out, the next point of the series is after `e'`;
      and, the series being increasing, every point of the series not after `e'` was yielded;
    * there is at most one point per day between the start and `e'`, and once `fuel` exceeds that
      the result no longer depends on `fuel` (iteration has terminated).
    The number of points need not be `n` (`C12_count_counterexample_nominal`). -/
theorem C12_nominal_bounded_prefix (m : Mode) (n : Nat) (s : TP) (d : Dur) (hn : 2 ≤ n)
    (hs : s.Valid m) (hd : NominalNonneg d) (fuel : Nat) :
    ∃ e' r, addDur m s (d.mul ((n : Int) - 1)) = some e' ∧ e'.Strict m ∧ s.inst m < e'.inst m ∧
      mkRec m (some (n : Int)) (some s) (some d) none = some r ∧
      r = ⟨some (n : Int), some s, some d, some e', none, 3⟩ ∧
      iter m r fuel = (repeatAdd m d fuel s).takeWhile (fun p => decide (p.inst m ≤ e'.inst m)) ∧
      iter m r fuel <+: repeatAdd m d fuel s ∧
      (1 ≤ fuel → (iter m r fuel).head? = some s) ∧
      (∀ (i : Nat) (h : i + 1 < (iter m r fuel).length),
        addDur m ((iter m r fuel)[i]'(by omega)) d = some ((iter m r fuel)[i + 1])) ∧
      (∀ q ∈ iter m r fuel, q.Valid m ∧ q.date.rep = s.date.rep ∧ q.tz = s.tz ∧
        q.inst m ≤ e'.inst m) ∧
      (iter m r fuel).Pairwise (fun a b => a.inst m < b.inst m) ∧
      (∀ (h : (iter m r fuel).length < (repeatAdd m d fuel s).length),
        e'.inst m < ((repeatAdd m d fuel s)[(iter m r fuel).length]).inst m) ∧
      (∀ q ∈ repeatAdd m d fuel s, q.inst m ≤ e'.inst m → q ∈ iter m r fuel) ∧
      ((iter m r fuel).length : Int) ≤ (e'.inst m - s.inst m) / 86400 + 1 ∧
      (∀ fuel', (e'.inst m - s.inst m) / 86400 + 1 < (fuel : Int) → fuel ≤ fuel' →
        iter m r fuel' = iter m r fuel) := by
  obtain ⟨e', he, hr, se, lt, _, _⟩ := mkRec_fmt3_bounded_nominal m n s d (by omega) hs hd
  refine ⟨e', _, he, se, lt, hr, rfl, ?_⟩
  have hx : NomRec m ⟨some (n : Int), some s, some d, some e', none, 3⟩ d :=
    ⟨rfl, hd, by simp; omega, fun s' h => by cases h; exact hs, fun e h => by cases h; exact se.1⟩
  have hi : ∀ k, iter m ⟨some (n : Int), some s, some d, some e', none, 3⟩ k =
      (repeatAdd m d k s).takeWhile (withinEnd m (some e')) := by
    intro k
    rw [iter_fwd_nominal m _ d hx s rfl k,
      iterFrom_fwd_nominal m _ d hx k s hs (fun s' h => by cases h; exact Int.le_refl _)]
  obtain ⟨a1, a2, a3, a4⟩ := repeatAdd_spec m d hd fuel s hs
  have hpre := List.takeWhile_prefix (l := repeatAdd m d fuel s) (withinEnd m (some e'))
  have hlen := repeatAdd_takeWhile_length m d hd e' fuel s hs
  rw [if_pos (by omega)] at hlen
  simp only [hi]
  refine ⟨rfl, hpre, ?_, ?_, ?_, a4.sublist (List.takeWhile_sublist _), ?_, ?_, hlen, ?_⟩
  · intro hf
    rw [List.head?_takeWhile, repeatAdd_head m d fuel s hf]
    have : withinEnd m (some e') s = true := by simp only [withinEnd, decide_eq_true_eq]; omega
    simp only [Option.filter, this, ↓reduceIte]
  · intro i h
    have hl := hpre.length_le
    rw [hpre.getElem (by omega), hpre.getElem h]
    exact repeatAdd_chain m d fuel s i (by omega)
  · intro q hq
    obtain ⟨v, r, t, _⟩ := a2 q ((List.takeWhile_sublist _).mem hq)
    have := mem_takeWhile_pos _ _ q hq
    simp only [withinEnd, decide_eq_true_eq] at this
    exact ⟨v, r, t, this⟩
  · intro h
    have := takeWhile_stop (withinEnd m (some e')) (repeatAdd m d fuel s) h
    simp only [withinEnd, decide_eq_false_iff_not] at this
    omega
  · intro q hq hle
    exact mem_takeWhile_of_increasing m e' _ a4 q hq hle
  · intro fuel' hbig hle
    exact repeatAdd_takeWhile_stable m d _ fuel s (by omega) fuel' hle

/-- R3/2001-01-31/P1M: the bound is 31 Jan + P2M = 28 Mar (two clamped steps); the points are
    31 Jan, 28 Feb, 28 Mar (the series' next point, 28 Apr, is after the bound). -/
example : NominalNonneg (.units 0 1 0 0 0 0) ∧ (⟨.cal 2001 1 31, 0, 0, 0, ⟨0, 0⟩⟩ : TP).Valid .greg ∧
    mkRec .greg (some 3) (some ⟨.cal 2001 1 31, 0, 0, 0, ⟨0, 0⟩⟩) (some (.units 0 1 0 0 0 0)) none =
      some ⟨some 3, some ⟨.cal 2001 1 31, 0, 0, 0, ⟨0, 0⟩⟩, some (.units 0 1 0 0 0 0),
        some ⟨.cal 2001 3 28, 0, 0, 0, ⟨0, 0⟩⟩, none, 3⟩ ∧
    iter .greg ⟨some 3, some ⟨.cal 2001 1 31, 0, 0, 0, ⟨0, 0⟩⟩, some (.units 0 1 0 0 0 0),
        some ⟨.cal 2001 3 28, 0, 0, 0, ⟨0, 0⟩⟩, none, 3⟩ 10 =
      [⟨.cal 2001 1 31, 0, 0, 0, ⟨0, 0⟩⟩, ⟨.cal 2001 2 28, 0, 0, 0, ⟨0, 0⟩⟩,
       ⟨.cal 2001 3 28, 0, 0, 0, ⟨0, 0⟩⟩] := by decide +kernel

/-- R4/2000-02-29T00Z/P1Y, a leap day with years: bound 2003-02-28, four points. -/
example : NominalNonneg (.units 1 0 0 0 0 0) ∧ (⟨.cal 2000 2 29, 0, 0, 0, ⟨0, 0⟩⟩ : TP).Valid .greg ∧
    mkRec .greg (some 4) (some ⟨.cal 2000 2 29, 0, 0, 0, ⟨0, 0⟩⟩) (some (.units 1 0 0 0 0 0)) none =
      some ⟨some 4, some ⟨.cal 2000 2 29, 0, 0, 0, ⟨0, 0⟩⟩, some (.units 1 0 0 0 0 0),
        some ⟨.cal 2003 2 28, 0, 0, 0, ⟨0, 0⟩⟩, none, 3⟩ ∧
    (iter .greg ⟨some 4, some ⟨.cal 2000 2 29, 0, 0, 0, ⟨0, 0⟩⟩, some (.units 1 0 0 0 0 0),
        some ⟨.cal 2003 2 28, 0, 0, 0, ⟨0, 0⟩⟩, none, 3⟩ 10).length = 4 := by decide +kernel

/-! ### `R/d/end` and `Rn/d/end` -/

/-- **duration/end, unbounded, month/year interval**: iteration runs backwards from the end:
    `end, end−d, (end−d)−d, …`, each point after the first being ONE nominal subtraction of `d`
    from the previous point; all `fuel` of them, valid, in the end's representation and offset,
    with strictly decreasing instants. -/
theorem C12_nominal_duration_end_unbounded (m : Mode) (e : TP) (d : Dur) (he : e.Valid m)
    (hd : NominalNonneg d) (fuel : Nat) :
    ∃ r, mkRec m none none (some d) (some e) = some r ∧
      iter m r fuel = repeatSub m d fuel e ∧
      (iter m r fuel).length = fuel ∧
      (1 ≤ fuel → (iter m r fuel).head? = some e) ∧
      (∀ (i : Nat) (h : i + 1 < (iter m r fuel).length),
        subDur m ((iter m r fuel)[i]'(by omega)) d = some ((iter m r fuel)[i + 1])) ∧
      (∀ q ∈ iter m r fuel, q.Valid m ∧ q.date.rep = e.date.rep ∧ q.tz = e.tz) ∧
      (∀ q ∈ (iter m r fuel).tail, q.Strict m) ∧
      (iter m r fuel).Pairwise (fun a b => a.inst m > b.inst m) := by
  refine ⟨_, mkRec_fmt4_unbounded_nominal m e d hd, ?_⟩
  have hx : NomRec m ⟨none, none, some d, some e, none, 4⟩ d :=
    ⟨rfl, hd, by simp, fun s' h => (by cases h), fun e' h => by cases h; exact he⟩
  have hi : iter m ⟨none, none, some d, some e, none, 4⟩ fuel = repeatSub m d fuel e := by
    rw [iter_rev_nominal m _ d hx e rfl rfl fuel,
      iterFrom_rev_nominal m _ d hx fuel e he (fun e' h => by cases h; exact Int.le_refl _)]
    exact takeWhile_true _ (fun _ => rfl) _
  obtain ⟨a1, a2, a3, a4⟩ := repeatSub_spec m d hd fuel e he
  simp only [hi]
  refine ⟨trivial, a1, ?_, repeatSub_chain m d fuel e, ?_, ?_, a4⟩
  · intro hf
    cases fuel with
    | zero => omega
    | succ k => rfl
  · intro q hq; obtain ⟨v, r, t, _⟩ := a2 q hq; exact ⟨v, r, t⟩
  · intro q hq; exact (a3 q hq).1

/-- R/P1M/2001-03-31 backwards: 31 Mar, 28 Feb, 28 Jan, 28 Dec. -/
example : NominalNonneg (.units 0 1 0 0 0 0) ∧ (⟨.cal 2001 3 31, 0, 0, 0, ⟨0, 0⟩⟩ : TP).Valid .greg ∧
    mkRec .greg none none (some (.units 0 1 0 0 0 0)) (some ⟨.cal 2001 3 31, 0, 0, 0, ⟨0, 0⟩⟩) =
      some ⟨none, none, some (.units 0 1 0 0 0 0), some ⟨.cal 2001 3 31, 0, 0, 0, ⟨0, 0⟩⟩, none, 4⟩ ∧
    iter .greg ⟨none, none, some (.units 0 1 0 0 0 0), some ⟨.cal 2001 3 31, 0, 0, 0, ⟨0, 0⟩⟩, none, 4⟩ 4 =
      [⟨.cal 2001 3 31, 0, 0, 0, ⟨0, 0⟩⟩, ⟨.cal 2001 2 28, 0, 0, 0, ⟨0, 0⟩⟩,
       ⟨.cal 2001 1 28, 0, 0, 0, ⟨0, 0⟩⟩, ⟨.cal 2000 12 28, 0, 0, 0, ⟨0, 0⟩⟩] := by decide +kernel

/-- **duration/end, `n ≥ 2` repetitions, month/year interval**: the constructor derives the start
    by ONE multiplied subtraction `s' = end − (n−1)·d` (a strict valid point before the end), and
    iteration runs FORWARD from `s'` by repeated addition of `d`, cut at the first point after the
    end: a prefix of `s', s'+d, (s'+d)+d, …`, valid, strictly increasing, none after the end, every
    series point not after the end yielded, at most one point per day.  Neither the count `n` nor
    reaching `end` is guaranteed (`C12_end_not_reached_nominal`). -/
theorem C12_nominal_duration_end_bounded_prefix (m : Mode) (n : Nat) (e : TP) (d : Dur) (hn : 2 ≤ n)
    (he : e.Valid m) (hd : NominalNonneg d) (fuel : Nat) :
    ∃ s' r, subDur m e (d.mul ((n : Int) - 1)) = some s' ∧ s'.Strict m ∧ s'.inst m < e.inst m ∧
      mkRec m (some (n : Int)) none (some d) (some e) = some r ∧
      r = ⟨some (n : Int), some s', some d, some e, none, 4⟩ ∧
      iter m r fuel = (repeatAdd m d fuel s').takeWhile (fun p => decide (p.inst m ≤ e.inst m)) ∧
      iter m r fuel <+: repeatAdd m d fuel s' ∧
      (1 ≤ fuel → (iter m r fuel).head? = some s') ∧
      (∀ (i : Nat) (h : i + 1 < (iter m r fuel).length),
        addDur m ((iter m r fuel)[i]'(by omega)) d = some ((iter m r fuel)[i + 1])) ∧
      (∀ q ∈ iter m r fuel, q.Strict m ∧ q.date.rep = e.date.rep ∧ q.tz = e.tz ∧
        q.inst m ≤ e.inst m) ∧
      (iter m r fuel).Pairwise (fun a b => a.inst m < b.inst m) ∧
      (∀ (h : (iter m r fuel).length < (repeatAdd m d fuel s').length),
        e.inst m < ((repeatAdd m d fuel s')[(iter m r fuel).length]).inst m) ∧
      (∀ q ∈ repeatAdd m d fuel s', q.inst m ≤ e.inst m → q ∈ iter m r fuel) ∧
      ((iter m r fuel).length : Int) ≤ (e.inst m - s'.inst m) / 86400 + 1 ∧
      (∀ fuel', (e.inst m - s'.inst m) / 86400 + 1 < (fuel : Int) → fuel ≤ fuel' →
        iter m r fuel' = iter m r fuel) := by
  obtain ⟨s', hs', hr, ss, lt, rs, ts⟩ := mkRec_fmt4_bounded_nominal m n e d (by omega) he hd
  refine ⟨s', _, hs', ss, lt, hr, rfl, ?_⟩
  have hx : NomRec m ⟨some (n : Int), some s', some d, some e, none, 4⟩ d :=
    ⟨rfl, hd, by simp; omega, fun s h => by cases h; exact ss.1, fun e' h => by cases h; exact he⟩
  have hi : ∀ k, iter m ⟨some (n : Int), some s', some d, some e, none, 4⟩ k =
      (repeatAdd m d k s').takeWhile (withinEnd m (some e)) := by
    intro k
    rw [iter_fwd_nominal m _ d hx s' rfl k,
      iterFrom_fwd_nominal m _ d hx k s' ss.1 (fun s h => by cases h; exact Int.le_refl _)]
  obtain ⟨a1, a2, a3, a4⟩ := repeatAdd_spec m d hd fuel s' ss.1
  have hpre := List.takeWhile_prefix (l := repeatAdd m d fuel s') (withinEnd m (some e))
  have hlen := repeatAdd_takeWhile_length m d hd e fuel s' ss.1
  rw [if_pos (by omega)] at hlen
  simp only [hi]
  refine ⟨rfl, hpre, ?_, ?_, ?_, a4.sublist (List.takeWhile_sublist _), ?_, ?_, hlen, ?_⟩
  · intro hf
    rw [List.head?_takeWhile, repeatAdd_head m d fuel s' hf]
    have : withinEnd m (some e) s' = true := by simp only [withinEnd, decide_eq_true_eq]; omega
    simp only [Option.filter, this, ↓reduceIte]
  · intro i h
    have hl := hpre.length_le
    rw [hpre.getElem (by omega), hpre.getElem h]
    exact repeatAdd_chain m d fuel s' i (by omega)
  · intro q hq
    have hq' := (List.takeWhile_sublist _).mem hq
    obtain ⟨v, r, t, _⟩ := a2 q hq'
    have := mem_takeWhile_pos _ _ q hq
    simp only [withinEnd, decide_eq_true_eq] at this
    refine ⟨?_, by rw [r, rs], by rw [t, ts], this⟩
    cases fuel with
    | zero => cases hq'
    | succ k =>
      obtain ⟨q1, e1, _⟩ := addDur_nominal_lt m s' d ss.1 hd
      simp only [repeatAdd, e1, List.mem_cons] at hq'
      rcases hq' with rfl | hq'
      · exact ss
      · exact (a3 q (by simp only [repeatAdd, e1, List.tail_cons]; exact hq')).1
  · intro h
    have := takeWhile_stop (withinEnd m (some e)) (repeatAdd m d fuel s') h
    simp only [withinEnd, decide_eq_false_iff_not] at this
    omega
  · intro q hq hle
    exact mem_takeWhile_of_increasing m e _ a4 q hq hle
  · intro fuel' hbig hle
    exact repeatAdd_takeWhile_stable m d _ fuel s' (by omega) fuel' hle

/-- R3/P1M/2001-05-31: the derived start is 31 May − P2M = 30 Mar (two clamped steps); forward
    from it: 30 Mar, 30 Apr, 30 May. -/
example : NominalNonneg (.units 0 1 0 0 0 0) ∧ (⟨.cal 2001 5 31, 0, 0, 0, ⟨0, 0⟩⟩ : TP).Valid .greg ∧
    mkRec .greg (some 3) none (some (.units 0 1 0 0 0 0)) (some ⟨.cal 2001 5 31, 0, 0, 0, ⟨0, 0⟩⟩) =
      some ⟨some 3, some ⟨.cal 2001 3 30, 0, 0, 0, ⟨0, 0⟩⟩, some (.units 0 1 0 0 0 0),
        some ⟨.cal 2001 5 31, 0, 0, 0, ⟨0, 0⟩⟩, none, 4⟩ ∧
    iter .greg ⟨some 3, some ⟨.cal 2001 3 30, 0, 0, 0, ⟨0, 0⟩⟩, some (.units 0 1 0 0 0 0),
        some ⟨.cal 2001 5 31, 0, 0, 0, ⟨0, 0⟩⟩, none, 4⟩ 10 =
      [⟨.cal 2001 3 30, 0, 0, 0, ⟨0, 0⟩⟩, ⟨.cal 2001 4 30, 0, 0, 0, ⟨0, 0⟩⟩,
       ⟨.cal 2001 5 30, 0, 0, 0, ⟨0, 0⟩⟩] := by decide +kernel

/-- The given end of a duration/end recurrence with a month interval need not be one of its
    points: `R3/P1M/2001-05-31T00Z` yields 30 Mar, 30 Apr, 30 May — three points, the last one a
    day before the end.  (For exact intervals `C12_duration_end_bounded` proves the last point is
    the end.) -/
theorem C12_end_not_reached_nominal :
    ∃ r, mkRec .greg (some 3) none (some (.units 0 1 0 0 0 0)) (some ⟨.cal 2001 5 31, 0, 0, 0, ⟨0, 0⟩⟩)
      = some r ∧ (iter .greg r 10).length = 3 ∧
      (iter .greg r 10).getLast? = some ⟨.cal 2001 5 30, 0, 0, 0, ⟨0, 0⟩⟩ ∧
      (⟨.cal 2001 5 31, 0, 0, 0, ⟨0, 0⟩⟩ : TP) ∉ iter .greg r 10 := by
  refine ⟨⟨some 3, some ⟨.cal 2001 3 30, 0, 0, 0, ⟨0, 0⟩⟩, some (.units 0 1 0 0 0 0),
    some ⟨.cal 2001 5 31, 0, 0, 0, ⟨0, 0⟩⟩, none, 4⟩, by decide +kernel, by decide +kernel,
    by decide +kernel, by decide +kernel⟩

end IsoDT.Props.C12
