/-
  C15 (algorithms) — "Year length, month lengths and leap behaviour are exactly those of the mode -
  twelve 30-day months; 365 days always; 366 days always; the Gregorian 4/100/400 rule."

  `Props/C15` proves the history half of the property (no result depends on an earlier mode) and
  that the regenerated calendar RECORDS are the four tables of the text.  This file states the
  second sentence of the property about the regenerated FUNCTIONS (`Gen.Algo.*`, re-translated from
  the AST of `data.py` on every run by `harness/gen_algo.py`): what `get_is_leap_year`,
  `get_days_in_year` and `get_days_in_month` compute, for every integer year (year 0 and negative
  years included), is the readable definition of `IsoDT/Spec` - so an edit of one of these
  functions that changes a month or year length for any year breaks a theorem here (e.g. a
  truthiness test `year and ...` that reads year 0 as "no year": the translator refuses it; had it
  been written `year != 0 and ...` the proof of `C15_algo_month_lengths` would not close).
-/
import IsoDT.Props.C03algo
import IsoDT.Lemmas.Calendar

namespace IsoDT.Props.C15algo
open IsoDT IsoDT.Model IsoDT.Lemmas

/-- The Gregorian 4/100/400 rule, for every integer year, whatever the mode in force. -/
theorem C15_algo_leap_rule (m : Mode) (y : Int) :
    Gen.Algo.get_is_leap_year m y = ((y % 4 == 0 && !(y % 100 == 0)) || y % 400 == 0) := by
  rw [C03algo.C03_algo_get_is_leap_year, isLeapYear_eq]; rfl

/-- Year length: 360 / 365 / 366 always in the fixed calendars, 365 or 366 by the rule in the Gregorian. -/
theorem C15_algo_year_lengths (y : Int) :
    Gen.Algo.get_days_in_year .d360 y = 360 ∧
    Gen.Algo.get_days_in_year .d365 y = 365 ∧
    Gen.Algo.get_days_in_year .d366 y = 366 ∧
    Gen.Algo.get_days_in_year .greg y = (if Spec.isLeapG y then 366 else 365) := by
  simp only [C03algo.C03_algo_get_days_in_year, daysInYear_eq]
  refine ⟨rfl, rfl, rfl, ?_⟩
  have hl : Spec.leap .greg y = Spec.isLeapG y := rfl
  unfold Spec.yearLen
  rw [hl]
  cases Spec.isLeapG y <;> decide

/-- Month lengths: for every month 1..12 and EVERY integer year the function returns the entry of the
    mode's table - the leap table exactly in the years the mode calls leap. -/
theorem C15_algo_month_lengths (m : Mode) (mo y : Int) (h1 : 1 ≤ mo) (h2 : mo ≤ 12) :
    Gen.Algo.get_days_in_month m mo (.int y) = some (Spec.monthLen m y mo) := by
  rw [C03algo.C03_algo_get_days_in_month m mo y h1 h2, daysInMonth_eq m y mo h1 h2]

/-- Spelled out: twelve 30-day months; February has 28 days always / 29 days always; the Gregorian
    February follows the rule - in particular in year 0 and in negative years. -/
theorem C15_algo_february (y : Int) :
    Gen.Algo.get_days_in_month .d360 2 (.int y) = some 30 ∧
    Gen.Algo.get_days_in_month .d365 2 (.int y) = some 28 ∧
    Gen.Algo.get_days_in_month .d366 2 (.int y) = some 29 ∧
    Gen.Algo.get_days_in_month .greg 2 (.int y) = some (if Spec.isLeapG y then 29 else 28) := by
  simp only [C15_algo_month_lengths _ 2 y (by decide) (by decide)]
  refine ⟨rfl, rfl, rfl, ?_⟩
  have hl : Spec.leap .greg y = Spec.isLeapG y := rfl
  unfold Spec.monthLen
  rw [hl]
  cases Spec.isLeapG y <;> decide

theorem C15_algo_thirty_day_months (mo y : Int) (h1 : 1 ≤ mo) (h2 : mo ≤ 12) :
    Gen.Algo.get_days_in_month .d360 mo (.int y) = some 30 := by
  rw [C15_algo_month_lengths _ mo y h1 h2]
  have : mo = 1 ∨ mo = 2 ∨ mo = 3 ∨ mo = 4 ∨ mo = 5 ∨ mo = 6 ∨ mo = 7 ∨ mo = 8 ∨ mo = 9 ∨ mo = 10 ∨
      mo = 11 ∨ mo = 12 := by omega
  rcases this with h | h | h | h | h | h | h | h | h | h | h | h <;> subst h <;>
    simp [Spec.monthLen, Spec.monthLenB, Spec.monthTab, Spec.t360]

/-- The fixed calendars never depend on the year. -/
theorem C15_algo_fixed_calendars (m : Mode) (hm : m ≠ .greg) (mo y y' : Int) (h1 : 1 ≤ mo) (h2 : mo ≤ 12) :
    Gen.Algo.get_days_in_month m mo (.int y) = Gen.Algo.get_days_in_month m mo (.int y') ∧
    Gen.Algo.get_days_in_year m y = Gen.Algo.get_days_in_year m y' := by
  rw [C15_algo_month_lengths _ _ _ h1 h2, C15_algo_month_lengths _ _ _ h1 h2,
      C03algo.C03_algo_get_days_in_year, C03algo.C03_algo_get_days_in_year, daysInYear_eq, daysInYear_eq]
  cases m <;> simp_all [Spec.monthLen, Spec.yearLen, Spec.leap]

/-- Witnesses at the years a truthiness or sign slip would hit. -/
theorem C15_algo_year_zero :
    Gen.Algo.get_days_in_month .greg 2 (.int 0) = some 29 ∧
    Gen.Algo.get_days_in_month .greg 2 (.int (-4)) = some 29 ∧
    Gen.Algo.get_days_in_month .greg 2 (.int (-100)) = some 28 ∧
    Gen.Algo.get_days_in_month .greg 2 (.int (-400)) = some 29 ∧
    Gen.Algo.get_days_in_year .greg 0 = 366 ∧
    Gen.Algo.get_is_leap_year .d360 0 = true := by decide

example : Spec.isLeapG 0 = true ∧ Spec.isLeapG 1900 = false ∧ Spec.isLeapG 2000 = true := by decide

end IsoDT.Props.C15algo
