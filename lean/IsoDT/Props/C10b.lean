/-
  C10 (decimal components) and C09 (totality of the duration parser).

  `toTextQ` is `Duration.__str__`, `parseQ` is `DurationParser.parse` (Model/DurTextQ.lean) over
  durations with whole years / months / days / weeks and RATIONAL hours / minutes / seconds.  Python
  floats are not modelled: `repr(float)` and `float(str)` are the parameters `reprF`, `readF`, and
  every theorem states the laws it needs of them as hypotheses (`FloatText`, `FloatDec`:
  Lemmas/DurTextQ.lean) — true of CPython on the binary64 values, and satisfied by the concrete
  `reprDec` / `pyFloat` on the eighths `k/8 < 2^17` (`floatText_eighths`, `floatDec_eighths` in
  Lemmas/DurTextQFloat.lean) and by `reprPy` / `pyFloat` on a finite sample that includes exponent
  layouts (`floatText_sample`): the non-vacuity instances.
  `lim` is the interpreter's `int`/`str` digit limit (4300 by default, 0 = none).
-/
import IsoDT.Lemmas.DurTextQ
import IsoDT.Lemmas.DurTextQFloat

namespace IsoDT.Props.C10b
open IsoDT IsoDT.Model IsoDT.Model.DurText IsoDT.Model.DurTextQ IsoDT.Gen IsoDT.Lemmas IsoDT.Lemmas.DurText
  IsoDT.Lemmas.DurTextQ IsoDT.Lemmas.DurTextQFloat

/-- All non-zero components share one sign (the week form has a single component). -/
def SingleSignedQ : DurationQ → Prop
  | .weeks _ => True
  | .units y mo d h mi s =>
    (0 ≤ y ∧ 0 ≤ mo ∧ 0 ≤ d ∧ 0 ≤ h ∧ 0 ≤ mi ∧ 0 ≤ s) ∨ (y ≤ 0 ∧ mo ≤ 0 ∧ d ≤ 0 ∧ h ≤ 0 ∧ mi ≤ 0 ∧ s ≤ 0)

/-- The magnitudes of hours, minutes and seconds lie in the domain of the float laws. -/
def TimeIn (D : Rat → Prop) : DurationQ → Prop
  | .weeks _ => True
  | .units _ _ _ h mi s => D h.abs ∧ D mi.abs ∧ D s.abs

/-- What `parse (str d)` returns: `d` itself, except that an empty duration (also the empty week
    form `0W`, which prints as `P0Y`) comes back as the empty unit form. -/
def normalQ (d : DurationQ) : DurationQ := if d.nonzero then d else .units 0 0 0 0 0 0

theorem normalQ_nonzero (d : DurationQ) (h : d.nonzero = true) : normalQ d = d := by
  unfold normalQ; rw [if_pos h]

theorem limOk_ofv (lim : Nat) (v : Int) (h : intTextOk lim v = true) : LimOk lim (ofv v) := by
  intro ds e
  unfold ofv at e
  split at e
  · injection e with e
    subst e
    simp only [intTextOk, Bool.or_eq_true, beq_iff_eq, decide_eq_true_eq] at h
    exact h
  · cases e

theorem intTextOk_neg (lim : Nat) (v : Int) : intTextOk lim (-v) = intTextOk lim v := by
  simp [intTextOk]

/-- **C10 round trip, decimal components**: under the float laws `FloatText reprF readF D`, for
    every single-signed duration `d` — unit form with whole years / months / days of either sign and
    any size and hours / minutes / seconds whose magnitudes are in `D` (whole or fractional, any mix
    of zero and non-zero), or week form — within the interpreter's digit limit, in every calendar
    mode: `DurationParser.parse(str(d))` succeeds with `normalQ d` (slot for slot `d`; the empty
    duration as the empty unit form), which `==` `d` in both operand orders, and `str` is a
    fixpoint.  `Duration.__eq__` is evaluated over exact rationals here (the Python evaluates it in
    binary64).  The law on the layout of `repr` is only that it starts with a digit and uses digits,
    `.`, `e`, `-`, `+`: the exponent layout (`5e-05`) round-trips as well as the plain one, because
    the hour / minute / second groups are `\d.*` and `float()` reads exponents. -/
theorem C10_roundtrip_decimal {reprF : Rat → List Char} {readF : List Char → FR} {D : Rat → Prop}
    (ft : FloatText reprF readF D) (lim : Nat) (m : Mode) (d : DurationQ) (hs : SingleSignedQ d)
    (hD : TimeIn D d) (hl : strOk lim d = true) :
    toTextQ? lim reprF d = some (toTextQ reprF d) ∧
    parseQ lim readF m (toTextQ reprF d) = .ok (normalQ d) ∧ DurationQ.eq m (normalQ d) d = true ∧
      DurationQ.eq m d (normalQ d) = true ∧ toTextQ reprF (normalQ d) = toTextQ reprF d := by
  refine ⟨by unfold toTextQ?; rw [if_pos hl], ?_⟩
  by_cases hnz : d.nonzero = true
  · have hn : normalQ d = d := by unfold normalQ; rw [if_pos hnz]
    rw [hn]
    refine ⟨?_, durQ_eq_refl m d, durQ_eq_refl m d, rfl⟩
    cases d with
    | weeks w =>
      have hw : w ≠ 0 := by simpa [DurationQ.nonzero] using hnz
      have hlw : lim = 0 ∨ (natDigits w.natAbs).length ≤ lim := by
        simpa [strOk, intTextOk] using hl
      by_cases hpos : 0 < w
      · rw [toTextQ_weeks_pos reprF w hpos]
        unfold desigW
        rw [parseQ_pos lim readF m _ (desigW_ascii _ (natDigits_digs _))]
        have := parseBodyQ_desigW lim readF m 1 _ (natDigits_digs w.natAbs) (natDigits_ne_nil _) hlw
        unfold desigW at this
        rw [this, digitsVal_natDigits, ← mkQ_weeks m w hw]
        congr 2; omega
      · rw [toTextQ_weeks_neg reprF w (by omega), parseQ_neg lim readF m _ (desigW_ascii _ (natDigits_digs _)),
          parseBodyQ_desigW lim readF m (-1) _ (natDigits_digs w.natAbs) (natDigits_ne_nil _) hlw,
          digitsVal_natDigits, ← mkQ_weeks m w hw]
        congr 2; omega
    | units y mo dd h mi s =>
      obtain ⟨xh, xmi, xs⟩ := hD
      simp only [strOk, Bool.and_eq_true] at hl
      obtain ⟨⟨⟨⟨⟨ly, lmo⟩, ld⟩, _⟩, _⟩, _⟩ := hl
      rcases hs with ⟨a1, a2, a3, a4, a5, a6⟩ | ⟨a1, a2, a3, a4, a5, a6⟩
      · rw [Rat.abs_of_nonneg a4] at xh
        rw [Rat.abs_of_nonneg a5] at xmi
        rw [Rat.abs_of_nonneg a6] at xs
        have tg := tOfQ_good ft h mi s a4 a5 a6 xh xmi xs
        rw [toTextQ_units_pos reprF y mo dd h mi s a1 a2 a3 a4 a5 a6 hnz]
        unfold desig
        rw [parseQ_pos lim readF m _ (desig_asciiA _ _ _ _ (ofv_good y) (ofv_good mo) (ofv_good dd) tg.1)]
        have := parseBodyQ_desig lim readF m 1 _ _ _ _ (ofv_good y) (ofv_good mo) (ofv_good dd)
          (limOk_ofv lim y ly) (limOk_ofv lim mo lmo) (limOk_ofv lim dd ld) tg.1 h mi s tg.2
        unfold desig at this
        rw [this, mkQ_units, ival_ofv y a1, ival_ofv mo a2, ival_ofv dd a3]
        simp only [Int.mul_one, Rat.intCast_one, Rat.mul_one]
      · rw [Rat.abs_of_nonpos a4] at xh
        rw [Rat.abs_of_nonpos a5] at xmi
        rw [Rat.abs_of_nonpos a6] at xs
        have tg := tOfQ_good ft (-h) (-mi) (-s) (by grind) (by grind) (by grind) xh xmi xs
        rw [toTextQ_units_neg reprF y mo dd h mi s a1 a2 a3 a4 a5 a6 hnz,
          parseQ_neg lim readF m _ (desig_asciiA _ _ _ _ (ofv_good _) (ofv_good _) (ofv_good _) tg.1),
          parseBodyQ_desig lim readF m (-1) _ _ _ _ (ofv_good _) (ofv_good _) (ofv_good _)
            (limOk_ofv lim (-y) (by rw [intTextOk_neg]; exact ly))
            (limOk_ofv lim (-mo) (by rw [intTextOk_neg]; exact lmo))
            (limOk_ofv lim (-dd) (by rw [intTextOk_neg]; exact ld)) tg.1 (-h) (-mi) (-s) tg.2,
          mkQ_units, ival_ofv (-y) (by omega), ival_ofv (-mo) (by omega), ival_ofv (-dd) (by omega)]
        congr 1
        · congr 1 <;> first | omega | (rw [Rat.intCast_neg]; grind)
  · have hz : d.nonzero = false := by simpa using hnz
    have hn : normalQ d = .units 0 0 0 0 0 0 := by unfold normalQ; rw [hz]; rfl
    rw [hn, toTextQ_zero reprF d hz]
    have hp : parseQ lim readF m ['P', '0', 'Y'] = .ok (.units 0 0 0 0 0 0) := by
      have e : (['P', '0', 'Y'] : List Char) = desig (some ['0']) none none none := rfl
      have g : GoodF (some ['0']) := GoodF.some (Digs.cons (by decide) Digs.nil) (by simp)
      have l0 : LimOk lim (some ['0']) := by
        intro ds e; injection e with e; subst e; simp only [List.length_cons, List.length_nil]; omega
      rw [e]
      unfold desig
      rw [parseQ_pos lim readF m _ (desig_asciiA (some ['0']) none none none g GoodF.none GoodF.none trivial)]
      have := parseBodyQ_desig lim readF m 1 (some ['0']) none none none g GoodF.none GoodF.none l0
        (LimOk.none lim) (LimOk.none lim) trivial 0 0 0 ⟨rfl, rfl, rfl⟩
      unfold desig at this
      rw [this, mkQ_units]
      simp [ival, digitsVal]
    have hzero : DurationQ.eq m (.units 0 0 0 0 0 0) d = true ∧ DurationQ.eq m d (.units 0 0 0 0 0 0) = true := by
      cases d with
      | weeks w =>
        have : w = 0 := by simpa [DurationQ.nonzero] using hz
        subst this
        simp [DurationQ.eq, DurationQ.isExact, DurationQ.exactSeconds, Rat.add_zero]
      | units y mo dd h mi s =>
        simp only [DurationQ.nonzero, Bool.or_eq_false_iff, bne_eq_false_iff_eq] at hz
        obtain ⟨⟨⟨⟨⟨rfl, rfl⟩, rfl⟩, rfl⟩, rfl⟩, rfl⟩ := hz
        exact ⟨durQ_eq_refl m _, durQ_eq_refl m _⟩
    exact ⟨hp, hzero.1, hzero.2, rfl⟩

/-- The sign prefix of a designator string, and its factor. -/
def signedQ (neg : Bool) (s : List Char) : List Char := if neg then '-' :: s else s
def sgnQ (neg : Bool) : Int := if neg then -1 else 1

/-- **C10 comma and point**: for ANY `float` (no law needed), every designator string
    `[-]P[nY][nM][nD]T[xH][xM][xS]` whose hour / minute / second fields `x` start with a digit and
    contain no unit letter or newline (decimal fields `12,5`, `12.5`, but also `1e-05` or garbage
    such as `1,2,3`) gives the same result — the same duration, the same `inf`, the same
    `ValueError` — as the string with every `,` of those fields written `.`: the parser hands
    `value.replace(",", ".")` to `float`, and the greedy `\d.*` groups split both strings alike. -/
theorem C10_decimal_comma_point (lim : Nat) (readF : List Char → FR) (m : Mode) (neg : Bool)
    (fy fmo fd : Option (List Char)) (ft : Option TimeF) (hy : GoodF fy) (hmo : GoodF fmo) (hd : GoodF fd)
    (ht : GoodAT ft) :
    parseQ lim readF m (signedQ neg (desig fy fmo fd ft)) =
      parseQ lim readF m (signedQ neg (desig fy fmo fd (pointT ft))) := by
  have h1 := desig_asciiA fy fmo fd ft hy hmo hd ht
  have h2 := desig_asciiA fy fmo fd (pointT ft) hy hmo hd ht.point
  have key := fun sg => parseBodyQ_point lim readF m sg fy fmo fd ft hy hmo hd ht
  cases neg with
  | true =>
    show parseQ lim readF m ('-' :: _) = parseQ lim readF m ('-' :: _)
    rw [parseQ_neg lim readF m _ h1, parseQ_neg lim readF m _ h2, key]
  | false =>
    show parseQ lim readF m (desig fy fmo fd ft) = parseQ lim readF m (desig fy fmo fd (pointT ft))
    have k1 := key 1
    unfold desig at h1 h2 k1 ⊢
    rw [parseQ_pos lim readF m _ h1, parseQ_pos lim readF m _ h2, k1]

/-- A written hour / minute / second field: absent, a run of digits, or digits, a decimal sign
    (`,` or `.`) and digits (possibly none after the sign: `float("1.") == 1.0`). -/
inductive TF where
  | absent
  | whole (a : List Char)
  | dec (a : List Char) (comma : Bool) (b : List Char)

def TF.text : TF → Option (List Char)
  | .absent => none
  | .whole a => some a
  | .dec a c b => some (a ++ (if c then ',' else '.') :: b)

/-- The decimal value written. -/
def TF.value : TF → Rat
  | .absent => 0
  | .whole a => (digitsVal a : Rat)
  | .dec a _ b => decVal a b

def TF.Good : TF → Prop
  | .absent => True
  | .whole a => Digs a ∧ a ≠ []
  | .dec a _ b => Digs a ∧ a ≠ [] ∧ Digs b

theorem replaceComma_dec (a b : List Char) (c : Bool) (ha : Digs a) (hb : Digs b) :
    replaceComma (a ++ (if c then ',' else '.') :: b) = a ++ '.' :: b := by
  have e1 : replaceComma a = a :=
    replaceComma_id a (by intro hm; exact absurd (ha _ hm) (by decide))
  have e2 : replaceComma b = b :=
    replaceComma_id b (by intro hm; exact absurd (hb _ hm) (by decide))
  have : replaceComma (a ++ (if c then ',' else '.') :: b) =
      replaceComma a ++ '.' :: replaceComma b := by
    cases c <;> simp [replaceComma]
  rw [this, e1, e2]

theorem TF.goodA (t : TF) (h : t.Good) : GoodA t.text := by
  cases t with
  | absent => exact GoodA.none
  | whole a => exact GoodA.ofGoodF (GoodF.some h.1 h.2)
  | dec a c b =>
    obtain ⟨ha, hne, hb⟩ := h
    intro t e
    injection e with e
    subst e
    refine ⟨?_, ?_⟩
    · cases a with
      | nil => exact absurd rfl hne
      | cons d0 a' => exact ⟨d0, _, rfl, ha.head⟩
    · intro x hx
      simp only [List.mem_append, List.mem_cons] at hx
      rcases hx with hx | hx | hx
      · exact dig_free x (ha x hx)
      · subst hx; cases c <;> decide
      · exact dig_free x (hb x hx)

theorem TF.rd {readF : List Char → FR} {D : Rat → Prop} (fdl : FloatDec readF D) (t : TF) (h : t.Good)
    (hD : D t.value) : Rd readF t.text t.value := by
  cases t with
  | absent => rfl
  | whole a =>
    show readF (replaceComma a) = _
    rw [replaceComma_id a (by intro hm; exact absurd (h.1 _ hm) (by decide))]
    exact fdl.read_digits a h.1 h.2 hD
  | dec a c b =>
    obtain ⟨ha, hne, hb⟩ := h
    show readF (replaceComma _) = _
    rw [replaceComma_dec a b c ha hb]
    exact fdl.read_point a b ha hne hb hD

/-- **C10 decimal designators**: when `float` is exact on representable decimal texts
    (`FloatDec`: true of CPython, whose `float` is correctly rounded), every string
    `[-]P[nY][nM][nD]T[xH][xM][xS]` — `n` any non-empty digit runs within the digit limit, each `x`
    absent, a digit run, or digits + `,` or `.` + digits (any mix of the two signs, leading and
    trailing zeros, any length) with its decimal value in the domain — is accepted and decodes to
    exactly the values written, negated by a leading `-`.  (The `T` is needed: `P1,5D` is refused.) -/
theorem C10_designators_decimal {readF : List Char → FR} {D : Rat → Prop} (fdl : FloatDec readF D)
    (lim : Nat) (m : Mode) (neg : Bool) (fy fmo fd : Option (List Char)) (th tmi ts : TF)
    (hy : GoodF fy) (hmo : GoodF fmo) (hd : GoodF fd) (ly : LimOk lim fy) (lmo : LimOk lim fmo)
    (ld : LimOk lim fd) (gh : th.Good) (gmi : tmi.Good) (gs : ts.Good)
    (dh : D th.value) (dmi : D tmi.value) (ds : D ts.value) :
    parseQ lim readF m (signedQ neg (desig fy fmo fd (some (th.text, tmi.text, ts.text)))) =
      .ok (.units (ival fy * sgnQ neg) (ival fmo * sgnQ neg) (ival fd * sgnQ neg)
        (th.value * (sgnQ neg : Rat)) (tmi.value * (sgnQ neg : Rat)) (ts.value * (sgnQ neg : Rat))) := by
  have gt : GoodAT (some (th.text, tmi.text, ts.text)) := ⟨th.goodA gh, tmi.goodA gmi, ts.goodA gs⟩
  have rt : RdT readF (some (th.text, tmi.text, ts.text)) th.value tmi.value ts.value :=
    ⟨th.rd fdl gh dh, tmi.rd fdl gmi dmi, ts.rd fdl gs ds⟩
  have hasc := desig_asciiA fy fmo fd _ hy hmo hd gt
  have key := fun sg => parseBodyQ_desig lim readF m sg fy fmo fd _ hy hmo hd ly lmo ld gt _ _ _ rt
  cases neg with
  | true =>
    show parseQ lim readF m ('-' :: _) = _
    rw [parseQ_neg lim readF m _ hasc, key, mkQ_units]
    rfl
  | false =>
    show parseQ lim readF m (desig fy fmo fd _) = _
    have k1 := key 1
    unfold desig at hasc k1 ⊢
    rw [parseQ_pos lim readF m _ hasc, k1, mkQ_units]
    rfl


/-- The time fields `str` prints are written fields in the sense of `C10_designators_decimal`. -/
theorem ofq_plain {reprF : Rat → List Char} {D : Rat → Prop} (fp : FloatPlain reprF D) (h : Rat) (h0 : 0 ≤ h)
    (hD : D h) :
    ∃ t : TF, t.Good ∧ ofq reprF h = t.text ∧ (∀ a c b, t = .dec a c b → c = true ∧ b ≠ []) := by
  by_cases hz : h = 0
  · subst hz
    exact ⟨.absent, trivial, by simp [ofq, ofqR, TF.text], by intro a c b e; cases e⟩
  · have e : ofq reprF h = some (replaceDot (numText reprF h)) := by simp [ofq, ofqR, hz]
    by_cases hd : h.den = 1
    · refine ⟨.whole (natDigits h.num.natAbs), ⟨natDigits_digs _, natDigits_ne_nil _⟩, ?_,
        by intro a c b e; cases e⟩
      rw [e, numText_whole reprF h hd h0, replaceDot_id _ (digs_no_dot _ (natDigits_digs _))]
      rfl
    · obtain ⟨a, b, er, ha, hne, hb, hbne⟩ := fp h hD (by grind)
      refine ⟨.dec a true b, ⟨ha, hne, hb⟩, ?_, by intro a' c' b' e'; cases e'; exact ⟨rfl, hbne⟩⟩
      have en : numText reprF h = a ++ '.' :: b := by unfold numText; rw [if_neg hd]; exact er
      rw [e, en, replaceDot_append, replaceDot_id a (digs_no_dot a ha)]
      have : replaceDot ('.' :: b) = ',' :: b := by
        have := replaceDot_id b (digs_no_dot b hb)
        simp only [replaceDot, List.map_cons, ↓reduceIte, List.cons.injEq, true_and] at this ⊢
        exact this
      rw [this]
      rfl

/-- **C10, what `str` prints in the plain range**: when `repr` has the plain layout on the domain
    (`FloatPlain`: CPython for `1e-4 ≤ x < 1e16`), the text of a duration without negative
    components is `P[nY][nM][nD][T[xH][xM][xS]]` with each `x` a run of digits (whole value) or
    `digits,digits` — decimal COMMA, at least one digit on either side — i.e. an ISO 8601
    designator text inside the grammar of `C10_designators_decimal`; a duration without positive
    components prints as `-` followed by the text of its absolute value (`toTextQ_units_neg`). -/
theorem C10_str_decimal_shape {reprF : Rat → List Char} {D : Rat → Prop} (fp : FloatPlain reprF D)
    (y mo d : Int) (h mi s : Rat) (hy : 0 ≤ y) (hmo : 0 ≤ mo) (hd : 0 ≤ d) (hh : 0 ≤ h) (hmi : 0 ≤ mi)
    (hs : 0 ≤ s) (hnz : (DurationQ.units y mo d h mi s).nonzero = true) (dh : D h) (dmi : D mi) (ds : D s) :
    ∃ th tmi ts : TF, th.Good ∧ tmi.Good ∧ ts.Good ∧
      (∀ t ∈ [th, tmi, ts], ∀ a c b, t = .dec a c b → c = true ∧ b ≠ []) ∧
      toTextQ reprF (.units y mo d h mi s) =
        desig (ofv y) (ofv mo) (ofv d)
          (if h = 0 ∧ mi = 0 ∧ s = 0 then none else some (th.text, tmi.text, ts.text)) := by
  obtain ⟨th, g1, e1, c1⟩ := ofq_plain fp h hh dh
  obtain ⟨tmi, g2, e2, c2⟩ := ofq_plain fp mi hmi dmi
  obtain ⟨ts, g3, e3, c3⟩ := ofq_plain fp s hs ds
  refine ⟨th, tmi, ts, g1, g2, g3, ?_, ?_⟩
  · intro t ht
    simp only [List.mem_cons, List.not_mem_nil, or_false] at ht
    rcases ht with rfl | rfl | rfl <;> assumption
  · rw [toTextQ_units_pos reprF y mo d h mi s hy hmo hd hh hmi hs hnz]
    unfold tOfQ
    rw [e1, e2, e3]


/-! ## C09: the duration parser is total -/

theorem parseQ_nonascii (lim : Nat) (readF : List Char → FR) (m : Mode) (s : List Char)
    (h : s.any (fun c => decide (128 ≤ c.toNat)) = true) : parseQ lim readF m s = .outside := by
  unfold parseQ; rw [if_pos h]

theorem parseQ_minus (lim : Nat) (readF : List Char → FR) (m : Mode) (e : List Char)
    (h : ¬ ('-' :: e).any (fun c => decide (128 ≤ c.toNat)) = true) :
    parseQ lim readF m ('-' :: e) = parseBodyQ lim readF m (-1) e := by
  unfold parseQ; rw [if_neg h]; rfl

theorem parseQ_other (lim : Nat) (readF : List Char → FR) (m : Mode) (s : List Char)
    (h : ¬ s.any (fun c => decide (128 ≤ c.toNat)) = true) (hm : ∀ e, s ≠ '-' :: e) :
    parseQ lim readF m s = parseBodyQ lim readF m 1 s := by
  unfold parseQ; rw [if_neg h]
  split
  · rename_i e; exact absurd rfl (hm e)
  · rfl

/-- **C09 totality of the duration parser**.  `parseQ` is defined by structural recursion on the
    regex and on the text (the matcher `Re.run` / `starK` takes no fuel, `digitsVal` is a fold), so
    it answers on every text, however long its digit runs, and its answer (type `PRQ`) is

      * `ok d`: then `d` is `Duration(**result_map)` of WHOLE years / months / weeks / days (what the
        constructor's type check demands) and float hours / minutes / seconds — `DurationQ.mk?`, the
        constructor with its type check, accepts the arguments;
      * `okInf`: the same with an infinite float slot (`float("1e999")`), also accepted;
      * `syntaxErr` (`ISO8601SyntaxError`) or `valueErr` (`ValueError`) — both derived from
        `ValueError`;
      * `outside` — and that ONLY for a text with a non-ASCII character, or for a `P…` text that none
        of the three designator patterns matches and whose date-time-like reading
        `Model.DurText.altPath` does not follow (reduced / decimal / zoned / expanded spellings).
    In particular a text matched by a designator pattern is never `outside`, whatever `float` does
    with its hour / minute / second groups (`C09_duration_designator_total`). -/
theorem C09_duration_text_total (lim : Nat) (readF : List Char → FR) (m : Mode) (s : List Char) :
    (∀ d, parseQ lim readF m s = .ok d →
      ∃ (y mo w dd : Int) (h mi sec : Rat), d = DurationQ.mk m y mo w dd h mi sec ∧
        DurationQ.mk? m y mo w dd h mi sec = some d) ∧
    (parseQ lim readF m s = .outside →
      (∃ c ∈ s, 128 ≤ c.toNat) ∨
        ∃ rest, s = 'P' :: rest ∧ firstMatch durRegexes s = none ∧ altPath m rest = .outside) := by
  have mk?_int : ∀ (y mo w dd : Int) (h mi sec : Rat),
      DurationQ.mk? m y mo w dd h mi sec = some (DurationQ.mk m y mo w dd h mi sec) := by
    intro y mo w dd h mi sec
    simp [DurationQ.mk?, DurationQ.intLike?]
  have okk : ∀ sg e d, parseBodyQ lim readF m sg e = .ok d →
      ∃ (y mo w dd : Int) (h mi sec : Rat), d = DurationQ.mk m y mo w dd h mi sec ∧
        DurationQ.mk? m y mo w dd h mi sec = some d := by
    intro sg e d h
    obtain ⟨y, mo, w, dd, hh, mi, sec, rfl⟩ := parseBodyQ_ok lim readF m sg e d h
    exact ⟨y, mo, w, dd, hh, mi, sec, rfl, mk?_int ..⟩
  by_cases hna : s.any (fun c => decide (128 ≤ c.toNat)) = true
  · rw [parseQ_nonascii lim readF m s hna]
    refine ⟨fun d h => PRQ.noConfusion h, fun _ => Or.inl ?_⟩
    simpa [List.any_eq_true] using hna
  · by_cases hm : ∃ e, s = '-' :: e
    · obtain ⟨e, rfl⟩ := hm
      rw [parseQ_minus lim readF m e hna]
      refine ⟨okk _ _, fun h => ?_⟩
      exact absurd (parseBodyQ_outside lim readF m (-1) e h).1 (by decide)
    · rw [parseQ_other lim readF m s hna (fun e he => hm ⟨e, he⟩)]
      exact ⟨okk _ _, fun h => Or.inr (parseBodyQ_outside lim readF m 1 s h).2⟩

/-- **C09, designator texts**: an ASCII text (after an optional leading `-`) that one of the three
    `DURATION_REGEXES` matches gets a definite answer of the model — a duration, a duration with an
    infinite slot, or `ValueError` — never `outside` and never `ISO8601SyntaxError`. -/
theorem C09_duration_designator_total (lim : Nat) (readF : List Char → FR) (m : Mode) (sg : Int) (e : List Char)
    (gs : List DUnit) (cp : Caps) (hfm : firstMatch durRegexes e = some (gs, cp)) :
    (∃ d, parseBodyQ lim readF m sg e = .ok d) ∨ parseBodyQ lim readF m sg e = .okInf ∨
      parseBodyQ lim readF m sg e = .valueErr := by
  rw [parseBodyQ_of_match lim readF m sg e gs cp hfm]
  cases hcv : convertQ lim readF sg cp gs Acc.zero with
  | error r =>
    have := convertQ_error lim readF sg cp (firstMatch_capI e gs cp hfm) gs _ r hcv
    subst this
    exact Or.inr (Or.inr rfl)
  | ok a =>
    simp only
    split
    · exact Or.inr (Or.inl rfl)
    · exact Or.inl ⟨_, rfl⟩

/-- ... and a text that none of them matches is refused with `ISO8601SyntaxError` unless it starts
    with `P` and has no `-` sign (then the date-time-like reading decides). -/
theorem C09_duration_nomatch_syntax (lim : Nat) (readF : List Char → FR) (m : Mode) (sg : Int) (e : List Char)
    (hfm : firstMatch durRegexes e = none) (h : sg ≠ 1 ∨ ∀ rest, e ≠ 'P' :: rest) :
    parseBodyQ lim readF m sg e = .syntaxErr := by
  by_cases hP : ∃ rest, e = 'P' :: rest
  · obtain ⟨rest, rfl⟩ := hP
    rcases h with h | h
    · rw [parseBodyQ_nomatch_P lim readF m sg rest hfm, if_neg h]
    · exact absurd rfl (h rest)
  · exact parseBodyQ_nomatch_other lim readF m sg e hfm (fun rest he => hP ⟨rest, he⟩)


/-! ## The float laws are satisfiable: a concrete instance with `reprPy` / `pyFloat` -/

/-- A finite domain of binary64 values: zero, eighths, values whose `repr` has the exponent layout
    (`1/32768 = 3.0517578125e-05`, `2^-20`, `10^22`), `2^51 + 1/2`, whole values (`2^53`, `10^15`, `10^16`). -/
def sampleDomain : List Rat :=
  [0, 1/8, 1/4, 3/8, 1/2, 5/8, 3/4, 7/8, 3/2, 9/4, 25/2, 803/8, 1, 5, 24, 59, 60, 90, 3600, 86400,
   1/16, 1/1024, 1/8192, 1/16384, 1/32768, 3/65536, 1/1048576, 123456789/1024, 4503599627370497/2,
   9007199254740992, 1000000000000000, 10000000000000000, 10000000000000000000000]

def floatChB (c : Char) : Bool := isDig c || c == '.' || c == 'e' || c == '-' || c == '+'

theorem floatCh_of_B (c : Char) (h : floatChB c = true) : FloatCh c := by
  simp only [floatChB, Bool.or_eq_true, beq_iff_eq] at h
  rcases h with (((h | h) | h) | h) | h
  · exact Or.inl h
  · exact Or.inr (Or.inl h)
  · exact Or.inr (Or.inr (Or.inl h))
  · exact Or.inr (Or.inr (Or.inr (Or.inl h)))
  · exact Or.inr (Or.inr (Or.inr (Or.inr h)))

def reprShapeB (t : List Char) : Bool :=
  match t with
  | d0 :: body => isDig d0 && body.all floatChB
  | [] => false

/-- The concrete `reprPy` (exact decimal expansion in CPython's layout) and `pyFloat` (CPython's
    `float(str)` grammar + correct rounding), the functions the driver is validated with against
    CPython, satisfy the float laws on `sampleDomain` — by evaluation. -/
theorem floatText_sample : FloatText reprPy pyFloat (· ∈ sampleDomain) := by
  have ha : ∀ q ∈ sampleDomain, pyFloat (reprPy q) = .val q := by decide +kernel
  have hb : ∀ q ∈ sampleDomain, 0 < q → reprShapeB (reprPy q) = true := by decide +kernel
  have hc : ∀ q ∈ sampleDomain, q.den = 1 → 0 ≤ q → pyFloat (natDigits q.num.natAbs) = .val q := by
    decide +kernel
  refine ⟨ha, ?_, ?_⟩
  · intro q hq hpos
    have := hb q hq hpos
    unfold reprShapeB at this
    split at this
    · rename_i d0 body heq
      simp only [Bool.and_eq_true, List.all_eq_true] at this
      exact ⟨d0, body, heq, this.1, fun c hc => floatCh_of_B c (this.2 c hc)⟩
    · cases this
  · intro n hn
    have := hc (n : Rat) hn (Rat.den_natCast n) Rat.natCast_nonneg
    rw [Rat.num_natCast, Int.natAbs_natCast] at this
    exact this


/-! ## Non-vacuity, findings -/

theorem digs_of_all (ds : List Char) (h : ds.all isDig = true) : Digs ds := by
  intro c hc; exact List.all_eq_true.mp h c hc

-- the round trip instantiated on the eighths: -P1Y3DT1,5H0,25M59,875S in the 360-day calendar
example :
    let d := DurationQ.units (-1) 0 (-3) (-3/2) (-1/4) (-479/8)
    toTextQ reprDec d = "-P1Y3DT1,5H0,25M59,875S".toList ∧
      parseQ 4300 pyFloat .d360 (toTextQ reprDec d) = .ok (normalQ d) ∧ normalQ d = d := by
  intro d
  have hs : SingleSignedQ d := Or.inr (by decide +kernel)
  have hD : TimeIn Eighth d :=
    ⟨⟨12, by decide, by decide +kernel⟩, ⟨2, by decide, by decide +kernel⟩, ⟨479, by decide, by decide +kernel⟩⟩
  have hl : strOk 4300 d = true := by decide +kernel
  exact ⟨by decide +kernel, (C10_roundtrip_decimal floatText_eighths 4300 .d360 d hs hD hl).2.1,
    by decide +kernel⟩

-- ... and on the sample with CPython's `repr` layout, week form and whole floats included
example : parseQ 4300 pyFloat .greg (toTextQ reprPy (.units 2 0 0 (803/8) 0 90)) =
      .ok (.units 2 0 0 (803/8) 0 90) ∧
    toTextQ reprPy (.units 2 0 0 (803/8) 0 90) = "P2YT100,375H90S".toList ∧
    parseQ 0 pyFloat .greg (toTextQ reprPy (.weeks (-52))) = .ok (.weeks (-52)) := by
  have h1 := C10_roundtrip_decimal floatText_sample 4300 .greg (.units 2 0 0 (803/8) 0 90)
    (Or.inl (by decide +kernel)) ⟨by decide +kernel, by decide +kernel, by decide +kernel⟩ (by decide +kernel)
  have h2 := C10_roundtrip_decimal floatText_sample 0 .greg (.weeks (-52)) trivial trivial (by decide +kernel)
  exact ⟨h1.2.1.trans (congrArg PRQ.ok (normalQ_nonzero _ (by decide +kernel))), by decide +kernel,
    h2.2.1.trans (congrArg PRQ.ok (normalQ_nonzero _ (by decide +kernel)))⟩

-- what `str` prints in the plain range, on the eighths: P1YT1,5H (fields th = `1,5`, tmi, ts absent)
example : ∃ th tmi ts : TF, th.Good ∧ tmi.Good ∧ ts.Good ∧
    (∀ t ∈ [th, tmi, ts], ∀ a c b, t = .dec a c b → c = true ∧ b ≠ []) ∧
    toTextQ reprDec (.units 1 0 0 (3/2) 0 0) = desig (ofv 1) (ofv 0) (ofv 0)
      (if (3/2 : Rat) = 0 ∧ (0 : Rat) = 0 ∧ (0 : Rat) = 0 then none else some (th.text, tmi.text, ts.text)) :=
  C10_str_decimal_shape floatPlain_eighths 1 0 0 (3/2) 0 0 (by decide) (by decide) (by decide)
    (by decide +kernel) (by decide +kernel) (by decide +kernel) (by decide +kernel)
    ⟨12, by decide, by decide +kernel⟩ ⟨0, by decide, by decide +kernel⟩ ⟨0, by decide, by decide +kernel⟩

/-- **No counter-witness in the exponent range** (the round trip was expected to fail where `repr`
    switches to the exponent layout, below `1e-4`; it does not): `Duration(seconds=2**-15)` prints
    `PT3,0517578125e-05S` — not an ISO 8601 duration text, but the `seconds` group `\d.*` takes it and
    `float("3.0517578125e-05")` reads it back, so `parse(str(d)) == d` and `str` is a fixpoint.
    (Checked against /repo: `Duration(seconds=0.00005)` → `PT5e-05S` → parses back equal.) -/
theorem C10_exponent_range_no_counterexample :
    toTextQ reprPy (.units 0 0 0 0 0 (1/32768)) = "PT3,0517578125e-05S".toList ∧
    parseQ 4300 pyFloat .greg "PT3,0517578125e-05S".toList = .ok (.units 0 0 0 0 0 (1/32768)) ∧
    parseQ 4300 pyFloat .greg "-PT9,5367431640625e-07H".toList = .ok (.units 0 0 0 (-1/1048576) 0 0) := by
  refine ⟨by decide +kernel, by decide +kernel, by decide +kernel⟩

/-- ... as an instance of the general theorem (the laws hold on a domain with exponent layouts). -/
example : parseQ 4300 pyFloat .greg (toTextQ reprPy (.units 0 0 0 0 (-1/1048576) (-1/32768))) =
    .ok (.units 0 0 0 0 (-1/1048576) (-1/32768)) :=
  ((C10_roundtrip_decimal floatText_sample 4300 .greg (.units 0 0 0 0 (-1/1048576) (-1/32768))
    (Or.inr (by decide +kernel)) ⟨by decide +kernel, by decide +kernel, by decide +kernel⟩
    (by decide +kernel)).2.1).trans (congrArg PRQ.ok (normalQ_nonzero _ (by decide +kernel)))

/-- **Counter-witness (interpreter digit limit)**: the round trip for *every* duration is false of
    the code under a default CPython ≥ 3.11: `str(Duration(years=10**4300))` raises `ValueError`
    ("Exceeds the limit (4300 digits) for integer string conversion") inside `__str__`, while
    `10**4299` years still print; with the limit lifted (`lim = 0`) the text is produced.  (Checked
    against /repo under Python 3.12.) -/
theorem C10_str_int_limit_counterexample :
    SingleSignedQ (.units (10 ^ 4300) 0 0 0 0 0) ∧
    toTextQ? 4300 reprPy (.units (10 ^ 4300) 0 0 0 0 0) = none ∧
    (toTextQ? 4300 reprPy (.units (10 ^ 4299) 0 0 0 0 0)).isSome = true ∧
    (toTextQ? 0 reprPy (.units (10 ^ 4300) 0 0 0 0 0)).isSome = true := by
  refine ⟨Or.inl (by decide +kernel), by decide +kernel, by decide +kernel, by decide +kernel⟩

-- comma and point: the same duration, and the same ValueError on a malformed field
example : parseQ 4300 pyFloat .greg "P1DT1,5H0,25M".toList = parseQ 4300 pyFloat .greg "P1DT1.5H0.25M".toList :=
  C10_decimal_comma_point 4300 pyFloat .greg false none none (some ['1']) (some
    ((TF.dec ['1'] true ['5']).text, (TF.dec ['0'] true ['2', '5']).text, none))
    GoodF.none GoodF.none (GoodF.some (digs_of_all _ (by decide)) (by decide))
    ⟨TF.goodA _ ⟨digs_of_all _ (by decide), by decide, digs_of_all _ (by decide)⟩,
     TF.goodA _ ⟨digs_of_all _ (by decide), by decide, digs_of_all _ (by decide)⟩, GoodA.none⟩
example : parseQ 4300 pyFloat .greg "-PT1,5H".toList = .ok (.units 0 0 0 (-3/2) 0 0) ∧
    parseQ 4300 pyFloat .greg "-PT1.5H".toList = .ok (.units 0 0 0 (-3/2) 0 0) ∧
    parseQ 4300 pyFloat .greg "PT1,5,5H".toList = .valueErr ∧
    parseQ 4300 pyFloat .greg "PT1.5.5H".toList = .valueErr := by
  refine ⟨by decide +kernel, by decide +kernel, by decide +kernel, by decide +kernel⟩

-- decimal designators on the eighths: leading / trailing zeros, both decimal signs, a sign
example : parseQ 4300 pyFloat .greg "-P007YT01,50H0.125M".toList =
    .ok (.units (-7) 0 0 (-3/2) (-1/8) 0) := by
  have h := C10_designators_decimal floatDec_eighths 4300 .greg true (some ['0', '0', '7']) none none
    (TF.dec ['0', '1'] true ['5', '0']) (TF.dec ['0'] false ['1', '2', '5']) TF.absent
    (GoodF.some (digs_of_all _ (by decide)) (by decide)) GoodF.none GoodF.none
    (by intro ds e; injection e with e; subst e; exact Or.inr (by decide)) (LimOk.none _) (LimOk.none _)
    ⟨digs_of_all _ (by decide), by decide, digs_of_all _ (by decide)⟩
    ⟨digs_of_all _ (by decide), by decide, digs_of_all _ (by decide)⟩ trivial
    ⟨12, by decide, by decide +kernel⟩ ⟨1, by decide, by decide +kernel⟩ ⟨0, by decide, by decide +kernel⟩
  have e : signedQ true (desig (some ['0', '0', '7']) none none
      (some ((TF.dec ['0', '1'] true ['5', '0']).text, (TF.dec ['0'] false ['1', '2', '5']).text, TF.absent.text))) =
      "-P007YT01,50H0.125M".toList := by decide +kernel
  rw [e] at h
  rw [h]
  decide +kernel

-- C09: garbage, float()'s extensions, overflow, long digit runs (no fuel anywhere)
example : parseQ 4300 pyFloat .greg "PT1H2H".toList = .valueErr ∧
    parseQ 4300 pyFloat .greg "P1Y2M3D4H".toList = .syntaxErr ∧
    parseQ 4300 pyFloat .greg "P1,5D".toList = .syntaxErr ∧
    parseQ 4300 pyFloat .greg "PT1e999H".toList = .okInf ∧
    parseQ 4300 pyFloat .greg "PT1e999H1xM".toList = .valueErr ∧
    parseQ 4300 pyFloat .greg "PT1_0H".toList = .ok (.units 0 0 0 10 0 0) ∧
    parseQ 4300 pyFloat .greg "PT1 H".toList = .ok (.units 0 0 0 1 0 0) ∧
    parseQ 4300 pyFloat .greg "PT1,5S\n".toList = .ok (.units 0 0 0 0 0 (3/2)) := by
  refine ⟨by decide +kernel, by decide +kernel, by decide +kernel, by decide +kernel, by decide +kernel,
    by decide +kernel, by decide +kernel, by decide +kernel⟩
example : parseQ 4300 pyFloat .greg ('P' :: 'T' :: (List.replicate 400 '9' ++ ['H'])) = .okInf ∧
    parseQ 4300 pyFloat .greg ('P' :: 'T' :: (List.replicate 1500 '1' ++ ['S'])) = .okInf ∧
    parseQ 40 pyFloat .greg ('P' :: (List.replicate 40 '9' ++ ['Y'])) = .ok (.units (10 ^ 40 - 1) 0 0 0 0 0) ∧
    parseQ 40 pyFloat .greg ('P' :: (List.replicate 41 '9' ++ ['Y'])) = .valueErr ∧
    parseQ 0 pyFloat .greg ('P' :: (List.replicate 41 '9' ++ ['Y'])) = .ok (.units (10 ^ 41 - 1) 0 0 0 0 0) := by
  refine ⟨by decide +kernel, by decide +kernel, by decide +kernel, by decide +kernel, by decide +kernel⟩
example : (C09_duration_text_total 4300 pyFloat .greg "P0001-02-03T04:05:06,5".toList).2
    (by decide +kernel) = Or.inr ⟨"0001-02-03T04:05:06,5".toList, rfl, by decide +kernel, by decide +kernel⟩ := rfl


end IsoDT.Props.C10b
