/-
  C02 (continued) — the comparison is antisymmetric, a congruence for `==`, and blind to how an
  operand is spelled.

  Corollaries of `cmp_spec` and `toTimeZone_spec`.
-/
import IsoDT.Props.C02

namespace IsoDT.Props.C02
open IsoDT IsoDT.Model IsoDT.Lemmas
open IsoDT.Spec (Date TZ TP)

theorem sgn_neg (x : Int) : sgn (-x) = - sgn x := by
  unfold sgn; by_cases h1 : x < 0 <;> by_cases h2 : x > 0 <;> simp <;> omega

/-- Swapping the operands negates the comparison: `b ? a` is `-(a ? b)`. -/
theorem C02_cmp_antisymm (m : Mode) (a b : TP) (ha : a.Valid m) (hb : b.Valid m) :
    cmp m b a = (cmp m a b).map (fun c => -c) := by
  rw [cmp_spec m b a hb ha, cmp_spec m a b ha hb, Option.map_some, ← sgn_neg]
  congr 2; omega

/-- `==` is a congruence for the comparison: equal operands may replace each other on either
    side of any comparison. -/
theorem C02_cmp_congr (m : Mode) (a a' b b' : TP) (ha : a.Valid m) (ha' : a'.Valid m)
    (hb : b.Valid m) (hb' : b'.Valid m) (ea : eq m a a') (eb : eq m b b') :
    cmp m a b = cmp m a' b' := by
  have i1 := ((C02_operators m a a' ha ha').2.1).mp ea
  have i2 := ((C02_operators m b b' hb hb').2.1).mp eb
  rw [cmp_spec m a b ha hb, cmp_spec m a' b' ha' hb', i1, i2]

/-- Re-zoning either operand to any legal offsets never changes a comparison. -/
theorem C02_cmp_rezone_invariant (m : Mode) (a b : TP) (z1 z2 : TZ) (ha : a.Valid m) (hb : b.Valid m)
    (hz1 : z1.Valid) (hz2 : z2.Valid) :
    ∃ a' b', toTimeZone m a z1 = some a' ∧ toTimeZone m b z2 = some b' ∧ cmp m a' b' = cmp m a b := by
  obtain ⟨a', e1, i1, _, _, v1, _⟩ := toTimeZone_spec m a z1 ha hz1
  obtain ⟨b', e2, i2, _, _, v2, _⟩ := toTimeZone_spec m b z2 hb hz2
  refine ⟨a', b', e1, e2, ?_⟩
  rw [cmp_spec m a' b' v1 v2, cmp_spec m a b ha hb, i1, i2]

/-! ## Non-vacuity -/

example : cmp .greg ⟨.week 2020 53 7, 24, 0, 0, ⟨5, 30⟩⟩ ⟨.cal 2021 1 3, 18, 30, 0, ⟨0, 0⟩⟩ = some 0 ∧
    cmp .greg ⟨.ord 2021 3, 18, 29, 59, ⟨0, 0⟩⟩ ⟨.week 2020 53 7, 24, 0, 0, ⟨5, 30⟩⟩ = some (-1) := by
  decide +kernel

end IsoDT.Props.C02
