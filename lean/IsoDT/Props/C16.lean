/-
  C16 — Time points, durations, zones and recurrences are immutable values.

  `Gen.Effects.table` is regenerated from the AST of `metomi/isodatetime/data.py` on every run:
  one effect-IR method (body, certificate, summary) per method of `TimeRecurrence`, `Duration`,
  `TimeZone`, `TimePoint`, plus entry 0 standing for any client code that uses public methods only
  (`dumpers`, the module-level helpers).  The semantics is `Model.Effects.Sem` (flow-insensitive,
  any call depth).

  * `C16_sem_sound`  — if every method's certificate checks, every call of any depth keeps the
                        promise of its summary;
  * `C16_public`     — a public call produces no write event on, and no state change of, any
                        object that existed before the call;
  * `C16_history`    — by induction over a history of public calls and constructions: every
                        object that existed at any point is unchanged by everything after it;
  * `C16_gen_ok`     — the regenerated table checks (`decide`, kernel evaluation).  This is the
                        obligation that breaks when a method starts writing `self`, stops copying,
                        or calls a mutator on something that is not its own fresh copy.
-/
import IsoDT.Model.Effects
import IsoDT.Gen.Effects

namespace IsoDT.Props.C16
open IsoDT.Model.Effects

/-- Invariant during the execution of method `m` entered on receiver `recv` in world `σ0`. -/
def MInv (m : Method) (recv : Nat) (σ0 : World) (s : St) : Prop :=
  σ0.next ≤ s.w.next ∧
  s.env selfVar = some recv ∧
  (∀ x a, m.isFresh x = true → s.env x = some a → σ0.next ≤ a) ∧
  (∀ x a, m.frs.contains x = true → s.env x = some a → σ0.next ≤ a ∨ a = recv) ∧
  (∃ wn, s.w.written = wn ++ σ0.written ∧
     ∀ a, a ∈ wn → σ0.next ≤ a ∨ (m.sum.writesRecv = true ∧ a = recv)) ∧
  (∀ a, a < σ0.next → ¬ (m.sum.writesRecv = true ∧ a = recv) → s.w.heap a = σ0.heap a)

theorem mine_addr (m : Method) (recv : Nat) (σ0 : World) (s : St) (h : MInv m recv σ0 s)
    (x a : Nat) (hx : m.isMine x = true) (hxa : s.env x = some a) : σ0.next ≤ a ∨ a = recv := by
  obtain ⟨_, hs, hf, hfr, _, _⟩ := h
  simp only [Method.isMine, Bool.or_eq_true, beq_iff_eq] at hx
  rcases hx with (hx | hx) | hx
  · exact Or.inl (hf x a hx hxa)
  · subst hx; rw [hs] at hxa; cases hxa; exact Or.inr rfl
  · exact hfr x a hx hxa

theorem set_self (s : St) (x a : Nat) (hx : ¬ x = selfVar) : (s.set x a).env selfVar = s.env selfVar := by
  have : ¬ selfVar = x := fun h => hx h.symm
  simp [St.set, this]

theorem set_same (s : St) (x a : Nat) : (s.set x a).env x = some a := by simp [St.set]

theorem set_other (s : St) (x z a : Nat) (h : ¬ z = x) : (s.set x a).env z = s.env z := by
  simp [St.set, h]

theorem step_inv (T : Table) (callee) (m : Method) (recv : Nat) (σ0 : World)
    (hcallee : ∀ g a σ σ' r, callee g a σ σ' r → Promise (T g).sum a σ σ' r)
    (st : Stmt) (hok : okStmt T m st = true) (s s' : St)
    (hstep : Step callee st s s') (hinv : MInv m recv σ0 s) : MInv m recv σ0 s' := by
  have hmine := mine_addr m recv σ0 s hinv
  obtain ⟨hn, hs, hf, hfr, hw, hh⟩ := hinv
  cases hstep with
  | new x _ =>
    simp only [okStmt, bne_iff_ne, ne_eq] at hok
    refine ⟨?_, ?_, ?_, ?_, hw, hh⟩
    · show σ0.next ≤ s.w.next + 1
      omega
    · rw [set_self _ _ _ hok]; exact hs
    · intro y a hy hya
      by_cases hxy : y = x
      · subst hxy; rw [set_same] at hya; cases hya; exact hn
      · rw [set_other _ _ _ _ hxy] at hya; exact hf y a hy hya
    · intro y a hy hya
      by_cases hxy : y = x
      · subst hxy; rw [set_same] at hya; cases hya; exact Or.inl hn
      · rw [set_other _ _ _ _ hxy] at hya; exact hfr y a hy hya
  | mov x y _ a hya =>
    simp only [okStmt, Bool.and_eq_true, bne_iff_ne, ne_eq, Bool.or_eq_true,
      Bool.not_eq_true'] at hok
    obtain ⟨⟨hx, hfx⟩, hfrx⟩ := hok
    refine ⟨hn, ?_, ?_, ?_, hw, hh⟩
    · rw [set_self _ _ _ hx]; exact hs
    · intro z b hz hzb
      by_cases hxz : z = x
      · subst hxz; rw [set_same] at hzb; cases hzb
        rcases hfx with h | h
        · rw [hz] at h; cases h
        · exact hf y _ h hya
      · rw [set_other _ _ _ _ hxz] at hzb; exact hf z b hz hzb
    · intro z b hz hzb
      by_cases hxz : z = x
      · subst hxz; rw [set_same] at hzb; cases hzb
        rcases hfrx with h | h
        · rw [hz] at h; cases h
        · exact hmine y _ h hya
      · rw [set_other _ _ _ _ hxz] at hzb; exact hfr z b hz hzb
  | load x y _ a b hya =>
    simp only [okStmt, Bool.and_eq_true, bne_iff_ne, ne_eq, Bool.not_eq_true'] at hok
    obtain ⟨⟨hx, hfx⟩, hfrx⟩ := hok
    refine ⟨hn, ?_, ?_, ?_, hw, hh⟩
    · rw [set_self _ _ _ hx]; exact hs
    · intro z c hz hzc
      by_cases hxz : z = x
      · subst hxz; rw [hfx] at hz; cases hz
      · rw [set_other _ _ _ _ hxz] at hzc; exact hf z c hz hzc
    · intro z c hz hzc
      by_cases hxz : z = x
      · subst hxz; rw [hfrx] at hz; cases hz
      · rw [set_other _ _ _ _ hxz] at hzc; exact hfr z c hz hzc
  | write x _ a v hxa =>
    simp only [okStmt, Bool.or_eq_true, Bool.and_eq_true] at hok
    have haddr : σ0.next ≤ a ∨ (m.sum.writesRecv = true ∧ a = recv) := by
      rcases hok with h | ⟨h1, h2⟩
      · exact Or.inl (hf x a h hxa)
      · rcases hmine x a h1 hxa with h | h
        · exact Or.inl h
        · exact Or.inr ⟨h2, h⟩
    refine ⟨hn, hs, hf, hfr, ?_, ?_⟩
    · obtain ⟨wn, hwn, hall⟩ := hw
      refine ⟨a :: wn, ?_, ?_⟩
      · show a :: s.w.written = a :: wn ++ σ0.written
        rw [hwn]; rfl
      · intro b hb
        simp only [List.mem_cons] at hb
        rcases hb with rfl | hb
        · exact haddr
        · exact hall b hb
    · intro b hb hnr
      show (if b = a then v else s.w.heap b) = σ0.heap b
      have hba : ¬ b = a := by
        intro h; subst h
        rcases haddr with h | h
        · omega
        · exact hnr h
      simp only [hba, if_false]
      exact hh b hb hnr
  | call x g rv args _ a σ' r hra hc =>
    simp only [okStmt, Bool.and_eq_true, bne_iff_ne, ne_eq, Bool.or_eq_true, Bool.not_eq_true',
      beq_iff_eq] at hok
    obtain ⟨⟨⟨hx, hwr⟩, hret⟩, hretfrs⟩ := hok
    obtain ⟨pn, ⟨wn', hwn', hall'⟩, ph, pr⟩ := hcallee g a s.w σ' r hc
    -- where a declared mutator may write: an object of this call, or our receiver if we are one
    have hrecv : (T g).sum.writesRecv = true →
        σ0.next ≤ a ∨ (m.sum.writesRecv = true ∧ a = recv) := by
      intro hg
      rcases hwr with (h | h) | ⟨h1, h2⟩
      · rw [hg] at h; cases h
      · exact Or.inl (hf rv a h hra)
      · rcases hmine rv a h1 hra with h | h
        · exact Or.inl h
        · exact Or.inr ⟨h2, h⟩
    refine ⟨?_, ?_, ?_, ?_, ?_, ?_⟩
    · show σ0.next ≤ σ'.next
      omega
    · rw [set_self _ _ _ hx]; exact hs
    · intro z b hz hzb
      by_cases hxz : z = x
      · subst hxz; rw [set_same] at hzb; cases hzb
        rcases hret with (h | h) | ⟨h1, h2⟩
        · rw [hz] at h; cases h
        · rw [h] at pr; simp only [retOk] at pr; omega
        · rw [h1] at pr; simp only [retOk] at pr
          rcases pr with pr | pr
          · omega
          · subst pr; exact hf rv _ h2 hra
      · rw [set_other _ _ _ _ hxz] at hzb; exact hf z b hz hzb
    · intro z b hz hzb
      by_cases hxz : z = x
      · subst hxz; rw [set_same] at hzb; cases hzb
        rcases hretfrs with (h | h) | ⟨h1, h2⟩
        · rw [hz] at h; cases h
        · rw [h] at pr; simp only [retOk] at pr; exact Or.inl (by omega)
        · rw [h1] at pr; simp only [retOk] at pr
          rcases pr with pr | pr
          · exact Or.inl (by omega)
          · subst pr; exact hmine rv _ h2 hra
      · rw [set_other _ _ _ _ hxz] at hzb; exact hfr z b hz hzb
    · obtain ⟨wn, hwn, hall⟩ := hw
      refine ⟨wn' ++ wn, ?_, ?_⟩
      · show σ'.written = wn' ++ wn ++ σ0.written
        rw [hwn', hwn, List.append_assoc]
      · intro b hb
        simp only [List.mem_append] at hb
        rcases hb with hb | hb
        · rcases hall' b hb with h | ⟨h1, h2⟩
          · exact Or.inl (by omega)
          · subst h2; exact hrecv h1
        · exact hall b hb
    · intro b hb hnr
      show σ'.heap b = σ0.heap b
      rw [ph b (by omega) ?_]
      · exact hh b hb hnr
      · intro ⟨h1, h2⟩
        subst h2
        rcases hrecv h1 with h | h
        · omega
        · exact hnr h
  | ret x _ => exact ⟨hn, hs, hf, hfr, hw, hh⟩

theorem steps_inv (T : Table) (callee) (m : Method) (recv : Nat) (σ0 : World)
    (hcallee : ∀ g a σ σ' r, callee g a σ σ' r → Promise (T g).sum a σ σ' r)
    (hok : ∀ st, st ∈ m.body → okStmt T m st = true) (s s' : St)
    (h : Steps callee m.body s s') (hinv : MInv m recv σ0 s) : MInv m recv σ0 s' := by
  induction h with
  | nil => exact hinv
  | cons st s1 s2 s3 hmem hstep _ ih =>
    exact ih (step_inv T callee m recv σ0 hcallee st (hok st hmem) s1 s2 hstep hinv)

/-- **C16 (soundness of the effect discipline)**: if every method's certificate checks, every call
    — of any depth, along any path through the bodies — keeps the promise of its summary. -/
theorem C16_sem_sound (T : Table) (hT : ∀ g, okMethod T (T g) = true) :
    ∀ d g recv σ σ' r, Sem T d g recv σ σ' r → Promise (T g).sum recv σ σ' r := by
  intro d
  induction d with
  | zero => intro g recv σ σ' r h; exact absurd h (by simp [Sem])
  | succ d ih =>
    intro g recv σ σ' r h
    obtain ⟨env0, s', x, ⟨hself, hpar⟩, hsteps, hret, hx, hσ'⟩ := h
    have hok := hT g
    simp only [okMethod, Bool.and_eq_true, List.all_eq_true, Bool.not_eq_true', bne_iff_ne,
      ne_eq] at hok
    obtain ⟨⟨⟨hbody, hselfnf⟩, hparams⟩, _⟩ := hok
    have hinit : MInv (T g) recv σ ⟨env0, σ⟩ := by
      refine ⟨Nat.le_refl _, hself, ?_, ?_, ⟨[], rfl, fun a ha => by cases ha⟩, fun _ _ _ => rfl⟩
      · intro y a hy hya
        have hya' : env0 y = some a := hya
        by_cases hy0 : y = selfVar
        · subst hy0; rw [hselfnf] at hy; cases hy
        · have := hparams y (hpar y hy0 (by rw [hya']; simp))
          rw [this.1.2] at hy; cases hy
      · intro y a hy hya
        have hya' : env0 y = some a := hya
        by_cases hy0 : y = selfVar
        · subst hy0; rw [hself] at hya'; cases hya'; exact Or.inr rfl
        · have := hparams y (hpar y hy0 (by rw [hya']; simp))
          rw [this.2] at hy; cases hy
    have hfin := steps_inv T (Sem T d) (T g) recv σ ih hbody _ _ hsteps hinit
    have hmine := mine_addr (T g) recv σ s' hfin
    obtain ⟨hn, hs, hf, hfr, hw, hh⟩ := hfin
    subst hσ'
    refine ⟨hn, hw, hh, ?_⟩
    have hr := hbody _ hret
    simp only [okStmt] at hr
    cases hk : (T g).sum.ret with
    | fresh => rw [hk] at hr; simp only at hr; simp only [retOk]; exact hf x r hr hx
    | freshOrRecv => rw [hk] at hr; simp only at hr; simp only [retOk]; exact hmine x r hr hx
    | any => simp only [retOk]

/-- A table that passes `allOk` satisfies the hypothesis of `C16_sem_sound`. -/
theorem allOk_all (ms : List Method) (h : allOk ms = true) :
    ∀ g, okMethod (tableOf ms) (tableOf ms g) = true := by
  intro g
  simp only [allOk, List.all_eq_true] at h
  show okMethod (tableOf ms) (ms.getD g Method.empty) = true
  rw [List.getD_eq_getElem?_getD]
  cases hg : ms[g]? with
  | none => rfl
  | some m => exact h m (List.mem_of_getElem? hg)

theorem allOk_pub (ms : List Method) (h : allOk ms = true) (g : Nat)
    (hpub : (tableOf ms g).pub = true) : (tableOf ms g).sum.writesRecv = false := by
  have := allOk_all ms h g
  simp only [okMethod, Bool.and_eq_true, Bool.or_eq_true, Bool.not_eq_true'] at this
  rcases this.2 with h1 | h1
  · rw [hpub] at h1; cases h1
  · exact h1

/-- **C16 (one public operation)**: a public call produces no write event on any object that
    existed before the call, and leaves the state of every such object as it was. -/
theorem C16_public (ms : List Method) (hT : allOk ms = true)
    (g : Nat) (hpub : (tableOf ms g).pub = true)
    (d recv : Nat) (σ σ' : World) (r : Nat) (h : Sem (tableOf ms) d g recv σ σ' r) :
    σ.next ≤ σ'.next ∧
    (∃ wn, σ'.written = wn ++ σ.written ∧ ∀ a, a ∈ wn → σ.next ≤ a) ∧
    (∀ a, a < σ.next → σ'.heap a = σ.heap a) := by
  have hnw := allOk_pub ms hT g hpub
  obtain ⟨pn, ⟨wn, hwn, hall⟩, ph, _⟩ :=
    C16_sem_sound (tableOf ms) (allOk_all ms hT) d g recv σ σ' r h
  refine ⟨pn, ⟨wn, hwn, ?_⟩, ?_⟩
  · intro a ha
    rcases hall a ha with h1 | ⟨h1, _⟩
    · exact h1
    · rw [hnw] at h1; cases h1
  · intro a ha
    exact ph a ha (by rw [hnw]; intro ⟨h1, _⟩; cases h1)

/-- Constructing a value (allocate, then run any method of the table — `__init__` — on the new
    object) does not touch any object that existed before either. -/
theorem C16_construct (ms : List Method) (hT : allOk ms = true)
    (g d : Nat) (σ σ' : World) (r : Nat)
    (h : Sem (tableOf ms) d g σ.next { σ with next := σ.next + 1 } σ' r) :
    σ.next ≤ σ'.next ∧
    (∃ wn, σ'.written = wn ++ σ.written ∧ ∀ a, a ∈ wn → σ.next ≤ a) ∧
    (∀ a, a < σ.next → σ'.heap a = σ.heap a) := by
  obtain ⟨pn, ⟨wn, hwn, hall⟩, ph, _⟩ :=
    C16_sem_sound (tableOf ms) (allOk_all ms hT) d g σ.next _ σ' r h
  simp only at pn hwn hall ph
  refine ⟨by omega, ⟨wn, hwn, ?_⟩, ?_⟩
  · intro a ha
    rcases hall a ha with h1 | ⟨_, h1⟩ <;> omega
  · intro a ha
    exact ph a (by omega) (by intro ⟨_, h1⟩; omega)

/-- **C16 (histories)**: after any sequence of public operations and constructions, every object
    that existed at the start has received no write event and has its state unchanged. -/
theorem C16_history (ms : List Method) (hT : allOk ms = true)
    (ops : List Op) (σ σ' : World) (h : Hist (tableOf ms) ops σ σ') :
    σ.next ≤ σ'.next ∧
    (∃ wn, σ'.written = wn ++ σ.written ∧ ∀ a, a ∈ wn → σ.next ≤ a) ∧
    (∀ a, a < σ.next → σ'.heap a = σ.heap a) := by
  induction h with
  | nil σ => exact ⟨Nat.le_refl _, ⟨[], rfl, fun a ha => by cases ha⟩, fun _ _ => rfl⟩
  | call g recv d σ σ1 σ2 r rest hpub hsem _ ih =>
    obtain ⟨n1, ⟨w1, hw1, ha1⟩, h1⟩ := C16_public ms hT g hpub d recv σ σ1 r hsem
    obtain ⟨n2, ⟨w2, hw2, ha2⟩, h2⟩ := ih
    refine ⟨by omega, ⟨w2 ++ w1, by rw [hw2, hw1, List.append_assoc], ?_⟩, ?_⟩
    · intro a ha
      simp only [List.mem_append] at ha
      rcases ha with ha | ha
      · have := ha2 a ha; omega
      · exact ha1 a ha
    · intro a ha
      rw [h2 a (by omega), h1 a ha]
  | construct g d σ σ1 σ2 r rest hsem _ ih =>
    obtain ⟨n1, ⟨w1, hw1, ha1⟩, h1⟩ := C16_construct ms hT g d σ σ1 r hsem
    obtain ⟨n2, ⟨w2, hw2, ha2⟩, h2⟩ := ih
    refine ⟨by omega, ⟨w2 ++ w1, by rw [hw2, hw1, List.append_assoc], ?_⟩, ?_⟩
    · intro a ha
      simp only [List.mem_append] at ha
      rcases ha with ha | ha
      · have := ha2 a ha; omega
      · exact ha1 a ha
    · intro a ha
      rw [h2 a (by omega), h1 a ha]

theorem hist_split (T : Table) (ops1 ops2 : List Op) (σ σ' : World)
    (h : Hist T (ops1 ++ ops2) σ σ') : ∃ σm, Hist T ops1 σ σm ∧ Hist T ops2 σm σ' := by
  induction ops1 generalizing σ with
  | nil => exact ⟨σ, Hist.nil σ, h⟩
  | cons op rest ih =>
    cases h with
    | call g recv d _ σ1 _ r _ hpub hsem hrest =>
      obtain ⟨σm, h1, h2⟩ := ih σ1 hrest
      exact ⟨σm, Hist.call g recv d σ σ1 σm r rest hpub hsem h1, h2⟩
    | construct g d _ σ1 _ r _ hsem hrest =>
      obtain ⟨σm, h1, h2⟩ := ih σ1 hrest
      exact ⟨σm, Hist.construct g d σ σ1 σm r rest hsem h1, h2⟩

/-- **C16 (every earlier value, re-inspected after every later step)**: split a history anywhere;
    every object that existed at the split point — operands and all previously returned values —
    has the same state at the end, and none of the later write events is on it. -/
theorem C16_history_every_earlier_value (ms : List Method) (hT : allOk ms = true)
    (before after : List Op) (σ σ' : World) (h : Hist (tableOf ms) (before ++ after) σ σ') :
    ∃ σm, Hist (tableOf ms) before σ σm ∧ Hist (tableOf ms) after σm σ' ∧
      (∀ a, a < σm.next → σ'.heap a = σm.heap a) ∧
      (∃ wn, σ'.written = wn ++ σm.written ∧ ∀ a, a ∈ wn → σm.next ≤ a) := by
  obtain ⟨σm, h1, h2⟩ := hist_split (tableOf ms) before after σ σ' h
  obtain ⟨_, hw, hh⟩ := C16_history ms hT after σm σ' h2
  exact ⟨σm, h1, h2, hh, hw⟩

/-- **C16 (the tie to the source)**: the table regenerated from `data.py` checks — every body
    against the summaries of its callees, and no public method writes its receiver. -/
theorem C16_gen_ok : allOk IsoDT.Gen.Effects.table = true := by decide +kernel

/-- The three statements above for the methods of `data.py` as they are now. -/
theorem C16_data_py_history (ops : List Op) (σ σ' : World)
    (h : Hist (tableOf IsoDT.Gen.Effects.table) ops σ σ') :
    ∀ a, a < σ.next → σ'.heap a = σ.heap a :=
  (C16_history _ C16_gen_ok ops σ σ' h).2.2

/-! ### Non-vacuity: the semantics is inhabited, and the check does reject mutation. -/

/-- 0: `_copy` (allocates, writes the copy, returns it); 1: `_tick` (private, writes `self`);
    2: `add` (public: copy, tick the copy, return it). -/
def demo : List Method := [
  ⟨"_copy", false, [], [.new 1, .write 1, .ret 1], [1], [], ⟨false, .fresh⟩⟩,
  ⟨"_tick", false, [], [.write 0, .new 1, .ret 1], [1], [], ⟨true, .fresh⟩⟩,
  ⟨"add", true, [1], [.call 2 0 0 [], .call 3 1 2 [], .ret 2], [2, 3], [], ⟨false, .fresh⟩⟩]

example : allOk demo = true := by decide

/-- `add` really runs in the semantics: on receiver 5 with allocation pointer 10 it allocates 10
    (the copy, written twice) and 11, and returns 10. -/
example : ∃ σ', Sem (tableOf demo) 2 2 5 ⟨10, [], fun _ => 0⟩ σ' 10 ∧ σ'.written = [10, 10] := by
  let h0 : Nat → Nat := fun _ => 0
  let w1 : World := ⟨11, [10], fun b => if b = 10 then 1 else h0 b⟩
  let w2 : World := ⟨12, [10, 10], fun b => if b = 10 then 2 else w1.heap b⟩
  let selfOnly (a : Nat) : Nat → Option Nat := fun v => if v = 0 then some a else none
  have hpar : ∀ a, ∀ x, x ≠ selfVar → selfOnly a x ≠ none → x ∈ ([] : List Nat) := by
    intro a x hx hne; simp [selfOnly, selfVar] at hne hx; exact absurd hne hx
  have copy : Sem (tableOf demo) 1 0 5 ⟨10, [], h0⟩ w1 10 := by
    let s0 : St := ⟨selfOnly 5, ⟨10, [], h0⟩⟩
    let s1 : St := ⟨fun v => if v = 1 then some 10 else selfOnly 5 v, ⟨11, [], h0⟩⟩
    let s2 : St := ⟨s1.env, w1⟩
    have st1 : Step (Sem (tableOf demo) 0) (.new 1) s0 s1 := Step.new 1 s0
    have st2 : Step (Sem (tableOf demo) 0) (.write 1) s1 s2 := Step.write 1 s1 10 1 rfl
    exact ⟨selfOnly 5, s2, 1, ⟨rfl, hpar 5⟩,
      Steps.cons _ _ _ _ (by decide) st1 (Steps.cons _ _ _ _ (by decide) st2 (Steps.nil _)),
      by decide, rfl, rfl⟩
  have tick : Sem (tableOf demo) 1 1 10 w1 w2 11 := by
    let s0 : St := ⟨selfOnly 10, w1⟩
    let s1 : St := ⟨selfOnly 10, ⟨11, [10, 10], fun b => if b = 10 then 2 else w1.heap b⟩⟩
    let s2 : St := ⟨fun v => if v = 1 then some 11 else selfOnly 10 v, w2⟩
    have st1 : Step (Sem (tableOf demo) 0) (.write 0) s0 s1 := Step.write 0 s0 10 2 rfl
    have st2 : Step (Sem (tableOf demo) 0) (.new 1) s1 s2 := Step.new 1 s1
    exact ⟨selfOnly 10, s2, 1, ⟨rfl, hpar 10⟩,
      Steps.cons _ _ _ _ (by decide) st1 (Steps.cons _ _ _ _ (by decide) st2 (Steps.nil _)),
      by decide, rfl, rfl⟩
  let s0 : St := ⟨selfOnly 5, ⟨10, [], h0⟩⟩
  let s1 : St := ⟨fun v => if v = 2 then some 10 else selfOnly 5 v, w1⟩
  let s2 : St := ⟨fun v => if v = 3 then some 11 else s1.env v, w2⟩
  have st1 : Step (Sem (tableOf demo) 1) (.call 2 0 0 []) s0 s1 :=
    Step.call 2 0 0 [] s0 5 w1 10 rfl copy
  have st2 : Step (Sem (tableOf demo) 1) (.call 3 1 2 []) s1 s2 :=
    Step.call 3 1 2 [] s1 10 w2 11 rfl tick
  refine ⟨w2, ⟨selfOnly 5, s2, 2, ⟨rfl, ?_⟩, ?_, by decide, rfl, rfl⟩, rfl⟩
  · intro x hx hne
    have : x = 1 := by
      simp [selfOnly, selfVar] at hne hx; exact absurd hne hx
    subst this; decide
  · exact Steps.cons _ _ _ _ (by decide) st1 (Steps.cons _ _ _ _ (by decide) st2 (Steps.nil _))

/-- "modify, then return self": the public method ticks its receiver instead of a copy. -/
def mutant1 : List Method :=
  demo.set 2 ⟨"add", true, [1], [.call 3 1 0 [], .ret 0], [3], [], ⟨true, .freshOrRecv⟩⟩
example : allOk mutant1 = false := by decide

/-- `_copy` stops copying (returns `self`): `add` then ticks something it cannot certify fresh. -/
def mutant2 : List Method :=
  demo.set 0 ⟨"_copy", false, [], [.ret 0], [], [], ⟨false, .freshOrRecv⟩⟩
example : allOk mutant2 = false := by decide

/-- writing through a loaded sub-object (`p._time_zone._hours = …`) is never certifiable. -/
def mutant3 : List Method :=
  demo.set 2 ⟨"add", true, [1], [.call 2 0 0 [], .load 3 2, .write 3, .ret 2], [2], [], ⟨false, .fresh⟩⟩
example : allOk mutant3 = false := by decide

end IsoDT.Props.C16
