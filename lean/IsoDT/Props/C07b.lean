/-
  C07 (value half) — the groups of every documented non-truncated form decode to exactly the spelled
  field values, with the documented defaults.

  `Props/C07` proves the REGEX half: `get_info` on a rendered `date T time zone` (or a date alone)
  returns exactly the rendered groups.  Here the groups are the ones a `Vals` assignment of field
  VALUES spells (`envOf`), and `parse` of the rendered text is shown to be the constructor applied to
  the keyword arguments the documented semantics prescribes (`argsOf`, `zoneOf`), which in turn is the
  point `pointOf` with every omitted lower-order field at the start of its period — for every complete
  and reduced, basic and extended, calendar / ordinal / week date form, every `hh`, `hhmm`, `hhmmss`
  form with or without a decimal fraction, every zone form, of every regenerated table.  The
  specification (`Vals`, `envOf`, `argsOf`, `zoneOf`, `pointOf`) lives in `Lemmas/TextDecodeAll` and
  does not mention `assemble` / `ctor`.
-/
import IsoDT.Props.C07
import IsoDT.Lemmas.TextDecodeAll

namespace IsoDT.Props.C07
open IsoDT IsoDT.Text IsoDT.Model
open _root_.IsoDT.Gen.Templates (timeDesignator dateTypeOrder parserTables)

/-! ## The tables pass the shape checks -/

/-- Every non-truncated date form is made of literals, sign groups and digit groups of the documented
    widths, has a century group and one of the six documented date patterns; every non-truncated time
    form likewise with one of the documented time patterns; every zone form is `Z` or has an hour. -/
def decodeOK (pt : ParserTables) : Bool :=
  pt.dateEntries.all (fun e => e.typ == .truncated ||
    (e.tmpl.all (itemOK pt.ned) && hasGroup e.tmpl .century && dateShapeOK e.tmpl)) &&
  pt.timeEntries.all (fun e => e.typ == .truncated ||
    (e.tmpl.all (itemOK pt.ned) && timeShapeOK e.tmpl)) &&
  pt.zoneEntries.all (fun e => zoneOK pt.ned e.tmpl)

set_option maxRecDepth 100000 in
theorem C07_decode_tables : parserTables.all decodeOK = true := by decide +kernel

structure DecodeFacts (pt : ParserTables) : Prop where
  dates : ∀ e ∈ pt.dateEntries, e.typ ≠ .truncated →
    e.tmpl.all (itemOK pt.ned) = true ∧ hasGroup e.tmpl .century = true ∧ dateShapeOK e.tmpl = true
  times : ∀ e ∈ pt.timeEntries, e.typ ≠ .truncated →
    e.tmpl.all (itemOK pt.ned) = true ∧ timeShapeOK e.tmpl = true
  zones : ∀ e ∈ pt.zoneEntries, zoneOK pt.ned e.tmpl = true

theorem decodeFacts (pt : ParserTables) (h : pt ∈ parserTables) : DecodeFacts pt := by
  have hk := List.all_eq_true.mp C07_decode_tables pt h
  simp only [decodeOK, Bool.and_eq_true, List.all_eq_true, Bool.or_eq_true, beq_iff_eq] at hk
  obtain ⟨⟨h1, h2⟩, h3⟩ := hk
  refine ⟨fun e he hn => ?_, fun e he hn => ?_, h3⟩
  · rcases h1 e he with h | h
    · exact absurd h hn
    · exact ⟨List.all_eq_true.mpr h.1.1, h.1.2, h.2⟩
  · rcases h2 e he with h | h
    · exact absurd h hn
    · exact ⟨List.all_eq_true.mpr h.1, h.2⟩

/-- The rendered zone text: nothing, or the zone form's rendering of the zone values. -/
def zoneText (zo : Option ZEntry) (v : Vals) : List Char :=
  match zo with
  | none => []
  | some ze => trender ze.tmpl (envOf ze.tmpl v)

theorem decodable_of (ned : Nat) (de te : Template) (h1 : de.all (itemOK ned) = true)
    (h2 : te.all (itemOK ned) = true) (h3 : hasGroup de .century = true)
    (hx : ned = 0 → hasGroup de .expandedYear = false) : decodable ned de te = true := by
  simp only [decodable, h1, h2, h3, Bool.and_self, Bool.true_and, Bool.or_eq_true, bne_iff_ne, ne_eq,
    Bool.not_eq_true']
  by_cases h0 : ned = 0
  · exact Or.inr (hx h0)
  · exact Or.inl h0

/-! ## The property -/

/-- The time part of a documented non-truncated text: no time at all (a date alone), or the regular
    expression of a listed non-truncated time form. -/
def NonTruncTime (pt : ParserTables) (te : Template) : Prop :=
  te = [] ∨ ∃ e ∈ pt.timeEntries, e.typ ≠ .truncated ∧ e.tmpl = te

/-- **C07 (field assembly)**: `_create_timepoint_from_info` on the groups a non-truncated date form and
    a non-truncated time form (or none) spell assembles exactly the prescribed keyword arguments
    `argsOf` — for every listed form of every regenerated table, the signed forms provided the
    configuration has expanded digits (`assemble_envOf` with its side condition discharged over the
    tables). -/
theorem C07_assemble (cfg : Cfg) (hpt : cfg.pt ∈ parserTables)
    (de : Entry) (hde : de ∈ cfg.pt.dateEntries) (hnt : de.typ ≠ .truncated)
    (hx : cfg.pt.ned = 0 → hasGroup de.tmpl .expandedYear = false)
    (te : Template) (hte : NonTruncTime cfg.pt te)
    (zone : ZoneInfo) (expr : List Char) (v : Vals) (hv : v.Fit cfg.pt.ned) :
    assemble cfg ⟨envOf de.tmpl v, false, envOf te v, zone, expr⟩ none =
      some (argsOf cfg de.tmpl te zone v) := by
  have df := decodeFacts cfg.pt hpt
  obtain ⟨hdi, hdcc, _⟩ := df.dates de hde hnt
  have hti : te.all (itemOK cfg.pt.ned) = true := by
    rcases hte with rfl | ⟨e, he, hn, rfl⟩
    · rfl
    · exact (df.times e he hn).1
  exact assemble_envOf cfg de.tmpl te zone expr v (decodable_of _ _ _ hdi hti hdcc hx) hv

/-- **C07 (decode)**: for every regenerated configuration, every COMPLETE date form (basic or extended;
    calendar, ordinal or week; with or without sign and expanded year digits — provided the
    configuration has expanded digits at all when the form has the group), every non-truncated time
    form of the same format (`hh`, `hhmm`, `hhmmss`, each with or without a decimal fraction, comma or
    point), every zone form of that format or none, and every assignment of values that fit the group
    widths: parsing the text the forms spell for these values is the constructor applied to exactly
    the spelled fields — year `±(10000·X + 100·CC + YY)`, each field present iff its group is, the
    fraction attached to its unit, the zone as `zoneOf` says (`Z` = `+00:00`; `±hh` without minutes;
    no zone: the parser's configuration). -/
theorem C07_decode (cfg : Cfg) (hpt : cfg.pt ∈ parserTables)
    (de : Entry) (hde : de ∈ cfg.pt.dateEntries) (hdc : de.typ = .complete)
    (hx : cfg.pt.ned = 0 → hasGroup de.tmpl .expandedYear = false)
    (te : Entry) (hte : te ∈ cfg.pt.timeEntries) (htt : te.typ ≠ .truncated) (htf : te.fmt = de.fmt)
    (zo : Option ZEntry) (hzo : ∀ ze, zo = some ze → ze ∈ cfg.pt.zoneEntries ∧ ze.fmt = de.fmt)
    (v : Vals) (hv : v.Fit cfg.pt.ned) :
    parse cfg (trender de.tmpl (envOf de.tmpl v) ++
        'T' :: (trender te.tmpl (envOf te.tmpl v) ++ zoneText zo v)) false =
      ctor cfg.mode (argsOf cfg de.tmpl te.tmpl (zoneOf cfg.zone (zo.map (·.tmpl)) v) v) := by
  have tf := tableFacts cfg.pt hpt
  have df := decodeFacts cfg.pt hpt
  obtain ⟨hdi, hdcc, _⟩ := df.dates de hde (by rw [hdc]; decide)
  obtain ⟨hti, _⟩ := df.times te hte htt
  have hfd := fits_envOf cfg.pt.ned de.tmpl (tf.dates de hde).1 hdi v hv
  have hft := fits_envOf cfg.pt.ned te.tmpl (tf.times te hte).1 hti v hv
  have key := C07_groups cfg hpt de hde hdc te hte htt htf (zo.map fun ze => (ze, envOf ze.tmpl v))
    (by
      intro ze zenv h
      cases zo with
      | none => cases h
      | some z =>
        simp only [Option.map_some, Option.some.injEq, Prod.mk.injEq] at h
        obtain ⟨rfl, rfl⟩ := h
        obtain ⟨h1, h2⟩ := hzo z rfl
        have hz := df.zones z h1
        simp only [zoneOK, Bool.and_eq_true] at hz
        exact ⟨h1, h2, fits_envOf cfg.pt.ned z.tmpl (tf.zones z h1).1 hz.1 v hv⟩)
    (envOf de.tmpl v) (envOf te.tmpl v) hfd hft
  have hzone : processZone cfg.zone (zoneEnvOf (zo.map fun ze => (ze, envOf ze.tmpl v))) =
      some (zoneOf cfg.zone (zo.map (·.tmpl)) v) := by
    cases zo with
    | none => exact processZone_none cfg.zone v
    | some z => exact processZone_envOf cfg.pt.ned cfg.zone z.tmpl (df.zones z (hzo z rfl).1) v hv
  have htext : zoneTextOf (zo.map fun ze => (ze, envOf ze.tmpl v)) = zoneText zo v := by
    cases zo <;> rfl
  rw [hzone, htext] at key
  unfold parse
  rw [show ('T' : Char) = timeDesignator from rfl, key]
  simp only [Option.map_some, Bool.false_eq_true, if_false]
  rw [assemble_envOf cfg de.tmpl te.tmpl _ _ v (decodable_of _ _ _ hdi hti hdcc hx) hv]

/-- **C07 (decode, date alone)**: likewise for a text that is one date form, complete or reduced
    (`CCYY-MM`, `CCYY`, `CC`, `CCYYWww`, `CCYY-Www` and their signed expanded variants), not the later
    form of a documented overlap: there is no time group at all, and the missing zone is resolved by the
    parser's configuration (`zoneOf cfg.zone none`: the assumed zone, the local zone, or unknown). -/
theorem C07_decode_date (cfg : Cfg) (hpt : cfg.pt ∈ parserTables) (de : Entry)
    (hmem : de ∈ dateOrder cfg.pt (dateTypes cfg.allowTruncated [])) (hnt : de.typ ≠ .truncated)
    (hl : cfg.allowTruncated = false ∨ isLoser cfg.pt.ned de = false)
    (hx : cfg.pt.ned = 0 → hasGroup de.tmpl .expandedYear = false)
    (v : Vals) (hv : v.Fit cfg.pt.ned) :
    parse cfg (trender de.tmpl (envOf de.tmpl v)) false =
      ctor cfg.mode (argsOf cfg de.tmpl [] (zoneOf cfg.zone none v) v) := by
  have tf := tableFacts cfg.pt hpt
  have df := decodeFacts cfg.pt hpt
  have hde := dateOrder_sub _ _ de hmem
  obtain ⟨hdi, hdcc, _⟩ := df.dates de hde hnt
  have hfd := fits_envOf cfg.pt.ned de.tmpl (tf.dates de hde).1 hdi v hv
  have key := C07_groups_date cfg hpt de hmem hl (envOf de.tmpl v) hfd
  have htr : Env.has (envOf de.tmpl v) .truncated = false := by
    rw [has_envOf]; exact hasGroup_unclassed _ _ hdi _ rfl rfl rfl (by decide)
  rw [processZone_none cfg.zone v, htr] at key
  have ha := assemble_envOf cfg de.tmpl [] (zoneOf cfg.zone none v) de.expr v
    (decodable_of _ _ _ hdi rfl hdcc hx) hv
  rw [show envOf [] v = [] from rfl] at ha
  unfold parse
  rw [key]
  simp only [Option.map_some, Bool.false_eq_true, if_false]
  rw [ha]

/-- **C07 (signed years without expanded digits — the documented form that never decodes)**: a
    configuration with `num_expanded_year_digits = 0` still lists the `±XCCYY…` forms, with an EMPTY
    expanded-year group; a text of such a form is matched, and then `int('')` fails: the parse is an
    error for every assignment of values.  (So "signed expanded years" of C07 holds exactly for the
    configurations that agree on at least one expanded digit — the hypothesis `hx` above.) -/
theorem C07_decode_no_expanded_digits (cfg : Cfg) (hpt : cfg.pt ∈ parserTables) (h0 : cfg.pt.ned = 0)
    (de : Entry) (hde : de ∈ cfg.pt.dateEntries) (hdc : de.typ = .complete)
    (hX : hasGroup de.tmpl .expandedYear = true)
    (te : Entry) (hte : te ∈ cfg.pt.timeEntries) (htt : te.typ ≠ .truncated) (htf : te.fmt = de.fmt)
    (zo : Option ZEntry) (hzo : ∀ ze, zo = some ze → ze ∈ cfg.pt.zoneEntries ∧ ze.fmt = de.fmt)
    (v : Vals) (hv : v.Fit cfg.pt.ned) (asParsed : Bool) :
    parse cfg (trender de.tmpl (envOf de.tmpl v) ++
        'T' :: (trender te.tmpl (envOf te.tmpl v) ++ zoneText zo v)) asParsed = none := by
  have tf := tableFacts cfg.pt hpt
  have df := decodeFacts cfg.pt hpt
  obtain ⟨hdi, hdcc, _⟩ := df.dates de hde (by rw [hdc]; decide)
  obtain ⟨hti, _⟩ := df.times te hte htt
  have hfd := fits_envOf cfg.pt.ned de.tmpl (tf.dates de hde).1 hdi v hv
  have hft := fits_envOf cfg.pt.ned te.tmpl (tf.times te hte).1 hti v hv
  have key := C07_groups cfg hpt de hde hdc te hte htt htf (zo.map fun ze => (ze, envOf ze.tmpl v))
    (by
      intro ze zenv h
      cases zo with
      | none => cases h
      | some z =>
        simp only [Option.map_some, Option.some.injEq, Prod.mk.injEq] at h
        obtain ⟨rfl, rfl⟩ := h
        obtain ⟨h1, h2⟩ := hzo z rfl
        have hz := df.zones z h1
        simp only [zoneOK, Bool.and_eq_true] at hz
        exact ⟨h1, h2, fits_envOf cfg.pt.ned z.tmpl (tf.zones z h1).1 hz.1 v hv⟩)
    (envOf de.tmpl v) (envOf te.tmpl v) hfd hft
  have htext : zoneTextOf (zo.map fun ze => (ze, envOf ze.tmpl v)) = zoneText zo v := by
    cases zo <;> rfl
  rw [htext] at key
  unfold parse
  rw [show ('T' : Char) = timeDesignator from rfl, key]
  cases processZone cfg.zone (zoneEnvOf (zo.map fun ze => (ze, envOf ze.tmpl v))) with
  | none => rfl
  | some z =>
    simp only [Option.map_some]
    rw [assemble_envOf_width0 cfg de.tmpl _ _ _ _ v _ hdi h0 hX]

/-! ## The constructor on the decoded arguments: defaults and acceptance -/

theorem shapes_of (pt : ParserTables) (hpt : pt ∈ parserTables) (de : Entry) (hde : de ∈ pt.dateEntries)
    (hnt : de.typ ≠ .truncated) (te : Template) (hte : NonTruncTime pt te) :
    dateShapeOK de.tmpl = true ∧ timeShapeOK te = true := by
  have df := decodeFacts pt hpt
  refine ⟨(df.dates de hde hnt).2.2, ?_⟩
  rcases hte with rfl | ⟨e, he, hn, rfl⟩
  · decide
  · exact (df.times e he hn).2

/-- **C07 (defaults)**: what `TimePoint(...)` makes of the decoded arguments of any documented
    non-truncated form.  If the zone is rejected by `TimeZone(...)` the result is an error; otherwise
    it is the point `pointOf` — provided `_check_bounds` accepts that point, else an error.  `pointOf`
    is, per pattern of present groups:
    * year `yearOf` and the number of expanded digits (iff the form has the `X` group);
    * calendar forms (`CC`, `CCYY`, `CCYY-MM`, `CCYYMMDD`): month and day as given, else 1; no
      ordinal day, week or weekday;
    * ordinal forms: the day of year; no month, day, week, weekday;
    * week forms (`CCYYWww`, `CCYYWwwD`): the week, the weekday as given, else 1; no month, day,
      ordinal day;
    * hour as given, else 0 (date alone); minute as given, else 0 — but ABSENT when the hour has a
      decimal fraction; second as given, else 0 — but absent when hour or minute has a fraction;
      the fraction attached to the unit it was spelled on;
    * not truncated, zone not unknown (a missing zone under `default_to_unknown_time_zone` becomes
      `+00:00` for a non-truncated point), no dump format. -/
theorem C07_defaults (cfg : Cfg) (hpt : cfg.pt ∈ parserTables)
    (de : Entry) (hde : de ∈ cfg.pt.dateEntries) (hnt : de.typ ≠ .truncated)
    (te : Template) (hte : NonTruncTime cfg.pt te) (zone : ZoneInfo) (v : Vals) :
    ctor cfg.mode (argsOf cfg de.tmpl te zone v) =
      match mkTZ cfg.mode (zone.hour.getD 0) (zone.minute.getD 0) with
      | none => none
      | some tz =>
        if checkBounds cfg.mode (pointOf cfg de.tmpl te v tz) then some (pointOf cfg de.tmpl te v tz)
        else none := by
  obtain ⟨hd, ht⟩ := shapes_of cfg.pt hpt de hde hnt te hte
  exact ctor_argsOf cfg de.tmpl te zone v hd ht

/-- **C07 (defaults, field by field)**: when the constructor succeeds on the decoded arguments, the
    result carries exactly the given fields, each omitted lower-order field is at the start of its
    period, a decimal fraction suppresses the lower units, and the date keeps the form's
    representation (`dateOf`). -/
theorem C07_defaults_fields (cfg : Cfg) (hpt : cfg.pt ∈ parserTables)
    (de : Entry) (hde : de ∈ cfg.pt.dateEntries) (hnt : de.typ ≠ .truncated)
    (te : Template) (hte : NonTruncTime cfg.pt te) (zone : ZoneInfo) (v : Vals) (p : XTP)
    (h : ctor cfg.mode (argsOf cfg de.tmpl te zone v) = some p) :
    p.year = some (yearOf de.tmpl v) ∧
    p.ned = (if hasGroup de.tmpl .expandedYear then cfg.pt.ned else 0) ∧
    p.date? = some (dateOf de.tmpl v) ∧
    (hasGroup de.tmpl .dayOfYear = false → hasGroup de.tmpl .weekOfYear = false →
      p.month = some (if hasGroup de.tmpl .monthOfYear then (v.month : Int) else 1) ∧
      p.day = some (if hasGroup de.tmpl .dayOfMonth then (v.day : Int) else 1) ∧
      p.doy = none ∧ p.week = none ∧ p.dow = none) ∧
    (hasGroup de.tmpl .dayOfYear = true →
      p.doy = some (v.doy : Int) ∧ p.month = none ∧ p.day = none ∧ p.week = none ∧ p.dow = none) ∧
    (hasGroup de.tmpl .weekOfYear = true →
      p.week = some (v.week : Int) ∧
      p.dow = some (if hasGroup de.tmpl .dayOfWeek then (v.dow : Int) else 1) ∧
      p.month = none ∧ p.day = none ∧ p.doy = none) ∧
    p.hour = some (if hasGroup te .hourOfDay then (v.hour : Int) else 0) ∧
    p.minute = (if hasGroup te .hourDec then none
      else some (if hasGroup te .minuteOfHour then (v.minute : Int) else 0)) ∧
    p.second = (if hasGroup te .hourDec || hasGroup te .minuteDec then none
      else some (if hasGroup te .secondOfMinute then (v.second : Int) else 0)) ∧
    p.hourDec = decOf te .hourDec v.hourDec ∧ p.minuteDec = decOf te .minuteDec v.minuteDec ∧
    p.secondDec = decOf te .secondDec v.secondDec ∧
    mkTZ cfg.mode (zone.hour.getD 0) (zone.minute.getD 0) = some p.tz ∧
    p.truncated = false ∧ p.tzUnknown = false ∧ p.truncProp = none ∧ p.dumpFmt = none := by
  obtain ⟨hd, ht⟩ := shapes_of cfg.pt hpt de hde hnt te hte
  rw [C07_defaults cfg hpt de hde hnt te hte zone v] at h
  cases hz : mkTZ cfg.mode (zone.hour.getD 0) (zone.minute.getD 0) with
  | none => rw [hz] at h; cases h
  | some tz =>
    rw [hz] at h
    simp only at h
    split at h
    · have hp : p = pointOf cfg de.tmpl te v tz := by simpa using h.symm
      subst hp
      have hdate := pointOf_date cfg de.tmpl te v tz hd
      have hc := dateShape_cases de.tmpl hd
      simp only [datePattern, Prod.mk.injEq] at hc
      refine ⟨rfl, rfl, hdate, ?_, ?_, ?_, rfl, rfl, rfl, rfl, rfl, rfl, rfl, rfl, rfl, rfl, rfl⟩
      · rcases hc with ⟨d1, d2, d3, d4, d5⟩ | ⟨d1, d2, d3, d4, d5⟩ | ⟨d1, d2, d3, d4, d5⟩ |
          ⟨d1, d2, d3, d4, d5⟩ | ⟨d1, d2, d3, d4, d5⟩ | ⟨d1, d2, d3, d4, d5⟩ <;>
          simp [pointOf, fieldOf, d1, d2, d3, d4, d5]
      · rcases hc with ⟨d1, d2, d3, d4, d5⟩ | ⟨d1, d2, d3, d4, d5⟩ | ⟨d1, d2, d3, d4, d5⟩ |
          ⟨d1, d2, d3, d4, d5⟩ | ⟨d1, d2, d3, d4, d5⟩ | ⟨d1, d2, d3, d4, d5⟩ <;>
          simp [pointOf, fieldOf, d1, d2, d3, d4, d5]
      · rcases hc with ⟨d1, d2, d3, d4, d5⟩ | ⟨d1, d2, d3, d4, d5⟩ | ⟨d1, d2, d3, d4, d5⟩ |
          ⟨d1, d2, d3, d4, d5⟩ | ⟨d1, d2, d3, d4, d5⟩ | ⟨d1, d2, d3, d4, d5⟩ <;>
          simp [pointOf, fieldOf, d1, d2, d3, d4, d5]
    · cases h

/-- **C07 (acceptance)**: the decoded arguments are accepted exactly when the spelled values form a
    valid date-time of the active calendar mode — the date valid in its own representation
    (`Spec.Date.Valid`: month 1..12 and day within the month of that year; ordinal day within the
    year; week within the year's weeks and weekday 1..7), and the time of day below 24:00 with minute
    and second below 60, or exactly 24 with every given lower unit and fraction zero — and then the
    result is `pointOf`. -/
theorem C07_accept (cfg : Cfg) (hpt : cfg.pt ∈ parserTables)
    (de : Entry) (hde : de ∈ cfg.pt.dateEntries) (hnt : de.typ ≠ .truncated)
    (te : Template) (hte : NonTruncTime cfg.pt te) (zone : ZoneInfo) (v : Vals) (tz : Spec.TZ)
    (hz : mkTZ cfg.mode (zone.hour.getD 0) (zone.minute.getD 0) = some tz) :
    ctor cfg.mode (argsOf cfg de.tmpl te zone v) =
      if (dateOf de.tmpl v).Valid cfg.mode ∧ TimeValid te v then some (pointOf cfg de.tmpl te v tz)
      else none := by
  obtain ⟨hd, ht⟩ := shapes_of cfg.pt hpt de hde hnt te hte
  rw [C07_defaults cfg hpt de hde hnt te hte zone v, hz]
  have hiff : checkBounds cfg.mode (pointOf cfg de.tmpl te v tz) = true ↔
      (dateOf de.tmpl v).Valid cfg.mode ∧ TimeValid te v := by
    rw [checkBounds_split, Bool.and_eq_true, dateBounds_pointOf cfg cfg.mode de.tmpl te v tz hd,
      timeBounds_pointOf cfg cfg.mode de.tmpl te v tz ht]
  by_cases hc : checkBounds cfg.mode (pointOf cfg de.tmpl te v tz) = true
  · simp only [hc, if_true, if_pos (hiff.mp hc)]
  · simp only [hc, if_neg (fun h => hc (hiff.mpr h))]
    rfl

/-- **C07 (zone acceptance)**: the zone a zone form spells is accepted by `TimeZone(...)` iff it is
    `Z`, has no minute group, or its minutes are below 60; a `±hh` zone has minutes 0 whatever the
    parser's configured zone. -/
theorem C07_zone_accept (m : Mode) (zd : ZoneDefault) (t : Template) (v : Vals) (hH : v.tzHour < 100) :
    mkTZ m ((zoneOf zd (some t) v).hour.getD 0) ((zoneOf zd (some t) v).minute.getD 0) =
      if hasGroup t .tzUtc = true ∨ hasGroup t .tzMinute = false ∨ v.tzMinute < 60 then
        some ⟨(zoneOf zd (some t) v).hour.getD 0, (zoneOf zd (some t) v).minute.getD 0⟩
      else none := mkTZ_zoneOf m zd t v hH

/-- **C07 (end to end)**: parsing the text of a complete date form, a non-truncated time form and a
    zone form (or none) yields `pointOf` — the spelled values in the form's representation, with the
    defaults — iff the values form a valid date-time, and is an error otherwise (given that the
    resolved zone is one `TimeZone(...)` accepts). -/
theorem C07_parse (cfg : Cfg) (hpt : cfg.pt ∈ parserTables)
    (de : Entry) (hde : de ∈ cfg.pt.dateEntries) (hdc : de.typ = .complete)
    (hx : cfg.pt.ned = 0 → hasGroup de.tmpl .expandedYear = false)
    (te : Entry) (hte : te ∈ cfg.pt.timeEntries) (htt : te.typ ≠ .truncated) (htf : te.fmt = de.fmt)
    (zo : Option ZEntry) (hzo : ∀ ze, zo = some ze → ze ∈ cfg.pt.zoneEntries ∧ ze.fmt = de.fmt)
    (v : Vals) (hv : v.Fit cfg.pt.ned) (tz : Spec.TZ)
    (hz : mkTZ cfg.mode ((zoneOf cfg.zone (zo.map (·.tmpl)) v).hour.getD 0)
      ((zoneOf cfg.zone (zo.map (·.tmpl)) v).minute.getD 0) = some tz) :
    parse cfg (trender de.tmpl (envOf de.tmpl v) ++
        'T' :: (trender te.tmpl (envOf te.tmpl v) ++ zoneText zo v)) false =
      if (dateOf de.tmpl v).Valid cfg.mode ∧ TimeValid te.tmpl v then
        some (pointOf cfg de.tmpl te.tmpl v tz)
      else none := by
  rw [C07_decode cfg hpt de hde hdc hx te hte htt htf zo hzo v hv]
  exact C07_accept cfg hpt de hde (by rw [hdc]; decide) te.tmpl (Or.inr ⟨te, hte, htt, rfl⟩) _ v tz hz

/-- **C07 (end to end, date alone)**. -/
theorem C07_parse_date (cfg : Cfg) (hpt : cfg.pt ∈ parserTables) (de : Entry)
    (hmem : de ∈ dateOrder cfg.pt (dateTypes cfg.allowTruncated [])) (hnt : de.typ ≠ .truncated)
    (hl : cfg.allowTruncated = false ∨ isLoser cfg.pt.ned de = false)
    (hx : cfg.pt.ned = 0 → hasGroup de.tmpl .expandedYear = false)
    (v : Vals) (hv : v.Fit cfg.pt.ned) (tz : Spec.TZ)
    (hz : mkTZ cfg.mode ((zoneOf cfg.zone none v).hour.getD 0)
      ((zoneOf cfg.zone none v).minute.getD 0) = some tz) :
    parse cfg (trender de.tmpl (envOf de.tmpl v)) false =
      if (dateOf de.tmpl v).Valid cfg.mode then some (pointOf cfg de.tmpl [] v tz) else none := by
  rw [C07_decode_date cfg hpt de hmem hnt hl hx v hv,
    C07_accept cfg hpt de (dateOrder_sub _ _ de hmem) hnt [] (Or.inl rfl) _ v tz hz]
  have : TimeValid [] v := by simp [TimeValid, hourOf, minuteOf, secondOf, hasGroup, groupFields]
  simp only [this, and_true]

/-! ## Non-vacuity and regression: concrete forms, values and texts -/

section Examples
open _root_.IsoDT.Gen.Templates

/-- Two expanded year digits, all formats, an assumed zone with NON-ZERO minutes, Gregorian. -/
def exCfg : Cfg := ⟨parser_2_all, false, .assumed 5 30, .greg⟩
theorem exCfg_mem : exCfg.pt ∈ parserTables := .tail _ (.tail _ (.head _))

/-- `±XCCYYMMDD`, `hhmm,nn` (decimal minute), `±hh` — as the live parser compiled them. -/
def exDate : Entry := ⟨.basic, .complete, "+XCCYYMMDD".toList, t77⟩
def exTime : Entry := ⟨.basic, .complete, "hhmm,nn".toList, t48⟩
def exZone : ZEntry := ⟨.basic, "+hh".toList, t74⟩

/-- Year −400 (a negative multiple of 400: leap), 29 February, 12:30.5, zone −03. -/
def exVals : Vals :=
  { yearNeg := true, x := 0, cc := 4, yy := 0, month := 2, day := 29, hour := 12, minute := 30,
    minuteDec := ['5'], tzNeg := true, tzHour := 3 }

example : exDate ∈ exCfg.pt.dateEntries ∧ exTime ∈ exCfg.pt.timeEntries ∧ exZone ∈ exCfg.pt.zoneEntries ∧
    exVals.Fit exCfg.pt.ned := by decide +kernel

example : trender exDate.tmpl (envOf exDate.tmpl exVals) ++
    'T' :: (trender exTime.tmpl (envOf exTime.tmpl exVals) ++ zoneText (some exZone) exVals) =
    "-0004000229T1230,5-03".toList := by decide +kernel

/-- `C07_decode` at a decimal-minute form with a `-hh` zone under an assumed zone `+05:30`. -/
example : parse exCfg (trender exDate.tmpl (envOf exDate.tmpl exVals) ++
      'T' :: (trender exTime.tmpl (envOf exTime.tmpl exVals) ++ zoneText (some exZone) exVals)) false =
    ctor exCfg.mode (argsOf exCfg exDate.tmpl exTime.tmpl
      (zoneOf exCfg.zone ((some exZone).map (·.tmpl)) exVals) exVals) :=
  C07_decode exCfg exCfg_mem exDate (by decide +kernel) rfl (fun h => absurd h (by decide))
    exTime (by decide +kernel) (by decide) rfl (some exZone)
    (fun ze h => by cases h; exact ⟨by decide +kernel, rfl⟩) exVals (by decide +kernel)

/-- `C07_assemble` at these forms. -/
example : assemble exCfg ⟨envOf exDate.tmpl exVals, false, envOf exTime.tmpl exVals, ⟨some (-3), none⟩, []⟩ none =
    some (argsOf exCfg exDate.tmpl exTime.tmpl ⟨some (-3), none⟩ exVals) :=
  C07_assemble exCfg exCfg_mem exDate (by decide +kernel) (by decide) (fun h => absurd h (by decide))
    exTime.tmpl (Or.inr ⟨exTime, by decide +kernel, by decide, rfl⟩) _ _ exVals (by decide +kernel)

/-- The spelled zone `-03` has NO minute: the arguments carry `time_zone_minute = None`, and the point's
    zone is `-03:00` — not the assumed zone's 30 minutes. -/
example : zoneOf exCfg.zone (some exZone.tmpl) exVals = ⟨some (-3), none⟩ := by decide +kernel

example : argsOf exCfg exDate.tmpl exTime.tmpl ⟨some (-3), none⟩ exVals =
    { ned := 2, year := some (-400), month := some 2, day := some 29, hour := some 12, minute := some 30,
      minuteDec := some ['5'], tzHour := some (-3), tzMinute := none } := by decide +kernel

/-- The whole text, decoded by kernel evaluation of the parser model: the decimal fraction stays on the
    minute and suppresses the second; −400 is a leap year, so 29 February is accepted. -/
example : parse exCfg "-0004000229T1230,5-03".toList false =
    some { ned := 2, year := some (-400), month := some 2, day := some 29, doy := none, week := none,
           dow := none, hour := some 12, minute := some 30, second := none, hourDec := none,
           minuteDec := some ['5'], secondDec := none, tz := ⟨-3, 0⟩, tzUnknown := false,
           truncated := false, truncProp := none, dumpFmt := none } := by decide +kernel

/-- … and it is `pointOf` (`C07_parse`): the values are a valid date-time. -/
example : parse exCfg "-0004000229T1230,5-03".toList false =
    some (pointOf exCfg exDate.tmpl exTime.tmpl exVals ⟨-3, 0⟩) := by
  have h := C07_parse exCfg exCfg_mem exDate (by decide +kernel) rfl (fun h => absurd h (by decide))
    exTime (by decide +kernel) (by decide) rfl (some exZone)
    (fun ze h => by cases h; exact ⟨by decide +kernel, rfl⟩) exVals (by decide +kernel) ⟨-3, 0⟩
    (by decide +kernel)
  rw [if_pos (by decide +kernel)] at h
  exact h

/-- The same day in year −401 (not leap) is rejected (`C07_accept`: the date is not valid). -/
example : parse exCfg "-0004010229T1230,5-03".toList false = none := by decide +kernel
example : ¬ (dateOf exDate.tmpl { exVals with yy := 1 }).Valid .greg := by decide +kernel

/-- A BASIC REDUCED WEEK form, `CCYYWww`, in a basic-only configuration without expanded digits and
    with `default_to_unknown_time_zone`: weekday 1, 00:00:00, zone `+00:00` and not unknown. -/
def exCfgB : Cfg := ⟨parser_0_basic, false, .unknown, .greg⟩
def exWeek : Entry := ⟨.basic, .reduced, "CCYYWww".toList, t12⟩

example : parse exCfgB "2000W05".toList false =
    some { ned := 0, year := some 2000, month := none, day := none, doy := none, week := some 5,
           dow := some 1, hour := some 0, minute := some 0, second := some 0, hourDec := none,
           minuteDec := none, secondDec := none, tz := ⟨0, 0⟩, tzUnknown := false,
           truncated := false, truncProp := none, dumpFmt := none } := by decide +kernel

/-- `C07_decode_date` at that form. -/
example : parse exCfgB (trender exWeek.tmpl (envOf exWeek.tmpl { cc := 20, yy := 0, week := 5 })) false =
    ctor .greg (argsOf exCfgB exWeek.tmpl [] ⟨none, none⟩ { cc := 20, yy := 0, week := 5 }) :=
  C07_decode_date exCfgB (.tail _ (.head _)) exWeek (by decide +kernel) (by decide) (Or.inl rfl)
    (fun _ => by decide +kernel) { cc := 20, yy := 0, week := 5 } (by decide +kernel)

example : trender exWeek.tmpl (envOf exWeek.tmpl { cc := 20, yy := 0, week := 5 }) = "2000W05".toList := by
  decide +kernel

/-- `C07_defaults` / `C07_defaults_fields` / `C07_accept` at that form: the week form gets weekday 1 and
    no month or day. -/
example : ctor exCfgB.mode (argsOf exCfgB exWeek.tmpl [] ⟨none, none⟩ { cc := 20, yy := 0, week := 5 }) =
    some (pointOf exCfgB exWeek.tmpl [] { cc := 20, yy := 0, week := 5 } ⟨0, 0⟩) := by
  rw [C07_accept exCfgB (.tail _ (.head _)) exWeek (by decide +kernel) (by decide) [] (Or.inl rfl)
    ⟨none, none⟩ _ ⟨0, 0⟩ (by decide +kernel)]
  exact if_pos (by decide +kernel)

example : (pointOf exCfgB exWeek.tmpl [] { cc := 20, yy := 0, week := 5 } ⟨0, 0⟩).dow = some 1 ∧
    (pointOf exCfgB exWeek.tmpl [] { cc := 20, yy := 0, week := 5 } ⟨0, 0⟩).month = none ∧
    dateOf exWeek.tmpl { cc := 20, yy := 0, week := 5 } = .week 2000 5 1 := by decide +kernel

/-- Week 00 is spelled but not valid: rejected (the constructor's "no week given" path and `pointOf`
    agree on the error). -/
example : parse exCfgB "2000W00".toList false = none := by decide +kernel

/-- A NEGATIVE EXPANDED YEAR that is a multiple of 400, reduced extended form `±XCCYY-MM`, date alone,
    truncated forms allowed: year −400, day 1, the assumed zone. -/
example : parse ⟨parser_2_all, true, .assumed 5 30, .greg⟩ "-000400-02".toList false =
    some { ned := 2, year := some (-400), month := some 2, day := some 1, doy := none, week := none,
           dow := none, hour := some 0, minute := some 0, second := some 0, hourDec := none,
           minuteDec := none, secondDec := none, tz := ⟨5, 30⟩, tzUnknown := false,
           truncated := false, truncProp := none, dumpFmt := none } := by decide +kernel

/-- CENTURY ONLY, `±XCC`: `+0020` is the year 2000 (100·CC), 1 January; `-0020` the year −2000. -/
def exCentury : Entry := ⟨.basic, .reduced, "+XCC".toList, t82⟩

example : parse exCfg "+0020".toList false =
    some { ned := 2, year := some 2000, month := some 1, day := some 1, doy := none, week := none,
           dow := none, hour := some 0, minute := some 0, second := some 0, hourDec := none,
           minuteDec := none, secondDec := none, tz := ⟨5, 30⟩, tzUnknown := false,
           truncated := false, truncProp := none, dumpFmt := none } := by decide +kernel

example : yearOf exCentury.tmpl { x := 0, cc := 20, yearNeg := true } = -2000 ∧
    trender exCentury.tmpl (envOf exCentury.tmpl { x := 0, cc := 20, yearNeg := true }) = "-0020".toList ∧
    (parse exCfg "-0020".toList false).map (·.year) = some (some (-2000)) := by decide +kernel

example : parse exCfg (trender exCentury.tmpl (envOf exCentury.tmpl { x := 0, cc := 20, yearNeg := true }))
      false =
    ctor .greg (argsOf exCfg exCentury.tmpl [] ⟨some 5, some 30⟩ { x := 0, cc := 20, yearNeg := true }) :=
  C07_decode_date exCfg exCfg_mem exCentury (by decide +kernel) (by decide) (Or.inl rfl)
    (fun h => absurd h (by decide)) _ (by decide +kernel)

/-- With truncated forms allowed, `±XCC` is the later form of the documented overlap (hypothesis `hl`):
    `-0020` is then read as the truncated `-YYMM` (year-of-century 00, month 20) and rejected. -/
example : isLoser 2 exCentury = true ∧
    parse ⟨parser_2_all, true, .assumed 5 30, .greg⟩ "-0020".toList false = none ∧
    ctor .greg (argsOf ⟨parser_2_all, true, .assumed 5 30, .greg⟩ exCentury.tmpl [] ⟨some 5, some 30⟩
      { x := 0, cc := 20, yearNeg := true }) ≠ none := by decide +kernel

/-- `C07_decode_no_expanded_digits`: without expanded digits the signed forms are listed, matched, and
    never decoded. -/
def exSigned0 : Entry := ⟨.basic, .complete, "+XCCYYMMDD".toList, t1⟩

example : exSigned0 ∈ parser_0_all.dateEntries ∧ hasGroup exSigned0.tmpl .expandedYear = true ∧
    parse ⟨parser_0_all, false, .unknown, .greg⟩ "+20000101T00Z".toList false = none ∧
    parse ⟨parser_0_all, false, .unknown, .greg⟩ "20000101T00Z".toList false ≠ none := by decide +kernel

example (v : Vals) (hv : v.Fit 0) :
    parse ⟨parser_0_all, false, .unknown, .greg⟩ (trender exSigned0.tmpl (envOf exSigned0.tmpl v) ++
      'T' :: (trender t54 (envOf t54 v) ++ zoneText none v)) false = none :=
  C07_decode_no_expanded_digits ⟨parser_0_all, false, .unknown, .greg⟩ (.head _) rfl exSigned0
    (by decide +kernel) rfl (by decide +kernel) ⟨.basic, .reduced, "hh".toList, t54⟩ (by decide +kernel)
    (by decide) rfl none (fun _ h => by cases h) v hv false

/-- `C07_zone_accept`: `-03` is accepted with minutes 0; `+05:75` is not a zone. -/
example : mkTZ .greg ((zoneOf (.assumed 5 30) (some t74) exVals).hour.getD 0)
    ((zoneOf (.assumed 5 30) (some t74) exVals).minute.getD 0) = some ⟨-3, 0⟩ := by decide +kernel
example : mkTZ .greg ((zoneOf .unknown (some t76) { tzHour := 5, tzMinute := 75 }).hour.getD 0)
    ((zoneOf .unknown (some t76) { tzHour := 5, tzMinute := 75 }).minute.getD 0) = none := by
  rw [C07_zone_accept .greg .unknown t76 _ (by decide)]; decide +kernel

/-- Hour 24 is accepted with a zero fraction only. -/
example : TimeValid t49 { hour := 24, hourDec := ['0', '0'] } ∧ ¬ TimeValid t49 { hour := 24, hourDec := ['0', '1'] } ∧
    (parse exCfg "2000-01-01T24,0".toList false).isSome = true ∧
    parse exCfg "2000-01-01T24:00,01".toList false = none := by decide +kernel

end Examples

end IsoDT.Props.C07
