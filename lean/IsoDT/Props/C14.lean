/-
  C14 — Recurrences are values: shifting, equality, hashing (text round trip: see C07/C08 layer).

  `Model.Rec.shift` mirrors `TimeRecurrence.__add__(Duration)` (and `__sub__`, `Duration + rec`
  which dispatch to it); `Model.Rec.eq` / `Rec.hashKey` mirror `__eq__` / `__hash__`.
-/
import IsoDT.Props.C12
import IsoDT.Lemmas.RecShift

namespace IsoDT.Props.C14
open IsoDT IsoDT.Model IsoDT.Lemmas IsoDT.Props.C12
open IsoDT.Spec (Date TZ TP)

/-- **Shifting a start/duration recurrence (`n ≥ 2`, exact interval) by an exact `x`**: the result
    is the recurrence with the same repetitions and interval whose start is moved by `x`; hence
    (C12) its `n` points are the original points each moved by exactly `x`. -/
theorem C14_shift_start_duration (m : Mode) (n : Nat) (s : TP) (d x : Dur) (hn : 2 ≤ n) (hs : s.Valid m)
    (hex : d.isExact = true) (hpos : 0 < d.exactSeconds m) (hx : x.isExact = true)
    (fuel : Nat) (hf : n ≤ fuel) :
    ∃ r r' s', mkRec m (some (n : Int)) (some s) (some d) none = some r ∧
      addDur m s x = some s' ∧ s'.inst m = s.inst m + x.exactSeconds m ∧
      r.shift m x = some r' ∧ r'.reps = some (n : Int) ∧ r'.dur = some d ∧ r'.start = some s' ∧
      (iter m r fuel).length = n ∧ (iter m r' fuel).length = n ∧
      SeriesOK m s.date.rep s.tz (iter m r fuel) (s.inst m) (d.exactSeconds m) ∧
      SeriesOK m s.date.rep s.tz (iter m r' fuel) (s.inst m + x.exactSeconds m) (d.exactSeconds m) := by
  obtain ⟨r, hr, hlen, _, hser⟩ := C12_start_duration_bounded m n s d hn hs hex hpos fuel hf
  obtain ⟨e, hr0, _⟩ := mkRec_fmt3_bounded m n s d (by omega) hs hex hpos
  rw [hr] at hr0
  have hre : r = ⟨some (n : Int), some s, some d, some e, none, 3⟩ := by simpa using hr0
  obtain ⟨s', hs', g⟩ := addDur_exact m s x hs hx
  obtain ⟨r', hr', hlen', _, hser'⟩ := C12_start_duration_bounded m n s' d hn g.strict.1 hex hpos fuel hf
  obtain ⟨e', hr1, _⟩ := mkRec_fmt3_bounded m n s' d (by omega) g.strict.1 hex hpos
  rw [hr'] at hr1
  have hre' : r' = ⟨some (n : Int), some s', some d, some e', none, 3⟩ := by simpa using hr1
  refine ⟨r, r', s', hr, hs', g.inst, ?_, by rw [hre'], by rw [hre'], by rw [hre'], hlen, hlen', hser, ?_⟩
  · rw [hre]
    simp only [Rec.shift, hs', Option.bind_some, Option.getD_some, hr']
  · rw [g.rep, g.tz, g.inst] at hser'; exact hser'

/-- **Single-point recurrences keep their anchor when shifted** (repaired defect F4): one
    repetition (or a zero interval) in start/duration or duration/end notation. -/
theorem C14_shift_single (m : Mode) (s : TP) (x : Dur) (hs : s.Valid m) (hx : x.isExact = true) :
    ∃ s', addDur m s x = some s' ∧ s'.inst m = s.inst m + x.exactSeconds m ∧
      (⟨some 1, some s, none, some s, none, 3⟩ : Rec).shift m x =
        some ⟨some 1, some s', none, some s', none, 3⟩ ∧
      (⟨some 1, some s, none, some s, none, 4⟩ : Rec).shift m x =
        some ⟨some 1, some s', none, some s', none, 4⟩ := by
  obtain ⟨s', hs', g⟩ := addDur_exact m s x hs hx
  refine ⟨s', hs', g.inst, ?_, ?_⟩
  · have := (C12_single m (some 1) s' Dur.zero zero_exact (by rw [zero_seconds]; omega)
      (fun n h => by cases h; omega) (Or.inl rfl) 1 (by omega)).1
    simp only [Rec.shift, hs', Option.bind_some, Option.getD_none, this]
  · simp only [Rec.shift, hs', Option.bind_some, Option.getD_none]
    unfold mkRec
    simp [lt_zero_false m Dur.zero zero_exact (by rw [zero_seconds]; omega)]

/-! ### equality and hashing -/

theorem optTpEq_iff (m : Mode) (a b : Option TP) (ha : ∀ x, a = some x → x.Valid m)
    (hb : ∀ x, b = some x → x.Valid m) :
    optTpEq m a b = true ↔ (a = none ∧ b = none) ∨ ∃ x y, a = some x ∧ b = some y ∧ x.inst m = y.inst m := by
  cases a <;> cases b <;> simp only [optTpEq]
  · simp
  · simp
  · simp
  · rename_i x y
    rw [tpEq_iff m x y (ha x rfl) (hb y rfl)]
    simp

/-- **Equality of recurrences**: repetitions equal, start points at the same instant (or both
    absent), end points likewise, intervals equal as durations.  So recurrences that differ in
    repetitions, start, end or interval are unequal. -/
theorem C14_eq_iff (m : Mode) (a b : Rec)
    (hva : (∀ x, a.start = some x → x.Valid m) ∧ (∀ x, a.end_ = some x → x.Valid m))
    (hvb : (∀ x, b.start = some x → x.Valid m) ∧ (∀ x, b.end_ = some x → x.Valid m)) :
    Rec.eq m a b = true ↔
      a.reps = b.reps ∧
      ((a.start = none ∧ b.start = none) ∨ ∃ x y, a.start = some x ∧ b.start = some y ∧ x.inst m = y.inst m) ∧
      ((a.end_ = none ∧ b.end_ = none) ∨ ∃ x y, a.end_ = some x ∧ b.end_ = some y ∧ x.inst m = y.inst m) ∧
      optDurEq m a.dur b.dur = true := by
  unfold Rec.eq
  simp only [Bool.and_eq_true, beq_iff_eq]
  rw [optTpEq_iff m _ _ hva.1 hvb.1, optTpEq_iff m _ _ hva.2 hvb.2]
  constructor
  · rintro ⟨⟨⟨h1, h2⟩, h3⟩, h4⟩; exact ⟨h1, h2, h3, h4⟩
  · rintro ⟨h1, h2, h3, h4⟩; exact ⟨⟨⟨h1, h2⟩, h3⟩, h4⟩

theorem durHashKey_eq (m : Mode) (a : Dur) : Dur.hashKey m a = ((durYm a).1, (durYm a).2, a.exactSeconds m) := by
  cases a <;> rfl

/-- **Equal recurrences have equal hashes** (hash keys of their components agree). -/
theorem C14_hash (m : Mode) (a b : Rec)
    (hva : (∀ x, a.start = some x → x.Valid m) ∧ (∀ x, a.end_ = some x → x.Valid m))
    (hvb : (∀ x, b.start = some x → x.Valid m) ∧ (∀ x, b.end_ = some x → x.Valid m))
    (h : Rec.eq m a b = true) : Rec.hashKey m a = Rec.hashKey m b := by
  obtain ⟨h1, h2, h3, h4⟩ := (C14_eq_iff m a b hva hvb).mp h
  unfold Rec.hashKey
  have k2 : a.start.map (Model.hashKey m) = b.start.map (Model.hashKey m) := by
    rcases h2 with ⟨x, y⟩ | ⟨x, y, hx, hy, hi⟩
    · rw [x, y]
    · rw [hx, hy]
      simp only [Option.map_some]
      rw [(hashKey_eq_of_inst_eq m x y (hva.1 x hx) (hvb.1 y hy) hi).1]
  have k3 : a.end_.map (Model.hashKey m) = b.end_.map (Model.hashKey m) := by
    rcases h3 with ⟨x, y⟩ | ⟨x, y, hx, hy, hi⟩
    · rw [x, y]
    · rw [hx, hy]
      simp only [Option.map_some]
      rw [(hashKey_eq_of_inst_eq m x y (hva.2 x hx) (hvb.2 y hy) hi).1]
  have k4 : a.dur.map (Dur.hashKey m) = b.dur.map (Dur.hashKey m) := by
    cases ha : a.dur with
    | none =>
      cases hb : b.dur with
      | none => rfl
      | some y => rw [ha, hb] at h4; simp [optDurEq] at h4
    | some x =>
      cases hb : b.dur with
      | none => rw [ha, hb] at h4; simp [optDurEq] at h4
      | some y =>
        rw [ha, hb] at h4
        have := (dur_eq_iff m x y).mp h4
        simp only [Option.map_some]
        rw [durHashKey_eq, durHashKey_eq, this.1, this.2]
  rw [h1, k2, k3, k4]

/-- **(r + x) − x == r** for an exact `x` (start/duration, `n ≥ 2`, exact interval). -/
theorem C14_shift_inverse (m : Mode) (n : Nat) (s : TP) (d x : Dur) (hn : 2 ≤ n) (hs : s.Valid m)
    (hex : d.isExact = true) (hpos : 0 < d.exactSeconds m) (hx : x.isExact = true) :
    ∃ r r1 r2, mkRec m (some (n : Int)) (some s) (some d) none = some r ∧ r.shift m x = some r1 ∧
      r1.shift m (x.mul (-1)) = some r2 ∧ Rec.eq m r2 r = true := by
  obtain ⟨e, hr, es, ei, _, _⟩ := mkRec_fmt3_bounded m n s d (by omega) hs hex hpos
  obtain ⟨s1, hs1, g1⟩ := addDur_exact m s x hs hx
  obtain ⟨e1, hr1, es1, ei1, _, _⟩ := mkRec_fmt3_bounded m n s1 d (by omega) g1.strict.1 hex hpos
  obtain ⟨s2, hs2, g2⟩ := addDur_exact m s1 (x.mul (-1)) g1.strict.1 (mul_exact x _ hx)
  obtain ⟨e2, hr2, es2, ei2, _, _⟩ := mkRec_fmt3_bounded m n s2 d (by omega) g2.strict.1 hex hpos
  have hi2 : s2.inst m = s.inst m := by
    rw [g2.inst, g1.inst, mul_exactSeconds]; omega
  refine ⟨⟨some (n : Int), some s, some d, some e, none, 3⟩, ⟨some (n : Int), some s1, some d, some e1, none, 3⟩,
    ⟨some (n : Int), some s2, some d, some e2, none, 3⟩, hr, ?_, ?_, ?_⟩
  · simp only [Rec.shift, hs1, Option.bind_some, Option.getD_some, hr1]
  · simp only [Rec.shift, hs2, Option.bind_some, Option.getD_some, hr2]
  · rw [C14_eq_iff m _ _ ⟨fun y h => by cases h; exact g2.strict.1, fun y h => by cases h; exact es2.1⟩
      ⟨fun y h => by cases h; exact hs, fun y h => by cases h; exact es.1⟩]
    refine ⟨rfl, Or.inr ⟨s2, s, rfl, rfl, hi2⟩, Or.inr ⟨e2, e, rfl, rfl, by rw [ei2, ei, hi2]⟩, ?_⟩
    simp only [optDurEq]
    exact (dur_eq_iff m d d).mpr ⟨rfl, rfl⟩

/-! ## Non-vacuity: the witness of the repaired defect F4 -/

example : (⟨some 1, some ⟨.cal 2002 5 4, 23, 0, 0, ⟨0, 0⟩⟩, none, some ⟨.cal 2002 5 4, 23, 0, 0, ⟨0, 0⟩⟩,
    none, 4⟩ : Rec).shift .greg (.units 0 0 0 1 0 0) =
    some ⟨some 1, some ⟨.cal 2002 5 5, 0, 0, 0, ⟨0, 0⟩⟩, none, some ⟨.cal 2002 5 5, 0, 0, 0, ⟨0, 0⟩⟩,
    none, 4⟩ := by decide +kernel

/-! ## Shifting in the remaining notations (exact interval, exact shift of either sign)

  In each theorem `r` is what the constructor builds, `r'` what `r + x` builds.  Besides the
  stored fields, the iterated points are related in two ways: both iterations are arithmetic
  series (`SeriesOK`) whose first instants differ by `x`'s length, and pointwise — whenever the
  `k`-th iterated point of `r` is `p`, the `k`-th iterated point of `r'` exists and is a valid
  point exactly `x.exactSeconds m` seconds from `p`, in `p`'s representation and offset. -/

/-- **Shifting an unbounded start/duration recurrence (`R/start/d`, exact interval) by an exact
    `x`**: same (absent) repetitions, same interval, same notation, start moved by `x`; the first
    `fuel` points are the original first `fuel` points each moved by exactly `x`. -/
theorem C14_shift_start_duration_unbounded (m : Mode) (s : TP) (d x : Dur) (hs : s.Valid m)
    (hex : d.isExact = true) (hpos : 0 < d.exactSeconds m) (hx : x.isExact = true) (fuel : Nat) :
    ∃ r r' s', mkRec m none (some s) (some d) none = some r ∧
      addDur m s x = some s' ∧ s'.inst m = s.inst m + x.exactSeconds m ∧
      r.shift m x = some r' ∧ r.fmt = 3 ∧ r'.fmt = 3 ∧ r.reps = none ∧ r'.reps = none ∧
      r.dur = some d ∧ r'.dur = some d ∧ r.start = some s ∧ r'.start = some s' ∧
      (iter m r fuel).length = fuel ∧ (iter m r' fuel).length = fuel ∧
      SeriesOK m s.date.rep s.tz (iter m r fuel) (s.inst m) (d.exactSeconds m) ∧
      SeriesOK m s.date.rep s.tz (iter m r' fuel) (s.inst m + x.exactSeconds m) (d.exactSeconds m) ∧
      (∀ (k : Nat) (p : TP), (iter m r fuel)[k]? = some p →
        ∃ p', (iter m r' fuel)[k]? = some p' ∧ p'.inst m = p.inst m + x.exactSeconds m ∧
          p.Valid m ∧ p'.Valid m ∧ p'.date.rep = p.date.rep ∧ p'.tz = p.tz) := by
  obtain ⟨r, hr, hlen, hser⟩ := C12_start_duration_unbounded m s d hs hex hpos fuel
  have hr0 := mkRec_fmt3_unbounded m s d hex hpos
  rw [hr] at hr0
  have hre : r = ⟨none, some s, some d, none, none, 3⟩ := by simpa using hr0
  obtain ⟨s', hs', g⟩ := addDur_exact m s x hs hx
  obtain ⟨r', hr', hlen', hser'⟩ := C12_start_duration_unbounded m s' d g.strict.1 hex hpos fuel
  have hr1 := mkRec_fmt3_unbounded m s' d hex hpos
  rw [hr'] at hr1
  have hre' : r' = ⟨none, some s', some d, none, none, 3⟩ := by simpa using hr1
  rw [g.rep, g.tz, g.inst] at hser'
  have hpw := series_shift_get? m _ _ _ _ _ _ _ hser hser' (by omega)
  subst hre hre'
  refine ⟨_, _, s', hr, hs', g.inst, ?_, rfl, rfl, rfl, rfl, rfl, rfl, rfl, rfl, hlen, hlen', hser, hser', hpw⟩
  rw [shift_fmt3_eq m _ s s' d x _ _ hs', hr']

example : (⟨.cal 2002 5 4, 23, 0, 0, ⟨0, 0⟩⟩ : TP).Valid .greg ∧ (Dur.units 0 0 0 1 0 0).isExact = true ∧
    0 < (Dur.units 0 0 0 1 0 0).exactSeconds .greg ∧ (Dur.units 0 0 0 (-3) 0 0).isExact = true := by
  decide
example : (mkRec .greg none (some ⟨.cal 2002 5 4, 23, 0, 0, ⟨0, 0⟩⟩) (some (.units 0 0 0 1 0 0)) none).bind
    (fun r => (r.shift .greg (.units 0 0 0 (-3) 0 0)).map fun r' => (iter .greg r 3, iter .greg r' 3)) =
    some ([⟨.cal 2002 5 4, 23, 0, 0, ⟨0, 0⟩⟩, ⟨.cal 2002 5 5, 0, 0, 0, ⟨0, 0⟩⟩, ⟨.cal 2002 5 5, 1, 0, 0, ⟨0, 0⟩⟩],
      [⟨.cal 2002 5 4, 20, 0, 0, ⟨0, 0⟩⟩, ⟨.cal 2002 5 4, 21, 0, 0, ⟨0, 0⟩⟩, ⟨.cal 2002 5 4, 22, 0, 0, ⟨0, 0⟩⟩]) := by
  decide +kernel

/-- **Shifting a duration/end recurrence (`Rn/d/end`, `n ≥ 2`, exact interval) by an exact `x`**:
    same repetitions, same interval, same notation, end moved by `x`; the `n` points are the
    original `n` points each moved by exactly `x`. -/
theorem C14_shift_duration_end (m : Mode) (n : Nat) (e : TP) (d x : Dur) (hn : 2 ≤ n) (he : e.Valid m)
    (hex : d.isExact = true) (hpos : 0 < d.exactSeconds m) (hx : x.isExact = true)
    (fuel : Nat) (hf : n ≤ fuel) :
    ∃ r r' e', mkRec m (some (n : Int)) none (some d) (some e) = some r ∧
      addDur m e x = some e' ∧ e'.inst m = e.inst m + x.exactSeconds m ∧
      r.shift m x = some r' ∧ r.fmt = 4 ∧ r'.fmt = 4 ∧ r.reps = some (n : Int) ∧ r'.reps = some (n : Int) ∧
      r.dur = some d ∧ r'.dur = some d ∧ r.end_ = some e ∧ r'.end_ = some e' ∧
      (iter m r fuel).length = n ∧ (iter m r' fuel).length = n ∧
      SeriesOK m e.date.rep e.tz (iter m r fuel)
        (e.inst m - d.exactSeconds m * ((n : Int) - 1)) (d.exactSeconds m) ∧
      SeriesOK m e.date.rep e.tz (iter m r' fuel)
        (e.inst m - d.exactSeconds m * ((n : Int) - 1) + x.exactSeconds m) (d.exactSeconds m) ∧
      (∀ (k : Nat) (p : TP), (iter m r fuel)[k]? = some p →
        ∃ p', (iter m r' fuel)[k]? = some p' ∧ p'.inst m = p.inst m + x.exactSeconds m ∧
          p.Valid m ∧ p'.Valid m ∧ p'.date.rep = p.date.rep ∧ p'.tz = p.tz) := by
  obtain ⟨r, hr, hlen, hser⟩ := C12_duration_end_bounded m n e d hn he hex hpos fuel hf
  obtain ⟨s0, hr0, _⟩ := mkRec_fmt4_bounded m n e d (by omega) he hex hpos
  rw [hr] at hr0
  have hre : r = ⟨some (n : Int), some s0, some d, some e, none, 4⟩ := by simpa using hr0
  obtain ⟨e', he', g⟩ := addDur_exact m e x he hx
  obtain ⟨r', hr', hlen', hser'⟩ := C12_duration_end_bounded m n e' d hn g.strict.1 hex hpos fuel hf
  obtain ⟨s1, hr1, _⟩ := mkRec_fmt4_bounded m n e' d (by omega) g.strict.1 hex hpos
  rw [hr'] at hr1
  have hre' : r' = ⟨some (n : Int), some s1, some d, some e', none, 4⟩ := by simpa using hr1
  rw [g.rep, g.tz, g.inst] at hser'
  have e1 : e.inst m + x.exactSeconds m - d.exactSeconds m * ((n : Int) - 1) =
      e.inst m - d.exactSeconds m * ((n : Int) - 1) + x.exactSeconds m := by omega
  rw [e1] at hser'
  have hpw := series_shift_get? m _ _ _ _ _ _ _ hser hser' (by omega)
  subst hre hre'
  refine ⟨_, _, e', hr, he', g.inst, ?_, rfl, rfl, rfl, rfl, rfl, rfl, rfl, rfl, hlen, hlen', hser, hser', hpw⟩
  rw [shift_fmt4_eq m _ _ _ e e' d x he', hr']

example : (2 : Nat) ≤ 3 ∧ (⟨.week 2004 31 2, 23, 59, 0, ⟨5, 30⟩⟩ : TP).Valid .greg ∧
    (Dur.weeks 2).isExact = true ∧ 0 < (Dur.weeks 2).exactSeconds .greg ∧
    (Dur.units 0 0 1 0 0 30).isExact = true := by decide
example : (mkRec .greg (some 3) none (some (.weeks 2)) (some ⟨.week 2004 31 2, 23, 59, 0, ⟨5, 30⟩⟩)).bind
    (fun r => (r.shift .greg (.units 0 0 1 0 0 30)).map fun r' => (iter .greg r 5, iter .greg r' 5)) =
    some ([⟨.week 2004 27 2, 23, 59, 0, ⟨5, 30⟩⟩, ⟨.week 2004 29 2, 23, 59, 0, ⟨5, 30⟩⟩,
        ⟨.week 2004 31 2, 23, 59, 0, ⟨5, 30⟩⟩],
      [⟨.week 2004 27 3, 23, 59, 30, ⟨5, 30⟩⟩, ⟨.week 2004 29 3, 23, 59, 30, ⟨5, 30⟩⟩,
        ⟨.week 2004 31 3, 23, 59, 30, ⟨5, 30⟩⟩]) := by
  decide +kernel

/-- **Shifting an unbounded duration/end recurrence (`R/d/end`, exact interval) by an exact `x`**:
    same (absent) repetitions, same interval, same notation, end moved by `x`; the first `fuel`
    points (iterated backwards from the end) are the original ones each moved by exactly `x`. -/
theorem C14_shift_duration_end_unbounded (m : Mode) (e : TP) (d x : Dur) (he : e.Valid m)
    (hex : d.isExact = true) (hpos : 0 < d.exactSeconds m) (hx : x.isExact = true) (fuel : Nat) :
    ∃ r r' e', mkRec m none none (some d) (some e) = some r ∧
      addDur m e x = some e' ∧ e'.inst m = e.inst m + x.exactSeconds m ∧
      r.shift m x = some r' ∧ r.fmt = 4 ∧ r'.fmt = 4 ∧ r.reps = none ∧ r'.reps = none ∧
      r.dur = some d ∧ r'.dur = some d ∧ r.end_ = some e ∧ r'.end_ = some e' ∧
      (iter m r fuel).length = fuel ∧ (iter m r' fuel).length = fuel ∧
      SeriesOK m e.date.rep e.tz (iter m r fuel) (e.inst m) (-(d.exactSeconds m)) ∧
      SeriesOK m e.date.rep e.tz (iter m r' fuel) (e.inst m + x.exactSeconds m) (-(d.exactSeconds m)) ∧
      (∀ (k : Nat) (p : TP), (iter m r fuel)[k]? = some p →
        ∃ p', (iter m r' fuel)[k]? = some p' ∧ p'.inst m = p.inst m + x.exactSeconds m ∧
          p.Valid m ∧ p'.Valid m ∧ p'.date.rep = p.date.rep ∧ p'.tz = p.tz) := by
  obtain ⟨r, hr, hlen, hser⟩ := C12_duration_end_unbounded m e d he hex hpos fuel
  have hr0 := mkRec_fmt4_unbounded m e d hex hpos
  rw [hr] at hr0
  have hre : r = ⟨none, none, some d, some e, none, 4⟩ := by simpa using hr0
  obtain ⟨e', he', g⟩ := addDur_exact m e x he hx
  obtain ⟨r', hr', hlen', hser'⟩ := C12_duration_end_unbounded m e' d g.strict.1 hex hpos fuel
  have hr1 := mkRec_fmt4_unbounded m e' d hex hpos
  rw [hr'] at hr1
  have hre' : r' = ⟨none, none, some d, some e', none, 4⟩ := by simpa using hr1
  rw [g.rep, g.tz, g.inst] at hser'
  have hpw := series_shift_get? m _ _ _ _ _ _ _ hser hser' (by omega)
  subst hre hre'
  refine ⟨_, _, e', hr, he', g.inst, ?_, rfl, rfl, rfl, rfl, rfl, rfl, rfl, rfl, hlen, hlen', hser, hser', hpw⟩
  rw [shift_fmt4_eq m _ _ _ e e' d x he', hr']

example : (⟨.ord 2000 366, 24, 0, 0, ⟨-3, 0⟩⟩ : TP).Valid .greg ∧
    (Dur.units 0 0 0 0 90 0).isExact = true ∧ 0 < (Dur.units 0 0 0 0 90 0).exactSeconds .greg ∧
    (Dur.weeks (-1)).isExact = true := by decide
example : (mkRec .greg none none (some (.units 0 0 0 0 90 0)) (some ⟨.ord 2000 366, 24, 0, 0, ⟨-3, 0⟩⟩)).bind
    (fun r => (r.shift .greg (.weeks (-1))).map fun r' => (iter .greg r 3, iter .greg r' 3)) =
    some ([⟨.ord 2000 366, 24, 0, 0, ⟨-3, 0⟩⟩, ⟨.ord 2000 366, 22, 30, 0, ⟨-3, 0⟩⟩,
        ⟨.ord 2000 366, 21, 0, 0, ⟨-3, 0⟩⟩],
      [⟨.ord 2000 360, 0, 0, 0, ⟨-3, 0⟩⟩, ⟨.ord 2000 359, 22, 30, 0, ⟨-3, 0⟩⟩,
        ⟨.ord 2000 359, 21, 0, 0, ⟨-3, 0⟩⟩]) := by
  decide +kernel

/-- **Shifting a start/second-point recurrence (`Rn/start/second`, `n ≥ 2`) by an exact `x`**:
    `__add__` re-runs the constructor on the moved start and the moved second point.  The result
    has the same repetitions and notation, an interval `d'` that is exact, of the same length as
    the original interval `d` (so `d' == d` as durations), and its `n` points are the original `n`
    points each moved by exactly `x`. -/
theorem C14_shift_start_second (m : Mode) (n : Nat) (s e2 : TP) (x : Dur) (hn : 2 ≤ n)
    (hs : s.Valid m) (he : e2.Valid m) (hlt : s.inst m < e2.inst m) (hx : x.isExact = true)
    (fuel : Nat) (hf : n ≤ fuel) :
    ∃ r r' s' e2' d d', mkRec m (some (n : Int)) (some s) none (some e2) = some r ∧
      addDur m s x = some s' ∧ s'.inst m = s.inst m + x.exactSeconds m ∧
      addDur m e2 x = some e2' ∧ e2'.inst m = e2.inst m + x.exactSeconds m ∧
      r.shift m x = some r' ∧ r.fmt = 1 ∧ r'.fmt = 1 ∧ r.reps = some (n : Int) ∧ r'.reps = some (n : Int) ∧
      r.dur = some d ∧ r'.dur = some d' ∧ d.isExact = true ∧ d'.isExact = true ∧
      d.exactSeconds m = e2.inst m - s.inst m ∧ d'.exactSeconds m = d.exactSeconds m ∧
      Dur.eq m d' d = true ∧
      r.start = some s ∧ r.second = some e2 ∧ r'.start = some s' ∧ r'.second = some e2' ∧
      (iter m r fuel).length = n ∧ (iter m r' fuel).length = n ∧
      SeriesOK m s.date.rep s.tz (iter m r fuel) (s.inst m) (e2.inst m - s.inst m) ∧
      SeriesOK m s.date.rep s.tz (iter m r' fuel) (s.inst m + x.exactSeconds m) (e2.inst m - s.inst m) ∧
      (∀ (k : Nat) (p : TP), (iter m r fuel)[k]? = some p →
        ∃ p', (iter m r' fuel)[k]? = some p' ∧ p'.inst m = p.inst m + x.exactSeconds m ∧
          p.Valid m ∧ p'.Valid m ∧ p'.date.rep = p.date.rep ∧ p'.tz = p.tz) := by
  obtain ⟨r, hr, hlen, hser⟩ := (C12_start_second m s e2 hs he hlt fuel).2 n hn hf
  obtain ⟨d, _, dex, dsec, _, h2⟩ := mkRec_fmt1 m (some (n : Int)) s e2 hs he hlt
    (fun k h => by cases h; omega)
  obtain ⟨en, hr0, _⟩ := h2 n rfl
  rw [hr] at hr0
  have hre : r = ⟨some (n : Int), some s, some d, some en, some e2, 1⟩ := by simpa using hr0
  obtain ⟨s', hs', g1⟩ := addDur_exact m s x hs hx
  obtain ⟨e2', he2', g2⟩ := addDur_exact m e2 x he hx
  have hlt' : s'.inst m < e2'.inst m := by rw [g1.inst, g2.inst]; omega
  obtain ⟨r', hr', hlen', hser'⟩ := (C12_start_second m s' e2' g1.strict.1 g2.strict.1 hlt' fuel).2 n hn hf
  obtain ⟨d', _, dex', dsec', _, h2'⟩ := mkRec_fmt1 m (some (n : Int)) s' e2' g1.strict.1 g2.strict.1 hlt'
    (fun k h => by cases h; omega)
  obtain ⟨en', hr1, _⟩ := h2' n rfl
  rw [hr'] at hr1
  have hre' : r' = ⟨some (n : Int), some s', some d', some en', some e2', 1⟩ := by simpa using hr1
  have estep : e2'.inst m - s'.inst m = e2.inst m - s.inst m := by rw [g1.inst, g2.inst]; omega
  rw [g1.rep, g1.tz, estep, g1.inst] at hser'
  have hpw := series_shift_get? m _ _ _ _ _ _ _ hser hser' (by omega)
  have hdd : d'.exactSeconds m = d.exactSeconds m := by omega
  subst hre hre'
  refine ⟨_, _, s', e2', d, d', hr, hs', g1.inst, he2', g2.inst, ?_, rfl, rfl, rfl, rfl, rfl, rfl, dex, dex',
    dsec, hdd, dur_eq_of_exact m d' d dex' dex hdd, rfl, rfl, rfl, rfl, hlen, hlen', hser, hser', hpw⟩
  rw [shift_fmt1_eq m _ s s' e2 e2' _ _ x hs' he2', hr']

example : (2 : Nat) ≤ 4 ∧ (⟨.cal 2001 2 28, 12, 0, 0, ⟨1, 0⟩⟩ : TP).Valid .greg ∧
    (⟨.ord 2001 60, 6, 30, 0, ⟨-2, 0⟩⟩ : TP).Valid .greg ∧
    (⟨.cal 2001 2 28, 12, 0, 0, ⟨1, 0⟩⟩ : TP).inst .greg < (⟨.ord 2001 60, 6, 30, 0, ⟨-2, 0⟩⟩ : TP).inst .greg ∧
    (Dur.units 0 0 (-1) 0 0 0).isExact = true := by decide +kernel
example : (mkRec .greg (some 4) (some ⟨.cal 2001 2 28, 12, 0, 0, ⟨1, 0⟩⟩) none
      (some ⟨.ord 2001 60, 6, 30, 0, ⟨-2, 0⟩⟩)).bind
    (fun r => (r.shift .greg (.units 0 0 (-1) 0 0 0)).map fun r' =>
      ((r.dur, r'.dur, r'.reps, r'.fmt), iter .greg r 9, iter .greg r' 9)) =
    some ((some (.units 0 0 0 21 30 0), some (.units 0 0 0 21 30 0), some 4, 1),
      [⟨.cal 2001 2 28, 12, 0, 0, ⟨1, 0⟩⟩, ⟨.cal 2001 3 1, 9, 30, 0, ⟨1, 0⟩⟩,
        ⟨.cal 2001 3 2, 7, 0, 0, ⟨1, 0⟩⟩, ⟨.cal 2001 3 3, 4, 30, 0, ⟨1, 0⟩⟩],
      [⟨.cal 2001 2 27, 12, 0, 0, ⟨1, 0⟩⟩, ⟨.cal 2001 2 28, 9, 30, 0, ⟨1, 0⟩⟩,
        ⟨.cal 2001 3 1, 7, 0, 0, ⟨1, 0⟩⟩, ⟨.cal 2001 3 2, 4, 30, 0, ⟨1, 0⟩⟩]) := by
  decide +kernel

/-- **Shifting an unbounded start/second-point recurrence (`R/start/second`) by an exact `x`**:
    same (absent) repetitions and notation, an exact interval of the same length (`d' == d`), and
    the first `fuel` points are the original ones each moved by exactly `x`. -/
theorem C14_shift_start_second_unbounded (m : Mode) (s e2 : TP) (x : Dur)
    (hs : s.Valid m) (he : e2.Valid m) (hlt : s.inst m < e2.inst m) (hx : x.isExact = true)
    (fuel : Nat) :
    ∃ r r' s' e2' d d', mkRec m none (some s) none (some e2) = some r ∧
      addDur m s x = some s' ∧ s'.inst m = s.inst m + x.exactSeconds m ∧
      addDur m e2 x = some e2' ∧ e2'.inst m = e2.inst m + x.exactSeconds m ∧
      r.shift m x = some r' ∧ r.fmt = 1 ∧ r'.fmt = 1 ∧ r.reps = none ∧ r'.reps = none ∧
      r.dur = some d ∧ r'.dur = some d' ∧ d.isExact = true ∧ d'.isExact = true ∧
      d.exactSeconds m = e2.inst m - s.inst m ∧ d'.exactSeconds m = d.exactSeconds m ∧
      Dur.eq m d' d = true ∧
      r.start = some s ∧ r.second = some e2 ∧ r'.start = some s' ∧ r'.second = some e2' ∧
      (iter m r fuel).length = fuel ∧ (iter m r' fuel).length = fuel ∧
      SeriesOK m s.date.rep s.tz (iter m r fuel) (s.inst m) (e2.inst m - s.inst m) ∧
      SeriesOK m s.date.rep s.tz (iter m r' fuel) (s.inst m + x.exactSeconds m) (e2.inst m - s.inst m) ∧
      (∀ (k : Nat) (p : TP), (iter m r fuel)[k]? = some p →
        ∃ p', (iter m r' fuel)[k]? = some p' ∧ p'.inst m = p.inst m + x.exactSeconds m ∧
          p.Valid m ∧ p'.Valid m ∧ p'.date.rep = p.date.rep ∧ p'.tz = p.tz) := by
  obtain ⟨r, hr, hlen, hser⟩ := (C12_start_second m s e2 hs he hlt fuel).1
  obtain ⟨d, _, dex, dsec, h1, _⟩ := mkRec_fmt1 m none s e2 hs he hlt (fun k h => by cases h)
  have hr0 := h1 rfl
  rw [hr] at hr0
  have hre : r = ⟨none, some s, some d, none, some e2, 1⟩ := by simpa using hr0
  obtain ⟨s', hs', g1⟩ := addDur_exact m s x hs hx
  obtain ⟨e2', he2', g2⟩ := addDur_exact m e2 x he hx
  have hlt' : s'.inst m < e2'.inst m := by rw [g1.inst, g2.inst]; omega
  obtain ⟨r', hr', hlen', hser'⟩ := (C12_start_second m s' e2' g1.strict.1 g2.strict.1 hlt' fuel).1
  obtain ⟨d', _, dex', dsec', h1', _⟩ := mkRec_fmt1 m none s' e2' g1.strict.1 g2.strict.1 hlt'
    (fun k h => by cases h)
  have hr1 := h1' rfl
  rw [hr'] at hr1
  have hre' : r' = ⟨none, some s', some d', none, some e2', 1⟩ := by simpa using hr1
  have estep : e2'.inst m - s'.inst m = e2.inst m - s.inst m := by rw [g1.inst, g2.inst]; omega
  rw [g1.rep, g1.tz, estep, g1.inst] at hser'
  have hpw := series_shift_get? m _ _ _ _ _ _ _ hser hser' (by omega)
  have hdd : d'.exactSeconds m = d.exactSeconds m := by omega
  subst hre hre'
  refine ⟨_, _, s', e2', d, d', hr, hs', g1.inst, he2', g2.inst, ?_, rfl, rfl, rfl, rfl, rfl, rfl, dex, dex',
    dsec, hdd, dur_eq_of_exact m d' d dex' dex hdd, rfl, rfl, rfl, rfl, hlen, hlen', hser, hser', hpw⟩
  rw [shift_fmt1_eq m _ s s' e2 e2' _ _ x hs' he2', hr']

example : (⟨.cal 1999 12 30, 23, 0, 0, ⟨0, 0⟩⟩ : TP).Valid .d360 ∧
    (⟨.cal 2000 1 1, 1, 0, 0, ⟨0, 0⟩⟩ : TP).Valid .d360 ∧
    (⟨.cal 1999 12 30, 23, 0, 0, ⟨0, 0⟩⟩ : TP).inst .d360 < (⟨.cal 2000 1 1, 1, 0, 0, ⟨0, 0⟩⟩ : TP).inst .d360 ∧
    (Dur.units 0 0 0 0 0 3600).isExact = true := by decide +kernel
example : (mkRec .d360 none (some ⟨.cal 1999 12 30, 23, 0, 0, ⟨0, 0⟩⟩) none
      (some ⟨.cal 2000 1 1, 1, 0, 0, ⟨0, 0⟩⟩)).bind
    (fun r => (r.shift .d360 (.units 0 0 0 0 0 3600)).map fun r' =>
      ((r.dur, r'.dur, r'.reps, r'.fmt), iter .d360 r 2, iter .d360 r' 2)) =
    some ((some (.units 0 0 0 2 0 0), some (.units 0 0 0 2 0 0), none, 1),
      [⟨.cal 1999 12 30, 23, 0, 0, ⟨0, 0⟩⟩, ⟨.cal 2000 1 1, 1, 0, 0, ⟨0, 0⟩⟩],
      [⟨.cal 2000 1 1, 0, 0, 0, ⟨0, 0⟩⟩, ⟨.cal 2000 1 1, 2, 0, 0, ⟨0, 0⟩⟩]) := by
  decide +kernel

/-! ## `(r + x) − x == r` in the remaining notations

  As in `C14_shift_inverse`, `r − x` is `r + (-1)·x` (`TimeRecurrence.__sub__`), and `==` is
  `TimeRecurrence.__eq__` (`Rec.eq`).  The notation is kept as well. -/

/-- **(r + x) − x == r** for an exact `x` (unbounded start/duration, exact interval). -/
theorem C14_shift_inverse_start_duration_unbounded (m : Mode) (s : TP) (d x : Dur) (hs : s.Valid m)
    (hex : d.isExact = true) (hpos : 0 < d.exactSeconds m) (hx : x.isExact = true) :
    ∃ r r1 r2, mkRec m none (some s) (some d) none = some r ∧ r.shift m x = some r1 ∧
      r1.shift m (x.mul (-1)) = some r2 ∧ Rec.eq m r2 r = true ∧ r2.fmt = r.fmt := by
  obtain ⟨s1, s2, hs1, g1, hs2, g2, hi2⟩ := addDur_neg_inst m s x hs hx
  refine ⟨⟨none, some s, some d, none, none, 3⟩, ⟨none, some s1, some d, none, none, 3⟩,
    ⟨none, some s2, some d, none, none, 3⟩, mkRec_fmt3_unbounded m s d hex hpos, ?_, ?_, ?_, rfl⟩
  · rw [shift_fmt3_eq m _ s s1 d x _ _ hs1]; exact mkRec_fmt3_unbounded m s1 d hex hpos
  · rw [shift_fmt3_eq m _ s1 s2 d _ _ _ hs2]; exact mkRec_fmt3_unbounded m s2 d hex hpos
  · rw [C14_eq_iff m _ _ ⟨fun y h => by cases h; exact g2.strict.1, fun y h => by cases h⟩
      ⟨fun y h => by cases h; exact hs, fun y h => by cases h⟩]
    refine ⟨rfl, Or.inr ⟨s2, s, rfl, rfl, hi2⟩, Or.inl ⟨rfl, rfl⟩, ?_⟩
    simp only [optDurEq]
    exact (dur_eq_iff m d d).mpr ⟨rfl, rfl⟩

example : (mkRec .greg none (some ⟨.cal 2002 5 4, 23, 0, 0, ⟨0, 0⟩⟩) (some (.units 0 0 0 1 0 0)) none).bind
    (fun r => (r.shift .greg (.units 0 0 0 (-3) 0 0)).bind fun r1 =>
      (r1.shift .greg ((Dur.units 0 0 0 (-3) 0 0).mul (-1))).map fun r2 => (Rec.eq .greg r2 r, decide (r2 = r))) =
    some (true, true) := by decide +kernel

/-- **(r + x) − x == r** for an exact `x` (duration/end, `n ≥ 2`, exact interval). -/
theorem C14_shift_inverse_duration_end (m : Mode) (n : Nat) (e : TP) (d x : Dur) (hn : 2 ≤ n)
    (he : e.Valid m) (hex : d.isExact = true) (hpos : 0 < d.exactSeconds m) (hx : x.isExact = true) :
    ∃ r r1 r2, mkRec m (some (n : Int)) none (some d) (some e) = some r ∧ r.shift m x = some r1 ∧
      r1.shift m (x.mul (-1)) = some r2 ∧ Rec.eq m r2 r = true ∧ r2.fmt = r.fmt := by
  obtain ⟨e1, e2, he1, g1, he2, g2, hi2⟩ := addDur_neg_inst m e x he hx
  obtain ⟨s0, hr, ss0, si0, _, _⟩ := mkRec_fmt4_bounded m n e d (by omega) he hex hpos
  obtain ⟨s1, hr1, ss1, si1, _, _⟩ := mkRec_fmt4_bounded m n e1 d (by omega) g1.strict.1 hex hpos
  obtain ⟨s2, hr2, ss2, si2, _, _⟩ := mkRec_fmt4_bounded m n e2 d (by omega) g2.strict.1 hex hpos
  refine ⟨⟨some (n : Int), some s0, some d, some e, none, 4⟩, ⟨some (n : Int), some s1, some d, some e1, none, 4⟩,
    ⟨some (n : Int), some s2, some d, some e2, none, 4⟩, hr, ?_, ?_, ?_, rfl⟩
  · rw [shift_fmt4_eq m _ _ _ e e1 d x he1]; exact hr1
  · rw [shift_fmt4_eq m _ _ _ e1 e2 d _ he2]; exact hr2
  · rw [C14_eq_iff m _ _ ⟨fun y h => by cases h; exact ss2.1, fun y h => by cases h; exact g2.strict.1⟩
      ⟨fun y h => by cases h; exact ss0.1, fun y h => by cases h; exact he⟩]
    refine ⟨rfl, Or.inr ⟨s2, s0, rfl, rfl, by rw [si2, si0, hi2]⟩, Or.inr ⟨e2, e, rfl, rfl, hi2⟩, ?_⟩
    simp only [optDurEq]
    exact (dur_eq_iff m d d).mpr ⟨rfl, rfl⟩

example : (mkRec .greg (some 3) none (some (.weeks 2)) (some ⟨.week 2004 31 2, 23, 59, 0, ⟨5, 30⟩⟩)).bind
    (fun r => (r.shift .greg (.units 0 0 1 0 0 30)).bind fun r1 =>
      (r1.shift .greg ((Dur.units 0 0 1 0 0 30).mul (-1))).map fun r2 => (Rec.eq .greg r2 r, decide (r2 = r))) =
    some (true, true) := by decide +kernel

/-- **(r + x) − x == r** for an exact `x` (unbounded duration/end, exact interval). -/
theorem C14_shift_inverse_duration_end_unbounded (m : Mode) (e : TP) (d x : Dur)
    (he : e.Valid m) (hex : d.isExact = true) (hpos : 0 < d.exactSeconds m) (hx : x.isExact = true) :
    ∃ r r1 r2, mkRec m none none (some d) (some e) = some r ∧ r.shift m x = some r1 ∧
      r1.shift m (x.mul (-1)) = some r2 ∧ Rec.eq m r2 r = true ∧ r2.fmt = r.fmt := by
  obtain ⟨e1, e2, he1, g1, he2, g2, hi2⟩ := addDur_neg_inst m e x he hx
  refine ⟨⟨none, none, some d, some e, none, 4⟩, ⟨none, none, some d, some e1, none, 4⟩,
    ⟨none, none, some d, some e2, none, 4⟩, mkRec_fmt4_unbounded m e d hex hpos, ?_, ?_, ?_, rfl⟩
  · rw [shift_fmt4_eq m _ _ _ e e1 d x he1]; exact mkRec_fmt4_unbounded m e1 d hex hpos
  · rw [shift_fmt4_eq m _ _ _ e1 e2 d _ he2]; exact mkRec_fmt4_unbounded m e2 d hex hpos
  · rw [C14_eq_iff m _ _ ⟨fun y h => (by cases h), fun y h => by cases h; exact g2.strict.1⟩
      ⟨fun y h => (by cases h), fun y h => by cases h; exact he⟩]
    refine ⟨rfl, Or.inl ⟨rfl, rfl⟩, Or.inr ⟨e2, e, rfl, rfl, hi2⟩, ?_⟩
    simp only [optDurEq]
    exact (dur_eq_iff m d d).mpr ⟨rfl, rfl⟩

/-- The round trip need not give back the identical object: an end given as `24:00:00` comes back
    as `00:00:00` of the next day — the same instant, so `==` holds. -/
example : (mkRec .greg none none (some (.units 0 0 0 0 90 0)) (some ⟨.ord 2000 366, 24, 0, 0, ⟨-3, 0⟩⟩)).bind
    (fun r => (r.shift .greg (.weeks (-1))).bind fun r1 =>
      (r1.shift .greg ((Dur.weeks (-1)).mul (-1))).map fun r2 => (Rec.eq .greg r2 r, decide (r2 = r))) =
    some (true, false) := by decide +kernel

/-- **(r + x) − x == r** for an exact `x` (start/second-point, `n ≥ 2`). -/
theorem C14_shift_inverse_start_second (m : Mode) (n : Nat) (s e2 : TP) (x : Dur) (hn : 2 ≤ n)
    (hs : s.Valid m) (he : e2.Valid m) (hlt : s.inst m < e2.inst m) (hx : x.isExact = true) :
    ∃ r r1 r2, mkRec m (some (n : Int)) (some s) none (some e2) = some r ∧ r.shift m x = some r1 ∧
      r1.shift m (x.mul (-1)) = some r2 ∧ Rec.eq m r2 r = true ∧ r2.fmt = r.fmt := by
  obtain ⟨s1, s2, hs1, gs1, hs2, gs2, his⟩ := addDur_neg_inst m s x hs hx
  obtain ⟨f1, f2, hf1, gf1, hf2, gf2, hif⟩ := addDur_neg_inst m e2 x he hx
  have hlt1 : s1.inst m < f1.inst m := by rw [gs1.inst, gf1.inst]; omega
  have hlt2 : s2.inst m < f2.inst m := by rw [his, hif]; exact hlt
  have hreps : ∀ k, some (n : Int) = some k → 2 ≤ k := fun k h => by cases h; omega
  obtain ⟨d0, _, dex0, dsec0, _, h0⟩ := mkRec_fmt1 m (some (n : Int)) s e2 hs he hlt hreps
  obtain ⟨d1, _, dex1, dsec1, _, h1⟩ := mkRec_fmt1 m (some (n : Int)) s1 f1 gs1.strict.1 gf1.strict.1 hlt1 hreps
  obtain ⟨d2, _, dex2, dsec2, _, h2⟩ := mkRec_fmt1 m (some (n : Int)) s2 f2 gs2.strict.1 gf2.strict.1 hlt2 hreps
  obtain ⟨en0, hr0, es0, ei0, _, _⟩ := h0 n rfl
  obtain ⟨en1, hr1, es1, ei1, _, _⟩ := h1 n rfl
  obtain ⟨en2, hr2, es2, ei2, _, _⟩ := h2 n rfl
  refine ⟨⟨some (n : Int), some s, some d0, some en0, some e2, 1⟩,
    ⟨some (n : Int), some s1, some d1, some en1, some f1, 1⟩,
    ⟨some (n : Int), some s2, some d2, some en2, some f2, 1⟩, hr0, ?_, ?_, ?_, rfl⟩
  · rw [shift_fmt1_eq m _ s s1 e2 f1 _ _ x hs1 hf1]; exact hr1
  · rw [shift_fmt1_eq m _ s1 s2 f1 f2 _ _ _ hs2 hf2]; exact hr2
  · rw [C14_eq_iff m _ _ ⟨fun y h => by cases h; exact gs2.strict.1, fun y h => by cases h; exact es2.1⟩
      ⟨fun y h => by cases h; exact hs, fun y h => by cases h; exact es0.1⟩]
    refine ⟨rfl, Or.inr ⟨s2, s, rfl, rfl, his⟩, Or.inr ⟨en2, en0, rfl, rfl, by rw [ei2, ei0, his, hif]⟩, ?_⟩
    simp only [optDurEq]
    exact dur_eq_of_exact m d2 d0 dex2 dex0 (by rw [dsec2, dsec0, his, hif])

example : (mkRec .greg (some 4) (some ⟨.cal 2001 2 28, 12, 0, 0, ⟨1, 0⟩⟩) none
      (some ⟨.ord 2001 60, 6, 30, 0, ⟨-2, 0⟩⟩)).bind
    (fun r => (r.shift .greg (.units 0 0 (-1) 0 0 0)).bind fun r1 =>
      (r1.shift .greg ((Dur.units 0 0 (-1) 0 0 0).mul (-1))).map fun r2 => (Rec.eq .greg r2 r, decide (r2 = r))) =
    some (true, true) := by decide +kernel

/-- **(r + x) − x == r** for an exact `x` (unbounded start/second-point). -/
theorem C14_shift_inverse_start_second_unbounded (m : Mode) (s e2 : TP) (x : Dur)
    (hs : s.Valid m) (he : e2.Valid m) (hlt : s.inst m < e2.inst m) (hx : x.isExact = true) :
    ∃ r r1 r2, mkRec m none (some s) none (some e2) = some r ∧ r.shift m x = some r1 ∧
      r1.shift m (x.mul (-1)) = some r2 ∧ Rec.eq m r2 r = true ∧ r2.fmt = r.fmt := by
  obtain ⟨s1, s2, hs1, gs1, hs2, gs2, his⟩ := addDur_neg_inst m s x hs hx
  obtain ⟨f1, f2, hf1, gf1, hf2, gf2, hif⟩ := addDur_neg_inst m e2 x he hx
  have hlt1 : s1.inst m < f1.inst m := by rw [gs1.inst, gf1.inst]; omega
  have hlt2 : s2.inst m < f2.inst m := by rw [his, hif]; exact hlt
  have hreps : ∀ k, (none : Option Int) = some k → 2 ≤ k := fun k h => by cases h
  obtain ⟨d0, _, dex0, dsec0, h0, _⟩ := mkRec_fmt1 m none s e2 hs he hlt hreps
  obtain ⟨d1, _, dex1, dsec1, h1, _⟩ := mkRec_fmt1 m none s1 f1 gs1.strict.1 gf1.strict.1 hlt1 hreps
  obtain ⟨d2, _, dex2, dsec2, h2, _⟩ := mkRec_fmt1 m none s2 f2 gs2.strict.1 gf2.strict.1 hlt2 hreps
  refine ⟨⟨none, some s, some d0, none, some e2, 1⟩, ⟨none, some s1, some d1, none, some f1, 1⟩,
    ⟨none, some s2, some d2, none, some f2, 1⟩, h0 rfl, ?_, ?_, ?_, rfl⟩
  · rw [shift_fmt1_eq m _ s s1 e2 f1 _ _ x hs1 hf1]; exact h1 rfl
  · rw [shift_fmt1_eq m _ s1 s2 f1 f2 _ _ _ hs2 hf2]; exact h2 rfl
  · rw [C14_eq_iff m _ _ ⟨fun y h => by cases h; exact gs2.strict.1, fun y h => by cases h⟩
      ⟨fun y h => by cases h; exact hs, fun y h => by cases h⟩]
    refine ⟨rfl, Or.inr ⟨s2, s, rfl, rfl, his⟩, Or.inl ⟨rfl, rfl⟩, ?_⟩
    simp only [optDurEq]
    exact dur_eq_of_exact m d2 d0 dex2 dex0 (by rw [dsec2, dsec0, his, hif])

example : (mkRec .d360 none (some ⟨.cal 1999 12 30, 23, 0, 0, ⟨0, 0⟩⟩) none
      (some ⟨.cal 2000 1 1, 1, 0, 0, ⟨0, 0⟩⟩)).bind
    (fun r => (r.shift .d360 (.units 0 0 0 0 0 3600)).bind fun r1 =>
      (r1.shift .d360 ((Dur.units 0 0 0 0 0 3600).mul (-1))).map fun r2 => (Rec.eq .d360 r2 r, decide (r2 = r))) =
    some (true, true) := by decide +kernel

/-! ## Single-point recurrences in start/second-point notation -/

/-- **A single-point start/second-point recurrence keeps its anchor when shifted.**  The
    constructor stores `R1/start/second` as the single point `start`, and `Rn/start/second`
    (or `R/start/second`) with `second == start` as the single point `start` too (keeping the
    given second point).  Shifting either by an exact `x` gives the single-point recurrence at
    `start + x`, which iterates exactly that point. -/
theorem C14_shift_single_start_second (m : Mode) (s e2 : TP) (x : Dur) (hs : s.Valid m) (he : e2.Valid m)
    (hx : x.isExact = true) (fuel : Nat) (hf : 1 ≤ fuel) :
    ∃ s', addDur m s x = some s' ∧ s'.inst m = s.inst m + x.exactSeconds m ∧ s'.Valid m ∧
      s'.date.rep = s.date.rep ∧ s'.tz = s.tz ∧
      mkRec m (some 1) (some s) none (some e2) = some ⟨some 1, some s, none, some s, some s, 1⟩ ∧
      (s.inst m = e2.inst m → ∀ reps : Option Int, (∀ n, reps = some n → 2 ≤ n) →
        mkRec m reps (some s) none (some e2) = some ⟨some 1, some s, none, some e2, some e2, 1⟩) ∧
      (⟨some 1, some s, none, some s, some s, 1⟩ : Rec).shift m x =
        some ⟨some 1, some s', none, some s', some s', 1⟩ ∧
      (⟨some 1, some s, none, some e2, some e2, 1⟩ : Rec).shift m x =
        some ⟨some 1, some s', none, some s', some s', 1⟩ ∧
      iter m ⟨some 1, some s, none, some s, some s, 1⟩ fuel = [s] ∧
      (s.inst m = e2.inst m → iter m ⟨some 1, some s, none, some e2, some e2, 1⟩ fuel = [s]) ∧
      iter m ⟨some 1, some s', none, some s', some s', 1⟩ fuel = [s'] := by
  obtain ⟨s', hs', g⟩ := addDur_exact m s x hs hx
  obtain ⟨e2', he2', _⟩ := addDur_exact m e2 x he hx
  have hfuel : ¬ fuel = 0 := by omega
  have hmk : ∀ (a b : TP), mkRec m (some 1) (some a) none (some b) =
      some ⟨some 1, some a, none, some a, some a, 1⟩ := by
    intro a b
    unfold mkRec
    simp only [show ¬ ((1 : Int) ≤ 0) by omega, decide_false, Bool.false_eq_true, ↓reduceIte]
  have hit : ∀ a : TP, iter m ⟨some 1, some a, none, some a, some a, 1⟩ fuel = [a] := by
    intro a
    have hb : inBounds m ⟨some 1, some a, none, some a, some a, 1⟩ a = true := by
      simp [inBounds, tpLt, tpGt, cmp]
    unfold iter
    simp [hfuel, hb]
  refine ⟨s', hs', g.inst, g.strict.1, g.rep, g.tz, hmk s e2, ?_, ?_, ?_, hit s, ?_, hit s'⟩
  · intro heq reps hreps
    have c1 : tpEq m s e2 = true := (tpEq_iff m s e2 hs he).mpr heq
    cases reps with
    | none =>
      unfold mkRec
      simp only [Bool.false_eq_true, ↓reduceIte, reduceCtorEq, c1]
    | some n =>
      have h2 := hreps n rfl
      have k1 : ¬ n ≤ 0 := by omega
      have k2 : ¬ (n = 1) := by omega
      unfold mkRec
      simp only [k1, decide_false, Bool.false_eq_true, ↓reduceIte, Option.some.injEq, k2, c1]
  · rw [shift_fmt1_eq m _ s s' s s' _ _ x hs' hs']; exact hmk s' s'
  · rw [shift_fmt1_eq m _ s s' e2 e2' _ _ x hs' he2']; exact hmk s' e2'
  · intro heq
    have hb : inBounds m ⟨some 1, some s, none, some e2, some e2, 1⟩ s = true := by
      have c2 : tpGt m s e2 = false := by
        cases h : tpGt m s e2
        · rfl
        · have := (tpGt_iff m s e2 hs he).mp h; omega
      simp [inBounds, tpLt, cmp, c2]
    unfold iter
    simp [hfuel, hb]

example : (⟨.cal 2002 5 4, 23, 0, 0, ⟨0, 0⟩⟩ : TP).Valid .greg ∧ (⟨.cal 2002 5 5, 1, 0, 0, ⟨2, 0⟩⟩ : TP).Valid .greg ∧
    (⟨.cal 2002 5 4, 23, 0, 0, ⟨0, 0⟩⟩ : TP).inst .greg = (⟨.cal 2002 5 5, 1, 0, 0, ⟨2, 0⟩⟩ : TP).inst .greg ∧
    (Dur.units 0 0 0 1 0 0).isExact = true := by decide +kernel
example : (mkRec .greg (some 5) (some ⟨.cal 2002 5 4, 23, 0, 0, ⟨0, 0⟩⟩) none
      (some ⟨.cal 2002 5 5, 1, 0, 0, ⟨2, 0⟩⟩)).bind (fun r => r.shift .greg (.units 0 0 0 1 0 0)) =
    some ⟨some 1, some ⟨.cal 2002 5 5, 0, 0, 0, ⟨0, 0⟩⟩, none, some ⟨.cal 2002 5 5, 0, 0, 0, ⟨0, 0⟩⟩,
      some ⟨.cal 2002 5 5, 0, 0, 0, ⟨0, 0⟩⟩, 1⟩ := by decide +kernel

end IsoDT.Props.C14
