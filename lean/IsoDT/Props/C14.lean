/-
  C14 — Recurrences are values: shifting, equality, hashing (text round trip: see C07/C08 layer).

  `Model.Rec.shift` mirrors `TimeRecurrence.__add__(Duration)` (and `__sub__`, `Duration + rec`
  which dispatch to it); `Model.Rec.eq` / `Rec.hashKey` mirror `__eq__` / `__hash__`.
-/
import IsoDT.Props.C12

namespace IsoDT.Props.C14
open IsoDT IsoDT.Model IsoDT.Lemmas IsoDT.Props.C12
open IsoDT.Spec (Date TZ TP)

/-- **Shifting a start/duration recurrence (`n ≥ 2`, exact interval) by an exact `x`**: the result
    is the recurrence with the same repetitions and interval whose start is moved by `x`; hence
    (C12) its `n` points are the original points each moved by exactly `x`. -/
theorem C14_shift_start_duration (m : Mode) (n : Nat) (s : TP) (d x : Dur) (hn : 2 ≤ n) (hs : s.Valid m)
    (hex : d.isExact = true) (hpos : 0 < d.exactSeconds m) (hx : x.isExact = true)
    (fuel : Nat) (hf : n ≤ fuel) :
    ∃ r r' s', mkRec m (some (n : Int)) (some s) (some d) none = some r ∧
      addDur m s x = some s' ∧ s'.inst m = s.inst m + x.exactSeconds m ∧
      r.shift m x = some r' ∧ r'.reps = some (n : Int) ∧ r'.dur = some d ∧ r'.start = some s' ∧
      (iter m r fuel).length = n ∧ (iter m r' fuel).length = n ∧
      SeriesOK m s.date.rep s.tz (iter m r fuel) (s.inst m) (d.exactSeconds m) ∧
      SeriesOK m s.date.rep s.tz (iter m r' fuel) (s.inst m + x.exactSeconds m) (d.exactSeconds m) := by
  obtain ⟨r, hr, hlen, _, hser⟩ := C12_start_duration_bounded m n s d hn hs hex hpos fuel hf
  obtain ⟨e, hr0, _⟩ := mkRec_fmt3_bounded m n s d (by omega) hs hex hpos
  rw [hr] at hr0
  have hre : r = ⟨some (n : Int), some s, some d, some e, none, 3⟩ := by simpa using hr0
  obtain ⟨s', hs', g⟩ := addDur_exact m s x hs hx
  obtain ⟨r', hr', hlen', _, hser'⟩ := C12_start_duration_bounded m n s' d hn g.strict.1 hex hpos fuel hf
  obtain ⟨e', hr1, _⟩ := mkRec_fmt3_bounded m n s' d (by omega) g.strict.1 hex hpos
  rw [hr'] at hr1
  have hre' : r' = ⟨some (n : Int), some s', some d, some e', none, 3⟩ := by simpa using hr1
  refine ⟨r, r', s', hr, hs', g.inst, ?_, by rw [hre'], by rw [hre'], by rw [hre'], hlen, hlen', hser, ?_⟩
  · rw [hre]
    simp only [Rec.shift, hs', Option.bind_some, Option.getD_some, hr']
  · rw [g.rep, g.tz, g.inst] at hser'; exact hser'

/-- **Single-point recurrences keep their anchor when shifted** (repaired defect F4): one
    repetition (or a zero interval) in start/duration or duration/end notation. -/
theorem C14_shift_single (m : Mode) (s : TP) (x : Dur) (hs : s.Valid m) (hx : x.isExact = true) :
    ∃ s', addDur m s x = some s' ∧ s'.inst m = s.inst m + x.exactSeconds m ∧
      (⟨some 1, some s, none, some s, none, 3⟩ : Rec).shift m x =
        some ⟨some 1, some s', none, some s', none, 3⟩ ∧
      (⟨some 1, some s, none, some s, none, 4⟩ : Rec).shift m x =
        some ⟨some 1, some s', none, some s', none, 4⟩ := by
  obtain ⟨s', hs', g⟩ := addDur_exact m s x hs hx
  refine ⟨s', hs', g.inst, ?_, ?_⟩
  · have := (C12_single m (some 1) s' Dur.zero zero_exact (by rw [zero_seconds]; omega)
      (fun n h => by cases h; omega) (Or.inl rfl) 1 (by omega)).1
    simp only [Rec.shift, hs', Option.bind_some, Option.getD_none, this]
  · simp only [Rec.shift, hs', Option.bind_some, Option.getD_none]
    unfold mkRec
    simp [lt_zero_false m Dur.zero zero_exact (by rw [zero_seconds]; omega)]

/-! ### equality and hashing -/

theorem optTpEq_iff (m : Mode) (a b : Option TP) (ha : ∀ x, a = some x → x.Valid m)
    (hb : ∀ x, b = some x → x.Valid m) :
    optTpEq m a b = true ↔ (a = none ∧ b = none) ∨ ∃ x y, a = some x ∧ b = some y ∧ x.inst m = y.inst m := by
  cases a <;> cases b <;> simp only [optTpEq]
  · simp
  · simp
  · simp
  · rename_i x y
    rw [tpEq_iff m x y (ha x rfl) (hb y rfl)]
    simp

/-- **Equality of recurrences**: repetitions equal, start points at the same instant (or both
    absent), end points likewise, intervals equal as durations.  So recurrences that differ in
    repetitions, start, end or interval are unequal. -/
theorem C14_eq_iff (m : Mode) (a b : Rec)
    (hva : (∀ x, a.start = some x → x.Valid m) ∧ (∀ x, a.end_ = some x → x.Valid m))
    (hvb : (∀ x, b.start = some x → x.Valid m) ∧ (∀ x, b.end_ = some x → x.Valid m)) :
    Rec.eq m a b = true ↔
      a.reps = b.reps ∧
      ((a.start = none ∧ b.start = none) ∨ ∃ x y, a.start = some x ∧ b.start = some y ∧ x.inst m = y.inst m) ∧
      ((a.end_ = none ∧ b.end_ = none) ∨ ∃ x y, a.end_ = some x ∧ b.end_ = some y ∧ x.inst m = y.inst m) ∧
      optDurEq m a.dur b.dur = true := by
  unfold Rec.eq
  simp only [Bool.and_eq_true, beq_iff_eq]
  rw [optTpEq_iff m _ _ hva.1 hvb.1, optTpEq_iff m _ _ hva.2 hvb.2]
  constructor
  · rintro ⟨⟨⟨h1, h2⟩, h3⟩, h4⟩; exact ⟨h1, h2, h3, h4⟩
  · rintro ⟨h1, h2, h3, h4⟩; exact ⟨⟨⟨h1, h2⟩, h3⟩, h4⟩

theorem durHashKey_eq (m : Mode) (a : Dur) : Dur.hashKey m a = ((durYm a).1, (durYm a).2, a.exactSeconds m) := by
  cases a <;> rfl

/-- **Equal recurrences have equal hashes** (hash keys of their components agree). -/
theorem C14_hash (m : Mode) (a b : Rec)
    (hva : (∀ x, a.start = some x → x.Valid m) ∧ (∀ x, a.end_ = some x → x.Valid m))
    (hvb : (∀ x, b.start = some x → x.Valid m) ∧ (∀ x, b.end_ = some x → x.Valid m))
    (h : Rec.eq m a b = true) : Rec.hashKey m a = Rec.hashKey m b := by
  obtain ⟨h1, h2, h3, h4⟩ := (C14_eq_iff m a b hva hvb).mp h
  unfold Rec.hashKey
  have k2 : a.start.map (Model.hashKey m) = b.start.map (Model.hashKey m) := by
    rcases h2 with ⟨x, y⟩ | ⟨x, y, hx, hy, hi⟩
    · rw [x, y]
    · rw [hx, hy]
      simp only [Option.map_some]
      rw [(hashKey_eq_of_inst_eq m x y (hva.1 x hx) (hvb.1 y hy) hi).1]
  have k3 : a.end_.map (Model.hashKey m) = b.end_.map (Model.hashKey m) := by
    rcases h3 with ⟨x, y⟩ | ⟨x, y, hx, hy, hi⟩
    · rw [x, y]
    · rw [hx, hy]
      simp only [Option.map_some]
      rw [(hashKey_eq_of_inst_eq m x y (hva.2 x hx) (hvb.2 y hy) hi).1]
  have k4 : a.dur.map (Dur.hashKey m) = b.dur.map (Dur.hashKey m) := by
    cases ha : a.dur with
    | none =>
      cases hb : b.dur with
      | none => rfl
      | some y => rw [ha, hb] at h4; simp [optDurEq] at h4
    | some x =>
      cases hb : b.dur with
      | none => rw [ha, hb] at h4; simp [optDurEq] at h4
      | some y =>
        rw [ha, hb] at h4
        have := (dur_eq_iff m x y).mp h4
        simp only [Option.map_some]
        rw [durHashKey_eq, durHashKey_eq, this.1, this.2]
  rw [h1, k2, k3, k4]

/-- **(r + x) − x == r** for an exact `x` (start/duration, `n ≥ 2`, exact interval). -/
theorem C14_shift_inverse (m : Mode) (n : Nat) (s : TP) (d x : Dur) (hn : 2 ≤ n) (hs : s.Valid m)
    (hex : d.isExact = true) (hpos : 0 < d.exactSeconds m) (hx : x.isExact = true) :
    ∃ r r1 r2, mkRec m (some (n : Int)) (some s) (some d) none = some r ∧ r.shift m x = some r1 ∧
      r1.shift m (x.mul (-1)) = some r2 ∧ Rec.eq m r2 r = true := by
  obtain ⟨e, hr, es, ei, _, _⟩ := mkRec_fmt3_bounded m n s d (by omega) hs hex hpos
  obtain ⟨s1, hs1, g1⟩ := addDur_exact m s x hs hx
  obtain ⟨e1, hr1, es1, ei1, _, _⟩ := mkRec_fmt3_bounded m n s1 d (by omega) g1.strict.1 hex hpos
  obtain ⟨s2, hs2, g2⟩ := addDur_exact m s1 (x.mul (-1)) g1.strict.1 (mul_exact x _ hx)
  obtain ⟨e2, hr2, es2, ei2, _, _⟩ := mkRec_fmt3_bounded m n s2 d (by omega) g2.strict.1 hex hpos
  have hi2 : s2.inst m = s.inst m := by
    rw [g2.inst, g1.inst, mul_exactSeconds]; omega
  refine ⟨⟨some (n : Int), some s, some d, some e, none, 3⟩, ⟨some (n : Int), some s1, some d, some e1, none, 3⟩,
    ⟨some (n : Int), some s2, some d, some e2, none, 3⟩, hr, ?_, ?_, ?_⟩
  · simp only [Rec.shift, hs1, Option.bind_some, Option.getD_some, hr1]
  · simp only [Rec.shift, hs2, Option.bind_some, Option.getD_some, hr2]
  · rw [C14_eq_iff m _ _ ⟨fun y h => by cases h; exact g2.strict.1, fun y h => by cases h; exact es2.1⟩
      ⟨fun y h => by cases h; exact hs, fun y h => by cases h; exact es.1⟩]
    refine ⟨rfl, Or.inr ⟨s2, s, rfl, rfl, hi2⟩, Or.inr ⟨e2, e, rfl, rfl, by rw [ei2, ei, hi2]⟩, ?_⟩
    simp only [optDurEq]
    exact (dur_eq_iff m d d).mpr ⟨rfl, rfl⟩

/-! ## Non-vacuity: the witness of the repaired defect F4 -/

example : (⟨some 1, some ⟨.cal 2002 5 4, 23, 0, 0, ⟨0, 0⟩⟩, none, some ⟨.cal 2002 5 4, 23, 0, 0, ⟨0, 0⟩⟩,
    none, 4⟩ : Rec).shift .greg (.units 0 0 0 1 0 0) =
    some ⟨some 1, some ⟨.cal 2002 5 5, 0, 0, 0, ⟨0, 0⟩⟩, none, some ⟨.cal 2002 5 5, 0, 0, 0, ⟨0, 0⟩⟩,
    none, 4⟩ := by decide +kernel

end IsoDT.Props.C14
