import IsoDT.Model.Recurrence
namespace IsoDT.Props.C14
theorem placeholder : (1 : Nat) = 1 := rfl
end IsoDT.Props.C14
