/-
  C14 (month/year intervals, any shift) — shifting a recurrence whose interval has months and/or
  years, by ANY duration `x` (exact or not, either sign).

  `Model.Rec.shift` mirrors `TimeRecurrence.__add__(Duration)`.  `NominalNonneg d`: unit form, every
  component `≥ 0`, years or months non-zero (`Lemmas/NominalMono.lean`).  `repeatAdd m d n p` is
  `p, p+d, (p+d)+d, …` (`Lemmas/RecNominal.lean`).

  Proved here, for every mode, every valid whole-second anchor (24:00 form included), every
  representation and offset:
  * `p + x` is defined for every duration `x` and every valid `p` (`C14_anchor_shift_total`), so
    `r + x` never fails;
  * start/duration and duration/end notation, unbounded and `n ≥ 2`, and the single-point
    collapse: `r + x` is what the constructor builds from the anchor moved by `x`, the same
    repetitions and the same interval — "the recurrence with the same repetitions and interval
    whose anchor point is moved by `x`" — and its iteration is the series of repeated additions
    from the moved anchor (cut at the RE-DERIVED far bound when bounded);
  * the far bound of a bounded recurrence is re-derived from the moved anchor
    (`(s + x) + (n−1)·d`), which is in general NOT the old bound moved by `x`
    (`C14_shift_nominal_bound_rederived`), and the points of the series do not all move by `x`
    (`C14_shift_nominal_points_do_not_all_move`) — the property's pointwise clause is claimed for
    exact intervals only;
  * `(r + x) − x == r` for exact `x`, all four cases; and `(r + x) − x` is the identical stored
    recurrence when the anchor is written with `h < 24`.
-/
import IsoDT.Props.C12b
import IsoDT.Props.C14
import IsoDT.Lemmas.RecNominalQuery

namespace IsoDT.Props.C14
open IsoDT IsoDT.Model IsoDT.Lemmas IsoDT.Props.C12
open IsoDT.Spec (Date TZ TP)

/-- **`p + x` never fails**: for every duration `x` (weeks or units, exact or month/year, any
    signs) and every valid point `p`, `p + x` is a valid point with `0 ≤ h < 24` in `p`'s
    representation and offset; for an exact `x` it is exactly `x`'s length later (C01). -/
theorem C14_anchor_shift_total (m : Mode) (p : TP) (x : Dur) (hp : p.Valid m) :
    ∃ q, addDur m p x = some q ∧ q.Strict m ∧ q.date.rep = p.date.rep ∧ q.tz = p.tz ∧
      (x.isExact = true → q.inst m = p.inst m + x.exactSeconds m) := by
  obtain ⟨q, e, sq, rq, tq⟩ := addDur_total m p x hp
  refine ⟨q, e, sq, rq, tq, ?_⟩
  intro hx
  obtain ⟨q', e', g⟩ := addDur_exact m p x hp hx
  rw [e] at e'; cases e'
  exact g.inst

example : (⟨.cal 2001 1 31, 24, 0, 0, ⟨1, 0⟩⟩ : TP).Valid .greg ∧
    addDur .greg ⟨.cal 2001 1 31, 24, 0, 0, ⟨1, 0⟩⟩ (.units (-1) 13 0 (-5) 0 0) =
      some ⟨.cal 2001 2 28, 19, 0, 0, ⟨1, 0⟩⟩ := by decide +kernel

/-! ### start/duration notation -/

/-- **Shifting `R/start/d` (month/year interval) by any `x`**: the result is `R/(start + x)/d` —
    what the constructor builds from the moved start, the same (absent) repetitions and the same
    interval, same notation — and it iterates `start+x, (start+x)+d, ((start+x)+d)+d, …`. -/
theorem C14_shift_nominal_start_duration_unbounded (m : Mode) (s : TP) (d x : Dur) (hs : s.Valid m)
    (hd : NominalNonneg d) (fuel : Nat) :
    ∃ r r' s', mkRec m none (some s) (some d) none = some r ∧
      addDur m s x = some s' ∧ s'.Strict m ∧ s'.date.rep = s.date.rep ∧ s'.tz = s.tz ∧
      (x.isExact = true → s'.inst m = s.inst m + x.exactSeconds m) ∧
      r.shift m x = some r' ∧ mkRec m none (some s') (some d) none = some r' ∧
      r = ⟨none, some s, some d, none, none, 3⟩ ∧ r' = ⟨none, some s', some d, none, none, 3⟩ ∧
      iter m r fuel = repeatAdd m d fuel s ∧ iter m r' fuel = repeatAdd m d fuel s' := by
  obtain ⟨s', hs', ss', rs', ts', ex⟩ := C14_anchor_shift_total m s x hs
  have hr := mkRec_fmt3_unbounded_nominal m s d hd
  have hr' := mkRec_fmt3_unbounded_nominal m s' d hd
  refine ⟨_, _, s', hr, hs', ss', rs', ts', ex, ?_, hr', rfl, rfl, ?_, ?_⟩
  · rw [shift_fmt3_eq m _ s s' d x _ _ hs', hr']
  · rw [iter_nominal_fwd m _ d (nomRec_fmt3_unbounded m s d hs hd) s rfl fuel]
    exact takeWhile_true _ (fun _ => rfl) _
  · rw [iter_nominal_fwd m _ d (nomRec_fmt3_unbounded m s' d ss'.1 hd) s' rfl fuel]
    exact takeWhile_true _ (fun _ => rfl) _

/-- `R/2001-01-30T00Z/P1M` shifted by the month/year duration `P1M1D`: anchor 2001-03-01 (30 Jan + 1
    day = 31 Jan, + 1 month = 28 Feb … in `__add__`'s order: days first, then months). -/
example : NominalNonneg (.units 0 1 0 0 0 0) ∧ (⟨.cal 2001 1 30, 0, 0, 0, ⟨0, 0⟩⟩ : TP).Valid .greg ∧
    (mkRec .greg none (some ⟨.cal 2001 1 30, 0, 0, 0, ⟨0, 0⟩⟩) (some (.units 0 1 0 0 0 0)) none).bind
      (fun r => (r.shift .greg (.units 0 1 1 0 0 0)).map fun r' => (r', iter .greg r' 3)) =
    some (⟨none, some ⟨.cal 2001 2 28, 0, 0, 0, ⟨0, 0⟩⟩, some (.units 0 1 0 0 0 0), none, none, 3⟩,
      [⟨.cal 2001 2 28, 0, 0, 0, ⟨0, 0⟩⟩, ⟨.cal 2001 3 28, 0, 0, 0, ⟨0, 0⟩⟩,
       ⟨.cal 2001 4 28, 0, 0, 0, ⟨0, 0⟩⟩]) := by decide +kernel

/-- **Shifting `Rn/start/d` (`n ≥ 2`, month/year interval) by any `x`**: the result is
    `Rn/(start + x)/d` — what the constructor builds from the moved start, the same repetitions,
    the same interval, same notation.  Its far bound is re-derived from the moved start by ONE
    multiplied addition, `e' = (start + x) + (n−1)·d`, and its iteration is the series of repeated
    additions from `start + x` cut at the first point after `e'` (finding F5 applies to the
    shifted recurrence exactly as to any constructed one). -/
theorem C14_shift_nominal_start_duration (m : Mode) (n : Nat) (s : TP) (d x : Dur) (hn : 2 ≤ n)
    (hs : s.Valid m) (hd : NominalNonneg d) (fuel : Nat) :
    ∃ e r s' e' r', addDur m s (d.mul ((n : Int) - 1)) = some e ∧
      mkRec m (some (n : Int)) (some s) (some d) none = some r ∧
      r = ⟨some (n : Int), some s, some d, some e, none, 3⟩ ∧
      addDur m s x = some s' ∧ s'.Strict m ∧ s'.date.rep = s.date.rep ∧ s'.tz = s.tz ∧
      (x.isExact = true → s'.inst m = s.inst m + x.exactSeconds m) ∧
      addDur m s' (d.mul ((n : Int) - 1)) = some e' ∧ e'.Strict m ∧ s'.inst m < e'.inst m ∧
      r.shift m x = some r' ∧ mkRec m (some (n : Int)) (some s') (some d) none = some r' ∧
      r' = ⟨some (n : Int), some s', some d, some e', none, 3⟩ ∧
      iter m r fuel = (repeatAdd m d fuel s).takeWhile (fun p => decide (p.inst m ≤ e.inst m)) ∧
      iter m r' fuel = (repeatAdd m d fuel s').takeWhile (fun p => decide (p.inst m ≤ e'.inst m)) := by
  obtain ⟨s', hs', ss', rs', ts', ex⟩ := C14_anchor_shift_total m s x hs
  obtain ⟨e, he, hr, se, _, _, _⟩ := mkRec_fmt3_bounded_nominal m n s d (by omega) hs hd
  obtain ⟨e', he', hr', se', lt', _, _⟩ := mkRec_fmt3_bounded_nominal m n s' d (by omega) ss'.1 hd
  refine ⟨e, _, s', e', _, he, hr, rfl, hs', ss', rs', ts', ex, he', se', lt', ?_, hr', rfl, ?_, ?_⟩
  · rw [shift_fmt3_eq m _ s s' d x _ _ hs', hr']
  · rw [iter_nominal_fwd m _ d (nomRec_bounded m n s e d 3 (by omega) hs se.1 hd) s rfl fuel]; rfl
  · rw [iter_nominal_fwd m _ d (nomRec_bounded m n s' e' d 3 (by omega) ss'.1 se'.1 hd) s' rfl fuel]; rfl

/-- `R3/2001-01-31T00Z/P1M` (31 Jan, 28 Feb, 28 Mar; bound 28 Mar) shifted by `−P1D`:
    `R3/2001-01-30T00Z/P1M`, bound 30 Jan + P2M = 28 Mar (two clamped month steps), points 30 Jan,
    28 Feb, 28 Mar. -/
example : NominalNonneg (.units 0 1 0 0 0 0) ∧ (⟨.cal 2001 1 31, 0, 0, 0, ⟨0, 0⟩⟩ : TP).Valid .greg ∧
    (mkRec .greg (some 3) (some ⟨.cal 2001 1 31, 0, 0, 0, ⟨0, 0⟩⟩) (some (.units 0 1 0 0 0 0)) none).bind
      (fun r => (r.shift .greg (.units 0 0 (-1) 0 0 0)).map fun r' => (r.end_, r', iter .greg r' 9)) =
    some (some ⟨.cal 2001 3 28, 0, 0, 0, ⟨0, 0⟩⟩,
      ⟨some 3, some ⟨.cal 2001 1 30, 0, 0, 0, ⟨0, 0⟩⟩, some (.units 0 1 0 0 0 0),
        some ⟨.cal 2001 3 28, 0, 0, 0, ⟨0, 0⟩⟩, none, 3⟩,
      [⟨.cal 2001 1 30, 0, 0, 0, ⟨0, 0⟩⟩, ⟨.cal 2001 2 28, 0, 0, 0, ⟨0, 0⟩⟩,
       ⟨.cal 2001 3 28, 0, 0, 0, ⟨0, 0⟩⟩]) := by decide +kernel

/-- The far bound is re-derived, not moved: `R3/2001-01-31T00Z/P1M` has bound 2001-03-28; shifted by
    the exact `−P1D` the bound is again 2001-03-28 (30 Jan + P2M), not 2001-03-28 − P1D = 2001-03-27. -/
theorem C14_shift_nominal_bound_rederived :
    ∃ r r' e e' ex, mkRec .greg (some 3) (some ⟨.cal 2001 1 31, 0, 0, 0, ⟨0, 0⟩⟩) (some (.units 0 1 0 0 0 0)) none
        = some r ∧ r.shift .greg (.units 0 0 (-1) 0 0 0) = some r' ∧ r.end_ = some e ∧ r'.end_ = some e' ∧
      addDur .greg e (.units 0 0 (-1) 0 0 0) = some ex ∧ e'.inst .greg ≠ ex.inst .greg :=
  ⟨⟨some 3, some ⟨.cal 2001 1 31, 0, 0, 0, ⟨0, 0⟩⟩, some (.units 0 1 0 0 0 0),
      some ⟨.cal 2001 3 28, 0, 0, 0, ⟨0, 0⟩⟩, none, 3⟩,
    ⟨some 3, some ⟨.cal 2001 1 30, 0, 0, 0, ⟨0, 0⟩⟩, some (.units 0 1 0 0 0 0),
      some ⟨.cal 2001 3 28, 0, 0, 0, ⟨0, 0⟩⟩, none, 3⟩,
    ⟨.cal 2001 3 28, 0, 0, 0, ⟨0, 0⟩⟩, ⟨.cal 2001 3 28, 0, 0, 0, ⟨0, 0⟩⟩, ⟨.cal 2001 3 27, 0, 0, 0, ⟨0, 0⟩⟩,
    by decide +kernel, by decide +kernel, rfl, rfl, by decide +kernel, by decide +kernel⟩

/-- With a month/year interval the points do NOT all move by the shift (the property claims that
    for exact intervals only): `R/2001-01-30T00Z/P1M` is 30 Jan, 28 Feb, 28 Mar; shifted by `P1D` it
    is 31 Jan, 28 Feb, 28 Mar — the second and third points do not move at all. -/
theorem C14_shift_nominal_points_do_not_all_move :
    ∃ r r', mkRec .greg none (some ⟨.cal 2001 1 30, 0, 0, 0, ⟨0, 0⟩⟩) (some (.units 0 1 0 0 0 0)) none = some r ∧
      r.shift .greg (.units 0 0 1 0 0 0) = some r' ∧
      iter .greg r 3 = [⟨.cal 2001 1 30, 0, 0, 0, ⟨0, 0⟩⟩, ⟨.cal 2001 2 28, 0, 0, 0, ⟨0, 0⟩⟩,
        ⟨.cal 2001 3 28, 0, 0, 0, ⟨0, 0⟩⟩] ∧
      iter .greg r' 3 = [⟨.cal 2001 1 31, 0, 0, 0, ⟨0, 0⟩⟩, ⟨.cal 2001 2 28, 0, 0, 0, ⟨0, 0⟩⟩,
        ⟨.cal 2001 3 28, 0, 0, 0, ⟨0, 0⟩⟩] :=
  ⟨⟨none, some ⟨.cal 2001 1 30, 0, 0, 0, ⟨0, 0⟩⟩, some (.units 0 1 0 0 0 0), none, none, 3⟩,
    ⟨none, some ⟨.cal 2001 1 31, 0, 0, 0, ⟨0, 0⟩⟩, some (.units 0 1 0 0 0 0), none, none, 3⟩,
    by decide +kernel, by decide +kernel, by decide +kernel, by decide +kernel⟩

/-! ### duration/end notation -/

/-- **Shifting `R/d/end` (month/year interval) by any `x`**: the result is `R/d/(end + x)`, same
    (absent) repetitions, same interval, same notation; it iterates backwards
    `end+x, (end+x)−d, ((end+x)−d)−d, …`. -/
theorem C14_shift_nominal_duration_end_unbounded (m : Mode) (e : TP) (d x : Dur) (he : e.Valid m)
    (hd : NominalNonneg d) (fuel : Nat) :
    ∃ r r' e', mkRec m none none (some d) (some e) = some r ∧
      addDur m e x = some e' ∧ e'.Strict m ∧ e'.date.rep = e.date.rep ∧ e'.tz = e.tz ∧
      (x.isExact = true → e'.inst m = e.inst m + x.exactSeconds m) ∧
      r.shift m x = some r' ∧ mkRec m none none (some d) (some e') = some r' ∧
      r = ⟨none, none, some d, some e, none, 4⟩ ∧ r' = ⟨none, none, some d, some e', none, 4⟩ ∧
      iter m r fuel = repeatSub m d fuel e ∧ iter m r' fuel = repeatSub m d fuel e' := by
  obtain ⟨e', he', se', re', te', ex⟩ := C14_anchor_shift_total m e x he
  have hr := mkRec_fmt4_unbounded_nominal m e d hd
  have hr' := mkRec_fmt4_unbounded_nominal m e' d hd
  refine ⟨_, _, e', hr, he', se', re', te', ex, ?_, hr', rfl, rfl, ?_, ?_⟩
  · rw [shift_fmt4_eq m _ _ _ e e' d x he', hr']
  · exact iter_nominal_rev m _ d (nomRec_fmt4_unbounded m e d he hd) e rfl rfl fuel
  · exact iter_nominal_rev m _ d (nomRec_fmt4_unbounded m e' d se'.1 hd) e' rfl rfl fuel

example : NominalNonneg (.units 1 0 0 0 0 0) ∧ (⟨.ord 2004 366, 12, 0, 0, ⟨0, 0⟩⟩ : TP).Valid .greg ∧
    (mkRec .greg none none (some (.units 1 0 0 0 0 0)) (some ⟨.ord 2004 366, 12, 0, 0, ⟨0, 0⟩⟩)).bind
      (fun r => (r.shift .greg (.units 0 0 0 12 0 0)).map fun r' => (r', iter .greg r' 3)) =
    some (⟨none, none, some (.units 1 0 0 0 0 0), some ⟨.ord 2005 1, 0, 0, 0, ⟨0, 0⟩⟩, none, 4⟩,
      [⟨.ord 2005 1, 0, 0, 0, ⟨0, 0⟩⟩, ⟨.ord 2004 1, 0, 0, 0, ⟨0, 0⟩⟩, ⟨.ord 2003 1, 0, 0, 0, ⟨0, 0⟩⟩]) := by
  decide +kernel

/-- **Shifting `Rn/d/end` (`n ≥ 2`, month/year interval) by any `x`**: the result is
    `Rn/d/(end + x)` — same repetitions, same interval, same notation; its start is re-derived from
    the moved end by ONE multiplied subtraction, `s' = (end + x) − (n−1)·d`, and it iterates
    forwards from `s'` by repeated addition, cut at the first point after `end + x`. -/
theorem C14_shift_nominal_duration_end (m : Mode) (n : Nat) (e : TP) (d x : Dur) (hn : 2 ≤ n)
    (he : e.Valid m) (hd : NominalNonneg d) (fuel : Nat) :
    ∃ s0 r e' s' r', subDur m e (d.mul ((n : Int) - 1)) = some s0 ∧
      mkRec m (some (n : Int)) none (some d) (some e) = some r ∧
      r = ⟨some (n : Int), some s0, some d, some e, none, 4⟩ ∧
      addDur m e x = some e' ∧ e'.Strict m ∧ e'.date.rep = e.date.rep ∧ e'.tz = e.tz ∧
      (x.isExact = true → e'.inst m = e.inst m + x.exactSeconds m) ∧
      subDur m e' (d.mul ((n : Int) - 1)) = some s' ∧ s'.Strict m ∧ s'.inst m < e'.inst m ∧
      r.shift m x = some r' ∧ mkRec m (some (n : Int)) none (some d) (some e') = some r' ∧
      r' = ⟨some (n : Int), some s', some d, some e', none, 4⟩ ∧
      iter m r fuel = (repeatAdd m d fuel s0).takeWhile (fun p => decide (p.inst m ≤ e.inst m)) ∧
      iter m r' fuel = (repeatAdd m d fuel s').takeWhile (fun p => decide (p.inst m ≤ e'.inst m)) := by
  obtain ⟨e', he', se', re', te', ex⟩ := C14_anchor_shift_total m e x he
  obtain ⟨s0, hs0, hr, ss0, _, _, _⟩ := mkRec_fmt4_bounded_nominal m n e d (by omega) he hd
  obtain ⟨s', hs', hr', ss', lt', _, _⟩ := mkRec_fmt4_bounded_nominal m n e' d (by omega) se'.1 hd
  refine ⟨s0, _, e', s', _, hs0, hr, rfl, he', se', re', te', ex, hs', ss', lt', ?_, hr', rfl, ?_, ?_⟩
  · rw [shift_fmt4_eq m _ _ _ e e' d x he', hr']
  · rw [iter_nominal_fwd m _ d (nomRec_bounded m n s0 e d 4 (by omega) ss0.1 he hd) s0 rfl fuel]; rfl
  · rw [iter_nominal_fwd m _ d (nomRec_bounded m n s' e' d 4 (by omega) ss'.1 se'.1 hd) s' rfl fuel]; rfl

/-- `R3/P1M/2001-05-31T00Z` (30 Mar, 30 Apr, 30 May) shifted by the nominal `P1M`:
    `R3/P1M/2001-06-30T00Z`, derived start 30 Apr, points 30 Apr, 30 May, 30 Jun. -/
example : NominalNonneg (.units 0 1 0 0 0 0) ∧ (⟨.cal 2001 5 31, 0, 0, 0, ⟨0, 0⟩⟩ : TP).Valid .greg ∧
    (mkRec .greg (some 3) none (some (.units 0 1 0 0 0 0)) (some ⟨.cal 2001 5 31, 0, 0, 0, ⟨0, 0⟩⟩)).bind
      (fun r => (r.shift .greg (.units 0 1 0 0 0 0)).map fun r' => (r', iter .greg r' 9)) =
    some (⟨some 3, some ⟨.cal 2001 4 30, 0, 0, 0, ⟨0, 0⟩⟩, some (.units 0 1 0 0 0 0),
        some ⟨.cal 2001 6 30, 0, 0, 0, ⟨0, 0⟩⟩, none, 4⟩,
      [⟨.cal 2001 4 30, 0, 0, 0, ⟨0, 0⟩⟩, ⟨.cal 2001 5 30, 0, 0, 0, ⟨0, 0⟩⟩,
       ⟨.cal 2001 6 30, 0, 0, 0, ⟨0, 0⟩⟩]) := by decide +kernel

/-! ### the single-point collapse -/

/-- **One repetition, month/year interval, any shift `x`**: `R1/start/d` and `R1/d/end` are stored
    as the single anchor point (no interval); shifted by any `x` they are the single point
    `anchor + x` in the same notation — what the constructor builds from the moved anchor — and
    iterate exactly that point. -/
theorem C14_shift_nominal_single (m : Mode) (a : TP) (d x : Dur) (ha : a.Valid m)
    (hd : NominalNonneg d) (fuel : Nat) (hf : 1 ≤ fuel) :
    ∃ a', addDur m a x = some a' ∧ a'.Strict m ∧ a'.date.rep = a.date.rep ∧ a'.tz = a.tz ∧
      (x.isExact = true → a'.inst m = a.inst m + x.exactSeconds m) ∧
      mkRec m (some 1) (some a) (some d) none = some ⟨some 1, some a, none, some a, none, 3⟩ ∧
      mkRec m (some 1) none (some d) (some a) = some ⟨some 1, some a, none, some a, none, 4⟩ ∧
      (⟨some 1, some a, none, some a, none, 3⟩ : Rec).shift m x =
        some ⟨some 1, some a', none, some a', none, 3⟩ ∧
      (⟨some 1, some a, none, some a, none, 4⟩ : Rec).shift m x =
        some ⟨some 1, some a', none, some a', none, 4⟩ ∧
      mkRec m (some 1) (some a') (some d) none = some ⟨some 1, some a', none, some a', none, 3⟩ ∧
      mkRec m (some 1) none (some d) (some a') = some ⟨some 1, some a', none, some a', none, 4⟩ ∧
      iter m ⟨some 1, some a', none, some a', none, 3⟩ fuel = [a'] ∧
      iter m ⟨some 1, some a', none, some a', none, 4⟩ fuel = [a'] := by
  obtain ⟨a', ha', sa', ra', ta', ex⟩ := C14_anchor_shift_total m a x ha
  have hz : Dur.lt m Dur.zero Dur.zero = false :=
    lt_zero_false m Dur.zero zero_exact (by rw [zero_seconds]; omega)
  have mk3 : ∀ (b : TP) (dd : Dur), Dur.lt m dd Dur.zero = false →
      mkRec m (some 1) (some b) (some dd) none = some ⟨some 1, some b, none, some b, none, 3⟩ := by
    intro b dd h
    unfold mkRec
    simp [h]
  have mk4 : ∀ (b : TP) (dd : Dur), Dur.lt m dd Dur.zero = false →
      mkRec m (some 1) none (some dd) (some b) = some ⟨some 1, some b, none, some b, none, 4⟩ := by
    intro b dd h
    unfold mkRec
    simp [h]
  have hl := lt_zero_false_nominal m d hd
  have hit : ∀ (b : TP) (f : Nat), iter m ⟨some 1, some b, none, some b, none, f⟩ fuel = [b] := by
    intro b f
    have hb : inBounds m ⟨some 1, some b, none, some b, none, f⟩ b = true := by
      simp [inBounds, tpLt, tpGt, cmp]
    have : ¬ fuel = 0 := by omega
    unfold iter
    simp [this, hb]
  refine ⟨a', ha', sa', ra', ta', ex, mk3 a d hl, mk4 a d hl, ?_, ?_, mk3 a' d hl, mk4 a' d hl,
    hit a' 3, hit a' 4⟩
  · simp only [Rec.shift, ha', Option.bind_some, Option.getD_none]
    exact mk3 a' Dur.zero hz
  · simp only [Rec.shift, ha', Option.bind_some, Option.getD_none]
    exact mk4 a' Dur.zero hz

example : NominalNonneg (.units 0 1 0 0 0 0) ∧ (⟨.week 2020 53 7, 24, 0, 0, ⟨0, 0⟩⟩ : TP).Valid .greg ∧
    (mkRec .greg (some 1) none (some (.units 0 1 0 0 0 0)) (some ⟨.week 2020 53 7, 24, 0, 0, ⟨0, 0⟩⟩)).bind
      (fun r => r.shift .greg (.units 1 0 0 0 0 0)) =
    some ⟨some 1, some ⟨.week 2022 1 1, 0, 0, 0, ⟨0, 0⟩⟩, none, some ⟨.week 2022 1 1, 0, 0, 0, ⟨0, 0⟩⟩, none, 4⟩ := by
  decide +kernel

/-! ### `(r + x) − x == r` for exact `x`

  `r − x` is `r + (-1)·x` (`TimeRecurrence.__sub__`), `==` is `TimeRecurrence.__eq__` (`Rec.eq`).
  The anchor returns to the same instant (C01), in the same representation and offset; the far
  bound re-derived from it is then the identical point, because `p + D` depends on `p` only
  through representation, offset and instant (`addDur_congr`).  If the anchor was written with
  `h < 24` the whole stored recurrence comes back identical. -/

theorem optDurEq_refl (m : Mode) (d : Dur) : optDurEq m (some d) (some d) = true := by
  simp only [optDurEq]
  exact (dur_eq_iff m d d).mpr ⟨rfl, rfl⟩

/-- **(r + x) − x == r**, `R/start/d`, month/year interval, exact `x`. -/
theorem C14_shift_inverse_nominal_start_duration_unbounded (m : Mode) (s : TP) (d x : Dur)
    (hs : s.Valid m) (hd : NominalNonneg d) (hx : x.isExact = true) :
    ∃ r r1 r2, mkRec m none (some s) (some d) none = some r ∧ r.shift m x = some r1 ∧
      r1.shift m (x.mul (-1)) = some r2 ∧ Rec.eq m r2 r = true ∧ r2.fmt = r.fmt ∧
      (s.hh < 24 → r2 = r) := by
  obtain ⟨s1, s2, hs1, g1, hs2, g2, hi2⟩ := addDur_neg_inst m s x hs hx
  refine ⟨⟨none, some s, some d, none, none, 3⟩, ⟨none, some s1, some d, none, none, 3⟩,
    ⟨none, some s2, some d, none, none, 3⟩, mkRec_fmt3_unbounded_nominal m s d hd, ?_, ?_, ?_, rfl, ?_⟩
  · rw [shift_fmt3_eq m _ s s1 d x _ _ hs1]; exact mkRec_fmt3_unbounded_nominal m s1 d hd
  · rw [shift_fmt3_eq m _ s1 s2 d _ _ _ hs2]; exact mkRec_fmt3_unbounded_nominal m s2 d hd
  · rw [C14_eq_iff m _ _ ⟨fun y h => by cases h; exact g2.strict.1, fun y h => by cases h⟩
      ⟨fun y h => by cases h; exact hs, fun y h => by cases h⟩]
    exact ⟨rfl, Or.inr ⟨s2, s, rfl, rfl, hi2⟩, Or.inl ⟨rfl, rfl⟩, optDurEq_refl m d⟩
  · intro h24
    have : s2 = s := strict_unique m s2 s g2.strict ⟨hs, h24⟩ (by rw [g2.rep, g1.rep])
      (by rw [g2.tz, g1.tz]) hi2
    rw [this]

example : (mkRec .greg none (some ⟨.cal 2000 2 29, 6, 0, 0, ⟨-5, 0⟩⟩) (some (.units 1 0 0 0 0 0)) none).bind
    (fun r => (r.shift .greg (.units 0 0 400 0 0 1)).bind fun r1 =>
      (r1.shift .greg ((Dur.units 0 0 400 0 0 1).mul (-1))).map fun r2 => (Rec.eq .greg r2 r, decide (r2 = r))) =
    some (true, true) := by decide +kernel

/-- **(r + x) − x == r**, `Rn/start/d`, `n ≥ 2`, month/year interval, exact `x`: the re-derived
    far bound is the identical point. -/
theorem C14_shift_inverse_nominal_start_duration (m : Mode) (n : Nat) (s : TP) (d x : Dur) (hn : 2 ≤ n)
    (hs : s.Valid m) (hd : NominalNonneg d) (hx : x.isExact = true) :
    ∃ r r1 r2, mkRec m (some (n : Int)) (some s) (some d) none = some r ∧ r.shift m x = some r1 ∧
      r1.shift m (x.mul (-1)) = some r2 ∧ Rec.eq m r2 r = true ∧ r2.fmt = r.fmt ∧
      r2.end_ = r.end_ ∧ (s.hh < 24 → r2 = r) := by
  obtain ⟨s1, s2, hs1, g1, hs2, g2, hi2⟩ := addDur_neg_inst m s x hs hx
  obtain ⟨e, he, hr, se, _, _, _⟩ := mkRec_fmt3_bounded_nominal m n s d (by omega) hs hd
  obtain ⟨e1, he1, hr1, se1, _, _, _⟩ := mkRec_fmt3_bounded_nominal m n s1 d (by omega) g1.strict.1 hd
  obtain ⟨e2, he2, hr2, se2, _, _, _⟩ := mkRec_fmt3_bounded_nominal m n s2 d (by omega) g2.strict.1 hd
  have hee : e2 = e := by
    have := addDur_congr m s2 s (d.mul ((n : Int) - 1)) g2.strict.1 hs (by rw [g2.rep, g1.rep])
      (by rw [g2.tz, g1.tz]) hi2
    rw [he2, he] at this
    exact Option.some.inj this
  subst hee
  refine ⟨⟨some (n : Int), some s, some d, some e2, none, 3⟩, ⟨some (n : Int), some s1, some d, some e1, none, 3⟩,
    ⟨some (n : Int), some s2, some d, some e2, none, 3⟩, hr, ?_, ?_, ?_, rfl, rfl, ?_⟩
  · rw [shift_fmt3_eq m _ s s1 d x _ _ hs1]; exact hr1
  · rw [shift_fmt3_eq m _ s1 s2 d _ _ _ hs2]; exact hr2
  · rw [C14_eq_iff m _ _ ⟨fun y h => by cases h; exact g2.strict.1, fun y h => by cases h; exact se.1⟩
      ⟨fun y h => by cases h; exact hs, fun y h => by cases h; exact se.1⟩]
    exact ⟨rfl, Or.inr ⟨s2, s, rfl, rfl, hi2⟩, Or.inr ⟨e2, e2, rfl, rfl, rfl⟩, optDurEq_refl m d⟩
  · intro h24
    have : s2 = s := strict_unique m s2 s g2.strict ⟨hs, h24⟩ (by rw [g2.rep, g1.rep])
      (by rw [g2.tz, g1.tz]) hi2
    rw [this]

/-- The start written as 24:00 comes back as 00:00 of the next day — same instant, `==` holds, the
    far bound is identical. -/
example : (mkRec .greg (some 3) (some ⟨.cal 2001 1 30, 24, 0, 0, ⟨0, 0⟩⟩) (some (.units 0 1 0 0 0 0)) none).bind
    (fun r => (r.shift .greg (.weeks 2)).bind fun r1 =>
      (r1.shift .greg ((Dur.weeks 2).mul (-1))).map fun r2 =>
        (Rec.eq .greg r2 r, decide (r2 = r), decide (r2.end_ = r.end_), r2.start)) =
    some (true, false, true, some ⟨.cal 2001 1 31, 0, 0, 0, ⟨0, 0⟩⟩) := by decide +kernel

/-- **(r + x) − x == r**, `R/d/end`, month/year interval, exact `x`. -/
theorem C14_shift_inverse_nominal_duration_end_unbounded (m : Mode) (e : TP) (d x : Dur)
    (he : e.Valid m) (hd : NominalNonneg d) (hx : x.isExact = true) :
    ∃ r r1 r2, mkRec m none none (some d) (some e) = some r ∧ r.shift m x = some r1 ∧
      r1.shift m (x.mul (-1)) = some r2 ∧ Rec.eq m r2 r = true ∧ r2.fmt = r.fmt ∧
      (e.hh < 24 → r2 = r) := by
  obtain ⟨e1, e2, he1, g1, he2, g2, hi2⟩ := addDur_neg_inst m e x he hx
  refine ⟨⟨none, none, some d, some e, none, 4⟩, ⟨none, none, some d, some e1, none, 4⟩,
    ⟨none, none, some d, some e2, none, 4⟩, mkRec_fmt4_unbounded_nominal m e d hd, ?_, ?_, ?_, rfl, ?_⟩
  · rw [shift_fmt4_eq m _ _ _ e e1 d x he1]; exact mkRec_fmt4_unbounded_nominal m e1 d hd
  · rw [shift_fmt4_eq m _ _ _ e1 e2 d _ he2]; exact mkRec_fmt4_unbounded_nominal m e2 d hd
  · rw [C14_eq_iff m _ _ ⟨fun y h => (by cases h), fun y h => by cases h; exact g2.strict.1⟩
      ⟨fun y h => (by cases h), fun y h => by cases h; exact he⟩]
    exact ⟨rfl, Or.inl ⟨rfl, rfl⟩, Or.inr ⟨e2, e, rfl, rfl, hi2⟩, optDurEq_refl m d⟩
  · intro h24
    have : e2 = e := strict_unique m e2 e g2.strict ⟨he, h24⟩ (by rw [g2.rep, g1.rep])
      (by rw [g2.tz, g1.tz]) hi2
    rw [this]

example : (mkRec .greg none none (some (.units 0 1 0 0 0 0)) (some ⟨.cal 2001 3 31, 0, 0, 0, ⟨0, 0⟩⟩)).bind
    (fun r => (r.shift .greg (.units 0 0 0 (-36) 0 0)).bind fun r1 =>
      (r1.shift .greg ((Dur.units 0 0 0 (-36) 0 0).mul (-1))).map fun r2 => (Rec.eq .greg r2 r, decide (r2 = r))) =
    some (true, true) := by decide +kernel

/-- **(r + x) − x == r**, `Rn/d/end`, `n ≥ 2`, month/year interval, exact `x`: the re-derived
    start is the identical point. -/
theorem C14_shift_inverse_nominal_duration_end (m : Mode) (n : Nat) (e : TP) (d x : Dur) (hn : 2 ≤ n)
    (he : e.Valid m) (hd : NominalNonneg d) (hx : x.isExact = true) :
    ∃ r r1 r2, mkRec m (some (n : Int)) none (some d) (some e) = some r ∧ r.shift m x = some r1 ∧
      r1.shift m (x.mul (-1)) = some r2 ∧ Rec.eq m r2 r = true ∧ r2.fmt = r.fmt ∧
      r2.start = r.start ∧ (e.hh < 24 → r2 = r) := by
  obtain ⟨e1, e2, he1, g1, he2, g2, hi2⟩ := addDur_neg_inst m e x he hx
  obtain ⟨s0, hs0, hr, ss0, _, _, _⟩ := mkRec_fmt4_bounded_nominal m n e d (by omega) he hd
  obtain ⟨s1, hs1, hr1, ss1, _, _, _⟩ := mkRec_fmt4_bounded_nominal m n e1 d (by omega) g1.strict.1 hd
  obtain ⟨s2, hs2, hr2, ss2, _, _, _⟩ := mkRec_fmt4_bounded_nominal m n e2 d (by omega) g2.strict.1 hd
  have hss : s2 = s0 := by
    have := addDur_congr m e2 e ((d.mul ((n : Int) - 1)).mul (-1)) g2.strict.1 he (by rw [g2.rep, g1.rep])
      (by rw [g2.tz, g1.tz]) hi2
    unfold subDur at hs2 hs0
    rw [hs2, hs0] at this
    exact Option.some.inj this
  subst hss
  refine ⟨⟨some (n : Int), some s2, some d, some e, none, 4⟩, ⟨some (n : Int), some s1, some d, some e1, none, 4⟩,
    ⟨some (n : Int), some s2, some d, some e2, none, 4⟩, hr, ?_, ?_, ?_, rfl, rfl, ?_⟩
  · rw [shift_fmt4_eq m _ _ _ e e1 d x he1]; exact hr1
  · rw [shift_fmt4_eq m _ _ _ e1 e2 d _ he2]; exact hr2
  · rw [C14_eq_iff m _ _ ⟨fun y h => by cases h; exact ss2.1, fun y h => by cases h; exact g2.strict.1⟩
      ⟨fun y h => by cases h; exact ss2.1, fun y h => by cases h; exact he⟩]
    exact ⟨rfl, Or.inr ⟨s2, s2, rfl, rfl, rfl⟩, Or.inr ⟨e2, e, rfl, rfl, hi2⟩, optDurEq_refl m d⟩
  · intro h24
    have : e2 = e := strict_unique m e2 e g2.strict ⟨he, h24⟩ (by rw [g2.rep, g1.rep])
      (by rw [g2.tz, g1.tz]) hi2
    rw [this]

example : (mkRec .greg (some 3) none (some (.units 0 1 0 0 0 0)) (some ⟨.cal 2001 5 31, 0, 0, 0, ⟨0, 0⟩⟩)).bind
    (fun r => (r.shift .greg (.units 0 0 1 0 0 30)).bind fun r1 =>
      (r1.shift .greg ((Dur.units 0 0 1 0 0 30).mul (-1))).map fun r2 => (Rec.eq .greg r2 r, decide (r2 = r))) =
    some (true, true) := by decide +kernel

/-- For a month/year SHIFT the round trip can fail (the property claims it for exact `x` only):
    `R/2001-01-31T00Z/P1M` plus `P1M` is anchored at 28 Feb, minus `P1M` at 28 Jan. -/
theorem C14_shift_inverse_fails_for_nominal_shift :
    ∃ r r1 r2, mkRec .greg none (some ⟨.cal 2001 1 31, 0, 0, 0, ⟨0, 0⟩⟩) (some (.units 0 1 0 0 0 0)) none = some r ∧
      r.shift .greg (.units 0 1 0 0 0 0) = some r1 ∧
      r1.shift .greg ((Dur.units 0 1 0 0 0 0).mul (-1)) = some r2 ∧ Rec.eq .greg r2 r = false :=
  ⟨⟨none, some ⟨.cal 2001 1 31, 0, 0, 0, ⟨0, 0⟩⟩, some (.units 0 1 0 0 0 0), none, none, 3⟩,
    ⟨none, some ⟨.cal 2001 2 28, 0, 0, 0, ⟨0, 0⟩⟩, some (.units 0 1 0 0 0 0), none, none, 3⟩,
    ⟨none, some ⟨.cal 2001 1 28, 0, 0, 0, ⟨0, 0⟩⟩, some (.units 0 1 0 0 0 0), none, none, 3⟩,
    by decide +kernel, by decide +kernel, by decide +kernel, by decide +kernel⟩

end IsoDT.Props.C14
