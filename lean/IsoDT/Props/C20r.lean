/-
  C20 — the end-of-day hour as a truncated target (repair F21).

  `add_truncated` stepped the hour up until it equalled the target; no point keeps an hour of 24 through
  `_tick_over`, so `T24 + p` never ended (the integer model of the unrepaired loop needs unbounded fuel:
  `C20_hour24_unrepaired_witness`).  The repaired code reads the target 24 as 0 first; the model of the
  repaired code is `addTruncated24 m p t = addTruncated m p t.norm24`, and everything `Props/C20.lean` proves
  for legal truncations with `hh < 24` carries over to `hh ≤ 24`.
-/
import IsoDT.Props.C20

namespace IsoDT.Props.C20
open IsoDT IsoDT.Model
open IsoDT.Spec (Date TZ TP)

/-- What the constructor of a truncated point admits: as `LegalTrunc`, with the hour up to 24 (24 only with
    minute and second absent or zero - the 24:xx rule). -/
def LegalTrunc24 (m : Mode) (t : Trunc) : Prop :=
  (∀ x, t.ss = some x → 0 ≤ x ∧ x < 60) ∧ (∀ x, t.mi = some x → 0 ≤ x ∧ x < 60) ∧
  (∀ x, t.hh = some x → 0 ≤ x ∧ x ≤ 24) ∧ (∀ x, t.dow = some x → 1 ≤ x ∧ x ≤ 7) ∧
  (∀ x, t.dom = some x → 1 ≤ x ∧ x ≤ (calOf m).maxDaysInMonth) ∧
  (∀ x, t.doy = some x → 1 ≤ x ∧ x ≤ (calOf m).daysInYearLeap) ∧
  (∀ x, t.week = some x → 1 ≤ x ∧ x ≤ (calOf m).maxWeeksInYear)

theorem norm24_legal (m : Mode) (t : Trunc) (h : LegalTrunc24 m t) : LegalTrunc m t.norm24 := by
  obtain ⟨l1, l2, l3, l4, l5, l6, l7⟩ := h
  unfold Trunc.norm24
  split
  · refine ⟨l1, l2, ?_, l4, l5, l6, l7⟩
    intro x hx
    simp only [Option.some.injEq] at hx
    omega
  · rename_i hne
    refine ⟨l1, l2, ?_, l4, l5, l6, l7⟩
    intro x hx
    have := l3 x hx
    have : x ≠ 24 := by
      intro h24
      exact hne (by rw [hx, h24])
    omega

/-- `norm24` is the identity on the truncations `Props/C20.lean` is about. -/
theorem norm24_of_legal (m : Mode) (t : Trunc) (h : LegalTrunc m t) : t.norm24 = t := by
  unfold Trunc.norm24
  split
  · rename_i h24
    have := h.2.2.1 24 h24
    omega
  · rfl

/-- **The operation terminates, hour 24 included**: for every valid full point and every truncated point the
    constructor admits, the repaired `add_truncated` returns a valid date-time in `p`'s offset, not earlier
    than `p`. -/
theorem C20_terminates_hour24 (m : Mode) (p : TP) (hv : p.Valid m) (t : Trunc) (hl : LegalTrunc24 m t) :
    ∃ q, addTruncated24 m p t = some q ∧ q.Strict m ∧ q.tz = p.tz ∧ p.inst m ≤ q.inst m :=
  C20_terminates m p hv t.norm24 (norm24_legal m t hl)

/-- The end-of-day target is the start-of-day target: `T24 + p = T00 + p`. -/
theorem C20_hour24_is_hour0 (m : Mode) (p : TP) (t : Trunc) (h : t.hh = some 24) :
    addTruncated24 m p t = addTruncated24 m p { t with hh := some 0 } := by
  unfold addTruncated24 Trunc.norm24
  simp [h]

/-- On the truncations with `hh < 24` nothing changes. -/
theorem C20_repair_conservative (m : Mode) (p : TP) (t : Trunc) (h : LegalTrunc m t) :
    addTruncated24 m p t = addTruncated m p t ∧ addTruncTP24 m p t = addTruncTP m p t := by
  unfold addTruncated24 addTruncTP24
  rw [norm24_of_legal m t h]
  exact ⟨rfl, rfl⟩

/-- Why the repair was needed: the unrepaired hour loop started at 00:00 with target 24 is not done within any
    of these fuels (it steps 0, 1, …, 23, 0, … and never shows 24). -/
theorem C20_hour24_unrepaired_witness :
    let p : TP := ⟨.cal 2000 1 1, 0, 0, 0, ⟨0, 0⟩⟩
    (loopField .greg (·.hh) (fun q => { q with hh := q.hh + 1 }) 24 60 p = none) ∧
    (loopField .greg (·.hh) (fun q => { q with hh := q.hh + 1 }) 24 500 p = none) := by
  decide +kernel

/-- Regression witnesses of F21 on the repaired model: `T24` added to noon gives the next midnight; added to a
    midnight gives that midnight; idempotent. -/
example :
    addTruncTP24 .greg ⟨.cal 2000 1 1, 12, 30, 0, ⟨0, 0⟩⟩ ⟨none, none, none, none, some 24, none, none, none⟩
      = some ⟨.cal 2000 1 2, 0, 0, 0, ⟨0, 0⟩⟩ ∧
    addTruncTP24 .greg ⟨.cal 2000 1 2, 0, 0, 0, ⟨0, 0⟩⟩ ⟨none, none, none, none, some 24, none, none, none⟩
      = some ⟨.cal 2000 1 2, 0, 0, 0, ⟨0, 0⟩⟩ ∧
    addTruncTP24 .greg ⟨.cal 2000 12 31, 23, 59, 59, ⟨0, 0⟩⟩ ⟨none, none, none, none, some 24, some 0, none, none⟩
      = some ⟨.cal 2001 1 1, 0, 0, 0, ⟨0, 0⟩⟩ := by
  decide +kernel

example : LegalTrunc24 .greg ⟨none, none, none, none, some 24, none, none, none⟩ := by
  refine ⟨?_, ?_, ?_, ?_, ?_, ?_, ?_⟩ <;> intro x hx <;> simp at hx <;> omega

end IsoDT.Props.C20
