/-
  C11 — Duration arithmetic, equality, ordering and hashing are coherent.

  `Model.Dur.*` mirror `Duration.__add__`, `__mul__`, `__eq__`, `__hash__`, the ordering operators
  and `get_days_and_seconds` for integer components (the `TimeZone` subclass is excluded, as in the
  property).  Decimal components are outside the model (observed only).
-/
import IsoDT.Model.Duration
import IsoDT.Lemmas.Tables

namespace IsoDT.Props.C11
open IsoDT IsoDT.Model IsoDT.Lemmas

/-- Years and months of a duration (none in week form). -/
def ym : Dur → Int × Int
  | .weeks _ => (0, 0)
  | .units y mo _ _ _ _ => (y, mo)

theorem roughDaysInYear_eq (m : Mode) : (calOf m).roughDaysInYear = Spec.yearLenB m false := by
  cases m <;> decide
theorem roughDaysInMonth_eq (m : Mode) : (calOf m).roughDaysInMonth = 30 := by cases m <;> decide

theorem isExact_iff (a : Dur) : a.isExact = true ↔ ym a = (0, 0) := by
  cases a <;> simp [Dur.isExact, ym]

/-- `==` on durations: equal exactly when years, months and the exact remainder all match (so two
    exact durations are equal purely by total length, whatever units spell them, and an exact
    duration never equals a nominal one). -/
theorem C11_eq_iff (m : Mode) (a b : Dur) :
    Dur.eq m a b = true ↔ ym a = ym b ∧ a.exactSeconds m = b.exactSeconds m := by
  cases a <;> cases b <;>
    simp only [Dur.eq, Dur.isExact, ym, Bool.and_eq_true, beq_iff_eq, Prod.mk.injEq] <;>
    (repeat' split) <;> simp_all <;> omega

theorem C11_eq_equivalence (m : Mode) (a b c : Dur) :
    Dur.eq m a a = true ∧ (Dur.eq m a b = true → Dur.eq m b a = true) ∧
    (Dur.eq m a b = true → Dur.eq m b c = true → Dur.eq m a c = true) := by
  refine ⟨(C11_eq_iff m a a).mpr ⟨rfl, rfl⟩, fun h => ?_, fun h1 h2 => ?_⟩
  · have := (C11_eq_iff m a b).mp h
    exact (C11_eq_iff m b a).mpr ⟨this.1.symm, this.2.symm⟩
  · have x := (C11_eq_iff m a b).mp h1
    have y := (C11_eq_iff m b c).mp h2
    exact (C11_eq_iff m a c).mpr ⟨x.1.trans y.1, x.2.trans y.2⟩

/-- Equal durations hash equally. -/
theorem hashKey_eq (m : Mode) (a : Dur) : Dur.hashKey m a = ((ym a).1, (ym a).2, a.exactSeconds m) := by
  cases a <;> rfl

theorem C11_hash (m : Mode) (a b : Dur) (h : Dur.eq m a b = true) : Dur.hashKey m a = Dur.hashKey m b := by
  rw [C11_eq_iff] at h
  rw [hashKey_eq, hashKey_eq, h.1, h.2]

/-! ### addition -/

theorem add_ym (m : Mode) (a b : Dur) : ym (Dur.add m a b) = ((ym a).1 + (ym b).1, (ym a).2 + (ym b).2) := by
  cases a <;> cases b <;> simp [Dur.add, Dur.toDays, ym]

theorem add_seconds (m : Mode) (a b : Dur) :
    (Dur.add m a b).exactSeconds m = a.exactSeconds m + b.exactSeconds m := by
  cases a <;> cases b <;>
    simp only [Dur.add, Dur.toDays, Dur.exactSeconds, daysInWeek_eq, secondsInDay_eq, secondsInHour_eq,
      secondsInMinute_eq] <;> omega

/-- Commutative — even field for field. -/
theorem C11_add_comm (m : Mode) (a b : Dur) : Dur.add m a b = Dur.add m b a := by
  cases a <;> cases b <;> simp only [Dur.add, Dur.toDays, daysInWeek_eq] <;> congr 1 <;> omega

/-- Associative — even field for field. -/
theorem C11_add_assoc (m : Mode) (a b c : Dur) :
    Dur.add m (Dur.add m a b) c = Dur.add m a (Dur.add m b c) := by
  cases a <;> cases b <;> cases c <;> simp only [Dur.add, Dur.toDays, daysInWeek_eq] <;> congr 1 <;> omega

/-- The empty duration is the identity (up to `==`: `P1W + P0Y` is spelled `P7D`). -/
theorem C11_add_zero (m : Mode) (a : Dur) :
    Dur.eq m (Dur.add m a Dur.zero) a = true ∧ Dur.eq m (Dur.add m Dur.zero a) a = true := by
  rw [C11_add_comm m Dur.zero a, C11_eq_iff, add_ym, add_seconds]
  simp [ym, Dur.zero, Dur.exactSeconds]

/-- `d + (-1 * d)` is empty. -/
theorem C11_add_inverse (m : Mode) (a : Dur) :
    (Dur.add m a (a.mul (-1))).nonzero = false ∧ Dur.eq m (Dur.add m a (a.mul (-1))) Dur.zero = true := by
  cases a with
  | weeks w =>
    have e : Dur.add m (.weeks w) ((Dur.weeks w).mul (-1)) = .weeks 0 := by
      simp only [Dur.mul, Dur.add]; congr 1; omega
    rw [e]
    refine ⟨rfl, (C11_eq_iff m _ _).mpr ⟨rfl, ?_⟩⟩
    simp [Dur.zero, Dur.exactSeconds]
  | units y mo d h mi s =>
    have e : Dur.add m (.units y mo d h mi s) ((Dur.units y mo d h mi s).mul (-1)) = .units 0 0 0 0 0 0 := by
      simp only [Dur.mul, Dur.add, Dur.toDays]; congr 1 <;> omega
    rw [e]
    exact ⟨rfl, (C11_eq_iff m _ _).mpr ⟨rfl, rfl⟩⟩

/-- Subtraction is addition of the negation (by definition of `__sub__`). -/
theorem C11_sub (m : Mode) (a b : Dur) : Dur.sub m a b = Dur.add m a (b.mul (-1)) := rfl

/-! ### multiplication -/

theorem mul_ym (a : Dur) (n : Int) : ym (a.mul n) = ((ym a).1 * n, (ym a).2 * n) := by
  cases a <;> simp [Dur.mul, ym]

theorem mul_seconds (m : Mode) (a : Dur) (n : Int) : (a.mul n).exactSeconds m = a.exactSeconds m * n := by
  cases a <;> simp only [Dur.mul, Dur.exactSeconds, daysInWeek_eq, secondsInDay_eq, secondsInHour_eq,
    secondsInMinute_eq]
  · rw [Int.mul_assoc, Int.mul_assoc, Int.mul_assoc, Int.mul_assoc]
    congr 1
    rw [Int.mul_comm n, Int.mul_assoc]
  · simp only [Int.add_mul]
    congr 1
    · congr 1
      · congr 1
        all_goals (rw [Int.mul_assoc, Int.mul_assoc]; congr 1; rw [Int.mul_comm])
      · rw [Int.mul_assoc, Int.mul_assoc]; congr 1; rw [Int.mul_comm]

/-- `n * d` equals `n`-fold addition of `d`. -/
theorem nfold_ym (m : Mode) (a : Dur) : ∀ n : Nat,
    ym (Dur.nfold m a n) = ((ym a).1 * (n : Int), (ym a).2 * (n : Int)) ∧
    (Dur.nfold m a n).exactSeconds m = a.exactSeconds m * (n : Int) := by
  intro n
  induction n with
  | zero => simp [Dur.nfold, Dur.zero, ym, Dur.exactSeconds]
  | succ k ih =>
    obtain ⟨i1, i2⟩ := ih
    simp only [Dur.nfold, add_ym, add_seconds, i1, i2]
    have e : ((k + 1 : Nat) : Int) = (k : Int) + 1 := by omega
    rw [e, Int.mul_add, Int.mul_add, Int.mul_add]
    simp

/-- `n * d` equals `n`-fold addition of `d`. -/
theorem C11_mul_is_repeated_add (m : Mode) (a : Dur) (n : Nat) :
    Dur.eq m (a.mul n) (Dur.nfold m a n) = true := by
  rw [C11_eq_iff, mul_ym, mul_seconds, (nfold_ym m a n).1, (nfold_ym m a n).2]
  exact ⟨rfl, rfl⟩

/-! ### units -/

/-- A week is exactly 7 days, a day 24 hours, an hour 60 minutes, a minute 60 seconds. -/
theorem C11_units (m : Mode) (n : Int) :
    Dur.eq m (.weeks n) (.units 0 0 (7 * n) 0 0 0) = true ∧
    Dur.eq m (.units 0 0 n 0 0 0) (.units 0 0 0 (24 * n) 0 0) = true ∧
    Dur.eq m (.units 0 0 0 n 0 0) (.units 0 0 0 0 (60 * n) 0) = true ∧
    Dur.eq m (.units 0 0 0 0 n 0) (.units 0 0 0 0 0 (60 * n)) = true ∧
    (Dur.weeks n).toDays m = .units 0 0 (n * 7) 0 0 0 := by
  refine ⟨(C11_eq_iff m _ _).mpr ⟨rfl, ?_⟩, (C11_eq_iff m _ _).mpr ⟨rfl, ?_⟩,
    (C11_eq_iff m _ _).mpr ⟨rfl, ?_⟩, (C11_eq_iff m _ _).mpr ⟨rfl, ?_⟩, ?_⟩
  all_goals simp only [Dur.exactSeconds, Dur.toDays, daysInWeek_eq, secondsInDay_eq, secondsInHour_eq,
    secondsInMinute_eq]
  all_goals omega

/-- The constructor counts weeks as 7 days unless weeks is the only unit given. -/
theorem C11_constructor (m : Mode) (y mo w d h mi s : Int) :
    (mkDur m y mo w d h mi s).exactSeconds m = (Dur.units y mo (d + 7 * w) h mi s).exactSeconds m ∧
    ym (mkDur m y mo w d h mi s) = (y, mo) := by
  unfold mkDur
  simp only [daysInWeek_eq]
  by_cases hc : w ≠ 0 ∧ y = 0 ∧ mo = 0 ∧ d = 0 ∧ h = 0 ∧ mi = 0 ∧ s = 0
  · rw [if_pos hc]
    obtain ⟨_, rfl, rfl, rfl, rfl, rfl, rfl⟩ := hc
    refine ⟨?_, rfl⟩
    simp only [Dur.exactSeconds, daysInWeek_eq, secondsInDay_eq, secondsInHour_eq, secondsInMinute_eq]
    omega
  · rw [if_neg hc]
    exact ⟨rfl, rfl⟩

/-! ### ordering -/

/-- The rough length used by `<`, `<=`, `>`, `>=`: a year counts as the calendar's common-year
    length, a month as 30 days. -/
def roughSeconds (m : Mode) (a : Dur) : Int :=
  (ym a).1 * Spec.yearLenB m false * 86400 + (ym a).2 * 30 * 86400 + a.exactSeconds m

theorem das_spec (m : Mode) (a : Dur) :
    (a.daysAndSeconds m).1 * 86400 + (a.daysAndSeconds m).2 = roughSeconds m a ∧
    0 ≤ (a.daysAndSeconds m).2 ∧ (a.daysAndSeconds m).2 < 86400 := by
  cases a <;> simp only [Dur.daysAndSeconds, roughSeconds, ym, Dur.exactSeconds, daysInWeek_eq,
    secondsInDay_eq, secondsInHour_eq, secondsInMinute_eq, roughDaysInYear_eq, roughDaysInMonth_eq]
  · omega
  · generalize Spec.yearLenB m false = L
    refine ⟨?_, by omega, by omega⟩
    have : ∀ y L : Int, (y * L + 0) * 86400 = y * L * 86400 := by intro y L; omega
    omega

theorem pairLt_iff (a b : Int × Int) (ha : 0 ≤ a.2 ∧ a.2 < 86400) (hb : 0 ≤ b.2 ∧ b.2 < 86400) :
    pairLt a b = true ↔ a.1 * 86400 + a.2 < b.1 * 86400 + b.2 := by
  unfold pairLt
  simp only [Bool.or_eq_true, Bool.and_eq_true, decide_eq_true_eq, beq_iff_eq]
  omega

/-- `<`, `<=`, `>`, `>=` are the order of the rough lengths, hence mutually consistent: exactly
    one of `<`, "same rough length", `>`; `<=`/`>=` are the unions; transitive. -/
theorem C11_order (m : Mode) (a b : Dur) :
    (Dur.lt m a b = true ↔ roughSeconds m a < roughSeconds m b) ∧
    (Dur.le m a b = true ↔ roughSeconds m a ≤ roughSeconds m b) ∧
    (Dur.gt m a b = true ↔ roughSeconds m a > roughSeconds m b) ∧
    (Dur.ge m a b = true ↔ roughSeconds m a ≥ roughSeconds m b) := by
  obtain ⟨ea, ra⟩ := das_spec m a
  obtain ⟨eb, rb⟩ := das_spec m b
  have l1 := pairLt_iff _ _ ra rb
  have l2 := pairLt_iff _ _ rb ra
  rw [ea, eb] at l1 l2
  unfold Dur.lt Dur.le Dur.gt Dur.ge
  refine ⟨l1, ?_, l2, ?_⟩
  · cases h : pairLt (b.daysAndSeconds m) (a.daysAndSeconds m)
    · have : ¬ roughSeconds m b < roughSeconds m a := fun x => by rw [l2.mpr x] at h; cases h
      simp only [Bool.not_false, true_iff]; omega
    · have := l2.mp h
      simp only [Bool.not_true, Bool.false_eq_true, false_iff]; omega
  · cases h : pairLt (a.daysAndSeconds m) (b.daysAndSeconds m)
    · have : ¬ roughSeconds m a < roughSeconds m b := fun x => by rw [l1.mpr x] at h; cases h
      simp only [Bool.not_false, true_iff]; omega
    · have := l1.mp h
      simp only [Bool.not_true, Bool.false_eq_true, false_iff]; omega

/-- Equal durations are neither `<` nor `>`; exact durations are ordered purely by length. -/
theorem C11_order_consistent_with_eq (m : Mode) (a b : Dur) (h : Dur.eq m a b = true) :
    Dur.lt m a b = false ∧ Dur.gt m a b = false ∧ Dur.le m a b = true ∧ Dur.ge m a b = true := by
  rw [C11_eq_iff] at h
  have e : roughSeconds m a = roughSeconds m b := by unfold roughSeconds; rw [h.1, h.2]
  obtain ⟨o1, o2, o3, o4⟩ := C11_order m a b
  refine ⟨?_, ?_, o2.mpr (by omega), o4.mpr (by omega)⟩
  · cases hl : Dur.lt m a b
    · rfl
    · have := o1.mp hl; omega
  · cases hl : Dur.gt m a b
    · rfl
    · have := o3.mp hl; omega

theorem C11_exact_order_by_length (m : Mode) (a b : Dur) (ha : a.isExact = true) (hb : b.isExact = true) :
    (Dur.lt m a b = true ↔ a.exactSeconds m < b.exactSeconds m) ∧
    (Dur.eq m a b = true ↔ a.exactSeconds m = b.exactSeconds m) := by
  rw [isExact_iff] at ha hb
  obtain ⟨o1, _⟩ := C11_order m a b
  rw [o1, C11_eq_iff, ha, hb]
  unfold roughSeconds; rw [ha, hb]
  simp

/-! ## Non-vacuity -/

example : Dur.eq .greg (.weeks 1) (.units 0 0 6 23 59 60) = true := by decide
example : Dur.eq .greg (.units 1 0 0 0 0 0) (.units 0 0 365 0 0 0) = false := by decide
example : Dur.le .greg (.units 1 0 0 0 0 0) (.units 0 0 365 0 0 0) = true ∧
    Dur.lt .d360 (.units 1 0 0 0 0 0) (.units 0 0 365 0 0 0) = true := by decide
example : Dur.add .greg (.weeks 1) (.weeks (-1)) = .weeks 0 := by decide

end IsoDT.Props.C11
