/-
  C13 (continued) — Recurrence queries agree with iteration: the remaining notations.

  `get_is_valid` for the unbounded start/duration recurrence and for both duration/end
  recurrences (with the amount of iteration — fuel — that suffices, and that more does not change
  the answer), `r[i]` for duration/end and for the unbounded recurrences, `r[i]` as the `i`-th point
  of any longer run of `__iter__` (every recurrence), `get_first_after` for a probe outside the
  bounds (every recurrence with a start) and the leastness of its closed-form result.
  Exact intervals throughout, except where stated otherwise.
-/
import IsoDT.Props.C13
import IsoDT.Lemmas.RecQuery

namespace IsoDT.Props.C13
open IsoDT IsoDT.Model IsoDT.Lemmas IsoDT.Props.C12
open IsoDT.Spec (Date TZ TP)

/-! ### `get_is_valid` is membership of the iterated points, by instant -/

/-- Forward iteration (the recurrence has a start point), any amount of iteration. -/
theorem valid_iff_mem_fwd (m : Mode) (r : Rec) (d : Dur) (L : Int) (hr : ExactRec m r d L) (s : TP)
    (hs : r.start = some s) (p : TP) (hp : p.Valid m) (fuel : Nat) :
    getIsValid m r p fuel = true ↔ ∃ q ∈ iter m r fuel, q.inst m = p.inst m := by
  obtain ⟨a, _, _⟩ := iterFrom_fwd m r d L hr fuel s (hr.startValid s hs)
    (fun s' h => by rw [hs] at h; cases h; exact Int.le_refl _)
  rw [← iter_fwd m r d L hr s hs fuel] at a
  have hsc := scan_fwd m r (by rw [hs]; rfl) p hp _ _ (iter m r fuel) _ _ a hr.pos
  unfold getIsValid
  by_cases cb : inBounds m r p = true
  · simp only [cb, Bool.not_true, Bool.false_eq_true, ↓reduceIte]
    exact hsc
  · have cb' : inBounds m r p = false := by cases h : inBounds m r p <;> simp_all
    simp only [cb', Bool.not_false, ↓reduceIte, Bool.false_eq_true, false_iff]
    rintro ⟨q, hq, hqe⟩
    apply cb
    rw [← inBounds_congr m r d L hr p q hp (series_mem_valid m _ _ _ _ _ a q hq) hqe]
    exact iter_mem_inBounds m r fuel q hq

/-- Backward iteration (no start point: the unbounded duration/end notation). -/
theorem valid_iff_mem_rev (m : Mode) (r : Rec) (d : Dur) (L : Int) (hr : ExactRec m r d L) (e : TP)
    (hs : r.start = none) (he : r.end_ = some e) (p : TP) (hp : p.Valid m) (fuel : Nat) :
    getIsValid m r p fuel = true ↔ ∃ q ∈ iter m r fuel, q.inst m = p.inst m := by
  obtain ⟨a, _, _⟩ := iterFrom_rev m r d L hr fuel e (hr.endValid e he)
    (fun e' h => by rw [he] at h; cases h; exact Int.le_refl _)
  rw [← iter_rev m r d L hr e hs he fuel] at a
  have hsc := scan_rev m r (by rw [hs]; rfl) (by rw [he]; rfl) p hp _ _ (iter m r fuel) _ _ a
    (by have := hr.pos; omega)
  unfold getIsValid
  by_cases cb : inBounds m r p = true
  · simp only [cb, Bool.not_true, Bool.false_eq_true, ↓reduceIte]
    exact hsc
  · have cb' : inBounds m r p = false := by cases h : inBounds m r p <;> simp_all
    simp only [cb', Bool.not_false, ↓reduceIte, Bool.false_eq_true, false_iff]
    rintro ⟨q, hq, hqe⟩
    apply cb
    rw [← inBounds_congr m r d L hr p q hp (series_mem_valid m _ _ _ _ _ a q hq) hqe]
    exact iter_mem_inBounds m r fuel q hq

/-- **get_is_valid is membership of the visited points**, every notation: for a recurrence with an
    exact interval (bounded or not, forwards or backwards) and any amount of iteration,
    `get_is_valid(p)` is true exactly when one of the visited points is at the probe's instant.
    The early exits never lose a member: the points not yet visited are further away still. -/
theorem C13_is_valid_iff_iterated (m : Mode) (r : Rec) (d : Dur) (L : Int) (hr : ExactRec m r d L)
    (p : TP) (hp : p.Valid m) (fuel : Nat) :
    getIsValid m r p fuel = true ↔ ∃ q ∈ iter m r fuel, q.inst m = p.inst m := by
  cases hs : r.start with
  | some s => exact valid_iff_mem_fwd m r d L hr s hs p hp fuel
  | none =>
    cases he : r.end_ with
    | some e => exact valid_iff_mem_rev m r d L hr e hs he p hp fuel
    | none =>
      have h0 : iter m r fuel = [] := by unfold iter; simp only [hs, he, Option.isNone_none, ↓reduceIte]
      unfold getIsValid
      rw [h0]
      constructor
      · intro h; split at h <;> simp [scanValid] at h
      · rintro ⟨q, hq, _⟩; cases hq

/-- Start/second-point notation `R/2002-05-04T23:00Z/2002-05-05T00:00Z` (interval: the difference). -/
example := C13_is_valid_iff_iterated .greg ⟨none, some ⟨.cal 2002 5 4, 23, 0, 0, ⟨0, 0⟩⟩, some (.units 0 0 0 1 0 0), none,
    some ⟨.cal 2002 5 5, 0, 0, 0, ⟨0, 0⟩⟩, 1⟩ (.units 0 0 0 1 0 0) 3600
    ⟨rfl, rfl, by decide, by decide, by decide, fun s h => by cases h; decide, fun e h => by cases h⟩
    ⟨.ord 2002 125, 3, 0, 0, ⟨2, 0⟩⟩ (by decide) 3
example : mkRec .greg none (some ⟨.cal 2002 5 4, 23, 0, 0, ⟨0, 0⟩⟩) none (some ⟨.cal 2002 5 5, 0, 0, 0, ⟨0, 0⟩⟩) =
    some ⟨none, some ⟨.cal 2002 5 4, 23, 0, 0, ⟨0, 0⟩⟩, some (.units 0 0 0 1 0 0), none,
      some ⟨.cal 2002 5 5, 0, 0, 0, ⟨0, 0⟩⟩, 1⟩ := by decide +kernel

/-- The instants of the first `fuel` points of a recurrence with a start and no end. -/
theorem mem_fwd_unbounded (m : Mode) (r : Rec) (d : Dur) (L : Int) (hr : ExactRec m r d L) (s : TP)
    (hs : r.start = some s) (hen : r.end_ = none) (x : Int) (fuel : Nat) :
    (∃ q ∈ iter m r fuel, q.inst m = x) ↔ ∃ k : Nat, k < fuel ∧ x = s.inst m + (k : Int) * L := by
  obtain ⟨a, _, c⟩ := iterFrom_fwd m r d L hr fuel s (hr.startValid s hs)
    (fun s' h => by rw [hs] at h; cases h; exact Int.le_refl _)
  rw [← iter_fwd m r d L hr s hs fuel] at a c
  rw [series_mem_iff m _ _ _ _ _ a x, c hen]

/-- The instants of the first `fuel` points of a recurrence with an end and no start. -/
theorem mem_rev_unbounded (m : Mode) (r : Rec) (d : Dur) (L : Int) (hr : ExactRec m r d L) (e : TP)
    (hs : r.start = none) (he : r.end_ = some e) (x : Int) (fuel : Nat) :
    (∃ q ∈ iter m r fuel, q.inst m = x) ↔ ∃ k : Nat, k < fuel ∧ x = e.inst m - (k : Int) * L := by
  obtain ⟨a, _, c⟩ := iterFrom_rev m r d L hr fuel e (hr.endValid e he)
    (fun e' h => by rw [he] at h; cases h; exact Int.le_refl _)
  rw [← iter_rev m r d L hr e hs he fuel] at a c
  rw [series_mem_iff m _ _ _ _ _ a x, c hs]
  constructor
  · rintro ⟨k, hk, hx⟩; exact ⟨k, hk, by rw [hx, Int.mul_neg]; omega⟩
  · rintro ⟨k, hk, hx⟩; exact ⟨k, hk, by rw [hx, Int.mul_neg]; omega⟩

/-- With more than `⌊(x − s)/L⌋` points the bound on the index is no restriction. -/
theorem index_bound_drop (L : Int) (hpos : 0 < L) (x s : Int) (fuel : Nat) (hf : (x - s) / L < (fuel : Int)) :
    (∃ k : Nat, k < fuel ∧ x = s + (k : Int) * L) ↔ ∃ k : Nat, x = s + (k : Int) * L := by
  constructor
  · rintro ⟨k, _, h⟩; exact ⟨k, h⟩
  · rintro ⟨k, h⟩
    refine ⟨k, ?_, h⟩
    have e : x - s = (k : Int) * L := by omega
    rw [e, natmul_ediv L hpos k] at hf
    omega

/-! ### `get_is_valid`: R/start/duration -/

/-- **get_is_valid**, unbounded start/duration with an exact interval.  Python's loop runs until a
    point equals the probe or (early exit) is later than it; the fuel is how many points the loop
    is allowed to visit.  With any fuel greater than `⌊(p − start)/L⌋` (for a probe before the
    start: any fuel at all) the answer is membership of the visited points by instant, which is:
    the probe is at `start + k·L` for some `k ≥ 0` — equivalently it is within the bounds and
    `p − start` is a multiple of `L` — whatever representation or offset the probe is written in;
    and any larger fuel gives the same answer (the loop has already stopped). -/
theorem C13_is_valid_start_duration_unbounded (m : Mode) (s : TP) (d : Dur) (hs : s.Valid m)
    (hex : d.isExact = true) (hpos : 0 < d.exactSeconds m) (p : TP) (hp : p.Valid m) (fuel : Nat)
    (hf : (p.inst m - s.inst m) / d.exactSeconds m < (fuel : Int)) :
    ∃ r, mkRec m none (some s) (some d) none = some r ∧
      (getIsValid m r p fuel = true ↔ ∃ q ∈ iter m r fuel, q.inst m = p.inst m) ∧
      ((∃ q ∈ iter m r fuel, q.inst m = p.inst m) ↔
        ∃ k : Nat, p.inst m = s.inst m + (k : Int) * d.exactSeconds m) ∧
      (getIsValid m r p fuel = true ↔
        inBounds m r p = true ∧ (p.inst m - s.inst m) % d.exactSeconds m = 0) ∧
      (∀ fuel', fuel ≤ fuel' → getIsValid m r p fuel' = getIsValid m r p fuel) := by
  refine ⟨_, mkRec_fmt3_unbounded m s d hex hpos, ?_⟩
  have hx : ExactRec m ⟨none, some s, some d, none, none, 3⟩ d (d.exactSeconds m) :=
    exactRec_of m _ d rfl hex hpos (by simp) (fun s' h => by cases h; exact hs) (fun e' h => by cases h)
  have key : ∀ f : Nat, (p.inst m - s.inst m) / d.exactSeconds m < (f : Int) →
      (getIsValid m ⟨none, some s, some d, none, none, 3⟩ p f = true ↔
        ∃ k : Nat, p.inst m = s.inst m + (k : Int) * d.exactSeconds m) := by
    intro f hf'
    rw [valid_iff_mem_fwd m _ d _ hx s rfl p hp f, mem_fwd_unbounded m _ d _ hx s rfl rfl _ f,
      index_bound_drop _ hpos _ _ f hf']
  refine ⟨valid_iff_mem_fwd m _ d _ hx s rfl p hp fuel, ?_, ?_, ?_⟩
  · rw [mem_fwd_unbounded m _ d _ hx s rfl rfl _ fuel, index_bound_drop _ hpos _ _ fuel hf]
  · rw [key fuel hf, inBounds_iff m _ d _ hx p hp]
    have hm := nonneg_multiple_iff (d.exactSeconds m) hpos (p.inst m - s.inst m)
    constructor
    · rintro ⟨k, hk⟩
      have h2 := hm.mp ⟨k, by omega⟩
      exact ⟨⟨fun s' h => by cases h; omega, fun e' h => by cases h⟩, h2.2⟩
    · rintro ⟨⟨h1, _⟩, h2⟩
      obtain ⟨k, hk⟩ := hm.mpr ⟨by have := h1 s rfl; omega, h2⟩
      exact ⟨k, by omega⟩
  · intro fuel' hle
    rw [Bool.eq_iff_iff, key fuel hf, key fuel' (by omega)]

/-- 2002-05-04T23:00Z, `PT1H`; the probe 2002-05-05T01:00Z (`start + 2·PT1H`) written as an
    ordinal date at offset +02:00; three points visited (`3 > ⌊7200/3600⌋ = 2`). -/
example := C13_is_valid_start_duration_unbounded .greg ⟨.cal 2002 5 4, 23, 0, 0, ⟨0, 0⟩⟩ (.units 0 0 0 1 0 0)
  (by decide) (by decide) (by decide) ⟨.ord 2002 125, 3, 0, 0, ⟨2, 0⟩⟩ (by decide) 3 (by decide +kernel)
example : getIsValid .greg ⟨none, some ⟨.cal 2002 5 4, 23, 0, 0, ⟨0, 0⟩⟩, some (.units 0 0 0 1 0 0), none, none, 3⟩
    ⟨.ord 2002 125, 3, 0, 0, ⟨2, 0⟩⟩ 3 = true ∧
    -- half an hour off: not a member (the early exit is taken at the third point)
    getIsValid .greg ⟨none, some ⟨.cal 2002 5 4, 23, 0, 0, ⟨0, 0⟩⟩, some (.units 0 0 0 1 0 0), none, none, 3⟩
    ⟨.ord 2002 125, 2, 30, 0, ⟨2, 0⟩⟩ 3 = false ∧
    -- the fuel bound is sharp: with only two points visited the member is not reached
    getIsValid .greg ⟨none, some ⟨.cal 2002 5 4, 23, 0, 0, ⟨0, 0⟩⟩, some (.units 0 0 0 1 0 0), none, none, 3⟩
    ⟨.ord 2002 125, 3, 0, 0, ⟨2, 0⟩⟩ 2 = false := by decide +kernel

/-! ### `get_is_valid`: duration/end -/

/-- **get_is_valid**, duration/end with `n ≥ 2` repetitions and an exact interval (the start is
    derived, `end − (n−1)·d`, and iteration runs forwards from it; neither early exit applies, so
    all `n` points may be visited): true exactly when iteration yields a point at the probe's
    instant, i.e. iff the probe is at `end − k·d` for some `0 ≤ k < n` — whatever representation
    or offset the probe is written in. -/
theorem C13_is_valid_duration_end (m : Mode) (n : Nat) (e : TP) (d : Dur) (hn : 2 ≤ n) (he : e.Valid m)
    (hex : d.isExact = true) (hpos : 0 < d.exactSeconds m) (fuel : Nat) (hf : n ≤ fuel)
    (p : TP) (hp : p.Valid m) :
    ∃ r, mkRec m (some (n : Int)) none (some d) (some e) = some r ∧
      (getIsValid m r p fuel = true ↔ ∃ q ∈ iter m r fuel, q.inst m = p.inst m) ∧
      ((∃ q ∈ iter m r fuel, q.inst m = p.inst m) ↔
        ∃ k : Nat, k < n ∧ p.inst m = e.inst m - (k : Int) * d.exactSeconds m) := by
  obtain ⟨r, hr, hlen, hser⟩ := C12_duration_end_bounded m n e d hn he hex hpos fuel hf
  obtain ⟨s, hr', ss, _, _, _⟩ := mkRec_fmt4_bounded m n e d (by omega) he hex hpos
  rw [hr] at hr'
  have hre : r = ⟨some (n : Int), some s, some d, some e, none, 4⟩ := by simpa using hr'
  have hx : ExactRec m r d (d.exactSeconds m) := by
    rw [hre]
    exact exactRec_of m _ d rfl hex hpos (by simp; omega) (fun s' h => by cases h; exact ss.1)
      (fun e' h => by cases h; exact he)
  refine ⟨r, hr, valid_iff_mem_fwd m r d _ hx s (by rw [hre]) p hp fuel, ?_⟩
  rw [series_mem_iff m _ _ _ _ _ hser, hlen]
  constructor
  · rintro ⟨i, hi, hxe⟩
    exact ⟨n - 1 - i, by omega, by rw [hxe, rev_index _ n i (n - 1 - i) (by omega)]⟩
  · rintro ⟨k, hk, hxe⟩
    exact ⟨n - 1 - k, by omega, by rw [hxe, rev_index _ n (n - 1 - k) k (by omega)]⟩

/-- `R3/PT1H/2002-05-05T01:00Z`; the probe is `end − 2·PT1H` in week-date form at offset −01:00. -/
example := C13_is_valid_duration_end .greg 3 ⟨.cal 2002 5 5, 1, 0, 0, ⟨0, 0⟩⟩ (.units 0 0 0 1 0 0)
  (by decide) (by decide) (by decide) (by decide) 5 (by decide) ⟨.week 2002 18 6, 22, 0, 0, ⟨-1, 0⟩⟩ (by decide)
example : ∃ r, mkRec .greg (some 3) none (some (.units 0 0 0 1 0 0)) (some ⟨.cal 2002 5 5, 1, 0, 0, ⟨0, 0⟩⟩) = some r ∧
    getIsValid .greg r ⟨.week 2002 18 6, 22, 0, 0, ⟨-1, 0⟩⟩ 5 = true ∧
    getIsValid .greg r ⟨.week 2002 18 6, 21, 0, 0, ⟨-1, 0⟩⟩ 5 = false :=
  ⟨⟨some 3, some ⟨.cal 2002 5 4, 23, 0, 0, ⟨0, 0⟩⟩, some (.units 0 0 0 1 0 0), some ⟨.cal 2002 5 5, 1, 0, 0, ⟨0, 0⟩⟩,
    none, 4⟩, by decide +kernel, by decide +kernel, by decide +kernel⟩

/-- With more than `⌊(e − x)/L⌋` points the bound on the index is no restriction (backwards). -/
theorem index_bound_drop_rev (L : Int) (hpos : 0 < L) (x e : Int) (fuel : Nat) (hf : (e - x) / L < (fuel : Int)) :
    (∃ k : Nat, k < fuel ∧ x = e - (k : Int) * L) ↔ ∃ k : Nat, x = e - (k : Int) * L := by
  constructor
  · rintro ⟨k, _, h⟩; exact ⟨k, h⟩
  · rintro ⟨k, h⟩
    refine ⟨k, ?_, h⟩
    have e' : e - x = (k : Int) * L := by omega
    rw [e', natmul_ediv L hpos k] at hf
    omega

/-- **get_is_valid**, unbounded duration/end with an exact interval.  There is no start, so
    iteration runs backwards from the end and Python's loop stops at a point equal to the probe or
    (early exit) earlier than it.  With any fuel greater than `⌊(end − p)/L⌋` (for a probe after
    the end: any fuel at all) the answer is membership of the visited points by instant, which is:
    the probe is at `end − k·L` for some `k ≥ 0` — equivalently it is within the bounds and
    `end − p` is a multiple of `L`; and any larger fuel gives the same answer. -/
theorem C13_is_valid_duration_end_unbounded (m : Mode) (e : TP) (d : Dur) (he : e.Valid m)
    (hex : d.isExact = true) (hpos : 0 < d.exactSeconds m) (p : TP) (hp : p.Valid m) (fuel : Nat)
    (hf : (e.inst m - p.inst m) / d.exactSeconds m < (fuel : Int)) :
    ∃ r, mkRec m none none (some d) (some e) = some r ∧
      (getIsValid m r p fuel = true ↔ ∃ q ∈ iter m r fuel, q.inst m = p.inst m) ∧
      ((∃ q ∈ iter m r fuel, q.inst m = p.inst m) ↔
        ∃ k : Nat, p.inst m = e.inst m - (k : Int) * d.exactSeconds m) ∧
      (getIsValid m r p fuel = true ↔
        inBounds m r p = true ∧ (e.inst m - p.inst m) % d.exactSeconds m = 0) ∧
      (∀ fuel', fuel ≤ fuel' → getIsValid m r p fuel' = getIsValid m r p fuel) := by
  refine ⟨_, mkRec_fmt4_unbounded m e d hex hpos, ?_⟩
  have hx : ExactRec m ⟨none, none, some d, some e, none, 4⟩ d (d.exactSeconds m) :=
    exactRec_of m _ d rfl hex hpos (by simp) (fun s' h => by cases h) (fun e' h => by cases h; exact he)
  have key : ∀ f : Nat, (e.inst m - p.inst m) / d.exactSeconds m < (f : Int) →
      (getIsValid m ⟨none, none, some d, some e, none, 4⟩ p f = true ↔
        ∃ k : Nat, p.inst m = e.inst m - (k : Int) * d.exactSeconds m) := by
    intro f hf'
    rw [valid_iff_mem_rev m _ d _ hx e rfl rfl p hp f, mem_rev_unbounded m _ d _ hx e rfl rfl _ f,
      index_bound_drop_rev _ hpos _ _ f hf']
  refine ⟨valid_iff_mem_rev m _ d _ hx e rfl rfl p hp fuel, ?_, ?_, ?_⟩
  · rw [mem_rev_unbounded m _ d _ hx e rfl rfl _ fuel, index_bound_drop_rev _ hpos _ _ fuel hf]
  · rw [key fuel hf, inBounds_iff m _ d _ hx p hp]
    have hm := nonneg_multiple_iff (d.exactSeconds m) hpos (e.inst m - p.inst m)
    constructor
    · rintro ⟨k, hk⟩
      have h2 := hm.mp ⟨k, by omega⟩
      exact ⟨⟨fun s' h => (by cases h), fun e' h => (by cases h; omega)⟩, h2.2⟩
    · rintro ⟨⟨_, h1⟩, h2⟩
      obtain ⟨k, hk⟩ := hm.mpr ⟨by have := h1 e rfl; omega, h2⟩
      exact ⟨k, by omega⟩
  · intro fuel' hle
    rw [Bool.eq_iff_iff, key fuel hf, key fuel' (by omega)]

/-- `R/PT1H/2002-05-05T01:00Z`; the probe is `end − 2·PT1H` in week-date form at offset −01:00. -/
example := C13_is_valid_duration_end_unbounded .greg ⟨.cal 2002 5 5, 1, 0, 0, ⟨0, 0⟩⟩ (.units 0 0 0 1 0 0)
  (by decide) (by decide) (by decide) ⟨.week 2002 18 6, 22, 0, 0, ⟨-1, 0⟩⟩ (by decide) 3 (by decide +kernel)
example : getIsValid .greg ⟨none, none, some (.units 0 0 0 1 0 0), some ⟨.cal 2002 5 5, 1, 0, 0, ⟨0, 0⟩⟩, none, 4⟩
    ⟨.week 2002 18 6, 22, 0, 0, ⟨-1, 0⟩⟩ 3 = true ∧
    getIsValid .greg ⟨none, none, some (.units 0 0 0 1 0 0), some ⟨.cal 2002 5 5, 1, 0, 0, ⟨0, 0⟩⟩, none, 4⟩
    ⟨.week 2002 18 6, 22, 0, 1, ⟨-1, 0⟩⟩ 3 = false ∧
    getIsValid .greg ⟨none, none, some (.units 0 0 0 1 0 0), some ⟨.cal 2002 5 5, 1, 0, 0, ⟨0, 0⟩⟩, none, 4⟩
    ⟨.week 2002 18 6, 22, 0, 0, ⟨-1, 0⟩⟩ 2 = false := by decide +kernel

/-! ### `r[i]` -/

/-- **`r[i]`** is the `i`-th point of any run of `__iter__` that visits more than `i` points —
    `none` (`IndexError`) when the iteration ends earlier.  Every recurrence (any interval). -/
theorem C13_getitem_is_iter (m : Mode) (r : Rec) (i fuel : Nat) (h : i < fuel) :
    getItem m r i = (iter m r fuel)[i]? := by
  unfold getItem; exact (iter_prefix m r i fuel h).symm

example : getItem .greg ⟨some 12, some ⟨.week 2004 31 2, 23, 59, 0, ⟨0, 0⟩⟩, some (.units 1 13 0 0 0 0),
    some ⟨.week 2027 26 1, 23, 59, 0, ⟨0, 0⟩⟩, none, 3⟩ 2 =
    (iter .greg ⟨some 12, some ⟨.week 2004 31 2, 23, 59, 0, ⟨0, 0⟩⟩, some (.units 1 13 0 0 0 0),
    some ⟨.week 2027 26 1, 23, 59, 0, ⟨0, 0⟩⟩, none, 3⟩ 30)[2]? := by decide +kernel

/-- **`r[i]`**, duration/end with `n ≥ 2` repetitions and an exact interval.  The start is derived
    (`end − (n−1)·d`) and `__iter__` runs FORWARDS from it, so `r[0]` is the derived start and
    `r[n−1]` the given end: `r[i]` is at instant `end − (n−1−i)·d` for `i < n`, written in the
    end's representation and offset, and an `IndexError` (`none`) from `n` on. -/
theorem C13_getitem_duration_end (m : Mode) (n : Nat) (e : TP) (d : Dur) (hn : 2 ≤ n) (he : e.Valid m)
    (hex : d.isExact = true) (hpos : 0 < d.exactSeconds m) (i : Nat) :
    ∃ r, mkRec m (some (n : Int)) none (some d) (some e) = some r ∧
      (i < n → ∃ p, getItem m r i = some p ∧
        p.inst m = e.inst m - ((n : Int) - 1 - (i : Int)) * d.exactSeconds m ∧
        p.Valid m ∧ p.date.rep = e.date.rep ∧ p.tz = e.tz) ∧
      (n ≤ i → getItem m r i = none) := by
  obtain ⟨r, hr, hlen, hser⟩ := C12_duration_end_bounded m n e d hn he hex hpos (max n (i + 1)) (by omega)
  refine ⟨r, hr, ?_, ?_⟩
  · intro hi
    obtain ⟨p, e1, e2, e3⟩ := series_getElem? m _ _ _ _ _ hser i (by omega)
    refine ⟨p, ?_, ?_, e3⟩
    · rw [C13_getitem_is_iter m r i (max n (i + 1)) (by omega)]; exact e1
    · rw [e2, Int.sub_mul, Int.sub_mul, Int.mul_comm (n : Int)]
      rw [Int.mul_sub]; omega
  · intro hi
    rw [C13_getitem_is_iter m r i (max n (i + 1)) (by omega)]
    apply List.getElem?_eq_none
    omega

example := C13_getitem_duration_end .greg 3 ⟨.cal 2002 5 5, 1, 0, 0, ⟨0, 0⟩⟩ (.units 0 0 0 1 0 0)
  (by decide) (by decide) (by decide) (by decide) 1
/-- The reverse-order reading of `r[i]` for the BOUNDED duration/end notation is false of the code:
    `R3/PT1H/2002-05-05T01:00Z` has `r[0]` = 2002-05-04T23:00Z (the derived start), not the end. -/
theorem C13_getitem_duration_end_forward_witness :
    ∃ r, mkRec .greg (some 3) none (some (.units 0 0 0 1 0 0)) (some ⟨.cal 2002 5 5, 1, 0, 0, ⟨0, 0⟩⟩) = some r ∧
      getItem .greg r 0 = some ⟨.cal 2002 5 4, 23, 0, 0, ⟨0, 0⟩⟩ ∧
      getItem .greg r 2 = some ⟨.cal 2002 5 5, 1, 0, 0, ⟨0, 0⟩⟩ ∧ getItem .greg r 3 = none :=
  ⟨⟨some 3, some ⟨.cal 2002 5 4, 23, 0, 0, ⟨0, 0⟩⟩, some (.units 0 0 0 1 0 0), some ⟨.cal 2002 5 5, 1, 0, 0, ⟨0, 0⟩⟩,
    none, 4⟩, by decide +kernel, by decide +kernel, by decide +kernel, by decide +kernel⟩

/-- **`r[i]`**, unbounded start/duration with an exact interval: every index is defined, and
    `r[i]` is at instant `start + i·d`, in the start's representation and offset. -/
theorem C13_getitem_unbounded (m : Mode) (s : TP) (d : Dur) (hs : s.Valid m)
    (hex : d.isExact = true) (hpos : 0 < d.exactSeconds m) (i : Nat) :
    ∃ r, mkRec m none (some s) (some d) none = some r ∧
      ∃ p, getItem m r i = some p ∧ p.inst m = s.inst m + (i : Int) * d.exactSeconds m ∧
        p.Valid m ∧ p.date.rep = s.date.rep ∧ p.tz = s.tz := by
  obtain ⟨r, hr, hlen, hser⟩ := C12_start_duration_unbounded m s d hs hex hpos (i + 1)
  obtain ⟨p, e1, e2⟩ := series_getElem? m _ _ _ _ _ hser i (by omega)
  exact ⟨r, hr, p, e1, e2⟩

example := C13_getitem_unbounded .greg ⟨.cal 2002 5 4, 23, 0, 0, ⟨0, 0⟩⟩ (.units 0 0 0 1 0 0)
  (by decide) (by decide) (by decide) 26
example : getItem .greg ⟨none, some ⟨.cal 2002 5 4, 23, 0, 0, ⟨0, 0⟩⟩, some (.units 0 0 0 1 0 0), none, none, 3⟩ 26 =
    some ⟨.cal 2002 5 6, 1, 0, 0, ⟨0, 0⟩⟩ := by decide +kernel

/-- **`r[i]`**, unbounded duration/end with an exact interval: there is no start, `__iter__` runs
    BACKWARDS from the end, so `r[i]` is at instant `end − i·d` for every `i`. -/
theorem C13_getitem_duration_end_unbounded (m : Mode) (e : TP) (d : Dur) (he : e.Valid m)
    (hex : d.isExact = true) (hpos : 0 < d.exactSeconds m) (i : Nat) :
    ∃ r, mkRec m none none (some d) (some e) = some r ∧
      ∃ p, getItem m r i = some p ∧ p.inst m = e.inst m - (i : Int) * d.exactSeconds m ∧
        p.Valid m ∧ p.date.rep = e.date.rep ∧ p.tz = e.tz := by
  obtain ⟨r, hr, hlen, hser⟩ := C12_duration_end_unbounded m e d he hex hpos (i + 1)
  obtain ⟨p, e1, e2, e3⟩ := series_getElem? m _ _ _ _ _ hser i (by omega)
  exact ⟨r, hr, p, e1, by rw [e2, Int.mul_neg]; omega, e3⟩

example := C13_getitem_duration_end_unbounded .greg ⟨.cal 2002 5 5, 1, 0, 0, ⟨0, 0⟩⟩ (.units 0 0 0 1 0 0)
  (by decide) (by decide) (by decide) 2
example : getItem .greg ⟨none, none, some (.units 0 0 0 1 0 0), some ⟨.cal 2002 5 5, 1, 0, 0, ⟨0, 0⟩⟩, none, 4⟩ 2 =
    some ⟨.cal 2002 5 4, 23, 0, 0, ⟨0, 0⟩⟩ := by decide +kernel

/-! ### `get_first_after` outside the bounds, and leastness inside -/

/-- **get_first_after** for a probe outside the bounds — every recurrence that has a start point,
    whatever its interval (exact, month/year, or none): a probe earlier than the start gives the
    start; a probe later than the end (bounded recurrence, start not after end) gives `None`. -/
theorem C13_first_after_outside (m : Mode) (r : Rec) (s : TP) (hs : r.start = some s) (hsv : s.Valid m)
    (p : TP) (hp : p.Valid m) (fuel : Nat) :
    (p.inst m < s.inst m → getFirstAfter m r p fuel = some s) ∧
    (∀ e, r.end_ = some e → e.Valid m → s.inst m ≤ e.inst m → e.inst m < p.inst m →
      getFirstAfter m r p fuel = none) := by
  constructor
  · intro h
    exact getFirstAfter_before_start m r s p hs ((tpLt_iff m p s hp hsv).mpr h) fuel
  · intro e he hev hse h
    have hns : tpLt m p s = false := by
      cases c : tpLt m p s
      · rfl
      · have := (tpLt_iff m p s hp hsv).mp c; omega
    exact getFirstAfter_after_end m r s e p hs he ((tpGt_iff m p e hp hev).mpr h) hns fuel

/-- A month interval (`R3/2002-01-31T00:00Z/P1M`, end 2002-03-31): before the start, after the end. -/
example : getFirstAfter .greg ⟨some 3, some ⟨.cal 2002 1 31, 0, 0, 0, ⟨0, 0⟩⟩, some (.units 0 1 0 0 0 0),
      some ⟨.cal 2002 3 31, 0, 0, 0, ⟨0, 0⟩⟩, none, 3⟩ ⟨.ord 2002 30, 23, 0, 0, ⟨0, 0⟩⟩ 10 =
      some ⟨.cal 2002 1 31, 0, 0, 0, ⟨0, 0⟩⟩ ∧
    getFirstAfter .greg ⟨some 3, some ⟨.cal 2002 1 31, 0, 0, 0, ⟨0, 0⟩⟩, some (.units 0 1 0 0 0 0),
      some ⟨.cal 2002 3 31, 0, 0, 0, ⟨0, 0⟩⟩, none, 3⟩ ⟨.ord 2002 90, 0, 0, 1, ⟨0, 0⟩⟩ 10 = none := by
  decide +kernel
example := (C13_first_after_outside .greg ⟨some 3, some ⟨.cal 2002 1 31, 0, 0, 0, ⟨0, 0⟩⟩, some (.units 0 1 0 0 0 0),
      some ⟨.cal 2002 3 31, 0, 0, 0, ⟨0, 0⟩⟩, none, 3⟩ ⟨.cal 2002 1 31, 0, 0, 0, ⟨0, 0⟩⟩ rfl (by decide)
      ⟨.ord 2002 90, 0, 0, 1, ⟨0, 0⟩⟩ (by decide) 10).2 ⟨.cal 2002 3 31, 0, 0, 0, ⟨0, 0⟩⟩ rfl (by decide)
      (by decide +kernel) (by decide +kernel)

/-- **get_first_after**, closed form, is the LEAST later member.  For a probe within the bounds of
    a recurrence with exact interval `L` and start `s`: a result `q` is a member (`s + j·L`, within
    the bounds), strictly later than the probe, and no member `s + k·L` strictly later than the
    probe is earlier than `q`; and when the result is `None` every `s + k·L` strictly later than
    the probe lies beyond the end point — nothing later exists in the series. -/
theorem C13_first_after_least (m : Mode) (r : Rec) (d : Dur) (L : Int) (hr : ExactRec m r d L) (s : TP)
    (hs : r.start = some s) (p : TP) (hp : p.Valid m) (fuel : Nat) (hb : inBounds m r p = true) :
    (∀ q, getFirstAfter m r p fuel = some q →
      (∃ j : Nat, q.inst m = s.inst m + (j : Int) * L) ∧ inBounds m r q = true ∧ p.inst m < q.inst m ∧
      ∀ k : Nat, p.inst m < s.inst m + (k : Int) * L → q.inst m ≤ s.inst m + (k : Int) * L) ∧
    (getFirstAfter m r p fuel = none →
      ∀ k : Nat, p.inst m < s.inst m + (k : Int) * L →
        ∃ e, r.end_ = some e ∧ e.inst m < s.inst m + (k : Int) * L) := by
  obtain ⟨q0, g, hq, hlt, hle, hfa⟩ := (C13_first_after_exact m r d L hr s hs p hp fuel).1 hb
  have hpos := hr.pos
  have hge : s.inst m ≤ p.inst m := ((inBounds_iff m r d L hr p hp).mp hb).1 s hs
  have hJ : 0 ≤ (p.inst m - s.inst m) / L + 1 := by
    have := Int.ediv_nonneg (show 0 ≤ p.inst m - s.inst m by omega) (Int.le_of_lt hpos); omega
  have least : ∀ k : Nat, p.inst m < s.inst m + (k : Int) * L → q0.inst m ≤ s.inst m + (k : Int) * L :=
    fun k hk => least_member L hpos _ _ _ _ hq hle k hk
  constructor
  · intro q hq'
    rw [hfa] at hq'
    by_cases cb : inBounds m r q0 = true
    · rw [if_pos cb] at hq'
      cases hq'
      refine ⟨⟨((p.inst m - s.inst m) / L + 1).toNat, ?_⟩, cb, hlt, least⟩
      rw [Int.toNat_of_nonneg hJ]; exact hq
    · rw [if_neg cb] at hq'; cases hq'
  · intro hnone k hk
    rw [hfa] at hnone
    by_cases cb : inBounds m r q0 = true
    · rw [if_pos cb] at hnone; cases hnone
    · cases he : r.end_ with
      | none =>
        exfalso; apply cb
        rw [inBounds_iff m r d L hr q0 g.strict.1]
        exact ⟨fun s' h => by rw [hs] at h; cases h; omega, fun e h => by rw [he] at h; cases h⟩
      | some e =>
        refine ⟨e, rfl, ?_⟩
        have hlk := least k hk
        have : ¬ q0.inst m ≤ e.inst m := by
          intro hqe
          apply cb
          rw [inBounds_iff m r d L hr q0 g.strict.1]
          exact ⟨fun s' h => by rw [hs] at h; cases h; omega,
            fun e' h => by rw [he] at h; cases h; exact hqe⟩
        omega

/-- `R3/2002-05-04T23:00Z/PT1H` (end 01:00Z): probe 23:30Z in ordinal form is within the bounds. -/
example : inBounds .greg ⟨some 3, some ⟨.cal 2002 5 4, 23, 0, 0, ⟨0, 0⟩⟩, some (.units 0 0 0 1 0 0),
    some ⟨.cal 2002 5 5, 1, 0, 0, ⟨0, 0⟩⟩, none, 3⟩ ⟨.ord 2002 124, 23, 30, 0, ⟨0, 0⟩⟩ = true := by decide +kernel
example := C13_first_after_least .greg ⟨some 3, some ⟨.cal 2002 5 4, 23, 0, 0, ⟨0, 0⟩⟩, some (.units 0 0 0 1 0 0),
    some ⟨.cal 2002 5 5, 1, 0, 0, ⟨0, 0⟩⟩, none, 3⟩ (.units 0 0 0 1 0 0) 3600
    ⟨rfl, rfl, by decide, by decide, by decide, fun s h => by cases h; decide, fun e h => by cases h; decide⟩
    ⟨.cal 2002 5 4, 23, 0, 0, ⟨0, 0⟩⟩ rfl ⟨.ord 2002 124, 23, 30, 0, ⟨0, 0⟩⟩ (by decide) 10 (by decide +kernel)

end IsoDT.Props.C13
