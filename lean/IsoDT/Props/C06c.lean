/-
  C06 (text side, all literal-zone spellings) — "dumping with a format that spells out a literal zone
  (Z, or a numeric ±hh, ±hhmm, ±hh:mm) … carries exactly the requested offset".

  `Props/C06b` proves this for the literal `±hh:mm` in the three standard extended formats and a dumper
  without expanded digits.  Here: every spelling — `±hh:mm` (extended), `±hhmm` (basic), `±hh` (both;
  whole-hour offsets) and `Z` — in every complete basic or extended format (calendar, ordinal or week
  date, whatever the point's own representation; optionally `+X` and a decimal part), every legal
  offset −99:59 … +99:59 including zero hours with negative minutes (`-00:30`, `-0030`), every
  regenerated dumper table.

  `_get_expression_and_properties` cuts the zone off the time at its sign (`Z`: at the end), asks
  `get_time_zone` — the default `TimePointParser()` — what offset the text spells, and runs the zone
  substitution rules over the literal (only a leading `+` is replaced, by the point's zone sign);
  `_dump_expression_with_properties` re-zones the point to that offset before printing.  The model
  mirrors this (`Text.getExpr`, `getTimeZone`, `dumpExpr`); the theorems below are about the model's
  functions and are instances of the custom-format theorems of `Props/C08c`.
-/
import IsoDT.Props.C06b
import IsoDT.Props.C08c

namespace IsoDT.Props.C06
open IsoDT IsoDT.Model IsoDT.Lemmas IsoDT.Text IsoDT.Text.Custom
open IsoDT.Spec (Date TZ TP)
open _root_.IsoDT.Gen.Templates (dumpTables parserTables dumper_0 dumper_2 dumper_3)

/-! ## Reading the literal zone -/

/-- **`get_time_zone`, all spellings**: the dumper reads a literal `±hh:mm`, `±hhmm` or `±hh` spelling a
    legal offset (the hours-only spelling: an offset of whole hours) as exactly that offset — also
    `-00:30` and `-0030`, zero hours with negative minutes, where the sign lives on the minutes alone. -/
theorem C06_literal_zone_read_all (ext : Bool) (s : ZStyle) (z : TZ) (hz : z.Valid)
    (hs : s = .h → z.mi = 0) :
    getTimeZone (zsign z :: zoneDigits ext s z) = some (z.h, z.mi) := getTimeZone_litZone ext s z hz hs

/-- `Z` is UTC (the dumper does not even ask `get_time_zone` for it, but the answer is the same). -/
theorem C06_literal_zone_read_Z : getTimeZone ['Z'] = some (0, 0) := getTimeZone_Z

example : zsign ⟨0, -30⟩ :: zoneDigits false .hm ⟨0, -30⟩ = "-0030".toList ∧
    getTimeZone (zsign ⟨0, -30⟩ :: zoneDigits false .hm ⟨0, -30⟩) = some (0, -30) :=
  ⟨by decide +kernel, C06_literal_zone_read_all false .hm ⟨0, -30⟩ (by decide) (by decide)⟩
example : zsign ⟨0, -30⟩ :: zoneDigits true .hm ⟨0, -30⟩ = "-00:30".toList ∧
    getTimeZone (zsign ⟨0, -30⟩ :: zoneDigits true .hm ⟨0, -30⟩) = some (0, -30) :=
  ⟨by decide +kernel, C06_literal_zone_read_all true .hm ⟨0, -30⟩ (by decide) (by decide)⟩
example : zsign ⟨-5, 0⟩ :: zoneDigits true .h ⟨-5, 0⟩ = "-05".toList ∧
    getTimeZone (zsign ⟨-5, 0⟩ :: zoneDigits true .h ⟨-5, 0⟩) = some (-5, 0) :=
  ⟨by decide +kernel, C06_literal_zone_read_all true .h ⟨-5, 0⟩ (by decide) (by decide)⟩
example : zsign ⟨99, 59⟩ :: zoneDigits false .hm ⟨99, 59⟩ = "+9959".toList ∧
    getTimeZone (zsign ⟨99, 59⟩ :: zoneDigits false .hm ⟨99, 59⟩) = some (99, 59) :=
  ⟨by decide +kernel, C06_literal_zone_read_all false .hm ⟨99, 59⟩ (by decide) (by decide)⟩

/-! ## The formats with a literal zone -/

/-- The zone expression spells a zone out: `Z` or a literal numeric offset (not a placeholder). -/
def LiteralZone : ZSpec → Prop
  | .utc => True
  | .lit _ _ => True
  | .own _ => False

/-- The offset a literal zone requests. -/
def requested : ZSpec → TZ
  | .lit _ z => z
  | _ => ⟨0, 0⟩

theorem target_requested (zs : ZSpec) (h : LiteralZone zs) (p : TP) : zs.target p = requested zs := by
  cases zs with
  | utc => rfl
  | own s => exact absurd h (by simp [LiteralZone])
  | lit s z => rfl

/-- What the dumper extracts from such a format: the literal zone as `custom_time_zone`, the zone text
    kept in the expression with only a leading `+` turned into the zone-sign directive. -/
theorem C06_literal_zone_extracted (dt : DumpTables) (hdt : dt ∈ dumpTables) (f : CFmt) (hf : f.WF dt.ned)
    (hl : LiteralZone f.zone) :
    ∃ e, getExpr dt f.text = some e ∧ e.customTZ = some ((requested f.zone).h, (requested f.zone).mi) := by
  refine ⟨_, getExpr_custom dt hdt f hf, ?_⟩
  cases hzs : f.zone with
  | utc => simp [CFmt.expr, customC, hzs, requested]
  | own s => rw [hzs] at hl; exact absurd hl (by simp [LiteralZone])
  | lit s z => simp [CFmt.expr, customC, hzs, requested]

/-- **C06 (dump with a literal zone, all spellings)**: for every valid whole-second point `p` (any
    representation, calendar mode, offset; 24:00:00 included), every regenerated dumper table and every
    complete format whose zone is `Z` or a literal `±hh:mm` / `±hhmm` / `±hh` (any legal offset; whole
    hours for `±hh`), the dump succeeds whenever the year of the RE-ZONED point `q` is within the
    format's digits and prints `q` — date and time fields of `q` in the format's representation,
    followed by `Z` resp. the sign and digits of the literal offset. -/
theorem C06_dump_literal_zone_all (m : Mode) (dt : DumpTables) (hdt : dt ∈ dumpTables) (n : Nat) (f : CFmt)
    (hf : f.WF dt.ned) (p q : TP) (hv : p.Valid m) (hq : f.target m p = some q)
    (hy : YearInRange (f.yd dt.ned) (dateYear q.date)) :
    dump m dt (XTP.ofTP n p) f.text = .ok (customText dt.ned f q) :=
  C08.C08_custom_dump m dt hdt n f hf p q hv hq hy

/-- … and is the dumper's bounds error when re-zoning carries the year out of the format's digits. -/
theorem C06_dump_literal_zone_all_bounds (m : Mode) (dt : DumpTables) (hdt : dt ∈ dumpTables) (n : Nat)
    (f : CFmt) (hf : f.WF dt.ned) (p q : TP) (hv : p.Valid m) (hq : f.target m p = some q)
    (hy : ¬ YearInRange (f.yd dt.ned) (dateYear q.date)) :
    dump m dt (XTP.ofTP n p) f.text = .error .err :=
  C08.C08_custom_dump_bounds m dt hdt n f hf p q hv hq hy

/-- **C06 (literal-zone dump, round trip, all spellings)**: under the hypotheses of
    `C06_dump_literal_zone_all`, the printed text, read by any parser that knows the notation (extended
    allowed for an extended format, the dumper's expanded digits for a `+X` format; any
    `allow_truncated`, any default zone; same calendar mode), is the re-zoned point `q` field for field
    (with a `0` fraction if the format has a decimal part); `q` is the same instant as `p`, carries
    EXACTLY the requested offset — `+00:00` for `Z`, the literal offset otherwise, `-00:30` as zero
    hours and minus thirty minutes — is in the format's date representation and is valid. -/
theorem C06_dump_literal_zone_all_roundtrip (m : Mode) (dt : DumpTables) (hdt : dt ∈ dumpTables) (n : Nat)
    (f : CFmt) (hf : f.WF dt.ned) (hl : LiteralZone f.zone) (cfg : Cfg) (hpt : cfg.pt ∈ parserTables)
    (hm : cfg.mode = m) (hb : f.ext = true → cfg.pt.basicOnly = false)
    (hx : f.expanded = true → cfg.pt.ned = dt.ned) (p : TP) (hv : p.Valid m)
    (q : TP) (hq : f.target m p = some q) (hy : YearInRange (f.yd dt.ned) (dateYear q.date)) :
    ∃ text, dump m dt (XTP.ofTP n p) f.text = .ok text ∧ text = customText dt.ned f q ∧
      parse cfg text false = some (readBack (f.yd dt.ned) f.frac q) ∧
      q.inst m = p.inst m ∧ q.tz = requested f.zone ∧ q.date.rep = f.kind.k ∧ q.Valid m := by
  obtain ⟨text, h1, h2, h3, h4, h5, h6, h7⟩ :=
    C08.C08_custom_roundtrip m dt hdt n f hf cfg hpt hm hb hx p hv
      (by intro h; rw [h] at hl; exact absurd hl (by simp [LiteralZone])) q hq hy
  exact ⟨text, h1, h2, h3, h4, by rw [h5, target_requested f.zone hl], h6, h7⟩

/-- The re-zoned point exists for every valid point and legal literal zone (C06 + C03). -/
theorem C06_dump_literal_zone_all_target (m : Mode) (f : CFmt) (ned : Nat) (hf : f.WF ned)
    (hl : LiteralZone f.zone) (p : TP) (hv : p.Valid m) :
    ∃ q, f.target m p = some q ∧ q.Valid m ∧ q.date.rep = f.kind.k ∧ q.tz = requested f.zone ∧
      q.inst m = p.inst m := by
  obtain ⟨q, h1, h2, h3, h4, h5⟩ := C08.C08_custom_target m f ned hf p hv
  exact ⟨q, h1, h2, h3, by rw [h4, target_requested f.zone hl], h5⟩

/-! ## `Props/C06b` is the special case `±hh:mm`, extended, own representation, no expanded digits -/

def kindOf : Date → DateKind
  | .cal .. => .cal
  | .ord .. => .ord
  | .week .. => .week

theorem C06b_format_is_custom (d : Date) (z : TZ) :
    litFormat d z = (CFmt.mk false (kindOf d) true .none (.lit .hm z)).text := by
  cases d <;> simp [litFormat, litDateFmt, litZoneText, CFmt.text, yearFmt, bodyFmt, clockFmt, fracFmt,
    ZSpec.fmt, zsign, zoneDigits, kindOf]

/-! ## Non-vacuity: the spellings and corners the property names -/

/-- `-0030` (zero hours, negative minutes) in the standard basic calendar format, across the leap day. -/
example : ∃ text,
    dump .greg dumper_0 (XTP.ofTP 0 ⟨.cal 2000 3 1, 0, 10, 0, ⟨0, 0⟩⟩) "CCYYMMDDThhmmss-0030".toList = .ok text ∧
    text = "20000229T234000-0030".toList ∧
    parse ⟨Gen.Templates.parser_0_all, false, .unknown, .greg⟩ text false =
      some (XTP.ofTP 0 ⟨.cal 2000 2 29, 23, 40, 0, ⟨0, -30⟩⟩) ∧
    (⟨.cal 2000 2 29, 23, 40, 0, ⟨0, -30⟩⟩ : TP).inst .greg = (⟨.cal 2000 3 1, 0, 10, 0, ⟨0, 0⟩⟩ : TP).inst .greg ∧
    (⟨.cal 2000 2 29, 23, 40, 0, ⟨0, -30⟩⟩ : TP).tz = ⟨0, -30⟩ := by
  obtain ⟨text, h1, h2, h3, h4, h5, _⟩ :=
    C06_dump_literal_zone_all_roundtrip .greg dumper_0 (by simp [dumpTables]) 0
      ⟨false, .cal, false, .none, .lit .hm ⟨0, -30⟩⟩ (by decide) trivial
      ⟨Gen.Templates.parser_0_all, false, .unknown, .greg⟩ (.head _) rfl (by decide) (by decide)
      ⟨.cal 2000 3 1, 0, 10, 0, ⟨0, 0⟩⟩ (by decide +kernel)
      ⟨.cal 2000 2 29, 23, 40, 0, ⟨0, -30⟩⟩ (by decide +kernel) (by decide +kernel)
  exact ⟨text, h1.trans (by rfl), h2.trans (by decide +kernel), h3, h4, h5⟩

/-- `-00:30` in the extended ordinal format on a WEEK-date point, across the year boundary. -/
example : dump .greg dumper_0 (XTP.ofTP 0 ⟨.week 2020 53 5, 0, 10, 0, ⟨0, 0⟩⟩)
      "CCYY-DDDThh:mm:ss-00:30".toList = .ok "2020-366T23:40:00-00:30".toList :=
  (C06_dump_literal_zone_all .greg dumper_0 (by simp [dumpTables]) 0
    ⟨false, .ord, true, .none, .lit .hm ⟨0, -30⟩⟩ (by decide) ⟨.week 2020 53 5, 0, 10, 0, ⟨0, 0⟩⟩
    ⟨.ord 2020 366, 23, 40, 0, ⟨0, -30⟩⟩ (by decide +kernel) (by decide +kernel) (by decide +kernel)).trans
    (by decide +kernel)

/-- `+05` (hours only) in the basic week format. -/
example : dump .greg dumper_0 (XTP.ofTP 0 ⟨.cal 2000 3 1, 0, 10, 0, ⟨0, 0⟩⟩)
      "CCYYWwwDThhmmss+05".toList = .ok "2000W093T051000+05".toList :=
  (C06_dump_literal_zone_all .greg dumper_0 (by simp [dumpTables]) 0
    ⟨false, .week, false, .none, .lit .h ⟨5, 0⟩⟩ (by decide) ⟨.cal 2000 3 1, 0, 10, 0, ⟨0, 0⟩⟩
    ⟨.week 2000 9 3, 5, 10, 0, ⟨5, 0⟩⟩ (by decide +kernel) (by decide +kernel) (by decide +kernel)).trans
    (by decide +kernel)

/-- `Z` on a point at +05:30, 24:00:00: the previous evening in UTC. -/
example : dump .greg dumper_0 (XTP.ofTP 0 ⟨.ord 2001 1, 24, 0, 0, ⟨5, 30⟩⟩)
      ("CCYY-MM-DDThh:mm:ss".toList ++ ['Z']) = .ok "2001-01-01T18:30:00Z".toList :=
  (C06_dump_literal_zone_all .greg dumper_0 (by simp [dumpTables]) 0
    ⟨false, .cal, true, .none, .utc⟩ (by decide) ⟨.ord 2001 1, 24, 0, 0, ⟨5, 30⟩⟩
    ⟨.cal 2001 1 1, 18, 30, 0, ⟨0, 0⟩⟩ (by decide +kernel) (by decide +kernel) (by decide +kernel)).trans
    (by decide +kernel)

end IsoDT.Props.C06
